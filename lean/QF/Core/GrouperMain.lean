import QF.Core.GrouperGrow
/-! Prototype: assembly — every insertion preserves the invariants; groupBy partitions the rows. -/
namespace G

variable (hash : Nat → Nat) (eqv : Nat → Nat → Bool)

structure CInv (t : Tbl) : Prop where
  cnt : t.groupCount = countOcc t.slots
  lfn : t.lfNum = t.groupCount
  lfd : t.groupCount = 0 ∨ t.lfDen = t.slots.size
  big : 4 ≤ t.slots.size
  load : 2 * t.groupCount ≤ t.slots.size + 2

/-- after the growth check there is room: at most half of the slots are occupied -/
theorem growCheck (t : Tbl) (done : List Nat) (inv : SInv hash eqv t.slots done) (ci : CInv t) :
    ∃ t1, growIfNeeded {} t = some t1 ∧
      SInv hash eqv t1.slots done ∧ CInv t1 ∧ 2 * t1.groupCount ≤ t1.slots.size ∧
      (t1.groupCount = 0 ∨ t1.lfDen = t1.slots.size) := by
  unfold growIfNeeded
  have hmd : ({} : Cfg).maxDen = 2 := rfl
  have hmn : ({} : Cfg).maxNum = 1 := rfl
  rw [hmd, hmn]
  by_cases hc : t.lfNum * 2 > 1 * t.lfDen
  · simp only [hc, ↓reduceIte]
    obtain ⟨t', hg, inv', hs, hcnt, hgc, hln, hld⟩ := grow_preserves hash eqv t done inv (by have := ci.big; omega)
    have hg0 : t.groupCount ≠ 0 := by
      intro h0; have := ci.lfn; rw [h0] at this; rw [this] at hc; omega
    have hden : t.lfDen = t.slots.size := by rcases ci.lfd with h | h; exact absurd h hg0; exact h
    refine ⟨t', hg, inv', ⟨by rw [hgc, hcnt]; exact ci.cnt, by rw [hln, hgc]; exact ci.lfn, Or.inr (by rw [hld, hs, hden]; omega),
      by rw [hs]; have := ci.big; omega, by rw [hgc, hs]; have := ci.load; omega⟩, ?_, Or.inr (by rw [hld, hs, hden]; omega)⟩
    rw [hgc, hs]; have := ci.load; have := ci.big; omega
  · simp only [hc, ↓reduceIte]
    refine ⟨t, rfl, inv, ci, ?_, ci.lfd⟩
    rcases ci.lfd with h | h
    · rw [h]; omega
    · have := ci.lfn; rw [this, h] at hc; omega

theorem insertEntry_spec (t : Tbl) (done : List Nat) (inv : SInv hash eqv t.slots done) (ci : CInv t)
    (kr : KeyRel hash eqv) (i : Nat) (hi : i ∉ done) :
    ∃ t', insertEntry {} hash eqv t i true = some t' ∧ SInv hash eqv t'.slots (done ++ [i]) ∧ CInv t' := by
  obtain ⟨t1, hg, inv1, ci1, hload, _⟩ := growCheck hash eqv t done inv ci
  have hn : 0 < t1.slots.size := by have := ci1.big; omega
  have hcount : countOcc t1.slots < t1.slots.size := by rw [← ci1.cnt]; omega
  obtain ⟨p, c, hpr, hp, hcase⟩ := probe_result hash eqv t1.slots done inv1 kr hn (exists_empty_of_count _ hcount) i
  unfold insertEntry
  simp only [hg, Option.bind_some]
  unfold insertNoGrow
  simp only [hpr]
  rcases hcase with ⟨e, ho, he⟩ | ⟨hemp, hno, hc, hpw, hpath⟩
  · have ho' : t1.slots[p]? = some (some e) := ho
    simp only [ho', ↓reduceIte]
    refine ⟨_, rfl, insert_found hash eqv t1.slots done inv1 kr i p e hi hp ho he, ?_⟩
    exact ⟨by simp only; rw [countOcc_set_occ _ _ e _ ho']; exact ci1.cnt, ci1.lfn, by simpa using ci1.lfd,
      by simpa using ci1.big, by simpa using ci1.load⟩
  · simp only [hemp]
    refine ⟨_, rfl, insert_new hash eqv t1.slots done inv1 kr i p c hi hp hemp hno hc hpw hpath, ?_⟩
    exact ⟨by simp only; rw [countOcc_set_empty _ _ _ hemp, ci1.cnt], rfl, Or.inr (by simp),
      by simpa using ci1.big, by simp only [Array.size_setIfInBounds]; omega⟩


theorem foldlM_insert (kr : KeyRel hash eqv) :
    ∀ (rest done : List Nat) (t : Tbl), (done ++ rest).Nodup → SInv hash eqv t.slots done → CInv t →
      ∃ t', rest.foldlM (fun t i => insertEntry {} hash eqv t i true) t = some t' ∧
        SInv hash eqv t'.slots (done ++ rest) ∧ CInv t' := by
  intro rest
  induction rest with
  | nil => intro done t _ inv ci; exact ⟨t, rfl, by simpa using inv, ci⟩
  | cons i rest ih =>
    intro done t hnd inv ci
    have hi : i ∉ done := by
      intro h
      have := List.nodup_append.mp hnd
      exact this.2.2 i h i (by simp) rfl
    obtain ⟨t1, h1, inv1, ci1⟩ := insertEntry_spec hash eqv t done inv ci kr i hi
    obtain ⟨t2, h2, inv2, ci2⟩ := ih (done ++ [i]) t1 (by simpa using hnd) inv1 ci1
    exact ⟨t2, by simp only [List.foldlM_cons, h1, Option.bind_eq_bind, Option.bind_some]; exact h2, by simpa using inv2, ci2⟩

theorem init_inv (n : Nat) : SInv hash eqv (Array.replicate (2 ^ initialSizeExp n) (none : Option Entry)) [] ∧
    CInv { slots := Array.replicate (2 ^ initialSizeExp n) none } := by
  have hno : ∀ s e, ¬ occ (Array.replicate (2 ^ initialSizeExp n) (none : Option Entry)) s e := by
    intro s e h; unfold occ at h
    rw [Array.getElem?_replicate] at h; split at h <;> simp at h
  have h8 : 8 ≤ 2 ^ initialSizeExp n := by
    have : 3 ≤ initialSizeExp n := by unfold initialSizeExp; omega
    calc 8 = 2 ^ 3 := rfl
      _ ≤ 2 ^ initialSizeExp n := Nat.pow_le_pow_right (by omega) this
  refine ⟨⟨fun s e h => absurd h (hno s e), fun s e h => absurd h (hno s e), fun s1 s2 e1 e2 h => absurd h (hno s1 e1),
    fun s e h => absurd h (hno s e), by simp⟩, ⟨?_, rfl, Or.inl rfl, by simp; omega, by simp⟩⟩
  simp [countOcc, List.filter_eq_nil_iff]

/-- C04: GroupBy partitions the rows by key equality; each group lists its rows in frame order. -/
theorem groupBy_partition (kr : KeyRel hash eqv) (ix : List Nat) (hnd : ix.Nodup) :
    ∃ gs, groupBy {} hash eqv ix = some gs ∧
      (∀ g, g ∈ gs → ∃ f, f ∈ ix ∧ g = ix.filter (cls eqv f)) ∧
      (∀ j, j ∈ ix → ∃ g, g ∈ gs ∧ j ∈ g) ∧
      (∀ g1 g2, g1 ∈ gs → g2 ∈ gs → g1 ≠ g2 → ∀ a, a ∈ g1 → ∀ b, b ∈ g2 → a ≠ b ∧ eqv a b = false) := by
  obtain ⟨i0, c0⟩ := init_inv hash eqv ix.length
  obtain ⟨t, ht, inv, _⟩ := foldlM_insert hash eqv kr ix [] _ (by simpa using hnd) i0 c0
  simp only [List.nil_append] at inv
  have hgs : groupBy {} hash eqv ix = some (t.slots.toList.filterMap fun s => s.map members) := by
    unfold groupBy groupIndex; rw [ht]; rfl
  have of_mem : ∀ g, g ∈ (t.slots.toList.filterMap fun s => s.map members) → ∃ s e, occ t.slots s e ∧ g = members e := by
    intro g hg
    obtain ⟨o, ho, hm⟩ := List.mem_filterMap.mp hg
    cases o with
    | none => simp at hm
    | some e =>
      simp at hm
      obtain ⟨s, hs, hse⟩ := List.getElem_of_mem ho
      refine ⟨s, e, ?_, hm.symm⟩
      unfold occ
      have : t.slots.toList[s]? = some (some e) := by rw [List.getElem?_eq_getElem hs, hse]
      simpa using this
  have to_mem : ∀ s e, occ t.slots s e → members e ∈ (t.slots.toList.filterMap fun s => s.map members) := by
    intro s e h
    apply List.mem_filterMap.mpr
    refine ⟨some e, ?_, rfl⟩
    unfold occ at h
    have : t.slots.toList[s]? = some (some e) := by simpa using h
    exact List.mem_of_getElem? this
  have in_cls : ∀ s e a, occ t.slots s e → a ∈ members e → cls eqv e.firstPos a = true := by
    intro s e a h ha
    rw [(inv.mem s e h).1] at ha
    exact (List.mem_filter.mp ha).2
  refine ⟨_, hgs, ?_, ?_, ?_⟩
  · intro g hg
    obtain ⟨s, e, h, rfl⟩ := of_mem g hg
    exact ⟨e.firstPos, (inv.mem s e h).2, (inv.mem s e h).1⟩
  · intro j hj
    obtain ⟨s, e, h, hc⟩ := inv.cover j hj
    refine ⟨members e, to_mem s e h, ?_⟩
    rw [(inv.mem s e h).1]
    exact List.mem_filter.mpr ⟨hj, hc⟩
  · intro g1 g2 hg1 hg2 hne a ha b hb
    obtain ⟨s1, e1, h1, rfl⟩ := of_mem g1 hg1
    obtain ⟨s2, e2, h2, rfl⟩ := of_mem g2 hg2
    have hs : s1 ≠ s2 := by
      intro h; subst h
      have : e1 = e2 := by unfold occ at h1 h2; rw [h1] at h2; cases h2; rfl
      subst this; exact hne rfl
    obtain ⟨dq, df⟩ := inv.distinct s1 s2 e1 e2 h1 h2 hs
    have ca := in_cls s1 e1 a h1 ha
    have cb := in_cls s2 e2 b h2 hb
    unfold cls at ca cb
    -- any equivalence or equality between a and b would relate the two first rows
    have rel : ∀ x y, (x = e1.firstPos ∨ eqv x e1.firstPos = true) → (y = e2.firstPos ∨ eqv y e2.firstPos = true) →
        eqv x y = true → False := by
      intro x y hx hy hxy
      have : eqv e1.firstPos e2.firstPos = true := by
        rcases hx with rfl | hx <;> rcases hy with rfl | hy
        · exact hxy
        · exact kr.trans _ _ _ hxy hy
        · exact kr.trans _ _ _ (kr.symm _ _ hx) hxy
        · exact kr.trans _ _ _ (kr.trans _ _ _ (kr.symm _ _ hx) hxy) hy
      rw [dq] at this; cases this
    have hxa : a = e1.firstPos ∨ eqv a e1.firstPos = true := by
      rcases Bool.or_eq_true_iff.mp ca with h | h
      · exact Or.inl (by simpa using h)
      · exact Or.inr h
    have hyb : b = e2.firstPos ∨ eqv b e2.firstPos = true := by
      rcases Bool.or_eq_true_iff.mp cb with h | h
      · exact Or.inl (by simpa using h)
      · exact Or.inr h
    refine ⟨?_, ?_⟩
    · intro hab
      subst hab
      rcases hxa with h1' | h1' <;> rcases hyb with h2' | h2'
      · exact df (h1'.symm.trans h2')
      · subst h1'; rw [dq] at h2'; cases h2'
      · subst h2'; rw [kr.symm _ _ h1'] at dq; cases dq
      · have := kr.trans _ _ _ (kr.symm _ _ h1') h2'; rw [dq] at this; cases this
    · cases hv : eqv a b with
      | false => rfl
      | true => exact (rel a b hxa hyb hv).elim

#print axioms groupBy_partition
end G
