import QF.Spec.Sql
/-!
# SX — the language of `Column.Scan` and its helpers (/repo/internal/io/sql/column.go, coerce.go), and its Go semantics

    type Column struct { kind reflect.Kind; nulls int; ptr interface{}; data struct{ Ints …; Floats …; Bools …; Strings … };
                         coerce func(t interface{}) error; precision int }
    func (c *Column) Scan(t interface{}) error            func (c *Column) Null() error
    func (c *Column) Int(i int) · Float(f float64) · String(s string) · Bool(b bool)       func (c *Column) Data() interface{}
    func Int64ToBool(c *Column) func(t interface{}) error · StringToFloat(c *Column) func(t interface{}) error

The extractor (go/cmd/extract/sast.go) translates the body of each of these functions on every run into a decision tree
`SX` and writes them to `QF/Gen/Scan.lean`. The statements that follow an `if` / `switch` are carried into every branch, so
every path of a tree ends in a return. A type switch on the driver value and `v, ok := t.(T)` followed by a test of `ok`
become `ifDyn`; `err := c.Null(); if err != nil { return err }`, `return c.Null()` and
`f, err := strconv.ParseFloat(v, 64); if err != nil { … }` split the path where the call is made (`callNull`,
`parseFloat`); a second assertion on a path where the dynamic type is already known is decided at translation time, and
`v, ok = string(b), true` re-binds the value (`bindArg`); the counting loop `for i := 0; i < c.nulls; i++ { c.data.X = append(c.data.X, v) }` is `backfill`.

Terms name things by ROLE, never by Go identifier:
* the fields of the column struct by their types: the `reflect.Kind` field, the `interface{}` field (the pointer to the
  slice `Data()` returns), the function field (the coercion), the struct field with the four slices — told apart by their
  element types `int`, `float64`, `bool`, `*string` —, and the two `int` fields: the one a method increments is the NULL
  counter, the other one the precision;
* the methods by their signatures: `(interface{}) error` is `Scan` (`sql.Scanner`), `() error` is `Null`, `(int)`,
  `(float64)`, `(string)`, `(bool)` the four appenders, `() interface{}` is `Data`;
* the coercions — functions `(*Column) func(interface{}) error` — by the exported constant of `config/sql` that selects them;
* `reflect.Int` … by the kind they name; `float.Fixed` is the function `(float64, int) float64` of `internal/math/float`;
* the value of the call: the parameter / the variable bound by the type switch or assertion (`arg`), the result of
  `strconv.ParseFloat(·, 64)` (`parsed`).

`SX.run` is the Go meaning of a term over the state `SCol` of a column; `float.Fixed` and `strconv.ParseFloat` are
parameters (`SParams`). Untranslated code is `.opaque` and has no meaning (`SRes.stuck`).
-/
namespace QF

/-- `reflect.Kind` as far as the column uses it. -/
inductive SKind where
  | invalid | int | float | bool | string
  deriving DecidableEq, Repr, Inhabited

/-- The four slices of the column's data struct, by element type. -/
inductive SSlice where
  | ints | floats | bools | strings
  deriving DecidableEq, Repr, Inhabited

/-- The dynamic type of a driver value in a type switch / type assertion. -/
inductive SDyn where
  | bool | string | int64 | bytes | float64
  /-- `case nil` -/
  | null
  deriving DecidableEq, Repr, Inhabited

/-- The appender methods and `Null`, by signature. -/
inductive SMeth where
  | null | int | float | string | bool
  deriving DecidableEq, Repr, Inhabited

/-- Value expressions. -/
inductive SVE where
  /-- the parameter / the variable bound by the type switch or assertion -/
  | arg
  /-- the first result of `strconv.ParseFloat(arg, 64)` -/
  | parsed
  /-- `int(e)` of an `int64` -/
  | intOf (e : SVE)
  /-- `string(e)` of a `[]uint8` -/
  | stringOf (e : SVE)
  /-- `e != 0` -/
  | neZero (e : SVE)
  /-- `math.NaN()` -/
  | nan
  /-- `nil` as a `*string` -/
  | nilPtr
  /-- `&e` for a string variable -/
  | addrOf (e : SVE)
  | opaque (txt : String)
  deriving DecidableEq, Repr, Inhabited

/-- Conditions. -/
inductive SC where
  /-- `c.<ptr> == nil` -/
  | ptrNil
  /-- `c.<kind> == reflect.K` -/
  | kindIs (k : SKind)
  /-- `c.<nulls> > 0` -/
  | nullsPos
  /-- `c.<precision> > 0` -/
  | precPos
  /-- `c.<coerce> != nil` -/
  | hasCoerce
  /-- `t == nil` for the driver value -/
  | argNil
  | not (c : SC)
  | opaque (txt : String)
  deriving DecidableEq, Repr, Inhabited

/-- A function body as a decision tree. -/
inductive SX where
  | ifC (c : SC) (t e : SX)
  /-- `switch v := t.(type) { case T: t … }` / `v, ok := t.(T)`: in `t` the value is bound with its type -/
  | ifDyn (d : SDyn) (t e : SX)
  /-- `c.<nulls>++` -/
  | incNulls (k : SX)
  /-- `c.<nulls> = 0` -/
  | clearNulls (k : SX)
  /-- `c.<kind> = reflect.K` -/
  | setKind (kd : SKind) (k : SX)
  /-- `c.<ptr> = &c.<data>.<slice>` -/
  | setPtr (s : SSlice) (k : SX)
  /-- `c.<data>.<slice> = append(c.<data>.<slice>, v)` -/
  | append (s : SSlice) (v : SVE) (k : SX)
  /-- `for i := 0; i < c.<nulls>; i++ { c.<data>.<slice> = append(c.<data>.<slice>, v) }` -/
  | backfill (s : SSlice) (v : SVE) (k : SX)
  /-- `f = float.Fixed(f, c.<precision>)` for the parameter `f` -/
  | fixArg (k : SX)
  /-- `v = e` (as in `v, ok = string(b), true`): from here on the value variable is `e` -/
  | bindArg (v : SVE) (k : SX)
  /-- `c.<Method>(v)` for one of the four appenders -/
  | call (m : SMeth) (v : SVE) (k : SX)
  /-- `err := c.Null()`: the two paths `err != nil` / `err == nil` -/
  | callNull (onErr ok : SX)
  /-- `f, err := strconv.ParseFloat(arg, 64)`: the two paths -/
  | parseFloat (onErr ok : SX)
  /-- `return c.<coerce>(t)` -/
  | retCoerce
  /-- `return nil` of a function with an `error` result / the end of a method without result -/
  | retNil
  /-- `return <a non-nil error>` -/
  | retErr
  /-- `Data`: `return nil` -/
  | retNoData
  /-- `Data`: `return reflect.ValueOf(c.<ptr>).Elem().Interface()` -/
  | retPointee
  | opaque (txt : String)
  deriving DecidableEq, Repr, Inhabited

/-! ## Semantics -/

/-- A value `database/sql` hands to `Scan` (`driver.Value`): `string` and `[]byte` are different dynamic types. -/
inductive DVal where
  | bool (b : Bool)
  | str (s : Bytes)
  | int (i : Int)
  | bytes (s : Bytes)
  | float (f : UInt64)
  | null
  /-- any other dynamic type (`time.Time`, …) -/
  | other
  deriving DecidableEq, Repr, Inhabited

/-- Run-time values. -/
inductive SRV where
  /-- an `interface{}` holding a driver value -/
  | dyn (v : DVal)
  | bool (b : Bool)
  | str (s : Bytes)
  | int (i : Int)
  | bytes (s : Bytes)
  | float (f : UInt64)
  /-- a `*string` -/
  | ptr (p : Option Bytes)
  | none
  deriving DecidableEq, Repr, Inhabited

/-- The column struct. `ptr`: which slice the `interface{}` field points to (`none`: nil). -/
structure SCol where
  kind : SKind := .invalid
  nulls : Nat := 0
  ptr : Option SSlice := none
  ints : List Int := []
  floats : List UInt64 := []
  bools : List Bool := []
  strings : List (Option Bytes) := []
  deriving DecidableEq, Repr, Inhabited

inductive SRes where
  /-- `nil` is returned (or the method ends) -/
  | ok (c : SCol)
  /-- a non-nil error is returned -/
  | err
  | stuck
  deriving DecidableEq, Repr, Inhabited

structure SParams where
  precision : Nat
  /-- `fixedFn p f = float.Fixed(f, p)` -/
  fixedFn : Nat → UInt64 → UInt64
  /-- `strconv.ParseFloat(s, 64)`; `none`: an error -/
  pfloat : Bytes → Option UInt64

structure SEnv where
  arg : SRV
  parsed : Option UInt64 := none

def SVE.eval (ρ : SEnv) : SVE → SRV
  | .arg => ρ.arg
  | .parsed => match ρ.parsed with | some f => .float f | none => .none
  | .intOf e => match e.eval ρ with | .int i => .int i | _ => .none
  | .stringOf e => match e.eval ρ with | .bytes s => .str s | .str s => .str s | _ => .none
  | .neZero e => match e.eval ρ with | .int i => .bool (i != 0) | _ => .none
  | .nan => .float F64.canonNaN
  | .nilPtr => .ptr none
  | .addrOf e => match e.eval ρ with | .str s => .ptr (some s) | _ => .none
  | .opaque _ => .none

/-- `hasCoerce`: the coercion field is set. `none`: no meaning. -/
def SC.eval (P : SParams) (hasCoerce : Bool) (ρ : SEnv) (c : SCol) : SC → Option Bool
  | .ptrNil => some c.ptr.isNone
  | .kindIs k => some (decide (c.kind = k))
  | .nullsPos => some (c.nulls > 0)
  | .precPos => some (P.precision > 0)
  | .hasCoerce => some hasCoerce
  | .argNil => match ρ.arg with | .dyn .null => some true | .dyn _ => some false | _ => none
  | .not a => (a.eval P hasCoerce ρ c).map (!·)
  | .opaque _ => none

/-- Does the driver value have the dynamic type? If so, the value with that type. -/
def SDyn.bind : SDyn → DVal → Option SRV
  | .bool, .bool b => some (.bool b)
  | .string, .str s => some (.str s)
  | .int64, .int i => some (.int i)
  | .bytes, .bytes s => some (.bytes s)
  | .float64, .float f => some (.float f)
  | .null, .null => some .none
  | _, _ => none

def SCol.push (c : SCol) (s : SSlice) (v : SRV) (n : Nat) : Option SCol :=
  match s, v with
  | .ints, .int i => some { c with ints := c.ints ++ List.replicate n i }
  | .floats, .float f => some { c with floats := c.floats ++ List.replicate n f }
  | .bools, .bool b => some { c with bools := c.bools ++ List.replicate n b }
  | .strings, .ptr p => some { c with strings := c.strings ++ List.replicate n p }
  | _, _ => none

/-- `call m v c`: the method `m` of the column called with `v`; `coerce`: the closure in the coercion field. -/
def SX.run (P : SParams) (call : SMeth → SRV → SCol → SRes) (coerce : Option (DVal → SCol → SRes)) :
    SX → SEnv → SCol → SRes
  | .ifC cnd t e, ρ, c =>
    match cnd.eval P coerce.isSome ρ c with
    | none => .stuck
    | some true => t.run P call coerce ρ c
    | some false => e.run P call coerce ρ c
  | .ifDyn d t e, ρ, c =>
    match ρ.arg with
    | .dyn v =>
      match d.bind v with
      | some tv => t.run P call coerce { ρ with arg := tv } c
      | none => e.run P call coerce ρ c
    | _ => .stuck
  | .incNulls k, ρ, c => k.run P call coerce ρ { c with nulls := c.nulls + 1 }
  | .clearNulls k, ρ, c => k.run P call coerce ρ { c with nulls := 0 }
  | .setKind kd k, ρ, c => k.run P call coerce ρ { c with kind := kd }
  | .setPtr s k, ρ, c => k.run P call coerce ρ { c with ptr := some s }
  | .append s v k, ρ, c =>
    match c.push s (v.eval ρ) 1 with
    | some c' => k.run P call coerce ρ c'
    | none => .stuck
  | .backfill s v k, ρ, c =>
    match c.push s (v.eval ρ) c.nulls with
    | some c' => k.run P call coerce ρ c'
    | none => .stuck
  | .fixArg k, ρ, c =>
    match ρ.arg with
    | .float f => k.run P call coerce { ρ with arg := .float (P.fixedFn P.precision f) } c
    | _ => .stuck
  | .bindArg v k, ρ, c =>
    match v.eval ρ with
    | .none => .stuck
    | rv => k.run P call coerce { ρ with arg := rv } c
  | .call m v k, ρ, c =>
    match m with
    | .null => .stuck
    | _ =>
      match call m (v.eval ρ) c with
      | .ok c' => k.run P call coerce ρ c'
      | .err => .stuck   -- the appenders have no result
      | .stuck => .stuck
  | .callNull onErr ok, ρ, c =>
    match call .null .none c with
    | .ok c' => ok.run P call coerce ρ c'
    | .err => onErr.run P call coerce ρ c
    | .stuck => .stuck
  | .parseFloat onErr ok, ρ, c =>
    match ρ.arg with
    | .str s =>
      match P.pfloat s with
      | some f => ok.run P call coerce { ρ with parsed := some f } c
      | none => onErr.run P call coerce ρ c
    | _ => .stuck
  | .retCoerce, ρ, c =>
    match coerce, ρ.arg with
    | some f, .dyn v => f v c
    | _, _ => .stuck
  | .retNil, _, c => .ok c
  | .retErr, _, _ => .err
  | .retNoData, _, _ => .stuck
  | .retPointee, _, _ => .stuck
  | .opaque _, _, _ => .stuck

/-- The generated bodies. -/
structure SProg where
  /-- `Null`, `Int`, `Float`, `String`, `Bool` -/
  methods : List (SMeth × SX)
  scan : SX
  /-- the body of the closure a coercion returns, if the column has one -/
  coerce : Option SX

/-- a method called with a typed argument; methods do not call methods -/
def SProg.method (G : SProg) (P : SParams) (m : SMeth) (v : SRV) (c : SCol) : SRes :=
  match G.methods.lookup m with
  | some t =>
    let ok : Bool := match m, v with
      | .null, .none | .int, .int _ | .float, .float _ | .string, .str _ | .bool, .bool _ => true
      | _, _ => false
    if ok then t.run P (fun _ _ _ => .stuck) none { arg := v } c else .stuck
  | none => .stuck

/-- `c.Scan(t)`: `none` = an error is returned, `some c'` = nil is returned and the column is `c'` afterwards. The outer
`none`: no meaning. -/
def SProg.step (G : SProg) (P : SParams) (c : SCol) (t : DVal) : Option (Option SCol) :=
  let co : Option (DVal → SCol → SRes) :=
    G.coerce.map (fun b v c => b.run P (G.method P) none { arg := .dyn v } c)
  match G.scan.run P (G.method P) co { arg := .dyn t } c with
  | .ok c' => some (some c')
  | .err => some none
  | .stuck => none

/-- `rows.Scan` for every value of a result-set column, on a zero `Column` -/
def SProg.scanAll (G : SProg) (P : SParams) : List DVal → SCol → Option (Option SCol)
  | [], c => some (some c)
  | t :: ts, c =>
    match G.step P c t with
    | some (some c') => G.scanAll P ts c'
    | r => r

/-- `Data()`: `none` = no meaning; `some none` = the nil interface; `some (some s)` = the slice `s` -/
def SX.runData (c : SCol) : SX → Option (Option SSlice)
  | .ifC .ptrNil t e => if c.ptr.isNone then t.runData c else e.runData c
  | .retNoData => some none
  | .retPointee => c.ptr.map some
  | _ => none

def SVE.hasOpaque : SVE → Bool
  | .opaque _ => true
  | .intOf e | .stringOf e | .neZero e | .addrOf e => e.hasOpaque
  | _ => false

def SC.hasOpaque : SC → Bool
  | .opaque _ => true
  | .not c => c.hasOpaque
  | _ => false

def SX.hasOpaque : SX → Bool
  | .opaque _ => true
  | .ifC c t e => c.hasOpaque || t.hasOpaque || e.hasOpaque
  | .ifDyn _ t e | .callNull t e | .parseFloat t e => t.hasOpaque || e.hasOpaque
  | .append _ v k | .backfill _ v k | .call _ v k | .bindArg v k => v.hasOpaque || k.hasOpaque
  | .incNulls k | .clearNulls k | .setKind _ k | .setPtr _ k | .fixArg k => k.hasOpaque
  | _ => false

end QF
