import QF.Spec.Ops
/-!
# CK / LS / NS — the language of the CONSTRUCTION logic of /repo/qframe.go, and its Go semantics

    func createColumn(name string, data interface{}, config *newqf.Config) (column.Column, error)
    func New(data map[string]types.DataSlice, fns ...newqf.ConfigFunc) QFrame        -- after its guard prefix

The guard prefix of `New` (legal names, the default column order, order length, order ⊆ data) is `QF.Gen.guardAst "New"`
(QF/Core/GExpr.lean, QF/Props/C08Guards.lean). What follows it — the loop over the column order that creates the columns,
the running length check, the check that every enum declaration was used, the frame that is returned — and
`createColumn` are translated by go/cmd/extract/nast.go and written to `QF/Gen/Construct.lean` on every run:

* `createColumn` is executed symbolically once for every KIND of data (`DKind`: `[]int`, `[]float64`, `[]bool`, `[]string`,
  `[]*string`, the four constant structs, an `ecolumn.Column`, a `StringBlob`, any other `column.Column`, anything else).
  With the kind fixed the type assertion in front and the type switch are decided at translation time; what remains is a
  small tree `CK`: the look-up of the column's name in the enum declarations, the constructor that is called, whether the
  declaration is consumed (`delete`), the sign test of a constant's count, the error returns.
* the statements of `New` after the prefix become `NS` steps, the body of the loop a list of `LS` statements over the
  integer variables `i`, `firstLen`, `currentLen`.

Terms name things by ROLE: the `map[string][]string` field of the configuration (the enum declarations), its `[]string`
field (the column order), the data map, "the two `int` variables declared together in front of the loop" (first / current,
told apart by which of them receives `<column>.Len()`), the column constructors by package (`icolumn` → int, …) and
signature (one slice → `cells`, value and count → `const`), the constant structs by the shape of their declaration.

The per-type column constructors are PARAMETERS of the semantics (`Ctors`); `Ctors.Spec` says that they build the cells
the spec expects and, for enums, the value table `mkEnum` specifies (QF/Props/C17Factory.lean proves that of today's
`ecolumn.New` / `ecolumn.NewConst`).
-/
namespace QF

/-- The kind of a data value, as the type tests of `createColumn` can tell them apart. -/
inductive DKind where
  | ints | floats | bools
  /-- `[]string` -/
  | strs
  /-- `[]*string` -/
  | ptrs
  | constInt | constFloat | constBool | constStr
  /-- an `ecolumn.Column` -/
  | ecol
  /-- a `qfstrings.StringBlob` -/
  | blob
  /-- any other implementation of `column.Column` -/
  | col
  /-- anything else (including a nil interface) -/
  | other
  deriving DecidableEq, Repr, Inhabited

/-- A column constructor without error result, by role. -/
inductive Ctor where
  /-- `<pkg>.New(t)`: one argument, the data asserted to its slice type -/
  | cells (ty : CType)
  /-- `<pkg>.NewConst(t.<value>, t.<count>)` -/
  | const (ty : CType)
  /-- the data itself (it is a column already) -/
  | given
  /-- `scolumn.NewBytes(t.<pointers>, t.<bytes>)` -/
  | blob
  deriving DecidableEq, Repr, Inhabited

/-- The two enum constructors `(Column, error)`. -/
inductive ECtor where
  /-- `ecolumn.New(t, <declared values>)` -/
  | cells
  /-- `ecolumn.NewConst(t.<value>, t.<count>, <declared values>)` -/
  | const
  deriving DecidableEq, Repr, Inhabited

/-- `createColumn` for one kind of data. -/
inductive CK where
  /-- `sp := make([]*string, len(sc)); for i := range sc { sp[i] = &sc[i] }; data = sp`: the same cells, none of them nil -/
  | strsToPtrs (k : CK)
  /-- `values, ok := config.<enums>[name]`: `hit` runs with the declaration bound, `miss` when there is none -/
  | lookupEnum (hit miss : CK)
  /-- `delete(config.<enums>, name)` -/
  | consume (k : CK)
  /-- `<result> = <constructor>(…)` -/
  | make (c : Ctor) (k : CK)
  /-- `<result>, err = <enum constructor>(…, values); if err != nil { onErr }` -/
  | makeEnum (c : ECtor) (onErr k : CK)
  /-- `<the count of the constant> < 0` (the data is one of the constant structs on this path) -/
  | ifCountNeg (t e : CK)
  /-- `return <result>, nil` -/
  | retCol
  /-- `return nil, <non-nil error>` -/
  | retErr
  | opaque (txt : String)
  deriving DecidableEq, Repr, Inhabited

/-- Integer expressions of the loop of `New`. -/
inductive LInt where
  /-- the loop index -/
  | i
  /-- the length variable that is set under a condition (`firstLen`) -/
  | first
  /-- the length variable that receives `<column>.Len()` in every round (`currentLen`) -/
  | current
  | lit (n : Int)
  /-- the conversion `uint32(·)` -/
  | u32 (e : LInt)
  deriving DecidableEq, Repr, Inhabited

inductive LCond where
  | eq (a b : LInt)
  | ne (a b : LInt)
  deriving DecidableEq, Repr, Inhabited

/-- The statements of the body of `for i, name := range config.<order>`. -/
inductive LS where
  /-- `col := data[name]; c, err := createColumn(name, col, config); if err != nil { return QFrame{Err: err} }` -/
  | create
  /-- `columns[i] = namedColumn{name: name, Column: c, pos: i}; colByName[name] = columns[i]` -/
  | store
  /-- `currentLen = c.Len()` -/
  | setCurrent
  /-- `firstLen = currentLen` -/
  | setFirst
  /-- `if c { s }` -/
  | ifThen (c : LCond) (s : LS)
  /-- `if c { return QFrame{Err: <non-nil error>} }` -/
  | rejectIf (c : LCond)
  | opaque (txt : String)
  deriving DecidableEq, Repr, Inhabited

/-- The statements of `New` after its guard prefix. -/
inductive NS where
  /-- `columns := make([]namedColumn, len(data)); colByName := make(map[string]namedColumn, len(data))` -/
  | alloc
  /-- `firstLen, currentLen := a, b` -/
  | initLens (first current : Int)
  /-- `for i, name := range config.<order> { body }` -/
  | loop (body : List LS)
  /-- `if len(config.<enums>) > 0 { …; return QFrame{Err: <non-nil error>} }` -/
  | rejectIfEnumsLeft
  /-- `return QFrame{columns: columns, columnsByName: colByName, index: index.NewAscending(n), Err: nil}` -/
  | retFrame (n : LInt)
  | opaque (txt : String)
  deriving DecidableEq, Repr, Inhabited

/-! ## The column constructors (parameters) -/

/-- What the column constructors of the five packages build, as the spec sees it. -/
structure Ctors where
  /-- the cells of `<pkg>.New(data)` -/
  cells : CType → List Cell → Array Cell
  /-- the cells of `<pkg>.NewConst(v, n)` -/
  const : CType → Cell → Nat → Array Cell
  /-- `ecolumn.New(data, declared)`: value table, strict flag, cells; `none`: an error -/
  enumCells : List Bytes → List Cell → Option (List Bytes × Bool × Array Cell)
  /-- `ecolumn.NewConst(v, n, declared)` -/
  enumConst : List Bytes → Cell → Nat → Option (List Bytes × Bool × Array Cell)

/-- The constructors implement the spec's cell lists; the enum constructors `mkEnum` (the constant registers its value
even when there are no rows). -/
structure Ctors.Spec (K : Ctors) : Prop where
  cells : ∀ ty l, K.cells ty l = l.toArray
  const : ∀ ty v n, K.const ty v n = (List.replicate n v).toArray
  enumCells : ∀ d l, K.enumCells d l = (mkEnum d l).map (fun p => (p.1, p.2, l.toArray))
  enumConst : ∀ d v n, K.enumConst d v n =
    (mkEnum d (v :: List.replicate n v)).map (fun p => (p.1, p.2, (List.replicate n v).toArray))

/-! ## `createColumn` -/

inductive COut where
  | err
  /-- the column and the enum declarations that are left -/
  | ok (col : LCol) (enums : List (Bytes × List Bytes))
  | stuck
  deriving Repr, Inhabited

structure CSt where
  enums : List (Bytes × List Bytes)
  /-- the declaration found by the look-up -/
  decl : Option (List Bytes) := none
  /-- the result variable -/
  built : Option LCol := none

def CK.run (K : Ctors) (c : NewCol) : CK → CSt → COut
  | .strsToPtrs k, σ => k.run K c σ
  | .lookupEnum hit miss, σ =>
    match σ.enums.find? (·.1 == c.name) with
    | some (_, d) => hit.run K c { σ with decl := some d }
    | none => miss.run K c { σ with decl := none }
  | .consume k, σ => k.run K c { σ with enums := σ.enums.filter (fun e => !(e.1 == c.name)) }
  | .make ctor k, σ =>
    match ctor, c.kind, c.cells with
    | .cells ty, .cells _, cl => k.run K c { σ with built := some { name := c.name, ty := ty, cells := K.cells ty cl } }
    | .const ty, .const _, v :: _ =>
      k.run K c { σ with built := some { name := c.name, ty := ty, cells := K.const ty v c.count.toNat } }
    | _, _, _ => .stuck
  | .makeEnum ctor onErr k, σ =>
    match σ.decl with
    | none => .stuck
    | some d =>
      let r : Option (Option (List Bytes × Bool × Array Cell)) :=
        match ctor, c.kind, c.cells with
        | .cells, .cells _, cl => some (K.enumCells d cl)
        | .const, .const _, v :: _ => some (K.enumConst d v c.count.toNat)
        | _, _, _ => none
      match r with
      | none => .stuck
      | some none => onErr.run K c σ
      | some (some (vals, strict, cells)) =>
        k.run K c { σ with built := some { name := c.name, ty := .enum, vals := vals, strict := strict, cells := cells } }
  | .ifCountNeg t e, σ =>
    match c.kind with
    | .const _ => if c.count < 0 then t.run K c σ else e.run K c σ
    | _ => .stuck
  | .retCol, σ =>
    match σ.built with
    | some col => .ok col σ.enums
    | none => .stuck
  | .retErr, _ => .err
  | .opaque _, _ => .stuck

/-- The Go value a `NewCol` of the spec stands for: its kind. `plain`: a string column is passed as `[]string` (else
`[]*string`). Cell types the spec's `NewKind` allows but Go data cannot have (`.enum`, `.undef`) have no kind. -/
def dkindOf (plain : Bool) : NewKind → Option DKind
  | .cells .int => some .ints
  | .cells .float => some .floats
  | .cells .bool => some .bools
  | .cells .string => some (if plain then .strs else .ptrs)
  | .const .int => some .constInt
  | .const .float => some .constFloat
  | .const .bool => some .constBool
  | .const .string => some .constStr
  | .unsupported => some .other
  | _ => none

/-- `createColumn(c.name, <the data of c>, config)` for the per-kind terms `ast`. -/
def runCreate (K : Ctors) (ast : List (DKind × CK)) (plain : Bool) (c : NewCol) (enums : List (Bytes × List Bytes)) : COut :=
  match dkindOf plain c.kind with
  | none => .stuck
  | some k =>
    match ast.lookup k with
    | none => .stuck
    | some t => t.run K c { enums := enums }

/-! ## The loop and the tail of `New` -/

structure LSt where
  enums : List (Bytes × List Bytes)
  first : Int := 0
  current : Int := 0
  /-- `columns[0 .. i)` -/
  cols : List LCol := []
  /-- the column made in this round -/
  created : Option LCol := none

inductive LOut where
  | err
  | next (σ : LSt)
  | stuck

def LInt.eval (i : Nat) (σ : LSt) : LInt → Int
  | .i => i
  | .first => σ.first
  | .current => σ.current
  | .lit n => n
  | .u32 e => e.eval i σ % 4294967296

def LCond.eval (i : Nat) (σ : LSt) : LCond → Bool
  | .eq a b => a.eval i σ == b.eval i σ
  | .ne a b => a.eval i σ != b.eval i σ

/-- `create name enums`: `createColumn(name, data[name], config)` -/
def LS.run (create : Bytes → List (Bytes × List Bytes) → COut) (i : Nat) (name : Bytes) : LS → LSt → LOut
  | .create, σ =>
    match create name σ.enums with
    | .err => .err
    | .stuck => .stuck
    | .ok c e => .next { σ with created := some c, enums := e }
  | .store, σ =>
    match σ.created with
    | some c => if σ.cols.length = i then .next { σ with cols := σ.cols ++ [c] } else .stuck
    | none => .stuck
  | .setCurrent, σ =>
    match σ.created with
    | some c => .next { σ with current := c.cells.size }
    | none => .stuck
  | .setFirst, σ => .next { σ with first := σ.current }
  | .ifThen c s, σ => if c.eval i σ then s.run create i name σ else .next σ
  | .rejectIf c, σ => if c.eval i σ then .err else .next σ
  | .opaque _, _ => .stuck

def runBody (create : Bytes → List (Bytes × List Bytes) → COut) (i : Nat) (name : Bytes) : List LS → LSt → LOut
  | [], σ => .next σ
  | s :: ss, σ =>
    match s.run create i name σ with
    | .next σ' => runBody create i name ss σ'
    | r => r

/-- the rounds `i, i+1, …` for the names that are left -/
def runLoop (create : Bytes → List (Bytes × List Bytes) → COut) (body : List LS) : Nat → List Bytes → LSt → LOut
  | _, [], σ => .next σ
  | i, n :: ns, σ =>
    match runBody create i n body { σ with created := none } with
    | .next σ' => runLoop create body (i + 1) ns σ'
    | r => r

/-- The statements of `New` after the prefix, for the column order `ord` the prefix leaves. `none`: no meaning. -/
def runTail (create : Bytes → List (Bytes × List Bytes) → COut) (ord : List Bytes) : List NS → LSt → Option Res
  | [], _ => none
  | .alloc :: ss, σ => runTail create ord ss σ
  | .initLens a b :: ss, σ => runTail create ord ss { σ with first := a, current := b }
  | .loop body :: ss, σ =>
    match runLoop create body 0 ord σ with
    | .err => some .err
    | .stuck => none
    | .next σ' => runTail create ord ss σ'
  | .rejectIfEnumsLeft :: ss, σ => if σ.enums.isEmpty then runTail create ord ss σ else some .err
  | .retFrame n :: _, σ => some (.ok { cols := σ.cols, n := (n.eval 0 σ).toNat })
  | .opaque _ :: _, _ => none

/-- `data[name]` handed to `createColumn`; a name that is not a key gives the nil interface (kind `other`) -/
def createIn (K : Ctors) (ast : List (DKind × CK)) (plain : Bytes → Bool) (cols : List NewCol) (name : Bytes)
    (enums : List (Bytes × List Bytes)) : COut :=
  match cols.find? (·.name == name) with
  | some c => runCreate K ast (plain name) c enums
  | none => runCreate K ast false { name := name, kind := .unsupported, count := 0, cells := [] } enums

/-- `New` from the end of its guard prefix on: data `cols`, the column order `ord` the prefix leaves, the declarations
`enums`. -/
def constructIn (K : Ctors) (ast : List (DKind × CK)) (tail : List NS) (plain : Bytes → Bool) (cols : List NewCol)
    (ord : List Bytes) (enums : List (Bytes × List Bytes)) : Option Res :=
  runTail (createIn K ast plain cols) ord tail { enums := enums }

def CK.hasOpaque : CK → Bool
  | .opaque _ => true
  | .strsToPtrs k | .consume k | .make _ k => k.hasOpaque
  | .lookupEnum a b | .makeEnum _ a b | .ifCountNeg a b => a.hasOpaque || b.hasOpaque
  | _ => false

def LS.hasOpaque : LS → Bool
  | .opaque _ => true
  | .ifThen _ s => s.hasOpaque
  | _ => false

def NS.hasOpaque : NS → Bool
  | .opaque _ => true
  | .loop b => b.any LS.hasOpaque
  | _ => false

end QF
