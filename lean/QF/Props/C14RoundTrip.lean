import QF.Props.C14EndToEnd
import QF.Core.F64Lemmas
/-!
# C14 — `ReadJSON ∘ ToJSON` end to end, WITHOUT hypotheses on formatter and parser; the configured reader

`C14EndToEnd.readjson_tojson_partial` / `gen_json_roundtrip_end_to_end_partial` left two hypotheses: `FrameOK fmt f` (the
formatter's text for the frame's floats is a JSON number token) and `ReadsBack pnum fmt` (the parser returns what the
numbers denote; in particular the int clause). Here both are PROVED for the concrete formatter of C16 and every correct
parser, and the two theorems are stated without `_partial`:

* `ryuFmt` — what `ryu.AppendFloat64f` appends: `NaN` / `±Inf`, `0` / `-0`, else sign + `C16Link.positional` of
  `Ryu64.decimal`; `ryuFmt_is_appendF`: it IS the text `C16Link.appendF` appends (every buffer state).
* (a) `numTok_positionalL` — each of the three digit layouts of `dec64.appendF` (`C16LinkText.positionalL`: digits·zeros,
  `0.`zeros·digits, digits`.`digits) of an `L`-digit mantissa, with or without sign, is a JSON number token
  (`C14ToJson.NumTok`, by `numTok_digits` / `numTok_frac`); `ryuFmt_numTok` — so is the text for every finite float64
  (`C16Link.decimal_shortest`, `decimalLen64_spec57`); `frameOK_ryu` — `FrameOK ryuFmt f` for every frame without infinity.
* (b) `parseNumber_intText`, `ofDecimal_nat_finite`, `pnumS_intText`, `pnum_intText` — on the decimal text of an int64 the
  spec's parser `pnumS` (every `PnumCorrect` parser) returns `Num.ofDecimal (v<0) |v| 0`, the nearest-even float
  (`C16Round.ofDecimal_correct`), which is finite (`C16Round.ofDecimal_cases`: an overflow needs `|v| ≥ (2^54−1)·2^970`).
  `readsBack_ryu` — `ReadsBack pnum ryuFmt` on every cell (floats: `C16Link.ryu_text_is_shortest`; zeros directly).
* `readjson_tojson`, `gen_json_roundtrip_end_to_end` — the compositions for `fmt := ryuFmt`, `pnum` any correct parser
  (`readjson_tojson_pnumS`: the driver's). Hypotheses on the FRAME only: `JsonTyped`, `NoInf` (no infinity — `ToJSON` writes
  no JSON for it, `C14ToJson.inf_not_json`), `Int64Cells` (the ints are Go ints), and `FrameTyped` for the regenerated writer.
* `readjson_cfg_tojson` (abstract form `readjson_cfg_tojson_partial`) — the CONFIGURED reader the harness calls,
  `readJsonCfgS pnum doc f.names (enumsOf f)`, returns exactly the driver's `jsonReread f`: the two expectations
  `QF/Drv/Hist.lean` compares dynamically are equal by theorem, under `CfgOk` (names valid UTF-8; no value table on a
  non-enum column; enum values, as a JSON decoder returns them, declarable with the column's table). `exBadName` shows that
  the UTF-8 clause is necessary (the harness reads back only frames whose strings are all valid UTF-8).
-/
namespace QF.Props.C14RoundTrip
open QF QF.Json QF.Props.C14ToJson QF.Props.C14EndToEnd
open AF QF.Props.C16 QF.Props.C16Link QF.Ryu64 QF.Props.C16Core QF.Props.C16Round

/-! ## finite floats -/

theorem expAnd_toNat (a : UInt64) : (a &&& F64.expMask).toNat = 2 ^ 52 * (a.toNat / 2 ^ 52 % 2048) := by
  rw [UInt64.toNat_and]
  have hm : F64.expMask.toNat = 2047 * 2 ^ 52 := by decide
  rw [hm]
  have h1 : (a.toNat &&& 2047 * 2 ^ 52) / 2 ^ 52 = a.toNat / 2 ^ 52 % 2048 := by
    rw [Nat.and_div_two_pow, Nat.mul_div_cancel _ (by decide)]
    exact Nat.and_two_pow_sub_one_eq_mod _ 11
  have h2 : (a.toNat &&& 2047 * 2 ^ 52) % 2 ^ 52 = 0 := by
    rw [Nat.and_mod_two_pow, Nat.mul_mod_left, Nat.and_zero]
  omega

theorem manAnd_toNat (a : UInt64) : (a &&& F64.manMask).toNat = a.toNat % 2 ^ 52 := by
  rw [UInt64.toNat_and]
  exact Nat.and_two_pow_sub_one_eq_mod a.toNat 52

/-- a float64 that is neither NaN nor an infinity is finite -/
theorem decode_of_finite (b : UInt64) (hn : F64.isNaN b = false)
    (hi : ((b &&& 0x7fffffffffffffff) == 0x7ff0000000000000) = false) : ∃ dy, Num.decode b = some dy := by
  cases hd : Num.decode b with
  | some dy => exact ⟨dy, rfl⟩
  | none =>
    exfalso
    have hex : b.toNat / 2 ^ 52 % 2048 = 2047 := by
      unfold Num.decode at hd
      simp only at hd
      by_cases h : (b.toNat / 2 ^ 52 % 2048 == 2047) = true
      · exact eq_of_beq h
      · simp only [h] at hd
        by_cases h0 : (b.toNat / 2 ^ 52 % 2048 == 0) = true
        · simp [h0] at hd
        · simp [h0] at hd
    have h1 : (b &&& F64.expMask) = F64.expMask := by
      apply UInt64.toNat_inj.1
      rw [expAnd_toNat, hex]; decide
    have hmag : (b &&& 0x7fffffffffffffff).toNat ≠ (0x7ff0000000000000 : UInt64).toNat := by
      intro h
      have := UInt64.toNat_inj.1 h
      rw [this] at hi
      simp at hi
    rw [F64.mag_toNat] at hmag
    have h52 : b.toNat % 2 ^ 52 ≠ 0 := by
      have : (0x7ff0000000000000 : UInt64).toNat = 2047 * 2 ^ 52 := by decide
      rw [this] at hmag
      omega
    have h2 : (b &&& F64.manMask) ≠ 0 := by
      intro h
      have := congrArg UInt64.toNat h
      rw [manAnd_toNat] at this
      exact h52 this
    simp [F64.isNaN, h1, h2] at hn

/-! ## (a) the Ryu text is a JSON number token -/

theorem all_of_allDigits {l : List UInt8} (h : AllDigits l) : l.all Json.isDigit = true :=
  List.all_eq_true.mpr h

theorem head_digitsN_ne (L m : Nat) (hL : 1 ≤ L) (hlo : 10 ^ (L - 1) ≤ m) (hhi : m < 10 ^ L) :
    (digitsN L m).head? ≠ some 48 := by
  have hlead := lead_digit_ne L m hL hlo hhi
  obtain ⟨k, rfl⟩ : ∃ k, L = k + 1 := ⟨L - 1, by omega⟩
  rw [digitsN_head?]
  rw [Nat.add_sub_cancel] at hlead
  intro h; injection h with h; exact hlead h

/-- **the three digit layouts of `dec64.appendF` write a JSON number token** (with or without the sign): for an `L`-digit
mantissa `m` (`10^(L-1) ≤ m < 10^L`) and every decimal exponent `e` -/
theorem numTok_positionalL (L m : Nat) (e : Int) (hL : 1 ≤ L) (hlo : 10 ^ (L - 1) ≤ m) (hhi : m < 10 ^ L) :
    NumTok (positionalL L m e) ∧ NumTok (45 :: positionalL L m e) := by
  unfold positionalL
  split
  · -- digits then zeros
    refine numTok_digits _ ?_ (all_of_allDigits (allDigits_append (allDigits_digitsN _ _) (allDigits_zeros _))) ?_
    · intro h
      exact digitsN_ne_nil L m hL (List.append_eq_nil_iff.mp h).1
    · intro _
      have hh := head_digitsN_ne L m hL hlo hhi
      cases hd : digitsN L m with
      | nil => exact absurd hd (digitsN_ne_nil L m hL)
      | cons x t => rw [hd] at hh; simpa using hh
  · rename_i he
    generalize hp : (-e).toNat = p
    have hp1 : 1 ≤ p := by omega
    split
    · -- "0." zeros digits
      have e1 : [48, 46] ++ zeros (p - L) ++ digitsN L m = [48] ++ 46 :: (zeros (p - L) ++ digitsN L m) := by
        simp
      rw [e1]
      refine numTok_frac [48] _ (by simp) (by decide) (by simp) ?_
        (all_of_allDigits (allDigits_append (allDigits_zeros _) (allDigits_digitsN _ _)))
      intro h
      exact digitsN_ne_nil L m hL (List.append_eq_nil_iff.mp h).2
    · -- integer digits "." fraction digits
      rename_i hlt
      obtain ⟨j, rfl⟩ : ∃ j, L = p + j + 1 := ⟨L - p - 1, by omega⟩
      have e1 : p + j + 1 - p = j + 1 := by omega
      have e2 : p + j + 1 - 1 = p + j := by omega
      rw [e1, List.append_assoc, List.singleton_append]
      rw [e2] at hlo
      obtain ⟨b1, b2⟩ := div_pow_bounds p j m hlo hhi
      refine numTok_frac _ _ (digitsN_ne_nil _ _ (by omega)) (all_of_allDigits (allDigits_digitsN _ _)) ?_
        (digitsN_ne_nil _ _ hp1) (all_of_allDigits (allDigits_digitsN _ _))
      intro _
      exact head_digitsN_ne (j + 1) (m / 10 ^ p) (by omega) (by simpa using b1) b2

/-- the text for a finite float64 with the fields `dy`: `0` / `-0` for the zeros (`appendSpecialf`), else the sign and the
positional layout (`dec64.appendF`) of the decimal `m·10^e` -/
def finiteText (neg : Bool) (zero : Bool) (m : Nat) (e : Int) : Bytes :=
  if zero then (if neg then [45, 48] else [48]) else (if neg then [45] else []) ++ positional m e

/-- what `ryu.AppendFloat64f` appends for the float64 `b` (internal/ryu/ryu.go): `NaN`, `+Inf`, `-Inf` for the special
values, `0` / `-0` for the zeros (`appendSpecialf`), else the sign and the positional layout (`dec64.appendF`, mirrored by
`C16Link.appendF`: `ryuFmt_is_appendF`) of the decimal `Ryu64.decimal` computes (exact-integer fast path, else the general
algorithm) -/
def ryuFmt (b : UInt64) : Bytes :=
  match Num.decode b with
  | none => if mantOf b ≠ 0 then [78, 97, 78] else if b.toNat / 2 ^ 63 = 1 then [45, 73, 110, 102] else [43, 73, 110, 102]
  | some dy => finiteText dy.neg (dy.m == 0) (decimal (mantOf b) (expOf b)).1 (decimal (mantOf b) (expOf b)).2.1

theorem ryuFmt_finite (b : UInt64) (dy : Num.Dyadic) (hd : Num.decode b = some dy) :
    ryuFmt b = finiteText dy.neg (dy.m == 0) (decimal (mantOf b) (expOf b)).1 (decimal (mantOf b) (expOf b)).2.1 := by
  unfold ryuFmt
  rw [hd]

/-- `ryuFmt b` IS the text the mirror pipeline of C16 appends, for every state of the output buffer -/
theorem ryuFmt_is_appendF (b : UInt64) (dy : Num.Dyadic) (hd : Num.decode b = some dy) (h0 : dy.m ≠ 0)
    (buf : AF.Buf) (extraS extra0 extra : List AF.Byte) :
    (appendF buf dy.neg (decimal (mantOf b) (expOf b)).1 (decimal (mantOf b) (expOf b)).2.1 extraS extra0 extra).content
      = buf.content ++ ryuFmt b := by
  rw [ryu_text_eq b dy hd h0, ryuFmt_finite b dy hd]
  have : (dy.m == 0) = false := by rw [beq_eq_false_iff_ne]; exact h0
  rw [this]
  rfl

theorem finiteText_numTok (neg : Bool) (m : Nat) (e : Int) (h0 : m ≠ 0) (hlt : m < 2 ^ 57) (zero : Bool) :
    NumTok (finiteText neg zero m e) := by
  unfold finiteText
  cases zero
  · obtain ⟨hlo, hhi⟩ := decimalLen64_spec57 m h0 hlt
    have hL := decimalLen64_pos m h0 hlt
    have := numTok_positionalL _ _ e hL hlo hhi
    unfold positional
    cases neg
    · exact this.1
    · exact this.2
  · have := numTok_digits [48] (by simp) (by decide) (by simp)
    cases neg
    · exact this.1
    · exact this.2

/-- **(a) the text of the Ryu pipeline for a finite float64 is a JSON number token** -/
theorem ryuFmt_numTok (b : UInt64) (dy : Num.Dyadic) (hd : Num.decode b = some dy) : NumTok (ryuFmt b) := by
  rw [ryuFmt_finite b dy hd]
  by_cases h0 : dy.m = 0
  · have : (dy.m == 0) = true := by rw [h0]; rfl
    rw [this]
    have := numTok_digits [48] (by simp) (by decide) (by simp)
    unfold finiteText
    cases dy.neg
    · exact this.1
    · exact this.2
  · have S := decimal_shortest b dy hd h0
    generalize (decimal (mantOf b) (expOf b)).1 = m at S ⊢
    generalize (decimal (mantOf b) (expOf b)).2.1 = e at S ⊢
    exact finiteText_numTok _ m e (by have := S.pos; omega) S.lt _

/-! ## (b) the decimal text of an int64 -/

theorem digitByte_facts : ∀ d, d < 10 →
    ((decide ((48 : UInt8) ≤ digitByte d) && decide (digitByte d ≤ 57)) = true ∧ (digitByte d).toNat - 48 = d) := by decide

theorem natDigits_allDigits (n : Nat) : AllDigits (natDigits n) := by
  intro c hc
  exact List.all_eq_true.mp (natDigits_spec n).2.1 c hc

theorem val_natDigits (n : Nat) : QF.Props.C16Link.val 0 (natDigits n) = n := by
  induction n using Nat.strongRecOn with
  | _ n ih =>
    by_cases h : n < 10
    · rw [natDigits_lt n h]
      simp [QF.Props.C16Link.val, (digitByte_facts n h).2]
    · have h10 : 10 ≤ n := by omega
      rw [natDigits_ge n h10, val_append, ih (n / 10) (by omega)]
      simp only [QF.Props.C16Link.val, List.foldl_cons, List.foldl_nil, (digitByte_facts (n % 10) (by omega)).2]
      omega

theorem parsePositional_natDigits (n : Nat) : Num.parsePositional (natDigits n) = some (false, n, 0) := by
  rw [parsePositional_int _ (natDigits_spec n).1 (natDigits_allDigits n), val_natDigits]

/-- the decimal text of an integer denotes it: sign, magnitude, exponent 0 -/
theorem parseNumber_intText (v : Int) : Num.parseNumber (intText v) = some (decide (v < 0), v.natAbs, 0) := by
  have key : Num.parsePositional (intText v) = some (decide (v < 0), v.natAbs, 0) := by
    rw [intText_eq]
    split
    · rename_i h
      rw [parsePositional_natDigits]
      have h1 : decide (v < 0) = false := by simp; omega
      have h2 : v.toNat = v.natAbs := by omega
      rw [h1, h2]
    · rename_i h
      rw [parsePositional_neg _ _ _ (parsePositional_natDigits _)]
      have h1 : decide (v < 0) = true := by simp; omega
      have h2 : (-v).toNat = v.natAbs := by omega
      rw [h1, h2]
  rw [parseNumber_of_noE _ (positional_noE _ _ key), key]

theorem not_inf_of_decode (x : UInt64) (dy : Num.Dyadic) (h : Num.decode x = some dy) :
    ((x &&& 0x7fffffffffffffff) == 0x7ff0000000000000) = false := by
  rw [beq_eq_false_iff_ne]
  intro he
  have h1 := congrArg UInt64.toNat he
  rw [F64.mag_toNat] at h1
  have h2 : (0x7ff0000000000000 : UInt64).toNat = 2047 * 2 ^ 52 := by decide
  rw [h2] at h1
  have hex : (x.toNat / 2 ^ 52 % 2048 == 2047) = true := by
    rw [beq_iff_eq]; omega
  unfold Num.decode at h
  simp only [hex, if_true] at h
  cases h

set_option exponentiation.threshold 1000 in
/-- the float nearest to a natural number below `2^64` is finite -/
theorem ofDecimal_nat_finite (neg : Bool) (m : Nat) (hm : m < 2 ^ 64) :
    ((Num.ofDecimal neg m 0 &&& 0x7fffffffffffffff) == 0x7ff0000000000000) = false := by
  rcases ofDecimal_cases neg m 0 with ⟨M, E, hdec, _⟩ | ⟨_, hov⟩
  · exact not_inf_of_decode _ _ hdec
  · exfalso
    unfold Overflows decNum decDen at hov
    simp only [ge_iff_le, Int.le_refl, if_true, Int.toNat_zero, Nat.pow_zero, Nat.mul_one] at hov
    have h1 : 2 ^ 65 ≤ 2 ^ 971 := Nat.pow_le_pow_right (Nat.succ_pos 1) (by omega)
    have h2 : 2 ^ 971 ≤ (2 ^ 54 - 1) * 2 ^ 971 := Nat.le_mul_of_pos_left _ (by decide)
    generalize 2 ^ 971 = K at *
    omega

/-- **(b) the spec's number parser on the decimal text of an int64** returns the float nearest to it (`Num.ofDecimal` of sign
and magnitude, IEEE nearest-even by `C16Round.ofDecimal_correct`) — in particular it is in range -/
theorem pnumS_intText (v : Int) (hlo : -2 ^ 63 ≤ v) (hhi : v < 2 ^ 63) :
    pnumS (intText v) = some (Num.ofDecimal (v < 0) v.natAbs 0) := by
  unfold pnumS
  rw [parseNumber_intText]
  simp only [ofDecimal_nat_finite (decide (v < 0)) v.natAbs (by omega), Bool.false_eq_true, if_false]

/-- the same for every correct parser -/
theorem pnum_intText (pnum : Bytes → Option UInt64) (hp : PnumCorrect pnum) (v : Int) (hlo : -2 ^ 63 ≤ v) (hhi : v < 2 ^ 63) :
    pnum (intText v) = some (Num.ofDecimal (v < 0) v.natAbs 0) :=
  hp _ _ _ _ (parseNumber_intText v) (ofDecimal_nat_finite _ _ (by omega))

/-! ## The hypotheses of `readjson_tojson_partial` for the concrete formatter and parser -/

/-- no float cell of the frame is an infinity (`ToJSON` writes `+Inf` / `-Inf` for it, which is no JSON: `C14ToJson.inf_not_json`) -/
def NoInf (f : LFrame) : Prop :=
  ∀ c ∈ f.cols, ∀ r, r < f.n → ∀ b, c.cells[r]! = .float b → ((b &&& 0x7fffffffffffffff) == 0x7ff0000000000000) = false

/-- every int cell of the frame is an int64 (Go's `int`) -/
def Int64Cells (f : LFrame) : Prop :=
  ∀ c ∈ f.cols, ∀ r, r < f.n → ∀ v, c.cells[r]! = .int v → -2 ^ 63 ≤ v ∧ v < 2 ^ 63

/-- **(a) `FrameOK` for the Ryu text**: every float of a frame without infinities is written as a JSON number token -/
theorem frameOK_ryu (f : LFrame) (hfin : NoInf f) : FrameOK ryuFmt f := by
  intro c hc r hr b hb hn
  obtain ⟨dy, hd⟩ := decode_of_finite b hn (hfin c hc r hr b hb)
  exact ryuFmt_numTok b dy hd

theorem zero_of_decode (b : UInt64) (dy : Num.Dyadic) (hd : Num.decode b = some dy) (h0 : dy.m = 0) :
    b = if dy.neg then 0x8000000000000000 else 0 := by
  have hlt := UInt64.toNat_lt b
  unfold Num.decode at hd
  simp only at hd
  by_cases h1 : (b.toNat / 2 ^ 52 % 2048 == 2047) = true
  · simp [h1] at hd
  · by_cases h2 : (b.toNat / 2 ^ 52 % 2048 == 0) = true
    · simp only [h1, h2, if_true, Bool.false_eq_true, if_false, Option.some.injEq] at hd
      subst hd
      simp only at h0 ⊢
      have h2' : b.toNat / 2 ^ 52 % 2048 = 0 := eq_of_beq h2
      apply UInt64.toNat_inj.1
      by_cases hs : b.toNat / 2 ^ 63 = 1
      · simp only [hs, beq_self_eq_true, if_true]
        have : (0x8000000000000000 : UInt64).toNat = 2 ^ 63 := by decide
        rw [this]; omega
      · have : (b.toNat / 2 ^ 63 == 1) = false := by rw [beq_eq_false_iff_ne]; exact hs
        simp only [this, Bool.false_eq_true, if_false]
        have : (0 : UInt64).toNat = 0 := by decide
        rw [this]; omega
    · simp only [h1, h2, Bool.false_eq_true, if_false, Option.some.injEq] at hd
      subst hd
      simp only at h0
      omega

/-- the text of the Ryu pipeline for a finite float64 denotes it (as a JSON number, under correct rounding) -/
theorem ryuFmt_denotes (b : UInt64) (dy : Num.Dyadic) (hd : Num.decode b = some dy) :
    ∃ neg m d, Num.parseNumber (ryuFmt b) = some (neg, m, d) ∧ Num.ofDecimal neg m d = b := by
  by_cases h0 : dy.m = 0
  · have hb := zero_of_decode b dy hd h0
    rw [ryuFmt_finite b dy hd]
    have : (dy.m == 0) = true := by rw [h0]; rfl
    rw [this]
    unfold finiteText
    cases hneg : dy.neg
    · rw [hneg] at hb
      simp only [if_true, Bool.false_eq_true, if_false]
      exact ⟨false, 0, 0, by decide, by rw [hb]; decide⟩
    · rw [hneg] at hb
      simp only [if_true]
      exact ⟨true, 0, 0, by decide, by rw [hb]; decide⟩
  · obtain ⟨text, h1, _, h3, _⟩ := ryu_text_is_shortest b dy hd h0 ⟨[], []⟩ [] [] []
    rw [ryuFmt_is_appendF b dy hd h0] at h1
    have ht : ryuFmt b = text := List.append_cancel_left h1
    rw [ht]
    unfold Num.parsesTo at h3
    cases hpp : Num.parsePositional text with
    | none => rw [hpp] at h3; cases h3
    | some p =>
      obtain ⟨neg, m, d⟩ := p
      rw [hpp] at h3
      refine ⟨neg, m, d, ?_, eq_of_beq h3⟩
      rw [parseNumber_of_noE _ (positional_noE _ _ hpp), hpp]

/-- **(b) `ReadsBack` for every correct parser and the Ryu text** on the cells of a frame without infinities whose ints are
int64 -/
theorem readsBack_ryu (pnum : Bytes → Option UInt64) (hp : PnumCorrect pnum) (f : LFrame) (hfin : NoInf f)
    (hint : Int64Cells f) : ∀ c ∈ f.cols, ∀ r, r < f.n → ReadsBack pnum ryuFmt c.cells[r]! := by
  intro c hc r hr
  cases hx : c.cells[r]! with
  | int v =>
    obtain ⟨h1, h2⟩ := hint c hc r hr v hx
    exact pnum_intText pnum hp v h1 h2
  | float b =>
    have hi := hfin c hc r hr b hx
    intro hn
    obtain ⟨dy, hd⟩ := decode_of_finite b hn hi
    exact float_reads_back pnum hp ryuFmt b hi (ryuFmt_denotes b dy hd) hn
  | bool _ => trivial
  | str _ => trivial

/-! ## The compositions, for the concrete formatter and every correct parser -/

/-- **`ReadJSON ∘ ToJSON` on the spec side, no hypothesis on formatter or parser left.** For every frame `f` of the
read-back half of C14's quantifier (`JsonTyped`: at least one column and one row, every column `n` cells of its type, floats
not NaN … , names distinct and legal as a JSON decoder returns them) without an infinity (`NoInf`) and with int64 ints
(`Int64Cells`), the float formatter being the Ryu pipeline of C16 (`ryuFmt`, = what `C16Link.appendF` appends:
`ryuFmt_is_appendF`) and the float parser ANY correct IEEE parser (`PnumCorrect`; the driver's `pnumS` is one): the text
`ToJSON` writes parses (RFC 8259) to a document of which `readJsonS` makes, without error, `jsonUnconfigured (jsonReread f)`. -/
theorem readjson_tojson (pnum : Bytes → Option UInt64) (hp : PnumCorrect pnum) (f : LFrame) (ht : JsonTyped f)
    (hfin : NoInf f) (hint : Int64Cells f) :
    (Json.parse (toJSON ryuFmt f)).map (readJsonS pnum) = some (.ok (jsonUnconfigured (jsonReread f))) :=
  readjson_tojson_partial pnum ryuFmt f ht (frameOK_ryu f hfin) (readsBack_ryu pnum hp f hfin hint)

/-- … in particular for the spec's own parser `pnumS` -/
theorem readjson_tojson_pnumS (f : LFrame) (ht : JsonTyped f) (hfin : NoInf f) (hint : Int64Cells f) :
    (Json.parse (toJSON ryuFmt f)).map (readJsonS pnumS) = some (.ok (jsonUnconfigured (jsonReread f))) :=
  readjson_tojson pnumS pnumS_correct f ht hfin hint

/-- **`ReadJSON ∘ ToJSON` of today's source, end to end, no hypothesis on formatter or parser left.** With the REGENERATED
writer (`C14WriterGen.genToJSON`, float cells through the Ryu pipeline `ryuFmt`) and the REGENERATED reader
(`C14ReadJsonGen.genReadJson`, any correct IEEE number parser, every iteration order of Go's maps): for every frame of the
read-back half of C14's quantifier whose cells are of their columns' types, without an infinity, ints int64: `ToJSON`
returns no error, the bytes it handed to `Write` are a JSON text, and `ReadJSON` of the document they denote returns, without
error, `jsonUnconfigured (jsonReread f)`. -/
theorem gen_json_roundtrip_end_to_end (pnum : Bytes → Option UInt64) (hp : PnumCorrect pnum)
    (iter : GoMap → GoMap) (hiter : ∀ m, (iter m).Perm m) (f : LFrame) (ht : JsonTyped f)
    (hf : C09Observe.FrameTyped f) (hfin : NoInf f) (hint : Int64Cells f) :
    ∃ ws doc, C14WriterGen.genToJSON ryuFmt f (fun _ => false) = some (ws, false) ∧ Json.parse ws.flatten = some doc ∧
      C14ReadJsonGen.genReadJson pnum iter doc = some (.ok (jsonUnconfigured (jsonReread f))) :=
  gen_json_roundtrip_end_to_end_partial pnum ryuFmt iter hiter f ht hf (frameOK_ryu f hfin) (readsBack_ryu pnum hp f hfin hint)

open QF.Props.C08Construct (specCol build_cons build_nil newS_after_prefix)
open QF.Props.C08Guards (specOrder newPrefixRejects)

/-! ## The configured reader: `ReadJSON(ColumnOrder(names…), Enums(values))` as the harness calls it -/

/-- the enum declarations the harness supplies: for every enum column its value table -/
def enumsOf (f : LFrame) : List (Bytes × List Bytes) :=
  f.cols.filterMap (fun c => if c.ty == .enum then some (c.name, c.vals) else none)

/-- one column of `jsonReread` (QF/Spec/Render.lean) -/
def cfgCol (c : LCol) : LCol :=
  match c.ty with
  | .int => { c with ty := .float, cells := c.cells.map (fun x => match x with
      | .int v => .float (Num.ofDecimal (v < 0) v.natAbs 0) | y => y) }
  | .string => { c with cells := c.cells.map (fun x => match x with
      | .str (some s) => .str (some (Json.sanitize s)) | y => y) }
  | .enum =>
    let cells := c.cells.map (fun x => match x with
      | .str (some s) => Cell.str (some (Json.sanitize s)) | y => y)
    if c.vals.isEmpty then
      match mkEnum [] cells.toList with
      | some (vals, _) => { c with cells := cells, vals := vals, strict := false }
      | none => { c with cells := cells }
    else { c with cells := cells, strict := true }
  | _ => c

theorem jsonReread_eq (f : LFrame) : jsonReread f = { cols := f.cols.map cfgCol, n := f.n } := rfl

/-- in a list with distinct keys every member is the first with its key -/
theorem find_self {α : Type} (key : α → Bytes) : ∀ (l : List α), (l.map key).Nodup → ∀ c ∈ l,
    l.find? (fun x => key x == key c) = some c := by
  intro l
  induction l with
  | nil => intro _ c hc; cases hc
  | cons a t ih =>
    intro hnd c hc
    have hnd' : (key a :: t.map key).Nodup := hnd
    obtain ⟨ha, ht⟩ := List.nodup_cons.mp hnd'
    rcases List.mem_cons.mp hc with rfl | hc'
    · simp
    · have hne : (key a == key c) = false := by
        rw [beq_eq_false_iff_ne]
        intro e
        exact ha (e ▸ List.mem_map.mpr ⟨c, hc', rfl⟩)
      rw [List.find?_cons, hne]
      exact ih ht c hc'

theorem filterMap_find {α : Type} (key : α → Bytes) (l : List α) (hnd : (l.map key).Nodup) : ∀ l' : List α,
    (∀ c ∈ l', c ∈ l) → (l'.map key).filterMap (fun n => l.find? (fun x => key x == n)) = l' := by
  intro l'
  induction l' with
  | nil => intro _; rfl
  | cons a t ih =>
    intro h
    rw [List.map_cons, List.filterMap_cons, find_self key l hnd a (h a (by simp))]
    simp only
    rw [ih (fun c hc => h c (by simp [hc]))]

/-- the declaration the harness supplies for a column: its value table if it is an enum column, none otherwise -/
theorem find_enumsOf : ∀ (l : List LCol), (l.map (·.name)).Nodup → ∀ c ∈ l,
    (l.filterMap (fun c => if c.ty == .enum then some (c.name, c.vals) else none)).find? (·.1 == c.name) =
      if c.ty == .enum then some (c.name, c.vals) else none := by
  intro l
  induction l with
  | nil => intro _ c hc; cases hc
  | cons a t ih =>
    intro hnd c hc
    have hnd' : (a.name :: t.map (·.name)).Nodup := hnd
    obtain ⟨ha, ht⟩ := List.nodup_cons.mp hnd'
    have hnone : ∀ (l' : List LCol), a.name ∉ l'.map (·.name) →
        (l'.filterMap (fun c => if c.ty == .enum then some (c.name, c.vals) else none)).find? (·.1 == a.name) = none := by
      intro l' hl'
      rw [List.find?_eq_none]
      intro p hp
      obtain ⟨y, hy, hyp⟩ := List.mem_filterMap.mp hp
      by_cases hty : (y.ty == .enum) = true
      · simp only [hty, if_true, Option.some.injEq] at hyp
        subst hyp
        simp only [beq_iff_eq]
        intro e
        exact hl' (List.mem_map.mpr ⟨y, hy, e⟩)
      · simp [hty] at hyp
    rcases List.mem_cons.mp hc with rfl | hc'
    · rw [List.filterMap_cons]
      by_cases hty : (c.ty == .enum) = true
      · simp [hty]
      · simp only [hty, Bool.false_eq_true, if_false]
        exact hnone t ha
    · have hne : (a.name == c.name) = false := by
        rw [beq_eq_false_iff_ne]
        intro e
        exact ha (e ▸ List.mem_map.mpr ⟨c, hc', rfl⟩)
      rw [List.filterMap_cons]
      by_cases hty : (a.ty == .enum) = true
      · simp only [hty, if_true, List.find?_cons, hne]
        exact ih ht c hc'
      · simp only [hty, Bool.false_eq_true, if_false]
        exact ih ht c hc'

/-- what the configured round trip asks of the frame beyond `JsonTyped`: the names are valid UTF-8 (a JSON decoder returns
them unchanged — otherwise `ColumnOrder` names a column the document does not have), a column that is no enum column
carries no value table, and the values of an enum column AS A JSON DECODER RETURNS THEM can be declared with its value table
(at most 255 values; under a declared list every value a member) -/
structure CfgOk (f : LFrame) : Prop where
  utf8 : ∀ c ∈ f.cols, sanitize c.name = c.name
  plain : ∀ c ∈ f.cols, c.ty ≠ .enum → c.vals = [] ∧ c.strict = false
  enums : ∀ c ∈ f.cols, c.ty = .enum → (mkEnum c.vals (c.cells.map convCell).toList).isSome = true

theorem conv_cells_int (f : LFrame) (ht : JsonTyped f) (c : LCol) (hc : c ∈ f.cols) (hty : c.ty = .int) :
    c.cells.map (fun x => match x with | .int v => Cell.float (Num.ofDecimal (v < 0) v.natAbs 0) | y => y) =
      c.cells.map convCell := by
  apply map_cells
  intro i hi
  have := typed_at f ht c hc i hi
  rw [hty] at this
  cases hx : c.cells[i] <;> rw [hx] at this <;> first | rfl | exact this.elim

theorem conv_cells_str (f : LFrame) (ht : JsonTyped f) (c : LCol) (hc : c ∈ f.cols) (hty : c.ty = .string ∨ c.ty = .enum) :
    c.cells.map (fun x => match x with | .str (some s) => Cell.str (some (sanitize s)) | y => y) =
      c.cells.map convCell := by
  apply map_cells
  intro i hi
  have := typed_at f ht c hc i hi
  rcases hty with hty | hty <;> rw [hty] at this <;>
    (cases hx : c.cells[i] <;> rw [hx] at this <;> first | exact this.elim | skip) <;>
    (rename_i s; cases s <;> rfl)

theorem conv_cells_id (f : LFrame) (ht : JsonTyped f) (c : LCol) (hc : c ∈ f.cols) (hty : c.ty = .float ∨ c.ty = .bool) :
    c.cells.map convCell = c.cells := by
  apply map_cells_id
  intro i hi
  have := typed_at f ht c hc i hi
  rcases hty with hty | hty <;> rw [hty] at this <;>
    (cases hx : c.cells[i] <;> rw [hx] at this <;> first | rfl | exact this.elim)

theorem mkEnum_declared (decl : List Bytes) (cells : List Cell) (hne : decl.isEmpty = false) (v : List Bytes) (s : Bool)
    (h : mkEnum decl cells = some (v, s)) : v = decl ∧ s = true := by
  unfold mkEnum at h
  by_cases h1 : decl.length > 255
  · simp [h1] at h
  · simp only [h1, if_false, hne, Bool.not_false, if_true] at h
    split at h
    · injection h with h; injection h with h1 h2; exact ⟨h1.symm, h2.symm⟩
    · cases h

theorem mkEnum_free (cells : List Cell) (v : List Bytes) (s : Bool) (h : mkEnum [] cells = some (v, s)) : s = false := by
  unfold mkEnum at h
  simp only [List.length_nil, List.isEmpty_nil, Bool.not_true, Bool.false_eq_true, if_false] at h
  have : ¬ (0 > 255) := by omega
  simp only [this, if_false] at h
  split at h
  · cases h
  · injection h with h; injection h with _ h2; exact h2.symm

theorem toArray_map_toList (a : Array Cell) (g : Cell → Cell) : (List.map g a.toList).toArray = a.map g := by
  rw [← Array.toList_map]

/-- **one column under the harness's declarations**: what `newS.build` makes of the column `UnmarshalJSON` made -/
theorem specCol_cfg (f : LFrame) (ht : JsonTyped f) (hk : CfgOk f) (hnd : (f.cols.map (·.name)).Nodup) (used : List Bytes)
    (c : LCol) (hc : c ∈ f.cols) :
    specCol (enumsOf f) used (plainCol c).toNewCol = some (cfgCol c, if c.ty = .enum then c.name :: used else used) := by
  have hname := hk.utf8 c hc
  have hfind := find_enumsOf f.cols hnd c hc
  have h0 := ht.typed c hc 0 ht.rows
  cases hty : c.ty with
  | int =>
    obtain ⟨hv, hs⟩ := hk.plain c hc (by rw [hty]; decide)
    have hcells := conv_cells_int f ht c hc hty
    obtain ⟨name, ty, vals, strict, cells⟩ := c
    simp only at hty hv hs hname hcells
    subst hty hv hs
    simp [specCol, plainCol, LCol.toNewCol, plainTy, cfgCol, hname, hcells, toArray_map_toList]
  | float =>
    obtain ⟨hv, hs⟩ := hk.plain c hc (by rw [hty]; decide)
    have hcells := conv_cells_id f ht c hc (Or.inl hty)
    obtain ⟨name, ty, vals, strict, cells⟩ := c
    simp only at hty hv hs hname hcells
    subst hty hv hs
    simp [specCol, plainCol, LCol.toNewCol, plainTy, cfgCol, hname, hcells]
  | bool =>
    obtain ⟨hv, hs⟩ := hk.plain c hc (by rw [hty]; decide)
    have hcells := conv_cells_id f ht c hc (Or.inr hty)
    obtain ⟨name, ty, vals, strict, cells⟩ := c
    simp only at hty hv hs hname hcells
    subst hty hv hs
    simp [specCol, plainCol, LCol.toNewCol, plainTy, cfgCol, hname, hcells]
  | string =>
    obtain ⟨hv, hs⟩ := hk.plain c hc (by rw [hty]; decide)
    have hcells := conv_cells_str f ht c hc (Or.inl hty)
    rw [hty] at hfind
    obtain ⟨name, ty, vals, strict, cells⟩ := c
    simp only at hty hv hs hname hcells hfind
    subst hty hv hs
    have hfind' : (enumsOf f).find? (·.1 == name) = none := by simpa [enumsOf] using hfind
    simp [specCol, plainCol, LCol.toNewCol, plainTy, cfgCol, hname, hcells, toArray_map_toList, hfind']
  | enum =>
    have hcells := conv_cells_str f ht c hc (Or.inr hty)
    have hen := hk.enums c hc hty
    rw [hty] at hfind
    obtain ⟨name, ty, vals, strict, cells⟩ := c
    simp only at hty hname hcells hfind hen
    subst hty
    have hfind' : (enumsOf f).find? (·.1 == name) = some (name, vals) := by simpa [enumsOf] using hfind
    cases hm : mkEnum vals (cells.map convCell).toList with
    | none => rw [hm] at hen; cases hen
    | some p =>
      obtain ⟨v, s⟩ := p
      rw [Array.toList_map] at hm
      by_cases hve : vals.isEmpty = true
      · have hvn : vals = [] := by simpa using hve
        subst hvn
        have hs := mkEnum_free _ v s hm
        subst hs
        simp [specCol, plainCol, LCol.toNewCol, plainTy, cfgCol, hname, hcells, toArray_map_toList, hfind', hm]
      · have hve' : vals.isEmpty = false := by simpa using hve
        obtain ⟨rfl, rfl⟩ := mkEnum_declared vals _ hve' v s hm
        simp [specCol, plainCol, LCol.toNewCol, plainTy, cfgCol, hname, hcells, toArray_map_toList, hfind', hm, hve']
  | undef =>
    rw [hty] at h0
    cases hx : c.cells[0]! <;> rw [hx] at h0 <;> exact h0.elim

theorem build_cfg (f : LFrame) (ht : JsonTyped f) (hk : CfgOk f) (hnd : (f.cols.map (·.name)).Nodup) :
    ∀ (cs : List LCol) (used : List Bytes), (∀ c ∈ cs, c ∈ f.cols) →
      ∃ u, newS.build (enumsOf f) (f.n : Int) used ((cs.map plainCol).map LCol.toNewCol) = some (cs.map cfgCol, u) ∧
        (∀ x ∈ used, x ∈ u) ∧ (∀ c ∈ cs, c.ty = .enum → c.name ∈ u) := by
  intro cs
  induction cs with
  | nil => intro used _; exact ⟨used, build_nil _ _ _, fun x hx => hx, fun c hc => by cases hc⟩
  | cons c cs ih =>
    intro used h
    have hc := h c (by simp)
    have hcount : (plainCol c).toNewCol.count = (f.n : Int) := by simp [LCol.toNewCol, plainCol, ht.size c hc]
    obtain ⟨u, hb, hu1, hu2⟩ := ih (if c.ty = .enum then c.name :: used else used) (fun c' hc' => h c' (by simp [hc']))
    refine ⟨u, ?_, ?_, ?_⟩
    · rw [List.map_cons, List.map_cons, build_cons, specCol_cfg f ht hk hnd used c hc, hcount]
      have h1 : ¬ ((f.n : Int) < 0) := by omega
      simp only [h1, if_false, bne_self_eq_false, Bool.false_eq_true, hb, List.map_cons]
    · intro x hx
      apply hu1
      split
      · exact List.mem_cons_of_mem _ hx
      · exact hx
    · intro c' hc' hty
      rcases List.mem_cons.mp hc' with rfl | hc''
      · apply hu1
        rw [if_pos hty]
        exact List.mem_cons_self ..
      · exact hu2 c' hc'' hty

/-- **`New` with the harness's `ColumnOrder` and `Enums` on the columns `UnmarshalJSON` made of what `ToJSON` wrote** -/
theorem newS_cfg (f : LFrame) (ht : JsonTyped f) (hk : CfgOk f) :
    newS ((f.cols.map plainCol).map LCol.toNewCol) f.names (enumsOf f) = .ok (jsonReread f) := by
  have hnames : (f.cols.map fun c => sanitize c.name) = f.cols.map (·.name) :=
    List.map_congr_left (fun c hc => hk.utf8 c hc)
  have hnd : (f.cols.map (·.name)).Nodup := by rw [← hnames]; exact ht.names
  have hkeys : ((f.cols.map plainCol).map LCol.toNewCol).map (·.name) = f.names := by
    rw [List.map_map, List.map_map]
    exact hnames
  have hne : f.names.isEmpty = false := by
    cases hcols : f.cols with
    | nil => exact absurd hcols ht.cols
    | cons a t => simp [LFrame.names, hcols]
  have hord : specOrder ((f.cols.map plainCol).map LCol.toNewCol) f.names = f.names := by
    unfold specOrder
    rw [hne]
    rfl
  have hp : ¬ newPrefixRejects ((f.cols.map plainCol).map LCol.toNewCol) f.names := by
    unfold newPrefixRejects
    rw [hord]
    rintro (h | h | h)
    · rw [List.all_eq_false] at h
      obtain ⟨c', hc', hl⟩ := h
      obtain ⟨c'', hc'', rfl⟩ := List.mem_map.mp hc'
      obtain ⟨c, hc, rfl⟩ := List.mem_map.mp hc''
      exact hl (ht.legal c hc)
    · apply h
      simp [LFrame.names]
    · rw [List.all_eq_false] at h
      obtain ⟨x, hx, hl⟩ := h
      apply hl
      rw [List.any_eq_true]
      rw [← hkeys] at hx
      obtain ⟨c', hc', rfl⟩ := List.mem_map.mp hx
      exact ⟨c', hc', by simp⟩
  rw [newS_after_prefix _ _ _ hp, hord]
  have hfm : f.names.filterMap (fun n => ((f.cols.map plainCol).map LCol.toNewCol).find? (·.name == n)) =
      (f.cols.map plainCol).map LCol.toNewCol := by
    have := filterMap_find (fun x : NewCol => x.name) ((f.cols.map plainCol).map LCol.toNewCol)
      (by rw [hkeys]; exact hnd) ((f.cols.map plainCol).map LCol.toNewCol) (fun c hc => hc)
    rw [hkeys] at this
    exact this
  rw [hfm]
  obtain ⟨u, hb, _, hu⟩ := build_cfg f ht hk hnd f.cols [] (fun c hc => hc)
  cases hcols : f.cols with
  | nil => exact absurd hcols ht.cols
  | cons c0 rest =>
    have hcount : (plainCol c0).toNewCol.count = (f.n : Int) := by
      simp [LCol.toNewCol, plainCol, ht.size c0 (by rw [hcols]; simp)]
    rw [hcols] at hb
    simp only [List.map_cons] at hb ⊢
    rw [hcount, hb]
    have hall : (enumsOf f).all (fun e => u.contains e.1) = true := by
      rw [List.all_eq_true]
      intro e he
      obtain ⟨c, hc, hce⟩ := List.mem_filterMap.mp he
      by_cases hty : (c.ty == .enum) = true
      · simp only [hty, if_true, Option.some.injEq] at hce
        subst hce
        simp only [List.contains_iff_mem]
        exact hu c hc (eq_of_beq hty)
      · simp [hty] at hce
    simp only [hall, if_true, Int.toNat_natCast]
    rw [jsonReread_eq, hcols]
    rfl

/-- **`readjson_cfg_tojson`: the driver's two expectations for `ReadJSON` of what `ToJSON` wrote are equal.** For every
frame of the read-back half of C14's quantifier (`JsonTyped`) without an infinity, with int64 ints, and meeting `CfgOk`
(names valid UTF-8, no value table on a non-enum column, the enum values as a JSON decoder returns them declarable with the
column's value table): the spec of the READER with the configuration the harness supplies — `readJsonCfgS`, i.e.
`ReadJSON(ColumnOrder(f.names…), Enums(value tables))` — applied to the document the written text denotes returns, without
error, exactly the frame `jsonReread f` the driver predicts from the frame alone. (`QF/Drv/Hist.lean` evaluates both and
compares them dynamically, `DRIVER-ERROR kind=expectations`.) Formatter: the Ryu pipeline; parser: any correct one. -/
theorem readjson_cfg_tojson (pnum : Bytes → Option UInt64) (hp : PnumCorrect pnum) (f : LFrame) (ht : JsonTyped f)
    (hfin : NoInf f) (hint : Int64Cells f) (hk : CfgOk f) :
    (Json.parse (toJSON ryuFmt f)).map (fun doc => readJsonCfgS pnum doc f.names (enumsOf f)) = some (.ok (jsonReread f)) := by
  rw [tojson_parses_local ryuFmt f (frameOK_ryu f hfin), Option.map_some]
  unfold readJsonCfgS
  rw [doc_link pnum ryuFmt f ht (readsBack_ryu pnum hp f hfin hint)]
  simp only
  rw [newS_cfg f ht hk]

/-- the abstract form (any formatter / parser that fit on the frame's numbers), as `readjson_tojson_partial` -/
theorem readjson_cfg_tojson_partial (pnum : Bytes → Option UInt64) (fmt : UInt64 → List UInt8) (f : LFrame) (ht : JsonTyped f)
    (hok : FrameOK fmt f) (hr : ∀ c ∈ f.cols, ∀ r, r < f.n → ReadsBack pnum fmt c.cells[r]!) (hk : CfgOk f) :
    (Json.parse (toJSON fmt f)).map (fun doc => readJsonCfgS pnum doc f.names (enumsOf f)) = some (.ok (jsonReread f)) := by
  rw [tojson_parses_local fmt f hok, Option.map_some]
  unfold readJsonCfgS
  rw [doc_link pnum fmt f ht hr]
  simp only
  rw [newS_cfg f ht hk]

/-! ## A concrete input that meets the hypotheses -/

section Example

/-- `s: ["x", null]` (string), `a: [1, -2]` (int), `x: [0.1, -3.0]` (float: general algorithm / exact-integer fast path),
`b: [true, false]`, `e: ["hi", "lo"]` (enum, declared `lo, hi`) -/
def exR : LFrame :=
  { n := 2
    cols := [{ name := [115], ty := .string, cells := #[.str (some [120]), .str none] },
             { name := [97], ty := .int, cells := #[.int 1, .int (-2)] },
             { name := [120], ty := .float, cells := #[.float 0x3FB999999999999A, .float 0xC008000000000000] },
             { name := [98], ty := .bool, cells := #[.bool true, .bool false] },
             { name := [101], ty := .enum, vals := [[108, 111], [104, 105]], strict := true,
               cells := #[.str (some [104, 105]), .str (some [108, 111])] }] }

/-- the texts the Ryu pipeline writes for the two floats: `0.1` and `-3` -/
example : ryuFmt 0x3FB999999999999A = [48, 46, 49] ∧ ryuFmt 0xC008000000000000 = [45, 51] := by decide +kernel

theorem exR_typed : JsonTyped exR := by
  refine ⟨by decide, by decide, ?_, ?_, by decide, ?_⟩
  · intro c hc
    simp only [exR, List.mem_cons, List.not_mem_nil, or_false] at hc
    rcases hc with rfl | rfl | rfl | rfl | rfl <;> rfl
  · intro c hc r hr
    simp only [exR, List.mem_cons, List.not_mem_nil, or_false] at hc
    have : r = 0 ∨ r = 1 := by simp only [exR] at hr; omega
    rcases hc with rfl | rfl | rfl | rfl | rfl <;> rcases this with rfl | rfl <;> simp [CellTyped] <;> decide
  · intro c hc
    simp only [exR, List.mem_cons, List.not_mem_nil, or_false] at hc
    rcases hc with rfl | rfl | rfl | rfl | rfl <;> decide

theorem exR_noInf : NoInf exR := by
  intro c hc r hr b hb
  simp only [exR, List.mem_cons, List.not_mem_nil, or_false] at hc
  have : r = 0 ∨ r = 1 := by simp only [exR] at hr; omega
  rcases hc with rfl | rfl | rfl | rfl | rfl <;> rcases this with rfl | rfl <;> simp at hb <;> subst hb <;> decide

theorem exR_int64 : Int64Cells exR := by
  intro c hc r hr v hv
  simp only [exR, List.mem_cons, List.not_mem_nil, or_false] at hc
  have : r = 0 ∨ r = 1 := by simp only [exR] at hr; omega
  rcases hc with rfl | rfl | rfl | rfl | rfl <;> rcases this with rfl | rfl <;> simp at hv <;> subst hv <;> decide

theorem exR_cfg : CfgOk exR := by
  refine ⟨?_, ?_, ?_⟩
  · intro c hc
    simp only [exR, List.mem_cons, List.not_mem_nil, or_false] at hc
    rcases hc with rfl | rfl | rfl | rfl | rfl <;> decide
  · intro c hc hty
    simp only [exR, List.mem_cons, List.not_mem_nil, or_false] at hc
    rcases hc with rfl | rfl | rfl | rfl | rfl <;> first | exact ⟨rfl, rfl⟩ | exact absurd rfl hty
  · intro c hc hty
    simp only [exR, List.mem_cons, List.not_mem_nil, or_false] at hc
    rcases hc with rfl | rfl | rfl | rfl | rfl <;> first | exact absurd hty (by decide) | decide +kernel

theorem exR_frameTyped : C09Observe.FrameTyped exR := by
  intro c hc
  simp only [exR, List.mem_cons, List.not_mem_nil, or_false] at hc
  rcases hc with rfl | rfl | rfl | rfl | rfl <;> exact ⟨by decide, by decide⟩

/-- `readjson_tojson`, `readjson_cfg_tojson` and `gen_json_roundtrip_end_to_end` instantiated at `exR` with the spec's parser -/
example : (Json.parse (toJSON ryuFmt exR)).map (readJsonS pnumS) = some (.ok (jsonUnconfigured (jsonReread exR))) :=
  readjson_tojson pnumS pnumS_correct exR exR_typed exR_noInf exR_int64
example : (Json.parse (toJSON ryuFmt exR)).map (fun doc => readJsonCfgS pnumS doc exR.names (enumsOf exR)) =
    some (.ok (jsonReread exR)) :=
  readjson_cfg_tojson pnumS pnumS_correct exR exR_typed exR_noInf exR_int64 exR_cfg
example := gen_json_roundtrip_end_to_end pnumS pnumS_correct id (fun _ => List.Perm.refl _) exR exR_typed exR_frameTyped
  exR_noInf exR_int64

/-- … and what comes back is not trivial: configured, the columns in the given order, the int column as floats, the enum
column with its value table; unconfigured, sorted by name with the enum column as strings -/
example : (jsonReread exR).cols.map (·.ty) = [.string, .float, .float, .bool, .enum] ∧
    (jsonUnconfigured (jsonReread exR)).names = [[97], [98], [101], [115], [120]] ∧
    (jsonUnconfigured (jsonReread exR)).cols.map (·.ty) = [.float, .bool, .string, .string, .float] := by
  decide

/-- `CfgOk.utf8` is necessary: a column name that is no valid UTF-8 (`0xFF`) is written as `�`, and `ColumnOrder` with
the frame's own name then names a column the document does not have — the spec of the reader rejects -/
def exBadName : LFrame := { n := 1, cols := [{ name := [0xFF], ty := .bool, cells := #[.bool true] }] }
example : ((Json.parse (toJSON ryuFmt exBadName)).map
    (fun doc => readJsonCfgS pnumS doc exBadName.names (enumsOf exBadName))).map
      (fun r => match r with | .err => true | .ok _ => false) = some true := by decide +kernel

end Example

end QF.Props.C14RoundTrip

#print axioms QF.Props.C14RoundTrip.numTok_positionalL
#print axioms QF.Props.C14RoundTrip.ryuFmt_is_appendF
#print axioms QF.Props.C14RoundTrip.ryuFmt_numTok
#print axioms QF.Props.C14RoundTrip.frameOK_ryu
#print axioms QF.Props.C14RoundTrip.pnumS_intText
#print axioms QF.Props.C14RoundTrip.readsBack_ryu
#print axioms QF.Props.C14RoundTrip.readjson_tojson
#print axioms QF.Props.C14RoundTrip.gen_json_roundtrip_end_to_end
#print axioms QF.Props.C14RoundTrip.newS_cfg
#print axioms QF.Props.C14RoundTrip.readjson_cfg_tojson
#print axioms QF.Props.C14RoundTrip.readjson_cfg_tojson_partial
