import QF.Props.C13WriterGen
import QF.Props.C14WriterGen
import QF.Props.C14ReadJsonGen
import QF.Props.C12NoFuel
import QF.Props.C12GlueGen
import QF.Props.C19SqlWriteGen
import QF.Props.C19ReadSqlGen
import QF.Props.C03SortGlueGen
/-!
# C15 — I/O failures are reported: the writers against a writer that fails at a byte offset, and all six entry points

C15: "If the io.Reader, io.Writer or database/sql driver underneath ReadCSV, ReadJSON, ReadSQL, ToCSV, ToJSON or ToSQL fails
at any point, the call reports an error. It never returns an error-free frame that is missing rows of the input, never
reports success for output that was not completely accepted by the writer, and never panics."

The regenerated writers (`Gen.toJsonAst`, `Gen.toCsvAst`; QF/Core/WExpr.lean) are run against fault ORACLES: `Write` call
number `k` fails (`JEnv.fail`), `w.Write` number `k` of the csv writer fails / `w.Error()` is non-nil after `Flush`
(`CWEnv.wfail`, `CWEnv.ferr`). What was missing is the writer C15 talks about: one that fails AT A BYTE OFFSET. This file

* states the scripted writer `FW` (accepts the first `limit` bytes and fails from then on; the failing call hands over the
  bytes up to the limit first — a partial write — or nothing, as `partialWrite` says): the `faultWriter` of the T2 harness;
* proves `gen_tojson_fault`: for every frame, every fault offset and every oracle that gives the scripted writer's answers on
  the calls actually made (`FW.agrees`; one exists: `oracle_agrees`): `ToJSON` has a meaning (no panic), returns an error
  iff some `Write` failed iff the writer did not accept the whole text, and the bytes the writer accepted are a prefix of the
  fault-free output `C14ToJson.toJSON` (all of it when nil is returned);
* states the csv writer over its buffer (`encoding/csv.Writer` over `bufio.Writer` — NOT regenerated: the stated model
  `BufSched`) and proves `gen_tocsv_fault`: for every frame, fault offset and buffer schedule: `ToCSV` returns an error iff
  some `w.Write` or the final `Flush` (`w.Error()`) failed iff the writer did not accept the whole text, and the bytes the
  writer accepted are a prefix of the fault-free output `C13Write.tocsv`;
* assembles `gen_io_failures_reported`: one statement per I/O entry point of C15's text.

ReadJSON's decoder is the standard library: its reader-fault rule is stated over the model `decodeDoc` / `JUEnv.dec`
("a reader error that strikes before the document's value is complete is returned by `Decode`") and RESTS ON THAT MODEL.
-/
namespace QF.Props.C15EndToEnd
open QF
set_option linter.unusedSimpArgs false
set_option linter.unusedVariables false

/-! ## The scripted writer -/

/-- An `io.Writer` that accepts the first `limit` bytes and fails from then on (the `faultWriter` of the harness). -/
structure FW where
  limit : Nat
  /-- the failing call hands over the bytes up to the limit before it returns the error (`n < len(p)`, `err != nil`);
  `false`: it hands over nothing -/
  partialWrite : Bool := true

/-- `Write(p)` when `acc` bytes have been accepted so far: the bytes this call accepts, and whether it returns an error -/
def FW.write (w : FW) (acc : Nat) (p : Bytes) : Bytes × Bool :=
  if acc + p.length ≤ w.limit then (p, false) else (if w.partialWrite then p.take (w.limit - acc) else [], true)

/-- the calls `ps` one after the other by a caller that stops at the first error: the bytes accepted, and did a call fail -/
def FW.feed (w : FW) : Nat → List Bytes → Bytes × Bool
  | _, [] => ([], false)
  | acc, p :: ps =>
    if (w.write acc p).2 then ((w.write acc p).1, true)
    else (p ++ (w.feed (acc + p.length) ps).1, (w.feed (acc + p.length) ps).2)

/-- the bytes accepted over the calls `ps`, whatever the caller does with the errors -/
def FW.accepted (w : FW) : Nat → List Bytes → Bytes
  | _, [] => []
  | acc, p :: ps => (w.write acc p).1 ++ w.accepted (acc + (w.write acc p).1.length) ps

/-- the oracle `fail` (call number ↦ does it return an error) gives the scripted writer's answers on the calls `ps`, numbered
from `k`, the writer having accepted `acc` bytes before -/
def FW.agrees (w : FW) (fail : Nat → Bool) : Nat → Nat → List Bytes → Bool
  | _, _, [] => true
  | k, acc, p :: ps => (fail k == (w.write acc p).2) && w.agrees fail (k + 1) (acc + (w.write acc p).1.length) ps

theorem FW.write_ok (w : FW) (acc : Nat) (p : Bytes) (h : (w.write acc p).2 = false) :
    (w.write acc p).1 = p ∧ acc + p.length ≤ w.limit := by
  unfold FW.write at h ⊢
  by_cases hc : acc + p.length ≤ w.limit
  · simp [hc]
  · simp [hc] at h

theorem FW.write_fail (w : FW) (acc : Nat) (p : Bytes) (h : (w.write acc p).2 = true) :
    w.limit < acc + p.length ∧ (w.write acc p).1 <+: p := by
  unfold FW.write at h ⊢
  by_cases hc : acc + p.length ≤ w.limit
  · simp [hc] at h
  · simp only [hc, if_false]
    refine ⟨by omega, ?_⟩
    cases w.partialWrite
    · exact List.nil_prefix
    · exact List.take_prefix _ _

/-- what the writer accepted is a prefix of what it was handed -/
theorem FW.feed_prefix (w : FW) : ∀ (l : List Bytes) (acc : Nat), (w.feed acc l).1 <+: l.flatten := by
  intro l
  induction l with
  | nil => intro acc; simp [FW.feed]
  | cons p ps ih =>
    intro acc
    unfold FW.feed
    by_cases h : (w.write acc p).2 = true
    · simp only [h, if_true, List.flatten_cons]
      exact ((w.write_fail acc p h).2).trans (List.prefix_append _ _)
    · simp only [h, List.flatten_cons]
      exact (List.prefix_append_right_inj p).2 (ih _)

/-- a call fails iff the limit is below the end of the text -/
theorem FW.feed_fail_iff (w : FW) : ∀ (l : List Bytes) (acc : Nat), acc ≤ w.limit →
    ((w.feed acc l).2 = true ↔ w.limit < acc + l.flatten.length) := by
  intro l
  induction l with
  | nil => intro acc h; simp [FW.feed]; omega
  | cons p ps ih =>
    intro acc hacc
    unfold FW.feed
    by_cases h : (w.write acc p).2 = true
    · simp only [h, if_true, List.flatten_cons, List.length_append, true_iff]
      have := (w.write_fail acc p h).1
      omega
    · have hb : (w.write acc p).2 = false := by simpa using h
      have hok := (w.write_ok acc p hb).2
      simp only [hb, Bool.false_eq_true, if_false, List.flatten_cons, List.length_append]
      rw [ih (acc + p.length) hok]
      omega

/-- without a failing call everything was accepted -/
theorem FW.feed_ok (w : FW) : ∀ (l : List Bytes) (acc : Nat), (w.feed acc l).2 = false → (w.feed acc l).1 = l.flatten := by
  intro l
  induction l with
  | nil => intro acc _; rfl
  | cons p ps ih =>
    intro acc h
    unfold FW.feed at h ⊢
    by_cases hw : (w.write acc p).2 = true
    · simp [hw] at h
    · simp only [hw, Bool.false_eq_true, if_false] at h ⊢
      rw [ih _ h]
      rfl

/-- with partial writes the writer has accepted exactly its first `limit` bytes when a call fails -/
theorem FW.feed_partial_length (w : FW) (hp : w.partialWrite = true) : ∀ (l : List Bytes) (acc : Nat), acc ≤ w.limit →
    (w.feed acc l).2 = true → acc + (w.feed acc l).1.length = w.limit := by
  intro l
  induction l with
  | nil => intro acc _ h; simp [FW.feed] at h
  | cons p ps ih =>
    intro acc hacc h
    unfold FW.feed at h ⊢
    by_cases hw : (w.write acc p).2 = true
    · simp only [hw, if_true]
      have hl := (w.write_fail acc p hw).1
      unfold FW.write
      have hc : ¬ acc + p.length ≤ w.limit := by omega
      simp only [hc, if_false, hp, if_true, List.length_take]
      omega
    · have hb : (w.write acc p).2 = false := by simpa using hw
      simp only [hb, Bool.false_eq_true, if_false] at h ⊢
      have := ih (acc + p.length) (w.write_ok acc p hb).2 h
      simp only [List.length_append]
      omega

/-! ## Programs that stop at the first failing call (`cutWrites`) against the scripted writer -/

theorem cut_prefix {α : Type} (fail : Nat → Bool) : ∀ (l : List α) (k : Nat), (cutWrites fail k l).1 <+: l := by
  intro l
  induction l with
  | nil => intro k; simp [cutWrites]
  | cons b bs ih =>
    intro k
    by_cases h : fail k = true
    · simp only [cutWrites, h, if_true]
      exact ⟨bs, rfl⟩
    · simp only [cutWrites, h, Bool.false_eq_true, if_false]
      exact (List.prefix_append_right_inj [b]).2 (ih (k + 1))

/-- an error is returned iff one of the calls made failed -/
theorem cut_fail_iff {α : Type} (fail : Nat → Bool) : ∀ (l : List α) (k : Nat),
    (cutWrites fail k l).2 = true ↔ ∃ j, j < (cutWrites fail k l).1.length ∧ fail (k + j) = true := by
  intro l
  induction l with
  | nil => intro k; simp [cutWrites]
  | cons b bs ih =>
    intro k
    by_cases h : fail k = true
    · simp only [cutWrites, h, if_true, List.length_singleton, true_iff]
      exact ⟨0, by omega, by simpa using h⟩
    · simp only [cutWrites, h, Bool.false_eq_true, if_false, List.length_cons]
      rw [ih (k + 1)]
      constructor
      · rintro ⟨j, hj, hf⟩
        exact ⟨j + 1, by omega, by rw [← hf]; congr 1; omega⟩
      · rintro ⟨j, hj, hf⟩
        cases j with
        | zero => simp at hf; exact absurd hf h
        | succ j => exact ⟨j, by omega, by rw [← hf]; congr 1; omega⟩

/-- **The oracle and the writer.** When the oracle gives the scripted writer's answers on the calls made, the program has
returned an error iff the writer failed on the chunks, and what the writer accepted over the calls made is what it accepts
of the chunks. -/
theorem cut_feed (w : FW) (fail : Nat → Bool) : ∀ (l : List Bytes) (k acc : Nat),
    w.agrees fail k acc (cutWrites fail k l).1 = true →
    (cutWrites fail k l).2 = (w.feed acc l).2 ∧ w.accepted acc (cutWrites fail k l).1 = (w.feed acc l).1 := by
  intro l
  induction l with
  | nil => intro k acc _; simp [cutWrites, FW.feed, FW.accepted]
  | cons b bs ih =>
    intro k acc h
    by_cases hf : fail k = true
    · simp only [cutWrites, hf, if_true, FW.agrees, Bool.and_true, beq_iff_eq] at h ⊢
      simp only [FW.feed, ← h, if_true, FW.accepted, List.append_nil, and_self]
    · have hfb : fail k = false := by simpa using hf
      simp only [cutWrites, hfb, Bool.false_eq_true, if_false, FW.agrees, Bool.and_eq_true, beq_iff_eq] at h ⊢
      have hw : (w.write acc b).2 = false := h.1.symm
      have h1 := (w.write_ok acc b hw).1
      rw [h1] at h
      obtain ⟨e1, e2⟩ := ih (k + 1) (acc + b.length) h.2
      simp only [FW.feed, hw, Bool.false_eq_true, if_false, FW.accepted, h1]
      exact ⟨e1, by rw [e2]⟩

/-- the scripted writer's answers as an oracle on the fault-free chunks `l`: call `j` fails iff its end is beyond the limit -/
def FW.oracle (w : FW) (l : List Bytes) : Nat → Bool := fun j => decide (w.limit < ((l.take (j + 1)).flatten).length)

/-- **Such an oracle exists**: the one read off the fault-free chunks agrees with the writer on the calls made. -/
theorem oracle_agrees_from (w : FW) (l : List Bytes) : ∀ (rest pre : List Bytes), l = pre ++ rest → pre.flatten.length ≤ w.limit →
    w.agrees (w.oracle l) pre.length pre.flatten.length (cutWrites (w.oracle l) pre.length rest).1 = true := by
  intro rest
  induction rest with
  | nil => intro pre _ _; simp [cutWrites, FW.agrees]
  | cons p ps ih =>
    intro pre hl hacc
    have hlen1 : (pre ++ [p]).length = pre.length + 1 := by simp
    have hlen2 : (pre ++ [p]).flatten.length = pre.flatten.length + p.length := by
      simp only [List.flatten_append, List.flatten_cons, List.flatten_nil, List.append_nil, List.length_append]
    have htake : l.take (pre.length + 1) = pre ++ [p] := by
      have e : pre ++ p :: ps = (pre ++ [p]) ++ ps := by simp
      rw [hl, e, List.take_left' hlen1]
    have horc : w.oracle l pre.length = (w.write pre.flatten.length p).2 := by
      unfold FW.oracle FW.write
      rw [htake, hlen2]
      by_cases hc : pre.flatten.length + p.length ≤ w.limit
      · rw [if_pos hc]
        simp only [decide_eq_false_iff_not, Nat.not_lt]
        exact hc
      · rw [if_neg hc]
        simp only [decide_eq_true_eq]
        omega
    by_cases hf : w.oracle l pre.length = true
    · simp only [cutWrites, hf, if_true, FW.agrees, Bool.and_true, beq_iff_eq]
      rw [← horc, hf]
    · have hfb : w.oracle l pre.length = false := by simpa using hf
      simp only [cutWrites, hfb, Bool.false_eq_true, if_false, FW.agrees, Bool.and_eq_true, beq_iff_eq]
      have hw : (w.write pre.flatten.length p).2 = false := by rw [← horc, hfb]
      obtain ⟨h1, h2⟩ := w.write_ok _ p hw
      refine ⟨by rw [hw], ?_⟩
      rw [h1]
      have := ih (pre ++ [p]) (by rw [hl]; simp) (by rw [hlen2]; exact h2)
      rw [hlen1, hlen2] at this
      exact this

theorem oracle_agrees (w : FW) (l : List Bytes) : w.agrees (w.oracle l) 0 0 (cutWrites (w.oracle l) 0 l).1 = true := by
  have := oracle_agrees_from w l l [] rfl (by simp)
  simpa using this

#print axioms oracle_agrees

/-! ## `ToJSON` against the scripted writer -/

section ToJSON
open QF.Props.C14WriterGen QF.Props.C14ToJson

/-- **`ToJSON` of today's source against a writer that fails at a byte offset.** For EVERY frame (cells of their column's
type), every oracle `fail` for the `Write` calls and every scripted writer `w` (any limit, partial write or not):

* the call has a meaning and returns (no panic); the `Write` calls made are an initial part of the fault-free calls
  (`[`, one per record, `]`);
* it returns a non-nil error IFF one of the `Write` calls it made returned an error;

and when the oracle gives the scripted writer's answers on the calls made (`FW.agrees`; such an oracle exists:
`gen_tojson_fault_oracle`):

* it returns an error iff the writer's limit is below the length of the fault-free text — success is never reported for
  output the writer did not completely accept, and an error never for output it accepted completely;
* the bytes the writer accepted are a PREFIX of the fault-free output `toJSON fmt f`; all of it when nil is returned; with
  partial writes exactly the first `limit` bytes when an error is returned. -/
theorem gen_tojson_fault (fmt : UInt64 → Bytes) (f : LFrame) (hf : C09Observe.FrameTyped f) (w : FW) (fail : Nat → Bool) :
    ∃ ws e, genToJSON fmt f fail = some (ws, e) ∧
      ws <+: chunks fmt f ∧
      (e = true ↔ ∃ j, j < ws.length ∧ fail j = true) ∧
      (w.agrees fail 0 0 ws = true →
        (e = true ↔ w.limit < (toJSON fmt f).length) ∧
        w.accepted 0 ws <+: toJSON fmt f ∧
        (e = false → w.accepted 0 ws = toJSON fmt f) ∧
        (e = true → w.partialWrite = true → (w.accepted 0 ws).length = w.limit)) := by
  refine ⟨(cutWrites fail 0 (chunks fmt f)).1, (cutWrites fail 0 (chunks fmt f)).2, ?_, cut_prefix _ _ _, ?_, ?_⟩
  · rw [gen_tojson_writes fmt f hf fail]
    rfl
  · have := cut_fail_iff fail (chunks fmt f) 0
    simpa using this
  · intro hag
    obtain ⟨e1, e2⟩ := cut_feed w fail (chunks fmt f) 0 0 hag
    rw [e1, e2, ← chunks_flatten]
    refine ⟨?_, w.feed_prefix _ 0, w.feed_ok _ 0, ?_⟩
    · have := w.feed_fail_iff (chunks fmt f) 0 (Nat.zero_le _)
      simpa using this
    · intro h hp
      have := w.feed_partial_length hp (chunks fmt f) 0 (Nat.zero_le _) h
      omega

/-- … and the oracle read off the fault-free chunks is one that agrees with the writer: the hypothesis of
`gen_tojson_fault` can be met for every frame and every writer. -/
theorem gen_tojson_fault_oracle (fmt : UInt64 → Bytes) (f : LFrame) (hf : C09Observe.FrameTyped f) (w : FW) :
    ∃ ws e, genToJSON fmt f (w.oracle (chunks fmt f)) = some (ws, e) ∧ w.agrees (w.oracle (chunks fmt f)) 0 0 ws = true := by
  refine ⟨(cutWrites (w.oracle (chunks fmt f)) 0 (chunks fmt f)).1, (cutWrites (w.oracle (chunks fmt f)) 0 (chunks fmt f)).2, ?_,
    oracle_agrees w (chunks fmt f)⟩
  rw [gen_tojson_writes fmt f hf]
  rfl

end ToJSON

/-! ## `ToCSV` against the scripted writer -/

section ToCSV
open QF.Props.C13WriterGen QF.Props.C13Write

/-- **The csv writer over its buffer — the stated model** (`encoding/csv.Writer` over `bufio.Writer`; the standard library
is NOT regenerated). `w.Write(record)` renders the record (`C13Write.writeRecord`, the byte-exact mirror of the csv writer)
into a buffer; the buffer hands what it holds to the underlying `io.Writer` in chunks, when it likes (when it is full, for a
large piece directly, and what is left at `Flush`); its error is sticky: after the first failing call of the underlying
writer nothing more is handed over, every further `w.Write` returns that error, and `w.Error()` returns it after `Flush`.
Hence a run is described by the chunking it would produce if nothing failed:

* `chunks` — the pieces handed to the underlying writer, in order, when nothing fails (`Flush` included): together the
  rendered records;
* `upto i` — how many of them have been handed over when `w.Write` number `i` returns.

Every buffer size and every chunking policy is an instance; the theorems below hold for all of them. (A real buffer also
never hands over bytes that were not written yet; the theorems do not need it.) -/
structure BufSched where
  chunks : List Bytes
  upto : Nat → Nat

/-- does `w.Write` number `i` return an error: one of the chunks handed over by then was refused -/
def wfailOf (w : FW) (B : BufSched) : Nat → Bool := fun i => (w.feed 0 (B.chunks.take (B.upto i))).2

/-- is `w.Error()` non-nil after `Flush`: one of the chunks was refused -/
def ferrOf (w : FW) (B : BufSched) : Bool := (w.feed 0 B.chunks).2

/-- the bytes the underlying writer has accepted when `ToCSV` returns after `nrecs` records, flushed or not -/
def acceptedCsv (w : FW) (B : BufSched) (nrecs : Nat) (flushed : Bool) : Bytes :=
  (w.feed 0 (if flushed then B.chunks else B.chunks.take (B.upto (nrecs - 1)))).1

theorem take_flatten_prefix (l : List Bytes) (m : Nat) : (l.take m).flatten <+: l.flatten := by
  conv => rhs; rw [← List.take_append_drop m l, List.flatten_append]
  exact List.prefix_append _ _

/-- the outcome `csvResult` (records handed over, flushed?, return) of any record list against the scripted writer behind
any buffer schedule that renders these records -/
theorem csvResult_fault (E : CWEnv) (w : FW) (B : BufSched) (hw : E.wfail = wfailOf w B) (hfe : E.ferr = ferrOf w B)
    (rows : List (List Bytes)) (hB : B.chunks.flatten = csvWrite rows) :
    (csvResult E rows).1 <+: rows ∧
    ((csvResult E rows).2.2 ≠ .nil ↔
      (∃ i, i < (csvResult E rows).1.length ∧ E.wfail i = true) ∨ ((csvResult E rows).2.1 = true ∧ E.ferr = true)) ∧
    ((csvResult E rows).2.2 ≠ .nil ↔ w.limit < (csvWrite rows).length) ∧
    acceptedCsv w B (csvResult E rows).1.length (csvResult E rows).2.1 <+: csvWrite rows ∧
    ((csvResult E rows).2.2 = .nil → acceptedCsv w B (csvResult E rows).1.length (csvResult E rows).2.1 = csvWrite rows) := by
  have hcut := cut_fail_iff E.wfail rows 0
  simp only [Nat.zero_add] at hcut
  have hpre : ∀ m, (w.feed 0 (B.chunks.take m)).1 <+: csvWrite rows := by
    intro m
    rw [← hB]
    exact (w.feed_prefix _ 0).trans (take_flatten_prefix _ _)
  unfold csvResult
  by_cases hc : (cutWrites E.wfail 0 rows).2 = true
  · simp only [hc, if_true, Bool.not_true]
    obtain ⟨j, hj, hjf⟩ := hcut.1 hc
    have hlim : w.limit < (csvWrite rows).length := by
      rw [hw] at hjf
      have h1 := (w.feed_fail_iff (B.chunks.take (B.upto j)) 0 (Nat.zero_le _)).1 hjf
      have h2 := (take_flatten_prefix B.chunks (B.upto j)).length_le
      rw [hB] at h2
      omega
    refine ⟨cut_prefix _ _ _, ?_, ?_, ?_, ?_⟩
    · simp only [ne_eq, reduceCtorEq, not_false_eq_true, true_iff]
      exact .inl ⟨j, hj, hjf⟩
    · simp only [ne_eq, reduceCtorEq, not_false_eq_true, true_iff]
      exact hlim
    · unfold acceptedCsv
      simp only [Bool.false_eq_true, if_false]
      exact hpre _
    · intro h; cases h
  · have hcb : (cutWrites E.wfail 0 rows).2 = false := by simpa using hc
    have hnone : ¬ ∃ i, i < (cutWrites E.wfail 0 rows).1.length ∧ E.wfail i = true := fun h => hc (hcut.2 h)
    simp only [hcb, Bool.false_eq_true, if_false, Bool.not_false]
    have hff := w.feed_fail_iff B.chunks 0 (Nat.zero_le _)
    rw [hB, Nat.zero_add] at hff
    refine ⟨cut_prefix _ _ _, ?_, ?_, ?_, ?_⟩
    · by_cases hfr : E.ferr = true
      · simp [hfr]
      · simp only [hfr, Bool.false_eq_true, if_false, ne_eq, not_true_eq_false, and_false, or_false, false_iff]
        exact hnone
    · rw [hfe]
      unfold ferrOf
      by_cases hfr : (w.feed 0 B.chunks).2 = true
      · simp only [hfr, if_true, ne_eq, reduceCtorEq, not_false_eq_true, true_iff]
        exact hff.1 hfr
      · simp only [hfr, Bool.false_eq_true, if_false, ne_eq, not_true_eq_false, false_iff]
        exact fun h => hfr (hff.2 h)
    · unfold acceptedCsv
      simp only [if_true]
      rw [← hB]
      exact w.feed_prefix _ 0
    · intro h
      unfold acceptedCsv
      simp only [if_true]
      rw [← hB]
      apply w.feed_ok
      rw [hfe] at h
      unfold ferrOf at h
      by_cases hfr : (w.feed 0 B.chunks).2 = true
      · simp [hfr] at h
      · simpa using hfr

/-- **`ToCSV` of today's source against a writer that fails at a byte offset**, behind the csv writer and its buffer (stated
model `BufSched`). For EVERY frame with distinct column names whose cells are of their column's type, with or without the
header record, every scripted writer (any limit, partial write or not) and every buffer schedule `B` that renders the
fault-free records (`B.chunks.flatten = tocsv fmt hdr f`):

* the call has a meaning and returns (no panic); the records handed to the csv writer are an initial part of the
  fault-free records;
* it returns a non-nil error IFF some `w.Write` it made returned an error, or the writer was flushed and the final
  `w.Error()` is non-nil — the failure noticed at `Flush` is NOT swallowed;
* it returns an error iff the writer's limit is below the length of the fault-free text: success is never reported for
  output that was not completely accepted;
* the bytes the underlying writer accepted are a PREFIX of the fault-free output `tocsv fmt hdr f`, and all of it when nil
  is returned. -/
theorem gen_tocsv_fault (fmt : UInt64 → Bytes) (f : LFrame) (hf : C09Observe.FrameTyped f) (hnd : f.names.Nodup)
    (hdr : Bool) (w : FW) (B : BufSched) (hB : B.chunks.flatten = tocsv fmt hdr f) :
    ∃ recs fl ret, genToCSV fmt f none hdr (wfailOf w B) (ferrOf w B) = some (recs, fl, ret) ∧
      recs <+: tocsvRows fmt hdr f ∧
      (ret ≠ .nil ↔ (∃ i, i < recs.length ∧ wfailOf w B i = true) ∨ (fl = true ∧ ferrOf w B = true)) ∧
      (ret ≠ .nil ↔ w.limit < (tocsv fmt hdr f).length) ∧
      acceptedCsv w B recs.length fl <+: tocsv fmt hdr f ∧
      (ret = .nil → acceptedCsv w B recs.length fl = tocsv fmt hdr f) := by
  have canon : Gen.toCsvAst = canonToCSV := by decide
  have hrun : genToCSV fmt f none hdr (wfailOf w B) (ferrOf w B) =
      some (csvResult (genEnv fmt f none hdr (wfailOf w B) (ferrOf w B)) (tocsvRows fmt hdr f)) := by
    rw [genToCSV, canon, canon_default _ fmt (genEnv_ok fmt f none hdr _ _ hf) rfl hnd]
    rfl
  obtain ⟨h1, h2, h3, h4, h5⟩ := csvResult_fault (genEnv fmt f none hdr (wfailOf w B) (ferrOf w B)) w B rfl rfl
    (tocsvRows fmt hdr f) hB
  exact ⟨_, _, _, hrun, h1, h2, h3, h4, h5⟩

/-- … the same with a column list (`conf.Columns`) of the frame's length whose names all exist (a permutation of the column
names, say): the records are those of the selected columns `cs`. (A list of another length or with an unknown name is
rejected before anything is written: `C13WriterGen.gen_tocsv_reject`.) -/
theorem gen_tocsv_fault_given (fmt : UInt64 → Bytes) (f : LFrame) (hf : C09Observe.FrameTyped f) (cols : List Bytes)
    (cs : List LCol) (hl : cols.length = f.cols.length) (hcs : cols.mapM f.find? = some cs)
    (hdr : Bool) (w : FW) (B : BufSched) (hB : B.chunks.flatten = tocsv fmt hdr { f with cols := cs }) :
    ∃ recs fl ret, genToCSV fmt f (some cols) hdr (wfailOf w B) (ferrOf w B) = some (recs, fl, ret) ∧
      recs <+: tocsvRows fmt hdr { f with cols := cs } ∧
      (ret ≠ .nil ↔ (∃ i, i < recs.length ∧ wfailOf w B i = true) ∨ (fl = true ∧ ferrOf w B = true)) ∧
      (ret ≠ .nil ↔ w.limit < (tocsv fmt hdr { f with cols := cs }).length) ∧
      acceptedCsv w B recs.length fl <+: tocsv fmt hdr { f with cols := cs } ∧
      (ret = .nil → acceptedCsv w B recs.length fl = tocsv fmt hdr { f with cols := cs }) := by
  have canon : Gen.toCsvAst = canonToCSV := by decide
  rw [← optMap_eq_mapM] at hcs
  have hrun : genToCSV fmt f (some cols) hdr (wfailOf w B) (ferrOf w B) =
      some (csvResult (genEnv fmt f (some cols) hdr (wfailOf w B) (ferrOf w B)) (tocsvRows fmt hdr { f with cols := cs })) := by
    rw [genToCSV, canon, canon_given _ fmt (genEnv_ok fmt f _ hdr _ _ hf) cols cs rfl hl hcs]
    rfl
  obtain ⟨h1, h2, h3, h4, h5⟩ := csvResult_fault (genEnv fmt f (some cols) hdr (wfailOf w B) (ferrOf w B)) w B rfl rfl
    (tocsvRows fmt hdr { f with cols := cs }) hB
  exact ⟨_, _, _, hrun, h1, h2, h3, h4, h5⟩

/-- a buffer of `cap ≥ 1` bytes that hands over full buffers and, at `Flush`, the rest: the pieces of the text `b` -/
def chop (cap : Nat) : Nat → Bytes → List Bytes
  | 0, _ => []
  | fuel + 1, b => if b.length ≤ cap then (if b.isEmpty then [] else [b]) else b.take cap :: chop cap fuel (b.drop cap)

theorem chop_flatten (cap : Nat) (hcap : 1 ≤ cap) : ∀ (fuel : Nat) (b : Bytes), b.length < fuel → (chop cap fuel b).flatten = b := by
  intro fuel
  induction fuel with
  | zero => intro b h; omega
  | succ fuel ih =>
    intro b h
    unfold chop
    by_cases hc : b.length ≤ cap
    · simp only [hc, if_true]
      cases b with
      | nil => rfl
      | cons x xs => simp
    · simp only [hc, if_false, List.flatten_cons]
      rw [ih (b.drop cap) (by simp only [List.length_drop]; omega), List.take_append_drop]

/-- **An instance of the model for every buffer size**: a buffer of `cap` bytes (`bufio`'s is 4096) in front of the
underlying writer hands over full buffers as they fill and the rest at `Flush`; when `w.Write` number `i` returns, the full
buffers among the bytes of the records `0 … i` have been handed over. -/
def bufOfCap (cap : Nat) (rows : List (List Bytes)) : BufSched :=
  { chunks := chop cap ((csvWrite rows).length + 1) (csvWrite rows),
    upto := fun i => (csvWrite (rows.take (i + 1))).length / cap }

theorem bufOfCap_ok (cap : Nat) (hcap : 1 ≤ cap) (rows : List (List Bytes)) : (bufOfCap cap rows).chunks.flatten = csvWrite rows :=
  chop_flatten cap hcap _ _ (Nat.lt_succ_self _)

/-- `gen_tocsv_fault` for a buffer of any size `cap ≥ 1`: the hypothesis on the schedule is met for every frame -/
theorem gen_tocsv_fault_cap (fmt : UInt64 → Bytes) (f : LFrame) (hf : C09Observe.FrameTyped f) (hnd : f.names.Nodup)
    (hdr : Bool) (w : FW) (cap : Nat) (hcap : 1 ≤ cap) :
    ∃ recs fl ret, genToCSV fmt f none hdr (wfailOf w (bufOfCap cap (tocsvRows fmt hdr f))) (ferrOf w (bufOfCap cap (tocsvRows fmt hdr f)))
        = some (recs, fl, ret) ∧
      (ret ≠ .nil ↔ w.limit < (tocsv fmt hdr f).length) ∧
      acceptedCsv w (bufOfCap cap (tocsvRows fmt hdr f)) recs.length fl <+: tocsv fmt hdr f ∧
      (ret = .nil → acceptedCsv w (bufOfCap cap (tocsvRows fmt hdr f)) recs.length fl = tocsv fmt hdr f) := by
  obtain ⟨recs, fl, ret, h1, _, _, h4, h5, h6⟩ :=
    gen_tocsv_fault fmt f hf hnd hdr w (bufOfCap cap (tocsvRows fmt hdr f)) (bufOfCap_ok cap hcap _)
  exact ⟨recs, fl, ret, h1, h4, h5, h6⟩

end ToCSV

/-! ## `ReadJSON`: the reader-fault rule over the stated model of `Decode` -/

section ReadJSON
open QF.Props.C14ReadJsonGen

/-- `UnmarshalJSON` of today's source when `decoder.Decode(&records)` returns `dec` (`none`: an error) -/
def genUnmarshalOn (dec : Option (List GoMap)) (iter : GoMap → GoMap) : Option (Option JData) :=
  match Gen.unmarshalJsonAst.run (δ := JData) (ρ := Unit)
      { dec := dec, toData := genToData iter, unm := none, new := fun _ => (), errFrame := () } .start with
  | some (.data d) => some d
  | _ => none

/-- `ReadJSON` of today's source when `decoder.Decode(&records)` returns `dec` -/
def genReadJsonOn (dec : Option (List GoMap)) (iter : GoMap → GoMap) : Option Res :=
  match Gen.readJsonAst.run (δ := JData) (ρ := Res)
      { dec := none, toData := fun _ => none, unm := genUnmarshalOn dec iter, new := newOfData, errFrame := .err } .start with
  | some (.frame f) => some f
  | _ => none

/-- **THE STATED MODEL of `(*json.Decoder).Decode` over a reader** (`encoding/json` is NOT regenerated): when the reader
returns an error other than `io.EOF` before the document's value is complete (`readerFailed`), `Decode` returns that error;
otherwise it is `decodeDoc` of the document (QF/Core/JRExpr.lean). A reader error that strikes only after the closing `]`
has been delivered is never seen by `Decode` — and then nothing of the input is missing. -/
def decodeOver (pnum : Bytes → Option UInt64) (doc : Json.JVal) (readerFailed : Bool) : Option (List GoMap) :=
  if readerFailed then none else decodeDoc pnum doc

/-- with a reader that does not fail this is `C14ReadJsonGen.genReadJson` -/
theorem genReadJsonOn_doc (pnum : Bytes → Option UInt64) (iter : GoMap → GoMap) (doc : Json.JVal) :
    genReadJsonOn (decodeOver pnum doc false) iter = genReadJson pnum iter doc := rfl

/-- **`ReadJSON` of today's source returns `QFrame{Err: err}` whenever `Decode` returns an error** — RESTS ON THE MODEL
`decodeOver`: a reader error is an error of `Decode`. Proved of the regenerated `UnmarshalJSON` and `ReadJSON`. -/
theorem gen_readjson_reader_fault (iter : GoMap → GoMap) : genReadJsonOn none iter = some .err := by
  have hu : genUnmarshalOn none iter = some none := by
    unfold genUnmarshalOn
    rw [gen_readjson_canon.2.2.1]
    simp [canonUnmarshal, JU.run]
  unfold genReadJsonOn
  rw [gen_readjson_canon.2.2.2, hu]
  simp [canonReadJson, JU.run]

end ReadJSON

/-! ## All six entry points -/

section All
open QF.Props.C13WriterGen QF.Props.C13Write QF.Props.C14WriterGen QF.Props.C14ToJson QF.Props.C12GlueGen
open QF.Props.C19Sql QF.Props.C19SqlWriteGen QF.Props.C19ReadSqlGen QF.Props.C14ReadJsonGen
open QF.SG QF.Props.C03SortGlueGen

/-- `ToSQL` with any scripted driver: an error iff some `Exec` failed; the statements that reached the driver are an initial
part of the frame's statements, all of them when nil is returned -/
theorem gen_tosql_reported (P : VFrame) (h : FrameOK P) (cfg : SqlCfg) (efail : Nat → Bool) :
    ∃ execs ret, genToSQLToday P false cfg efail = some (execs, ret) ∧ execs <+: toSqlGo cfg P.logical ∧
      (ret ≠ .nil ↔ ∃ j, j < execs.length ∧ efail j = true) ∧ (ret = .nil → execs = toSqlGo cfg P.logical) := by
  refine ⟨(cutWrites efail 0 (toSqlGo cfg P.logical)).1,
    if (cutWrites efail 0 (toSqlGo cfg P.logical)).2 then .execErr else .nil, ?_, cut_prefix _ _ _, ?_, ?_⟩
  · rw [gen_tosql_semantics P h false cfg efail]
    rfl
  · have hc := cut_fail_iff efail (toSqlGo cfg P.logical) 0
    simp only [Nat.zero_add] at hc
    by_cases hx : (cutWrites efail 0 (toSqlGo cfg P.logical)).2 = true
    · simp only [hx, if_true, ne_eq, reduceCtorEq, not_false_eq_true, true_iff]
      exact hc.1 hx
    · simp only [hx, Bool.false_eq_true, if_false, ne_eq, not_true_eq_false, false_iff]
      exact fun hh => hx (hc.2 hh)
  · intro hr
    apply cutWrites_ok
    by_cases hx : (cutWrites efail 0 (toSqlGo cfg P.logical)).2 = true
    · simp [hx] at hr
    · simpa using hx

/-- **C15, one statement per I/O entry point, for the code regenerated from today's source.**

1. `ReadCSV` — for every document, read schedule with reads ≥ 1, buffer capacity, EOF mode, and EVERY call number `k` at
   which the underlying reader fails (with or without data): the regenerated fastcsv reader ends with the reader's failure
   iff the failing `Read` call was made (`C12NoFuel.gen_fail_iff_reached`), and then the regenerated glue returns an error
   whatever records it was given before (`C12GlueGen.gen_csvglue_faults`; so does it when `r.Err()` is non-nil at a record).
2. `ReadJSON` — OVER THE STATED MODEL `decodeOver` of the standard library's decoder (a reader error before the value is
   complete is returned by `Decode`): regenerated `UnmarshalJSON` / `ReadJSON` return `QFrame{Err: err}`.
3. `ToCSV` — `gen_tocsv_fault`: every fault offset of the writer, every buffer schedule of the csv writer (stated model
   `BufSched`): an error iff a `w.Write` or the final `Flush` failed iff not everything was accepted; accepted bytes a prefix.
4. `ToJSON` — `gen_tojson_fault`: every fault offset: an error iff a `Write` failed iff not everything was accepted; accepted
   bytes a prefix of the fault-free text.
5. `ToSQL` — every scripted driver: an error iff an `Exec` failed, the statements that reached the driver are an initial
   part of the frame's statements (exactly `k + 1` when `Exec` number `k` fails: `gen_tosql_fault`); a frame error: no call.
6. `ReadSQL` / `ReadSQLWithArgs` — a non-nil `rows.Err()` after the loop, a failing `rows.Columns()`, a failing `Scan` (any
   row) are returned as errors; a failing `Prepare` / `Query` / `ReadSQL` gives `QFrame{Err: err}`.

In every clause the call HAS A MEANING (`some …`): the regenerated code does not panic. -/
theorem gen_io_failures_reported :
    -- 1. ReadCSV
    (∀ (po : ParseOracle) (cfg : CsvCfg) (hintBig : Bool) (cap : Nat) (eofWD fwd : Bool) (doc : List Csv.Byte)
        (sched : List Nat), (∀ n ∈ sched, 1 ≤ n) →
        ∀ (k : Nat) (rows : List (List (List Csv.Byte))) (e : Option Csv.RErr) (rd : Csv.Reader),
        CR.readAll Gen.csvFns doc sched cfg.delim cap (some k) eofWD fwd = .ok (rows, e, rd) →
        (e = some .fail ↔ k < rd.fs.buf.src.calls) ∧
        (k < rd.fs.buf.src.calls → ∀ records, genReadCsv po cfg hintBig records (e == some .fail) = some none) ∧
        (∀ records finalErr, (∃ r ∈ records.drop (if cfg.headers.isEmpty then 1 else 0), r.2 = true) →
          genReadCsv po cfg hintBig records finalErr = some none)) ∧
    -- 2. ReadJSON (over the model `decodeOver`)
    (∀ (pnum : Bytes → Option UInt64) (iter : GoMap → GoMap) (doc : Json.JVal),
        genReadJsonOn (decodeOver pnum doc true) iter = some .err ∧
        genReadJsonOn (decodeOver pnum doc false) iter = genReadJson pnum iter doc) ∧
    -- 3. ToCSV
    (∀ (fmt : UInt64 → Bytes) (f : LFrame), C09Observe.FrameTyped f → f.names.Nodup → ∀ (hdr : Bool) (w : FW) (B : BufSched),
        B.chunks.flatten = tocsv fmt hdr f →
        ∃ recs fl ret, genToCSV fmt f none hdr (wfailOf w B) (ferrOf w B) = some (recs, fl, ret) ∧
          recs <+: tocsvRows fmt hdr f ∧
          (ret ≠ .nil ↔ (∃ i, i < recs.length ∧ wfailOf w B i = true) ∨ (fl = true ∧ ferrOf w B = true)) ∧
          (ret ≠ .nil ↔ w.limit < (tocsv fmt hdr f).length) ∧
          acceptedCsv w B recs.length fl <+: tocsv fmt hdr f ∧
          (ret = .nil → acceptedCsv w B recs.length fl = tocsv fmt hdr f)) ∧
    -- 4. ToJSON
    (∀ (fmt : UInt64 → Bytes) (f : LFrame), C09Observe.FrameTyped f → ∀ (w : FW) (fail : Nat → Bool),
        ∃ ws e, genToJSON fmt f fail = some (ws, e) ∧ ws <+: chunks fmt f ∧
          (e = true ↔ ∃ j, j < ws.length ∧ fail j = true) ∧
          (w.agrees fail 0 0 ws = true →
            (e = true ↔ w.limit < (toJSON fmt f).length) ∧ w.accepted 0 ws <+: toJSON fmt f ∧
            (e = false → w.accepted 0 ws = toJSON fmt f) ∧
            (e = true → w.partialWrite = true → (w.accepted 0 ws).length = w.limit))) ∧
    -- 5. ToSQL
    (∀ (P : VFrame), FrameOK P → ∀ (cfg : SqlCfg),
        (∀ efail, ∃ execs ret, genToSQLToday P false cfg efail = some (execs, ret) ∧ execs <+: toSqlGo cfg P.logical ∧
          (ret ≠ .nil ↔ ∃ j, j < execs.length ∧ efail j = true) ∧ (ret = .nil → execs = toSqlGo cfg P.logical)) ∧
        (∀ k, k < P.index.length →
          genToSQLToday P false cfg (fun j => j == k) = some ((toSqlGo cfg P.logical).take (k + 1), .execErr)) ∧
        (∀ efail, genToSQLToday P true cfg efail = some ([], .frameErr))) ∧
    -- 6. ReadSQL, ReadSQLWithArgs
    ((∀ (R : RParams) (cmap : Option (List (Bytes × CoFn))) (S : Script),
        (S.finalErr = true ∨ (S.columnsFail = true ∧ S.rows ≠ []) → genReadSql R cmap S = some none) ∧
        (S.rows.foldlM (step2 R) (cols0 cmap S.names) = none → genReadSql R cmap S = some none)) ∧
      (∀ {α ρ δ χ : Type} (E : REnv α ρ δ χ) (args : List α),
        (E.prepare (E.queryText E.cfg) = false ∨ E.query (E.queryText E.cfg) args = none ∨
          ∃ rows, E.query (E.queryText E.cfg) args = some rows ∧ E.readSql rows E.cfg = none) →
        ∃ r, genReadSqlArgs E args = some r ∧ r.frame.err = true)) := by
  refine ⟨?_, ?_, ?_, ?_, ?_, ?_, ?_⟩
  · intro po cfg hintBig cap eofWD fwd doc sched hs k rows e rd hrun
    have hiff := C12NoFuel.gen_fail_iff_reached doc sched cfg.delim cap k eofWD fwd hs rows e rd hrun
    refine ⟨hiff, ?_, ?_⟩
    · intro hk records
      have he : e = some .fail := hiff.2 hk
      subst he
      exact gen_csvglue_faults po cfg hintBig records _ (.inl rfl)
    · intro records finalErr hex
      exact gen_csvglue_faults po cfg hintBig records finalErr (.inr hex)
  · intro pnum iter doc
    exact ⟨gen_readjson_reader_fault iter, rfl⟩
  · intro fmt f hf hnd hdr w B hB
    exact gen_tocsv_fault fmt f hf hnd hdr w B hB
  · intro fmt f hf w fail
    exact gen_tojson_fault fmt f hf w fail
  · intro P hP cfg
    exact ⟨fun efail => gen_tosql_reported P hP cfg efail, fun k hk => gen_tosql_fault P hP cfg k hk,
      fun efail => gen_tosql_frame_error P hP cfg efail⟩
  · intro R cmap S
    exact ⟨gen_readsql_faults R cmap S, gen_readsql_scan_fault R cmap S⟩
  · intro α ρ δ χ E args h
    exact gen_readsqlargs_faults E args h

end All

/-! ## Examples: concrete inputs meet the hypotheses -/

section Examples
open QF.Props.C13WriterGen QF.Props.C13Write QF.Props.C14ToJson

/-- columns `a` (bool) and `b` (string, second cell null), two rows -/
def exFrame : LFrame := C13WriterGen.wFrame
def exFmt : UInt64 → Bytes := fun _ => [48]

theorem exFrame_typed : C09Observe.FrameTyped exFrame := by
  intro c hc
  simp only [exFrame, C13WriterGen.wFrame, List.mem_cons, List.not_mem_nil, or_false] at hc
  rcases hc with rfl | rfl <;> exact ⟨by decide, by decide⟩

/-- a writer that accepts 5 bytes, the failing call handing over what still fits -/
def exW : FW := { limit := 5, partialWrite := true }

/-- the fault-free JSON text has 41 bytes in 4 `Write` calls; with the limit 5 the second call fails: `[` and the first 4
bytes of the first record were accepted — the first 5 bytes of the text -/
example : (C14WriterGen.chunks exFmt exFrame).map (·.length) = [1, 18, 21, 1] ∧
    cutWrites (exW.oracle (C14WriterGen.chunks exFmt exFrame)) 0 (C14WriterGen.chunks exFmt exFrame) =
      ((C14WriterGen.chunks exFmt exFrame).take 2, true) ∧
    exW.accepted 0 ((C14WriterGen.chunks exFmt exFrame).take 2) = (toJSON exFmt exFrame).take 5 := by decide

/-- `gen_tojson_fault` on the example: the hypotheses are met (`exFrame_typed`, `oracle_agrees`) -/
example : ∃ ws e, C14WriterGen.genToJSON exFmt exFrame (exW.oracle (C14WriterGen.chunks exFmt exFrame)) = some (ws, e) ∧
    exW.agrees (exW.oracle (C14WriterGen.chunks exFmt exFrame)) 0 0 ws = true :=
  gen_tojson_fault_oracle exFmt exFrame exFrame_typed exW

/-- a buffer larger than the whole CSV text: nothing reaches the underlying writer before `Flush` -/
def exBig : BufSched := { chunks := [tocsv exFmt true exFrame], upto := fun _ => 0 }

/-- a buffer that hands over every record as soon as it is written -/
def exPerRecord : BufSched := { chunks := (tocsvRows exFmt true exFrame).map writeRecord, upto := fun i => i + 1 }

example : exBig.chunks.flatten = tocsv exFmt true exFrame ∧ exPerRecord.chunks.flatten = tocsv exFmt true exFrame := by decide

/-- behind the large buffer no `w.Write` fails — the failure is noticed at `Flush` only, through `w.Error()`; behind the
record-wise buffer the second `w.Write` (`true,x`: bytes 4 … 10) fails -/
example : (wfailOf exW exBig 0, wfailOf exW exBig 1, wfailOf exW exBig 2, ferrOf exW exBig) = (false, false, false, true) ∧
    (wfailOf exW exPerRecord 0, wfailOf exW exPerRecord 1) = (false, true) := by decide

/-- `gen_tocsv_fault` on the example, large buffer: the hypotheses are met -/
example : ∃ recs fl ret, genToCSV exFmt exFrame none true (wfailOf exW exBig) (ferrOf exW exBig) = some (recs, fl, ret) ∧
    recs <+: tocsvRows exFmt true exFrame ∧
    (ret ≠ .nil ↔ (∃ i, i < recs.length ∧ wfailOf exW exBig i = true) ∨ (fl = true ∧ ferrOf exW exBig = true)) ∧
    (ret ≠ .nil ↔ exW.limit < (tocsv exFmt true exFrame).length) ∧
    acceptedCsv exW exBig recs.length fl <+: tocsv exFmt true exFrame ∧
    (ret = .nil → acceptedCsv exW exBig recs.length fl = tocsv exFmt true exFrame) :=
  gen_tocsv_fault exFmt exFrame exFrame_typed (by decide) true exW exBig (by decide)

/-- what the canonical `ToCSV` returns there: all three records handed to the csv writer, flushed, and the NON-NIL
`w.Error()`; the underlying writer holds the first 5 bytes `a,b\nt` -/
example : canonToCSV.output { C13WriterGen.wEnv exFrame none true with wfail := wfailOf exW exBig, ferr := ferrOf exW exBig } =
      some (tocsvRows exFmt true exFrame, true, .writerErr) ∧
    acceptedCsv exW exBig 3 true = [97, 44, 98, 10, 116] := by decide

/-- a 4-byte buffer: `a,b\\n` `true` `,x\\nf` `alse` `,\\n` — the second full buffer is refused by the writer of limit 5 during the
second `w.Write`, which returns the error -/
example : (bufOfCap 4 (tocsvRows exFmt true exFrame)).chunks.map (·.length) = [4, 4, 4, 4, 2] ∧
    (wfailOf exW (bufOfCap 4 (tocsvRows exFmt true exFrame)) 0, wfailOf exW (bufOfCap 4 (tocsvRows exFmt true exFrame)) 1) = (false, true) := by
  decide

end Examples

#print axioms gen_tojson_fault
#print axioms gen_tojson_fault_oracle
#print axioms csvResult_fault
#print axioms gen_tocsv_fault
#print axioms gen_tocsv_fault_given
#print axioms gen_tocsv_fault_cap
#print axioms gen_readjson_reader_fault
#print axioms gen_tosql_reported
#print axioms gen_io_failures_reported

end QF.Props.C15EndToEnd
