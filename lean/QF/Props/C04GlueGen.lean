import QF.Gen.GroupGlue
/-!
# C04 / C05 — the grouping glue of today's source: `GroupBy`, `QFrames`, `Aggregate` (tie T1)

`QF.Gen.groupByAst`, `groupByConfigFns`, `qframesAst`, `aggregateGlueAst` (regenerated on every run by
go/cmd/extract/grpgast.go) hold `QFrame.GroupBy` (with `checkColumns`, `Len`, `orders`, `comparables` inlined),
the configuration functions of /repo/config/groupby, `Grouper.QFrames` (with `withIndex` inlined) and `Grouper.Aggregate`
as terms of `QF.GG` (QF/Core/GroupGlue.lean). What the glue calls — `grouper.GroupBy`, the columns' `Comparable`,
`Subset`, `Aggregate` — is regenerated elsewhere and is a parameter here (`Prims`, `APrims`); `QF.Props.C04GlueLink`
instantiates `GroupBy` with the regenerated grouper and comparators and arrives at the spec's `groupsS`.

* `gen_glue_no_opaque`, `gen_glue_canon` — today's extraction is complete and equal to the canonical terms (`decide`).
* `gen_config_semantics`     — `groupby.Columns(cs…)` sets the columns, `groupby.Null(b)` the Null flag; the last call wins.
* `gen_groupby_semantics`    — for every frame, every configuration and every meaning of the callees: `GroupBy` returns a
    failed `Grouper` exactly for a failed frame or a column name the frame does not have; otherwise a `Grouper` sharing the
    frame's columns and remembering the grouped columns, with NO group for a frame without rows, ONE group that is the
    frame's index when no columns are given, and otherwise the groups (and statistics) `grouper.GroupBy` returns for the
    frame's index and the comparables `Comparable(false, <Null flag>, false)` of the named columns in the given order.
* `gen_groupby_err_iff`      — … read as "fails iff".
* `gen_distinct_cmps_semantics` — (C05) `Distinct` hands `grouper.Distinct` the frame's index and the comparables
    `Comparable(false, <Null flag>, false)` of the configured columns in the given order, or of all columns when none are configured.
* `gen_qframes_semantics`    — `QFrames()` is the grouper's error, or one frame per group in group order, each with the
    grouper's columns, the group as its index and no error.
* `gen_aggregate_glue_semantics` — `Aggregate`: the error of the grouper; else the key columns (`Subset` at the first rows,
    `pos` = position among the grouped columns), then per aggregation: unknown source column → error; result name = `As`
    if set, else the source name; a name already used by a key or an earlier aggregation → error; `"count"` → the int
    column of the group sizes, else `Column.Aggregate(groups, Fn)` whose error is passed on; `pos` = position in the result;
    the index of the result is ascending over the number of groups — the structure of `groupAggS` (QF/Spec/Ops.lean).
* witnesses: `index.NewAscending(len)` for the frame's index in the no-columns branch, the Null flag not passed on, the
  empty-frame test dropped, the group's index not used in `QFrames`, the duplicate check dropped in `Aggregate`.
-/
namespace QF.Props.C04GlueGen
open QF QF.GG

/-! ## Canonical terms -/

def canonGroupBy : GB :=
  .ifRecvErr (.retErr .recvErr)
    (.newConfig
      (.checkColumns (.retErr .localErr)
        (.mkGrouper .recvColumns .recvNames .cfgColumns
          (.ifLenZero .retGrouper
            (.ifNoColumns (.setOneGroup .recvIndex .retGrouper)
              (.comparables (.lit false) .cfgNull (.lit false)
                (.callGrouper .recvIndex (.setIndices (.setStats .retGrouper)))))))))

/-- `columns := qf.columnsOrAll(config.Columns); orders := qf.orders(columns);
comparables := qf.comparables(columns, orders, config.GroupByNull); newIx := grouper.Distinct(qf.index, comparables)` -/
def canonDistinctCmps : DK := .comparables .cfgColumnsOrAll (.lit false) .cfgNull (.lit false) .recvIndex

def canonConfigFns : List (String × CF) := [("(...string)", .setColumns), ("(bool)", .setNull)]

def canonQFrames : QS :=
  .ifGrouperErr (.base .grpColumns .grpNames .zero (.makeResult (.rangeStore .grpColumns .grpNames .group .zero .retResult)))

def canonKeyBody : List AS := [.lookupGrouped, .setPosI, .subsetFirst, .putGrouped, .appendCol]
def canonAggBody : List AS :=
  [.lookupAggOrErr, .nameFromColumn, .nameFromAsIfSet, .setName, .setPosLen, .rejectIfPresent, .compute "count", .putNamed, .appendCol]
def canonAggregate : List AT :=
  [.ifGrouperErr, .firstRows 0, .alloc, .keyLoop canonKeyBody, .declErr, .aggLoop canonAggBody, .retFrame]

theorem gen_glue_canon :
    Gen.groupByAst = canonGroupBy ∧ Gen.groupByConfigFns = canonConfigFns ∧ Gen.qframesAst = canonQFrames ∧
    Gen.aggregateGlueAst = canonAggregate ∧ Gen.distinctCmpsAst = canonDistinctCmps := by decide

theorem gen_glue_no_opaque :
    Gen.groupByAst.hasOpaque = false ∧ (∀ e ∈ Gen.groupByConfigFns, e.2.hasOpaque = false) ∧
    Gen.qframesAst.hasOpaque = false ∧ (∀ t ∈ Gen.aggregateGlueAst, t.hasOpaque = false) ∧
    Gen.distinctCmpsAst.hasOpaque = false := by decide

/-! ## Today's functions, run -/

def genGroupBy {κ σ : Type} (P : Prims κ σ) (F : Frame) (C : Cfg) : Option (Grouper σ) := Gen.groupByAst.run P F C {}
def genQFrames {σ : Type} (g : Grouper σ) : Option (Option (List Frame)) := Gen.qframesAst.run g none none
def genAggregate {σ φ : Type} (P : APrims φ) (g : Grouper σ) (aggs : List (AggReq φ)) : Option ARes :=
  AT.run P g aggs Gen.aggregateGlueAst {}

/-- today's `groupby.Columns` / `groupby.Null` -/
def genColumns : CF := (Gen.groupByConfigFns.lookup "(...string)").getD (.opaque "missing")
def genNull : CF := (Gen.groupByConfigFns.lookup "(bool)").getD (.opaque "missing")

/-! ## The configuration -/

/-- **`groupby.Columns` and `groupby.Null` of today's source**: run on a configuration, the one sets the column list and
leaves the flag, the other sets the flag and leaves the columns (so the last call of each kind wins, and `GroupBy()` without
arguments has no columns and the flag off). -/
theorem gen_config_semantics (fns : List (CF × List Bytes × Bool)) (cols : List Bytes) (b : Bool) (C : Cfg)
    (h : applyCfg fns = some C) :
    applyCfg [] = some {} ∧
    applyCfg (fns ++ [(genColumns, cols, b)]) = some { C with columns := cols } ∧
    applyCfg (fns ++ [(genNull, cols, b)]) = some { C with gbNull := b } := by
  have e1 : genColumns = .setColumns := by unfold genColumns; rw [gen_glue_canon.2.1]; rfl
  have e2 : genNull = .setNull := by unfold genNull; rw [gen_glue_canon.2.1]; rfl
  rw [e1, e2]
  unfold applyCfg at h ⊢
  refine ⟨rfl, ?_, ?_⟩ <;> simp [List.foldlM_append, h]

/-! ## `GroupBy` -/

/-- what `GroupBy` returns, in closed form -/
def specGroupBy {κ σ : Type} (P : Prims κ σ) (F : Frame) (C : Cfg) : Option (Grouper σ) :=
  if F.err then some { err := true }
  else if C.columns.all (fun n => (F.find? n).isSome) = false then some { err := true }
  else if F.index.length = 0 then some { cols := F.cols, grouped := C.columns }
  else if C.columns = [] then some { cols := F.cols, grouped := C.columns, indices := [F.index] }
  else
    match C.columns.mapM F.find? with
    | none => none
    | some keys =>
      match P.groupBy F.index (keys.map fun c => P.comparable c false C.gbNull false) with
      | some (gs, st) => some { cols := F.cols, grouped := C.columns, indices := gs, stats := some st }
      | none => none

theorem canon_groupBy_run {κ σ : Type} (P : Prims κ σ) (F : Frame) (C : Cfg) :
    canonGroupBy.run P F C {} = specGroupBy P F C := by
  unfold specGroupBy
  cases he : F.err
  · by_cases hall : C.columns.all (fun n => (F.find? n).isSome) = true
    · by_cases hlen : F.index.length = 0
      · simp [canonGroupBy, GB.run, he, hall, hlen]
      · by_cases hnil : C.columns = []
        · simp [canonGroupBy, GB.run, he, hlen, hnil, Src.index]
        · have hne : C.columns.isEmpty = false := by cases hc : C.columns with | nil => exact absurd hc hnil | cons _ _ => rfl
          simp only [canonGroupBy, GB.run, he, hall, hlen, hnil, hne, Src.index, BArg.eval, Bool.false_eq_true, if_false, if_true,
            Bool.not_false, Bool.true_and, beq_iff_eq]
          cases C.columns.mapM F.find? with
          | none => simp
          | some keys =>
            simp only
            cases P.groupBy F.index (keys.map fun c => P.comparable c false C.gbNull false) with
            | none => simp
            | some r => obtain ⟨gs, st⟩ := r; simp
    · have hall' : C.columns.all (fun n => (F.find? n).isSome) = false := by simpa using hall
      simp [canonGroupBy, GB.run, he, hall']
  · simp [canonGroupBy, GB.run, he]

/-- **`QFrame.GroupBy` of today's source**, for every frame `F` (columns, index, error), every configuration `C` (column
list, Null flag) and every meaning `P` of `Comparable` and `grouper.GroupBy`: the result is `specGroupBy P F C` —
* a failed frame, or a configured column the frame does not have: a `Grouper` carrying an error and nothing else;
* otherwise a `Grouper` with the frame's columns (and name map) and the configured columns as its grouped columns, and
  - no groups when the frame has no rows,
  - else, when no columns are configured, ONE group: the frame's index (not the rows 0 … n-1 of the arrays),
  - else the groups and statistics `grouper.GroupBy(F.index, comparables)` returns, where `comparables` are, for the
    configured names IN THE GIVEN ORDER, `<the column of that name>.Comparable(false, C.gbNull, false)`.
`none` (no value) only where `grouper.GroupBy` has none. -/
theorem gen_groupby_semantics {κ σ : Type} (P : Prims κ σ) (F : Frame) (C : Cfg) :
    genGroupBy P F C = specGroupBy P F C := by
  unfold genGroupBy
  rw [gen_glue_canon.1]
  exact canon_groupBy_run P F C

theorem specGroupBy_ok {κ σ : Type} (P : Prims κ σ) (F : Frame) (C : Cfg) (he : F.err = false)
    (hall : C.columns.all (fun n => (F.find? n).isSome) = true) (g : Grouper σ) (h : specGroupBy P F C = some g) :
    g.err = false := by
  unfold specGroupBy at h
  simp only [he, hall, Bool.false_eq_true, if_false, Bool.true_eq_false] at h
  by_cases hlen : F.index.length = 0
  · simp only [hlen, if_true, Option.some.injEq] at h; subst h; rfl
  · simp only [hlen, if_false] at h
    by_cases hnil : C.columns = []
    · simp only [hnil, if_true, Option.some.injEq] at h; subst h; rfl
    · simp only [hnil, if_false] at h
      cases hk : C.columns.mapM F.find? with
      | none => rw [hk] at h; cases h
      | some keys =>
        rw [hk] at h
        simp only at h
        cases hg : P.groupBy F.index (keys.map fun c => P.comparable c false C.gbNull false) with
        | none => rw [hg] at h; cases h
        | some r =>
          obtain ⟨gs, st⟩ := r
          rw [hg] at h
          simp only [Option.some.injEq] at h
          subst h; rfl

/-- `GroupBy` fails exactly on a failed frame or an unknown column (whatever the callees do), and then carries nothing. -/
theorem gen_groupby_err_iff {κ σ : Type} (P : Prims κ σ) (F : Frame) (C : Cfg) :
    (F.err = true ∨ ∃ n ∈ C.columns, F.find? n = none) ↔ genGroupBy P F C = some { err := true } := by
  rw [gen_groupby_semantics]
  constructor
  · rintro (h | ⟨n, hn, hf⟩)
    · simp [specGroupBy, h]
    · cases he : F.err
      · have : C.columns.all (fun n => (F.find? n).isSome) = false := by
          rw [List.all_eq_false]; exact ⟨n, hn, by simp [hf]⟩
        simp [specGroupBy, this, he]
      · simp [specGroupBy, he]
  · intro h
    cases he : F.err
    · right
      cases hall : C.columns.all (fun n => (F.find? n).isSome)
      · rw [List.all_eq_false] at hall
        obtain ⟨n, hn, hx⟩ := hall
        exact ⟨n, hn, by cases hf : F.find? n with | none => rfl | some _ => simp [hf] at hx⟩
      · have := specGroupBy_ok P F C he hall _ h
        cases this
    · exact Or.inl rfl

/-! ## `Distinct` (C05): the comparables are built by the same helpers -/

/-- what today's `Distinct` gets from `grouper.Distinct` -/
def genDistinctIx {κ : Type} (comparable : LCol → Bool → Bool → Bool → κ) (distinct : List Nat → List κ → Option (List Nat))
    (F : Frame) (C : Cfg) : Option (List Nat) := Gen.distinctCmpsAst.run comparable distinct F C

/-- **The call of `grouper.Distinct` in today's `QFrame.Distinct`** (between its guard prefix, C10Guards, and its tail,
C08ProjectGen): the frame's index and, for the configured columns in the given order — or, when none are configured, ALL
columns of the frame in column order —, the comparables `Comparable(false, <Null flag>, false)`. -/
theorem gen_distinct_cmps_semantics {κ : Type} (comparable : LCol → Bool → Bool → Bool → κ)
    (distinct : List Nat → List κ → Option (List Nat)) (F : Frame) (C : Cfg) :
    genDistinctIx comparable distinct F C =
      match (if C.columns.isEmpty then F.cols.map LCol.name else C.columns).mapM F.find? with
      | some keys => distinct F.index (keys.map fun c => comparable c false C.gbNull false)
      | none => none := by
  unfold genDistinctIx
  rw [gen_glue_canon.2.2.2.2]
  simp only [canonDistinctCmps, DK.run, Src.index, BArg.eval]
  cases (if C.columns.isEmpty then F.cols.map LCol.name else C.columns).mapM F.find? <;> rfl

/-! ## `QFrames` -/

/-- **`Grouper.QFrames` of today's source**: the grouper's error, or one frame per group, in group order, each sharing the
grouper's columns (and name map), with the group as its index and no error. -/
theorem gen_qframes_semantics {σ : Type} (g : Grouper σ) :
    genQFrames g = some (if g.err then none else some (g.indices.map fun ix => { cols := g.cols, index := ix, err := false })) := by
  unfold genQFrames
  rw [gen_glue_canon.2.2.1]
  cases he : g.err <;> simp [canonQFrames, QS.run, he]

/-! ## `Aggregate` -/

section Aggregate
variable {σ φ : Type} (P : APrims φ) (g : Grouper σ)

/-- the key columns: for each grouped name the column of that name, restricted to the first rows, at its position.
`none`: a grouped name the grouper's columns do not have (a method call on a nil `Column`). -/
def specKeys (first : List Nat) : Nat → List Bytes → Option (List NCol)
  | _, [] => some []
  | i, n :: ns =>
    match g.cols.find? (·.name == n), specKeys first (i + 1) ns with
    | some c, some rest => some ({ col := P.subset c first, pos := i } :: rest)
    | _, _ => none

/-- the name of the result of an aggregation -/
def resultName (a : AggReq φ) : Bytes := if a.as.isEmpty then a.col else a.as

/-- the aggregations, one after the other: `acc` the columns so far, `seen` the names put into the name map. `none`: an error. -/
def specAggs : List NCol → List Bytes → List (AggReq φ) → Option (List NCol)
  | acc, _, [] => some acc
  | acc, seen, a :: as =>
    match g.cols.find? (·.name == a.col) with
    | none => none
    | some c =>
      if seen.contains (resultName a) then none
      else
        let r : Option LCol :=
          if a.fnName == some "count" then some (P.intCol (g.indices.map fun ix => (ix.length : Int)))
          else P.aggregate { c with name := resultName a } g.indices a.fn
        match r with
        | none => none
        | some col => specAggs (acc ++ [{ col := { col with name := resultName a }, pos := acc.length }]) (resultName a :: seen) as

/-- what `Aggregate` returns, in closed form -/
def specAggregate (aggs : List (AggReq φ)) : Option ARes :=
  if g.err then some .err
  else
    match g.indices.mapM (fun ix => ix[0]?) with
    | none => none
    | some first =>
      match specKeys P g first 0 g.grouped with
      | none => none
      | some keys =>
        match specAggs P g keys g.grouped.reverse aggs with
        | none => some .err
        | some cols => some (.ok cols (List.range g.indices.length))

theorem key_round (first : List Nat) (i : Nat) (n : Bytes) (s : ASt) (acc : List NCol) (hf : s.first = some first)
    (hc : s.cols = some acc) :
    runBody P g i (some n) none canonKeyBody { s with col := none, name := none } =
      match g.cols.find? (·.name == n) with
      | some c => .next { s with col := some (some { col := P.subset c first, pos := i }), name := none,
                                 cols := some (acc ++ [{ col := P.subset c first, pos := i }]), inMap := n :: s.inMap }
      | none => .stuck := by
  cases hfind : g.cols.find? (·.name == n) with
  | none => simp [canonKeyBody, runBody, AS.run, hfind]
  | some c => simp [canonKeyBody, runBody, AS.run, hfind, hf, hc]

theorem key_loop (first : List Nat) (names : List Bytes) :
    ∀ (i : Nat) (s : ASt) (acc : List NCol), s.first = some first → s.cols = some acc →
      match specKeys P g first i names with
      | some ks => ∃ s', runKeyLoop P g canonKeyBody i names s = .next s' ∧ s'.first = some first ∧
          s'.cols = some (acc ++ ks) ∧ s'.inMap = names.reverse ++ s.inMap
      | none => runKeyLoop P g canonKeyBody i names s = .stuck := by
  induction names with
  | nil => intro i s acc hf hc; exact ⟨s, rfl, hf, by simp [hc], by simp⟩
  | cons n ns ih =>
    intro i s acc hf hc
    simp only [specKeys, runKeyLoop, key_round P g first i n s acc hf hc]
    cases hfind : g.cols.find? (·.name == n) with
    | none => simp
    | some c =>
      simp only
      have := ih (i + 1) { s with col := some (some { col := P.subset c first, pos := i }), name := none,
                                  cols := some (acc ++ [{ col := P.subset c first, pos := i }]), inMap := n :: s.inMap }
        (acc ++ [{ col := P.subset c first, pos := i }]) hf rfl
      cases hk : specKeys P g first (i + 1) ns with
      | none => rw [hk] at this; simpa using this
      | some rest =>
        rw [hk] at this
        obtain ⟨s', h1, h2, h3, h4⟩ := this
        exact ⟨s', h1, h2, by simp [h3], by simp [h4]⟩

/-- what one round of the aggregation loop does -/
def aggRound (acc : List NCol) (seen : List Bytes) (a : AggReq φ) : Option (NCol × Bytes) :=
  match g.cols.find? (·.name == a.col) with
  | none => none
  | some c =>
    if seen.contains (resultName a) then none
    else
      let r : Option LCol :=
        if a.fnName == some "count" then some (P.intCol (g.indices.map fun ix => (ix.length : Int)))
        else P.aggregate { c with name := resultName a } g.indices a.fn
      match r with
      | none => none
      | some col => some ({ col := { col with name := resultName a }, pos := acc.length }, resultName a)

theorem specAggs_cons (acc : List NCol) (seen : List Bytes) (a : AggReq φ) (as : List (AggReq φ)) :
    specAggs P g acc seen (a :: as) =
      match aggRound P g acc seen a with
      | none => none
      | some (c, nm) => specAggs P g (acc ++ [c]) (nm :: seen) as := by
  simp only [specAggs, aggRound]
  cases g.cols.find? (·.name == a.col) with
  | none => rfl
  | some c =>
    simp only
    cases hs : seen.contains (resultName a)
    · simp only [Bool.false_eq_true, if_false]
      split <;> rfl
    · simp

theorem agg_round (a : AggReq φ) (s : ASt) (acc : List NCol) (hc : s.cols = some acc) :
    match aggRound P g acc s.inMap a with
    | some (c, nm) => ∃ s', runBody P g 0 none (some a) canonAggBody { s with col := none, name := none } = .next s' ∧
        s'.first = s.first ∧ s'.cols = some (acc ++ [c]) ∧ s'.inMap = nm :: s.inMap
    | none => runBody P g 0 none (some a) canonAggBody { s with col := none, name := none } = .err := by
  unfold aggRound resultName
  cases hfind : g.cols.find? (·.name == a.col) with
  | none => simp [canonAggBody, runBody, AS.run, hfind]
  | some c =>
    simp only
    cases hempty : a.as.isEmpty
    · by_cases hs : a.as ∈ s.inMap
      · simp [canonAggBody, runBody, AS.run, hfind, hempty, hs, hc]
      · by_cases hcount : a.fnName = some "count"
        · simp [canonAggBody, runBody, AS.run, hfind, hempty, hs, hc, hcount]
        · cases hagg : P.aggregate { c with name := a.as } g.indices a.fn with
          | none => simp [canonAggBody, runBody, AS.run, hfind, hempty, hs, hc, hcount, hagg]
          | some r => simp [canonAggBody, runBody, AS.run, hfind, hempty, hs, hc, hcount, hagg]
    · by_cases hs : a.col ∈ s.inMap
      · simp [canonAggBody, runBody, AS.run, hfind, hempty, hs, hc]
      · by_cases hcount : a.fnName = some "count"
        · simp [canonAggBody, runBody, AS.run, hfind, hempty, hs, hc, hcount]
        · cases hagg : P.aggregate { c with name := a.col } g.indices a.fn with
          | none => simp [canonAggBody, runBody, AS.run, hfind, hempty, hs, hc, hcount, hagg]
          | some r => simp [canonAggBody, runBody, AS.run, hfind, hempty, hs, hc, hcount, hagg]

theorem agg_loop (aggs : List (AggReq φ)) :
    ∀ (s : ASt) (acc : List NCol), s.cols = some acc →
      match specAggs P g acc s.inMap aggs with
      | some cols => ∃ s', runAggLoop P g canonAggBody aggs s = .next s' ∧ s'.cols = some cols
      | none => runAggLoop P g canonAggBody aggs s = .err := by
  induction aggs with
  | nil => intro s acc hc; exact ⟨s, rfl, hc⟩
  | cons a as ih =>
    intro s acc hc
    rw [specAggs_cons]
    have hr := agg_round P g a s acc hc
    cases hround : aggRound P g acc s.inMap a with
    | none =>
      rw [hround] at hr
      simp only at hr ⊢
      simp only [runAggLoop, hr]
    | some p =>
      obtain ⟨c, nm⟩ := p
      rw [hround] at hr
      obtain ⟨s', h1, _, h3, h4⟩ := hr
      have := ih s' (acc ++ [c]) h3
      rw [h4] at this
      simp only [runAggLoop, h1]
      exact this

theorem canon_aggregate_run (aggs : List (AggReq φ)) :
    AT.run P g aggs canonAggregate {} = specAggregate P g aggs := by
  unfold specAggregate
  cases he : g.err
  · simp only [canonAggregate, AT.run, he, Bool.false_eq_true, if_false]
    cases hfirst : g.indices.mapM (fun ix => ix[0]?) with
    | none => rfl
    | some first =>
      simp only
      have hk := key_loop P g first g.grouped 0 { first := some first, cols := some [], inMap := [] } [] rfl rfl
      cases hkeys : specKeys P g first 0 g.grouped with
      | none => rw [hkeys] at hk; simp only at hk; simp only [hk]
      | some keys =>
        rw [hkeys] at hk
        obtain ⟨s', h1, _, h3, h4⟩ := hk
        simp only [h1]
        have ha := agg_loop P g aggs s' keys (by simpa using h3)
        simp only [List.append_nil] at h4
        rw [h4] at ha
        cases haggs : specAggs P g keys g.grouped.reverse aggs with
        | none => rw [haggs] at ha; simp only at ha; simp only [ha]
        | some cols =>
          rw [haggs] at ha
          obtain ⟨s'', g1, g2⟩ := ha
          simp only [g1, g2]
  · simp [canonAggregate, AT.run, he]

/-- **`Grouper.Aggregate` of today's source**, for every grouper, every list of aggregations and every meaning of
`Column.Subset`, `Column.Aggregate` and `icolumn.New`: the result is `specAggregate` —
the grouper's error; else the key columns (`specKeys`: the column of every grouped name restricted by `Subset` to the first
row of every group, `pos` = its position among the grouped columns), followed, for the aggregations in order
(`specAggs`), by: error if the source column is unknown; the result's name is `As` when that is set, else the source
column's; error if that name is a grouped column or the result of an earlier aggregation; the cells are the group sizes
for `Fn == "count"`, else `Column.Aggregate(groups, Fn)` (its error is the error of `Aggregate`); `pos` = the number of
columns in front; and the index of the result is `0 … number of groups - 1`.
`none` (a panic) exactly for an empty group or a grouped name that is not a column (neither is produced by `GroupBy`). -/
theorem gen_aggregate_glue_semantics (aggs : List (AggReq φ)) :
    genAggregate P g aggs = specAggregate P g aggs := by
  unfold genAggregate
  rw [gen_glue_canon.2.2.2.1]
  exact canon_aggregate_run P g aggs

end Aggregate

/-! ## Witnesses: plausible mutations are different terms and violate the statements -/

section Witnesses

/-- callees for the samples: a comparable remembers its flags, the grouper puts every row in its own group -/
def wP : Prims (Bytes × Bool × Bool × Bool) Nat :=
  { comparable := fun c r e n => (c.name, r, e, n), groupBy := fun ix cs => some (ix.map fun r => [r], cs.length) }

/-- a frame of two columns whose index is `[5, 2, 7]` (after a filter and a sort, say) -/
def wF : Frame :=
  { cols := [{ name := [97], ty := .int, cells := #[] }, { name := [98], ty := .int, cells := #[] }], index := [5, 2, 7] }

-- today's term on samples
example : (canonGroupBy.run wP wF {} {}).map (·.indices) = some [[5, 2, 7]] := by decide
example : (canonGroupBy.run wP wF { columns := [[98], [97]], gbNull := true } {}).map (·.indices) = some [[5], [2], [7]] := by decide

/-- `g.indices = []index.Int{index.NewAscending(uint32(qf.Len()))}`: a new ascending index instead of the frame's index in
the no-columns branch -/
def groupByAscending : GB :=
  .ifRecvErr (.retErr .recvErr) (.newConfig (.checkColumns (.retErr .localErr) (.mkGrouper .recvColumns .recvNames .cfgColumns
    (.ifLenZero .retGrouper (.ifNoColumns (.setOneGroup .ascendingLen .retGrouper)
      (.comparables (.lit false) .cfgNull (.lit false) (.callGrouper .recvIndex (.setIndices (.setStats .retGrouper)))))))))
example : groupByAscending ≠ canonGroupBy := by decide
/-- … the one group holds the rows 0, 1, 2 of the arrays — not the rows 5, 2, 7 of the frame -/
example : (groupByAscending.run wP wF {} {}).map (·.indices) = some [[0, 1, 2]] := by decide

/-- `qf.comparables(config.Columns, orders, false)`: the Null flag not passed on -/
def groupByNoNull : GB :=
  .ifRecvErr (.retErr .recvErr) (.newConfig (.checkColumns (.retErr .localErr) (.mkGrouper .recvColumns .recvNames .cfgColumns
    (.ifLenZero .retGrouper (.ifNoColumns (.setOneGroup .recvIndex .retGrouper)
      (.comparables (.lit false) (.lit false) (.lit false) (.callGrouper .recvIndex (.setIndices (.setStats .retGrouper)))))))))
example : groupByNoNull ≠ canonGroupBy := by decide

/-- callees that report the comparables the grouper is handed (as its "statistics") -/
def wP2 : Prims (Bytes × Bool × Bool × Bool) (List (Bytes × Bool × Bool × Bool)) :=
  { comparable := fun c r e n => (c.name, r, e, n), groupBy := fun _ cs => some ([], cs) }

/-- … with `Null(true)` the grouper gets comparables that tell nulls apart -/
example : (groupByNoNull.run wP2 wF { columns := [[97]], gbNull := true } {}).map (·.stats) =
    some (some [([97], false, false, false)]) := by decide
example : (canonGroupBy.run wP2 wF { columns := [[97]], gbNull := true } {}).map (·.stats) =
    some (some [([97], false, true, false)]) := by decide

/-- the test `qf.Len() == 0` dropped: an empty frame without columns gets one (empty) group, and `Aggregate` panics on `ix[0]` -/
def groupByNoLenTest : GB :=
  .ifRecvErr (.retErr .recvErr) (.newConfig (.checkColumns (.retErr .localErr) (.mkGrouper .recvColumns .recvNames .cfgColumns
    (.ifNoColumns (.setOneGroup .recvIndex .retGrouper)
      (.comparables (.lit false) .cfgNull (.lit false) (.callGrouper .recvIndex (.setIndices (.setStats .retGrouper))))))))
example : groupByNoLenTest ≠ canonGroupBy := by decide
example : (groupByNoLenTest.run wP { wF with index := [] } {} {}).map (·.indices) = some [[]] ∧
    (canonGroupBy.run wP { wF with index := [] } {} {}).map (·.indices) = some [] := by decide

/-- the columns in the grouper's order of the frame instead of the given order cannot be written in the language; the order
of the comparables is the order of `config.Columns`: -/
example : (canonGroupBy.run wP2 wF { columns := [[98], [97]] } {}).map (·.stats) =
    some (some [([98], false, false, false), ([97], false, false, false)]) := by decide

/-- `QFrames` with `withIndex` ignoring its argument: `index: qf.index` -/
def qframesNoIndex : QS :=
  .ifGrouperErr (.base .grpColumns .grpNames .zero (.makeResult (.rangeStore .grpColumns .grpNames .zero .zero .retResult)))
example : qframesNoIndex ≠ canonQFrames := by decide
example : ((qframesNoIndex.run ({ indices := [[5], [2, 7]] } : Grouper Nat) none none).map fun r => r.map fun fs => fs.map (·.index)) = some (some [[], []]) ∧
    ((canonQFrames.run ({ indices := [[5], [2, 7]] } : Grouper Nat) none none).map fun r => r.map fun fs => fs.map (·.index)) = some (some [[5], [2, 7]]) := by
  decide

/-- `Aggregate` without the duplicate check -/
def aggregateNoDupCheck : List AT :=
  [.ifGrouperErr, .firstRows 0, .alloc, .keyLoop canonKeyBody, .declErr,
   .aggLoop [.lookupAggOrErr, .nameFromColumn, .nameFromAsIfSet, .setName, .setPosLen, .compute "count", .putNamed, .appendCol], .retFrame]
example : aggregateNoDupCheck ≠ canonAggregate := by decide

def wA : APrims Unit :=
  { subset := fun c _ => c, aggregate := fun c _ _ => some c, intCol := fun l => { name := [], ty := .int, cells := (l.map Cell.int).toArray } }
def wG : Grouper Nat := { indices := [[5], [2, 7]], grouped := [[97]], cols := wF.cols }
def names : Option ARes → Option (List (Bytes × Nat)) := fun r => r.bind fun r => match r with | .ok cs _ => some (cs.map fun c => (c.col.name, c.pos)) | .err => none

/-- … an aggregation named like the key column gives a frame with two columns "a" -/
example : names (AT.run wA wG [{ fn := (), fnName := none, col := [98], as := [97] }] aggregateNoDupCheck {}) = some [([97], 0), ([97], 1)] ∧
    names (AT.run wA wG [{ fn := (), fnName := none, col := [98], as := [97] }] canonAggregate {}) = none := by decide

/-- today's term: key column first, then "count" under the name given by `As` -/
example : (match AT.run wA wG [{ fn := (), fnName := some "count", col := [98], as := [110] }] canonAggregate {} with
    | some (.ok cs ix) => some (cs.map fun c => (c.col.name, c.pos, c.col.cells.toList), ix)
    | _ => none) = some ([([97], 0, []), ([110], 1, [.int 1, .int 2])], [0, 1]) := by decide

end Witnesses

end QF.Props.C04GlueGen

#print axioms QF.Props.C04GlueGen.gen_glue_canon
#print axioms QF.Props.C04GlueGen.gen_glue_no_opaque
#print axioms QF.Props.C04GlueGen.gen_config_semantics
#print axioms QF.Props.C04GlueGen.gen_groupby_semantics
#print axioms QF.Props.C04GlueGen.gen_groupby_err_iff
#print axioms QF.Props.C04GlueGen.gen_distinct_cmps_semantics
#print axioms QF.Props.C04GlueGen.gen_qframes_semantics
#print axioms QF.Props.C04GlueGen.gen_aggregate_glue_semantics
