import QF.Gen.RyuFns
import QF.Core.RYExpr
/-!
# C16 — the Ryu core in today's source: canonical terms (tie T1)

`QF.Gen.ryuFns` (regenerated on every run by go/cmd/extract/ryuast.go) holds the bodies of `float64ToDecimalExactInt`,
`float64ToDecimal`, `decimalLen64`, `mulShift64`, `shiftRight128`, `pow5Factor64`, `multipleOfPowerOfFive64`,
`multipleOfPowerOfTwo64`, `dec64.appendF`, `sizeSlice` of /repo/internal/ryu/ryu64.go and of `AppendFloat64f`, `appendSpecialf`,
`log10Pow2`, `log10Pow5`, `pow5Bits`, `boolToInt`, `boolToUint32`, `boolToUint64` of ryu.go as terms of the imperative language `QF.RY` (QF/Core/RYExpr.lean);
`QF.Gen.ryuPow10` is the array `powersOf10`. This file fixes the canonical terms (`canonFns`: today's translation; functions
numbered in the order of discovery, variables by the number of variables alive; the parts of `float64ToDecimal` have names
so that the lemmas about them can be stated) and proves by finite `decide` that today's extraction is complete
(`gen_ryu_no_opaque`) and equal to them (`gen_ryu_canon`). The meaning of the canonical terms is computed in C16RyuFns /
C16RyuMain / C16RyuGen.
-/
namespace QF.Props.C16RyuGen
open QF QF.RY

/-! the numbers of the functions (order of discovery) -/
abbrev fExactInt : FnId := 0
abbrev fToDecimal : FnId := 1
abbrev fDecimalLen : FnId := 2
abbrev fAppendFloat : FnId := 3
abbrev fBoolToUint64 : FnId := 4
abbrev fLog10Pow2 : FnId := 5
abbrev fBoolToUint32 : FnId := 6
abbrev fPow5Bits : FnId := 7
abbrev fMulShift : FnId := 8
abbrev fMultipleOf5 : FnId := 9
abbrev fLog10Pow5 : FnId := 10
abbrev fMultipleOf2 : FnId := 11
abbrev fBoolToInt : FnId := 12
abbrev fAppendSpecial : FnId := 13
abbrev fAppendF : FnId := 14
abbrev fShiftRight128 : FnId := 15
abbrev fPow5Factor : FnId := 16
abbrev fSizeSlice : FnId := 17

/-! ## `float64ToDecimalExactInt` — variables: 0 `mant`, 1 `exp`, 2 `d`, 3 `ok`, 4 `e`, 5 `shift` -/

/-- `d.m /= 10; d.e++` -/
abbrev exactLoopBody : S := S.scope (S.block [
  S.setField 2 0 (E.bin AOp.div (E.field (E.var 2) 0) (E.u 64 10)),
  S.setField 2 1 (E.bin AOp.add (E.field (E.var 2) 1) (E.i 32 1))])

/-- `d.m%10 == 0` -/
abbrev exactLoopCond : E := E.cmp COp.eq (E.bin AOp.mod (E.field (E.var 2) 0) (E.u 64 10)) (E.u 64 0)

/-- `for d.m%10 == 0 { d.m /= 10; d.e++ }` -/
def exactLoop : S := S.for (S.block []) exactLoopCond (S.block []) exactLoopBody

def fnExactInt : Fn := { params := 2, body := S.block [
  S.define 2 (E.mk2 (E.u 64 0) (E.i 32 0)),
  S.define 3 (E.bool false),
  S.define 4 (E.bin AOp.sub (E.var 1) (E.u 64 1023)),
  S.ite (E.cmp COp.gt (E.var 4) (E.u 64 52)) (S.scope (S.block [S.ret (E.mk2 (E.var 2) (E.bool false))])) (S.scope (S.block [])),
  S.define 5 (E.bin AOp.sub (E.u 64 52) (E.var 4)),
  S.assign 0 (E.bin AOp.bor (E.var 0) (E.u 64 4503599627370496)),
  S.setField 2 0 (E.shr (E.var 0) (E.var 5)),
  S.ite (E.cmp COp.ne (E.shl (E.field (E.var 2) 0) (E.var 5)) (E.var 0)) (S.scope (S.block [S.ret (E.mk2 (E.var 2) (E.bool false))])) (S.scope (S.block [])),
  exactLoop,
  S.ret (E.mk2 (E.var 2) (E.bool true))] }

/-! ## `float64ToDecimal` — variables: 0 `mant`, 1 `exp`, 2 `e2`, 3 `m2`, 4 `even`, 5 `acceptBounds`, 6 `mv`, 7 `mmShift`,
8 `vr`, 9 `vp`, 10 `vm`, 11 `e10`, 12 `vmIsTrailingZeros`, 13 `vrIsTrailingZeros`; in step 3 (`e2 >= 0`): 14 `q`, 15 `k`,
16 `i`, 17 `mul`; (`e2 < 0`): 14 `q`, 15 `i`, 16 `k`, 17 `j`, 18 `mul`; in step 4: 14 `removed`, 15 `lastRemovedDigit`,
16 `out`, then the loop temporaries (17 … 21) resp. 17 `roundUp` -/

/-- `4*m2`, `4*m2+2`, `4*m2-1-mmShift` -/
abbrev eMv : E := E.bin AOp.mul (E.u 64 4) (E.var 3)
abbrev eMp : E := E.bin AOp.add (E.bin AOp.mul (E.u 64 4) (E.var 3)) (E.u 64 2)
abbrev eMm : E := E.bin AOp.sub (E.bin AOp.sub (E.bin AOp.mul (E.u 64 4) (E.var 3)) (E.u 64 1)) (E.var 7)

/-- steps 1 and 2: `var e2 int32; var m2 uint64; if exp == 0 { … } else { … }; even := m2&1 == 0; acceptBounds := even;
mv := 4 * m2; mmShift := boolToUint64(mant != 0 || exp <= 1); var ( vr, vp, vm uint64; e10 int32; vmIsTrailingZeros,
vrIsTrailingZeros bool )` -/
def step12 : List S := [
  S.define 2 (E.i 32 0),
  S.define 3 (E.u 64 0),
  S.ite (E.cmp COp.eq (E.var 1) (E.u 64 0))
    (S.scope (S.block [S.assign 2 (E.i 32 (-1076)), S.assign 3 (E.var 0)]))
    (S.scope (S.block [
      S.assign 2 (E.bin AOp.sub (E.bin AOp.sub (E.bin AOp.sub (E.toI 32 (E.var 1)) (E.i 32 1023)) (E.i 32 52)) (E.i 32 2)),
      S.assign 3 (E.bin AOp.bor (E.shl (E.u 64 1) (E.u 64 52)) (E.var 0))])),
  S.define 4 (E.cmp COp.eq (E.bin AOp.band (E.var 3) (E.u 64 1)) (E.u 64 0)),
  S.define 5 (E.var 4),
  S.define 6 eMv,
  S.define 7 (E.call1 fBoolToUint64 (E.or (E.cmp COp.ne (E.var 0) (E.u 64 0)) (E.cmp COp.le (E.var 1) (E.u 64 1)))),
  S.define 8 (E.u 64 0),
  S.define 9 (E.u 64 0),
  S.define 10 (E.u 64 0),
  S.define 11 (E.i 32 0),
  S.define 12 (E.bool false),
  S.define 13 (E.bool false)]

/-- the flags of the branch `e2 >= 0`: `if q <= 21 { if mv%5 == 0 { … } else if acceptBounds { … } else if … { vp-- } }` -/
def posFlags : S :=
  S.ite (E.cmp COp.le (E.var 14) (E.u 32 21))
    (S.scope (S.block [
      S.ite (E.cmp COp.eq (E.bin AOp.mod (E.var 6) (E.u 64 5)) (E.u 64 0))
        (S.scope (S.block [S.assign 13 (E.call2 fMultipleOf5 (E.var 6) (E.var 14))]))
        (S.scope (S.block [
          S.ite (E.var 5)
            (S.scope (S.block [S.assign 12 (E.call2 fMultipleOf5 (E.bin AOp.sub (E.bin AOp.sub (E.var 6) (E.u 64 1)) (E.var 7)) (E.var 14))]))
            (S.scope (S.block [
              S.ite (E.call2 fMultipleOf5 (E.bin AOp.add (E.var 6) (E.u 64 2)) (E.var 14))
                (S.scope (S.block [S.assign 9 (E.bin AOp.sub (E.var 9) (E.u 64 1))]))
                (S.scope (S.block []))]))]))]))
    (S.scope (S.block []))

/-- step 3, `e2 >= 0` -/
def posPart : S := S.scope (S.block [
  S.define 14 (E.bin AOp.sub (E.call1 fLog10Pow2 (E.var 2)) (E.call1 fBoolToUint32 (E.cmp COp.gt (E.var 2) (E.i 32 3)))),
  S.assign 11 (E.toI 32 (E.var 14)),
  S.define 15 (E.bin AOp.sub (E.bin AOp.add (E.i 32 122) (E.call1 fPow5Bits (E.toI 32 (E.var 14)))) (E.i 32 1)),
  S.define 16 (E.bin AOp.add (E.bin AOp.add (E.neg (E.var 2)) (E.toI 32 (E.var 14))) (E.var 15)),
  S.define 17 (E.tbl Tbl.pow5InvSplit (E.var 14)),
  S.assign 8 (E.call3 fMulShift eMv (E.var 17) (E.var 16)),
  S.assign 9 (E.call3 fMulShift eMp (E.var 17) (E.var 16)),
  S.assign 10 (E.call3 fMulShift eMm (E.var 17) (E.var 16)),
  posFlags])

/-- the flags of the branch `e2 < 0`: `if q <= 1 { … } else if q < 63 { … }` -/
def negFlags : S :=
  S.ite (E.cmp COp.le (E.var 14) (E.u 32 1))
    (S.scope (S.block [
      S.assign 13 (E.bool true),
      S.ite (E.var 5)
        (S.scope (S.block [S.assign 12 (E.cmp COp.eq (E.var 7) (E.u 64 1))]))
        (S.scope (S.block [S.assign 9 (E.bin AOp.sub (E.var 9) (E.u 64 1))]))]))
    (S.scope (S.block [
      S.ite (E.cmp COp.lt (E.var 14) (E.u 32 63))
        (S.scope (S.block [S.assign 13 (E.call2 fMultipleOf2 (E.var 6) (E.bin AOp.sub (E.var 14) (E.u 32 1)))]))
        (S.scope (S.block []))]))

/-- step 3, `e2 < 0` -/
def negPart : S := S.scope (S.block [
  S.define 14 (E.bin AOp.sub (E.call1 fLog10Pow5 (E.neg (E.var 2))) (E.call1 fBoolToUint32 (E.cmp COp.gt (E.neg (E.var 2)) (E.i 32 1)))),
  S.assign 11 (E.bin AOp.add (E.toI 32 (E.var 14)) (E.var 2)),
  S.define 15 (E.bin AOp.sub (E.neg (E.var 2)) (E.toI 32 (E.var 14))),
  S.define 16 (E.bin AOp.sub (E.call1 fPow5Bits (E.var 15)) (E.i 32 121)),
  S.define 17 (E.bin AOp.sub (E.toI 32 (E.var 14)) (E.var 16)),
  S.define 18 (E.tbl Tbl.pow5Split (E.var 15)),
  S.assign 8 (E.call3 fMulShift eMv (E.var 18) (E.var 17)),
  S.assign 9 (E.call3 fMulShift eMp (E.var 18) (E.var 17)),
  S.assign 10 (E.call3 fMulShift eMm (E.var 18) (E.var 17)),
  negFlags])

/-- step 3: `if e2 >= 0 { … } else { … }` -/
def step3Stmt : S := S.ite (E.cmp COp.ge (E.var 2) (E.i 32 0)) posPart negPart

/-- `var removed int32; var lastRemovedDigit uint8; var out uint64` -/
def step4Decls : List S := [S.define 14 (E.i 32 0), S.define 15 (E.u 8 0), S.define 16 (E.u 64 0)]

/-- the body of the first loop of the general case -/
abbrev general1Body : S := S.scope (S.block [
  S.define 17 (E.bin AOp.div (E.var 9) (E.u 64 10)),
  S.define 18 (E.bin AOp.div (E.var 10) (E.u 64 10)),
  S.ite (E.cmp COp.le (E.var 17) (E.var 18)) (S.scope (S.block [S.brk])) (S.scope (S.block [])),
  S.define 19 (E.bin AOp.mod (E.var 10) (E.u 64 10)),
  S.define 20 (E.bin AOp.div (E.var 8) (E.u 64 10)),
  S.define 21 (E.bin AOp.mod (E.var 8) (E.u 64 10)),
  S.assign 12 (E.and (E.var 12) (E.cmp COp.eq (E.var 19) (E.u 64 0))),
  S.assign 13 (E.and (E.var 13) (E.cmp COp.eq (E.var 15) (E.u 8 0))),
  S.assign 15 (E.toU 8 (E.var 21)),
  S.assign 8 (E.var 20),
  S.assign 9 (E.var 17),
  S.assign 10 (E.var 18),
  S.assign 14 (E.bin AOp.add (E.var 14) (E.i 32 1))])

def general1 : S := S.for (S.block []) (E.bool true) (S.block []) general1Body

/-- the body of the second loop of the general case -/
abbrev general2Body : S := S.scope (S.block [
  S.define 17 (E.bin AOp.div (E.var 10) (E.u 64 10)),
  S.define 18 (E.bin AOp.mod (E.var 10) (E.u 64 10)),
  S.ite (E.cmp COp.ne (E.var 18) (E.u 64 0)) (S.scope (S.block [S.brk])) (S.scope (S.block [])),
  S.define 19 (E.bin AOp.div (E.var 9) (E.u 64 10)),
  S.define 20 (E.bin AOp.div (E.var 8) (E.u 64 10)),
  S.define 21 (E.bin AOp.mod (E.var 8) (E.u 64 10)),
  S.assign 13 (E.and (E.var 13) (E.cmp COp.eq (E.var 15) (E.u 8 0))),
  S.assign 15 (E.toU 8 (E.var 21)),
  S.assign 8 (E.var 20),
  S.assign 9 (E.var 19),
  S.assign 10 (E.var 17),
  S.assign 14 (E.bin AOp.add (E.var 14) (E.i 32 1))])

def general2 : S := S.for (S.block []) (E.bool true) (S.block []) general2Body

/-- the end of the general case: the tie rule and the final rounding -/
def generalFinish : List S := [
  S.ite (E.and (E.and (E.var 13) (E.cmp COp.eq (E.var 15) (E.u 8 5))) (E.cmp COp.eq (E.bin AOp.mod (E.var 8) (E.u 64 2)) (E.u 64 0)))
    (S.scope (S.block [S.assign 15 (E.u 8 4)])) (S.scope (S.block [])),
  S.assign 16 (E.var 8),
  S.ite (E.or (E.and (E.cmp COp.eq (E.var 8) (E.var 10)) (E.or (E.not (E.var 5)) (E.not (E.var 12)))) (E.cmp COp.ge (E.var 15) (E.u 8 5)))
    (S.scope (S.block [S.assign 16 (E.bin AOp.add (E.var 16) (E.u 64 1))])) (S.scope (S.block []))]

/-- step 4, general case -/
def generalPart : S := S.scope (S.block ([
  general1,
  S.ite (E.var 12) (S.scope (S.block [general2])) (S.scope (S.block []))] ++ generalFinish))

/-- `for vp/100 > vm/100 { … }` -/
abbrev common100Cond : E := E.cmp COp.gt (E.bin AOp.div (E.var 9) (E.u 64 100)) (E.bin AOp.div (E.var 10) (E.u 64 100))
abbrev common100Body : S := S.scope (S.block [
  S.assign 17 (E.cmp COp.ge (E.bin AOp.mod (E.var 8) (E.u 64 100)) (E.u 64 50)),
  S.assign 8 (E.bin AOp.div (E.var 8) (E.u 64 100)),
  S.assign 9 (E.bin AOp.div (E.var 9) (E.u 64 100)),
  S.assign 10 (E.bin AOp.div (E.var 10) (E.u 64 100)),
  S.assign 14 (E.bin AOp.add (E.var 14) (E.i 32 2))])
def common100 : S := S.for (S.block []) common100Cond (S.block []) common100Body

/-- `for vp/10 > vm/10 { … }` -/
abbrev common10Cond : E := E.cmp COp.gt (E.bin AOp.div (E.var 9) (E.u 64 10)) (E.bin AOp.div (E.var 10) (E.u 64 10))
abbrev common10Body : S := S.scope (S.block [
  S.assign 17 (E.cmp COp.ge (E.bin AOp.mod (E.var 8) (E.u 64 10)) (E.u 64 5)),
  S.assign 8 (E.bin AOp.div (E.var 8) (E.u 64 10)),
  S.assign 9 (E.bin AOp.div (E.var 9) (E.u 64 10)),
  S.assign 10 (E.bin AOp.div (E.var 10) (E.u 64 10)),
  S.assign 14 (E.bin AOp.add (E.var 14) (E.i 32 1))])
def common10 : S := S.for (S.block []) common10Cond (S.block []) common10Body

/-- step 4, common case -/
def commonPart : S := S.scope (S.block [
  S.define 17 (E.bool false),
  common100,
  common10,
  S.assign 16 (E.bin AOp.add (E.var 8) (E.call1 fBoolToUint64 (E.or (E.cmp COp.eq (E.var 8) (E.var 10)) (E.var 17))))])

/-- step 4: `if vmIsTrailingZeros || vrIsTrailingZeros { … } else { … }` -/
def step4Stmt : S := S.ite (E.or (E.var 12) (E.var 13)) generalPart commonPart

/-- `return dec64{m: out, e: e10 + removed}` -/
def retStmt : S := S.ret (E.mk2 (E.var 16) (E.bin AOp.add (E.var 11) (E.var 14)))

def fnToDecimal : Fn := { params := 2, body := S.block (step12 ++ [step3Stmt] ++ step4Decls ++ [step4Stmt, retStmt]) }

/-! ## `decimalLen64` — 0 `u`, 1 `log2`, 2 `t` -/

def fnDecimalLen : Fn := { params := 1, body := S.block [
  S.define 1 (E.bin AOp.sub (E.bin AOp.sub (E.i 64 64) (E.lz64 (E.var 0))) (E.i 64 1)),
  S.define 2 (E.shr (E.bin AOp.mul (E.bin AOp.add (E.var 1) (E.i 64 1)) (E.i 64 1233)) (E.u 64 12)),
  S.ret (E.bin AOp.add (E.bin AOp.sub (E.var 2) (E.call1 fBoolToInt (E.cmp COp.lt (E.var 0) (E.tbl Tbl.pow10 (E.var 2))))) (E.i 64 1))] }

/-! ## the helpers -/

def fnBoolToUint64 : Fn := { params := 1, body := S.block [
  S.ite (E.var 0) (S.scope (S.block [S.ret (E.u 64 1)])) (S.scope (S.block [])), S.ret (E.u 64 0)] }

def fnBoolToUint32 : Fn := { params := 1, body := S.block [
  S.ite (E.var 0) (S.scope (S.block [S.ret (E.u 32 1)])) (S.scope (S.block [])), S.ret (E.u 32 0)] }

def fnBoolToInt : Fn := { params := 1, body := S.block [
  S.ite (E.var 0) (S.scope (S.block [S.ret (E.i 64 1)])) (S.scope (S.block [])), S.ret (E.i 64 0)] }

def fnLog10Pow2 : Fn := { params := 1, body := S.block [
  S.assert (E.cmp COp.ge (E.var 0) (E.i 32 0)),
  S.assert (E.cmp COp.le (E.var 0) (E.i 32 1650)),
  S.ret (E.shr (E.bin AOp.mul (E.toU 32 (E.var 0)) (E.u 32 78913)) (E.u 64 18))] }

def fnLog10Pow5 : Fn := { params := 1, body := S.block [
  S.assert (E.cmp COp.ge (E.var 0) (E.i 32 0)),
  S.assert (E.cmp COp.le (E.var 0) (E.i 32 2620)),
  S.ret (E.shr (E.bin AOp.mul (E.toU 32 (E.var 0)) (E.u 32 732923)) (E.u 64 20))] }

def fnPow5Bits : Fn := { params := 1, body := S.block [
  S.assert (E.cmp COp.ge (E.var 0) (E.i 32 0)),
  S.assert (E.cmp COp.le (E.var 0) (E.i 32 3528)),
  S.ret (E.toI 32 (E.bin AOp.add (E.shr (E.bin AOp.mul (E.toU 32 (E.var 0)) (E.u 32 1217359)) (E.u 64 19)) (E.u 32 1)))] }

/-- `mulShift64` — 0 `m`, 1 `mul`, 2 `shift`, 3 `hihi`, 4 `hilo`, 5 `lohi`, 6 `sum` -/
def fnMulShift : Fn := { params := 3, body := S.block [
  S.define2 (some 3) (some 4) (E.mul64 (E.var 0) (E.field (E.var 1) 1)),
  S.define2 (some 5) none (E.mul64 (E.var 0) (E.field (E.var 1) 0)),
  S.define 6 (E.mk2 (E.bin AOp.add (E.var 5) (E.var 4)) (E.var 3)),
  S.ite (E.cmp COp.lt (E.field (E.var 6) 0) (E.var 5))
    (S.scope (S.block [S.setField 6 1 (E.bin AOp.add (E.field (E.var 6) 1) (E.u 64 1))])) (S.scope (S.block [])),
  S.ret (E.call2 fShiftRight128 (E.var 6) (E.bin AOp.sub (E.var 2) (E.i 32 64)))] }

/-- `shiftRight128` — 0 `v`, 1 `shift` -/
def fnShiftRight128 : Fn := { params := 2, body := S.block [
  S.assert (E.cmp COp.lt (E.var 1) (E.i 32 64)),
  S.ret (E.bin AOp.bor (E.shl (E.field (E.var 0) 1) (E.toU 64 (E.bin AOp.sub (E.i 32 64) (E.var 1))))
    (E.shr (E.field (E.var 0) 0) (E.toU 64 (E.var 1))))] }

def fnMultipleOf5 : Fn := { params := 2, body := S.block [S.ret (E.cmp COp.ge (E.call1 fPow5Factor (E.var 0)) (E.var 1))] }

def fnMultipleOf2 : Fn := { params := 2, body := S.block [S.ret (E.cmp COp.ge (E.toU 32 (E.tz64 (E.var 0))) (E.var 1))] }

/-- the body of the loop of `pow5Factor64` — 0 `v`, 1 `n`, 2 `q`, 3 `r` -/
abbrev pow5Body : S := S.scope (S.block [
  S.define 2 (E.bin AOp.div (E.var 0) (E.u 64 5)),
  S.define 3 (E.bin AOp.mod (E.var 0) (E.u 64 5)),
  S.ite (E.cmp COp.ne (E.var 3) (E.u 64 0)) (S.scope (S.block [S.ret (E.var 1)])) (S.scope (S.block [])),
  S.assign 0 (E.var 2)])

/-- `n++` -/
abbrev pow5Post : S := S.block [S.assign 1 (E.bin AOp.add (E.var 1) (E.u 32 1))]

def fnPow5Factor : Fn := { params := 1, body := S.block [
  S.for (S.block [S.define 1 (E.u 32 0)]) (E.bool true) pow5Post pow5Body] }

/-! ## the digit layout: `AppendFloat64f`, `appendSpecialf`, `dec64.appendF`, `sizeSlice`

The `append`s are numbered in the order of the translation: 0 … 4 in `appendSpecialf`, 5 the sign and 6 the `"0."` of `appendF`,
7 the one of `sizeSlice`. -/

/-- `AppendFloat64f` — 0 `b`, 1 `f`, 2 `u`, 3 `neg`, 4 `mant`, 5 `exp`, 6 `d`, 7 `ok` -/
def fnAppendFloat : Fn := { params := 2, body := S.block [
  S.define 2 (E.f64bits (E.var 1)),
  S.define 3 (E.cmp COp.ne (E.shr (E.var 2) (E.u 64 63)) (E.u 64 0)),
  S.define 4 (E.bin AOp.band (E.var 2) (E.bin AOp.sub (E.shl (E.u 64 1) (E.u 64 52)) (E.u 64 1))),
  S.define 5 (E.bin AOp.band (E.shr (E.var 2) (E.u 64 52)) (E.bin AOp.sub (E.shl (E.u 64 1) (E.u 64 11)) (E.u 64 1))),
  S.ite (E.or (E.cmp COp.eq (E.var 5) (E.bin AOp.sub (E.shl (E.u 64 1) (E.u 64 11)) (E.u 64 1)))
      (E.and (E.cmp COp.eq (E.var 5) (E.u 64 0)) (E.cmp COp.eq (E.var 4) (E.u 64 0))))
    (S.scope (S.block [S.ret (E.call4 fAppendSpecial (E.var 0) (E.var 3) (E.cmp COp.eq (E.var 5) (E.u 64 0)) (E.cmp COp.eq (E.var 4) (E.u 64 0)))]))
    (S.scope (S.block [])),
  S.define2 (some 6) (some 7) (E.call2 fExactInt (E.var 4) (E.var 5)),
  S.ite (E.not (E.var 7)) (S.scope (S.block [S.assign 6 (E.call2 fToDecimal (E.var 4) (E.var 5))])) (S.scope (S.block [])),
  S.ret (E.call3 fAppendF (E.var 6) (E.var 0) (E.var 3))] }

/-- `appendSpecialf` — 0 `b`, 1 `neg`, 2 `expZero`, 3 `mantZero` -/
def fnAppendSpecial : Fn := { params := 4, body := S.block [
  S.ite (E.not (E.var 3)) (S.scope (S.block [S.ret (E.appendS 0 (E.var 0) (E.str [78, 97, 78]))])) (S.scope (S.block [])),
  S.ite (E.not (E.var 2))
    (S.scope (S.block [S.ite (E.var 1)
      (S.scope (S.block [S.ret (E.appendS 1 (E.var 0) (E.str [45, 73, 110, 102]))]))
      (S.scope (S.block [S.ret (E.appendS 2 (E.var 0) (E.str [43, 73, 110, 102]))]))]))
    (S.scope (S.block [])),
  S.ite (E.var 1) (S.scope (S.block [S.assign 0 (E.append1 3 (E.var 0) (E.u 8 45))])) (S.scope (S.block [])),
  S.ret (E.append1 4 (E.var 0) (E.u 8 48))] }

/-- `b[i] = '0' + byte(out%10); out /= 10` (the slice is variable `v`) -/
abbrev digitStmts (v i : Var) : List S := [
  S.setIndex v (E.var i) (E.bin AOp.add (E.u 8 48) (E.toU 8 (E.bin AOp.mod (E.var 3) (E.u 64 10)))),
  S.assign 3 (E.bin AOp.div (E.var 3) (E.u 64 10))]

/-- the layout `XYZ000` (`dE >= 0`) — 6 `n`, 7 `i` -/
def layoutIntPart : S := S.scope (S.block [
  S.define 6 (E.len (E.var 1)),
  S.assign 1 (E.call2 fSizeSlice (E.var 1) (E.bin AOp.add (E.var 5) (E.var 4))),
  S.for (S.block [S.define 7 (E.var 6)]) (E.cmp COp.lt (E.var 7) (E.bin AOp.add (E.var 5) (E.var 6)))
    (S.block [S.assign 7 (E.bin AOp.add (E.var 7) (E.i 64 1))])
    (S.scope (S.block [S.setIndex 1 (E.bin AOp.add (E.var 4) (E.var 7)) (E.u 8 48)])),
  S.for (S.block [S.define 7 (E.bin AOp.sub (E.bin AOp.add (E.var 6) (E.var 4)) (E.i 64 1))]) (E.cmp COp.ge (E.var 7) (E.var 6))
    (S.block [S.assign 7 (E.bin AOp.sub (E.var 7) (E.i 64 1))])
    (S.scope (S.block (digitStmts 1 7))),
  S.ret (E.var 1)])

/-- the layout `0.00XYZ` (`ePos >= outLen`) — 7 `b` (the new one), 8 `n`, 9 `i` -/
def layoutFracPart : S := S.scope (S.block [
  S.define 7 (E.appendS 6 (E.var 1) (E.str [48, 46])),
  S.define 8 (E.len (E.var 7)),
  S.assign 7 (E.call2 fSizeSlice (E.var 7) (E.var 6)),
  S.for (S.block [S.define 9 (E.bin AOp.sub (E.bin AOp.add (E.var 8) (E.var 6)) (E.i 64 1))]) (E.cmp COp.ge (E.var 9) (E.var 8))
    (S.block [S.assign 9 (E.bin AOp.sub (E.var 9) (E.i 64 1))])
    (S.scope (S.block (digitStmts 7 9))),
  S.ret (E.var 7)])

/-- the layout `X.YZ` — 7 `n`, 8 `i`, 9 `end` -/
def layoutMixedPart : List S := [
  S.assign 1 (E.call2 fSizeSlice (E.var 1) (E.bin AOp.add (E.var 4) (E.i 64 1))),
  S.define 7 (E.len (E.var 1)),
  S.define 8 (E.bin AOp.sub (E.var 7) (E.i 64 1)),
  S.define 9 (E.bin AOp.sub (E.var 8) (E.var 4)),
  S.for (S.block []) (E.cmp COp.gt (E.var 6) (E.i 64 0)) (S.block [S.assign 8 (E.bin AOp.sub (E.var 8) (E.i 64 1))])
    (S.scope (S.block (digitStmts 1 8 ++ [S.assign 6 (E.bin AOp.sub (E.var 6) (E.i 64 1))]))),
  S.setIndex 1 (E.var 8) (E.u 8 46),
  S.assign 8 (E.bin AOp.sub (E.var 8) (E.i 64 1)),
  S.for (S.block []) (E.cmp COp.ge (E.var 8) (E.var 9)) (S.block [S.assign 8 (E.bin AOp.sub (E.var 8) (E.i 64 1))])
    (S.scope (S.block (digitStmts 1 8))),
  S.ret (E.var 1)]

/-- `dec64.appendF` — 0 `d`, 1 `b`, 2 `neg`, 3 `out`, 4 `outLen`, 5 `dE`, 6 `ePos` -/
def fnAppendF : Fn := { params := 3, body := S.block ([
  S.ite (E.var 2) (S.scope (S.block [S.assign 1 (E.append1 5 (E.var 1) (E.u 8 45))])) (S.scope (S.block [])),
  S.define 3 (E.field (E.var 0) 0),
  S.define 4 (E.call1 fDecimalLen (E.var 3)),
  S.define 5 (E.toI 64 (E.field (E.var 0) 1)),
  S.ite (E.cmp COp.ge (E.var 5) (E.i 64 0)) layoutIntPart (S.scope (S.block [])),
  S.define 6 (E.neg (E.var 5)),
  S.ite (E.cmp COp.ge (E.var 6) (E.var 4)) layoutFracPart (S.scope (S.block []))] ++ layoutMixedPart) }

/-- `sizeSlice` — 0 `b`, 1 `bufLen` -/
def fnSizeSlice : Fn := { params := 2, body := S.block [
  S.ite (E.cmp COp.ge (E.bin AOp.sub (E.cap (E.var 0)) (E.len (E.var 0))) (E.var 1))
    (S.scope (S.block [S.ret (E.sliceTo (E.var 0) (E.bin AOp.add (E.len (E.var 0)) (E.var 1)))])) (S.scope (S.block [])),
  S.ret (E.appendS 7 (E.var 0) (E.makeBytes (E.var 1)))] }

def canonFns : List (FnId × Fn) := [
  (fExactInt, fnExactInt),
  (fToDecimal, fnToDecimal),
  (fDecimalLen, fnDecimalLen),
  (fAppendFloat, fnAppendFloat),
  (fBoolToUint64, fnBoolToUint64),
  (fLog10Pow2, fnLog10Pow2),
  (fBoolToUint32, fnBoolToUint32),
  (fPow5Bits, fnPow5Bits),
  (fMulShift, fnMulShift),
  (fMultipleOf5, fnMultipleOf5),
  (fLog10Pow5, fnLog10Pow5),
  (fMultipleOf2, fnMultipleOf2),
  (fBoolToInt, fnBoolToInt),
  (fAppendSpecial, fnAppendSpecial),
  (fAppendF, fnAppendF),
  (fShiftRight128, fnShiftRight128),
  (fPow5Factor, fnPow5Factor),
  (fSizeSlice, fnSizeSlice)]

/-- `powersOf10` -/
def canonPow10 : List Nat := [1, 10, 100, 1000, 10000, 100000, 1000000, 10000000, 100000000, 1000000000,
  10000000000, 100000000000, 1000000000000, 10000000000000, 100000000000000, 1000000000000000,
  10000000000000000, 100000000000000000]

/-- nothing in today's Ryu core was left untranslated -/
theorem gen_ryu_no_opaque : ∀ p ∈ Gen.ryuFns, p.2.body.hasOpaque = false := by decide

/-- today's extraction is the canonical translation -/
theorem gen_ryu_canon : Gen.ryuFns = canonFns ∧ Gen.ryuPow10 = canonPow10 := by decide

end QF.Props.C16RyuGen
