import QF.Props.C16CoreMain
/-!
# C16 — the Ryu core (3f, fourth part): the flags of step 3 are sound; `ryu_shortest_partial`

`step3PosQ_flags`, `step3NegQ_flags`: when exactly the code sets `vmIsTrailingZeros`, `vrIsTrailingZeros` and decrements `vp`.
`pos_sound`, `neg_sound`: with `multipleOfPowerOfFive64_iff` / `multipleOfPowerOfTwo64_iff` and the coprimality of 2 and 5
these decisions are sound for the scaled interval ends and value in the sense `Sem` needs (`flags_sound`), including
* the cut-off `q ≤ 21` of the branch `e2 ≥ 0`: for `q ≥ 22` an unnoticed multiple of 10 would need `5^23 ∣ mp` or `5^23 ∣ mm`,
  which forces a significand of the wrong parity (`mult_pow23_cases`),
* the cut-off `q < 63` and the `q − 1` of the branch `e2 < 0`, which sets `vrIsTrailingZeros` also for half-integers
  (harmless: `half_int_tie`).
`ryu_shortest_partial`: the final theorem, whose only hypothesis is that the three `mulShift64` products are exact floors.
-/
namespace QF.Props.C16Core
open QF.Ryu64

/-! ## 3f. the conclusions of step 3 about trailing zeros are sound -/

/-- the flags and the `vp--` adjustment of the branch `e2 ≥ 0`, case by case -/
theorem step3PosQ_flags (q : Nat) (e2 : Int) (m2 s : Nat) (acc : Bool) :
    ((step3PosQ q e2 m2 s acc).vmIsTrailingZeros = true ↔
      (q ≤ 21 ∧ mvOf m2 % 5 ≠ 0 ∧ acc = true ∧ multipleOfPowerOfFive64 (mmOf m2 s) q = true)) ∧
    ((step3PosQ q e2 m2 s acc).vrIsTrailingZeros = true ↔
      (q ≤ 21 ∧ mvOf m2 % 5 = 0 ∧ multipleOfPowerOfFive64 (mvOf m2) q = true)) ∧
    ((step3PosQ q e2 m2 s acc).vp ≠ mulShift64 (mpOf m2) (QF.Gen.pow5InvSplit64.getD q (0, 0))
        (-e2 + (q : Int) + ((pow5InvNumBits64 : Int) + pow5Bits (q : Int) - 1)) →
      (q ≤ 21 ∧ mvOf m2 % 5 ≠ 0 ∧ acc = false ∧ multipleOfPowerOfFive64 (mpOf m2) q = true)) ∧
    ((q ≤ 21 ∧ mvOf m2 % 5 ≠ 0 ∧ acc = false ∧ multipleOfPowerOfFive64 (mpOf m2) q = true) →
      (step3PosQ q e2 m2 s acc).vp = subU64 (mulShift64 (mpOf m2) (QF.Gen.pow5InvSplit64.getD q (0, 0))
        (-e2 + (q : Int) + ((pow5InvNumBits64 : Int) + pow5Bits (q : Int) - 1))) 1) := by
  unfold step3PosQ
  dsimp only
  by_cases h1 : q ≤ 21
  · rw [if_pos h1]
    by_cases h2 : (mvOf m2 % 5 == 0) = true
    · rw [if_pos h2]
      have h2' : mvOf m2 % 5 = 0 := by simpa using h2
      simp [h1, h2']
    · rw [if_neg h2]
      have h2' : mvOf m2 % 5 ≠ 0 := by simpa using h2
      cases acc with
      | true => simp [h1, h2']; rfl
      | false =>
        simp only [Bool.false_eq_true, if_false]
        by_cases h3 : multipleOfPowerOfFive64 (u64 (mvOf m2 + 2)) q = true
        · rw [if_pos h3]
          have h3' : multipleOfPowerOfFive64 (mpOf m2) q = true := h3
          simp [h1, h2', h3']
        · rw [if_neg h3]
          have h3' : ¬ multipleOfPowerOfFive64 (mpOf m2) q = true := h3
          simp [h1, h2', h3']
  · rw [if_neg h1]
    simp [h1]


/-- the flags and the `vp--` adjustment of the branch `e2 < 0`, case by case -/
theorem step3NegQ_flags (q : Nat) (e2 : Int) (m2 s : Nat) (acc : Bool) :
    ((step3NegQ q e2 m2 s acc).vmIsTrailingZeros = true ↔ (q ≤ 1 ∧ acc = true ∧ s = 1)) ∧
    ((step3NegQ q e2 m2 s acc).vrIsTrailingZeros = true ↔
      (q ≤ 1 ∨ (1 < q ∧ q < 63 ∧ multipleOfPowerOfTwo64 (mvOf m2) (subU32 q 1) = true))) ∧
    ((step3NegQ q e2 m2 s acc).vp ≠ mulShift64 (mpOf m2) (QF.Gen.pow5Split64.getD (-e2 - (q : Int)).toNat (0, 0))
        ((q : Int) - (pow5Bits (-e2 - (q : Int)) - (pow5NumBits64 : Int))) → (q ≤ 1 ∧ acc = false)) ∧
    ((q ≤ 1 ∧ acc = false) →
      (step3NegQ q e2 m2 s acc).vp = subU64 (mulShift64 (mpOf m2) (QF.Gen.pow5Split64.getD (-e2 - (q : Int)).toNat (0, 0))
        ((q : Int) - (pow5Bits (-e2 - (q : Int)) - (pow5NumBits64 : Int)))) 1) := by
  unfold step3NegQ
  dsimp only
  by_cases h1 : q ≤ 1
  · rw [if_pos h1]
    cases acc with
    | true => simp [h1]
    | false => simp [h1]
  · rw [if_neg h1]
    have h1' : 1 < q := by omega
    by_cases h2 : q < 63
    · rw [if_pos h2]; simp [h1, h1', h2]
    · rw [if_neg h2]; simp [h1, h2]


theorem coprime_two_five_pow (a b : Nat) : Nat.Coprime (2 ^ a) (5 ^ b) := Nat.Coprime.pow a b (by decide)
theorem coprime_five_two_pow (a b : Nat) : Nat.Coprime (5 ^ a) (2 ^ b) := Nat.Coprime.pow a b (by decide)

/-- a power of two divides `a · 5^i` iff it divides `a` -/
theorem two_pow_dvd_mul_iff (q a i : Nat) : 2 ^ q ∣ a * 5 ^ i ↔ 2 ^ q ∣ a :=
  ⟨fun h => Nat.Coprime.dvd_of_dvd_mul_right (coprime_two_five_pow q i) h, fun h => Nat.dvd_trans h (Nat.dvd_mul_right _ _)⟩

/-- a power of five divides `a · 2^e` iff it divides `a` -/
theorem five_pow_dvd_mul_iff (q a e : Nat) : 5 ^ q ∣ a * 2 ^ e ↔ 5 ^ q ∣ a :=
  ⟨fun h => Nat.Coprime.dvd_of_dvd_mul_right (coprime_five_two_pow q e) h, fun h => Nat.dvd_trans h (Nat.dvd_mul_right _ _)⟩

theorem four_dvd_two_pow (q : Nat) (h : 2 ≤ q) : 4 ∣ 2 ^ q := by
  have : (4 : Nat) = 2 ^ 2 := rfl
  rw [this]; exact Nat.pow_dvd_pow 2 h

theorem subU64_one (raw : Nat) (h1 : 1 ≤ raw) (h2 : raw < 2 ^ 64) : subU64 raw 1 = raw - 1 := by
  unfold subU64; omega

/-- soundness of the flags of the branch `e2 < 0` (scale `5^i / 2^q`, `i ≥ 1`) -/
theorem neg_sound (q i m2 s vp raw : Nat) (acc vmTZ vrTZ : Bool) (hi : 1 ≤ i) (hm1 : 1 ≤ m2) (hm2 : m2 < 2 ^ 53) (hs : s ≤ 1)
    (hraw1 : 1 ≤ raw) (hraw2 : raw < 2 ^ 64)
    (fvm : vmTZ = true ↔ (q ≤ 1 ∧ acc = true ∧ s = 1))
    (fvr : vrTZ = true ↔ (q ≤ 1 ∨ (1 < q ∧ q < 63 ∧ multipleOfPowerOfTwo64 (4 * m2) (subU32 q 1) = true)))
    (fvp1 : vp ≠ raw → (q ≤ 1 ∧ acc = false)) (fvp2 : (q ≤ 1 ∧ acc = false) → vp = subU64 raw 1) :
    (vp = raw → acc = false → 2 ^ q ∣ (4 * m2 + 2) * 5 ^ i → ¬ 10 ∣ (4 * m2 + 2) * 5 ^ i / 2 ^ q) ∧
    (vp ≠ raw → acc = false ∧ 2 ^ q ∣ (4 * m2 + 2) * 5 ^ i) ∧
    (vmTZ = true → acc = true ∧ 2 ^ q ∣ (4 * m2 - 1 - s) * 5 ^ i) ∧
    (acc = true → 2 ^ q ∣ (4 * m2 - 1 - s) * 5 ^ i → vmTZ = false → ¬ 10 ∣ (4 * m2 - 1 - s) * 5 ^ i / 2 ^ q) ∧
    (vrTZ = true → (2 ^ q ∣ 4 * m2 * 5 ^ i ∨
      (2 ^ q ∣ 2 * (4 * m2 * 5 ^ i) ∧ 5 ∣ 2 * (4 * m2 * 5 ^ i) / 2 ^ q))) := by
  have hq1 : ∀ a : Nat, a % 2 = 0 → q ≤ 1 → 2 ^ q ∣ a := by
    intro a ha hq
    have : q = 0 ∨ q = 1 := by omega
    rcases this with h | h <;> subst h
    · exact Nat.one_dvd _
    · exact Nat.dvd_of_mod_eq_zero ha
  refine ⟨?_, ?_, ?_, ?_, ?_⟩
  · intro hv ha hd
    exfalso
    rw [two_pow_dvd_mul_iff] at hd
    have hq : q ≤ 1 := by
      apply Nat.le_of_not_lt; intro hq
      have := Nat.dvd_trans (four_dvd_two_pow q hq) hd
      omega
    have := fvp2 ⟨hq, ha⟩
    rw [subU64_one raw hraw1 hraw2] at this
    omega
  · intro hv
    obtain ⟨hq, ha⟩ := fvp1 hv
    exact ⟨ha, (two_pow_dvd_mul_iff _ _ _).mpr (hq1 _ (by omega) hq)⟩
  · intro hv
    obtain ⟨hq, ha, hs1⟩ := fvm.mp hv
    subst hs1
    exact ⟨ha, (two_pow_dvd_mul_iff _ _ _).mpr (hq1 _ (by omega) hq)⟩
  · intro ha hd hv h10
    have hd' := (two_pow_dvd_mul_iff _ _ _).mp hd
    have hq : q ≤ 1 := by
      apply Nat.le_of_not_lt; intro hq
      have := Nat.dvd_trans (four_dvd_two_pow q hq) hd'
      omega
    have hs0 : s = 0 := by
      apply Classical.byContradiction; intro hne
      have : vmTZ = true := fvm.mpr ⟨hq, ha, by omega⟩
      rw [this] at hv; cases hv
    subst hs0
    have hq0 : q = 0 := by
      apply Classical.byContradiction; intro hne
      have hq1' : q = 1 := by omega
      subst hq1'
      have : 2 ∣ 4 * m2 - 1 - 0 := hd'
      omega
    subst hq0
    rw [Nat.pow_zero, Nat.div_one] at h10
    have h2 : 2 ^ 1 ∣ (4 * m2 - 1 - 0) * 5 ^ i := Nat.dvd_trans (by decide : 2 ^ 1 ∣ 10) h10
    rw [two_pow_dvd_mul_iff] at h2
    have : 2 ∣ 4 * m2 - 1 - 0 := h2
    omega
  · intro hv
    rcases fvr.mp hv with hq | ⟨hq1', hq63, hmul⟩
    · left
      exact (two_pow_dvd_mul_iff _ _ _).mpr (hq1 _ (by omega) hq)
    · right
      have hsub : subU32 q 1 = q - 1 := by unfold subU32; omega
      rw [hsub, multipleOfPowerOfTwo64_iff _ _ (by omega) (by omega)] at hmul
      obtain ⟨c, hc⟩ := hmul
      obtain ⟨i', rfl⟩ : ∃ i', i = i' + 1 := ⟨i - 1, by omega⟩
      have e : 2 * (4 * m2 * 5 ^ (i' + 1)) = 2 ^ q * (5 * (c * 5 ^ i')) := by
        rw [hc, show q = (q - 1) + 1 by omega, Nat.pow_succ 2, Nat.pow_succ 5]
        simp only [Nat.add_sub_cancel]
        generalize 2 ^ (q - 1) = P
        generalize 5 ^ i' = F
        rw [Nat.mul_comm P 2, Nat.mul_assoc 2 P, Nat.mul_assoc P, Nat.mul_comm F 5, Nat.mul_left_comm c 5 F]
      refine ⟨⟨_, e⟩, ?_⟩
      rw [e, Nat.mul_div_cancel_left _ (Nat.pow_pos (by decide))]
      exact Nat.dvd_mul_right _ _


/-- `10^q ∣ a · 2^e` iff `5^q ∣ a` (for `q ≤ e`) -/
theorem ten_pow_dvd_mul_iff (q e a : Nat) (hqe : q ≤ e) : 10 ^ q ∣ a * 2 ^ e ↔ 5 ^ q ∣ a := by
  have e10 : (10 : Nat) ^ q = 2 ^ q * 5 ^ q := Nat.mul_pow 2 5 q
  constructor
  · intro h
    have : 5 ^ q ∣ a * 2 ^ e := Nat.dvd_trans ⟨2 ^ q, by rw [e10, Nat.mul_comm]⟩ h
    exact (five_pow_dvd_mul_iff q a e).mp this
  · rintro ⟨c, rfl⟩
    refine ⟨c * 2 ^ (e - q), ?_⟩
    have : (2 : Nat) ^ e = 2 ^ q * 2 ^ (e - q) := by rw [← Nat.pow_add]; congr 1; omega
    rw [this, e10]
    generalize 2 ^ q = P
    generalize 5 ^ q = F
    generalize 2 ^ (e - q) = R
    rw [Nat.mul_assoc F c, Nat.mul_assoc P F, Nat.mul_left_comm c P R, Nat.mul_left_comm F P]

/-- if the quotient of `a · 2^e` by `10^q` is a multiple of 10 then `5^(q+1) ∣ a` -/
theorem five_pow_succ_dvd_of_quot (q e a : Nat) (hd : 10 ^ q ∣ a * 2 ^ e) (h10 : 10 ∣ a * 2 ^ e / 10 ^ q) :
    5 ^ (q + 1) ∣ a := by
  have h1 : 10 ^ q * 10 ∣ a * 2 ^ e := (mul_dvd_iff (10 ^ q) 10 _ (Nat.pow_pos (by decide))).mpr ⟨hd, h10⟩
  rw [← Nat.pow_succ] at h1
  have e10 : (10 : Nat) ^ (q + 1) = 2 ^ (q + 1) * 5 ^ (q + 1) := Nat.mul_pow 2 5 (q + 1)
  have : 5 ^ (q + 1) ∣ a * 2 ^ e := Nat.dvd_trans ⟨2 ^ (q + 1), by rw [e10, Nat.mul_comm]⟩ h1
  exact (five_pow_dvd_mul_iff (q + 1) a e).mp this

theorem five_dvd_of_pow_succ {q a : Nat} (h : 5 ^ (q + 1) ∣ a) : a % 5 = 0 := by
  have : 5 ∣ a := Nat.dvd_trans (Nat.dvd_mul_left 5 (5 ^ q)) (by rwa [Nat.pow_succ] at h)
  exact Nat.mod_eq_zero_of_dvd this

theorem pow23_dvd_of {q a : Nat} (hq : 22 ≤ q) (h : 5 ^ (q + 1) ∣ a) : 5 ^ 23 ∣ a :=
  Nat.dvd_trans (Nat.pow_dvd_pow 5 (by omega)) h

/-- a multiple of `5^23` below `2^56` is one of seven numbers (omega cannot work with the coefficient `5^23`) -/
theorem mult_pow23_cases (x : Nat) (hx : x < 2 ^ 56) (h : 5 ^ 23 ∣ x) :
    x = 0 ∨ x = 11920928955078125 ∨ x = 23841857910156250 ∨ x = 35762786865234375 ∨ x = 47683715820312500 ∨
    x = 59604644775390625 ∨ x = 71525573730468750 := by
  obtain ⟨j, hj⟩ := h
  have h523 : (5 : Nat) ^ 23 = 11920928955078125 := by decide +kernel
  rw [h523] at hj
  have hlt : 11920928955078125 * j < 11920928955078125 * 7 := by rw [← hj]; omega
  have hj7 : j < 7 := Nat.lt_of_mul_lt_mul_left hlt
  have hc : j = 0 ∨ j = 1 ∨ j = 2 ∨ j = 3 ∨ j = 4 ∨ j = 5 ∨ j = 6 := by clear hj hlt; omega
  rcases hc with h | h | h | h | h | h | h <;> subst h <;> simp [hj]

/-- soundness of the flags of the branch `e2 ≥ 0` (scale `2^e / 10^q`, `q ≤ e`), including the cut-off `q ≤ 21`: for
`q ≥ 22` a multiple of `5^(q+1) ≥ 5^23` among `mp`, `mm` would force a significand of the wrong parity -/
theorem pos_sound (q e m2 s vp raw : Nat) (acc vmTZ vrTZ : Bool) (hqe : q ≤ e) (hm1 : 1 ≤ m2) (hm2 : m2 < 2 ^ 53)
    (hs : s ≤ 1) (hs0 : s = 0 → m2 = 2 ^ 52) (hacc : acc = true ↔ m2 % 2 = 0)
    (hraw1 : 1 ≤ raw) (hraw2 : raw < 2 ^ 64)
    (fvm : vmTZ = true ↔ (q ≤ 21 ∧ 4 * m2 % 5 ≠ 0 ∧ acc = true ∧ multipleOfPowerOfFive64 (4 * m2 - 1 - s) q = true))
    (fvr : vrTZ = true ↔ (q ≤ 21 ∧ 4 * m2 % 5 = 0 ∧ multipleOfPowerOfFive64 (4 * m2) q = true))
    (fvp1 : vp ≠ raw → (q ≤ 21 ∧ 4 * m2 % 5 ≠ 0 ∧ acc = false ∧ multipleOfPowerOfFive64 (4 * m2 + 2) q = true))
    (fvp2 : (q ≤ 21 ∧ 4 * m2 % 5 ≠ 0 ∧ acc = false ∧ multipleOfPowerOfFive64 (4 * m2 + 2) q = true) → vp = subU64 raw 1) :
    (vp = raw → acc = false → 10 ^ q ∣ (4 * m2 + 2) * 2 ^ e → ¬ 10 ∣ (4 * m2 + 2) * 2 ^ e / 10 ^ q) ∧
    (vp ≠ raw → acc = false ∧ 10 ^ q ∣ (4 * m2 + 2) * 2 ^ e) ∧
    (vmTZ = true → acc = true ∧ 10 ^ q ∣ (4 * m2 - 1 - s) * 2 ^ e) ∧
    (acc = true → 10 ^ q ∣ (4 * m2 - 1 - s) * 2 ^ e → vmTZ = false → ¬ 10 ∣ (4 * m2 - 1 - s) * 2 ^ e / 10 ^ q) ∧
    (vrTZ = true → (10 ^ q ∣ 4 * m2 * 2 ^ e ∨
      (10 ^ q ∣ 2 * (4 * m2 * 2 ^ e) ∧ 5 ∣ 2 * (4 * m2 * 2 ^ e) / 10 ^ q))) := by
  have i5p := multipleOfPowerOfFive64_iff (4 * m2 + 2) q (by omega) (by omega)
  have i5m := multipleOfPowerOfFive64_iff (4 * m2 - 1 - s) q (by omega) (by omega)
  have i5v := multipleOfPowerOfFive64_iff (4 * m2) q (by omega) (by omega)
  refine ⟨?_, ?_, ?_, ?_, ?_⟩
  · intro hv ha hd h10
    have h5q := (ten_pow_dvd_mul_iff q e _ hqe).mp hd
    have h5q1 := five_pow_succ_dvd_of_quot q e _ hd h10
    by_cases hq : q ≤ 21
    · by_cases h5 : 4 * m2 % 5 = 0
      · have := five_dvd_of_pow_succ h5q1; omega
      · have := fvp2 ⟨hq, h5, ha, i5p.mpr h5q⟩
        rw [subU64_one raw hraw1 hraw2] at this; omega
    · have hc := mult_pow23_cases _ (by omega) (pow23_dvd_of (by omega) h5q1)
      have hacc' : ¬ m2 % 2 = 0 := fun h => by rw [hacc.mpr h] at ha; cases ha
      omega
  · intro hv
    obtain ⟨_, _, ha, hmul⟩ := fvp1 hv
    exact ⟨ha, (ten_pow_dvd_mul_iff q e _ hqe).mpr (i5p.mp hmul)⟩
  · intro hv
    obtain ⟨_, _, ha, hmul⟩ := fvm.mp hv
    exact ⟨ha, (ten_pow_dvd_mul_iff q e _ hqe).mpr (i5m.mp hmul)⟩
  · intro ha hd hv h10
    have h5q := (ten_pow_dvd_mul_iff q e _ hqe).mp hd
    have h5q1 := five_pow_succ_dvd_of_quot q e _ hd h10
    by_cases hq : q ≤ 21
    · by_cases h5 : 4 * m2 % 5 = 0
      · have := five_dvd_of_pow_succ h5q1; omega
      · have : vmTZ = true := fvm.mpr ⟨hq, h5, ha, i5m.mpr h5q⟩
        rw [this] at hv; cases hv
    · have hc := mult_pow23_cases _ (by omega) (pow23_dvd_of (by omega) h5q1)
      have hacc' : m2 % 2 = 0 := hacc.mp ha
      have hs' : s = 0 ∨ s = 1 := by omega
      rcases hs' with h | h
      · have := hs0 h; subst h; omega
      · subst h; omega
  · intro hv
    obtain ⟨_, _, hmul⟩ := fvr.mp hv
    exact Or.inl ((ten_pow_dvd_mul_iff q e _ hqe).mpr (i5v.mp hmul))


theorem acceptBoundsOf_iff (mant exp : Nat) : acceptBoundsOf mant exp = true ↔ decodeM2 mant exp % 2 = 0 := by
  unfold acceptBoundsOf; rw [beq_iff_eq, Nat.and_one_is_mod]

theorem mmShift_zero (mant exp : Nat) (hm : mant < 2 ^ 52) (h : mmShiftOf mant exp = 0) : decodeM2 mant exp = 2 ^ 52 := by
  unfold mmShiftOf boolToNat at h
  have h' : (mant != 0 || decide (exp ≤ 1)) = false := by
    cases hb : (mant != 0 || decide (exp ≤ 1)) with
    | false => rfl
    | true => rw [hb] at h; simp at h
  simp only [Bool.or_eq_false_iff, bne_eq_false_iff_eq, decide_eq_false_iff_not] at h'
  obtain ⟨h1, h2⟩ := h'
  rw [decodeM2_eq mant exp hm, h1]
  have : exp ≠ 0 := by omega
  simp [this]

theorem step3_pos_eq (mant exp : Nat) (h : decodeE2 exp ≥ 0) :
    step3 mant exp = step3PosQ (qOf exp) (decodeE2 exp) (decodeM2 mant exp) (mmShiftOf mant exp) (acceptBoundsOf mant exp) := by
  have hq : qOf exp = subU32 (log10Pow2 (decodeE2 exp)) (boolToNat (decodeE2 exp > 3)) := by
    unfold qOf; rw [if_pos h]
  unfold step3
  dsimp only
  rw [if_pos h, hq]
  rfl

theorem step3_neg_eq (mant exp : Nat) (h : ¬ decodeE2 exp ≥ 0) :
    step3 mant exp = step3NegQ (qOf exp) (decodeE2 exp) (decodeM2 mant exp) (mmShiftOf mant exp) (acceptBoundsOf mant exp) := by
  have hq : qOf exp = subU32 (log10Pow5 (-decodeE2 exp)) (boolToNat (-decodeE2 exp > 1)) := by
    unfold qOf; rw [if_neg h]
  unfold step3
  dsimp only
  rw [if_neg h, hq]
  rfl


theorem le_of_ten_pow_le_two_pow {q e : Nat} (h : 10 ^ q ≤ 2 ^ e) : q ≤ e := by
  have h1 : 2 ^ q ≤ 10 ^ q := Nat.pow_le_pow_left (by decide) q
  exact (Nat.pow_le_pow_iff_right (by decide : 1 < 2)).mp (Nat.le_trans h1 h)

/-- 3f. The conclusions step 3 draws about trailing zeros and the `vp--` adjustment are sound for every finite non-zero
float (given that the `mulShift64` result for `mp` is the exact floor): the five flag hypotheses of
`ryu_shortest_of_sound_flags`. -/
theorem flags_sound (mant exp : Nat) (hm : mant < 2 ^ 52) (he : exp < 2047) (hnz : mant ≠ 0 ∨ exp ≠ 0)
    (Hvp : mulShift64 (mpOf (decodeM2 mant exp)) (mulOf exp) (shiftOf exp)
      = mpOf (decodeM2 mant exp) * scaleNum exp / scaleDen exp) :
    ((step3 mant exp).vp = mulShift64 (mpOf (decodeM2 mant exp)) (mulOf exp) (shiftOf exp) →
      acceptBoundsOf mant exp = false → scaleDen exp ∣ mpOf (decodeM2 mant exp) * scaleNum exp →
      ¬ 10 ∣ mpOf (decodeM2 mant exp) * scaleNum exp / scaleDen exp) ∧
    ((step3 mant exp).vp ≠ mulShift64 (mpOf (decodeM2 mant exp)) (mulOf exp) (shiftOf exp) →
      acceptBoundsOf mant exp = false ∧ scaleDen exp ∣ mpOf (decodeM2 mant exp) * scaleNum exp) ∧
    ((step3 mant exp).vmIsTrailingZeros = true →
      acceptBoundsOf mant exp = true ∧ scaleDen exp ∣ mmOf (decodeM2 mant exp) (mmShiftOf mant exp) * scaleNum exp) ∧
    (acceptBoundsOf mant exp = true →
      scaleDen exp ∣ mmOf (decodeM2 mant exp) (mmShiftOf mant exp) * scaleNum exp →
      (step3 mant exp).vmIsTrailingZeros = false →
      ¬ 10 ∣ mmOf (decodeM2 mant exp) (mmShiftOf mant exp) * scaleNum exp / scaleDen exp) ∧
    ((step3 mant exp).vrIsTrailingZeros = true →
      (scaleDen exp ∣ mvOf (decodeM2 mant exp) * scaleNum exp ∨
        (scaleDen exp ∣ 2 * (mvOf (decodeM2 mant exp) * scaleNum exp) ∧
          5 ∣ 2 * (mvOf (decodeM2 mant exp) * scaleNum exp) / scaleDen exp))) := by
  obtain ⟨hm1, hm2⟩ := decodeM2_range mant exp hm hnz
  obtain ⟨hD, hDN, hN, hq⟩ := scale_facts exp he
  have hs := mmShiftOf_le mant exp
  have hs0 := mmShift_zero mant exp hm
  have hacc := acceptBoundsOf_iff mant exp
  obtain ⟨a1, a2, a3, _, _, _⟩ :=
    sem_arith (decodeM2 mant exp) (mmShiftOf mant exp) (scaleNum exp) (scaleDen exp) (acceptBoundsOf mant exp)
      hm1 hm2 hs hD hDN hN hq
  have emv := (mv_mp_eq _ hm2).1
  have emp := (mv_mp_eq _ hm2).2
  have emm := mm_eq _ _ (by omega) hm2 hs
  rw [emp] at Hvp
  rw [emv, emp, emm]
  have hraw1 : 1 ≤ mulShift64 (4 * decodeM2 mant exp + 2) (mulOf exp) (shiftOf exp) := by
    rw [Hvp]; exact Nat.div_pos (by omega) hD
  have hraw2 : mulShift64 (4 * decodeM2 mant exp + 2) (mulOf exp) (shiftOf exp) < 2 ^ 64 := by
    rw [Hvp]
    have h3 : (4 * decodeM2 mant exp + 2) * scaleNum exp / scaleDen exp < (4 * decodeM2 mant exp + 2) * 100 := by
      rw [Nat.div_lt_iff_lt_mul hD, Nat.mul_assoc]
      exact (Nat.mul_lt_mul_left (by omega)).mpr hN
    omega
  by_cases h : decodeE2 exp ≥ 0
  · -- e2 ≥ 0
    have hexp : 1077 ≤ exp := by
      apply Nat.le_of_not_lt; intro hlt
      rw [decodeE2_neg exp hlt] at h; split at h <;> omega
    have he2 := decodeE2_pos exp hexp
    obtain ⟨f1, f2, f3, f4⟩ := step3PosQ_flags (qOf exp) (decodeE2 exp) (decodeM2 mant exp) (mmShiftOf mant exp)
      (acceptBoundsOf mant exp)
    rw [emv, emm] at f1
    rw [emv] at f2
    rw [emv, emp] at f3 f4
    rw [step3_pos_eq mant exp h]
    have hN' : scaleNum exp = 2 ^ (exp - 1077) := by
      unfold scaleNum; rw [if_pos h, he2, Int.toNat_natCast]
    have hD' : scaleDen exp = 10 ^ qOf exp := by unfold scaleDen; rw [if_pos h]
    have hmul : mulOf exp = QF.Gen.pow5InvSplit64.getD (qOf exp) (0, 0) := by unfold mulOf; rw [if_pos h]
    have hsh : shiftOf exp = -decodeE2 exp + (qOf exp : Int) + ((pow5InvNumBits64 : Int) + pow5Bits (qOf exp : Int) - 1) := by
      unfold shiftOf; rw [if_pos h]
    rw [hN', hD'] at hDN ⊢
    rw [hmul, hsh] at hraw1 hraw2 ⊢
    exact pos_sound (qOf exp) (exp - 1077) (decodeM2 mant exp) (mmShiftOf mant exp) _ _ _ _ _
      (le_of_ten_pow_le_two_pow hDN) hm1 hm2 hs hs0 hacc hraw1 hraw2 f1 f2 f3 f4
  · -- e2 < 0
    have hexp : exp < 1077 := by
      apply Nat.lt_of_not_le; intro hge
      rw [decodeE2_pos exp hge] at h; omega
    have he2 := decodeE2_neg exp hexp
    obtain ⟨f1, f2, f3, f4⟩ := step3NegQ_flags (qOf exp) (decodeE2 exp) (decodeM2 mant exp) (mmShiftOf mant exp)
      (acceptBoundsOf mant exp)
    rw [emv] at f2
    rw [emp] at f3 f4
    rw [step3_neg_eq mant exp h]
    have hn1 : 1 ≤ (if exp = 0 then 1076 else 1077 - exp) := by split <;> omega
    have hn2 : (if exp = 0 then 1076 else 1077 - exp) ≤ 2620 := by split <;> omega
    have hqn : qOf exp < (if exp = 0 then 1076 else 1077 - exp) := by
      unfold qOf; rw [if_neg h, he2, Int.neg_neg]
      exact (negScale _ hn1 hn2).1
    have hi : (-decodeE2 exp - (qOf exp : Int)).toNat = (if exp = 0 then 1076 else 1077 - exp) - qOf exp := by
      rw [he2, Int.neg_neg]; omega
    have hN' : scaleNum exp = 5 ^ ((if exp = 0 then 1076 else 1077 - exp) - qOf exp) := by
      unfold scaleNum; rw [if_neg h, hi]
    have hD' : scaleDen exp = 2 ^ qOf exp := by unfold scaleDen; rw [if_neg h]
    have hmul : mulOf exp = QF.Gen.pow5Split64.getD (-decodeE2 exp - (qOf exp : Int)).toNat (0, 0) := by
      unfold mulOf; rw [if_neg h]
    have hsh : shiftOf exp = (qOf exp : Int) - (pow5Bits (-decodeE2 exp - (qOf exp : Int)) - (pow5NumBits64 : Int)) := by
      unfold shiftOf; rw [if_neg h]
    rw [hN', hD']
    rw [hmul, hsh] at hraw1 hraw2 ⊢
    exact neg_sound (qOf exp) _ (decodeM2 mant exp) (mmShiftOf mant exp) _ _ _ _ _
      (by omega) hm1 hm2 hs hraw1 hraw2 f1 f2 f3 f4


/-- 3f. **`ryu_shortest_partial`: the mirror of `float64ToDecimal` yields the shortest, correctly rounded decimal for every finite
non-zero float64 — under the hypothesis that the three `mulShift64` results are the exact floors of the scaled quantities.**

For the fields `mant < 2^52`, `exp < 2047` (not both 0) let `m2`, `e2` be the significand and the exponent − 2 as step 1
computes them (`interval_value`: `4·m2 · 2^e2` is the float's value), `mv = 4·m2`, `mp = 4·m2 + 2`,
`mm = 4·m2 − 1 − mmShift` (`interval_upper`, `interval_lower`: `mp·2^e2` and `mm·2^e2` are the midpoints to the
neighbouring floats, so `[mm, mp]·2^e2` is the rounding interval, closed iff the significand is even), and
`N/D = 2^e2 / 10^e10` the scale chosen by the code (`scale_meaning`).

HYPOTHESIS (explicit, not proved here): `Hvr`, `Hvp`, `Hvm` — the three calls `mulShift64(4*m2, mul, shift)`,
`mulShift64(4*m2+2, …)`, `mulShift64(4*m2-1-mmShift, …)` with the multiplier `mulOf exp` read from the extracted tables and the
shift `shiftOf exp` return exactly `⌊mv·N/D⌋`, `⌊mp·N/D⌋`, `⌊mm·N/D⌋`. By `mulShift64_exact` each call returns
`⌊m · tableEntry / 2^shift⌋`; that this equals the floor of the exact scaled quantity for all `m < 2^55` is the precision
lemma of the Ryu paper for the 121/122-bit multipliers (`pow5Split64_correct`, `pow5InvSplit64_correct`).

CONCLUSION: with `d = float64ToDecimal mant exp` and `k = d.e − e10` (the number of digits removed), `d.m · 10^k` in units of
`10^e10` lies in the rounding interval (`Adm`), no decimal with fewer digits lies in it, and no decimal with the same number
of digits in the interval is closer to the exact value (`Spec`). Everything else — the loops and their fuel, the final
rounding decision, the digit bookkeeping, the trailing-zero flags of step 3 including the cut-offs `q ≤ 21`, `q < 63` and
the `q − 1` of the branch `e2 < 0`, the `vp--` adjustment, the width of the interval — is proved. -/
theorem ryu_shortest_partial (mant exp : Nat) (hm : mant < 2 ^ 52) (he : exp < 2047) (hnz : mant ≠ 0 ∨ exp ≠ 0)
    (Hvr : mulShift64 (mvOf (decodeM2 mant exp)) (mulOf exp) (shiftOf exp)
      = mvOf (decodeM2 mant exp) * scaleNum exp / scaleDen exp)
    (Hvp : mulShift64 (mpOf (decodeM2 mant exp)) (mulOf exp) (shiftOf exp)
      = mpOf (decodeM2 mant exp) * scaleNum exp / scaleDen exp)
    (Hvm : mulShift64 (mmOf (decodeM2 mant exp) (mmShiftOf mant exp)) (mulOf exp) (shiftOf exp)
      = mmOf (decodeM2 mant exp) (mmShiftOf mant exp) * scaleNum exp / scaleDen exp) :
    ∃ k : Nat, (float64ToDecimal mant exp).e = e10Of exp + (k : Int) ∧
      Spec (mmOf (decodeM2 mant exp) (mmShiftOf mant exp) * scaleNum exp) (mvOf (decodeM2 mant exp) * scaleNum exp)
        (mpOf (decodeM2 mant exp) * scaleNum exp) (scaleDen exp) (acceptBoundsOf mant exp)
        (float64ToDecimal mant exp).m k := by
  obtain ⟨h1, h2, h3, h4, h5⟩ := flags_sound mant exp hm he hnz Hvp
  exact ryu_shortest_of_sound_flags mant exp hm he hnz Hvr Hvp Hvm h1 h2 h3 h4 h5

end QF.Props.C16Core
