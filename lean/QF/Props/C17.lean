import QF.Props.Tie
import QF.Core.Small
/-!
# C17 — enum value sets: the 256-bit set used by `in`, `like`, `ilike`

`bitset_spec`: for all values `v, w < 256`: `isSet (set s v) w ⇔ w = v ∨ isSet s w`.
-/
namespace QF.Props.C17

theorem bitset_spec (s : Small.BitSet) (v w : Nat) (hv : v < 256) (hw : w < 256) :
    Small.bsIsSet (Small.bsSet s v) w = (decide (w = v) || Small.bsIsSet s w) :=
  Small.bitset_spec s v w hv hw

/-- T1: the functions this property's mirror model follows have today the source text the model was written against. -/
-- (`filterBuiltIn`, the kernels and the bitset builders are regenerated as terms and proved: C02Kernels, C02Dispatch)
-- Tie audit (bin/selftest-ties): the following functions are not compared as text any more; every behaviour-changing edit of
-- them makes a `gen_*_canon` theorem of this property's modules fail, renaming their locals or reformatting them changes nothing:
-- `maxCardinality`, `nullValue`, `New`, `NewConst`, `NewFactory`, `Factory.enumVal`, `Factory.appendString`, `Factory.AppendByteString`, `Factory.AppendString`: `Gen.factoryInit` /
-- `Gen.factoryMethods` / `Gen.factoryNew` / `Gen.factoryNewConst` (east.go, constants resolved to their value), `C17Factory.gen_factory_canon` + `gen_factory_semantics` / `gen_factory_const_semantics`.
-- `Column.subset`: `Gen.subsetAst` (last.go), `C04LoopsGen.gen_subset_canon` + `gen_subset_semantics`.
-- The bitset, isNull, compVal and subset are regenerated in `Gen.bitsetSet` / `bitsetIsSet` / `enumCompVal` / `enumSubset` (C17EnumRestGen); nothing of C17 is compared as text any more.
theorem tie : Tie.sameAll [] = true := by decide

/-- Today's limits: 255 values, the code 255 is the null marker (so no value is ever reported as null). -/
theorem gen_enum_constants :
    Gen.consts.lookup "ecolumn.maxCardinality" = some "255" ∧ Gen.consts.lookup "ecolumn.nullValue" = some "maxCardinality" := by decide

end QF.Props.C17
