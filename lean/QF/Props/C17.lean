import QF.Core.Small
/-!
# C17 — enum value sets: the 256-bit set used by `in`, `like`, `ilike`

`bitset_spec`: for all values `v, w < 256`: `isSet (set s v) w ⇔ w = v ∨ isSet s w`.
-/
namespace QF.Props.C17

theorem bitset_spec (s : Small.BitSet) (v w : Nat) (hv : v < 256) (hw : w < 256) :
    Small.bsIsSet (Small.bsSet s v) w = (decide (w = v) || Small.bsIsSet s w) :=
  Small.bitset_spec s v w hv hw

end QF.Props.C17
