import QF.Props.Tie
import QF.Core.Small
/-!
# C17 — enum value sets: the 256-bit set used by `in`, `like`, `ilike`

`bitset_spec`: for all values `v, w < 256`: `isSet (set s v) w ⇔ w = v ∨ isSet s w`.
-/
namespace QF.Props.C17

theorem bitset_spec (s : Small.BitSet) (v w : Nat) (hv : v < 256) (hw : w < 256) :
    Small.bsIsSet (Small.bsSet s v) w = (decide (w = v) || Small.bsIsSet s w) :=
  Small.bitset_spec s v w hv hw

/-- T1: the functions this property's mirror model follows have today the source text the model was written against. -/
-- (`filterBuiltIn`, the kernels and the bitset builders are regenerated as terms and proved: C02Kernels, C02Dispatch)
theorem tie : Tie.sameAll ["ecolumn.maxCardinality", "ecolumn.nullValue", "ecolumn.bitset.set", "ecolumn.bitset.isSet", "ecolumn.compVal", "ecolumn.subset", "ecolumn.New", "ecolumn.NewConst", "ecolumn.NewFactory", "ecolumn.Factory.enumVal", "ecolumn.Factory.appendString", "ecolumn.Factory.AppendByteString", "ecolumn.Factory.AppendString"] = true := by decide

/-- Today's limits: 255 values, the code 255 is the null marker (so no value is ever reported as null). -/
theorem gen_enum_constants :
    Gen.consts.lookup "ecolumn.maxCardinality" = some "255" ∧ Gen.consts.lookup "ecolumn.nullValue" = some "maxCardinality" := by decide

end QF.Props.C17
