import QF.Spec.Ops
import QF.Props.C10Sticky
import QF.Gen.Guards
/-!
# C08 / C10 — the projections of today's source reject exactly the requests the spec rejects (tie T1, by semantics)

`QF.Gen.guardAst` (regenerated on every run by go/cmd/extract/gast.go) holds the guard prefix of `QFrame.Slice`,
`QFrame.Select`, `QFrame.Drop`, `QFrame.Copy` (with `setColumn`, which it ends in, inlined) and `New` of /repo/qframe.go
as lists of `QF.GStep`; `QF.Gen.lenAst` is `QFrame.Len`, `QF.Gen.checkNameAst` the function of internal/strings those
guards call on a column name (`CheckName`, with `isQuoted` inlined). `runGuards` / `runInt` / `runName`
(QF/Core/GExpr.lean) are their Go meaning. This file proves, for the terms generated TODAY:

* `gen_guards_no_opaque`    — all of them were found and translated completely
* `gen_guards_complete`     — no error return of the four projections lies outside the translated prefix; the only call
                              of a frame operation after a prefix that is not part of the chain is Drop's final
                              `qf.Select(<names of qf.columns that are not dropped>...)`; `New` has three later error
                              returns (column creation, different lengths, unknown enum columns)
* `gen_checkname_semantics` — the name check fails on a byte string iff the spec's `legalName` is false: ALL byte strings
* `gen_len_semantics`       — `qf.Len()` is -1 for a frame with an error, else the length of the index
* `gen_slice_outcome`, `gen_select_outcome`, `gen_drop_outcome`, `gen_copy_outcome`, `gen_new_outcome`
                            — what the chain of each operation does, as a closed formula, on ALL requests
* `gen_guards_semantics`    — for every frame without error and ALL arguments, the chain of Slice / Select / Drop / Copy
                              rejects (`err`) iff the spec function (`sliceS` / `selectS` / `dropS` / `copyS`) returns
                              `.err` (via the `_err_iff` theorems of C10Sticky); it never lacks an outcome
* `gen_guards_sticky`       — on a frame that already carries an error, each of the four returns the frame itself, whatever
                              the arguments
* `gen_guards_self`         — where a chain returns the frame itself on an error-free frame (Drop of nothing, Copy onto
                              itself), the spec returns `.ok f`
* `gen_new_guards_partial`  — `New`'s prefix rejects iff one of the first three checks of `newS` does (illegal name, order
                              of the wrong length, order naming a column that is not there), and then `newS = .err`.
                              PARTIAL: `New`'s later checks are outside the chain (they are regenerated and
                              proved in QF/Props/C08Construct.lean: `gen_new_semantics_partial`).

Method (as in C02Kernels / C03Compare): `decide` shows that each generated chain IS the canonical chain
(`gen_guards_canon`, `gen_checkname_canon`, `gen_len_canon`: finite, redone on every run); the meaning of the canonical
chains on every request is proved once and for all.

An abstract request (`GReq`) of a frame `f`: `rows = f.n`, `known = f.has`. Ints are unbounded here; Go's are 64 bit,
which only restricts the requests.

No disagreement between the spec and today's chains was found.
-/
namespace QF.Props.C08Guards
open QF

/-! ## Today's chains -/

/-- `QFrame.Len` for a translation of it (it must not call itself: `len` has no value inside) -/
def lenIn (l : List IStep) (q : GReq) : Option Int := runInt ⟨fun _ => none, fun _ => none⟩ l q

def envIn (n : List NStep) (l : List IStep) : GEnv := ⟨runName n, lenIn l⟩

/-- the outcome of operation `op` on request `q` for the given translations -/
def guardsIn (n : List NStep) (l : List IStep) (g : List (String × List GStep)) (op : String) (q : GReq) : Option GOut :=
  (g.lookup op).bind (fun ch => runGuards (envIn n l) ch q)

/-- … for today's source -/
def genNameFails (s : Bytes) : Option Bool := runName Gen.checkNameAst s
def genLen (q : GReq) : Option Int := lenIn Gen.lenAst q
def genGuards (op : String) (q : GReq) : Option GOut := guardsIn Gen.checkNameAst Gen.lenAst Gen.guardAst op q

/-! ## Canonical terms -/

def canonCheckName : List NStep := [
  .reject (.eqI .len (.lit 0)),
  .reject (.and (.lt (.lit 2) .len) (.or (.and (.hasPrefix [39]) (.hasSuffix [39])) (.and (.hasPrefix [34]) (.hasSuffix [34])))),
  .reject (.hasPrefix [36]),
  .accept]

def canonLen : List IStep := [.guard .qfHasErr (.lit (-1)), .ret .indexLen]

def canonSlice : List GStep := [
  .guard .qfHasErr .returnSelf,
  .guard .startLtZero .err,
  .guard .startGtEnd .err,
  .guard .endGtLen .err]

def canonSelect : List GStep := [
  .guard .qfHasErr .returnSelf,
  .forEach .columns (.unknownColumn .each) .err,
  .guard .noColumns .ok]

def canonDrop : List GStep := [
  .guard (.or .qfHasErr .noColumns) .returnSelf,
  .forEach .columns (.unknownColumn .each) .err]

def canonCopy : List GStep := [
  .guard .qfHasErr .returnSelf,
  .guard (.unknownColumn .src) .err,
  .guard .sameName .returnSelf,
  .guard (.nameCheckFails .dst) .err]

def canonNew : List GStep := [
  .forEach .dataKeys (.nameCheckFails .each) .err,
  .defaultOrder,
  .guard (.not (.eqI (.count .order) (.count .dataKeys))) .err,
  .forEach .order (.notInData .each) .err]

def canonGuards : List (String × List GStep) :=
  [("Slice", canonSlice), ("Select", canonSelect), ("Drop", canonDrop), ("Copy", canonCopy), ("New", canonNew)]

/-! ## Today's terms are the canonical ones (finite checks over `QF.Gen`, redone on every run) -/

theorem gen_checkname_canon : Gen.checkNameAst = canonCheckName := by decide

theorem gen_len_canon : Gen.lenAst = canonLen := by decide

theorem gen_guards_canon : Gen.guardAst = canonGuards := by decide

/-- The five operations, `QFrame.Len` and the name check were found, and no part of them translates to `.opaque`. -/
theorem gen_guards_no_opaque :
    Gen.guardAst.map (·.1) = ["Slice", "Select", "Drop", "Copy", "New"] ∧
    (∀ p ∈ Gen.guardAst, ∀ s ∈ p.2, s.hasOpaque = false) ∧
    (∀ s ∈ Gen.lenAst, s.hasOpaque = false) ∧ (∀ s ∈ Gen.checkNameAst, s.hasOpaque = false) := by
  decide

/-- All error returns of the four projections are inside the translated prefix; `New` has three after it. The only call
of a frame operation after a prefix that is not inlined is the `qf.Select(…)` Drop ends with: its arguments are the names
of `qf.columns` that are not dropped, so they are computed, not forwarded. -/
theorem gen_guards_complete :
    Gen.lateErrors = [("Slice", 0), ("Select", 0), ("Drop", 0), ("Copy", 0), ("New", 3)] ∧
    Gen.openTails = [("Drop", "Select")] := by
  decide

/-! ## The name check -/

theorem isPrefixOf_one (b : UInt8) (t : Bytes) : [b].isPrefixOf t = (t.head? == some b) := by
  cases t with
  | nil => simp [List.isPrefixOf]
  | cons x xs =>
    simp only [List.isPrefixOf, Bool.and_true, List.head?_cons]
    by_cases h : b = x
    · subst h; simp
    · have h' : ¬ x = b := fun e => h e.symm
      rw [beq_false_of_ne h]
      exact (beq_false_of_ne (fun e => h' (Option.some.inj e))).symm

theorem isSuffixOf_one (b : UInt8) (t : Bytes) : [b].isSuffixOf t = (t.getLast? == some b) := by
  unfold List.isSuffixOf
  rw [List.reverse_singleton, isPrefixOf_one, List.head?_reverse]

/-- The canonical name check fails exactly on the names that are not legal. -/
theorem canon_name_sem (s : Bytes) : runName canonCheckName s = some (!legalName s) := by
  cases s with
  | nil => simp [canonCheckName, runName, NCond.eval, NInt.eval, legalName]
  | cons x xs =>
    have hq : (NCond.and (.lt (.lit 2) .len) (.or (.and (.hasPrefix [39]) (.hasSuffix [39]))
        (.and (.hasPrefix [34]) (.hasSuffix [34])))).eval (x :: xs) = some (isQuotedName (x :: xs)) := by
      simp only [NCond.eval, NInt.eval, isPrefixOf_one, isSuffixOf_one, isQuotedName]
      rfl
    have h1 : (NCond.eqI .len (.lit 0)).eval (x :: xs) = some false := by simp [NCond.eval, NInt.eval]
    have h3 : (NCond.hasPrefix [36]).eval (x :: xs) = some (x == 36) := by
      simp only [NCond.eval, isPrefixOf_one, List.head?_cons]
      by_cases h : x = 36 <;> simp [h]
    simp only [canonCheckName, runName, h1, hq, h3]
    cases hQ : isQuotedName (x :: xs)
    · by_cases h : x = 36
      · simp [legalName, h]
      · have hb : (x == 36) = false := beq_false_of_ne h
        simp [legalName, hQ, hb, h]
    · simp [legalName, hQ]

/-- **The name check of today's source is the spec's `legalName`**, on ALL byte strings: `CheckName(s)` returns an error
iff `legalName s = false`. -/
theorem gen_checkname_semantics (s : Bytes) : genNameFails s = some (!legalName s) := by
  unfold genNameFails
  rw [gen_checkname_canon]
  exact canon_name_sem s

/-! ## `QFrame.Len` -/

theorem canon_len_sem (q : GReq) : lenIn canonLen q = some (if q.hasErr then -1 else (q.rows : Int)) := by
  cases h : q.hasErr <;> simp [lenIn, canonLen, runInt, GCond.eval, GInt.eval, h]

/-- `qf.Len()` of today's source: -1 on a frame with an error, else the number of rows. -/
theorem gen_len_semantics (q : GReq) : genLen q = some (if q.hasErr then -1 else (q.rows : Int)) := by
  unfold genLen
  rw [gen_len_canon]
  exact canon_len_sem q

/-! ## The environment of today's guards -/

/-- what the spec says the two functions do -/
def specEnv : GEnv := ⟨fun s => some (!legalName s), fun q => some (if q.hasErr then -1 else (q.rows : Int))⟩

theorem genEnv_eq : envIn Gen.checkNameAst Gen.lenAst = specEnv := by
  unfold envIn specEnv
  congr 1
  · funext s; exact gen_checkname_semantics s
  · funext q; exact gen_len_semantics q

theorem genGuards_eq (op : String) (q : GReq) :
    genGuards op q = (canonGuards.lookup op).bind (fun ch => runGuards specEnv ch q) := by
  unfold genGuards guardsIn
  rw [genEnv_eq, gen_guards_canon]

/-! ## The meaning of the canonical chains, once and for all -/

theorem anyFires_total (p : Bytes → Bool) (l : List Bytes) : anyFires (fun x => some (p x)) l = some (l.any p) := by
  induction l with
  | nil => rfl
  | cons x xs ih =>
    simp only [anyFires, List.any_cons]
    cases p x <;> simp [ih]

def sliceOutcome (q : GReq) : GOut :=
  if q.hasErr then .returnSelf
  else if q.start < 0 ∨ q.stop < q.start ∨ (q.rows : Int) < q.stop then .err else .ok

def selectOutcome (q : GReq) : GOut :=
  if q.hasErr then .returnSelf
  else if q.columns.any (fun n => !q.known n) then .err else .ok

def dropOutcome (q : GReq) : GOut :=
  if q.hasErr || q.columns.isEmpty then .returnSelf
  else if q.columns.any (fun n => !q.known n) then .err else .ok

def copyOutcome (q : GReq) : GOut :=
  if q.hasErr then .returnSelf
  else if !q.known q.src then .err
  else if q.dst == q.src then .returnSelf
  else if !legalName q.dst then .err else .ok

/-- the order `New` works with: the requested one, or (none requested) the names of the data in some order -/
def effOrder (q : GReq) : List Bytes := if q.order.isEmpty then q.dataNames else q.order

def newOutcome (q : GReq) : GOut :=
  if q.dataNames.any (fun n => !legalName n) then .err
  else if (effOrder q).length != q.dataNames.length then .err
  else if (effOrder q).any (fun n => !q.dataNames.contains n) then .err else .ok

/-- one guard: the rest of the chain is looked at only if the condition is false -/
theorem guard_step (E : GEnv) (c : GCond) (o : GOut) (ss : List GStep) (q : GReq) (b : Bool)
    (h : c.eval E q none = some b) : runGuards E (.guard c o :: ss) q = if b then some o else runGuards E ss q := by
  cases b <;> simp [runGuards, h]

theorem forEach_step (E : GEnv) (coll : GColl) (c : GCond) (o : GOut) (ss : List GStep) (q : GReq) (p : Bytes → Bool)
    (h : ∀ x, c.eval E q (some x) = some (p x)) :
    runGuards E (.forEach coll c o :: ss) q = if (q.coll coll).any p then some o else runGuards E ss q := by
  have : (fun x => c.eval E q (some x)) = fun x => some (p x) := funext h
  simp only [runGuards, this, anyFires_total]
  cases (q.coll coll).any p <;> rfl

theorem some_ite {α : Type} (c : Prop) [Decidable c] (a b : α) :
    (if c then some a else some b) = some (if c then a else b) := by
  split <;> rfl

theorem defaultOrder_step (E : GEnv) (ss : List GStep) (q : GReq) :
    runGuards E (.defaultOrder :: ss) q =
      runGuards E ss { q with order := if q.order.isEmpty then q.dataNames else q.order } := rfl

theorem eval_hasErr (E : GEnv) (q : GReq) : GCond.qfHasErr.eval E q none = some q.hasErr := rfl

theorem eval_startLtZero (q : GReq) : GCond.startLtZero.eval specEnv q none = some (decide (q.start < 0)) := rfl

theorem eval_startGtEnd (q : GReq) : GCond.startGtEnd.eval specEnv q none = some (decide (q.stop < q.start)) := rfl

theorem eval_endGtLen (q : GReq) :
    GCond.endGtLen.eval specEnv q none = some (decide ((if q.hasErr then -1 else (q.rows : Int)) < q.stop)) := rfl

theorem eval_noColumns (E : GEnv) (q : GReq) : GCond.noColumns.eval E q none = some q.columns.isEmpty := by
  cases hc : q.columns with
  | nil => simp [GCond.eval, GInt.eval, GReq.coll, hc]
  | cons n t =>
    simp [GCond.eval, GInt.eval, GReq.coll, hc]
    omega

theorem eval_unknown_each (E : GEnv) (q : GReq) (x : Bytes) :
    (GCond.unknownColumn .each).eval E q (some x) = some (!q.known x) := rfl

theorem eval_unknown_src (E : GEnv) (q : GReq) : (GCond.unknownColumn .src).eval E q none = some (!q.known q.src) := rfl

theorem eval_sameName (E : GEnv) (q : GReq) : GCond.sameName.eval E q none = some (q.dst == q.src) := rfl

theorem eval_namecheck_dst (q : GReq) : (GCond.nameCheckFails .dst).eval specEnv q none = some (!legalName q.dst) := rfl

theorem eval_namecheck_each (q : GReq) (x : Bytes) :
    (GCond.nameCheckFails .each).eval specEnv q (some x) = some (!legalName x) := rfl

theorem eval_notInData_each (E : GEnv) (q : GReq) (x : Bytes) :
    (GCond.notInData .each).eval E q (some x) = some (!q.dataNames.contains x) := rfl

theorem eval_orderLenNe (E : GEnv) (q : GReq) :
    (GCond.not (.eqI (.count .order) (.count .dataKeys))).eval E q none = some (q.order.length != q.dataNames.length) := by
  simp only [GCond.eval, GInt.eval, GReq.coll, Option.map_some, Option.some.injEq]
  by_cases h : q.order.length = q.dataNames.length
  · simp [h]
  · have h1 : ((q.order.length : Int) == (q.dataNames.length : Int)) = false := beq_false_of_ne (by omega)
    have h2 : (q.order.length != q.dataNames.length) = true := by simp [h]
    rw [h1, h2]; rfl

theorem canon_slice_sem (q : GReq) : runGuards specEnv canonSlice q = some (sliceOutcome q) := by
  unfold canonSlice sliceOutcome
  rw [guard_step _ _ _ _ _ _ (eval_hasErr _ q), guard_step _ _ _ _ _ _ (eval_startLtZero q),
    guard_step _ _ _ _ _ _ (eval_startGtEnd q), guard_step _ _ _ _ _ _ (eval_endGtLen q)]
  cases h : q.hasErr
  · by_cases h1 : q.start < 0
    · simp [h1]
    · by_cases h2 : q.stop < q.start
      · simp [h1, h2]
      · by_cases h3 : (q.rows : Int) < q.stop <;> simp [h1, h2, h3, runGuards]
  · simp

theorem canon_select_sem (q : GReq) : runGuards specEnv canonSelect q = some (selectOutcome q) := by
  unfold canonSelect selectOutcome
  rw [guard_step _ _ _ _ _ _ (eval_hasErr _ q), forEach_step _ _ _ _ _ _ _ (eval_unknown_each _ q),
    guard_step _ _ _ _ _ _ (eval_noColumns _ q)]
  simp only [runGuards]
  simp only [some_ite, ite_self]
  rfl

theorem eval_or (E : GEnv) (q : GReq) (c d : GCond) (a b : Bool) (hc : c.eval E q none = some a)
    (hd : d.eval E q none = some b) : (GCond.or c d).eval E q none = some (a || b) := by
  simp [GCond.eval, hc, hd]

theorem canon_drop_sem (q : GReq) : runGuards specEnv canonDrop q = some (dropOutcome q) := by
  unfold canonDrop dropOutcome
  rw [guard_step _ _ _ _ _ _ (eval_or _ q _ _ _ _ (eval_hasErr _ q) (eval_noColumns _ q)),
    forEach_step _ _ _ _ _ _ _ (eval_unknown_each _ q)]
  simp only [runGuards]
  simp only [some_ite]
  rfl

theorem canon_copy_sem (q : GReq) : runGuards specEnv canonCopy q = some (copyOutcome q) := by
  unfold canonCopy copyOutcome
  rw [guard_step _ _ _ _ _ _ (eval_hasErr _ q), guard_step _ _ _ _ _ _ (eval_unknown_src _ q),
    guard_step _ _ _ _ _ _ (eval_sameName _ q), guard_step _ _ _ _ _ _ (eval_namecheck_dst q)]
  simp only [runGuards]
  simp only [some_ite]

theorem canon_new_sem (q : GReq) : runGuards specEnv canonNew q = some (newOutcome q) := by
  unfold canonNew newOutcome
  rw [forEach_step _ _ _ _ _ _ _ (eval_namecheck_each q), defaultOrder_step,
    guard_step _ _ _ _ _ _ (eval_orderLenNe _ _), forEach_step _ _ _ _ _ _ _ (eval_notInData_each _ _)]
  simp only [runGuards]
  simp only [some_ite]
  rfl

/-! ## Today's chains, on ALL requests -/

theorem gen_slice_outcome (q : GReq) : genGuards "Slice" q = some (sliceOutcome q) := by
  rw [genGuards_eq]; exact canon_slice_sem q

theorem gen_select_outcome (q : GReq) : genGuards "Select" q = some (selectOutcome q) := by
  rw [genGuards_eq]; exact canon_select_sem q

theorem gen_drop_outcome (q : GReq) : genGuards "Drop" q = some (dropOutcome q) := by
  rw [genGuards_eq]; exact canon_drop_sem q

theorem gen_copy_outcome (q : GReq) : genGuards "Copy" q = some (copyOutcome q) := by
  rw [genGuards_eq]; exact canon_copy_sem q

theorem gen_new_outcome (q : GReq) : genGuards "New" q = some (newOutcome q) := by
  rw [genGuards_eq]; exact canon_new_sem q

/-! ## Against the spec -/

/-- what the guards see of a frame without error -/
def frameReq (f : LFrame) : GReq := { hasErr := false, rows := f.n, known := f.has }

def sliceReq (f : LFrame) (a b : Int) : GReq := { frameReq f with start := a, stop := b }
def namesReq (f : LFrame) (names : List Bytes) : GReq := { frameReq f with columns := names }
def copyReq (f : LFrame) (dst src : Bytes) : GReq := { frameReq f with dst := dst, src := src }

theorem any_unknown_iff (f : LFrame) (names : List Bytes) :
    names.any (fun n => !f.has n) = true ↔ ∃ n ∈ names, f.has n = false := by
  simp

theorem ite_err_ok (c : Prop) [Decidable c] : (if c then GOut.err else GOut.ok) = GOut.err ↔ c := by
  by_cases h : c <;> simp [h]

theorem sliceOutcome_err_iff (f : LFrame) (a b : Int) :
    sliceOutcome (sliceReq f a b) = .err ↔ a < 0 ∨ a > b ∨ b > f.n := by
  have e : sliceOutcome (sliceReq f a b) = if a < 0 ∨ b < a ∨ (f.n : Int) < b then GOut.err else GOut.ok := rfl
  rw [e, ite_err_ok]

theorem selectOutcome_err_iff (f : LFrame) (names : List Bytes) :
    selectOutcome (namesReq f names) = .err ↔ ∃ n ∈ names, f.has n = false := by
  have e : selectOutcome (namesReq f names) = if names.any (fun n => !f.has n) then GOut.err else GOut.ok := rfl
  rw [e, ite_err_ok, any_unknown_iff]

theorem dropOutcome_eq (f : LFrame) (names : List Bytes) :
    dropOutcome (namesReq f names) =
      if names.isEmpty then GOut.returnSelf else if names.any (fun n => !f.has n) then GOut.err else GOut.ok := by
  have e : dropOutcome (namesReq f names) =
      if false || names.isEmpty then GOut.returnSelf else if names.any (fun n => !f.has n) then GOut.err else GOut.ok := rfl
  rw [e, Bool.false_or]

theorem dropOutcome_err_iff (f : LFrame) (names : List Bytes) :
    dropOutcome (namesReq f names) = .err ↔ ∃ n ∈ names, f.has n = false := by
  rw [dropOutcome_eq, ← any_unknown_iff]
  cases names with
  | nil => simp
  | cons n t =>
    have : (n :: t).isEmpty = false := rfl
    rw [this]
    simp only [Bool.false_eq_true, if_false]
    exact ite_err_ok _

theorem copyOutcome_eq (f : LFrame) (dst src : Bytes) :
    copyOutcome (copyReq f dst src) =
      if !f.has src then GOut.err else if dst == src then GOut.returnSelf else if !legalName dst then GOut.err else GOut.ok :=
  rfl

theorem copyOutcome_err_iff (f : LFrame) (dst src : Bytes) :
    copyOutcome (copyReq f dst src) = .err ↔ f.has src = false ∨ (dst ≠ src ∧ legalName dst = false) := by
  rw [copyOutcome_eq]
  cases hk : f.has src
  · simp
  · by_cases hd : dst = src
    · simp [hd]
    · have : (dst == src) = false := beq_false_of_ne hd
      cases hl : legalName dst <;> simp [this, hd]

theorem gen_slice_err_iff (f : LFrame) (a b : Int) :
    genGuards "Slice" (sliceReq f a b) = some .err ↔ sliceS f a b = .err := by
  rw [gen_slice_outcome, C10Sticky.sliceS_err_iff, Option.some.injEq]
  exact sliceOutcome_err_iff f a b

theorem gen_select_err_iff (f : LFrame) (names : List Bytes) :
    genGuards "Select" (namesReq f names) = some .err ↔ selectS f names = .err := by
  rw [gen_select_outcome, C10Sticky.selectS_err_iff, Option.some.injEq]
  exact selectOutcome_err_iff f names

theorem gen_drop_err_iff (f : LFrame) (names : List Bytes) :
    genGuards "Drop" (namesReq f names) = some .err ↔ dropS f names = .err := by
  rw [gen_drop_outcome, C10Sticky.dropS_err_iff, Option.some.injEq]
  exact dropOutcome_err_iff f names

theorem gen_copy_err_iff (f : LFrame) (dst src : Bytes) :
    genGuards "Copy" (copyReq f dst src) = some .err ↔ copyS f dst src = .err := by
  rw [gen_copy_outcome, C10Sticky.copyS_err_iff, Option.some.injEq]
  exact copyOutcome_err_iff f dst src

/-- **The projections of today's source reject exactly the invalid requests.** For every frame `f` without error and ALL
arguments, the guard chain extracted from `Slice` / `Select` / `Drop` / `Copy` has an outcome, and that outcome is `err` iff
the spec function returns `.err`:
`Slice(a, b)` iff `a < 0 ∨ a > b ∨ b > f.n`; `Select(names)` / `Drop(names)` iff some name is not a column of `f`;
`Copy(dst, src)` iff `src` is not a column of `f`, or `dst ≠ src` and `dst` is not a legal name. -/
theorem gen_guards_semantics (f : LFrame) :
    (∀ a b, ∃ o, genGuards "Slice" (sliceReq f a b) = some o ∧ (o = .err ↔ sliceS f a b = .err)) ∧
    (∀ names, ∃ o, genGuards "Select" (namesReq f names) = some o ∧ (o = .err ↔ selectS f names = .err)) ∧
    (∀ names, ∃ o, genGuards "Drop" (namesReq f names) = some o ∧ (o = .err ↔ dropS f names = .err)) ∧
    (∀ dst src, ∃ o, genGuards "Copy" (copyReq f dst src) = some o ∧ (o = .err ↔ copyS f dst src = .err)) := by
  refine ⟨fun a b => ⟨_, gen_slice_outcome _, ?_⟩, fun names => ⟨_, gen_select_outcome _, ?_⟩,
    fun names => ⟨_, gen_drop_outcome _, ?_⟩, fun dst src => ⟨_, gen_copy_outcome _, ?_⟩⟩
  · rw [← gen_slice_err_iff, gen_slice_outcome]; simp
  · rw [← gen_select_err_iff, gen_select_outcome]; simp
  · rw [← gen_drop_err_iff, gen_drop_outcome]; simp
  · rw [← gen_copy_err_iff, gen_copy_outcome]; simp

/-- … spelled out through the `_err_iff` theorems of C10Sticky. -/
theorem gen_guards_reject_iff (f : LFrame) :
    (∀ a b, genGuards "Slice" (sliceReq f a b) = some .err ↔ a < 0 ∨ a > b ∨ b > f.n) ∧
    (∀ names, genGuards "Select" (namesReq f names) = some .err ↔ ∃ n ∈ names, f.has n = false) ∧
    (∀ names, genGuards "Drop" (namesReq f names) = some .err ↔ ∃ n ∈ names, f.has n = false) ∧
    (∀ dst src, genGuards "Copy" (copyReq f dst src) = some .err ↔
      f.has src = false ∨ (dst ≠ src ∧ legalName dst = false)) :=
  ⟨fun a b => (gen_slice_err_iff f a b).trans (C10Sticky.sliceS_err_iff f a b),
   fun names => (gen_select_err_iff f names).trans (C10Sticky.selectS_err_iff f names),
   fun names => (gen_drop_err_iff f names).trans (C10Sticky.dropS_err_iff f names),
   fun dst src => (gen_copy_err_iff f dst src).trans (C10Sticky.copyS_err_iff f dst src)⟩

/-- **Errors are sticky.** On a frame that already carries an error, `Slice`, `Select`, `Drop` and `Copy` of today's source
return the frame itself (`return qf`: same columns, same index, same error), whatever the arguments are. -/
theorem gen_guards_sticky (q : GReq) (h : q.hasErr = true) :
    ∀ op ∈ ["Slice", "Select", "Drop", "Copy"], genGuards op q = some .returnSelf := by
  intro op hop
  simp only [List.mem_cons, List.mem_nil_iff, or_false] at hop
  rcases hop with rfl | rfl | rfl | rfl
  · rw [gen_slice_outcome]; simp [sliceOutcome, h]
  · rw [gen_select_outcome]; simp [selectOutcome, h]
  · rw [gen_drop_outcome]; simp [dropOutcome, h]
  · rw [gen_copy_outcome]; simp [copyOutcome, h]

/-- Where a chain returns the frame itself although it has no error — `Drop()` of no columns, `Copy(c, c)` of an existing
column — the spec returns `.ok f`; `Slice` and `Select` never do. -/
theorem gen_guards_self (f : LFrame) :
    (∀ a b, genGuards "Slice" (sliceReq f a b) ≠ some .returnSelf) ∧
    (∀ names, genGuards "Select" (namesReq f names) ≠ some .returnSelf) ∧
    (∀ names, genGuards "Drop" (namesReq f names) = some .returnSelf → dropS f names = .ok f) ∧
    (∀ dst src, genGuards "Copy" (copyReq f dst src) = some .returnSelf → copyS f dst src = .ok f) := by
  refine ⟨fun a b => ?_, fun names => ?_, fun names => ?_, fun dst src => ?_⟩
  · rw [gen_slice_outcome]
    have e : sliceOutcome (sliceReq f a b) = if a < 0 ∨ b < a ∨ (f.n : Int) < b then GOut.err else GOut.ok := rfl
    rw [e]
    by_cases h : a < 0 ∨ b < a ∨ (f.n : Int) < b <;> simp [h]
  · rw [gen_select_outcome]
    have e : selectOutcome (namesReq f names) = if names.any (fun n => !f.has n) then GOut.err else GOut.ok := rfl
    rw [e]
    cases h : names.any (fun n => !f.has n) <;> simp
  · rw [gen_drop_outcome, dropOutcome_eq]
    cases names with
    | nil => simp [dropS]
    | cons n t =>
      have : (n :: t).isEmpty = false := rfl
      rw [this]
      cases h : (n :: t).any (fun n => !f.has n) <;> simp
  · rw [gen_copy_outcome, copyOutcome_eq]
    intro h
    cases hk : f.has src
    · simp [hk] at h
    · by_cases hd : dst = src
      · subst hd
        unfold LFrame.has at hk
        cases hf : f.find? dst with
        | none => simp [hf] at hk
        | some c => simp [copyS, hf]
      · have hb : (dst == src) = false := beq_false_of_ne hd
        cases hl : legalName dst <;> simp [hk, hb, hl] at h

/-! ## `New` (partial) -/

def newReq (cols : List NewCol) (order : List Bytes) : GReq := { dataNames := cols.map (·.name), order := order }

theorem insertSorted_length (x : Bytes) (l : List Bytes) : (insertSorted x l).length = l.length + 1 := by
  induction l with
  | nil => rfl
  | cons y ys ih =>
    unfold insertSorted
    split
    · rfl
    · simp [ih]

theorem insertSorted_mem (x n : Bytes) (l : List Bytes) : n ∈ insertSorted x l ↔ n = x ∨ n ∈ l := by
  induction l with
  | nil => simp [insertSorted]
  | cons y ys ih =>
    unfold insertSorted
    split
    · simp
    · simp only [List.mem_cons, ih]
      constructor
      · rintro (h | h | h)
        · exact .inr (.inl h)
        · exact .inl h
        · exact .inr (.inr h)
      · rintro (h | h | h)
        · exact .inr (.inl h)
        · exact .inl h
        · exact .inr (.inr h)

theorem sortNames_length (l : List Bytes) : (sortNames l).length = l.length := by
  induction l with
  | nil => rfl
  | cons x xs ih =>
    have : sortNames (x :: xs) = insertSorted x (sortNames xs) := rfl
    rw [this, insertSorted_length, ih]; rfl

theorem sortNames_mem (n : Bytes) (l : List Bytes) : n ∈ sortNames l ↔ n ∈ l := by
  induction l with
  | nil => simp [sortNames]
  | cons x xs ih =>
    have : sortNames (x :: xs) = insertSorted x (sortNames xs) := rfl
    rw [this, insertSorted_mem, ih]; simp

/-- the order the spec's `newS` works with -/
def specOrder (cols : List NewCol) (order : List Bytes) : List Bytes :=
  if order.isEmpty then sortNames (cols.map (·.name)) else order

/-- the first three checks of `newS` -/
def newPrefixRejects (cols : List NewCol) (order : List Bytes) : Prop :=
  cols.all (fun c => legalName c.name) = false ∨
  (specOrder cols order).length ≠ cols.length ∨
  (specOrder cols order).all (fun n => cols.any (·.name == n)) = false

theorem contains_names (cols : List NewCol) (n : Bytes) :
    (cols.map (·.name)).contains n = cols.any (·.name == n) := by
  rw [Bool.eq_iff_iff, List.contains_iff_mem, List.any_eq_true, List.mem_map]
  constructor
  · rintro ⟨c, hc, rfl⟩; exact ⟨c, hc, beq_self_eq_true _⟩
  · rintro ⟨c, hc, h⟩; exact ⟨c, hc, eq_of_beq h⟩

theorem any_illegal (cols : List NewCol) :
    ((cols.map (·.name)).any fun n => !legalName n) = !(cols.all fun c => legalName c.name) := by
  induction cols with
  | nil => rfl
  | cons c cs ih => simp only [List.map_cons, List.any_cons, List.all_cons, ih, Bool.not_and]

theorem any_missing (cols : List NewCol) (l : List Bytes) :
    (l.any fun n => !(cols.map (·.name)).contains n) = !(l.all fun n => cols.any (·.name == n)) := by
  induction l with
  | nil => rfl
  | cons o os ih => rw [List.any_cons, List.all_cons, Bool.not_and, ih, contains_names]

theorem newOutcome_err_iff (cols : List NewCol) (order : List Bytes) :
    newOutcome (newReq cols order) = .err ↔ newPrefixRejects cols order := by
  have e : newOutcome (newReq cols order) =
      if (cols.map (·.name)).any (fun n => !legalName n) then GOut.err
      else if (effOrder (newReq cols order)).length != (cols.map (·.name)).length then GOut.err
      else if (effOrder (newReq cols order)).any (fun n => !(cols.map (·.name)).contains n) then GOut.err
      else GOut.ok := rfl
  rw [e, any_illegal, any_missing, List.length_map]
  unfold newPrefixRejects
  cases ho : order.isEmpty
  · -- an order was requested
    have e1 : effOrder (newReq cols order) = order := by simp [effOrder, newReq, ho]
    have e2 : specOrder cols order = order := by simp [specOrder, ho]
    rw [e1, e2]
    cases h1 : cols.all fun c => legalName c.name
    · simp
    · by_cases h2 : order.length = cols.length
      · cases h3 : order.all fun n => cols.any (·.name == n) <;> simp [h2]
      · simp [h2]
  · -- the default order: the names themselves / the sorted names
    have e1 : effOrder (newReq cols order) = cols.map (·.name) := by simp [effOrder, newReq, ho]
    have e2 : specOrder cols order = sortNames (cols.map (·.name)) := by simp [specOrder, ho]
    rw [e1, e2, sortNames_length, List.length_map]
    have h4 : ((cols.map (·.name)).all fun n => cols.any (·.name == n)) = true := by
      rw [List.all_eq_true]
      intro n hn
      rw [← contains_names]
      exact List.contains_iff_mem.mpr hn
    have h5 : (sortNames (cols.map (·.name))).all (fun n => cols.any (·.name == n)) = true := by
      rw [List.all_eq_true]
      intro n hn
      rw [← contains_names]
      exact List.contains_iff_mem.mpr ((sortNames_mem n _).1 hn)
    rw [h4, h5]
    cases h1 : cols.all fun c => legalName c.name <;> simp

/-- the first three checks of `newS` are its first three `if`s -/
theorem newS_prefix (cols : List NewCol) (order : List Bytes) (enums : List (Bytes × List Bytes))
    (h : newPrefixRejects cols order) : newS cols order enums = .err := by
  unfold newPrefixRejects specOrder at h
  unfold newS
  cases h1 : cols.all fun c => legalName c.name
  · simp only [Bool.not_false, ↓reduceIte]
  · simp only [Bool.not_true, Bool.false_eq_true, ↓reduceIte]
    rcases h with h | h | h
    · rw [h1] at h; cases h
    · have h' := bne_iff_ne.mpr h
      simp only [h', ↓reduceIte]
    · by_cases h2 : (if order.isEmpty then sortNames (cols.map (·.name)) else order).length = cols.length
      · simp only [h2, bne_self_eq_false, Bool.false_eq_true, ↓reduceIte, h, Bool.not_false]
      · have h' := bne_iff_ne.mpr h2
        simp only [h', ↓reduceIte]

/-- **`New`'s guard prefix (partial).** The chain extracted from `New` up to the creation of the columns rejects iff one of
the first three checks of the spec's `newS` does — a name that is not legal; a column order whose length differs from the
number of columns; a column order that names a column that is not there — and then `newS` returns `.err`. PARTIAL: the
checks `New` makes while and after it creates the columns (unsupported data, different lengths, enum declarations) are
not part of the chain (`gen_guards_complete`: three later error returns). -/
theorem gen_new_guards_partial (cols : List NewCol) (order : List Bytes) (enums : List (Bytes × List Bytes)) :
    (genGuards "New" (newReq cols order) = some .err ↔ newPrefixRejects cols order) ∧
    (genGuards "New" (newReq cols order) = some .err → newS cols order enums = .err) := by
  have h : genGuards "New" (newReq cols order) = some .err ↔ newPrefixRejects cols order := by
    rw [gen_new_outcome, Option.some.injEq]; exact newOutcome_err_iff cols order
  exact ⟨h, fun he => newS_prefix cols order enums (h.1 he)⟩

/-! ## Witnesses: the statement tells wrong guards apart -/

section Witnesses

private def fr : LFrame :=
  { cols := [{ name := [120], ty := .int, cells := #[.int 1, .int 2, .int 3] }], n := 3 }

/-- `Slice` with the last bound weakened to `end >= qf.Len()` (what the translator emits for it: `le len stop`) -/
def sliceGe : List GStep := [
  .guard .qfHasErr .returnSelf,
  .guard .startLtZero .err,
  .guard .startGtEnd .err,
  .guard (.le .len .stop) .err]

/-- … rejects the valid request `Slice(1, 3)` on a frame of three rows, which the spec accepts: no longer "iff". -/
example : runGuards specEnv sliceGe (sliceReq fr 1 3) = some .err ∧ ¬ (sliceS fr 1 3 = .err) :=
  ⟨by decide, fun h => absurd ((C10Sticky.sliceS_err_iff fr 1 3).1 h) (by decide)⟩

/-- `Slice` with `start > end` turned into `start >= end` rejects the empty slice `Slice(2, 2)`. -/
def sliceStartGe : List GStep := [
  .guard .qfHasErr .returnSelf,
  .guard .startLtZero .err,
  .guard (.le .stop .start) .err,
  .guard .endGtLen .err]

example : runGuards specEnv sliceStartGe (sliceReq fr 2 2) = some .err ∧ ¬ (sliceS fr 2 2 = .err) :=
  ⟨by decide, fun h => absurd ((C10Sticky.sliceS_err_iff fr 2 2).1 h) (by decide)⟩

/-- `Drop` without the loop over the requested names -/
def dropNoCheck : List GStep := [.guard (.or .qfHasErr .noColumns) .returnSelf]

/-- … accepts `Drop("q")` on a frame without such a column, which the spec rejects. -/
example : runGuards specEnv dropNoCheck (namesReq fr [[113]]) = some .ok ∧ dropS fr [[113]] = .err :=
  ⟨by decide, (C10Sticky.dropS_err_iff fr _).2 ⟨[113], by decide, by decide⟩⟩

/-- `Slice` without the test of `qf.Err`: on a frame with an error `qf.Len()` is -1, so the request is answered with a
NEW error (or, for `Slice(0, -1)`, runs into the real work) instead of the frame itself — not sticky. -/
def sliceNoErrCheck : List GStep := [.guard .startLtZero .err, .guard .startGtEnd .err, .guard .endGtLen .err]

example : runGuards specEnv sliceNoErrCheck { hasErr := true, rows := 3, start := 0, stop := 2 } = some .err := by decide

/-- A name check that forgets the length test of `isQuoted` rejects the two-byte name `''`, which is legal. -/
def checkNameNoLen : List NStep := [
  .reject (.eqI .len (.lit 0)),
  .reject (.or (.and (.hasPrefix [39]) (.hasSuffix [39])) (.and (.hasPrefix [34]) (.hasSuffix [34]))),
  .reject (.hasPrefix [36]),
  .accept]

example : runName checkNameNoLen [39, 39] = some true ∧ legalName [39, 39] = true := by decide

end Witnesses

#print axioms gen_guards_no_opaque
#print axioms gen_guards_complete
#print axioms gen_checkname_semantics
#print axioms gen_len_semantics
#print axioms gen_guards_semantics
#print axioms gen_guards_reject_iff
#print axioms gen_guards_sticky
#print axioms gen_guards_self
#print axioms gen_new_guards_partial

end QF.Props.C08Guards
