import QF.Props.C04Aggregations
import QF.Props.C06LoopsGen
/-!
# C04 — the group loops of Aggregate in today's source hand each group's cells, in order, to the function (tie T1)

`QF.Gen.aggregateAst`, `QF.Gen.subsetAst` and `QF.Gen.grouperTailAst` (QF/Gen/Loops.lean, regenerated on every run by
go/cmd/extract/last.go) hold, as terms of QF/Core/LExpr.lean (part B), `Column.Aggregate` and what `Column.Subset` returns
for each of the five column packages, and `Grouper.Aggregate` of /repo/grouper.go after its guards. The helpers between the
column and the aggregation function (`subsetWithBuf`, `stringSlice`, `stringAt`, `subset`) are executed symbolically by
the translator, with the callee's body inlined, whatever they are called; what is left is how the slice handed to the
function is made: how it starts (empty / of the group's length), how an element gets into it (appended / stored at the
position), which cell it is made of (the receiver's cell at the ROW, converted to the function's argument type).

Proved here, over the data generated TODAY:

* `gen_aggregate_no_opaque`        — everything was translated completely
* `gen_aggregate_canon`, `gen_subset_canon`, `gen_grouper_tail_canon` — today's terms ARE the canonical ones (finite `decide`)
* `canonAgg_run`                   — on PHYSICAL data, for every column type, every list of groups of rows and every function
                                     value: a `func([]T) T` on the element type (or a name of the package's `aggregations` map)
                                     is handed exactly the cells of the group's rows in the group's order, one result per
                                     group in group order; everything else is an error (`expectAgg`)
* `gen_aggregate_loops_semantics`  — for the frame whose index is `ix0`, ALL well-typed column contents, all lists of
                                     non-empty groups and every aggregation of the catalogue but `"count"`: today's
                                     `Column.Aggregate` returns the column `groupAggS` builds with `aggApply` — with the
                                     built-ins regenerated as `Gen.aggAst` (C04Aggregations.gen_agg_semantics) —, and an
                                     error exactly where `aggApply` is undefined
* `gen_first_rows`, `gen_subset_semantics`, `gen_subset_string` — the index of first rows; `Subset(index)` = the cells at the
                                     rows of the index, in order (int, float, bool, enum: an array of values, the enum
                                     keeping its value table and strictness; string: new pointers into a new byte blob,
                                     for every blob whose pointers stay inside it)
* `gen_key_columns_semantics`, `gen_key_columns_semantics_string` — the key column of the result holds, for every group, the
                                     key cell of the group's first row — the column `groupAggS` builds —, is stored at the
                                     position of its name among the grouped columns; the aggregations get the grouper's
                                     groups; the result's index is ascending over the number of groups

Witnesses at the end: a buffer of the group's length with the values appended (2n elements), the values taken at the
positions instead of the rows, the second row as key, an offset that is not advanced — each gives a different result.

Method as in C04Aggregations / C06LoopsGen. `"count"` is answered by `Grouper.Aggregate` itself
(`C04Aggregations.gen_agg_count`, `AE.len`). The packing of `qfstrings.Pointer` is not modelled here (a pointer IS the
triple offset / length / null flag; `pointer_roundtrip` of C08).
-/
namespace QF.Props.C04LoopsGen
open QF QF.Props.C02Kernels QF.Props.C06LoopsGen
open QF.Props.C04Aggregations (specNames entriesOf genAgg)

/-! ## Today's terms -/

def missingG : LGFn := { cases := [], dflt := .opaque "missing" }
def aggregateOf (ty : CType) : LGFn := (Gen.aggregateAst.lookup (pkgOf ty)).getD missingG
def subsetOf (ty : CType) : LGSub := (Gen.subsetAst.lookup (pkgOf ty)).getD (.opaque "missing")

theorem gen_aggregate_no_opaque :
    (∀ e ∈ Gen.aggregateAst, e.2.hasOpaque = false) ∧ (∀ e ∈ Gen.subsetAst, e.2.hasOpaque = false) ∧
    Gen.grouperTailAst.hasOpaque = false ∧
    Gen.aggregateAst.map (·.1) = tys.map pkgOf ∧ Gen.subsetAst.map (·.1) = tys.map pkgOf := by decide

/-! ## Canonical terms -/

/-- the slice handed to the aggregation function: the cells of the group's rows, in order. The string package fills an
array of the group's length by position (`stringSlice`), the others append to an empty one (`subsetWithBuf`,
`stringSlice` of ecolumn). -/
def sliceOf : CType → LGSlice
  | .string => { init := .full, write := .setAt .pos, i := .row, acc := accOf .string }
  | ty => { init := .empty, write := .append, i := .row, acc := accOf ty }

/-- the column types with built-in aggregations -/
def numeric : CType → Bool
  | .int | .float | .bool => true
  | _ => false

def canonAgg (ty : CType) : LGFn :=
  { cases := [(LSig.str, if numeric ty then LGCase.agg (.builtin (specNames ty)) .empty .append (sliceOf ty) .ownCol else .err),
              (LSig.aggFn (fkind ty) (fkind ty), LGCase.agg .user .empty .append (sliceOf ty) (ret2 ty))]
    dflt := .err }

/-- the string column: `pointers[i] = NewPointer(offset, p.Len(), p.IsNull())` for every row, and for the non-null ones
`data = append(data, c.data[p.Offset():p.Offset()+p.Len()]...); offset += p.Len()` -/
def canonBlob : LBlob :=
  { ptrInit := .full, dataInit := .empty, offInit := 0, cellAt := .row
    body := [(.always, .setPtr .pos .running .cellLen .cellNull), (.notNull, .appendBytes .cellOff .cellLen),
             (.notNull, .advance .cellLen)] }

def canonSub : CType → LGSub
  | .string => .blob canonBlob
  | .enum => .cells { init := .empty, write := .append, i := .row, acc := .entry } ["strict", "values"]
  | _ => .cells { init := .full, write := .setAt .pos, i := .row, acc := .entry } []

def canonTail : LGTail :=
  { firstInit := .full, firstWrite := .setAt .pos, firstRow := some 0, key := .subsetOfFirst,
    aggPassesGroups := true, indexAscending := true }

theorem gen_aggregate_canon : ∀ ty ∈ tys, aggregateOf ty = canonAgg ty := by decide
theorem gen_subset_canon : ∀ ty ∈ tys, subsetOf ty = canonSub ty := by decide
theorem gen_grouper_tail_canon : Gen.grouperTailAst = canonTail := by decide

/-! ## Arrays built in one loop -/

/-- the items of a loop: positions `k, k+1, …`, the rows, the values -/
def itemsFrom {α : Type} (v : Nat → α) : Nat → List Nat → List (Nat × Nat × α)
  | _, [] => []
  | k, r :: rs => (k, r, v r) :: itemsFrom v (k + 1) rs

/-- the positions of the items are `k, k+1, …` -/
def posOk {α : Type} : Nat → List (Nat × Nat × α) → Prop
  | _, [] => True
  | k, it :: rest => it.1 = k ∧ posOk (k + 1) rest

theorem itemsFrom_vals {α : Type} (v : Nat → α) (k : Nat) (rows : List Nat) :
    (itemsFrom v k rows).map (·.2.2) = rows.map v := by
  induction rows generalizing k with
  | nil => rfl
  | cons r rs ih => simp [itemsFrom, ih]

theorem itemsFrom_pos {α : Type} (v : Nat → α) (k : Nat) (rows : List Nat) : posOk k (itemsFrom v k rows) := by
  induction rows generalizing k with
  | nil => trivial
  | cons r rs ih => exact ⟨rfl, ih (k + 1)⟩

theorem writeAll_append {α : Type} (items : List (Nat × Nat × α)) (l : List α) :
    lgWriteAll .append items l = .ok (l ++ items.map (·.2.2)) := by
  induction items generalizing l with
  | nil => simp [lgWriteAll]
  | cons it rest ih => simp [lgWriteAll, ih]

theorem writeAll_setPos {α : Type} (z : α) (items : List (Nat × Nat × α)) (done : List α) (h : posOk done.length items) :
    lgWriteAll (.setAt .pos) items (done ++ List.replicate items.length z) = .ok (done ++ items.map (·.2.2)) := by
  induction items generalizing done with
  | nil => simp [lgWriteAll]
  | cons it rest ih =>
    obtain ⟨hp, hr⟩ := h
    have hlt : it.1 < (done ++ List.replicate (rest.length + 1) z).length := by simp [hp]
    have hset : (done ++ List.replicate (rest.length + 1) z).set it.1 it.2.2 =
        (done ++ [it.2.2]) ++ List.replicate rest.length z := by
      rw [hp, List.replicate_succ]
      simp
    simp only [lgWriteAll, LIdx.of, List.length_cons, hlt, ↓reduceIte, hset, List.map_cons]
    rw [ih (done ++ [it.2.2]) (by simpa using hr)]
    simp

/-- the two ways today's source fills an array give the values in loop order -/
theorem buildArr_vals {α : Type} (z : α) (init : LGInit) (write : LGWrite) (items : List (Nat × Nat × α))
    (hsh : (init = .empty ∧ write = .append) ∨ (init = .full ∧ write = .setAt .pos)) (hp : posOk 0 items) :
    buildArr z init write items = .ok (items.map (·.2.2)) := by
  rcases hsh with ⟨rfl, rfl⟩ | ⟨rfl, rfl⟩
  · simp [buildArr, writeAll_append]
  · have := writeAll_setPos z items [] (by simpa using hp)
    simpa [buildArr] using this

/-! ## The slice of one group -/

theorem sliceItems_rows (P : PCol) (s : LGSlice) (hi : s.i = .row)
    (hacc : ∀ x ∈ P.cells, s.acc.eval P.ty P.vals x = some x) (k : Nat) (rows : List Nat)
    (hrows : ∀ r ∈ rows, r < P.cells.length) :
    sliceItems P s k rows = some (itemsFrom (fun r => P.cells[r]!) k rows) := by
  induction rows generalizing k with
  | nil => rfl
  | cons r rs ih =>
    have hr : r < P.cells.length := hrows r List.mem_cons_self
    have hx : P.cells[r]? = some (P.cells[r]!) := by simp [hr]
    have hm : P.cells[r]! ∈ P.cells := by
      have : P.cells[r]! = P.cells[r] := by simp [hr]
      rw [this]; exact List.getElem_mem hr
    simp only [sliceItems, hi, LIdx.of, hx, hacc _ hm, ih (k + 1) (fun r' h' => hrows r' (List.mem_cons_of_mem _ h')),
      Option.map_some, itemsFrom]

/-- **the slice handed to the function holds the cells of the group's rows, in the group's order** -/
theorem slice_run (P : PCol) (z : Cell) (s : LGSlice) (hi : s.i = .row)
    (hacc : ∀ x ∈ P.cells, s.acc.eval P.ty P.vals x = some x)
    (hsh : (s.init = .empty ∧ s.write = .append) ∨ (s.init = .full ∧ s.write = .setAt .pos))
    (grp : List Nat) (hrows : ∀ r ∈ grp, r < P.cells.length) :
    s.run P z grp = .ok (grp.map (fun r => P.cells[r]!)) := by
  simp only [LGSlice.run, sliceItems_rows P s hi hacc 0 grp hrows]
  rw [buildArr_vals z s.init s.write _ hsh (itemsFrom_pos _ 0 grp), itemsFrom_vals]

theorem sliceOf_ok (P : PCol) (hok : ColOk P) :
    (sliceOf P.ty).i = .row ∧ (∀ x ∈ P.cells, (sliceOf P.ty).acc.eval P.ty P.vals x = some x) ∧
    (((sliceOf P.ty).init = .empty ∧ (sliceOf P.ty).write = .append) ∨
      ((sliceOf P.ty).init = .full ∧ (sliceOf P.ty).write = .setAt .pos)) := by
  have hacc : ∀ x ∈ P.cells, (accOf P.ty).eval P.ty P.vals x = some x := fun x hx => accOf_eval _ hok.1 _ _ (hok.2 x hx)
  cases hp : P.ty <;> simp only [hp] at hacc <;> simp [sliceOf] <;> exact hacc

/-! ## One value per group -/

/-- the cells of a group, in the group's order -/
def cellsOf (P : PCol) (grp : List Nat) : List Cell := grp.map (fun r => P.cells[r]!)

/-- the function on every group, in group order; `none`: it panics on one of them -/
def allVals (F : List Cell → Option Cell) (P : PCol) : List (List Nat) → Option (List Cell)
  | [] => some []
  | g :: gs =>
    match F (cellsOf P g) with
    | none => none
    | some v => (allVals F P gs).map (v :: ·)

/-- (group number, group number, value) from `k` on -/
def numbered : Nat → List Cell → List (Nat × Nat × Cell)
  | _, [] => []
  | k, v :: vs => (k, k, v) :: numbered (k + 1) vs

theorem numbered_vals (k : Nat) (vs : List Cell) : (numbered k vs).map (·.2.2) = vs := by
  induction vs generalizing k with
  | nil => rfl
  | cons v vs ih => simp [numbered, ih]

theorem numbered_pos (k : Nat) (vs : List Cell) : posOk k (numbered k vs) := by
  induction vs generalizing k with
  | nil => trivial
  | cons v vs ih => exact ⟨rfl, ih (k + 1)⟩

theorem aggVals_eq (F : List Cell → Option Cell) (s : LGSlice) (P : PCol) (z : Cell) (k : Nat) (groups : List (List Nat))
    (hs : ∀ g ∈ groups, s.run P z g = .ok (cellsOf P g)) :
    aggVals F s P z k groups =
      match allVals F P groups with
      | some vs => .ok (numbered k vs)
      | none => .panic := by
  induction groups generalizing k with
  | nil => rfl
  | cons g gs ih =>
    simp only [aggVals, hs g List.mem_cons_self, allVals]
    cases hF : F (cellsOf P g) with
    | none => rfl
    | some v =>
      simp only [ih (k + 1) (fun g' h' => hs g' (List.mem_cons_of_mem _ h'))]
      cases allVals F P gs <;> rfl

theorem allVals_total (g : List Cell → Cell) (P : PCol) (groups : List (List Nat)) :
    allVals (fun l => some (g l)) P groups = some (groups.map (fun grp => g (cellsOf P grp))) := by
  induction groups with
  | nil => rfl
  | cons x xs ih => simp [allVals, ih]

/-- a canonical case: the values of all groups in group order, or a panic of the function -/
theorem agg_run (E : LGEnv) (z : Cell) (src : LGSrc) (s : LGSlice) (ret : LRet) (F : List Cell → Option Cell)
    (hF : src.pick E = some (some F)) (hs : ∀ g ∈ E.groups, s.run E.recv z g = .ok (cellsOf E.recv g)) :
    (LGCase.agg src .empty .append s ret).run E z =
      match allVals F E.recv E.groups with
      | some vs => .col ret vs
      | none => .panic := by
  simp only [LGCase.run, hF, aggVals_eq F s E.recv z 0 E.groups hs]
  cases allVals F E.recv E.groups with
  | none => rfl
  | some vs =>
    simp only [buildArr_vals z .empty .append _ (Or.inl ⟨rfl, rfl⟩) (numbered_pos 0 vs), numbered_vals]

/-! ## `Column.Aggregate` -/

/-- What `Column.Aggregate` of a column of type `ty` must do: a `func([]T) T` on the column's element type is handed the
cells of every group, in the group's order, one result per group in group order; a name of the package's `aggregations`
map (int, float, bool columns) likewise with the map's function — `none` from it: Go panics —; every other name and every
other function value is an error. -/
def expectAgg (ty : CType) (E : LGEnv) : LGOut :=
  match E.fn with
  | .aggFn a r g =>
    if a = fkind ty ∧ r = fkind ty then .col (ret2 ty) (E.groups.map (fun grp => g (cellsOf E.recv grp))) else .err
  | .name s =>
    if numeric ty = true ∧ s ∈ specNames ty then
      match E.builtin s with
      | some F =>
        match allVals F E.recv E.groups with
        | some vs => .col .ownCol vs
        | none => .panic
      | none => .stuck
    else .err
  | .other _ => .err

/-- a value of another dynamic type is not one of the two the switch knows -/
def LGVal.Wf : LGVal → Prop
  | .other sig => (∀ a r, sig ≠ .aggFn a r) ∧ sig ≠ .str
  | _ => True

theorem canonAgg_run (E : LGEnv) (hwf : LGVal.Wf E.fn) (hok : ColOk E.recv)
    (hrows : ∀ g ∈ E.groups, ∀ r ∈ g, r < E.recv.cells.length) :
    (canonAgg E.recv.ty).run E (zeroCell (fkind E.recv.ty)) = expectAgg E.recv.ty E := by
  obtain ⟨hi, hacc, hsh⟩ := sliceOf_ok E.recv hok
  have hs : ∀ g ∈ E.groups, (sliceOf E.recv.ty).run E.recv (zeroCell (fkind E.recv.ty)) g = .ok (cellsOf E.recv g) :=
    fun g hg => slice_run E.recv _ _ hi hacc hsh g (hrows g hg)
  unfold LGFn.run expectAgg
  cases hfn : E.fn with
  | aggFn a r g =>
    by_cases h : a = fkind E.recv.ty ∧ r = fkind E.recv.ty
    · obtain ⟨rfl, rfl⟩ := h
      simp only [canonAgg, LGVal.sig, List.find?_cons]
      have e1 : (LSig.str == LSig.aggFn (fkind E.recv.ty) (fkind E.recv.ty)) = false := by simp
      rw [e1]
      simp only [beq_self_eq_true, and_self, ↓reduceIte]
      rw [agg_run E _ .user _ _ (fun l => some (g l)) (by simp [LGSrc.pick, hfn]) hs, allVals_total]
    · have e1 : (LSig.str == LSig.aggFn a r) = false := by simp
      have e2 : (LSig.aggFn (fkind E.recv.ty) (fkind E.recv.ty) == LSig.aggFn a r) = false := by
        simpa using fun x y => h ⟨x.symm, y.symm⟩
      simp only [canonAgg, LGVal.sig, List.find?_cons, e1, e2, List.find?_nil, if_neg h]
      rfl
  | name s =>
    simp only [canonAgg, LGVal.sig, List.find?_cons, beq_self_eq_true]
    cases hnum : numeric E.recv.ty with
    | false => simp [LGCase.run]
    | true =>
      simp only [↓reduceIte, true_and]
      by_cases hmem : s ∈ specNames E.recv.ty
      · simp only [hmem, ↓reduceIte]
        cases hb : E.builtin s with
        | none => simp [LGCase.run, LGSrc.pick, hfn, hmem, hb]
        | some F =>
          rw [agg_run E _ (.builtin (specNames E.recv.ty)) _ _ F (by simp [LGSrc.pick, hfn, hmem, hb]) hs]
      · simp [LGCase.run, LGSrc.pick, hfn, hmem]
  | other sig =>
    rw [hfn] at hwf
    obtain ⟨h1, h2⟩ := hwf
    have e1 : (LSig.str == sig) = false := by simpa using fun e => h2 e.symm
    have e2 : (LSig.aggFn (fkind E.recv.ty) (fkind E.recv.ty) == sig) = false := by simpa using fun e => h1 _ _ e.symm
    simp only [canonAgg, LGVal.sig, List.find?_cons, e1, e2, List.find?_nil]
    rfl

/-! ## The spec: `aggApply` on the groups of the frame whose index is `ix0` -/

/-- the map of built-in aggregations of a column package, with today's terms as functions -/
def pkgBuiltin (ty : CType) (name : String) : Option (List Cell → Option Cell) :=
  ((entriesOf Gen.aggAst (pkgOf ty)).lookup name).map (fun t vs => t.eval ty vs)

/-- the Go value of the function field of an aggregation on a column of type `ty` (the catalogue of QF/Spec/Ops.lean is
defined identically in the harness): a built-in by its name; a user function of the catalogue is a `func([]T) R` -/
def goAggVal (afn : AggFn) (ty : CType) : LGVal :=
  match afn with
  | .builtin name => .name name
  | .user id =>
    match aggApply (.user id) ty with
    | some (rt, g) => .aggFn (fkind ty) rt g
    | none => .other (.other "")

theorem pkgOf_eq : C03Compare.pkgOf = pkgOf := by funext t; cases t <;> rfl
theorem tys_eq : C03Compare.tys = tys := rfl

theorem aggApply_user_rt {id : String} {ty rt : CType} {g : List Cell → Cell} (h : aggApply (.user id) ty = some (rt, g)) :
    rt = fkind ty := by
  unfold aggApply at h
  split at h <;> first | (simp at h; obtain ⟨rfl, _⟩ := h; simp_all) | (simp at h)

theorem numeric_fkind {ty : CType} (h : numeric ty = true) : fkind ty = ty := by cases ty <;> simp_all [numeric, fkind]

theorem specNames_of_not_numeric {ty : CType} (h : numeric ty = false) : specNames (fkind ty) = [] := by
  cases ty <;> simp_all [numeric, fkind, specNames]

theorem cellType_of_ok {ty : CType} (hn : numeric ty = true) {vals : List Bytes} {x : Cell} (h : cellOk ty vals x = true) :
    cellType x = ty := by
  unfold cellOk at h
  cases ty <;> cases x <;> simp_all [numeric, cellVal, cellType]

/-- the physical groups of logical groups: row `r` of the frame is physical row `ix0[r]` -/
def physGroups (ix0 : List Nat) (gs : List (List Nat)) : List (List Nat) := gs.map (fun g => g.map (fun r => ix0[r]!))

theorem cellsOf_phys (ix0 : List Nat) (P : PCol) (c : LCol) (hs : Sees ix0 P c) (g : List Nat) (hg : ∀ r ∈ g, r < ix0.length) :
    cellsOf P (g.map (fun r => ix0[r]!)) = g.map (fun r => c.cells[r]!) := by
  simp only [cellsOf, List.map_map]
  apply List.map_congr_left
  intro r hr
  simp only [Function.comp, hs.cells, observe_get _ _ _ (hg r hr)]

/-- **The group loop of `Column.Aggregate` in today's source computes the spec's aggregate column** (C04). For the frame
whose index is `ix0`, a column `c` of any type seen through it with ALL well-typed contents, every list `gs` of non-empty
groups of rows of the frame (as physical rows: `physGroups`) and every aggregation function of the catalogue other than
`"count"` (which `Grouper.Aggregate` answers itself: `C04Aggregations.gen_agg_count`): today's loop hands exactly the
group's cells, in the group's order, to the function — the user's, or the built-in regenerated as `Gen.aggAst` — and
returns one result per group, in group order: the column `groupAggS` builds with `aggApply`; and it returns an error
exactly when `aggApply` is undefined for the column type. -/
theorem gen_aggregate_loops_semantics (ix0 : List Nat) (P : PCol) (c : LCol) (gs : List (List Nat)) (afn : AggFn)
    (hs : Sees ix0 P c) (hok : ColOk P) (h0 : ∀ p ∈ ix0, p < P.cells.length)
    (hgs : ∀ g ∈ gs, g ≠ [] ∧ ∀ r ∈ g, r < ix0.length) (hcount : ∀ n, afn = .builtin n → n ≠ "count") :
    (aggregateOf P.ty).run { recv := P, groups := physGroups ix0 gs, fn := goAggVal afn c.ty, builtin := pkgBuiltin P.ty }
        (zeroCell (fkind P.ty)) =
      match aggApply afn c.ty with
      | some (_, g) => .col (ret2 P.ty) (gs.map (fun grp => g (grp.map (fun r => c.cells[r]!))))
      | none => .err := by
  have hty := hok.1
  have hrows : ∀ g ∈ physGroups ix0 gs, ∀ r ∈ g, r < P.cells.length := by
    intro g hg r hr
    simp only [physGroups, List.mem_map] at hg
    obtain ⟨g', hg', rfl⟩ := hg
    simp only [List.mem_map] at hr
    obtain ⟨r', hr', rfl⟩ := hr
    have hl := (hgs g' hg').2 r' hr'
    have : ix0[r']! = ix0[r'] := by simp [hl]
    rw [this]; exact h0 _ (List.getElem_mem hl)
  have hcells : ∀ g ∈ gs, cellsOf P (g.map (fun r => ix0[r]!)) = g.map (fun r => c.cells[r]!) :=
    fun g hg => cellsOf_phys ix0 P c hs g (hgs g hg).2
  have hmap : ∀ g : List Cell → Cell,
      (physGroups ix0 gs).map (fun grp => g (cellsOf P grp)) = gs.map (fun grp => g (grp.map (fun r => c.cells[r]!))) := by
    intro g
    simp only [physGroups, List.map_map]
    apply List.map_congr_left
    intro grp hg
    simp only [Function.comp, hcells grp hg]
  rw [gen_aggregate_canon P.ty hty, hs.ty]
  cases afn with
  | user id =>
    have hrun := canonAgg_run { recv := P, groups := physGroups ix0 gs, fn := goAggVal (.user id) P.ty, builtin := pkgBuiltin P.ty }
      (by simp only [goAggVal]; cases aggApply (.user id) P.ty <;> simp [LGVal.Wf]) hok hrows
    simp only at hrun
    rw [hrun]
    cases h : aggApply (.user id) P.ty with
    | none => simp [expectAgg, goAggVal, h]
    | some t =>
      obtain ⟨rt, g⟩ := t
      have hrt := aggApply_user_rt h
      simp only [expectAgg, goAggVal, h, hrt, and_self, ↓reduceIte, hmap]
  | builtin name =>
    have hnc : name ≠ "count" := hcount name rfl
    have hrun := canonAgg_run { recv := P, groups := physGroups ix0 gs, fn := goAggVal (.builtin name) P.ty, builtin := pkgBuiltin P.ty }
      (by simp [goAggVal, LGVal.Wf]) hok hrows
    simp only at hrun
    rw [hrun]
    simp only [expectAgg, goAggVal]
    by_cases hmem : numeric P.ty = true ∧ name ∈ specNames P.ty
    · rw [if_pos hmem]
      have hfk := numeric_fkind hmem.1
      have hty' : P.ty ∈ C03Compare.tys := by rw [tys_eq]; exact hty
      -- the entry of the map
      have hlk : (entriesOf Gen.aggAst (pkgOf P.ty)).lookup name = (C04Aggregations.canonAggs P.ty).lookup name := by
        rw [← pkgOf_eq, C04Aggregations.gen_agg_canon P.ty hty']
      have hgen : ∀ vs, genAgg P.ty name vs = ((C04Aggregations.canonAggs P.ty).lookup name).bind (·.eval P.ty vs) := by
        intro vs
        unfold genAgg
        rw [C04Aggregations.aggTerm_eq P.ty hty', if_neg hnc]
      -- the spec's function
      have hsome : (aggApply (.builtin name) P.ty).isSome = true :=
        (C04Aggregations.spec_names P.ty name).mpr (Or.inr (by rw [hfk]; exact hmem.2))
      cases hag : aggApply (.builtin name) P.ty with
      | none => rw [hag] at hsome; cases hsome
      | some t =>
        obtain ⟨rt, g⟩ := t
        have hval : ∀ grp ∈ gs, genAgg P.ty name (cellsOf P (grp.map (fun r => ix0[r]!))) =
            some (g (cellsOf P (grp.map (fun r => ix0[r]!)))) := by
          intro grp hg
          have hne : cellsOf P (grp.map (fun r => ix0[r]!)) ≠ [] := by
            have := (hgs grp hg).1
            cases grp with
            | nil => exact absurd rfl this
            | cons a as => simp [cellsOf]
          have hwt : ∀ v ∈ cellsOf P (grp.map (fun r => ix0[r]!)), cellType v = P.ty := by
            intro v hv
            simp only [cellsOf, List.mem_map] at hv
            obtain ⟨p, hp, rfl⟩ := hv
            obtain ⟨r, hr, rfl⟩ := hp
            have hl := (hgs grp hg).2 r hr
            have e : ix0[r]! = ix0[r] := by simp [hl]
            have hp' : ix0[r]! < P.cells.length := by rw [e]; exact h0 _ (List.getElem_mem hl)
            exact cellType_of_ok hmem.1 (hok.get hp').2
          obtain ⟨rt', g', h1, h2⟩ := C04Aggregations.gen_agg_semantics P.ty hty' name (Or.inr hmem.2) _ hne (Or.inr hwt)
          rw [hag] at h1
          simp only [Option.some.injEq, Prod.mk.injEq] at h1
          obtain ⟨_, rfl⟩ := h1
          exact h2
        cases hl : (C04Aggregations.canonAggs P.ty).lookup name with
        | none =>
          -- impossible: the name is in the map
          exfalso
          cases gs with
          | nil =>
            have hk : ((entriesOf Gen.aggAst (C03Compare.pkgOf P.ty)).map (·.1)) = specNames P.ty :=
              C04Aggregations.gen_agg_names.1 P.ty hty'
            rw [C04Aggregations.gen_agg_canon P.ty hty'] at hk
            have : name ∈ (C04Aggregations.canonAggs P.ty).map (·.1) := by rw [hk]; exact hmem.2
            rw [List.lookup_eq_none_iff] at hl
            simp only [List.mem_map] at this
            obtain ⟨p, hp, rfl⟩ := this
            have := hl p hp
            simp at this
          | cons grp rest =>
            have := hval grp List.mem_cons_self
            rw [hgen, hl] at this
            cases this
        | some t =>
          simp only [pkgBuiltin, hlk, hl, Option.map_some]
          have hall : allVals (fun vs => t.eval P.ty vs) P (physGroups ix0 gs) =
              some ((physGroups ix0 gs).map (fun grp => g (cellsOf P grp))) := by
            have : ∀ grp ∈ physGroups ix0 gs, t.eval P.ty (cellsOf P grp) = some (g (cellsOf P grp)) := by
              intro grp hg
              simp only [physGroups, List.mem_map] at hg
              obtain ⟨grp', hg', rfl⟩ := hg
              have := hval grp' hg'
              rw [hgen, hl] at this
              exact this
            generalize physGroups ix0 gs = groups at this
            induction groups with
            | nil => rfl
            | cons x xs ih =>
              simp only [allVals, this x List.mem_cons_self, List.map_cons]
              rw [ih (fun g' h' => this g' (List.mem_cons_of_mem _ h'))]
              rfl
          rw [hall, hmap]
          have hret : ret2 P.ty = .ownCol := by
            have := hmem.1
            cases hp : P.ty <;> simp_all [numeric, ret2]
          rw [hret]
    · rw [if_neg hmem]
      have hnone : aggApply (.builtin name) P.ty = none := by
        have := C04Aggregations.spec_names P.ty name
        cases hag : aggApply (.builtin name) P.ty with
        | none => rfl
        | some t =>
          exfalso
          rw [hag] at this
          have hh := this.mp rfl
          rcases hh with hh | hh
          · exact hnc hh
          · cases hnum : numeric P.ty with
            | false => rw [specNames_of_not_numeric hnum] at hh; cases hh
            | true => exact hmem ⟨hnum, by rw [numeric_fkind hnum] at hh; exact hh⟩
      rw [hnone]

/-! ## The key columns: `Subset` of the groups' first rows -/

theorem firstItems_head (groups : List (List Nat)) (hne : ∀ g ∈ groups, g ≠ []) (n : Nat) :
    ∃ items, firstItems 0 n groups = some items ∧ posOk n items ∧ items.map (·.2.2) = groups.map (·.head!) := by
  induction groups generalizing n with
  | nil => exact ⟨[], rfl, trivial, rfl⟩
  | cons g gs ih =>
    obtain ⟨items, h1, h2, h3⟩ := ih (fun g' h' => hne g' (List.mem_cons_of_mem _ h')) (n + 1)
    cases g with
    | nil => exact absurd rfl (hne [] List.mem_cons_self)
    | cons r rs =>
      refine ⟨(n, n, r) :: items, ?_, ⟨rfl, h2⟩, ?_⟩
      · simp [firstItems, h1]
      · simp only [List.map_cons, h3]
        rfl

/-- **the first-row index**: today's `Grouper.Aggregate` collects, in group order, the first row of every group -/
theorem gen_first_rows (groups : List (List Nat)) (hne : ∀ g ∈ groups, g ≠ []) :
    Gen.grouperTailAst.first groups = some (groups.map (·.head!)) := by
  rw [gen_grouper_tail_canon]
  obtain ⟨items, h1, h2, h3⟩ := firstItems_head groups hne 0
  simp only [LGTail.first, canonTail, h1]
  rw [buildArr_vals 0 .full (.setAt .pos) items (Or.inr ⟨rfl, rfl⟩) h2, h3]

/-- the column types whose cells are an array of values (the string column: `gen_subset_string`) -/
def subsetTranslated : CType → Bool
  | .int | .float | .bool | .enum => true
  | _ => false

/-- **`Subset(index)`**: the new column holds, at position `i`, the cell of row `index[i]`; an enum column keeps its value
table and its strictness. -/
theorem gen_subset_semantics (P : PCol) (hty : P.ty ∈ tys) (htr : subsetTranslated P.ty = true) (z : Cell) (ix : List Nat)
    (hrows : ∀ r ∈ ix, r < P.cells.length) :
    (subsetOf P.ty).run P z ix = .ok (ix.map (fun r => P.cells[r]!)) ∧
    (∃ s, subsetOf P.ty = .cells s (if P.ty = .enum then ["strict", "values"] else [])) := by
  rw [gen_subset_canon P.ty hty]
  cases hp : P.ty <;> simp only [hp, subsetTranslated] at htr ⊢ <;> first | cases htr | skip
  all_goals
    refine ⟨?_, ⟨_, rfl⟩⟩
    simp only [canonSub, LGSub.run]
    first
      | exact slice_run P z _ rfl (fun x _ => rfl) (Or.inr ⟨rfl, rfl⟩) ix hrows
      | exact slice_run P z _ rfl (fun x _ => rfl) (Or.inl ⟨rfl, rfl⟩) ix hrows

/-! ### The string column: a new byte blob -/

/-- the pointers of a blob column stay inside the blob -/
def BValid (ptrs : List BPtr) (data : Bytes) : Prop := ∀ p ∈ ptrs, p.null = false → p.off + p.len ≤ data.length

theorem ptrCell_append (data more : Bytes) (p : BPtr) (h : p.null = false → p.off + p.len ≤ data.length) :
    ptrCell (data ++ more) p = ptrCell data p := by
  unfold ptrCell
  cases hn : p.null with
  | true => rfl
  | false =>
    have hl := h hn
    simp only [Bool.false_eq_true, ↓reduceIte, Option.some.injEq]
    rw [List.drop_append_of_le_length (by omega), List.take_append_of_le_length (by simp; omega)]

/-- one round of the loop -/
theorem blob_step (src : BCol) (pos row : Nat) (rows : List Nat) (p : BPtr) (hp : src.ptrs[row]? = some p) (st : BSt)
    (hslot : pos < st.ptrs.length) (hle : p.null = false → p.off + p.len ≤ src.data.length) :
    runBlobLoop src canonBlob pos (row :: rows) st =
      runBlobLoop src canonBlob (pos + 1) rows
        { ptrs := st.ptrs.set pos ⟨st.off, p.len, p.null⟩
          data := if p.null then st.data else st.data ++ (src.data.drop p.off).take p.len
          off := if p.null then st.off else st.off + p.len } := by
  cases hn : p.null with
  | true =>
    simp [runBlobLoop, canonBlob, LIdx.of, hp, runBlobBody, BCond.holds, BAct.run, BInt.eval, BFlag.eval, hn, hslot]
  | false =>
    have := hle hn
    simp [runBlobLoop, canonBlob, LIdx.of, hp, runBlobBody, BCond.holds, BAct.run, BInt.eval, BFlag.eval, hn, hslot, this]

theorem blob_loop (src : BCol) (hv : BValid src.ptrs src.data) :
    ∀ (rows : List Nat) (done : List BPtr) (data : Bytes), (∀ r ∈ rows, r < src.ptrs.length) → BValid done data →
      ∃ done' data',
        runBlobLoop src canonBlob done.length rows ⟨done ++ List.replicate rows.length ⟨0, 0, false⟩, data, data.length⟩ =
          .ok ⟨done ++ done', data ++ data', (data ++ data').length⟩ ∧
        done'.length = rows.length ∧ BValid (done ++ done') (data ++ data') ∧
        ∀ i (_ : i < rows.length) (h' : i < done'.length), some (ptrCell (data ++ data') done'[i]) = src.cell rows[i]! := by
  intro rows
  induction rows with
  | nil =>
    intro done data _ hd
    exact ⟨[], [], by simp [runBlobLoop], rfl, by simpa using hd, fun i h => absurd h (Nat.not_lt_zero _)⟩
  | cons r rs ih =>
    intro done data hr hd
    have hrl : r < src.ptrs.length := hr r List.mem_cons_self
    obtain ⟨p, hp, hpm⟩ : ∃ p, src.ptrs[r]? = some p ∧ p ∈ src.ptrs :=
      ⟨src.ptrs[r], List.getElem?_eq_getElem hrl, List.getElem_mem hrl⟩
    have hcell : src.cell r = some (ptrCell src.data p) := by simp [BCol.cell, hp]
    have hle : p.null = false → p.off + p.len ≤ src.data.length := hv p hpm
    have hchunk : p.null = false → ((src.data.drop p.off).take p.len).length = p.len := by
      intro hn; have := hle hn; simp; omega
    -- the new pointer, the new blob
    let q : BPtr := ⟨data.length, p.len, p.null⟩
    let data1 : Bytes := if p.null then data else data ++ (src.data.drop p.off).take p.len
    have hlen1 : (if p.null then data.length else data.length + p.len) = data1.length := by
      cases hn : p.null with
      | true => simp [data1, hn]
      | false => simp only [data1, hn, Bool.false_eq_true, ↓reduceIte, List.length_append, hchunk hn]
    have hd1 : BValid (done ++ [q]) data1 := by
      intro x hx hxn
      simp only [List.mem_append, List.mem_singleton] at hx
      rcases hx with hx | rfl
      · have := hd x hx hxn
        cases hn : p.null with
        | true => simpa [data1, hn] using this
        | false => simp only [data1, hn, Bool.false_eq_true, ↓reduceIte, List.length_append]; omega
      · have hn : p.null = false := hxn
        simp only [data1, hn, Bool.false_eq_true, ↓reduceIte, List.length_append, hchunk hn, q]; omega
    obtain ⟨done', data', h1, h2, h3, h4⟩ := ih (done ++ [q]) data1 (fun r' h' => hr r' (List.mem_cons_of_mem _ h')) hd1
    have hext : ∃ more, data1 = data ++ more := by
      cases hn : p.null with
      | true => exact ⟨[], by simp [data1, hn]⟩
      | false => exact ⟨(src.data.drop p.off).take p.len, by simp [data1, hn]⟩
    obtain ⟨more, hmore⟩ := hext
    refine ⟨q :: done', more ++ data', ?_, by simp [h2], ?_, ?_⟩
    · rw [blob_step src done.length r rs p hp _ (by simp) hle]
      have hset : (done ++ List.replicate (rs.length + 1) (⟨0, 0, false⟩ : BPtr)).set done.length ⟨data.length, p.len, p.null⟩ =
          (done ++ [q]) ++ List.replicate rs.length ⟨0, 0, false⟩ := by
        rw [List.replicate_succ]; simp [q]
      simp only [List.length_cons, hset, hlen1]
      have e1 : done.length + 1 = (done ++ [q]).length := by simp
      rw [e1]
      have e2 : (if p.null then data else data ++ (src.data.drop p.off).take p.len) = data1 := rfl
      rw [e2, h1, hmore]
      simp [List.append_assoc]
    · have : done ++ q :: done' = (done ++ [q]) ++ done' := by simp
      rw [this, ← List.append_assoc, ← hmore]
      exact h3
    · intro i hi hi'
      have hdata : data ++ (more ++ data') = data1 ++ data' := by rw [← List.append_assoc, ← hmore]
      rw [hdata]
      cases i with
      | zero =>
        simp only [List.getElem_cons_zero, List.getElem!_cons_zero, hcell, Option.some.injEq]
        rw [ptrCell_append data1 data' q (fun hq => hd1 q (by simp) hq)]
        cases hn : p.null with
        | true => simp [ptrCell, q, hn]
        | false =>
          have hc := hchunk hn
          simp only [ptrCell, q, hn, Bool.false_eq_true, ↓reduceIte, data1, Option.some.injEq]
          rw [List.drop_left, List.take_of_length_le (by omega)]
      | succ j =>
        have := h4 j (by simpa using hi) (by simpa using hi')
        simpa using this

/-- **`subset` of the string column**: whatever the blob, the new column has one pointer per row of the index, its
pointers stay inside its blob, and `stringAt(i)` of it sees what `stringAt(index[i])` saw in the source — null for a null
cell, the same bytes otherwise. -/
theorem gen_subset_string (src : BCol) (hv : BValid src.ptrs src.data) (ix : List Nat) (hrows : ∀ r ∈ ix, r < src.ptrs.length) :
    ∃ b B, subsetOf .string = .blob b ∧ b.run src ix = .ok B ∧ B.ptrs.length = ix.length ∧ BValid B.ptrs B.data ∧
      ∀ i, i < ix.length → B.cell i = src.cell ix[i]! := by
  obtain ⟨done', data', h1, h2, h3, h4⟩ := blob_loop src hv ix [] [] hrows (by intro p hp; cases hp)
  refine ⟨canonBlob, ⟨done', data'⟩, by rw [gen_subset_canon .string (by decide)]; rfl, ?_, h2, by simpa using h3, ?_⟩
  · simp only [LBlob.run, canonBlob] at h1 ⊢
    simp only [List.nil_append, List.length_nil] at h1
    rw [h1]
  · intro i hi
    have hi' : i < done'.length := by rw [h2]; exact hi
    have := h4 i hi hi'
    simp only [List.nil_append] at this
    rw [← this]
    simp [BCol.cell, hi']

theorem head_phys (ix0 : List Nat) (g : List Nat) (hne : g ≠ []) : (g.map (fun r => ix0[r]!)).head! = ix0[g.head!]! := by
  cases g with
  | nil => exact absurd rfl hne
  | cons r rs => rfl

/-- **The key column holds each group's first row's key** (C04), int / float / bool / enum columns: for the frame whose
index is `ix0`, a key column `c` seen through it and the groups `gs` (non-empty lists of rows of the frame): today's
`Grouper.Aggregate` makes the key column as `Subset` of the index of first rows, and that column holds, for group `k`, the
cell `c.cells[gs[k].head]` — the column `groupAggS` builds; the loop stores it at the position of its name in the list of
grouped columns; the aggregations are called with the grouper's groups; the result's index is `0 … len(groups) - 1`.
String key columns, whose cells are a byte blob behind packed pointers: `gen_key_columns_semantics_string`. -/
theorem gen_key_columns_semantics (ix0 : List Nat) (P : PCol) (c : LCol) (gs : List (List Nat)) (hs : Sees ix0 P c)
    (hty : P.ty ∈ tys) (htr : subsetTranslated P.ty = true) (h0 : ∀ p ∈ ix0, p < P.cells.length)
    (hgs : ∀ g ∈ gs, g ≠ [] ∧ ∀ r ∈ g, r < ix0.length) (z : Cell) :
    Gen.grouperTailAst.key = .subsetOfFirst ∧ Gen.grouperTailAst.aggPassesGroups = true ∧
    Gen.grouperTailAst.indexAscending = true ∧
    ∃ first, Gen.grouperTailAst.first (physGroups ix0 gs) = some first ∧
      (subsetOf P.ty).run P z first = .ok (gs.map (fun g => c.cells[g.head!]!)) := by
  have hne : ∀ g ∈ physGroups ix0 gs, g ≠ [] := by
    intro g hg
    simp only [physGroups, List.mem_map] at hg
    obtain ⟨g', hg', rfl⟩ := hg
    have := (hgs g' hg').1
    cases g' with
    | nil => exact absurd rfl this
    | cons a as => simp
  refine ⟨by rw [gen_grouper_tail_canon]; rfl, by rw [gen_grouper_tail_canon]; rfl, by rw [gen_grouper_tail_canon]; rfl,
    _, gen_first_rows _ hne, ?_⟩
  have hfirst : (physGroups ix0 gs).map (·.head!) = gs.map (fun g => ix0[g.head!]!) := by
    simp only [physGroups, List.map_map]
    apply List.map_congr_left
    intro g hg
    exact head_phys ix0 g (hgs g hg).1
  have hin : ∀ g ∈ gs, g.head! < ix0.length := by
    intro g hg
    obtain ⟨hn, hr⟩ := hgs g hg
    cases g with
    | nil => exact absurd rfl hn
    | cons a as => exact hr a List.mem_cons_self
  have hrows : ∀ r ∈ (physGroups ix0 gs).map (·.head!), r < P.cells.length := by
    rw [hfirst]
    intro r hr
    simp only [List.mem_map] at hr
    obtain ⟨g, hg, rfl⟩ := hr
    have hl := hin g hg
    have : ix0[g.head!]! = ix0[g.head!] := by simp [hl]
    rw [this]; exact h0 _ (List.getElem_mem hl)
  rw [(gen_subset_semantics P hty htr z _ hrows).1, hfirst, List.map_map]
  congr 1
  apply List.map_congr_left
  intro g hg
  simp only [Function.comp, hs.cells, observe_get _ _ _ (hin g hg)]

/-- the cells of a string column as stored -/
def blobCells (src : BCol) : List Cell := (List.range src.ptrs.length).map (fun i => Cell.str ((src.cell i).getD none))

theorem blobCells_get (src : BCol) (i : Nat) (hi : i < src.ptrs.length) : (blobCells src)[i]! = .str ((src.cell i).getD none) := by
  simp [blobCells, hi]

/-- **… and so does a string key column**: for every blob whose pointers stay inside it, the key column today's
`Grouper.Aggregate` makes — `subset` of the index of first rows: new pointers into a new blob — shows, at group `k`, the
cell `c.cells[gs[k].head]` of the frame (null for null, the same bytes otherwise), and is a well-formed blob again. -/
theorem gen_key_columns_semantics_string (ix0 : List Nat) (src : BCol) (c : LCol) (gs : List (List Nat))
    (hv : BValid src.ptrs src.data) (hc : c.cells = observe ix0 (blobCells src)) (h0 : ∀ p ∈ ix0, p < src.ptrs.length)
    (hgs : ∀ g ∈ gs, g ≠ [] ∧ ∀ r ∈ g, r < ix0.length) :
    ∃ first b B, Gen.grouperTailAst.first (physGroups ix0 gs) = some first ∧ subsetOf .string = .blob b ∧
      b.run src first = .ok B ∧ B.ptrs.length = gs.length ∧ BValid B.ptrs B.data ∧
      ∀ k, k < gs.length → Cell.str ((B.cell k).getD none) = c.cells[(gs[k]!).head!]! := by
  have hne : ∀ g ∈ physGroups ix0 gs, g ≠ [] := by
    intro g hg
    simp only [physGroups, List.mem_map] at hg
    obtain ⟨g', hg', rfl⟩ := hg
    have := (hgs g' hg').1
    cases g' with
    | nil => exact absurd rfl this
    | cons a as => simp
  have hfirst : (physGroups ix0 gs).map (·.head!) = gs.map (fun g => ix0[g.head!]!) := by
    simp only [physGroups, List.map_map]
    apply List.map_congr_left
    intro g hg
    exact head_phys ix0 g (hgs g hg).1
  have hin : ∀ g ∈ gs, g.head! < ix0.length := by
    intro g hg
    obtain ⟨hn, hr⟩ := hgs g hg
    cases g with
    | nil => exact absurd rfl hn
    | cons a as => exact hr a List.mem_cons_self
  have hphys : ∀ g ∈ gs, ix0[g.head!]! < src.ptrs.length := by
    intro g hg
    have hl := hin g hg
    have : ix0[g.head!]! = ix0[g.head!] := by simp [hl]
    rw [this]; exact h0 _ (List.getElem_mem hl)
  have hrows : ∀ r ∈ (physGroups ix0 gs).map (·.head!), r < src.ptrs.length := by
    rw [hfirst]
    intro r hr
    simp only [List.mem_map] at hr
    obtain ⟨g, hg, rfl⟩ := hr
    exact hphys g hg
  obtain ⟨b, B, hb, hrun, hlen, hval, hcell⟩ := gen_subset_string src hv _ hrows
  refine ⟨_, b, B, gen_first_rows _ hne, hb, hrun, by simpa [physGroups] using hlen, hval, ?_⟩
  intro k hk
  have hk' : k < ((physGroups ix0 gs).map (·.head!)).length := by simpa [physGroups] using hk
  rw [hcell k hk', hfirst]
  have hg : gs[k]! ∈ gs := by
    have : gs[k]! = gs[k] := by simp [hk]
    rw [this]; exact List.getElem_mem hk
  have e1 : (gs.map (fun g => ix0[g.head!]!))[k]! = ix0[(gs[k]!).head!]! := by simp [hk]
  rw [e1, hc, observe_get _ _ _ (hin _ hg), blobCells_get _ _ (hphys _ hg)]

/-! ## Witnesses: the statements tell wrong loops apart -/

section Witnesses

private def colI : PCol := { ty := .int, cells := [.int 10, .int 20, .int 30, .int 40] }

private def sumI : List Cell → Cell := fun l => .int (l.foldl (fun a c => match c with | .int x => a + x | _ => a) 0)
private def lenI : List Cell → Cell := fun l => .int l.length

/-- two groups: rows 3, 1 and row 2 -/
private def envSum : LGEnv := { recv := colI, groups := [[3, 1], [2]], fn := .aggFn .int .int sumI, builtin := fun _ => none }
private def envLen : LGEnv := { envSum with fn := .aggFn .int .int lenI }

def outCol : LGOut → Option (List Cell)
  | .col _ cells => some cells
  | _ => none

private def oneG (s : LGSlice) : LGFn := { cases := [(.aggFn .int .int, .agg .user .empty .append s .ownCol)], dflt := .err }

-- today's loop: the cells of the rows, in the group's order
example : outCol ((aggregateOf .int).run envSum (.int 0)) = some [.int 60, .int 30] := by decide
example : outCol (expectAgg .int envSum) = some [.int 60, .int 30] := by decide
example : outCol ((aggregateOf .int).run envLen (.int 0)) = some [.int 2, .int 1] := by decide
-- a buffer of the group's length with the values APPENDED: twice as many elements
example : outCol ((oneG { init := .full, write := .append, i := .row, acc := .raw }).run envLen (.int 0)) = some [.int 4, .int 2] := by
  decide
example : (oneG { init := .full, write := .append, i := .row, acc := .raw }).run envLen (.int 0) ≠ expectAgg .int envLen := by
  intro h; have := congrArg outCol h; revert this; decide
-- the values taken at the positions 0, 1, … instead of the rows
example : outCol ((oneG { init := .empty, write := .append, i := .pos, acc := .raw }).run envSum (.int 0)) = some [.int 30, .int 10] := by
  decide
example : (oneG { init := .empty, write := .append, i := .pos, acc := .raw }).run envSum (.int 0) ≠ expectAgg .int envSum := by
  intro h; have := congrArg outCol h; revert this; decide
-- the values stored at the ROW in an array of the group's length: out of range
example : outCol ((oneG { init := .full, write := .setAt .row, i := .row, acc := .raw }).run envSum (.int 0)) = none := by decide
-- the second row of every group as its key: panics on a group of one row; today's term takes row 0
example : ({ canonTail with firstRow := some 1 } : LGTail).first [[3, 1], [2]] = none := by decide
example : Gen.grouperTailAst.first [[3, 1], [2]] = some [3, 2] := by decide
-- the first-row index appended to an array that already has the full length
example : ({ canonTail with firstWrite := .append } : LGTail).first [[3, 1], [2]] = some [0, 0, 3, 2] := by decide

-- the string column's `subset`: today's term on the blob "a" | null | "bc", rows 2 and 0
private def blobS : BCol := { ptrs := [⟨0, 1, false⟩, ⟨1, 0, true⟩, ⟨1, 2, false⟩], data := [97, 98, 99] }
private def cellsOfBlob : LR BCol → List (Option (Option Bytes))
  | .ok B => (List.range B.ptrs.length).map B.cell
  | _ => []
example : cellsOfBlob (canonBlob.run blobS [2, 1, 0]) = [some (some [98, 99]), some none, some (some [97])] := by decide
-- the offset is not advanced: every new pointer starts at 0
example : cellsOfBlob (({ canonBlob with body := canonBlob.body.take 2 } : LBlob).run blobS [2, 1, 0]) =
    [some (some [98, 99]), some none, some (some [98])] := by decide
-- the old offsets copied into the new blob
example : cellsOfBlob (({ canonBlob with body := [(.always, .setPtr .pos .cellOff .cellLen .cellNull),
      (.notNull, .appendBytes .cellOff .cellLen), (.notNull, .advance .cellLen)] } : LBlob).run blobS [2, 1, 0]) =
    [some (some [99, 97]), some none, some (some [98])] := by decide
-- the bytes of null cells appended too, the offset advanced only for the others
example : cellsOfBlob (({ canonBlob with body := [(.always, .setPtr .pos .running .cellLen .cellNull),
      (.always, .appendBytes .cellOff (.lit 1)), (.notNull, .advance .cellLen)] } : LBlob).run blobS [1, 0]) =
    [some none, some (some [98])] := by decide

end Witnesses

#print axioms gen_aggregate_no_opaque
#print axioms gen_aggregate_canon
#print axioms gen_subset_canon
#print axioms gen_grouper_tail_canon
#print axioms canonAgg_run
#print axioms gen_aggregate_loops_semantics
#print axioms gen_first_rows
#print axioms gen_subset_semantics
#print axioms gen_subset_string
#print axioms gen_key_columns_semantics
#print axioms gen_key_columns_semantics_string

end QF.Props.C04LoopsGen
