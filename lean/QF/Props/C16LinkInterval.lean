import QF.Props.C16Round
import QF.Props.C16CoreFlags
/-!
# C16 — link (first part): "in the rounding interval" ⇔ "parses back to the float"

`InInterval b m e`: the decimal `m·10^e` lies between the two midpoints `mm·2^e2`, `mp·2^e2` that Ryu's step 2 computes for
the float with bits `b` (`C16Core.interval_lower`, `interval_upper`: these are the midpoints to `Num.decode`'s neighbours
`b − 1`, `b + 1`), the ends included iff the significand is even (`acceptBoundsOf`).

`interval_iff_roundtrip`: for a finite, non-zero, positive float this is the same as `Num.ofDecimal false m e = b`, i.e. (by
`C16Round.ofDecimal_correct` / `isNearest_unique`) the same as "`b` is the IEEE nearest-even rounding of `m·10^e`".
-/
namespace QF.Props.C16Link
open QF.Num QF.Ryu64 QF.Props.C16Round QF.Props.C16Core

/-- `m·10^e` lies in the rounding interval `[mm·2^e2, mp·2^e2]` of the float with bits `b` (magnitude), closed iff the
significand is even. Fractions are compared by cross multiplication: `10^e = decNum · / decDen e`, `2^e2 = P e2 / Q e2`. -/
def InInterval (b : UInt64) (m : Nat) (e : Int) : Prop :=
  if acceptBoundsOf (mantOf b) (expOf b) = true then
    mmOf (decodeM2 (mantOf b) (expOf b)) (mmShiftOf (mantOf b) (expOf b)) * (decDen e * P (decodeE2 (expOf b)))
        ≤ decNum m e * Q (decodeE2 (expOf b)) ∧
    decNum m e * Q (decodeE2 (expOf b))
        ≤ mpOf (decodeM2 (mantOf b) (expOf b)) * (decDen e * P (decodeE2 (expOf b)))
  else
    mmOf (decodeM2 (mantOf b) (expOf b)) (mmShiftOf (mantOf b) (expOf b)) * (decDen e * P (decodeE2 (expOf b)))
        < decNum m e * Q (decodeE2 (expOf b)) ∧
    decNum m e * Q (decodeE2 (expOf b))
        < mpOf (decodeM2 (mantOf b) (expOf b)) * (decDen e * P (decodeE2 (expOf b)))

/-- everything `Num.decode` and step 1/2 of `float64ToDecimal` say about a finite non-zero float, in one place -/
structure Fields (b : UInt64) (dy : Num.Dyadic) : Prop where
  mant_lt : mantOf b < 2 ^ 52
  exp_lt : expOf b < 2047
  nz : mantOf b ≠ 0 ∨ expOf b ≠ 0
  m2 : decodeM2 (mantOf b) (expOf b) = dy.m
  e2 : decodeE2 (expOf b) = dy.e - 2
  m_pos : 1 ≤ dy.m
  m_lt : dy.m < 2 ^ 53
  e_ge : -1074 ≤ dy.e
  e_le : dy.e ≤ 971
  normal : 2 ^ 52 ≤ dy.m ∨ dy.e = -1074
  mv : mvOf (decodeM2 (mantOf b) (expOf b)) = 4 * dy.m
  mp : mpOf (decodeM2 (mantOf b) (expOf b)) = 4 * dy.m + 2
  mm : mmOf (decodeM2 (mantOf b) (expOf b)) (mmShiftOf (mantOf b) (expOf b)) = 4 * dy.m - 1 - mmShiftOf (mantOf b) (expOf b)
  s_le : mmShiftOf (mantOf b) (expOf b) ≤ 1
  s_zero : mmShiftOf (mantOf b) (expOf b) = 0 ↔ (dy.m = 2 ^ 52 ∧ dy.e ≠ -1074)
  acc : acceptBoundsOf (mantOf b) (expOf b) = true ↔ dy.m % 2 = 0

theorem fields_of_decode (b : UInt64) (dy : Num.Dyadic) (h : decode b = some dy) (h0 : dy.m ≠ 0) : Fields b dy := by
  obtain ⟨g1, g2, g3, g4, g5, g6⟩ := bridge b dy h
  obtain ⟨_, _, f3⟩ := decode_fields' b dy h
  have hm : mantOf b < 2 ^ 52 := Nat.mod_lt _ (Nat.two_pow_pos 52)
  have he : expOf b < 2048 := Nat.mod_lt _ (by decide)
  obtain ⟨d1, d2⟩ := decodeE2_eq (expOf b)
  have hM2 : decodeM2 (mantOf b) (expOf b) = dy.m := by rw [g4, g2]
  have hs := mmShiftOf_le (mantOf b) (expOf b)
  have hsig : dy.m = if expOf b = 0 then mantOf b else mantOf b + 2 ^ 52 := g2
  have f3' : dy.e + 1076 = ((if expOf b = 0 then 2 else expOf b + 1 : Nat) : Int) := f3
  have hmlt : dy.m < 2 ^ 53 := by rw [g2]; exact g6
  have hnz : mantOf b ≠ 0 ∨ expOf b ≠ 0 := by
    by_cases hx : expOf b = 0
    · left; intro hmz; apply h0; rw [hsig, if_pos hx]; exact hmz
    · exact Or.inr hx
  have hsz : mmShiftOf (mantOf b) (expOf b) = 0 ↔ (mantOf b = 0 ∧ 1 < expOf b) := by
    unfold mmShiftOf boolToNat
    by_cases hc : (mantOf b != 0 || decide (expOf b ≤ 1)) = true
    · rw [if_pos hc]
      simp only [Bool.or_eq_true, bne_iff_ne, ne_eq, decide_eq_true_eq] at hc
      constructor
      · intro h1; exact absurd h1 (by decide)
      · rintro ⟨h1, h2⟩; rcases hc with hc | hc
        · exact absurd h1 hc
        · omega
    · rw [if_neg hc]
      simp only [Bool.or_eq_true, bne_iff_ne, ne_eq, decide_eq_true_eq, not_or, Decidable.not_not] at hc
      exact ⟨fun _ => ⟨hc.1, by omega⟩, fun _ => rfl⟩
  have hE2 : decodeE2 (expOf b) = dy.e - 2 := by
    have : ((decodeE2 (expOf b) + 1076).toNat : Int) = decodeE2 (expOf b) + 1076 := Int.toNat_of_nonneg d1
    rw [d2] at this
    by_cases hx : expOf b = 0
    · rw [if_pos hx] at this f3'; omega
    · rw [if_neg hx] at this f3'; omega
  refine
    { mant_lt := hm, exp_lt := by unfold expOf at g1 he ⊢; omega, nz := hnz, m2 := hM2, e2 := hE2
      m_pos := by omega, m_lt := hmlt
      e_ge := ?_, e_le := ?_, normal := ?_
      mv := by rw [hM2]; exact (mv_mp_eq _ hmlt).1
      mp := by rw [hM2]; exact (mv_mp_eq _ hmlt).2
      mm := by rw [hM2]; exact mm_eq _ _ h0 hmlt hs
      s_le := hs, s_zero := ?_
      acc := by rw [acceptBoundsOf_iff, hM2] }
  · by_cases hx : expOf b = 0
    · rw [if_pos hx] at f3'; omega
    · rw [if_neg hx] at f3'; omega
  · have : expOf b ≠ 2047 := g1
    by_cases hx : expOf b = 0
    · rw [if_pos hx] at f3'; omega
    · rw [if_neg hx] at f3'; omega
  · by_cases hx : expOf b = 0
    · rw [if_pos hx] at f3'; right; omega
    · rw [if_neg hx] at hsig; left; omega
  · rw [hsz]
    by_cases hx : expOf b = 0
    · rw [if_pos hx] at f3' hsig; omega
    · rw [if_neg hx] at f3' hsig; omega

/-- the four comparisons of `InInterval` at exponent `e2 = E − 2`, read at exponent `E` -/
theorem ends_scale (e2 E : Int) (hE : E = e2 + 2) (n d c : Nat) :
    (c * (d * P e2) ≤ n * Q e2 ↔ c * (d * P E) ≤ 4 * (n * Q E)) ∧
    (n * Q e2 ≤ c * (d * P e2) ↔ 4 * (n * Q E) ≤ c * (d * P E)) ∧
    (c * (d * P e2) < n * Q e2 ↔ c * (d * P E) < 4 * (n * Q E)) ∧
    (n * Q e2 < c * (d * P e2) ↔ 4 * (n * Q E) < c * (d * P E)) := by
  have h1 := scale_ge' e2 E 2 (by omega) n c d
  have h2 := scale_le' e2 E 2 (by omega) n c d
  have h4 : (2 : Nat) ^ 2 = 4 := rfl
  rw [h4] at h1 h2
  refine ⟨h1, h2, ?_, ?_⟩
  · omega
  · omega

theorem mul_sub_one_sub (M s u : Nat) (hM : 1 ≤ M) (hs : s ≤ 1) :
    (4 * M - 1 - s) * u + (1 + s) * u = 4 * (M * u) := by
  rw [← Nat.add_mul, show 4 * M - 1 - s + (1 + s) = 4 * M by omega, Nat.mul_assoc]

/-- `InInterval` written with the significand and exponent of `Num.decode` -/
theorem inInterval_iff (b : UInt64) (dy : Num.Dyadic) (F : Fields b dy) (m : Nat) (e : Int) :
    InInterval b m e ↔
      if dy.m % 2 = 0 then
        (4 * dy.m - 1 - mmShiftOf (mantOf b) (expOf b)) * (decDen e * P dy.e) ≤ 4 * (decNum m e * Q dy.e) ∧
        4 * (decNum m e * Q dy.e) ≤ (4 * dy.m + 2) * (decDen e * P dy.e)
      else
        (4 * dy.m - 1 - mmShiftOf (mantOf b) (expOf b)) * (decDen e * P dy.e) < 4 * (decNum m e * Q dy.e) ∧
        4 * (decNum m e * Q dy.e) < (4 * dy.m + 2) * (decDen e * P dy.e) := by
  unfold InInterval
  rw [F.mp, F.mm]
  have hE : dy.e = decodeE2 (expOf b) + 2 := by rw [F.e2]; omega
  obtain ⟨a1, _, a3, _⟩ := ends_scale (decodeE2 (expOf b)) dy.e hE (decNum m e) (decDen e)
    (4 * dy.m - 1 - mmShiftOf (mantOf b) (expOf b))
  obtain ⟨_, b2, _, b4⟩ := ends_scale (decodeE2 (expOf b)) dy.e hE (decNum m e) (decDen e) (4 * dy.m + 2)
  by_cases hev : dy.m % 2 = 0
  · rw [if_pos (F.acc.mpr hev), if_pos hev, a1, b2]
  · have : ¬ acceptBoundsOf (mantOf b) (expOf b) = true := fun h => hev (F.acc.mp h)
    rw [if_neg this, if_neg hev, a3, b4]

/-- the interval of Ryu's step 2 is the set of values that round (nearest, ties to even) to the float -/
theorem inInterval_iff_isNearest (b : UInt64) (dy : Num.Dyadic) (F : Fields b dy) (m : Nat) (e : Int) :
    InInterval b m e ↔ IsNearest (decNum m e) (decDen e) dy.m dy.e := by
  rw [inInterval_iff b dy F m e]
  have hs := F.s_le
  have hsz := F.s_zero
  have hM1 := F.m_pos
  have e1 := mul_sub_one_sub dy.m (mmShiftOf (mantOf b) (expOf b)) (decDen e * P dy.e) hM1 hs
  have e2 : (4 * dy.m + 2) * (decDen e * P dy.e) = 4 * (dy.m * (decDen e * P dy.e)) + 2 * (decDen e * P dy.e) := by
    rw [Nat.add_mul, Nat.mul_assoc]
  have e3 : (2 * dy.m + 1) * (decDen e * P dy.e) = 2 * (dy.m * (decDen e * P dy.e)) + decDen e * P dy.e := odd_mul _ _
  have e4 : 2 * dy.m * (decDen e * P dy.e) = 2 * (dy.m * (decDen e * P dy.e)) := Nat.mul_assoc _ _ _
  have e5 : 4 * dy.m * (decDen e * P dy.e) = 4 * (dy.m * (decDen e * P dy.e)) := Nat.mul_assoc _ _ _
  have hw : decDen e * P dy.e ≤ dy.m * (decDen e * P dy.e) := Nat.le_mul_of_pos_left _ hM1
  rw [e2]
  generalize hS : mmShiftOf (mantOf b) (expOf b) = s at *
  generalize hu : decDen e * P dy.e = u at *
  generalize ha : decNum m e * Q dy.e = a at *
  generalize hX : (4 * dy.m - 1 - s) * u = X at *
  generalize hw' : dy.m * u = w at *
  have hs01 : s = 0 ∨ s = 1 := by omega
  constructor
  · intro h
    by_cases hev : dy.m % 2 = 0
    · rw [if_pos hev] at h
      obtain ⟨h1, h2⟩ := h
      exact
        { mant_lt := F.m_lt, exp_ge := F.e_ge, exp_le := F.e_le, normal := F.normal
          upper := by rw [ha, hu, e3]; omega
          upper_tie := fun _ => hev
          lower := by rw [ha, hu, e4]; rcases hs01 with h | h <;> subst h <;> omega
          lower_tie := fun _ => hev
          lower_binade := fun hM hE => by
            have : s = 0 := hsz.mpr ⟨hM, hE⟩
            subst this
            rw [ha, hu, e5]; omega }
    · rw [if_neg hev] at h
      obtain ⟨h1, h2⟩ := h
      have hs1 : s = 1 := by
        rcases hs01 with h | h
        · have := (hsz.mp h).1; rw [this] at hev; exact absurd (by decide) hev
        · exact h
      subst hs1
      exact
        { mant_lt := F.m_lt, exp_ge := F.e_ge, exp_le := F.e_le, normal := F.normal
          upper := by rw [ha, hu, e3]; omega
          upper_tie := fun ht => by rw [ha, hu, e3] at ht; omega
          lower := by rw [ha, hu, e4]; omega
          lower_tie := fun ht => by rw [ha, hu, e4] at ht; omega
          lower_binade := fun hM hE => by
            have : (1 : Nat) = 0 := hsz.mpr ⟨hM, hE⟩
            omega }
  · intro hN
    have hup := hN.upper
    have hut := hN.upper_tie
    have hlo := hN.lower
    have hlt := hN.lower_tie
    have hlb := hN.lower_binade
    rw [ha, hu] at hup hut hlo hlt hlb
    rw [e3] at hup hut
    rw [e4] at hlo hlt
    rw [e5] at hlb
    by_cases hev : dy.m % 2 = 0
    · rw [if_pos hev]
      rcases hs01 with h | h
      · subst h
        have := hlb (hsz.mp rfl).1 (hsz.mp rfl).2
        omega
      · subst h; omega
    · rw [if_neg hev]
      have hs1 : s = 1 := by
        rcases hs01 with h | h
        · have := (hsz.mp h).1; rw [this] at hev; exact absurd (by decide) hev
        · exact h
      subst hs1
      have t1 : ¬ 2 * a = 2 * w + u := fun ht => hev (hut ht)
      have t2 : ¬ 2 * w = 2 * a + u := fun ht => hev (hlt ht)
      omega

/-- **1. `interval_iff_roundtrip`.** For a finite non-zero float `b` of positive sign (`decode b = some dy`, `dy.neg = false`,
`dy.m ≠ 0`) and a decimal `m·10^e` with `m > 0`: the decimal lies in the rounding interval of `b` — between the midpoints
`mm·2^e2` and `mp·2^e2` to the neighbouring floats (`interval_lower`, `interval_upper`), ends included iff the significand is
even (`acceptBoundsOf`) — if and only if the correctly rounding parser `Num.ofDecimal` returns exactly `b` for it. -/
theorem interval_iff_roundtrip (b : UInt64) (dy : Num.Dyadic) (hd : decode b = some dy) (hneg : dy.neg = false)
    (h0 : dy.m ≠ 0) (m : Nat) (e : Int) (hm : 0 < m) :
    InInterval b m e ↔ ofDecimal false m e = b := by
  have F := fields_of_decode b dy hd h0
  rw [inInterval_iff_isNearest b dy F m e]
  have hdy : dy = ⟨false, dy.m, dy.e⟩ := by
    cases dy with
    | mk n' m' e' => simp only at hneg; rw [hneg]
  constructor
  · intro hN
    rcases ofDecimal_cases false m e with ⟨M, E, hdec, hN'⟩ | ⟨-, hov⟩
    · obtain ⟨h1, h2⟩ := isNearest_unique (decDen_pos e) hN hN'
      apply decode_inj (dy := dy) _ hd
      rw [hdec, hdy, h1, h2]
    · exact absurd hov (isNearest_not_overflow (decDen_pos e) hN)
  · intro hb
    have := (ofDecimal_correct false m e hm).1 false dy.m dy.e (by rw [hb, hd]; exact congrArg some hdy)
    exact this.2.1

/-- the interval ends of `InInterval` are the midpoints to the neighbouring floats (restating `interval_lower`,
`interval_upper`, `interval_value` of `C16Core` for the record: everything scaled by `2^1076`) -/
theorem interval_ends (b : UInt64) (dy : Num.Dyadic) (h : decode b = some dy) :
    scaled (mvOf (decodeM2 (mantOf b) (expOf b))) (decodeE2 (expOf b)) = scaled dy.m dy.e ∧
    (∀ dy', decode (b + 1) = some dy' →
      2 * scaled (mpOf (decodeM2 (mantOf b) (expOf b))) (decodeE2 (expOf b)) = scaled dy.m dy.e + scaled dy'.m dy'.e) ∧
    (∀ dy', decode (b - 1) = some dy' → dy.m ≠ 0 →
      2 * scaled (mmOf (decodeM2 (mantOf b) (expOf b)) (mmShiftOf (mantOf b) (expOf b))) (decodeE2 (expOf b)) =
        scaled dy.m dy.e + scaled dy'.m dy'.e) :=
  ⟨interval_value b dy h, fun dy' h' => interval_upper b dy dy' h h', fun dy' h' h0 => interval_lower b dy dy' h h' h0⟩

#print axioms interval_iff_roundtrip
#print axioms inInterval_iff_isNearest

end QF.Props.C16Link
