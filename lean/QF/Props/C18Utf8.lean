import QF.Props.C18Like
import QF.Props.C18UpperGen
/-!
# C18 — the project's UTF-8 decoder reads back what the encoder wrote (tie T1, seam of `gen_like_upper_cell`)

`Json.decodeRune` (QF/Spec/Json.lean: Go's `utf8.DecodeRune`; used by `decodeAll` of the like mirror, by the C14 spec and by the
evaluation environments) applied to the UTF-8 encoding `U.enc c` (= Lean's `String.utf8EncodeChar c`) of ANY `Char`, followed by
any bytes, gives the code point and its width: `decodeRune_enc`, by the four length cases, plain arithmetic on the byte values
(`dec1` … `dec4`: the decoder on a well-formed sequence). Hence

* `decodeAll_encs`  — `decodeAll (encs chars) = chars` for every list of code points;
* `upper_encs`      — the specification's upper-casing of a valid UTF-8 string is the encoding of the mapped code points;
* `encodeRune_enc`  — the project's encoder `Json.encodeRune` writes `U.enc`;
* `jsonEnv_ok`      — the environment built from the project's own decoder and encoder has the properties `UpperEnv` that
                      `C18UpperGen.gen_toUpper_semantics` asks of the UTF-8 primitives (beside `coreEnv_ok` for Lean core's).
-/
set_option linter.unusedSimpArgs false
namespace QF.Props.C18Utf8
open QF QF.Drv
open U (enc)
open QF.Props.C18UpperGen (encs encs_cons encs_nil)

theorem valid_nat (c : Char) : c.toNat < 0xd800 ∨ (0xdfff < c.toNat ∧ c.toNat < 0x110000) := c.valid

theorem toNat_ofNat8 (n : Nat) : (UInt8.ofNat n).toNat = n % 256 := UInt8.toNat_ofNat'

theorem enc_eq (c : Char) : enc c =
    if c.toNat ≤ 0x7f then [UInt8.ofNat c.toNat]
    else if c.toNat ≤ 0x7ff then [UInt8.ofNat (c.toNat / 64 % 0x20 + 0xc0), UInt8.ofNat (c.toNat % 0x40 + 0x80)]
    else if c.toNat ≤ 0xffff then [UInt8.ofNat (c.toNat / 4096 % 0x10 + 0xe0), UInt8.ofNat (c.toNat / 64 % 0x40 + 0x80),
      UInt8.ofNat (c.toNat % 0x40 + 0x80)]
    else [UInt8.ofNat (c.toNat / 262144 % 0x08 + 0xf0), UInt8.ofNat (c.toNat / 4096 % 0x40 + 0x80),
      UInt8.ofNat (c.toNat / 64 % 0x40 + 0x80), UInt8.ofNat (c.toNat % 0x40 + 0x80)] := rfl

theorem size_eq (c : Char) : c.utf8Size =
    if c.toNat ≤ 0x7f then 1 else if c.toNat ≤ 0x7ff then 2 else if c.toNat ≤ 0xffff then 3 else 4 := by
  unfold Char.utf8Size
  simp only [UInt32.le_iff_toNat_le]
  rfl

theorem beq8 (a : UInt8) (n : Nat) (hn : n < 256) : (a == UInt8.ofNat n) = decide (a.toNat = n) := by
  rw [Bool.eq_iff_iff, beq_iff_eq, decide_eq_true_eq, ← UInt8.toNat_inj, toNat_ofNat8, Nat.mod_eq_of_lt hn]

/-- the decoder on a well-formed sequence, by the value of the bytes -/
theorem dec1 (b0 : UInt8) (rest : Bytes) (h : b0.toNat < 0x80) : Json.decodeRune (b0 :: rest) = (b0.toNat, 1) := by
  have : b0 < 0x80 := by rw [UInt8.lt_iff_toNat_lt]; exact h
  simp only [Json.decodeRune, this, if_true]

theorem dec2 (b0 b1 : UInt8) (rest : Bytes) (h0 : 0xC2 ≤ b0.toNat ∧ b0.toNat ≤ 0xDF) (h1 : 0x80 ≤ b1.toNat ∧ b1.toNat ≤ 0xBF) :
    Json.decodeRune (b0 :: b1 :: rest) = ((b0.toNat % 32) * 64 + b1.toNat % 64, 2) := by
  simp only [Json.decodeRune, UInt8.lt_iff_toNat_lt, UInt8.le_iff_toNat_le, Bool.and_eq_true, decide_eq_true_eq]
  rw [if_neg (by simp; omega), if_pos (by simp; omega), if_pos (by simp; omega)]

theorem dec3 (b0 b1 b2 : UInt8) (rest : Bytes) (h0 : 0xE0 ≤ b0.toNat ∧ b0.toNat ≤ 0xEF)
    (h1 : 0x80 ≤ b1.toNat ∧ b1.toNat ≤ 0xBF) (hlo : b0.toNat = 0xE0 → 0xA0 ≤ b1.toNat) (hhi : b0.toNat = 0xED → b1.toNat ≤ 0x9F)
    (h2 : 0x80 ≤ b2.toNat ∧ b2.toNat ≤ 0xBF) :
    Json.decodeRune (b0 :: b1 :: b2 :: rest) = ((b0.toNat % 16) * 4096 + (b1.toNat % 64) * 64 + b2.toNat % 64, 3) := by
  have e1 : (b0 == 0xE0) = decide (b0.toNat = 0xE0) := beq8 b0 0xE0 (by omega)
  have e2 : (b0 == 0xED) = decide (b0.toNat = 0xED) := beq8 b0 0xED (by omega)
  simp only [Json.decodeRune, UInt8.lt_iff_toNat_lt, UInt8.le_iff_toNat_le, Bool.and_eq_true, decide_eq_true_eq, e1, e2]
  rw [if_neg (by simp; omega), if_neg (by simp; omega), if_pos (by simp; omega)]
  by_cases ha : b0.toNat = 0xE0 <;> by_cases hb : b0.toNat = 0xED <;> simp only [ha, hb, decide_true, decide_false, if_true, if_false, Bool.false_eq_true] <;>
    rw [if_pos (by simp; omega)]

theorem dec4 (b0 b1 b2 b3 : UInt8) (rest : Bytes) (h0 : 0xF0 ≤ b0.toNat ∧ b0.toNat ≤ 0xF4)
    (h1 : 0x80 ≤ b1.toNat ∧ b1.toNat ≤ 0xBF) (hlo : b0.toNat = 0xF0 → 0x90 ≤ b1.toNat) (hhi : b0.toNat = 0xF4 → b1.toNat ≤ 0x8F)
    (h2 : 0x80 ≤ b2.toNat ∧ b2.toNat ≤ 0xBF) (h3 : 0x80 ≤ b3.toNat ∧ b3.toNat ≤ 0xBF) :
    Json.decodeRune (b0 :: b1 :: b2 :: b3 :: rest) =
      ((b0.toNat % 8) * 262144 + (b1.toNat % 64) * 4096 + (b2.toNat % 64) * 64 + b3.toNat % 64, 4) := by
  have e1 : (b0 == 0xF0) = decide (b0.toNat = 0xF0) := beq8 b0 0xF0 (by omega)
  have e2 : (b0 == 0xF4) = decide (b0.toNat = 0xF4) := beq8 b0 0xF4 (by omega)
  simp only [Json.decodeRune, UInt8.lt_iff_toNat_lt, UInt8.le_iff_toNat_le, Bool.and_eq_true, decide_eq_true_eq, e1, e2]
  rw [if_neg (by simp; omega), if_neg (by simp; omega), if_neg (by simp; omega), if_pos (by simp; omega)]
  by_cases ha : b0.toNat = 0xF0 <;> by_cases hb : b0.toNat = 0xF4 <;> simp only [ha, hb, decide_true, decide_false, if_true, if_false, Bool.false_eq_true] <;>
    rw [if_pos (by simp; omega)]

/-- **the project's decoder reads back the encoding of every code point** (followed by anything) -/
theorem decodeRune_enc (c : Char) (rest : Bytes) : Json.decodeRune (enc c ++ rest) = (c.toNat, c.utf8Size) := by
  rw [enc_eq, size_eq]
  have hv := valid_nat c
  generalize c.toNat = v at *
  by_cases h1 : v ≤ 0x7f
  · simp only [h1, if_true, List.cons_append, List.nil_append]
    rw [dec1 _ _ (by rw [toNat_ofNat8]; omega), toNat_ofNat8]
    congr 1; omega
  by_cases h2 : v ≤ 0x7ff
  · simp only [h1, h2, if_true, if_false, List.cons_append, List.nil_append]
    rw [dec2 _ _ _ (by rw [toNat_ofNat8]; omega) (by rw [toNat_ofNat8]; omega), toNat_ofNat8, toNat_ofNat8]
    congr 1; omega
  by_cases h3 : v ≤ 0xffff
  · simp only [h1, h2, h3, if_true, if_false, List.cons_append, List.nil_append]
    rw [dec3 _ _ _ _ (by rw [toNat_ofNat8]; omega) (by rw [toNat_ofNat8]; omega) (by rw [toNat_ofNat8, toNat_ofNat8]; omega)
      (by rw [toNat_ofNat8, toNat_ofNat8]; omega) (by rw [toNat_ofNat8]; omega), toNat_ofNat8, toNat_ofNat8, toNat_ofNat8]
    congr 1; omega
  · simp only [h1, h2, h3, if_true, if_false, List.cons_append, List.nil_append]
    rw [dec4 _ _ _ _ _ (by rw [toNat_ofNat8]; omega) (by rw [toNat_ofNat8]; omega) (by rw [toNat_ofNat8, toNat_ofNat8]; omega)
      (by rw [toNat_ofNat8, toNat_ofNat8]; omega) (by rw [toNat_ofNat8]; omega) (by rw [toNat_ofNat8]; omega),
      toNat_ofNat8, toNat_ofNat8, toNat_ofNat8, toNat_ofNat8]
    congr 1; omega

theorem ofNat_toNat (c : Char) : Char.ofNat c.toNat = c := Char.ofNat_toNat c

theorem go_encs : ∀ (cs : List Char) (fuel : Nat) (acc : List Char), (encs cs).length < fuel →
    decodeAll.go fuel (encs cs) acc = acc.reverse ++ cs := by
  intro cs
  induction cs with
  | nil => intro fuel acc h; cases fuel <;> simp [decodeAll.go, encs_nil]
  | cons c cs ih =>
    intro fuel acc h
    have hl : (enc c).length = c.utf8Size := C18UpperGen.length_enc c
    have hp := Char.utf8Size_pos c
    rw [encs_cons, List.length_append] at h
    cases fuel with
    | zero => omega
    | succ n =>
      have hne : enc c ++ encs cs ≠ [] := by
        intro e; have := congrArg List.length e; rw [List.length_append, hl, List.length_nil] at this; omega
      rw [encs_cons, decodeAll.go]
      · simp only [decodeRune_enc, ofNat_toNat]
        have hm : max c.utf8Size 1 = (enc c).length := by omega
        rw [hm, List.drop_left, ih n (c :: acc) (by omega)]
        simp
      · intro e; exact hne e

/-- **decoding the UTF-8 encoding of a list of code points gives the list back** (the project's decoder, every list) -/
theorem decodeAll_encs (chars : List Char) : decodeAll (encs chars) = chars := by
  unfold decodeAll
  rw [go_encs chars _ [] (Nat.lt_succ_self _)]
  rfl

/-- the specification's upper-casing on a valid UTF-8 string: the encoding of the mapped code points -/
theorem upper_encs (up : Char → Char) (chars : List Char) : C18Like.upper up (encs chars) = encs (chars.map up) := by
  unfold C18Like.upper
  rw [decodeAll_encs]; rfl

/-- the project's encoder writes `U.enc` -/
theorem encodeRune_enc (c : Char) : Json.encodeRune c.toNat = enc c := by
  rw [enc_eq]
  have hv := valid_nat c
  generalize c.toNat = v at *
  unfold Json.encodeRune
  have e8 : ∀ a b : Nat, a % 256 = b % 256 → UInt8.ofNat a = UInt8.ofNat b := by
    intro a b h; rw [← UInt8.toNat_inj, toNat_ofNat8, toNat_ofNat8, h]
  by_cases h1 : v ≤ 0x7f
  · rw [if_pos (by omega), if_pos h1]
  by_cases h2 : v ≤ 0x7ff
  · rw [if_neg (by omega), if_pos (by omega), if_neg h1, if_pos h2]
    congr 1
    · exact e8 _ _ (by omega)
    · congr 1; exact e8 _ _ (by omega)
  by_cases h3 : v ≤ 0xffff
  · rw [if_neg (by omega), if_neg (by omega), if_pos (by omega), if_neg h1, if_neg h2, if_pos h3]
    congr 1
    · exact e8 _ _ (by omega)
    · congr 1
      · exact e8 _ _ (by omega)
      · congr 1; exact e8 _ _ (by omega)
  · rw [if_neg (by omega), if_neg (by omega), if_neg (by omega), if_neg h1, if_neg h2, if_neg h3]
    congr 1
    · exact e8 _ _ (by omega)
    · congr 1
      · exact e8 _ _ (by omega)
      · congr 1
        · exact e8 _ _ (by omega)
        · congr 1; exact e8 _ _ (by omega)

/-- the environment of the project's own UTF-8 decoder and encoder (QF/Spec/Json.lean) -/
def jsonEnv (up : Char → Char) (fuel : Nat) : ST.Env :=
  { fuel := fuel,
    decode := fun t => (((Json.decodeRune t).1 : Nat), (Json.decodeRune t).2),
    encode := fun r => Json.encodeRune r.toNat,
    runeLen := fun r => ((Json.encodeRune r.toNat).length : Nat),
    toUpper := fun r => ((up (Char.ofNat r.toNat)).toNat : Int),
    newMatcher := fun _ _ => .error .badPattern }

theorem jsonEnv_ok (up : Char → Char) (fuel : Nat) : C18UpperGen.UpperEnv (jsonEnv up fuel) up where
  decode c rest := by simp only [jsonEnv, decodeRune_enc]
  encode c := by simp only [jsonEnv, Int.toNat_natCast, encodeRune_enc]
  runeLen c := by simp only [jsonEnv, Int.toNat_natCast, encodeRune_enc, C18UpperGen.length_enc]
  toUpper c := by simp only [jsonEnv, Int.toNat_natCast, Char.ofNat_toNat]

/-- concrete: one code point of each length (`x`, `é`, `€`, U+1F600), followed by a stray continuation byte -/
example : Json.decodeRune (enc 'x' ++ [0x80]) = (0x78, 1) ∧ Json.decodeRune (enc 'é' ++ [0x80]) = (0xE9, 2) ∧
    Json.decodeRune (enc '€' ++ [0x80]) = (0x20AC, 3) ∧ Json.decodeRune (enc (Char.ofNat 0x1F600) ++ [0x80]) = (0x1F600, 4) := by
  decide +kernel

end QF.Props.C18Utf8

#print axioms QF.Props.C18Utf8.decodeRune_enc
#print axioms QF.Props.C18Utf8.decodeAll_encs
#print axioms QF.Props.C18Utf8.upper_encs
#print axioms QF.Props.C18Utf8.encodeRune_enc
#print axioms QF.Props.C18Utf8.jsonEnv_ok
