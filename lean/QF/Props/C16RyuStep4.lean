import QF.Props.C16RyuMain
/-!
# C16 — the meaning of the canonical Ryu terms (3): step 4 of `float64ToDecimal` and the function as a whole

* `g1_loop`, `g2_loop`, `c100_loop`, `c10_loop` — the three digit-removal loops of step 4 (the one-digit loop occurs in both
  cases) are the mirror's `loopGeneral1`, `loopGeneral2`, `loopCommon100`, `loopCommon10`: by induction on the mirror's fuel,
  for every loop fuel of the interpretation that is larger, provided the value that shrinks is below `10^fuel` (so that the
  Go loop condition — not the fuel — ends the loop)
* `exec_general`, `exec_common` — the two cases of step 4 are `Ryu64.step4General`, `Ryu64.step4Common`
* `call_toDecimal` — function 1 returns `Ryu64.float64ToDecimal mant exp`
-/
namespace QF.Props.C16RyuGen
open QF QF.RY
set_option linter.unusedSimpArgs false
set_option linter.unusedVariables false

/-! ## `float64ToDecimal`: step 4, the loops -/

theorem u8_mod10 (x : Nat) : ((x : Int) % 10 % 256).toNat = x % 10 := by omega

theorem g1_body_brk (Γ : Env) (v0 v1 v2 v3 v4 v5 v6 v7 e10 out : Val) (s : Ryu64.Gen) (hvp : s.vp / 10 ≤ s.vm / 10) :
    general1Body.exec Γ [v0, v1, v2, v3, v4, v5, v6, v7, .u 64 s.vr, .u 64 s.vp, .u 64 s.vm, e10, .bool s.vmIsTrailingZeros,
          .bool s.vrIsTrailingZeros, .i 32 s.removed, .u 8 s.lastRemovedDigit, out] =
      .brk [v0, v1, v2, v3, v4, v5, v6, v7, .u 64 s.vr, .u 64 s.vp, .u 64 s.vm, e10, .bool s.vmIsTrailingZeros,
          .bool s.vrIsTrailingZeros, .i 32 s.removed, .u 8 s.lastRemovedDigit, out] := by
  rewrite [xscope]
  xs []
  xs []
  xif [hvp]
  xs []

theorem g1_body_next (Γ : Env) (v0 v1 v2 v3 v4 v5 v6 v7 e10 out : Val) (s : Ryu64.Gen) (hvp : ¬ s.vp / 10 ≤ s.vm / 10)
    (hr0 : -2147483648 ≤ s.removed) (hr1 : s.removed + 1 < 2147483648) :
    general1Body.exec Γ [v0, v1, v2, v3, v4, v5, v6, v7, .u 64 s.vr, .u 64 s.vp, .u 64 s.vm, e10, .bool s.vmIsTrailingZeros,
          .bool s.vrIsTrailingZeros, .i 32 s.removed, .u 8 s.lastRemovedDigit, out] =
      .next [v0, v1, v2, v3, v4, v5, v6, v7, .u 64 (s.vr / 10), .u 64 (s.vp / 10), .u 64 (s.vm / 10), e10,
          .bool (s.vmIsTrailingZeros && s.vm % 10 == 0),
          .bool (s.vrIsTrailingZeros && s.lastRemovedDigit == 0), .i 32 (s.removed + 1), .u 8 (s.vr % 10), out] := by
  rewrite [xscope]
  xs []
  xs []
  xif [hvp]
  xs []
  xs []
  xs []
  xs []
  xs []
  xs []
  xs []
  xs []
  xs []
  xs []
  rw [u8_mod10]

theorem g1_loop (Γ : Env) (v0 v1 v2 v3 v4 v5 v6 v7 e10 out : Val) : ∀ (fuel : Nat) (s : Ryu64.Gen) (F : Nat),
    s.vp < 10 ^ fuel → fuel < F → -2147483648 ≤ s.removed → s.removed + fuel < 2147483648 →
    forLoop (condOf Γ (E.bool true)) (execOf Γ general1Body) (execOf Γ (S.block [])) F
        [v0, v1, v2, v3, v4, v5, v6, v7, .u 64 s.vr, .u 64 s.vp, .u 64 s.vm, e10, .bool s.vmIsTrailingZeros,
          .bool s.vrIsTrailingZeros, .i 32 s.removed, .u 8 s.lastRemovedDigit, out] =
      .next [v0, v1, v2, v3, v4, v5, v6, v7, .u 64 (Ryu64.loopGeneral1 fuel s).vr, .u 64 (Ryu64.loopGeneral1 fuel s).vp,
          .u 64 (Ryu64.loopGeneral1 fuel s).vm, e10, .bool (Ryu64.loopGeneral1 fuel s).vmIsTrailingZeros,
          .bool (Ryu64.loopGeneral1 fuel s).vrIsTrailingZeros, .i 32 (Ryu64.loopGeneral1 fuel s).removed,
          .u 8 (Ryu64.loopGeneral1 fuel s).lastRemovedDigit, out] := by
  intro fuel
  induction fuel with
  | zero =>
    intro s F h hF hr0 hr1
    obtain ⟨F', rfl⟩ : ∃ F', F = F' + 1 := ⟨F - 1, by omega⟩
    have hvp : s.vp / 10 ≤ s.vm / 10 := by simp at h; omega
    have hc : condOf Γ (E.bool true) [v0, v1, v2, v3, v4, v5, v6, v7, .u 64 s.vr, .u 64 s.vp, .u 64 s.vm, e10, .bool s.vmIsTrailingZeros,
          .bool s.vrIsTrailingZeros, .i 32 s.removed, .u 8 s.lastRemovedDigit, out] = some true := rfl
    rewrite [xforLoop, hc, execOf_eq, g1_body_brk Γ _ _ _ _ _ _ _ _ _ _ s hvp, stepOut_brk]
    rfl
  | succ fuel ih =>
    intro s F h hF hr0 hr1
    obtain ⟨F', rfl⟩ : ∃ F', F = F' + 1 := ⟨F - 1, by omega⟩
    have hc : condOf Γ (E.bool true) [v0, v1, v2, v3, v4, v5, v6, v7, .u 64 s.vr, .u 64 s.vp, .u 64 s.vm, e10, .bool s.vmIsTrailingZeros,
          .bool s.vrIsTrailingZeros, .i 32 s.removed, .u 8 s.lastRemovedDigit, out] = some true := rfl
    by_cases hvp : s.vp / 10 ≤ s.vm / 10
    · rewrite [xforLoop, hc, execOf_eq, g1_body_brk Γ _ _ _ _ _ _ _ _ _ _ s hvp, stepOut_brk]
      simp [Ryu64.loopGeneral1, hvp]
    · have hr1' : s.removed + 1 < 2147483648 := by omega
      have hi := ih { vmIsTrailingZeros := s.vmIsTrailingZeros && s.vm % 10 == 0
                      vrIsTrailingZeros := s.vrIsTrailingZeros && s.lastRemovedDigit == 0
                      lastRemovedDigit := s.vr % 10, vr := s.vr / 10, vp := s.vp / 10, vm := s.vm / 10
                      removed := s.removed + 1 } F' (by simp; rw [Nat.pow_succ] at h; omega) (by omega) (by simp; omega)
                      (by simp; omega)
      rewrite [xforLoop, hc, execOf_eq, g1_body_next Γ _ _ _ _ _ _ _ _ _ _ s hvp hr0 hr1', stepOut_next]
      simp [Ryu64.loopGeneral1, hvp]
      exact hi

theorem g2_body_brk (Γ : Env) (v0 v1 v2 v3 v4 v5 v6 v7 e10 out : Val) (s : Ryu64.Gen) (hvm : ¬ s.vm % 10 = 0) :
    general2Body.exec Γ [v0, v1, v2, v3, v4, v5, v6, v7, .u 64 s.vr, .u 64 s.vp, .u 64 s.vm, e10, .bool s.vmIsTrailingZeros,
          .bool s.vrIsTrailingZeros, .i 32 s.removed, .u 8 s.lastRemovedDigit, out] =
      .brk [v0, v1, v2, v3, v4, v5, v6, v7, .u 64 s.vr, .u 64 s.vp, .u 64 s.vm, e10, .bool s.vmIsTrailingZeros,
          .bool s.vrIsTrailingZeros, .i 32 s.removed, .u 8 s.lastRemovedDigit, out] := by
  have hb : (s.vm % 10 != 0) = true := by simp [hvm]
  rewrite [xscope]
  xs []
  xs []
  xif [hb]
  xs []

theorem g2_body_next (Γ : Env) (v0 v1 v2 v3 v4 v5 v6 v7 e10 out : Val) (s : Ryu64.Gen) (hvm : s.vm % 10 = 0)
    (hr0 : -2147483648 ≤ s.removed) (hr1 : s.removed + 1 < 2147483648) :
    general2Body.exec Γ [v0, v1, v2, v3, v4, v5, v6, v7, .u 64 s.vr, .u 64 s.vp, .u 64 s.vm, e10, .bool s.vmIsTrailingZeros,
          .bool s.vrIsTrailingZeros, .i 32 s.removed, .u 8 s.lastRemovedDigit, out] =
      .next [v0, v1, v2, v3, v4, v5, v6, v7, .u 64 (s.vr / 10), .u 64 (s.vp / 10), .u 64 (s.vm / 10), e10,
          .bool s.vmIsTrailingZeros,
          .bool (s.vrIsTrailingZeros && s.lastRemovedDigit == 0), .i 32 (s.removed + 1), .u 8 (s.vr % 10), out] := by
  have hb : (s.vm % 10 != 0) = false := by simp [hvm]
  rewrite [xscope]
  xs []
  xs []
  xif [hb]
  xs []
  xs []
  xs []
  xs []
  xs []
  xs []
  xs []
  xs []
  xs []
  rw [u8_mod10]

theorem g2_loop (Γ : Env) (v0 v1 v2 v3 v4 v5 v6 v7 e10 out : Val) : ∀ (fuel : Nat) (s : Ryu64.Gen) (F : Nat),
    s.vm ≠ 0 → s.vm < 10 ^ fuel → fuel < F → -2147483648 ≤ s.removed → s.removed + fuel < 2147483648 →
    forLoop (condOf Γ (E.bool true)) (execOf Γ general2Body) (execOf Γ (S.block [])) F
        [v0, v1, v2, v3, v4, v5, v6, v7, .u 64 s.vr, .u 64 s.vp, .u 64 s.vm, e10, .bool s.vmIsTrailingZeros,
          .bool s.vrIsTrailingZeros, .i 32 s.removed, .u 8 s.lastRemovedDigit, out] =
      .next [v0, v1, v2, v3, v4, v5, v6, v7, .u 64 (Ryu64.loopGeneral2 fuel s).vr, .u 64 (Ryu64.loopGeneral2 fuel s).vp,
          .u 64 (Ryu64.loopGeneral2 fuel s).vm, e10, .bool (Ryu64.loopGeneral2 fuel s).vmIsTrailingZeros,
          .bool (Ryu64.loopGeneral2 fuel s).vrIsTrailingZeros, .i 32 (Ryu64.loopGeneral2 fuel s).removed,
          .u 8 (Ryu64.loopGeneral2 fuel s).lastRemovedDigit, out] := by
  intro fuel
  induction fuel with
  | zero => intro s F h0 h; simp at h; omega
  | succ fuel ih =>
    intro s F h0 h hF hr0 hr1
    obtain ⟨F', rfl⟩ : ∃ F', F = F' + 1 := ⟨F - 1, by omega⟩
    have hc : condOf Γ (E.bool true) [v0, v1, v2, v3, v4, v5, v6, v7, .u 64 s.vr, .u 64 s.vp, .u 64 s.vm, e10, .bool s.vmIsTrailingZeros,
          .bool s.vrIsTrailingZeros, .i 32 s.removed, .u 8 s.lastRemovedDigit, out] = some true := rfl
    by_cases hvm : s.vm % 10 = 0
    · have hr1' : s.removed + 1 < 2147483648 := by omega
      have hi := ih { vmIsTrailingZeros := s.vmIsTrailingZeros
                      vrIsTrailingZeros := s.vrIsTrailingZeros && s.lastRemovedDigit == 0
                      lastRemovedDigit := s.vr % 10, vr := s.vr / 10, vp := s.vp / 10, vm := s.vm / 10
                      removed := s.removed + 1 } F' (by simp; omega) (by simp; rw [Nat.pow_succ] at h; omega) (by omega)
                      (by simp; omega) (by simp; omega)
      rewrite [xforLoop, hc, execOf_eq, g2_body_next Γ _ _ _ _ _ _ _ _ _ _ s hvm hr0 hr1', stepOut_next]
      simp [Ryu64.loopGeneral2, hvm]
      exact hi
    · rewrite [xforLoop, hc, execOf_eq, g2_body_brk Γ _ _ _ _ _ _ _ _ _ _ s hvm, stepOut_brk]
      simp [Ryu64.loopGeneral2, hvm]

theorem c100_body (Γ : Env) (v0 v1 v2 v3 v4 v5 v6 v7 e10 f12 f13 last out : Val) (s : Ryu64.Com)
    (hr0 : -2147483648 ≤ s.removed) (hr1 : s.removed + 2 < 2147483648) :
    common100Body.exec Γ [v0, v1, v2, v3, v4, v5, v6, v7, .u 64 s.vr, .u 64 s.vp, .u 64 s.vm, e10, f12, f13,
          .i 32 s.removed, last, out, .bool s.roundUp] =
      .next [v0, v1, v2, v3, v4, v5, v6, v7, .u 64 (s.vr / 100), .u 64 (s.vp / 100), .u 64 (s.vm / 100), e10, f12, f13,
          .i 32 (s.removed + 2), last, out, .bool (decide (s.vr % 100 ≥ 50))] := by
  rewrite [xscope]
  xs []
  xs []
  xs []
  xs []
  xs []

theorem c100_loop (Γ : Env) (v0 v1 v2 v3 v4 v5 v6 v7 e10 f12 f13 last out : Val) : ∀ (fuel : Nat) (s : Ryu64.Com) (F : Nat),
    s.vp < 100 ^ fuel → fuel < F → -2147483648 ≤ s.removed → s.removed + 2 * fuel < 2147483648 →
    forLoop (condOf Γ common100Cond) (execOf Γ common100Body) (execOf Γ (S.block [])) F
        [v0, v1, v2, v3, v4, v5, v6, v7, .u 64 s.vr, .u 64 s.vp, .u 64 s.vm, e10, f12, f13,
          .i 32 s.removed, last, out, .bool s.roundUp] =
      .next [v0, v1, v2, v3, v4, v5, v6, v7, .u 64 (Ryu64.loopCommon100 fuel s).vr, .u 64 (Ryu64.loopCommon100 fuel s).vp,
          .u 64 (Ryu64.loopCommon100 fuel s).vm, e10, f12, f13, .i 32 (Ryu64.loopCommon100 fuel s).removed, last, out,
          .bool (Ryu64.loopCommon100 fuel s).roundUp] := by
  intro fuel
  induction fuel with
  | zero =>
    intro s F h hF hr0 hr1
    obtain ⟨F', rfl⟩ : ∃ F', F = F' + 1 := ⟨F - 1, by omega⟩
    have hvp : ¬ (s.vp / 100 > s.vm / 100) := by simp at h; omega
    have hc : condOf Γ common100Cond [v0, v1, v2, v3, v4, v5, v6, v7, .u 64 s.vr, .u 64 s.vp, .u 64 s.vm, e10, f12, f13,
          .i 32 s.removed, last, out, .bool s.roundUp] = some false := by
      rewrite [condOf_eq]; exec_simp [hvp]
    rewrite [xforLoop, hc, stepOut_false]
    rfl
  | succ fuel ih =>
    intro s F h hF hr0 hr1
    obtain ⟨F', rfl⟩ : ∃ F', F = F' + 1 := ⟨F - 1, by omega⟩
    by_cases hvp : s.vp / 100 > s.vm / 100
    · have hc : condOf Γ common100Cond [v0, v1, v2, v3, v4, v5, v6, v7, .u 64 s.vr, .u 64 s.vp, .u 64 s.vm, e10, f12, f13,
          .i 32 s.removed, last, out, .bool s.roundUp] = some true := by
        rewrite [condOf_eq]; exec_simp [hvp]
      have hr1' : s.removed + 2 < 2147483648 := by omega
      have hi := ih { roundUp := decide (s.vr % 100 ≥ 50), vr := s.vr / 100, vp := s.vp / 100, vm := s.vm / 100,
                      removed := s.removed + 2 } F' (by simp; rw [Nat.pow_succ] at h; omega) (by omega) (by simp; omega)
                      (by simp; omega)
      rewrite [xforLoop, hc, execOf_eq, c100_body Γ _ _ _ _ _ _ _ _ _ _ _ _ _ s hr0 hr1', stepOut_next]
      simp [Ryu64.loopCommon100, hvp]
      exact hi
    · have hc : condOf Γ common100Cond [v0, v1, v2, v3, v4, v5, v6, v7, .u 64 s.vr, .u 64 s.vp, .u 64 s.vm, e10, f12, f13,
          .i 32 s.removed, last, out, .bool s.roundUp] = some false := by
        rewrite [condOf_eq]; exec_simp [hvp]
      rewrite [xforLoop, hc, stepOut_false]
      simp [Ryu64.loopCommon100, hvp]

theorem c10_body (Γ : Env) (v0 v1 v2 v3 v4 v5 v6 v7 e10 f12 f13 last out : Val) (s : Ryu64.Com)
    (hr0 : -2147483648 ≤ s.removed) (hr1 : s.removed + 1 < 2147483648) :
    common10Body.exec Γ [v0, v1, v2, v3, v4, v5, v6, v7, .u 64 s.vr, .u 64 s.vp, .u 64 s.vm, e10, f12, f13,
          .i 32 s.removed, last, out, .bool s.roundUp] =
      .next [v0, v1, v2, v3, v4, v5, v6, v7, .u 64 (s.vr / 10), .u 64 (s.vp / 10), .u 64 (s.vm / 10), e10, f12, f13,
          .i 32 (s.removed + 1), last, out, .bool (decide (s.vr % 10 ≥ 5))] := by
  rewrite [xscope]
  xs []
  xs []
  xs []
  xs []
  xs []

theorem c10_loop (Γ : Env) (v0 v1 v2 v3 v4 v5 v6 v7 e10 f12 f13 last out : Val) : ∀ (fuel : Nat) (s : Ryu64.Com) (F : Nat),
    s.vp < 10 ^ fuel → fuel < F → -2147483648 ≤ s.removed → s.removed + 1 * fuel < 2147483648 →
    forLoop (condOf Γ common10Cond) (execOf Γ common10Body) (execOf Γ (S.block [])) F
        [v0, v1, v2, v3, v4, v5, v6, v7, .u 64 s.vr, .u 64 s.vp, .u 64 s.vm, e10, f12, f13,
          .i 32 s.removed, last, out, .bool s.roundUp] =
      .next [v0, v1, v2, v3, v4, v5, v6, v7, .u 64 (Ryu64.loopCommon10 fuel s).vr, .u 64 (Ryu64.loopCommon10 fuel s).vp,
          .u 64 (Ryu64.loopCommon10 fuel s).vm, e10, f12, f13, .i 32 (Ryu64.loopCommon10 fuel s).removed, last, out,
          .bool (Ryu64.loopCommon10 fuel s).roundUp] := by
  intro fuel
  induction fuel with
  | zero =>
    intro s F h hF hr0 hr1
    obtain ⟨F', rfl⟩ : ∃ F', F = F' + 1 := ⟨F - 1, by omega⟩
    have hvp : ¬ (s.vp / 10 > s.vm / 10) := by simp at h; omega
    have hc : condOf Γ common10Cond [v0, v1, v2, v3, v4, v5, v6, v7, .u 64 s.vr, .u 64 s.vp, .u 64 s.vm, e10, f12, f13,
          .i 32 s.removed, last, out, .bool s.roundUp] = some false := by
      rewrite [condOf_eq]; exec_simp [hvp]
    rewrite [xforLoop, hc, stepOut_false]
    rfl
  | succ fuel ih =>
    intro s F h hF hr0 hr1
    obtain ⟨F', rfl⟩ : ∃ F', F = F' + 1 := ⟨F - 1, by omega⟩
    by_cases hvp : s.vp / 10 > s.vm / 10
    · have hc : condOf Γ common10Cond [v0, v1, v2, v3, v4, v5, v6, v7, .u 64 s.vr, .u 64 s.vp, .u 64 s.vm, e10, f12, f13,
          .i 32 s.removed, last, out, .bool s.roundUp] = some true := by
        rewrite [condOf_eq]; exec_simp [hvp]
      have hr1' : s.removed + 1 < 2147483648 := by omega
      have hi := ih { roundUp := decide (s.vr % 10 ≥ 5), vr := s.vr / 10, vp := s.vp / 10, vm := s.vm / 10,
                      removed := s.removed + 1 } F' (by simp; rw [Nat.pow_succ] at h; omega) (by omega) (by simp; omega)
                      (by simp; omega)
      rewrite [xforLoop, hc, execOf_eq, c10_body Γ _ _ _ _ _ _ _ _ _ _ _ _ _ s hr0 hr1', stepOut_next]
      simp [Ryu64.loopCommon10, hvp]
      exact hi
    · have hc : condOf Γ common10Cond [v0, v1, v2, v3, v4, v5, v6, v7, .u 64 s.vr, .u 64 s.vp, .u 64 s.vm, e10, f12, f13,
          .i 32 s.removed, last, out, .bool s.roundUp] = some false := by
        rewrite [condOf_eq]; exec_simp [hvp]
      rewrite [xforLoop, hc, stepOut_false]
      simp [Ryu64.loopCommon10, hvp]

/-! ## facts about the mirror's loops -/

theorem lc100_facts : ∀ (fuel : Nat) (s : Ryu64.Com),
    (Ryu64.loopCommon100 fuel s).vp ≤ s.vp ∧ s.removed ≤ (Ryu64.loopCommon100 fuel s).removed ∧
      (Ryu64.loopCommon100 fuel s).removed ≤ s.removed + 2 * fuel := by
  intro fuel
  induction fuel with
  | zero => intro s; simp [Ryu64.loopCommon100]
  | succ fuel ih =>
    intro s
    unfold Ryu64.loopCommon100
    split
    · obtain ⟨a, b, c⟩ := ih { roundUp := decide (s.vr % 100 ≥ 50), vr := s.vr / 100, vp := s.vp / 100, vm := s.vm / 100, removed := s.removed + 2 }
      simp only at a b c
      refine ⟨?_, ?_, ?_⟩
      · exact Nat.le_trans a (Nat.div_le_self _ _)
      · omega
      · omega
    · simp; omega

theorem lc10_facts : ∀ (fuel : Nat) (s : Ryu64.Com),
    s.removed ≤ (Ryu64.loopCommon10 fuel s).removed ∧ (Ryu64.loopCommon10 fuel s).removed ≤ s.removed + fuel := by
  intro fuel
  induction fuel with
  | zero => intro s; simp [Ryu64.loopCommon10]
  | succ fuel ih =>
    intro s
    unfold Ryu64.loopCommon10
    split
    · obtain ⟨b, c⟩ := ih { roundUp := decide (s.vr % 10 ≥ 5), vr := s.vr / 10, vp := s.vp / 10, vm := s.vm / 10, removed := s.removed + 1 }
      simp only at b c
      constructor <;> omega
    · simp; omega

theorem lg1_facts : ∀ (fuel : Nat) (s : Ryu64.Gen),
    (Ryu64.loopGeneral1 fuel s).vm ≤ s.vm ∧ s.removed ≤ (Ryu64.loopGeneral1 fuel s).removed ∧
      (Ryu64.loopGeneral1 fuel s).removed ≤ s.removed + fuel ∧
      ((Ryu64.loopGeneral1 fuel s).vmIsTrailingZeros = true → s.vm ≠ 0 → (Ryu64.loopGeneral1 fuel s).vm ≠ 0) ∧
      (s.vmIsTrailingZeros = false → (Ryu64.loopGeneral1 fuel s).vmIsTrailingZeros = false) := by
  intro fuel
  induction fuel with
  | zero => intro s; simp [Ryu64.loopGeneral1]
  | succ fuel ih =>
    intro s
    unfold Ryu64.loopGeneral1
    dsimp only
    split
    · simp; omega
    · obtain ⟨a, b, c, d, e⟩ := ih ⟨s.vr / 10, s.vp / 10, s.vm / 10, s.removed + 1, s.vr % 10,
        s.vmIsTrailingZeros && s.vm % 10 == 0, s.vrIsTrailingZeros && s.lastRemovedDigit == 0⟩
      simp only at a b c d e
      refine ⟨?_, ?_, ?_, ?_, ?_⟩
      · exact Nat.le_trans a (Nat.div_le_self _ _)
      · omega
      · omega
      · intro h1 h2
        by_cases h3 : s.vm / 10 = 0
        · exfalso
          have h4 : (s.vmIsTrailingZeros && s.vm % 10 == 0) = false := by
            have : ¬ s.vm % 10 = 0 := by omega
            simp [this]
          rw [e h4] at h1
          cases h1
        · exact d h1 h3
      · intro h1
        apply e
        simp [h1]

theorem lg2_facts : ∀ (fuel : Nat) (s : Ryu64.Gen),
    s.removed ≤ (Ryu64.loopGeneral2 fuel s).removed ∧ (Ryu64.loopGeneral2 fuel s).removed ≤ s.removed + fuel := by
  intro fuel
  induction fuel with
  | zero => intro s; simp [Ryu64.loopGeneral2]
  | succ fuel ih =>
    intro s
    unfold Ryu64.loopGeneral2
    dsimp only
    split
    · simp; omega
    · obtain ⟨b, c⟩ := ih ⟨s.vr / 10, s.vp / 10, s.vm / 10, s.removed + 1, s.vr % 10,
        s.vmIsTrailingZeros, s.vrIsTrailingZeros && s.lastRemovedDigit == 0⟩
      simp only at b c
      constructor <;> omega

/-! ## `float64ToDecimal`: step 4, the two cases -/

theorem exec_common (Γ : Env) (hb64 : ∀ b, Γ.call fBoolToUint64 [.bool b] = some (.u 64 (Ryu64.boolToNat b))) (hfuel : 20 < Γ.fuel)
    (v0 v1 v2 v3 v4 v5 v6 v7 e10 f12 f13 last out : Val) (vr vp vm : Nat) (hvp : vp < 10 ^ 20) :
    commonPart.exec Γ [v0, v1, v2, v3, v4, v5, v6, v7, .u 64 vr, .u 64 vp, .u 64 vm, e10, f12, f13, .i 32 0, last, out] =
      .next [v0, v1, v2, v3, v4, v5, v6, v7,
        .u 64 (Ryu64.loopCommon10 20 (Ryu64.loopCommon100 20 { vr := vr, vp := vp, vm := vm })).vr,
        .u 64 (Ryu64.loopCommon10 20 (Ryu64.loopCommon100 20 { vr := vr, vp := vp, vm := vm })).vp,
        .u 64 (Ryu64.loopCommon10 20 (Ryu64.loopCommon100 20 { vr := vr, vp := vp, vm := vm })).vm, e10, f12, f13,
        .i 32 (Ryu64.loopCommon10 20 (Ryu64.loopCommon100 20 { vr := vr, vp := vp, vm := vm })).removed, last,
        .u 64 (Ryu64.u64 ((Ryu64.loopCommon10 20 (Ryu64.loopCommon100 20 { vr := vr, vp := vp, vm := vm })).vr +
          Ryu64.boolToNat ((Ryu64.loopCommon10 20 (Ryu64.loopCommon100 20 { vr := vr, vp := vp, vm := vm })).vr ==
              (Ryu64.loopCommon10 20 (Ryu64.loopCommon100 20 { vr := vr, vp := vp, vm := vm })).vm ||
            (Ryu64.loopCommon10 20 (Ryu64.loopCommon100 20 { vr := vr, vp := vp, vm := vm })).roundUp)))] := by
  have f100 := lc100_facts 20 { vr := vr, vp := vp, vm := vm }
  have l100 := c100_loop Γ v0 v1 v2 v3 v4 v5 v6 v7 e10 f12 f13 last out 20 { vr := vr, vp := vp, vm := vm } Γ.fuel
    (by simp; omega) hfuel (by simp) (by simp)
  generalize Ryu64.loopCommon100 20 { vr := vr, vp := vp, vm := vm } = c1 at f100 l100 ⊢
  simp only at f100
  have f10 := lc10_facts 20 c1
  have l10 := c10_loop Γ v0 v1 v2 v3 v4 v5 v6 v7 e10 f12 f13 last out 20 c1 Γ.fuel (by omega) hfuel (by omega) (by omega)
  generalize Ryu64.loopCommon10 20 c1 = c2 at f10 l10 ⊢
  dsimp only at l100
  have hbc := hb64 (c2.vr == c2.vm || c2.roundUp)
  simp only [commonPart, common100, common10]
  rewrite [xscope]
  xs []
  rewrite [xblock_cons, xfor, exec_block_nil, Out.bindStrict_next, forRest_eq, l100, Out.loopEnd_next]
  xnorm
  rewrite [xblock_cons, xfor, exec_block_nil, Out.bindStrict_next, forRest_eq, l10, Out.loopEnd_next]
  xnorm
  xs [hbc]
  rfl

/-- the state of the general case after its loops, the last removed digit after the tie rule, the output -/
def genFinal (vr vp vm : Nat) (fm fr : Bool) : Ryu64.Gen :=
  if (Ryu64.loopGeneral1 20 { vr := vr, vp := vp, vm := vm, vmIsTrailingZeros := fm, vrIsTrailingZeros := fr }).vmIsTrailingZeros then
    Ryu64.loopGeneral2 20 (Ryu64.loopGeneral1 20 { vr := vr, vp := vp, vm := vm, vmIsTrailingZeros := fm, vrIsTrailingZeros := fr })
  else Ryu64.loopGeneral1 20 { vr := vr, vp := vp, vm := vm, vmIsTrailingZeros := fm, vrIsTrailingZeros := fr }
def genLast (g : Ryu64.Gen) : Nat :=
  if g.vrIsTrailingZeros && g.lastRemovedDigit == 5 && g.vr % 2 == 0 then 4 else g.lastRemovedDigit
def genOut (g : Ryu64.Gen) (ab : Bool) : Nat :=
  if (g.vr == g.vm && (!ab || !g.vmIsTrailingZeros)) || genLast g ≥ 5 then Ryu64.u64 (g.vr + 1) else g.vr

theorem step4General_gen (s3 : Ryu64.Step3) (ab : Bool) :
    Ryu64.step4General s3 ab =
      (genOut (genFinal s3.vr s3.vp s3.vm s3.vmIsTrailingZeros s3.vrIsTrailingZeros) ab,
       (genFinal s3.vr s3.vp s3.vm s3.vmIsTrailingZeros s3.vrIsTrailingZeros).removed) := rfl

theorem exec_generalFinish (Γ : Env) (v0 v1 v2 v3 v4 v6 v7 e10 out : Val) (ab : Bool) (g : Ryu64.Gen) :
    (S.block generalFinish).exec Γ [v0, v1, v2, v3, v4, .bool ab, v6, v7, .u 64 g.vr, .u 64 g.vp, .u 64 g.vm, e10,
        .bool g.vmIsTrailingZeros, .bool g.vrIsTrailingZeros, .i 32 g.removed, .u 8 g.lastRemovedDigit, out] =
      .next [v0, v1, v2, v3, v4, .bool ab, v6, v7, .u 64 g.vr, .u 64 g.vp, .u 64 g.vm, e10,
        .bool g.vmIsTrailingZeros, .bool g.vrIsTrailingZeros, .i 32 g.removed, .u 8 (genLast g), .u 64 (genOut g ab)] := by
  simp only [generalFinish]
  have hadd : (g.vr + 1) % 18446744073709551616 = Ryu64.u64 (g.vr + 1) := rfl
  by_cases ht : (g.vrIsTrailingZeros && g.lastRemovedDigit == 5 && g.vr % 2 == 0) = true
  · xif [ht]
    xs []
    xs []
    by_cases hc : (g.vr == g.vm && (!ab || !g.vmIsTrailingZeros)) = true
    · xif [hc]
      xs [hadd]
      simp [genLast, genOut, ht, hc]
    · have hc' : (g.vr == g.vm && (!ab || !g.vmIsTrailingZeros)) = false := by simpa using hc
      xif [hc']
      simp [genLast, genOut, ht, hc']
  · have ht' : (g.vrIsTrailingZeros && g.lastRemovedDigit == 5 && g.vr % 2 == 0) = false := by simpa using ht
    xif [ht']
    xs []
    by_cases hc : ((g.vr == g.vm && (!ab || !g.vmIsTrailingZeros)) || decide (g.lastRemovedDigit ≥ 5)) = true
    · xif [hc]
      xs [hadd]
      simp [genLast, genOut, ht', hc]
    · have hc' : ((g.vr == g.vm && (!ab || !g.vmIsTrailingZeros)) || decide (g.lastRemovedDigit ≥ 5)) = false := by simpa using hc
      xif [hc']
      simp [genLast, genOut, ht', hc']

theorem exec_general (Γ : Env) (hfuel : 20 < Γ.fuel) (v0 v1 v2 v3 v4 v6 v7 e10 out : Val) (ab fm fr : Bool) (vr vp vm : Nat)
    (hvp : vp < 10 ^ 20) (hvm0 : vm ≠ 0) (hvm : vm < 10 ^ 20) :
    generalPart.exec Γ [v0, v1, v2, v3, v4, .bool ab, v6, v7, .u 64 vr, .u 64 vp, .u 64 vm, e10, .bool fm, .bool fr,
        .i 32 0, .u 8 0, out] =
      .next [v0, v1, v2, v3, v4, .bool ab, v6, v7, .u 64 (genFinal vr vp vm fm fr).vr, .u 64 (genFinal vr vp vm fm fr).vp,
        .u 64 (genFinal vr vp vm fm fr).vm, e10, .bool (genFinal vr vp vm fm fr).vmIsTrailingZeros,
        .bool (genFinal vr vp vm fm fr).vrIsTrailingZeros, .i 32 (genFinal vr vp vm fm fr).removed,
        .u 8 (genLast (genFinal vr vp vm fm fr)), .u 64 (genOut (genFinal vr vp vm fm fr) ab)] := by
  have f1 := lg1_facts 20 { vr := vr, vp := vp, vm := vm, vmIsTrailingZeros := fm, vrIsTrailingZeros := fr }
  have l1 := g1_loop Γ v0 v1 v2 v3 v4 (.bool ab) v6 v7 e10 out 20
    { vr := vr, vp := vp, vm := vm, vmIsTrailingZeros := fm, vrIsTrailingZeros := fr } Γ.fuel (by simp; omega) hfuel (by simp) (by simp)
  unfold genFinal
  generalize Ryu64.loopGeneral1 20 { vr := vr, vp := vp, vm := vm, vmIsTrailingZeros := fm, vrIsTrailingZeros := fr } = g1 at f1 l1 ⊢
  simp only at f1
  dsimp only at l1
  obtain ⟨f1a, f1b, f1c, f1d, f1e⟩ := f1
  simp only [generalPart, general1, general2, generalFinish, List.cons_append, List.nil_append]
  rewrite [xscope]
  rewrite [xblock_cons, xfor, exec_block_nil, Out.bindStrict_next, forRest_eq, l1, Out.loopEnd_next]
  xnorm
  by_cases hz : g1.vmIsTrailingZeros = true
  · have hg1 : g1.vm ≠ 0 := f1d hz hvm0
    have f2 := lg2_facts 20 g1
    have l2 := g2_loop Γ v0 v1 v2 v3 v4 (.bool ab) v6 v7 e10 out 20 g1 Γ.fuel hg1 (by omega) hfuel (by omega) (by omega)
    rewrite [if_pos hz]
    generalize Ryu64.loopGeneral2 20 g1 = g2 at f2 l2 ⊢
    xif [hz]
    rewrite [xblock_cons, xfor, exec_block_nil, Out.bindStrict_next, forRest_eq, l2, Out.loopEnd_next]
    xnorm
    exact congrArg (Out.scoped 17) (exec_generalFinish Γ v0 v1 v2 v3 v4 v6 v7 e10 out ab g2)
  · have hz' : g1.vmIsTrailingZeros = false := by simpa using hz
    rewrite [if_neg hz]
    xif [hz']
    exact congrArg (Out.scoped 17) (exec_generalFinish Γ v0 v1 v2 v3 v4 v6 v7 e10 out ab g1)

/-! ## `float64ToDecimal` as a whole -/

theorem xblock_append (Γ : Env) (l1 l2 : List S) (σ : Store) :
    (S.block (l1 ++ l2)).exec Γ σ = ((S.block l1).exec Γ σ).bind ((S.block l2).exec Γ) := by
  induction l1 generalizing σ with
  | nil => rfl
  | cons s ss ih =>
    rw [List.cons_append, xblock_cons, xblock_cons]
    cases h : s.exec Γ σ with
    | next σ' => rw [Out.bind_next, Out.bind_next, ih]
    | brk σ' => rfl
    | ret v => rfl
    | stuck => rfl

/-- the decimal exponent of step 3 is small -/
theorem e10_bound (mant exp : Nat) (he : exp < 2047) :
    -2000 ≤ (Ryu64.step3 mant exp).e10 ∧ (Ryu64.step3 mant exp).e10 ≤ 2000 := by
  rw [(C16Core.step3_fields mant exp).2.2.2]
  unfold C16Core.e10Of
  by_cases h : 1077 ≤ exp
  · have he2 := C16Core.decodeE2_pos exp h
    have hge : Ryu64.decodeE2 exp ≥ 0 := by rw [he2]; omega
    have hq : posQ ((exp - 1077 : Nat) : Int) = C16Core.qOf exp := by
      unfold C16Core.qOf posQ; rw [if_pos hge, he2]
    have hok := C16Core.all_range_lift pos_check (exp - 1077) (by omega)
    simp only [posOk, Bool.and_eq_true, decide_eq_true_eq] at hok
    rw [hq] at hok
    rw [if_pos hge]
    omega
  · have he2 := C16Core.decodeE2_neg exp (by omega)
    generalize hn : (if exp = 0 then 1076 else 1077 - exp) = n at he2
    have hn1 : 1 ≤ n := by rw [← hn]; split <;> omega
    have hn2 : n ≤ 1076 := by rw [← hn]; split <;> omega
    have hlt : ¬ Ryu64.decodeE2 exp ≥ 0 := by rw [he2]; omega
    have hq : negQ (n : Int) = C16Core.qOf exp := by
      unfold C16Core.qOf negQ; rw [if_neg hlt, he2, Int.neg_neg]
    have hok := C16Core.all_range_lift neg_check n (by omega)
    simp only [negOk, Bool.and_eq_true, decide_eq_true_eq] at hok
    rw [hq] at hok
    rw [if_neg hlt, he2]
    omega

theorem genFinal_removed (vr vp vm : Nat) (fm fr : Bool) :
    0 ≤ (genFinal vr vp vm fm fr).removed ∧ (genFinal vr vp vm fm fr).removed ≤ 40 := by
  have f1 := lg1_facts 20 { vr := vr, vp := vp, vm := vm, vmIsTrailingZeros := fm, vrIsTrailingZeros := fr }
  have f2 := lg2_facts 20 (Ryu64.loopGeneral1 20 { vr := vr, vp := vp, vm := vm, vmIsTrailingZeros := fm, vrIsTrailingZeros := fr })
  unfold genFinal
  simp only at f1
  split <;> omega

theorem comFinal_removed (vr vp vm : Nat) :
    0 ≤ (Ryu64.loopCommon10 20 (Ryu64.loopCommon100 20 { vr := vr, vp := vp, vm := vm })).removed ∧
    (Ryu64.loopCommon10 20 (Ryu64.loopCommon100 20 { vr := vr, vp := vp, vm := vm })).removed ≤ 60 := by
  have f1 := lc100_facts 20 { vr := vr, vp := vp, vm := vm }
  have f2 := lc10_facts 20 (Ryu64.loopCommon100 20 { vr := vr, vp := vp, vm := vm })
  simp only at f1
  omega

theorem exec_toDecimal_tail (Γ : Env) (ok : EnvOk Γ) (hfuel : 20 < Γ.fuel) (v0 v1 v2 v3 v4 v6 v7 : Val) (ab : Bool)
    (s3 : Ryu64.Step3) (hvm0 : s3.vm ≠ 0) (hvm : s3.vm < 10 ^ 20) (hvp : s3.vp < 10 ^ 20)
    (he0 : -2000 ≤ s3.e10) (he1 : s3.e10 ≤ 2000) :
    (S.block (step4Decls ++ [step4Stmt, retStmt])).exec Γ [v0, v1, v2, v3, v4, .bool ab, v6, v7, .u 64 s3.vr, .u 64 s3.vp,
        .u 64 s3.vm, .i 32 s3.e10, .bool s3.vmIsTrailingZeros, .bool s3.vrIsTrailingZeros] =
      .ret (.pair (.u 64 (Ryu64.step4 s3 ab).1) (.i 32 (s3.e10 + (Ryu64.step4 s3 ab).2))) := by
  simp only [step4Decls, List.cons_append, List.nil_append]
  xs []
  xs []
  xs []
  simp only [step4Stmt, retStmt]
  by_cases hf : (s3.vmIsTrailingZeros || s3.vrIsTrailingZeros) = true
  · have hg := exec_general Γ hfuel v0 v1 v2 v3 v4 v6 v7 (.i 32 s3.e10) (.u 64 0) ab s3.vmIsTrailingZeros s3.vrIsTrailingZeros
      s3.vr s3.vp s3.vm hvp hvm0 hvm
    have hst : Ryu64.step4 s3 ab = Ryu64.step4General s3 ab := by unfold Ryu64.step4; rw [if_pos hf]
    have hr := genFinal_removed s3.vr s3.vp s3.vm s3.vmIsTrailingZeros s3.vrIsTrailingZeros
    rewrite [hst, step4General_gen]
    xif [hf]
    rewrite [hg, Out.bind_next]
    generalize genFinal s3.vr s3.vp s3.vm s3.vmIsTrailingZeros s3.vrIsTrailingZeros = g at hr ⊢
    xs []
  · have hf' : (s3.vmIsTrailingZeros || s3.vrIsTrailingZeros) = false := by simpa using hf
    have hc := exec_common Γ ok.b64 hfuel v0 v1 v2 v3 v4 (.bool ab) v6 v7 (.i 32 s3.e10) (.bool s3.vmIsTrailingZeros)
      (.bool s3.vrIsTrailingZeros) (.u 8 0) (.u 64 0) s3.vr s3.vp s3.vm hvp
    have hst : Ryu64.step4 s3 ab = Ryu64.step4Common s3 := by unfold Ryu64.step4; rw [if_neg hf]
    have hr := comFinal_removed s3.vr s3.vp s3.vm
    rewrite [hst]
    unfold Ryu64.step4Common
    xif [hf']
    rewrite [hc, Out.bind_next]
    generalize Ryu64.loopCommon10 20 (Ryu64.loopCommon100 20 { vr := s3.vr, vp := s3.vp, vm := s3.vm }) = c at hr ⊢
    xs []

theorem exec_toDecimal (Γ : Env) (ok : EnvOk Γ) (hfuel : 20 < Γ.fuel) (mant exp : Nat) (hm : mant < 2 ^ 52) (he : exp < 2047)
    (hnz : mant ≠ 0 ∨ exp ≠ 0) (hvm0 : (Ryu64.step3 mant exp).vm ≠ 0) (hvm : (Ryu64.step3 mant exp).vm < 10 ^ 20)
    (hvp : (Ryu64.step3 mant exp).vp < 10 ^ 20) :
    fnToDecimal.body.exec Γ [.u 64 mant, .u 64 exp] =
      .ret (.pair (.u 64 (Ryu64.float64ToDecimal mant exp).m) (.i 32 (Ryu64.float64ToDecimal mant exp).e)) := by
  have he10 := e10_bound mant exp he
  have hfd : Ryu64.float64ToDecimal mant exp =
      { m := (Ryu64.step4 (Ryu64.step3 mant exp) (Ryu64.acceptBoundsOf mant exp)).1,
        e := (Ryu64.step3 mant exp).e10 + (Ryu64.step4 (Ryu64.step3 mant exp) (Ryu64.acceptBoundsOf mant exp)).2 } := rfl
  rewrite [hfd]
  simp only [fnToDecimal, List.append_assoc, List.cons_append, List.nil_append]
  rewrite [xblock_append, exec_step12 Γ ok.b64 mant exp hm he, Out.bind_next, xblock_cons,
    exec_step3 Γ ok _ _ mant exp hm he hnz, Out.bind_next]
  exact exec_toDecimal_tail Γ ok hfuel _ _ _ _ _ _ _ _ (Ryu64.step3 mant exp) hvm0 hvm hvp he10.1 he10.2

theorem env_fuel (F : Nat) (fr : Nat → List UInt8) (n : Nat) : (env F fr n).fuel = F := rfl

/-- function 1 (`float64ToDecimal`) returns what the mirror computes — for the fields of a finite non-zero float64 whose `vm`
of step 3 is not 0 (which `C16RyuGen` derives from the precision lemma: the second loop of the general case does not stop for 0) -/
theorem call_toDecimal (F : Nat) (fr : Nat → List UInt8) (n : Nat) (hF : 28 ≤ F) (mant exp : Nat) (hm : mant < 2 ^ 52) (he : exp < 2047)
    (hnz : mant ≠ 0 ∨ exp ≠ 0) (hvm0 : (Ryu64.step3 mant exp).vm ≠ 0) (hvm : (Ryu64.step3 mant exp).vm < 10 ^ 20)
    (hvp : (Ryu64.step3 mant exp).vp < 10 ^ 20) :
    callAt canonFns T F fr (n+3) fToDecimal [.u 64 mant, .u 64 exp] =
      some (.pair (.u 64 (Ryu64.float64ToDecimal mant exp).m) (.i 32 (Ryu64.float64ToDecimal mant exp).e)) := by
  rw [callAt_succ F fr (n+2) _ _ look_toDecimal, xrunFn, if_pos (by rfl),
    exec_toDecimal (env F fr (n+2)) (envOk F fr n hF) (by rw [env_fuel]; omega) mant exp hm he hnz hvm0 hvm hvp]
  rfl

end QF.Props.C16RyuGen
