import QF.Core.Frame
import QF.Spec.Ops
/-!
# C07 — names: the mirror's `String`s against the spec's byte strings

`strBytes` (UTF-8) is injective, and the mirror's name check `Fr.checkName` (stated on characters) is the spec's `legalName`
(stated on bytes) under it: `checkName_eq_legalName`.  Used by QF/Props/C07EndToEnd.lean.
-/
namespace QF.Props.C07EndToEnd
open QF

theorem toList_loop (bs : ByteArray) : ∀ (k i : Nat) (r : List UInt8), bs.size - i = k → i ≤ bs.size →
    ByteArray.toList.loop bs i r = r.reverse ++ bs.data.toList.drop i := by
  have hsz : bs.data.toList.length = bs.size := by simp
  intro k
  induction k with
  | zero =>
    intro i r hk hi
    rw [ByteArray.toList.loop.eq_1]
    have : ¬ i < bs.size := by omega
    have hd : bs.data.toList.drop i = [] := by
      apply List.drop_eq_nil_of_le
      omega
    simp [this, hd]
  | succ k ih =>
    intro i r hk hi
    rw [ByteArray.toList.loop.eq_1]
    have hlt : i < bs.size := by omega
    rw [if_pos hlt, ih (i + 1) _ (by omega) (by omega)]
    have hlt' : i < bs.data.toList.length := by omega
    rw [List.drop_eq_getElem_cons hlt']
    have : bs.get! i = bs.data.toList[i] := by
      have hlt2 : i < bs.data.size := by simpa using hlt'
      simp only [ByteArray.get!]
      exact getElem!_pos bs.data i hlt2
    simp [this]

theorem byteArray_toList (bs : ByteArray) : bs.toList = bs.data.toList := by
  unfold ByteArray.toList
  rw [toList_loop bs bs.size 0 [] (by omega) (by omega)]
  simp

/-- the UTF-8 bytes of the mirror's names: distinct names, distinct byte strings -/
theorem strBytes_inj (a b : String) (h : strBytes a = strBytes b) : a = b := by
  unfold strBytes at h
  rw [byteArray_toList, byteArray_toList] at h
  exact String.toByteArray_inj.1 (ByteArray.ext (Array.toList_inj.1 h))

theorem strBytes_ofList (l : List Char) : strBytes (String.ofList l) = l.flatMap String.utf8EncodeChar := by
  simp [strBytes, String.toUTF8, byteArray_toList, String.toByteArray_ofList, List.utf8Encode]

theorem strBytes_eq (n : String) : strBytes n = n.toList.flatMap String.utf8EncodeChar := by
  have h := strBytes_ofList n.toList
  rwa [String.ofList_toList] at h

/-! ### one character -/

abbrev enc (c : Char) : List UInt8 := String.utf8EncodeChar c

theorem ofNat_eq_iff (x : Nat) (b : UInt8) : UInt8.ofNat x = b ↔ x % 256 = b.toNat := by
  rw [← UInt8.toNat_inj, UInt8.toNat_ofNat']

theorem enc_ne_nil (c : Char) : enc c ≠ [] := String.utf8EncodeChar_ne_nil

/-- the first byte of a character is an ASCII byte `b` exactly when the character is `b` -/
theorem enc_head (c : Char) (b : UInt8) (hb : b.toNat < 128) :
    (enc c).head? = some b ↔ c.val.toNat = b.toNat := by
  unfold enc String.utf8EncodeChar
  simp only
  split
  · simp only [List.head?_cons, Option.some.injEq, ofNat_eq_iff]; omega
  · split
    · simp only [List.head?_cons, Option.some.injEq, ofNat_eq_iff]; omega
    · split
      · simp only [List.head?_cons, Option.some.injEq, ofNat_eq_iff]; omega
      · simp only [List.head?_cons, Option.some.injEq, ofNat_eq_iff]; omega

/-- the last byte of a character is an ASCII byte `b` exactly when the character is `b` -/
theorem enc_last (c : Char) (b : UInt8) (hb : b.toNat < 128) :
    (enc c).getLast? = some b ↔ c.val.toNat = b.toNat := by
  unfold enc String.utf8EncodeChar
  simp only
  split
  · simp only [List.getLast?_singleton, Option.some.injEq, ofNat_eq_iff]; omega
  · split
    · simp only [List.getLast?_cons_cons, List.getLast?_singleton, Option.some.injEq, ofNat_eq_iff]; omega
    · split
      · simp only [List.getLast?_cons_cons, List.getLast?_singleton, Option.some.injEq, ofNat_eq_iff]; omega
      · simp only [List.getLast?_cons_cons, List.getLast?_singleton, Option.some.injEq, ofNat_eq_iff]; omega

theorem enc_ascii (c : Char) (h : c.val.toNat < 128) : (enc c).length = 1 := by
  unfold enc String.utf8EncodeChar
  simp only
  rw [if_pos (by omega)]; rfl


/-! ### lists of characters -/

theorem flat_nil (l : List Char) : l.flatMap enc = [] ↔ l = [] := by
  cases l with
  | nil => simp
  | cons c r => simp [List.flatMap_cons, enc_ne_nil c]

theorem flat_len (l : List Char) : l.length ≤ (l.flatMap enc).length := by
  induction l with
  | nil => simp
  | cons c r ih =>
    have : 1 ≤ (enc c).length := by
      cases h : enc c with
      | nil => exact absurd h (enc_ne_nil c)
      | cons _ _ => simp
    simp only [List.flatMap_cons, List.length_append, List.length_cons]
    omega

theorem flat_head (l : List Char) : (l.flatMap enc).head? = l.head?.bind (fun c => (enc c).head?) := by
  cases l with
  | nil => rfl
  | cons c r =>
    simp only [List.flatMap_cons, List.head?_cons, Option.bind_some]
    cases h : enc c with
    | nil => exact absurd h (enc_ne_nil c)
    | cons a t => simp

theorem flat_last (l : List Char) : (l.flatMap enc).getLast? = l.getLast?.bind (fun c => (enc c).getLast?) := by
  induction l with
  | nil => rfl
  | cons c r ih =>
    simp only [List.flatMap_cons, List.getLast?_append, ih]
    cases r with
    | nil => simp
    | cons d t =>
      rw [List.getLast?_cons_cons]
      cases hl : (d :: t).getLast? with
      | none => simp at hl
      | some e =>
        simp only [Option.bind_some]
        cases he : (enc e).getLast? with
        | none => exact absurd (List.getLast?_eq_none_iff.mp he) (enc_ne_nil e)
        | some x => simp

theorem char_of_val {c q : Char} (h : c.val.toNat = q.val.toNat) : c = q :=
  Char.ext (UInt32.toNat_inj.mp h)

theorem head_iff (l : List Char) (q : Char) (b : UInt8) (hq : q.val.toNat = b.toNat) (hb : b.toNat < 128) :
    (l.flatMap enc).head? = some b ↔ l.head? = some q := by
  rw [flat_head]
  cases l.head? with
  | none => simp
  | some c =>
    simp only [Option.bind_some, Option.some.injEq]
    rw [enc_head c b hb]
    constructor
    · intro h; exact char_of_val (h.trans hq.symm)
    · intro h; rw [h]; exact hq

theorem last_iff (l : List Char) (q : Char) (b : UInt8) (hq : q.val.toNat = b.toNat) (hb : b.toNat < 128) :
    (l.flatMap enc).getLast? = some b ↔ l.getLast? = some q := by
  rw [flat_last]
  cases l.getLast? with
  | none => simp
  | some c =>
    simp only [Option.bind_some, Option.some.injEq]
    rw [enc_last c b hb]
    constructor
    · intro h; exact char_of_val (h.trans hq.symm)
    · intro h; rw [h]; exact hq

/-- a string that begins and ends with the ASCII character `q` is longer than two characters exactly when it is longer
than two bytes -/
theorem quoted_len (l : List Char) (q : Char) (hq : q.val.toNat < 128) (h1 : l.head? = some q) (h2 : l.getLast? = some q) :
    (l.flatMap enc).length > 2 ↔ l.length > 2 := by
  constructor
  · intro h
    match l, h1, h2 with
    | [c], h1, _ =>
      simp only [List.head?_cons, Option.some.injEq] at h1
      subst h1
      simp [List.flatMap_cons, enc_ascii c hq] at h
    | [c, d], h1, h2 =>
      simp only [List.head?_cons, Option.some.injEq] at h1
      simp only [List.getLast?_cons_cons, List.getLast?_singleton, Option.some.injEq] at h2
      subst h1; rw [h2] at h
      have e1 : c.utf8Size = 1 := by rw [← String.length_utf8EncodeChar]; exact enc_ascii c hq
      simp [List.flatMap_cons, e1] at h
    | _ :: _ :: _ :: _, _, _ => simp
  · intro h
    have := flat_len l
    omega


/-! ### the two name checks -/

theorem sw (n p : String) (q : Char) (hp : p.toList = [q]) : n.startsWith p = (n.toList.head? == some q) := by
  rw [Bool.eq_iff_iff]
  simp only [String.startsWith_string_iff, hp, beq_iff_eq]
  cases n.toList with
  | nil => simp
  | cons c r => simp [List.cons_prefix_cons, eq_comm]

theorem ew (n p : String) (q : Char) (hp : p.toList = [q]) : n.endsWith p = (n.toList.getLast? == some q) := by
  rw [Bool.eq_iff_iff]
  have : (n.endsWith p = true) ↔ p.toList <:+ n.toList := by simp [← String.endsWith_toSlice]
  rw [this, hp, beq_iff_eq, List.getLast?_eq_some_iff]
  constructor
  · rintro ⟨t, ht⟩; exact ⟨t, ht.symm⟩
  · rintro ⟨t, ht⟩; exact ⟨t, ht.symm⟩

theorem isEmpty_toList (n : String) : n.isEmpty = n.toList.isEmpty := by
  rw [Bool.eq_iff_iff, String.isEmpty_iff, List.isEmpty_iff, String.toList_eq_nil_iff]

/-- the mirror's name check, on the characters -/
def checkL (l : List Char) : Bool :=
  !l.isEmpty && !(l.head? == some '$') &&
  !(decide (l.length > 2) && ((l.head? == some '\'' && l.getLast? == some '\'') || (l.head? == some '"' && l.getLast? == some '"')))

theorem checkName_eq_checkL (n : String) : Fr.checkName n = checkL n.toList := by
  unfold Fr.checkName checkL
  rw [isEmpty_toList, sw n "$" '$' rfl, sw n "'" '\'' rfl, ew n "'" '\'' rfl, sw n "\"" '"' rfl, ew n "\"" '"' rfl,
    ← String.length_toList]

theorem beq_some_congr {α β : Type} [BEq α] [LawfulBEq α] [BEq β] [LawfulBEq β] {x : Option α} {y : Option β} {a : α} {b : β}
    (h : x = some a ↔ y = some b) : (x == some a) = (y == some b) := by
  rw [Bool.eq_iff_iff, beq_iff_eq, beq_iff_eq]; exact h

theorem checkL_eq_legal (l : List Char) : checkL l = legalName (l.flatMap enc) := by
  unfold checkL legalName isQuotedName
  have hE : (l.flatMap enc).isEmpty = l.isEmpty := by
    rw [Bool.eq_iff_iff, List.isEmpty_iff, List.isEmpty_iff]; exact flat_nil l
  have hD : ((l.flatMap enc).head? == some 36) = (l.head? == some '$') :=
    beq_some_congr (head_iff l '$' 36 (by decide) (by decide))
  have hQ1 : ((l.flatMap enc).head? == some 39) = (l.head? == some '\'') :=
    beq_some_congr (head_iff l '\'' 39 (by decide) (by decide))
  have hQ2 : ((l.flatMap enc).getLast? == some 39) = (l.getLast? == some '\'') :=
    beq_some_congr (last_iff l '\'' 39 (by decide) (by decide))
  have hR1 : ((l.flatMap enc).head? == some 34) = (l.head? == some '"') :=
    beq_some_congr (head_iff l '"' 34 (by decide) (by decide))
  have hR2 : ((l.flatMap enc).getLast? == some 34) = (l.getLast? == some '"') :=
    beq_some_congr (last_iff l '"' 34 (by decide) (by decide))
  rw [hE, hQ1, hQ2, hR1, hR2]
  have hD' : ((l.flatMap enc).head? != some 36) = !(l.head? == some '$') := by rw [bne, hD]
  rw [hD']
  -- the length test, needed only under the quotes
  have hlen : ∀ q : Char, q.val.toNat < 128 → (l.head? == some q && l.getLast? == some q) = true →
      decide ((l.flatMap enc).length > 2) = decide (l.length > 2) := by
    intro q hq h
    simp only [Bool.and_eq_true, beq_iff_eq] at h
    exact decide_eq_decide.mpr (quoted_len l q hq h.1 h.2)
  cases h1 : (l.head? == some '\'' && l.getLast? == some '\'') with
  | true =>
    rw [hlen '\'' (by decide) h1]
    cases l.isEmpty <;> cases (l.head? == some '$') <;> cases decide (l.length > 2) <;> rfl
  | false =>
    cases h2 : (l.head? == some '"' && l.getLast? == some '"') with
    | true =>
      rw [hlen '"' (by decide) h2]
      cases l.isEmpty <;> cases (l.head? == some '$') <;> cases decide (l.length > 2) <;> rfl
    | false =>
      simp only [Bool.or_false, Bool.and_false, Bool.not_false, Bool.and_true]

/-- **The mirror's name check is the spec's**, under the UTF-8 encoding of names. -/
theorem checkName_eq_legalName (n : String) : Fr.checkName n = legalName (strBytes n) := by
  rw [checkName_eq_checkL, checkL_eq_legal, strBytes_eq]

example : Fr.checkName "'é'" = false ∧ Fr.checkName "'é" = true ∧ Fr.checkName "$x" = false ∧ Fr.checkName "" = false := by
  decide +kernel

#print axioms strBytes_inj
#print axioms checkName_eq_legalName

end QF.Props.C07EndToEnd
