import QF.Props.C10Guards
import QF.Props.C03Compare
import QF.Props.C13Write
import QF.Props.C14ToJson
import QF.Gen.Observe
/-!
# C09 (C13, C14) — the per-cell observation functions of today's source say what the spec says (tie T1, by semantics)

`QF.Gen.equalsAst`, `QF.Gen.stringAtAst`, `QF.Gen.appendAst` (regenerated on every run by go/cmd/extract/oast.go) hold, for
each of the five column packages, `Column.Equals` as a term of `QF.EQ` (type assertion, loop, per-cell predicate `QF.OP`)
and `Column.StringAt` / `Column.AppendByteStringAt` as terms of `QF.RE`; `QF.Gen.observeHelpers` the helpers `stringAt` /
`bytesAt` of scolumn. `EQ.eval`, `OP.eval`, `RE.eval` (QF/Core/OExpr.lean) are their Go meaning. This file proves, for the
terms generated TODAY:

* `gen_observe_no_opaque`      — all seventeen functions were found and translated completely
* `gen_cell_equals_semantics`  — for every column type and ALL pairs of cells of the type (enums: over two possibly
                                 different value tables) the per-cell predicate of `Equals` is the spec's `cellEq`
                                 (NaN = NaN, null = null, −0.0 = +0.0, null ≠ "")
* `gen_equals_column`          — `Column.Equals` is: other column of the same type ∧ ∀ position, the predicate; that is
                                 `¬ C10Guards.colDiffers`, the behaviour `C10Guards.gen_equals_vs_spec` ASSUMED
* `gen_equals_eq_spec`         — so: the extracted prefix of `QFrame.Equals` (C10Guards) with the extracted column
                                 comparisons answers exactly `equalsS`, on ALL pairs of frames whose cells are of their
                                 column's type
* `gen_stringAt_semantics`     — `StringAt(i, "")` is `C13Write.cellString fmt` (`fmt` = `strconv.FormatFloat(·,'f',-1,64)`);
                                 `gen_stringAt_naRep`: with any `naRep`, a null cell gives `naRep` (what `String()` relies on)
* `gen_append_semantics`       — `AppendByteStringAt(buf, i)` returns `buf ++ C14ToJson.cellBytes fmt cell` for ANY `buf`
                                 (`fmt` = what `ryu.AppendFloat64f` appends; quoting = `C14.appendQuoted`, the mirror of
                                 `AppendQuotedString` that `C14Quote` is about)
* `gen_helpers_sem`            — `stringAt(i)` / `bytesAt(i)` return `("", true)` for a null cell, `(bytes, false)` otherwise
                                 (the reading of `OP.bytesEq`, `OP.xNull`, `RE.strAt` in OExpr.lean);
                                 `gen_enum_null_code`: `enumVal.isNull()` is `v == 255`

Method (as in C03Compare): `decide` shows that each generated term IS the canonical term of its type (`gen_*_canon`);
lemmas proved once and for all give the meaning of the canonical terms on every cell.

Trusted (the reading of the leaves in OExpr.lean): `strconv.Itoa/FormatInt/AppendInt(·, 10)` write the decimal text
`intStr`, `FormatBool/AppendBool` write `true` / `false`, Go's `==` on float64 is IEEE equality, `c.data[index[i]]` is the
logical cell `i` (the index indirection — the extractor checks that each column is read at ITS OWN row).
-/
namespace QF.Props.C09Observe
open QF
open QF.Props.C03Compare (pkgOf tys enum_ok)
open QF.Props.C10Guards (genGuards2 equalsReq colDiffers equalsOutcome gen_equals_outcome gen_equals_semantics equalsS_iff)

/-! ## Today's functions -/

/-- the per-cell predicate of `Equals` of the package of `ty`, on the cells `x` (receiver) and `y` (other) -/
def cellEqIn (asts : List (String × EQ)) (ty : CType) (xv yv : List Bytes) (x y : Cell) : Option Bool :=
  ((asts.lookup (pkgOf ty)).bind EQ.pred?).bind (fun p => p.eval ty xv yv x y)

/-- … for today's source -/
def genCellEq (ty : CType) (xv yv : List Bytes) (x y : Cell) : Option Bool := cellEqIn Gen.equalsAst ty xv yv x y

/-- `a.Equals(index, b, otherIndex)` on the column code of `a`'s package: `other.(Column)` succeeds iff `b` is of the same
type; the cells are the logical ones (`c.data[index[i]]`), `n` = `len(index)` -/
def colEqualsIn (asts : List (String × EQ)) (a b : LCol) (n : Nat) : Option Bool :=
  (asts.lookup (pkgOf a.ty)).bind (fun e =>
    e.eval a.ty (a.ty == b.ty) a.vals b.vals (fun i => a.cells[i]!) (fun i => b.cells[i]!) n)

def genColEquals (a b : LCol) (n : Nat) : Option Bool := colEqualsIn Gen.equalsAst a b n

def renderIn (asts : List (String × RE)) (F : Fmt) (ty : CType) (vals : List Bytes) (naRep buf : Bytes) (x : Cell) : Option RV :=
  (asts.lookup (pkgOf ty)).bind (fun e => e.eval F ty vals naRep buf x)

/-- `c.StringAt(i, naRep)` of today's source on the cell `x` at `i` -/
def genStringAt (F : Fmt) (ty : CType) (vals : List Bytes) (naRep buf : Bytes) (x : Cell) : Option RV :=
  renderIn Gen.stringAtAst F ty vals naRep buf x

/-- `c.AppendByteStringAt(buf, i)` of today's source on the cell `x` at `i` -/
def genAppend (F : Fmt) (ty : CType) (vals : List Bytes) (naRep buf : Bytes) (x : Cell) : Option RV :=
  renderIn Gen.appendAst F ty vals naRep buf x

/-! ## Canonical terms -/

/-- `if x != y { return false }` -/
def plainPred : OP := .ite (.not .xEqY) .ff .tt

def canonPred : CType → OP
  | .int => plainPred
  | .float => .ite (.not .xEqY) (.ite (.not (.and .xNaN .yNaN)) .ff .tt) .tt
  | .bool => plainPred
  | .string => .ite (.or .xNull .yNull) (.ite (.and .xNull .yNull) .tt .ff) (.ite (.not .bytesEq) .ff .tt)
  | .enum => .ite (.or .xNull .yNull) (.ite .xEqY .tt .ff) (.ite (.not .enumStrEq) .ff .tt)
  | .undef => .opaque ""

def canonEquals (ty : CType) : EQ := .assertType false (.loopAll (canonPred ty) (.ret true))

def nullLit : Bytes := [110, 117, 108, 108]

def canonStringAt : CType → RE
  | .int => .itoa
  | .float => .ite .isNaN .naRep .formatFloatF
  | .bool => .formatBool
  | .string => .ite (.not .isNull) .strAt .naRep
  | .enum => .ite .isNull .naRep .enumValue
  | .undef => .opaque ""

def canonAppend : CType → RE
  | .int => .appendInt
  | .float => .ite .isNaN (.appendLit nullLit) .ryuF
  | .bool => .appendBool
  | .string => .ite .isNull (.appendLit nullLit) (.quoted .rawBytes)
  | .enum => .ite .isNull (.appendLit nullLit) (.quoted .enumValue)
  | .undef => .opaque ""

/-- `p := c.pointers[i]; if p.IsNull() { return "", true }; return c.data[p.Offset() : p.Offset()+p.Len()], false` -/
def canonHelper : RE := .ite .isNull (.pair (.lit []) true) (.pair .rawBytes false)

/-! ## Today's terms are the canonical ones (finite checks over `QF.Gen`, redone on every run) -/

theorem gen_equals_canon : ∀ ty ∈ tys, Gen.equalsAst.lookup (pkgOf ty) = some (canonEquals ty) := by decide

theorem gen_stringAt_canon : ∀ ty ∈ tys, Gen.stringAtAst.lookup (pkgOf ty) = some (canonStringAt ty) := by decide

theorem gen_append_canon : ∀ ty ∈ tys, Gen.appendAst.lookup (pkgOf ty) = some (canonAppend ty) := by decide

theorem gen_helpers_canon : ∀ h ∈ ["scolumn.stringAt", "scolumn.bytesAt"], Gen.observeHelpers.lookup h = some canonHelper := by
  decide

/-- ecolumn's `enumVal.isNull()` is `v == 255` (`nullValue` resolved): the reading of `xNull` / `isNull` on enum columns
(`nullOf`: the code is `enumNull`). -/
theorem gen_enum_null_code : Gen.enumNullCode = some enumNull := by decide

/-- `Equals`, `StringAt`, `AppendByteStringAt` of each of the five packages and the two helpers of scolumn were found, and
none of them translates to (a term containing) `.opaque`. -/
theorem gen_observe_no_opaque :
    Gen.equalsAst.map (·.1) = tys.map pkgOf ∧ Gen.stringAtAst.map (·.1) = tys.map pkgOf ∧
    Gen.appendAst.map (·.1) = tys.map pkgOf ∧ Gen.observeHelpers.map (·.1) = ["scolumn.stringAt", "scolumn.bytesAt"] ∧
    (∀ p ∈ Gen.equalsAst, p.2.hasOpaque = false) ∧ (∀ p ∈ Gen.stringAtAst, p.2.hasOpaque = false) ∧
    (∀ p ∈ Gen.appendAst, p.2.hasOpaque = false) ∧ (∀ p ∈ Gen.observeHelpers, p.2.hasOpaque = false) := by
  decide

/-! The four lemmas below take "the terms are the canonical ones" as a hypothesis; the headline theorems discharge it by
their own `decide` over today's `QF.Gen`, so that a changed source is reported at the statement it invalidates. -/

theorem cellEqIn_canon (asts : List (String × EQ))
    (h : ∀ ty ∈ tys, (asts.lookup (pkgOf ty)).bind EQ.pred? = some (canonPred ty))
    {ty : CType} (hty : ty ∈ tys) (xv yv : List Bytes) (x y : Cell) :
    cellEqIn asts ty xv yv x y = (canonPred ty).eval ty xv yv x y := by
  unfold cellEqIn
  rw [h ty hty]
  rfl

theorem colEqualsIn_canon (asts : List (String × EQ)) (h : ∀ ty ∈ tys, asts.lookup (pkgOf ty) = some (canonEquals ty))
    (a b : LCol) (n : Nat) (hty : a.ty ∈ tys) :
    colEqualsIn asts a b n =
      (canonEquals a.ty).eval a.ty (a.ty == b.ty) a.vals b.vals (fun i => a.cells[i]!) (fun i => b.cells[i]!) n := by
  unfold colEqualsIn
  rw [h a.ty hty]
  rfl

theorem renderIn_canon (asts : List (String × RE)) (canon : CType → RE)
    (h : ∀ ty ∈ tys, asts.lookup (pkgOf ty) = some (canon ty))
    {ty : CType} (hty : ty ∈ tys) (F : Fmt) (vals : List Bytes) (naRep buf : Bytes) (x : Cell) :
    renderIn asts F ty vals naRep buf x = (canon ty).eval F ty vals naRep buf x := by
  unfold renderIn
  rw [h ty hty]
  rfl

/-! ## The meaning of the canonical predicates, once and for all -/

theorem canonPred_int (xv yv : List Bytes) (a b : Int) :
    (canonPred .int).eval .int xv yv (.int a) (.int b) = some (cellEq (.int a) (.int b)) := by
  by_cases h : a = b <;>
  simp [canonPred, plainPred, OP.eval, rawEq, cellVal, cmpV, cmpInt, cellEq, h]

theorem canonPred_bool (xv yv : List Bytes) (a b : Bool) :
    (canonPred .bool).eval .bool xv yv (.bool a) (.bool b) = some (cellEq (.bool a) (.bool b)) := by
  cases a <;> cases b <;>
  simp [canonPred, plainPred, OP.eval, rawEq, cellVal, cmpV, cmpBool, cellEq]

theorem canonPred_float (xv yv : List Bytes) (a b : UInt64) :
    (canonPred .float).eval .float xv yv (.float a) (.float b) = some (cellEq (.float a) (.float b)) := by
  cases hx : F64.isNaN a <;> cases hy : F64.isNaN b <;> cases hk : (F64.key a == F64.key b) <;>
  simp [canonPred, OP.eval, rawEq, cellVal, cmpV, cmpFlt, nanOf, F64.eq, cellEq, hx, hy, hk]

theorem canonPred_string (xv yv : List Bytes) (s t : Option Bytes) :
    (canonPred .string).eval .string xv yv (.str s) (.str t) = some (cellEq (.str s) (.str t)) := by
  rcases s with _ | u <;> rcases t with _ | v
  · simp [canonPred, OP.eval, nullOf, cellEq]
  · simp [canonPred, OP.eval, nullOf, cellEq]
  · simp [canonPred, OP.eval, nullOf, cellEq]
  · by_cases h : u = v <;> simp [canonPred, OP.eval, nullOf, strOf, cellEq, h]

/-- `c.values[v]` of the code of a non-null cell of the column is the cell's string -/
theorem enumStrOf_some {vals : List Bytes} {s : Bytes} {i : Nat} (hi : enumRank vals s = some i) (hl : i < 255) :
    enumStrOf .enum vals (.str (some s)) = some s := by
  have hn : ¬ (i = enumNull) := by unfold enumNull; omega
  have hlt : i < enumNull := by unfold enumNull; omega
  have hv : vals[i]? = some s := by
    unfold enumRank at hi
    rw [List.findIdx?_eq_some_iff_getElem] at hi
    obtain ⟨hlen, hp, _⟩ := hi
    simp at hp
    simp [hlen, hp]
  simp [enumStrOf, cellVal, hi, hlt, hn, hv]

theorem canonPred_enum (xv yv : List Bytes) (s t : Option Bytes)
    (hx : wtCell .enum xv (.str s) = true) (hy : wtCell .enum yv (.str t) = true) :
    (canonPred .enum).eval .enum xv yv (.str s) (.str t) = some (cellEq (.str s) (.str t)) := by
  rcases s with _ | u <;> rcases t with _ | v
  · simp [canonPred, OP.eval, nullOf, rawEq, cellVal, cmpV, cmpNat, enumNull, cellEq]
  · obtain ⟨j, hj, hjl⟩ := enum_ok hy
    have hjn : ¬ (255 = j) := by omega
    simp [canonPred, OP.eval, nullOf, rawEq, cellVal, cmpV, cmpNat, enumNull, cellEq, hj, hjl, hjn]
  · obtain ⟨i, hi, hil⟩ := enum_ok hx
    have hin : ¬ (i = 255) := by omega
    have hin' : (i == 255) = false := by simp; omega
    simp [canonPred, OP.eval, nullOf, rawEq, cellVal, cmpV, cmpNat, enumNull, cellEq, hi, hil, hin, hin']
  · obtain ⟨i, hi, hil⟩ := enum_ok hx
    obtain ⟨j, hj, hjl⟩ := enum_ok hy
    have hin : (i == 255) = false := by simp; omega
    have hjn : (j == 255) = false := by simp; omega
    have e1 := enumStrOf_some hi hil
    have e2 := enumStrOf_some hj hjl
    by_cases h : u = v
    · subst h
      simp [canonPred, OP.eval, nullOf, cellVal, enumNull, cellEq, hi, hj, hil, hjl, hin, hjn, e1, e2]
    · simp [canonPred, OP.eval, nullOf, cellVal, enumNull, cellEq, hi, hj, hil, hjl, hin, hjn, e1, e2, h]

/-- The canonical predicate of a type is `cellEq` on every pair of cells of the type (for enums: each cell a member of its
own column's value table). -/
theorem canonPred_sem {ty : CType} (hty : ty ∈ tys) (xv yv : List Bytes) (x y : Cell)
    (hx : wtCell ty xv x = true) (hy : wtCell ty yv y = true) :
    (canonPred ty).eval ty xv yv x y = some (cellEq x y) := by
  cases ty
  · cases x <;> simp [wtCell, cellVal] at hx
    cases y <;> simp [wtCell, cellVal] at hy
    exact canonPred_int ..
  · cases x <;> simp [wtCell, cellVal] at hx
    cases y <;> simp [wtCell, cellVal] at hy
    exact canonPred_float ..
  · cases x <;> simp [wtCell, cellVal] at hx
    cases y <;> simp [wtCell, cellVal] at hy
    exact canonPred_bool ..
  · cases x <;> simp [wtCell, cellVal] at hx
    cases y <;> simp [wtCell, cellVal] at hy
    exact canonPred_string ..
  · rcases x with _ | _ | _ | s
    · simp [wtCell, cellVal] at hx
    · simp [wtCell, cellVal] at hx
    · simp [wtCell, cellVal] at hx
    rcases y with _ | _ | _ | t
    · simp [wtCell, cellVal] at hy
    · simp [wtCell, cellVal] at hy
    · simp [wtCell, cellVal] at hy
    exact canonPred_enum xv yv s t hx hy
  · simp [tys] at hty

/-! ## `Equals`, cell by cell -/

/-- **The per-cell predicate of today's `Equals` is the spec's `cellEq`.** For every column type and ALL cells `x`, `y` of
the type — for enum columns: `x` a member (or null) of the receiver's value table `xv`, `y` of the other column's table
`yv`, which may be different tables — the loop body of `Column.Equals` goes on to the next position iff `cellEq x y`:
equal ints / bools; floats equal as IEEE values (−0.0 = +0.0) or both NaN; strings both null or both non-null with the same
bytes (null ≠ ""); enums both null or both non-null with the same STRING. -/
theorem gen_cell_equals_semantics {ty : CType} (hty : ty ∈ tys) (xv yv : List Bytes) (x y : Cell)
    (hx : wtCell ty xv x = true) (hy : wtCell ty yv y = true) :
    genCellEq ty xv yv x y = some (cellEq x y) := by
  have canon : ∀ ty ∈ tys, (Gen.equalsAst.lookup (pkgOf ty)).bind EQ.pred? = some (canonPred ty) := by decide
  rw [genCellEq, cellEqIn_canon _ canon hty]
  exact canonPred_sem hty xv yv x y hx hy

/-! ## `Equals`, the column -/

theorem allOpt_total (p : Nat → Option Bool) (q : Nat → Bool) (l : List Nat) (h : ∀ i ∈ l, p i = some (q i)) :
    allOpt p l = some (l.all q) := by
  induction l with
  | nil => rfl
  | cons i is ih =>
    have hi := h i (by simp)
    have ih' := ih (fun j hj => h j (by simp [hj]))
    simp only [allOpt, hi, List.all_cons]
    cases q i
    · rfl
    · simpa using ih'

theorem all_congr_mem {α : Type} (l : List α) (p q : α → Bool) (h : ∀ a ∈ l, p a = q a) : l.all p = l.all q := by
  induction l with
  | nil => rfl
  | cons x t ih =>
    simp only [List.all_cons]
    rw [h x (by simp), ih (fun a ha => h a (by simp [ha]))]

/-- the canonical `Equals`: a column of another type is unequal; otherwise all positions must satisfy the predicate -/
theorem canonEquals_eval (ty : CType) (same : Bool) (xv yv : List Bytes) (xs ys : Nat → Cell) (n : Nat) (q : Nat → Bool)
    (h : same = true → ∀ i < n, (canonPred ty).eval ty xv yv (xs i) (ys i) = some (q i)) :
    (canonEquals ty).eval ty same xv yv xs ys n = some (same && (List.range n).all q) := by
  cases same
  · rfl
  · have := allOpt_total (fun i => (canonPred ty).eval ty xv yv (xs i) (ys i)) q (List.range n)
      (fun i hi => h rfl i (List.mem_range.1 hi))
    simp only [canonEquals, EQ.eval, if_true, this, Bool.true_and]
    cases (List.range n).all q <;> rfl

/-- the cells of the first `n` rows of the column are of its type -/
def ColTyped (n : Nat) (c : LCol) : Prop := c.ty ∈ tys ∧ ∀ r, r < n → wtCell c.ty c.vals c.cells[r]! = true

/-- **`Column.Equals` of today's source.** On two columns whose cells are of their types: the answer is `true` iff `other`
is a column of the same type (`other.(Column)` succeeds) and at EVERY position the per-cell predicate holds
(`gen_equals_loop`), i.e. iff all cells are `cellEq` — exactly `¬ C10Guards.colDiffers`. -/
theorem gen_equals_column (a b : LCol) (n : Nat) (ha : ColTyped n a) (hb : ColTyped n b) :
    genColEquals a b n = some (a.ty == b.ty && (List.range n).all (fun r => cellEq a.cells[r]! b.cells[r]!)) := by
  have canon : ∀ ty ∈ tys, Gen.equalsAst.lookup (pkgOf ty) = some (canonEquals ty) := by decide
  rw [genColEquals, colEqualsIn_canon _ canon a b n ha.1]
  apply canonEquals_eval
  intro hs i hi
  have hty : a.ty = b.ty := eq_of_beq hs
  have hbi := hb.2 i hi
  rw [← hty] at hbi
  exact canonPred_sem ha.1 a.vals b.vals _ _ (ha.2 i hi) hbi

/-- … the loop is `∀ i` of the extracted predicate; a column of another type is unequal whatever its cells are. -/
theorem gen_equals_loop (a b : LCol) (n : Nat) (ha : ColTyped n a) (hb : ColTyped n b) :
    genColEquals a b n = some (a.ty == b.ty &&
      (List.range n).all (fun r => genCellEq a.ty a.vals b.vals a.cells[r]! b.cells[r]! == some true)) ∧
    (a.ty ≠ b.ty → genColEquals a b n = some false) := by
  constructor
  · rw [gen_equals_column a b n ha hb]
    by_cases hty : a.ty = b.ty
    · have hall : (List.range n).all (fun r => cellEq a.cells[r]! b.cells[r]!) =
          (List.range n).all (fun r => genCellEq a.ty a.vals b.vals a.cells[r]! b.cells[r]! == some true) := by
        apply all_congr_mem
        intro r hr
        have hbi := hb.2 r (List.mem_range.1 hr)
        rw [← hty] at hbi
        rw [gen_cell_equals_semantics ha.1 _ _ _ _ (ha.2 r (List.mem_range.1 hr)) hbi]
        cases cellEq a.cells[r]! b.cells[r]! <;> rfl
      rw [hall]
    · have : (a.ty == b.ty) = false := beq_false_of_ne hty
      simp [this]
  · intro hty
    have : (a.ty == b.ty) = false := beq_false_of_ne hty
    rw [gen_equals_column a b n ha hb, this]
    rfl

/-! ## `QFrame.Equals` = `equalsS` -/

/-- every column's cells (the first `f.n` rows) are of the column's type -/
def FrameTyped (f : LFrame) : Prop := ∀ c ∈ f.cols, ColTyped f.n c

/-- what today's column code says about the columns at position `i`: `!a.cols[i].Equals(a.index, b.cols[i], b.index)` -/
def genDiffers (a b : LFrame) (i : Nat) : Bool := !((genColEquals (a.cols[i]!) (b.cols[i]!) a.n).getD false)

theorem getElem!_mem {α : Type} [Inhabited α] (l : List α) (i : Nat) (h : i < l.length) : l[i]! ∈ l := by
  rw [getElem!_pos l i h]
  exact List.getElem_mem h

/-- On frames of the same shape the extracted column comparison at every column position is the comparison
`C10Guards.gen_equals_vs_spec` assumed. -/
theorem gen_differs_eq (a b : LFrame) (ha : FrameTyped a) (hb : FrameTyped b) (hn : a.n = b.n) (i : Nat)
    (hia : i < a.cols.length) (hib : i < b.cols.length) :
    genColEquals (a.cols[i]!) (b.cols[i]!) a.n = some (!colDiffers a b i) ∧ genDiffers a b i = colDiffers a b i := by
  have h1 := ha _ (getElem!_mem a.cols i hia)
  have h2 := hb _ (getElem!_mem b.cols i hib)
  rw [← hn] at h2
  have := gen_equals_column _ _ a.n h1 h2
  unfold genDiffers colDiffers
  rw [this]
  simp

theorem equalsOutcome_two (q : GReq) : equalsOutcome q = .retTrue ∨ equalsOutcome q = .retFalse := by
  unfold equalsOutcome
  split; exact .inr rfl
  split; exact .inr rfl
  split; exact .inr rfl
  split; exact .inr rfl
  exact .inl rfl

/-- **Today's `QFrame.Equals` is `equalsS`.** The extracted shape checks of `QFrame.Equals` (C10Guards: row counts, column
counts, names) followed, per column position, by the extracted `Column.Equals` of the column's package answer `true` iff
the spec's `equalsS` does — on ALL pairs of frames whose cells are of their column's type. This discharges the assumption
of `C10Guards.gen_equals_vs_spec` (`colDiffers` is what today's column code computes: `gen_differs_eq`). -/
theorem gen_equals_eq_spec (a b : LFrame) (ha : FrameTyped a) (hb : FrameTyped b) :
    genGuards2 "Equals" (equalsReq a b (genDiffers a b)) = some (if equalsS a b then .retTrue else .retFalse) := by
  by_cases hshape : a.n = b.n ∧ a.names = b.names
  · obtain ⟨hn, hnames⟩ := hshape
    have hl : a.cols.length = b.cols.length := by
      have := congrArg List.length hnames
      unfold LFrame.names at this
      simpa using this
    have hd : ∀ i, i < a.cols.length → genDiffers a b i = colDiffers a b i :=
      fun i hi => (gen_differs_eq a b ha hb hn i hi (hl ▸ hi)).2
    have h := (gen_equals_semantics a b (genDiffers a b)).2.2
    have hs := equalsS_iff a b
    have hiff : genGuards2 "Equals" (equalsReq a b (genDiffers a b)) = some .retTrue ↔ equalsS a b = true := by
      rw [h, hs]
      constructor
      · rintro ⟨h1, h2, h3⟩; exact ⟨h1, h2, fun i hi => by rw [← hd i hi]; exact h3 i hi⟩
      · rintro ⟨h1, h2, h3⟩; exact ⟨h1, h2, fun i hi => by rw [hd i hi]; exact h3 i hi⟩
    cases he : equalsS a b
    · rw [gen_equals_outcome] at hiff ⊢
      rcases equalsOutcome_two (equalsReq a b (genDiffers a b)) with x | x
      · rw [x] at hiff
        have := hiff.1 rfl
        rw [he] at this; cases this
      · rw [x]; rfl
    · rw [hiff.2 he]; rfl
  · have hne : a.n ≠ b.n ∨ a.names ≠ b.names := by
      by_cases h1 : a.n = b.n
      · exact .inr (fun h2 => hshape ⟨h1, h2⟩)
      · exact .inl h1
    obtain ⟨h1, h2⟩ := (gen_equals_semantics a b (genDiffers a b)).2.1 hne
    rw [h1, h2]; rfl

/-! ## `StringAt` -/

theorem canonStringAt_sem {ty : CType} (hty : ty ∈ tys) (F : Fmt) (vals : List Bytes) (naRep buf : Bytes) (x : Cell)
    (hx : wtCell ty vals x = true) :
    (canonStringAt ty).eval F ty vals naRep buf x =
      some (.str (if x.isNull then naRep else C13Write.cellString F.fmtF x)) := by
  cases ty
  · cases x <;> simp [wtCell, cellVal] at hx
    simp [canonStringAt, RE.eval, intOf, Cell.isNull, C13Write.cellString]
  · cases x <;> simp [wtCell, cellVal] at hx
    rename_i b
    cases hn : F64.isNaN b <;>
    simp [canonStringAt, RE.eval, RTest.eval, nanOf, floatOf, Cell.isNull, C13Write.cellString, hn]
  · cases x <;> simp [wtCell, cellVal] at hx
    rename_i b
    cases b <;> simp [canonStringAt, RE.eval, boolOf, Cell.isNull, C13Write.cellString]
  · cases x <;> simp [wtCell, cellVal] at hx
    rename_i s
    cases s <;> simp [canonStringAt, RE.eval, RTest.eval, nullOf, strOf, Cell.isNull, C13Write.cellString]
  · rcases x with _ | _ | _ | s
    · simp [wtCell, cellVal] at hx
    · simp [wtCell, cellVal] at hx
    · simp [wtCell, cellVal] at hx
    rcases s with _ | u
    · simp [canonStringAt, RE.eval, RTest.eval, nullOf, cellVal, enumNull, Cell.isNull]
    · obtain ⟨i, hi, hil⟩ := enum_ok hx
      have hin : (i == 255) = false := by simp; omega
      have e1 := enumStrOf_some hi hil
      simp [canonStringAt, RE.eval, RTest.eval, nullOf, cellVal, enumNull, Cell.isNull, C13Write.cellString, hi, hil, hin, e1]
  · simp [tys] at hty

/-- `StringAt(i, naRep)` of today's source, any `naRep` (`String()` passes "null"): `naRep` for a null cell (NaN, null
string, null enum), else the string `ToCSV` writes. -/
theorem gen_stringAt_naRep {ty : CType} (hty : ty ∈ tys) (F : Fmt) (vals : List Bytes) (naRep buf : Bytes) (x : Cell)
    (hx : wtCell ty vals x = true) :
    genStringAt F ty vals naRep buf x = some (.str (if x.isNull then naRep else C13Write.cellString F.fmtF x)) := by
  have canon : ∀ ty ∈ tys, Gen.stringAtAst.lookup (pkgOf ty) = some (canonStringAt ty) := by decide
  rw [genStringAt, renderIn_canon _ _ canon hty]
  exact canonStringAt_sem hty F vals naRep buf x hx

/-- **`StringAt(i, "")` of today's source is `C13Write.cellString fmt`** — the strings `C13Write.tocsv` puts into the
records of `ToCSV` — for every column type and ALL cells of the type; `fmt` is `strconv.FormatFloat(·, 'f', -1, 64)`.
(The other formatters and the buffer are not used.) -/
theorem gen_stringAt_semantics {ty : CType} (hty : ty ∈ tys) (fmt : UInt64 → Bytes) (vals : List Bytes) (x : Cell)
    (hx : wtCell ty vals x = true) (ryu : UInt64 → Bytes) (quote : Bytes → Bytes) (buf : Bytes) :
    genStringAt ⟨fmt, ryu, quote⟩ ty vals [] buf x = some (.str (C13Write.cellString fmt x)) := by
  have canon : ∀ ty ∈ tys, Gen.stringAtAst.lookup (pkgOf ty) = some (canonStringAt ty) := by decide
  rw [genStringAt, renderIn_canon _ _ canon hty, canonStringAt_sem hty _ vals [] buf x hx]
  cases h : x.isNull
  · rfl
  · simp [C13Write.cellString_null fmt x h]

/-! ## `AppendByteStringAt` -/

theorem canonAppend_sem {ty : CType} (hty : ty ∈ tys) (F : Fmt) (vals : List Bytes) (naRep buf : Bytes) (x : Cell)
    (hx : wtCell ty vals x = true) (hq : F.quote = C14.appendQuoted) :
    (canonAppend ty).eval F ty vals naRep buf x = some (.buf (buf ++ C14ToJson.cellBytes F.ryu x)) := by
  cases ty
  · cases x <;> simp [wtCell, cellVal] at hx
    simp [canonAppend, RE.eval, intOf, C14ToJson.cellBytes, C14ToJson.intText, intStr, strBytes]
  · cases x <;> simp [wtCell, cellVal] at hx
    rename_i b
    cases hn : F64.isNaN b <;>
    simp [canonAppend, RE.eval, RTest.eval, nanOf, floatOf, C14ToJson.cellBytes, nullLit, hn]
  · cases x <;> simp [wtCell, cellVal] at hx
    rename_i b
    cases b <;> simp [canonAppend, RE.eval, boolOf, C14ToJson.cellBytes]
  · cases x <;> simp [wtCell, cellVal] at hx
    rename_i s
    cases s <;> simp [canonAppend, RE.eval, RTest.eval, nullOf, rawOf, RV.str?, C14ToJson.cellBytes, nullLit, hq]
  · rcases x with _ | _ | _ | s
    · simp [wtCell, cellVal] at hx
    · simp [wtCell, cellVal] at hx
    · simp [wtCell, cellVal] at hx
    rcases s with _ | u
    · simp [canonAppend, RE.eval, RTest.eval, nullOf, cellVal, enumNull, C14ToJson.cellBytes, nullLit]
    · obtain ⟨i, hi, hil⟩ := enum_ok hx
      have hin : (i == 255) = false := by simp; omega
      have e1 := enumStrOf_some hi hil
      simp [canonAppend, RE.eval, RTest.eval, nullOf, cellVal, enumNull, RV.str?, C14ToJson.cellBytes, hi, hil, hin, e1, hq]
  · simp [tys] at hty

/-- **`AppendByteStringAt(buf, i)` of today's source appends exactly `C14ToJson.cellBytes fmt cell` to ANY buffer** — the
bytes `C14ToJson.toJSON` writes per cell — for every column type and ALL cells of the type; `fmt` is what
`ryu.AppendFloat64f` appends for a non-NaN float, `AppendQuotedString` is its mirror `C14.appendQuoted`. -/
theorem gen_append_semantics {ty : CType} (hty : ty ∈ tys) (fmt : UInt64 → Bytes) (vals : List Bytes) (x : Cell)
    (hx : wtCell ty vals x = true) (fmtF : UInt64 → Bytes) (naRep buf : Bytes) :
    genAppend ⟨fmtF, fmt, C14.appendQuoted⟩ ty vals naRep buf x = some (.buf (buf ++ C14ToJson.cellBytes fmt x)) := by
  have canon : ∀ ty ∈ tys, Gen.appendAst.lookup (pkgOf ty) = some (canonAppend ty) := by decide
  rw [genAppend, renderIn_canon _ _ canon hty]
  exact canonAppend_sem hty _ vals naRep buf x hx rfl

/-! ## The helpers of scolumn -/

/-- `stringAt(i)` / `bytesAt(i)` of today's scolumn return `("", true)` for a null cell and `(bytes, false)` for a non-null
one: the reading of `OP.bytesEq` / `OP.xNull` / `RE.strAt` / `RTest.isNull` on string columns. -/
theorem gen_helpers_sem (F : Fmt) (vals : List Bytes) (naRep buf : Bytes) (s : Option Bytes) :
    ∀ h ∈ ["scolumn.stringAt", "scolumn.bytesAt"],
      (Gen.observeHelpers.lookup h).bind (fun e => e.eval F .string vals naRep buf (.str s)) =
        some (.pair (s.getD []) s.isNone) := by
  have canon : ∀ h ∈ ["scolumn.stringAt", "scolumn.bytesAt"], Gen.observeHelpers.lookup h = some canonHelper := by
    decide
  intro h hh
  rw [canon h hh]
  cases s <;> simp [canonHelper, RE.eval, RTest.eval, nullOf, rawOf, RV.str?]

/-! ## Witnesses: the statements tell wrong observation functions apart -/

/-- ecolumn's `Equals` comparing the CODES of two non-null cells instead of their strings … -/
def enumByCode : OP := .ite (.or .xNull .yNull) (.ite .xEqY .tt .ff) (.ite (.not .xEqY) .ff .tt)

/-- … calls the cell "a" of a column with values [a, b] different from the cell "a" of a column with values [b, a]
(and equal to its cell "b"): not `cellEq`. -/
example :
    enumByCode.eval .enum [[97], [98]] [[98], [97]] (.str (some [97])) (.str (some [97])) = some false ∧
    cellEq (.str (some [97])) (.str (some [97])) = true ∧
    wtCell .enum [[97], [98]] (.str (some [97])) = true ∧ wtCell .enum [[98], [97]] (.str (some [97])) = true := by
  decide

/-- fcolumn's `Equals` without the NaN test says NaN ≠ NaN; the spec (and today's code) say they are the same. -/
example : plainPred.eval .float [] [] (.float F64.canonNaN) (.float F64.canonNaN) = some false ∧
    cellEq (.float F64.canonNaN) (.float F64.canonNaN) = true := by
  decide

/-- scolumn's `Equals` ignoring the null flags says null = "". -/
example : (OP.ite (.not .bytesEq) .ff .tt).eval .string [] [] (.str none) (.str (some [])) = some true ∧
    cellEq (.str none) (.str (some [])) = false := by
  decide

/-- fcolumn's `AppendByteStringAt` with an integer fast path `if value == 0 { return append(buf, '0') }` … -/
def zeroFastPath : RE := .ite .isZero (.appendLit [48]) (.ite .isNaN (.appendLit nullLit) .ryuF)

def negZero : UInt64 := 0x8000000000000000

/-- … writes `0` for −0.0, whatever the formatter writes for it (`-0`): it does not append `cellBytes fmt`. -/
example :
    let fmt : UInt64 → Bytes := fun b => if b = negZero then [45, 48] else [48]
    zeroFastPath.eval ⟨fmt, fmt, C14.appendQuoted⟩ .float [] [] [91] (.float negZero) = some (.buf [91, 48]) ∧
    [91] ++ C14ToJson.cellBytes fmt (.float negZero) = [91, 45, 48] := by
  decide

/-- fcolumn's `AppendByteStringAt` without the NaN test hands NaN to the formatter instead of writing `null`. -/
example :
    let fmt : UInt64 → Bytes := fun _ => [78, 97, 78]
    RE.ryuF.eval ⟨fmt, fmt, C14.appendQuoted⟩ .float [] [] [] (.float F64.canonNaN) = some (.buf [78, 97, 78]) ∧
    C14ToJson.cellBytes fmt (.float F64.canonNaN) = [110, 117, 108, 108] := by
  decide

#print axioms gen_observe_no_opaque
#print axioms gen_cell_equals_semantics
#print axioms gen_equals_column
#print axioms gen_equals_loop
#print axioms gen_equals_eq_spec
#print axioms gen_stringAt_semantics
#print axioms gen_stringAt_naRep
#print axioms gen_append_semantics
#print axioms gen_helpers_sem
#print axioms gen_enum_null_code

end QF.Props.C09Observe
