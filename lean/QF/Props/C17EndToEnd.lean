import QF.Props.C17Factory
import QF.Props.C17EnumRestGen
import QF.Props.C02Dispatch
import QF.Props.C03EndToEnd
/-!
# C17 — enum columns END TO END: from the regenerated factory to what the user observes (tie T1)

The pieces (each proved over the terms regenerated TODAY from /repo):

* `C17Factory.gen_factory_semantics` — `ecolumn.New` / `NewFactory` + the per-cell step (the CSV reader's `AppendByteString` is the
  same step: `gen_factory_bytes_step`; `New` of qframe.go takes this constructor: `gen_factory_is_ctor`) = the spec's `mkEnum`;
* `C17Enum` — `mkEnum_declared`, `mkEnum_derived`, `enum_order_declared`, `enum_null_distinct`, `enum_filter_undeclared`;
* `C17EnumRestGen` — `isNull`, `compVal` regenerated;
* `C03Compare.gen_compare_semantics`, `C03EndToEnd.gen_sort_end_to_end` — the comparators and `Sort`, everything regenerated;
* `C02Dispatch.gen_enum_declared` / `gen_enum_undeclared` — `ecolumn.filterBuiltIn` + tables + kernels.

Here they are composed for ONE column: the column today's factory builds from `declared` values and `cells`
(`genNew declared cells = .ok σ`, observed as `colOf name σ`). `gen_enum_end_to_end`:

(e) `genNew` is never stuck; it is `.err` exactly when more than 255 values are declared, or a value outside a non-empty
    declaration occurs, or nothing is declared and more than 255 distinct values occur — a clean error;
otherwise it returns a column `σ` with (`EnumE2E`):
(a) at most 255 values; declared: the value list IS the declaration and the column is strict; derived: not strict and the value
    list is `FirstAppearance` (duplicate-free, exactly the non-null cells, in the order of their first appearance);
(b) every cell reads back as what was put in (`decode` of its code), a null cell has the code 255 that `isNull` tests and no value
    has it, and null is incomparable with every cell (`cmp6 … = (op == "!=")`);
(c) the comparator `Sort` uses orders two values by their position in the value list (reversed by `Reverse`), nulls first (last
    with `NullLast`), and `Sort` of today's source on any well-formed frame holding the column, by that column, returns a frame
    that is a sorted result for the spec in which the ranks never descend (never ascend with `Reverse`);
(d) `< <= > >= = !=` against a constant of the value list compare the POSITION of the cell's value with the constant's
    (null: only `!=` holds); against a constant outside the list: an error if the column is strict (always, if values were
    declared), else no row (`!=`: every row).
-/
set_option linter.unusedSimpArgs false
set_option linter.unusedVariables false
namespace QF.Props.C17EndToEnd
open QF QF.Props.C17Enum QF.Props.C17Factory
open QF.Props.C02Kernels (cellOk tys)

/-- the column as the user observes it: value table, strictness, one cell per code -/
def colOf (name : Bytes) (σ : FState) : LCol :=
  { name := name, ty := .enum, vals := σ.values, strict := σ.strict, cells := (σ.data.map (decode σ.values)).toArray }

theorem mem_cellOf {cells : List (Option Bytes)} {s : Bytes} : Cell.str (some s) ∈ cells.map cellOf ↔ some s ∈ cells := by
  simp [cellOf]

/-! ## (e) errors, (a) the value list, (b) the cells -/

/-- (e) today's `New` never gets stuck, and fails exactly in the three documented cases -/
theorem gen_enum_errors (declared : List Bytes) (cells : List (Option Bytes)) :
    genNew declared cells ≠ .stuck ∧
    (genNew declared cells = .err ↔
      (declared.length > 255 ∨ (declared ≠ [] ∧ ∃ s, some s ∈ cells ∧ s ∉ declared) ∨
       (declared = [] ∧ MoreDistinctThan 255 (cells.map cellOf)))) := by
  obtain ⟨h1, _, h3⟩ := gen_factory_reject_iff declared cells
  refine ⟨h3, ?_⟩
  rw [h1]
  by_cases hl : declared.length > 255
  · simp [mkEnum_eq, hl]
  · by_cases hne : declared = []
    · subst hne
      rw [(mkEnum_derived (cells.map cellOf)).1]
      simp
    · have := (mkEnum_declared declared (cells.map cellOf) hne (by omega)).2.1
      rw [this]
      simp only [mem_cellOf]
      constructor
      · intro h; exact Or.inr (Or.inl ⟨hne, h⟩)
      · rintro (h | ⟨_, h⟩ | ⟨h, _⟩)
        · exact absurd h hl
        · exact h
        · exact absurd h hne

/-- more than 255 distinct values (declared or occurring): a clean error -/
theorem gen_enum_too_many (declared : List Bytes) (cells : List (Option Bytes)) :
    (declared.length > 255 → genNew declared cells = .err) ∧
    (declared = [] → MoreDistinctThan 255 (cells.map cellOf) → genNew declared cells = .err) :=
  ⟨fun h => (gen_enum_errors declared cells).2.2 (Or.inl h),
   fun h1 h2 => (gen_enum_errors declared cells).2.2 (Or.inr (Or.inr ⟨h1, h2⟩))⟩

/-- (a) the value list and its order -/
structure ValuesOk (declared : List Bytes) (cells : List (Option Bytes)) (σ : FState) : Prop where
  le255 : σ.values.length ≤ 255
  declaredVals : declared ≠ [] → σ.values = declared ∧ σ.strict = true
  derivedVals : declared = [] → σ.strict = false ∧ FirstAppearance σ.values (cells.map cellOf)
  spec : mkEnum declared (cells.map cellOf) = some (σ.values, σ.strict)

theorem gen_enum_values (declared : List Bytes) (cells : List (Option Bytes)) (σ : FState) (h : genNew declared cells = .ok σ) :
    ValuesOk declared cells σ := by
  have hm := (gen_factory_reject_iff declared cells).2.1 σ h
  have hlen := (mkEnum_rank_lt_255 declared _ _ _ hm).1
  refine ⟨hlen, fun hne => ?_, fun he => ?_, hm⟩
  · have hl : declared.length ≤ 255 := by
      apply Classical.byContradiction
      intro hc
      simp [mkEnum_eq, show declared.length > 255 by omega] at hm
    rcases (mkEnum_declared declared (cells.map cellOf) hne hl).2.2 with h' | h'
    · rw [h'] at hm
      simp only [Option.some.injEq, Prod.mk.injEq] at hm
      exact ⟨hm.1.symm, hm.2.symm⟩
    · rw [h'] at hm; cases hm
  · subst he
    obtain ⟨h1, h2, _⟩ := (mkEnum_derived (cells.map cellOf)).2.1 _ _ hm
    exact ⟨h1, h2⟩

/-- (b) the cells: they read back, null is the code 255 (what `isNull` tests), no value is null -/
structure CellsOk (declared : List Bytes) (cells : List (Option Bytes)) (σ : FState) : Prop where
  readBack : σ.data.map (decode σ.values) = cells.map cellOf
  codes : Forall2 (CodeOk σ.values) cells σ.data
  ranks : declared.Nodup → Forall2 (RankOk σ.values) cells σ.data
  isNull : ∀ code, C17EnumRestGen.genIsNull code = some (code == 255)
  valueNotNull : ∀ i, i < σ.values.length → i ≠ 255
  nullDistinct : ∀ (name : Bytes) (a : Cell) (op : String),
    cmp6 (colOf name σ) op (.str none) a = (op == "!=") ∧ cmp6 (colOf name σ) op a (.str none) = (op == "!=")

theorem gen_enum_cells (declared : List Bytes) (cells : List (Option Bytes)) (σ : FState) (h : genNew declared cells = .ok σ) :
    CellsOk declared cells σ := by
  have hm := (gen_factory_reject_iff declared cells).2.1 σ h
  obtain ⟨σ', h', hv, hs, hc, hr⟩ := (gen_factory_semantics declared cells).2 _ _ hm
  rw [h] at h'
  cases h'
  have hlen := (mkEnum_rank_lt_255 declared _ _ _ hm).1
  refine ⟨decode_codes hc, hc, hr, C17EnumRestGen.gen_isnull_semantics, fun i hi => by omega, fun name a op => ?_⟩
  have := enum_null_distinct (colOf name σ) (.str none) a rfl
  exact ⟨this.2.2.1 op, this.2.2.2 op⟩

/-! ## the observed column -/

theorem cellOk_of_mem {vals : List Bytes} {s : Bytes} (hm : s ∈ vals) (hl : vals.length ≤ 255) :
    cellOk .enum vals (.str (some s)) = true := by
  obtain ⟨i, hi⟩ := Option.isSome_iff_exists.1 (enumRank_isSome_iff.2 hm)
  have := (enumRank_getElem hi).1
  have h255 : i < 255 := by omega
  simp [cellOk, cellVal, hi, enumNull, h255]

theorem mem_of_cellOk {vals : List Bytes} {s : Bytes} (h : cellOk .enum vals (.str (some s)) = true) : s ∈ vals := by
  obtain ⟨i, hi, _⟩ := C02Kernels.enum_ok h
  exact enumRank_isSome_iff.1 (by rw [hi]; rfl)

theorem colOf_cells {declared : List Bytes} {cells : List (Option Bytes)} {σ : FState} (hc : CellsOk declared cells σ) (name : Bytes) :
    (colOf name σ).cells = (cells.map cellOf).toArray := by
  simp only [colOf, hc.readBack]

theorem colOf_cell {declared : List Bytes} {cells : List (Option Bytes)} {σ : FState} (hc : CellsOk declared cells σ) (name : Bytes)
    (r : Nat) (hr : r < cells.length) : (colOf name σ).cells[r]! = .str cells[r]! := by
  rw [colOf_cells hc]
  simp [hr, cellOf]

theorem forall2_get {α β : Type} [Inhabited α] [Inhabited β] {R : α → β → Prop} {l₁ : List α} {l₂ : List β} (h : Forall2 R l₁ l₂) :
    l₁.length = l₂.length ∧ ∀ r, r < l₁.length → R l₁[r]! l₂[r]! := by
  induction h with
  | nil => exact ⟨rfl, fun r hr => absurd hr (by simp)⟩
  | cons hab _ ih =>
    refine ⟨by simp [ih.1], fun r hr => ?_⟩
    cases r with
    | zero => simpa using hab
    | succ n =>
      have := ih.2 n (by simpa using hr)
      simpa using this

/-- every cell of the column is null or a value of the table: a cell of the column's type -/
theorem colOf_cellOk {declared : List Bytes} {cells : List (Option Bytes)} {σ : FState} (hv : ValuesOk declared cells σ)
    (hc : CellsOk declared cells σ) (name : Bytes) (r : Nat) (hr : r < cells.length) :
    cellOk .enum σ.values (colOf name σ).cells[r]! = true := by
  rw [colOf_cell hc name r hr]
  have := (forall2_get hc.codes).2 r hr
  cases hcell : cells[r]! with
  | none => simp [cellOk, cellVal]
  | some s =>
    rw [hcell] at this
    exact cellOk_of_mem (List.mem_of_getElem? this.2) hv.le255

/-! ## (d) the six comparison filters against a constant -/

/-- the frame that holds just the column, and the leaf `col op "v"` on it -/
def frameOf (c : LCol) : LFrame := { cols := [c], n := c.cells.size }
def leafOf (c : LCol) (op : String) (v : Bytes) : Leaf := { inv := false, col := c.name, cmp := .builtin op, arg := .cell (.str (some v)) }
theorem frameOf_find (c : LCol) : (frameOf c).find? c.name = some c := by simp [frameOf, LFrame.find?]

/-- the six comparators on a cell of an enum column against a value of the table: by position; a null cell: only `!=` -/
theorem cmp6_rank (c : LCol) (hty : c.ty = .enum) (hnd : c.vals.Nodup) (op : String) (j : Nat) (hj : j < c.vals.length) :
    (∀ i (hi : i < c.vals.length), cmp6 c op (.str (some c.vals[i])) (.str (some c.vals[j])) =
      (if op == "!=" then compare i j != .eq else ordOp op (compare i j))) ∧
    cmp6 c op (.str none) (.str (some c.vals[j])) = (op == "!=") :=
  ⟨fun i hi => enum_cmp6_declared c hty hnd i j hi hj op, (enum_null_distinct_str c c.vals[j] op).1⟩

/-- (d) `ecolumn.filterBuiltIn` of today's source (dispatcher, tables, kernels) on the column the factory built -/
structure FiltersOk (cells : List (Option Bytes)) (σ : FState) : Prop where
  /-- a constant of the value list: every row is compared with it, by position in the list -/
  declaredConst : ∀ (name : Bytes) (lo : LikeOracle) (f2i : UInt64 → Int) (i2f : Int → UInt64) (P : KParams) (op : String),
    isOrd6 op = true → ∀ (j : Nat) (hj : j < σ.values.length),
    ∃ u, (C02Dispatch.today lo f2i i2f P (colOf name σ) (.str op) (.str σ.values[j])).runBuiltIn (C02Dispatch.dispatchOf .enum) = .upd u ∧
      (∀ (r : Nat) (b : Bool), r < cells.length →
        u (colOf name σ).cells[r]! (colOf name σ).cells[r]! b =
          some (b || cmp6 (colOf name σ) op (colOf name σ).cells[r]! (.str (some σ.values[j])))) ∧
      (σ.values.Nodup → ∀ i (hi : i < σ.values.length),
        cmp6 (colOf name σ) op (.str (some σ.values[i])) (.str (some σ.values[j])) =
          (if op == "!=" then compare i j != .eq else ordOp op (compare i j))) ∧
      cmp6 (colOf name σ) op (.str none) (.str (some σ.values[j])) = (op == "!=")
  /-- a constant outside the value list: an error if strict, else every row for `!=` and no row otherwise -/
  undeclaredConst : ∀ (name : Bytes) (lo : LikeOracle) (f2i : UInt64 → Int) (i2f : Int → UInt64) (P : KParams) (op : String) (v : Bytes),
    isOrd6 op = true → v ∉ σ.values →
    (C02Dispatch.today lo f2i i2f P (colOf name σ) (.str op) (.str v)).runBuiltIn (C02Dispatch.dispatchOf .enum) =
      if σ.strict then .err else .upd (fun _ _ b => some (b || (op == "!=")))

theorem gen_enum_filters (declared : List Bytes) (cells : List (Option Bytes)) (σ : FState) (h : genNew declared cells = .ok σ) :
    FiltersOk cells σ := by
  have hv := gen_enum_values declared cells σ h
  have hc := gen_enum_cells declared cells σ h
  refine ⟨fun name lo f2i i2f P op hop j hj => ?_, fun name lo f2i i2f P op v hop hv' => ?_⟩
  · have hA := C02Dispatch.gen_enum_declared lo f2i i2f P (frameOf (colOf name σ)) (leafOf (colOf name σ) op σ.values[j])
      (colOf name σ) op σ.values[j] (frameOf_find _) rfl rfl rfl hv.le255 hop (List.getElem_mem hj)
    obtain ⟨u, hu, hur⟩ := C02Dispatch.agrees_some hA
    refine ⟨u, hu, fun r b hr => ?_, fun hnd i hi => ?_, ?_⟩
    · exact hur r b (colOf_cellOk hv hc name r hr) (colOf_cellOk hv hc name r hr)
    · exact (cmp6_rank (colOf name σ) rfl hnd op j hj).1 i hi
    · exact (enum_null_distinct_str (colOf name σ) σ.values[j] op).1
  · exact C02Dispatch.gen_enum_undeclared lo f2i i2f P (colOf name σ) op v rfl hop hv'

/-! ## (c) the comparator and `Sort` -/

theorem swap_compare (i j : Nat) : (compare i j).swap = compare j i := by
  rcases C02Kernels.nat_cmp i j with ⟨h, e⟩ | ⟨h, e⟩ | ⟨h, e⟩ <;> rcases C02Kernels.nat_cmp j i with ⟨h', e'⟩ | ⟨h', e'⟩ | ⟨h', e'⟩ <;>
    first | omega | (rw [e, e']; rfl)

/-- the spec's key order on two values of an enum column: by position in the value list, `Reverse` inverting it -/
theorem keyCmp_vals (c : LCol) (hty : c.ty = .enum) (o : Order) (x y : Bytes) (hx : x ∈ c.vals) (hy : y ∈ c.vals) :
    keyCmp c o (.str (some x)) (.str (some y)) =
      if o.reverse then compare (c.vals.idxOf y) (c.vals.idxOf x) else compare (c.vals.idxOf x) (c.vals.idxOf y) := by
  unfold keyCmp
  simp only [Cell.isNull, enum_order_declared' c hty x y hx hy, Option.getD_some]
  split
  · exact swap_compare _ _
  · rfl

/-- … and on a null cell against a value: null first, last with `NullLast`, `Reverse` inverting it -/
theorem keyCmp_null_val (c : LCol) (o : Order) (y : Bytes) :
    keyCmp c o (.str none) (.str (some y)) = (if o.nullLast != o.reverse then .gt else .lt) ∧
    keyCmp c o (.str (some y)) (.str none) = (if o.nullLast != o.reverse then .lt else .gt) := by
  unfold keyCmp
  cases o.nullLast <;> cases o.reverse <;> simp [Cell.isNull, Ordering.swap]

/-- (c1) `Comparable(reverse, equalNull, nullLast).Compare` of today's ecolumn on two values: `LessThan` iff the first stands
before the second in the value list (after it, with `Reverse`); on null against a value: by `NullLast` / `Reverse` only -/
theorem gen_enum_compare (c : LCol) (hty : c.ty = .enum) (hl : c.vals.length ≤ 255) (o : Order) (equalNull : Bool) (x y : Bytes)
    (hx : x ∈ c.vals) (hy : y ∈ c.vals) :
    (∃ r, C03Compare.genCompare .enum c.vals ⟨o.reverse, equalNull, o.nullLast⟩ (.str (some x)) (.str (some y)) = some r ∧
      (r = .lessThan ↔ if o.reverse then c.vals.idxOf y < c.vals.idxOf x else c.vals.idxOf x < c.vals.idxOf y) ∧
      (r = .greaterThan ↔ if o.reverse then c.vals.idxOf x < c.vals.idxOf y else c.vals.idxOf y < c.vals.idxOf x) ∧
      (r = .equal ↔ x = y)) ∧
    (∃ r, C03Compare.genCompare .enum c.vals ⟨o.reverse, equalNull, o.nullLast⟩ (.str none) (.str (some y)) = some r ∧
      (r = .lessThan ↔ o.nullLast = o.reverse) ∧ (r = .greaterThan ↔ o.nullLast ≠ o.reverse)) := by
  have hwx : wtCell c.ty c.vals (.str (some x)) = true := by rw [hty]; exact cellOk_of_mem hx hl
  have hwy : wtCell c.ty c.vals (.str (some y)) = true := by rw [hty]; exact cellOk_of_mem hy hl
  have hwn : wtCell c.ty c.vals (.str none) = true := by rw [hty]; rfl
  have hidx : c.vals.idxOf x = c.vals.idxOf y ↔ x = y := by
    constructor
    · intro e
      have h1 := List.getElem_idxOf (List.idxOf_lt_length_of_mem hx)
      have h2 := List.getElem_idxOf (List.idxOf_lt_length_of_mem hy)
      rw [← h1, ← h2]
      simp only [e]
    · rintro rfl; rfl
  constructor
  · obtain ⟨r, h1, h2, h3, h4, _⟩ := C03Compare.gen_compare_semantics c (by rw [hty]; decide) o equalNull _ _ hwx hwy
    rw [hty] at h1
    refine ⟨r, h1, ?_, ?_, ?_⟩
    · rw [h2, keyCmp_vals c hty o x y hx hy]
      cases o.reverse <;> simp only [Bool.false_eq_true, if_false, if_true]
      · rcases C02Kernels.nat_cmp (c.vals.idxOf x) (c.vals.idxOf y) with ⟨h, e⟩ | ⟨h, e⟩ | ⟨h, e⟩ <;> rw [e] <;> simp <;> omega
      · rcases C02Kernels.nat_cmp (c.vals.idxOf y) (c.vals.idxOf x) with ⟨h, e⟩ | ⟨h, e⟩ | ⟨h, e⟩ <;> rw [e] <;> simp <;> omega
    · rw [h3, keyCmp_vals c hty o x y hx hy]
      cases o.reverse <;> simp only [Bool.false_eq_true, if_false, if_true]
      · rcases C02Kernels.nat_cmp (c.vals.idxOf x) (c.vals.idxOf y) with ⟨h, e⟩ | ⟨h, e⟩ | ⟨h, e⟩ <;> rw [e] <;> simp <;> omega
      · rcases C02Kernels.nat_cmp (c.vals.idxOf y) (c.vals.idxOf x) with ⟨h, e⟩ | ⟨h, e⟩ | ⟨h, e⟩ <;> rw [e] <;> simp <;> omega
    · rw [h4, keyCmp_vals c hty o x y hx hy, ← hidx]
      simp only [Cell.isNull, Bool.false_eq_true, false_and, not_false_eq_true, and_true]
      cases o.reverse <;> simp only [Bool.false_eq_true, if_false, if_true]
      · rcases C02Kernels.nat_cmp (c.vals.idxOf x) (c.vals.idxOf y) with ⟨h, e⟩ | ⟨h, e⟩ | ⟨h, e⟩ <;> rw [e] <;> simp <;> omega
      · rcases C02Kernels.nat_cmp (c.vals.idxOf y) (c.vals.idxOf x) with ⟨h, e⟩ | ⟨h, e⟩ | ⟨h, e⟩ <;> rw [e] <;> simp <;> omega
  · obtain ⟨r, h1, h2, h3, _, _⟩ := C03Compare.gen_compare_semantics c (by rw [hty]; decide) o equalNull _ _ hwn hwy
    rw [hty] at h1
    refine ⟨r, h1, ?_, ?_⟩
    · rw [h2, (keyCmp_null_val c o y).1]
      cases o.nullLast <;> cases o.reverse <;> simp
    · rw [h3, (keyCmp_null_val c o y).1]
      cases o.nullLast <;> cases o.reverse <;> simp

open QF.Props.C03EndToEnd (genPrims Good absF SortedResult) in
open QF.Props.C03SortGlueGen (genSort) in
open QF.Props.C04GlueLink (WFrame logical) in
/-- (c2) **`Sort` of today's source (everything regenerated: `QFrame.Sort`, the comparators, `Sorter.Sort()`) by an enum column
orders the rows by the position of their value in the value list.** For every well-formed frame `F` that has not failed and has
the enum column `c`, every setting of Reverse / NullLast and every budget: a value `r` that `Sort` returns is `Good` (C03EndToEnd:
the columns of `F`, no error, a permutation of the index, `isSortedResult` of the spec) and along the result's index the
positions never descend (never ascend with `Reverse`); with `nullLast = reverse` no null row follows a non-null row, otherwise no
non-null row follows a null row. -/
theorem gen_enum_sort (F : GG.Frame) (L : Nat) (wf : WFrame F L) (he : F.err = false) (c : LCol) (hc : F.find? c.name = some c)
    (hty : c.ty = .enum) (rev nl : Bool) (fuel : Nat) (r : SG.SRes (Nat → Nat → Option CRes))
    (hr : genSort (genPrims fuel) F [⟨c.name, rev, nl⟩] = some r) :
    Good F L [⟨c.name, rev, nl⟩] r ∧
    ∀ k, k + 1 < r.frame.index.length →
      (∀ x y, c.cells[r.frame.index[k]!]! = .str (some x) → c.cells[r.frame.index[k + 1]!]! = .str (some y) →
        if rev then c.vals.idxOf y ≤ c.vals.idxOf x else c.vals.idxOf x ≤ c.vals.idxOf y) ∧
      (∀ x, c.cells[r.frame.index[k]!]! = .str (some x) → c.cells[r.frame.index[k + 1]!]! = .str none → nl ≠ rev) ∧
      (∀ y, c.cells[r.frame.index[k]!]! = .str none → c.cells[r.frame.index[k + 1]!]! = .str (some y) → nl = rev) := by
  have hknown : ∀ o ∈ [(⟨c.name, rev, nl⟩ : Order)], (F.find? o.col).isSome = true := by
    intro o ho
    simp only [List.mem_singleton] at ho
    subst ho
    simp [hc]
  have hgood : Good F L [⟨c.name, rev, nl⟩] r := by
    rcases ((C03EndToEnd.gen_sort_end_to_end F L wf _).2.2 he hknown).2 fuel with h | ⟨r', h, hg⟩
    · rw [h] at hr; cases hr
    · rw [h] at hr; cases hr; exact hg
  refine ⟨hgood, fun k hk => ?_⟩
  obtain ⟨keys, hkeys, _, _, _, hsorted⟩ := hgood.sorted
  -- the one key of the result: the column seen through the result's index
  have hfind : (absF r.frame).find? c.name = some (logical r.frame.index c) := by
    rw [C03EndToEnd.absF_find]
    have : r.frame.find? c.name = some c := by
      simp only [GG.Frame.find?, hgood.cols]; exact hc
    rw [this]; rfl
  have hk1 : keys = [(logical r.frame.index c, ⟨c.name, rev, nl⟩)] := by
    simp only [sortKeys, List.mapM_cons, List.mapM_nil, hfind, Option.map_some, Option.bind_eq_bind, Option.bind_some,
      Option.pure_def, Option.some.injEq] at hkeys
    exact hkeys.symm
  have hs := hsorted k hk
  rw [hk1] at hs
  simp only [rowLess, C03EndToEnd.keyCmp_logical, C04GlueLink.logical_cell r.frame.index c (k + 1) hk,
    C04GlueLink.logical_cell r.frame.index c k (by omega)] at hs
  have hnlt : keyCmp c ⟨c.name, rev, nl⟩ c.cells[r.frame.index[k + 1]!]! c.cells[r.frame.index[k]!]! ≠ .lt := by
    intro e; rw [e] at hs; cases hs
  -- the two rows are rows of the column, so their cells are null or values of the table
  have hcmem : c ∈ F.cols := List.mem_of_find?_eq_some hc
  have hin : ∀ p, p < r.frame.index.length → r.frame.index[p]! < L := by
    intro p hp
    apply hgood.wf.inRange
    rw [getElem!_pos _ p hp]
    exact List.getElem_mem hp
  have hmem : ∀ p, p < r.frame.index.length → ∀ x, c.cells[r.frame.index[p]!]! = .str (some x) → x ∈ c.vals := by
    intro p hp x hx
    have := (wf.cols c hcmem).typed _ (hin p hp)
    rw [hx, hty] at this
    exact mem_of_cellOk this
  refine ⟨fun x y hx hy => ?_, fun x hx hy => ?_, fun y hx hy => ?_⟩
  · rw [hx, hy, keyCmp_vals c hty _ y x (hmem _ hk y hy) (hmem _ (by omega) x hx)] at hnlt
    cases rev <;> simp only [Bool.false_eq_true, if_false, if_true] at hnlt ⊢
    · rcases C02Kernels.nat_cmp (c.vals.idxOf y) (c.vals.idxOf x) with ⟨h, e⟩ | ⟨h, e⟩ | ⟨h, e⟩
      · exact absurd e hnlt
      · omega
      · omega
    · rcases C02Kernels.nat_cmp (c.vals.idxOf x) (c.vals.idxOf y) with ⟨h, e⟩ | ⟨h, e⟩ | ⟨h, e⟩
      · exact absurd e hnlt
      · omega
      · omega
  · rw [hx, hy, (keyCmp_null_val c _ x).1] at hnlt
    cases nl <;> cases rev <;> simp at hnlt ⊢
  · rw [hx, hy, (keyCmp_null_val c _ y).2] at hnlt
    cases nl <;> cases rev <;> simp at hnlt ⊢

/-! ## The combined statement -/

open QF.Props.C03EndToEnd (genPrims Good) in
open QF.Props.C03SortGlueGen (genSort) in
open QF.Props.C04GlueLink (WFrame) in
/-- what holds of the column `σ` today's factory returns for `declared` and `cells` -/
structure EnumE2E (declared : List Bytes) (cells : List (Option Bytes)) (σ : FState) : Prop where
  /-- (a) -/
  values : ValuesOk declared cells σ
  /-- (b) -/
  cellsOk : CellsOk declared cells σ
  /-- (c1) the comparator of `Sort` on the observed column -/
  compare : ∀ (name : Bytes) (o : Order) (equalNull : Bool) (x y : Bytes), x ∈ σ.values → y ∈ σ.values →
    (∃ r, C03Compare.genCompare .enum σ.values ⟨o.reverse, equalNull, o.nullLast⟩ (.str (some x)) (.str (some y)) = some r ∧
      (r = .lessThan ↔ if o.reverse then σ.values.idxOf y < σ.values.idxOf x else σ.values.idxOf x < σ.values.idxOf y) ∧
      (r = .greaterThan ↔ if o.reverse then σ.values.idxOf x < σ.values.idxOf y else σ.values.idxOf y < σ.values.idxOf x) ∧
      (r = .equal ↔ x = y)) ∧
    (∃ r, C03Compare.genCompare .enum σ.values ⟨o.reverse, equalNull, o.nullLast⟩ (.str none) (.str (some y)) = some r ∧
      (r = .lessThan ↔ o.nullLast = o.reverse) ∧ (r = .greaterThan ↔ o.nullLast ≠ o.reverse))
  /-- (c2) `Sort` by the column, on any well-formed frame that holds it -/
  sort : ∀ (name : Bytes) (F : GG.Frame) (L : Nat), WFrame F L → F.err = false → F.find? name = some (colOf name σ) →
    ∀ (rev nl : Bool) (fuel : Nat) (r : SG.SRes (Nat → Nat → Option CRes)),
    genSort (genPrims fuel) F [⟨name, rev, nl⟩] = some r →
    Good F L [⟨name, rev, nl⟩] r ∧
    ∀ k, k + 1 < r.frame.index.length →
      (∀ x y, (colOf name σ).cells[r.frame.index[k]!]! = .str (some x) → (colOf name σ).cells[r.frame.index[k + 1]!]! = .str (some y) →
        if rev then σ.values.idxOf y ≤ σ.values.idxOf x else σ.values.idxOf x ≤ σ.values.idxOf y) ∧
      (∀ x, (colOf name σ).cells[r.frame.index[k]!]! = .str (some x) → (colOf name σ).cells[r.frame.index[k + 1]!]! = .str none → nl ≠ rev) ∧
      (∀ y, (colOf name σ).cells[r.frame.index[k]!]! = .str none → (colOf name σ).cells[r.frame.index[k + 1]!]! = .str (some y) → nl = rev)
  /-- (d) -/
  filters : FiltersOk cells σ
  /-- (d) for a column built from a declaration: an undeclared constant is always an error -/
  filtersDeclared : declared ≠ [] →
    ∀ (name : Bytes) (lo : LikeOracle) (f2i : UInt64 → Int) (i2f : Int → UInt64) (P : KParams) (op : String) (v : Bytes),
    isOrd6 op = true → v ∉ declared →
    (C02Dispatch.today lo f2i i2f P (colOf name σ) (.str op) (.str v)).runBuiltIn (C02Dispatch.dispatchOf .enum) = .err
  /-- (d) for a derived column: a constant that does not occur matches nothing (`!=`: everything) -/
  filtersDerived : declared = [] →
    ∀ (name : Bytes) (lo : LikeOracle) (f2i : UInt64 → Int) (i2f : Int → UInt64) (P : KParams) (op : String) (v : Bytes),
    isOrd6 op = true → some v ∉ cells →
    (C02Dispatch.today lo f2i i2f P (colOf name σ) (.str op) (.str v)).runBuiltIn (C02Dispatch.dispatchOf .enum) =
      .upd (fun _ _ b => some (b || (op == "!=")))

/-- **`gen_enum_end_to_end`.** For every list of declared values and every list of cells, `ecolumn.New` of today's source (the
factory the constructors and the CSV reader use) never gets stuck; it fails exactly when more than 255 values are declared, a
value outside a non-empty declaration occurs, or nothing is declared and more than 255 distinct values occur; otherwise it
returns a column, and every column it returns satisfies (a)–(d) of `EnumE2E`. -/
theorem gen_enum_end_to_end (declared : List Bytes) (cells : List (Option Bytes)) :
    genNew declared cells ≠ .stuck ∧
    (genNew declared cells = .err ↔
      (declared.length > 255 ∨ (declared ≠ [] ∧ ∃ s, some s ∈ cells ∧ s ∉ declared) ∨
       (declared = [] ∧ MoreDistinctThan 255 (cells.map cellOf)))) ∧
    (genNew declared cells = .err ∨ ∃ σ, genNew declared cells = .ok σ) ∧
    (∀ σ, genNew declared cells = .ok σ → EnumE2E declared cells σ) := by
  refine ⟨(gen_enum_errors declared cells).1, (gen_enum_errors declared cells).2, ?_, fun σ h => ?_⟩
  · obtain ⟨h1, h2⟩ := gen_factory_semantics declared cells
    cases hm : mkEnum declared (cells.map cellOf) with
    | none => exact Or.inl (h1 hm)
    | some p =>
      obtain ⟨σ, h, _⟩ := h2 p.1 p.2 hm
      exact Or.inr ⟨σ, h⟩
  · have hv := gen_enum_values declared cells σ h
    have hc := gen_enum_cells declared cells σ h
    have hf := gen_enum_filters declared cells σ h
    refine ⟨hv, hc, ?_, ?_, hf, ?_, ?_⟩
    · intro name o equalNull x y hx hy
      exact gen_enum_compare (colOf name σ) rfl hv.le255 o equalNull x y hx hy
    · intro name F L wf he hfind rev nl fuel r hr
      exact gen_enum_sort F L wf he (colOf name σ) hfind rfl rev nl fuel r hr
    · intro hne name lo f2i i2f P op v hop hv'
      obtain ⟨e1, e2⟩ := hv.declaredVals hne
      rw [hf.undeclaredConst name lo f2i i2f P op v hop (by rw [e1]; exact hv'), e2]
      rfl
    · intro he name lo f2i i2f P op v hop hv'
      obtain ⟨e1, e2⟩ := hv.derivedVals he
      rw [hf.undeclaredConst name lo f2i i2f P op v hop (by rw [e2.mem, mem_cellOf]; exact hv'), e1]
      rfl

/-! ## Concrete instances -/

section Examples
open QF.Props.C03EndToEnd (genPrims)
open QF.Props.C03SortGlueGen (genSort)
open QF.Props.C04GlueLink (WFrame)

/-- "b" before "a" is declared; the data use both values and null -/
def declBA : List Bytes := [[98], [97]]
def dataAB : List (Option Bytes) := [some [97], none, some [98], some [97]]

/-- today's factory, run by the kernel: the declaration as value list, strict, the codes 1, null, 0, 1 -/
example : (match genNew declBA dataAB with | .ok σ => some (σ.values, σ.strict, σ.data) | _ => none) =
    some (declBA, true, [1, 255, 0, 1]) := by decide +kernel
/-- nothing declared: the values in order of first appearance, not strict -/
example : (match genNew [] dataAB with | .ok σ => some (σ.values, σ.strict, σ.data) | _ => none) =
    some ([[97], [98]], false, [0, 255, 1, 0]) := by decide +kernel
/-- an undeclared value: the error -/
example : (match genNew declBA (dataAB ++ [some [99]]) with | .err => true | _ => false) = true := by decide +kernel

/-- (e) 256 distinct one-byte strings: declared, or occurring without a declaration — the error, run by the kernel; 255 are fine -/
def many (n : Nat) : List Bytes := (List.range n).map fun i => [UInt8.ofNat i]
example : (match genNew (many 256) [] with | .err => true | _ => false) = true := by decide +kernel
theorem many_nodup (n : Nat) (hn : n ≤ 256) : (many n).Nodup := by
  unfold many List.Nodup
  rw [List.pairwise_map]
  refine List.Pairwise.imp_of_mem ?_ (List.nodup_range (n := n))
  intro a b ha hb hab e
  simp only [List.mem_range] at ha hb
  simp only [List.cons.injEq, and_true] at e
  have := congrArg UInt8.toNat e
  simp only [UInt8.toNat_ofNat'] at this
  omega
/-- the hypothesis `MoreDistinctThan 255` of (e) for the 256 strings as cells, hence the error -/
theorem many_distinct : MoreDistinctThan 255 (((many 256).map some).map cellOf) :=
  ⟨many 256, many_nodup 256 (by omega), fun s hs => by rw [mem_cellOf]; exact List.mem_map.2 ⟨s, hs, rfl⟩, by simp [many]⟩
example : genNew [] ((many 256).map some) = .err := (gen_enum_too_many [] _).2 rfl many_distinct

/-- the column of the first example as the user observes it -/
def colBA : LCol :=
  { name := [101], ty := .enum, vals := declBA, strict := true,
    cells := #[.str (some [97]), .str none, .str (some [98]), .str (some [97])] }
def frBA : GG.Frame := { cols := [colBA], index := [0, 1, 2, 3] }

/-- the hypotheses of clause (c2) for it: a well-formed frame that has not failed and finds the column -/
example : WFrame frBA 4 where
  nodup := by decide
  small := by decide
  inRange := by decide
  cols := by
    intro c hc
    simp only [frBA, List.mem_singleton] at hc
    subst hc
    exact ⟨by decide, rfl, by decide⟩
example : frBA.err = false ∧ frBA.find? colBA.name = some colBA := ⟨rfl, by simp [frBA, GG.Frame.find?]⟩
/-- `Sort` of today's source by the enum column: null first, then "b" (declared first), then the two "a" -/
example : (genSort (genPrims 40) frBA [⟨[101], false, false⟩]).map (fun r => r.frame.index.map fun p => colBA.cells[p]!) =
    some [Cell.str none, .str (some [98]), .str (some [97]), .str (some [97])] := by decide +kernel

/-- the hypotheses of clause (d): "<" is one of the six comparators, "c" is not declared; `e < "a"` keeps the rows with "b" -/
example : isOrd6 "<" = true ∧ ([99] : Bytes) ∉ declBA := by decide
example : cmp6 colBA "<" (.str (some [98])) (.str (some [97])) = true ∧ cmp6 colBA "<" (.str (some [97])) (.str (some [97])) = false ∧
    cmp6 colBA "<" (.str none) (.str (some [97])) = false := by decide

end Examples

end QF.Props.C17EndToEnd

#print axioms QF.Props.C17EndToEnd.gen_enum_errors
#print axioms QF.Props.C17EndToEnd.gen_enum_too_many
#print axioms QF.Props.C17EndToEnd.gen_enum_values
#print axioms QF.Props.C17EndToEnd.gen_enum_cells
#print axioms QF.Props.C17EndToEnd.gen_enum_filters
#print axioms QF.Props.C17EndToEnd.gen_enum_compare
#print axioms QF.Props.C17EndToEnd.gen_enum_sort
#print axioms QF.Props.C17EndToEnd.gen_enum_end_to_end
