import QF.Props.C04GrouperFns
/-!
# C04 / C05 — the meaning of the canonical grouper terms (2: `table.grow`)

`call_grow`: the translated `grow` run on the Go table of a mirror table `t` (size a power of two, twice the size still a
`uint32`) yields the Go table of `G.grow {} t`: the doubled slice, every old entry — the EMPTY ones as well, which is what
`RelocationCollisions` shows (`G.skipFrom`) — re-placed from `hash & (newLen-1)` by linear probing in slot order
(`reloc_loop` = `G.placeFrom` / `G.skipFrom`, `grow_outer` = the fold over the old slots), `RelocationCount + 1`, the load
factor halved.
-/
namespace QF.Props.C04GrouperGen
open QF QF.GL
set_option linter.unusedSimpArgs false
set_option linter.unusedVariables false

/-! ## the encoding of slot arrays -/

theorem encSlots_length (ns : Array (Option G.Entry)) : (encSlots ns).length = ns.size := by simp [encSlots]

theorem encSlots_getElem? (ns : Array (Option G.Entry)) (p : Nat) : (encSlots ns)[p]? = (ns[p]?).map encEntry := by
  simp [encSlots]

theorem encSlots_set (ns : Array (Option G.Entry)) (p : Nat) (x : Option G.Entry) :
    (encSlots ns).set p (encEntry x) = encSlots (ns.setIfInBounds p x) := by
  simp [encSlots, List.map_set]

theorem encSlots_set_none (ns : Array (Option G.Entry)) (p : Nat) (h : ns[p]? = some none) :
    (encSlots ns).set p (encEntry none) = encSlots ns := by
  apply List.ext_getElem?
  intro i
  rw [List.getElem?_set]
  by_cases hi : p = i
  · subst hi
    have hp : p < ns.size := by
      rcases Nat.lt_or_ge p ns.size with h' | h'
      · exact h'
      · rw [Array.getElem?_eq_none h'] at h; cases h
    rw [encSlots_getElem?, h]; simp [encSlots_length, hp]
  · simp [hi]

theorem encSlots_replicate (N : Nat) : encSlots (Array.replicate N none) = List.replicate N ({} : Entry) := by
  simp [encSlots, encEntry]

/-! ## one old entry: the probe loop of `grow` -/

/-- what `grow` does with one old slot: an entry is placed at the first free slot on its path, for an empty slot the
path from slot 0 is walked as well (only the collisions are counted) -/
def placeX (ns : Array (Option G.Entry)) (x : Option G.Entry) (f pos c : Nat) : Option (Array (Option G.Entry) × Nat) :=
  match x with
  | some e => G.placeFrom ns e f pos c
  | none => (G.skipFrom ns f pos c).map fun c' => (ns, c')

theorem growStep_eq (N : Nat) (ns : Array (Option G.Entry)) (c : Nat) (x : Option G.Entry) :
    G.growStep N (some (ns, c)) x = placeX ns x (N + 1) ((encEntry x).hash % N) c := by
  cases x <;> rfl

theorem placeX_zero (ns : Array (Option G.Entry)) (x : Option G.Entry) (pos c : Nat) : placeX ns x 0 pos c = none := by
  cases x <;> simp [placeX, G.placeFrom, G.skipFrom]

theorem placeX_free (ns : Array (Option G.Entry)) (x : Option G.Entry) (f pos c : Nat) (h : ns[pos]? = some none) :
    placeX ns x (f+1) pos c = some (match x with | some e => ns.setIfInBounds pos (some e) | none => ns, c) := by
  cases x <;> simp [placeX, G.placeFrom, G.skipFrom, h]

theorem placeX_occ (ns : Array (Option G.Entry)) (x : Option G.Entry) (f pos c : Nat) (e' : G.Entry) (h : ns[pos]? = some (some e')) :
    placeX ns x (f+1) pos c = placeX ns x f ((pos + 1) % ns.size) (c + 1) := by
  cases x <;> simp [placeX, G.placeFrom, G.skipFrom, h]

theorem placeX_size (ns : Array (Option G.Entry)) (x : Option G.Entry) : ∀ (f pos c : Nat) (ns' : Array (Option G.Entry)) (c' : Nat),
    pos < ns.size → placeX ns x f pos c = some (ns', c') → ns'.size = ns.size := by
  intro f
  induction f with
  | zero => intro pos c ns' c' _ h; rw [placeX_zero] at h; cases h
  | succ f ih =>
    intro pos c ns' c' hp h
    have hn : 0 < ns.size := by omega
    have hlt : ns[pos]? = some ns[pos] := by simp [hp]
    cases hv : ns[pos] with
    | none =>
      rw [placeX_free ns x f pos c (by rw [hlt, hv])] at h
      cases x <;> simp at h <;> rw [← h.1] <;> simp
    | some e' =>
      rw [placeX_occ ns x f pos c e' (by rw [hlt, hv])] at h
      exact ih _ _ _ _ (Nat.mod_lt _ hn) h

/-- the table with another value of `RelocationCollisions` -/
def withRC (T : Table) (c : Int) : Table := { T with stats := { T.stats with relocationCollisions := c } }

theorem mask_mod (x N k : Nat) (hN : N = 2 ^ k) : x &&& (N - 1) = x % N := by
  subst hN; exact Nat.and_two_pow_sub_one_eq_mod x k

/-- `for pos := e.hash & bitMask; ; pos = (pos + 1) & bitMask { … }` after its init statement is `placeX` -/
theorem reloc_loop (Γ : Env) (T : Table) (x : Option G.Entry) (N k : Nat) (hN : N = 2 ^ k) (hlt : N < M32)
    (ns' : Array (Option G.Entry)) (c' : Nat) :
    ∀ (f F : Nat) (ns : Array (Option G.Entry)) (pos c : Nat) (σ : Store), f ≤ F → ns.size = N → pos < N →
      σ 0 = some (.tbl (withRC T c)) → σ 2 = some (.entries (encSlots ns)) → σ 3 = some (.u32 (N - 1)) →
      σ 4 = some (.entry (encEntry x)) → σ 5 = some (.u32 pos) →
      placeX ns x f pos c = some (ns', c') →
      ∃ σ', forLoop (condOf Γ (E.bool true)) (execOf Γ relocBody) (execOf Γ relocPost) F σ = .next σ' ∧
        σ' 0 = some (.tbl (withRC T c')) ∧ σ' 2 = some (.entries (encSlots ns')) ∧ σ' 3 = some (.u32 (N - 1)) := by
  intro f
  induction f with
  | zero => intro F ns pos c σ _ _ _ _ _ _ _ _ h; rw [placeX_zero] at h; cases h
  | succ f ih =>
    intro F ns pos c σ hF hsz hp h0 h2 h3 h4 h5 hpl
    cases F with
    | zero => omega
    | succ F =>
      have hpn : pos < ns.size := by omega
      have hget : ns[pos]? = some ns[pos] := by simp [hpn]
      have hnn : ¬ ((pos : Int) < 0) := by omega
      have hlen : ¬ (((encSlots ns).length : Int) ≤ (pos : Int)) := by rw [encSlots_length]; omega
      cases hv : ns[pos] with
      | none =>
        have hfree : ns[pos]? = some none := by rw [hget, hv]
        rw [placeX_free ns x f pos c hfree] at hpl
        have hat : (encSlots ns)[pos]? = some (encEntry none) := by rw [encSlots_getElem?, hfree]; rfl
        have hocc : (encEntry none).occupied = false := rfl
        have hres : (encSlots ns).set pos (encEntry x) = encSlots ns' ∧ c = c' := by
          cases x with
          | none => simp at hpl; rw [← hpl.1]; exact ⟨encSlots_set_none ns pos hfree, hpl.2⟩
          | some e => simp at hpl; rw [← hpl.1]; exact ⟨encSlots_set ns pos (some e), hpl.2⟩
        refine ⟨σ.set 2 (.entries ((encSlots ns).set pos (encEntry x))), ?_, ?_, ?_, ?_⟩
        · unfold forLoop
          simp only [condOf, execOf]
          exec_simp [h0, h2, h3, h4, h5, hat, hocc, hnn, hlen]
        · simp [set_apply, h0, hres.2]
        · simp [set_apply, hres.1]
        · simp [set_apply, h3]
      | some e' =>
        have hocc' : ns[pos]? = some (some e') := by rw [hget, hv]
        rw [placeX_occ ns x f pos c e' hocc'] at hpl
        have hat : (encSlots ns)[pos]? = some (encEntry (some e')) := by rw [encSlots_getElem?, hocc']; rfl
        have hocc : (encEntry (some e')).occupied = true := rfl
        have hn : 0 < ns.size := by omega
        have hnext : ((pos + 1) % M32) &&& (N - 1) = (pos + 1) % ns.size := by
          rw [Nat.mod_eq_of_lt (by omega), mask_mod _ N k hN, hsz]
        let σ1 := (σ.set 0 (.tbl (withRC T ((c + 1 : Nat) : Int)))).set 5 (.u32 ((pos + 1) % ns.size))
        obtain ⟨σ', g1, g2, g3, g4⟩ := ih F ns ((pos + 1) % ns.size) (c + 1) σ1 (by omega) hsz (by rw [← hsz]; exact Nat.mod_lt _ hn)
          (by simp [σ1, set_apply]) (by simp [σ1, set_apply, h2]) (by simp [σ1, set_apply, h3]) (by simp [σ1, set_apply, h4])
          (by simp [σ1, set_apply]) hpl
        refine ⟨σ', ?_, g2, g3, g4⟩
        unfold forLoop
        simp only [condOf, execOf]
        simp only [σ1] at g1
        exec_simp [h0, h2, h3, h4, h5, hat, hocc, hnn, hlen, withRC, hnext]
        simpa [withRC, Int.natCast_add] using g1

/-! ## all old slots -/

theorem growStep_none (N : Nat) (l : List (Option G.Entry)) : l.foldl (G.growStep N) none = none := by
  induction l with
  | nil => rfl
  | cons x l ih => simpa [G.growStep] using ih

theorem grow_outer (F n : Nat) (T : Table) (N k : Nat) (hN : N = 2 ^ k) (h0 : 0 < N) (hlt : N < M32) (hF : N + 1 ≤ F)
    (ns' : Array (Option G.Entry)) (c' : Nat) :
    ∀ (l : List (Option G.Entry)) (j : Nat) (ns : Array (Option G.Entry)) (c : Nat) (σ : Store), ns.size = N →
      σ 0 = some (.tbl (withRC T c)) → σ 2 = some (.entries (encSlots ns)) → σ 3 = some (.u32 (N - 1)) →
      l.foldl (G.growStep N) (some (ns, c)) = some (ns', c') →
      ∃ σ', loop (stepOf (env F n) none (some 4) growBody) (l.map fun x => Val.entry (encEntry x)) j σ = .next σ' ∧
        σ' 0 = some (.tbl (withRC T c')) ∧ σ' 2 = some (.entries (encSlots ns')) := by
  intro l
  induction l with
  | nil =>
    intro j ns c σ _ h0 h2 _ h
    simp at h
    exact ⟨σ, rfl, by rw [h0, h.2], by rw [h2, h.1]⟩
  | cons x l ih =>
    intro j ns c σ hsz hs0 hs2 hs3 hfold
    rw [List.foldl_cons] at hfold
    cases hstep : G.growStep N (some (ns, c)) x with
    | none => rw [hstep, growStep_none] at hfold; cases hfold
    | some r =>
      obtain ⟨ns1, c1⟩ := r
      rw [hstep] at hfold
      rw [growStep_eq] at hstep
      have hpos : (encEntry x).hash % N < N := Nat.mod_lt _ h0
      have hsz1 : ns1.size = N := by rw [placeX_size ns x _ _ _ _ _ (by omega) hstep, hsz]
      have hmask : (encEntry x).hash &&& (N - 1) = (encEntry x).hash % N := mask_mod _ N k hN
      let σ1 := (σ.set 4 (.entry (encEntry x))).set 5 (.u32 ((encEntry x).hash % N))
      obtain ⟨σ2, g1, g2, g3, g4⟩ := reloc_loop (env F n) T x N k hN hlt ns1 c1 (N + 1) F ns ((encEntry x).hash % N) c σ1 hF hsz hpos
        (by simp [σ1, set_apply, hs0]) (by simp [σ1, set_apply, hs2]) (by simp [σ1, set_apply, hs3]) (by simp [σ1, set_apply])
        (by simp [σ1, set_apply]) hstep
      obtain ⟨σ', g5, g6, g7⟩ := ih (j + 1) ns1 c1 σ2 hsz1 g2 g3 g4 hfold
      refine ⟨σ', ?_, g6, g7⟩
      simp only [σ1] at g1
      simp only [List.map_cons, loop, stepOf]
      exec_simp [hs3, hmask, g1]
      exact g5

/-! ## `grow` -/

/-- `t.grow()` on the Go table of the mirror table `t` yields the Go table of `G.grow {} t` -/
theorem call_grow (F n : Nat) (cs : List Cmp) (collect : Bool) (t t' : G.Tbl) (k : Nat) (hk : t.slots.size = 2 ^ k)
    (hsz : 2 * t.slots.size < M32) (hden : 0 < t.lfDen) (hF : 2 * t.slots.size + 1 ≤ F) (hg : G.grow {} t = some t') :
    callAt canonFns F (n+1) .grow [.tbl (encTbl cs collect t)] = some (.unit, some (.tbl (encTbl cs collect t'))) := by
  rw [callAt_succ F n _ _ look_grow]
  have hpos : 0 < t.slots.size := by rw [hk]; exact Nat.two_pow_pos k
  -- the mirror's fold
  have hg' : (t.slots.toList.foldl (G.growStep (2 * t.slots.size)) (some (Array.replicate (2 * t.slots.size) none, t.relocCollisions))).map
      (fun (p : Array (Option G.Entry) × Nat) => ({ t with slots := p.1, relocCollisions := p.2, relocCount := t.relocCount + 1, lfDen := t.lfDen * 2 } : G.Tbl)) = some t' := by
    rw [← hg]; unfold G.grow; simp only []; rw [← Array.foldl_toList]; rfl
  cases hfold : t.slots.toList.foldl (G.growStep (2 * t.slots.size)) (some (Array.replicate (2 * t.slots.size) none, t.relocCollisions)) with
  | none => rw [hfold] at hg'; cases hg'
  | some r =>
    obtain ⟨ns', c'⟩ := r
    rw [hfold] at hg'
    simp at hg'
    let T := encTbl cs collect t
    let σ1 : Store := (((Store.empty.set 0 (.tbl T)).set 1 (.u32 (2 * t.slots.size))).set 2 (.entries (encSlots (Array.replicate (2 * t.slots.size) none)))).set 3
      (.u32 (2 * t.slots.size - 1))
    have hT : T = withRC T t.relocCollisions := rfl
    obtain ⟨σ', g1, g2, g3⟩ := grow_outer F n T (2 * t.slots.size) (k + 1) (by rw [hk, Nat.pow_succ]; omega) (by omega) hsz hF ns' c'
      t.slots.toList 0 (Array.replicate (2 * t.slots.size) none) t.relocCollisions σ1 (by simp)
      (by simp only [σ1, set_apply]; simp; exact hT) (by simp [σ1, set_apply]) (by simp [σ1, set_apply]) hfold
    have hlen : (((2 * ((encSlots t.slots).length : Int)) % (M32 : Int)).toNat) = 2 * t.slots.size := by
      rw [encSlots_length]; rw [M32_eq] at *; omega
    have hsub : (2 * t.slots.size + M32 - 1 % M32) % M32 = 2 * t.slots.size - 1 := by rw [M32_eq] at *; omega
    have hnn : ¬ (2 * (t.slots.size : Int) < 0) := by omega
    have htn : (2 * (t.slots.size : Int)).toNat = 2 * t.slots.size := by omega
    have hel : (encSlots t.slots).map Val.entry = t.slots.toList.map (fun x => Val.entry (encEntry x)) := by simp [encSlots]
    have hd0 : ¬ (t.lfDen = 0) := by omega
    simp only [σ1, T] at g1
    rw [← hg']
    exec_simp [runFn, fnGrow, encTbl, hlen, hsub, hnn, htn, encSlots_replicate] at g1 ⊢
    rw [hel, g1]
    exec_simp [g2, g3, withRC, T, encTbl, encStats, hd0]

end QF.Props.C04GrouperGen
