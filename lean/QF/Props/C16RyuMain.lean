import QF.Props.C16RyuFns
import QF.Props.C16CoreFlags
/-!
# C16 — the meaning of the canonical Ryu terms (2): `float64ToDecimalExactInt` and `float64ToDecimal`

* `call_exactInt`   — function 0 returns `Ryu64.float64ToDecimalExactInt mant exp` (for `mant < 2^52`)
* `exec_step12`     — steps 1 and 2 of `float64ToDecimal` leave `decodeE2`, `decodeM2`, `acceptBoundsOf`, `mvOf`, `mmShiftOf` in the store
* `exec_step3`      — step 3 (both branches, with the trailing-zero flags) leaves the fields of `Ryu64.step3`
* `exec_general` / `exec_common` — step 4: the three digit-removal loops and the final rounding are `Ryu64.step4General` /
  `Ryu64.step4Common`, provided the loops of the mirror stop for their own reason within the fuel
* `call_toDecimal`  — function 1 returns `Ryu64.float64ToDecimal mant exp`
-/
namespace QF.Props.C16RyuGen
open QF QF.RY
set_option linter.unusedSimpArgs false
set_option linter.unusedVariables false

/-! ## `float64ToDecimalExactInt` -/

theorem exact_loop (Γ : Env) (a b ok e sh : Val) : ∀ (fuel : Nat) (d : Ryu64.Dec64) (F : Nat), d.m ≠ 0 → d.m < 10 ^ fuel →
    -2147483648 ≤ d.e → d.e + fuel < 2147483648 → fuel < F →
    forLoop (condOf Γ exactLoopCond) (execOf Γ exactLoopBody) (execOf Γ (S.block [])) F
        [a, b, .pair (.u 64 d.m) (.i 32 d.e), ok, e, sh] =
      .next [a, b, .pair (.u 64 (Ryu64.exactIntLoop fuel d).m) (.i 32 (Ryu64.exactIntLoop fuel d).e), ok, e, sh] := by
  intro fuel
  induction fuel with
  | zero => intro d F h0 h; simp at h; omega
  | succ fuel ih =>
    intro d F h0 h he1 he2 hF
    obtain ⟨F', rfl⟩ : ∃ F', F = F' + 1 := ⟨F - 1, by omega⟩
    rw [forLoop_succ]
    by_cases hr : d.m % 10 = 0
    · have hw : wrapS 32 (d.e + 1) = d.e + 1 := wrapS32 _ (by omega) (by omega)
      have := ih { m := d.m / 10, e := d.e + 1 } F' (by simp; omega) (by simp; rw [Nat.pow_succ] at h; omega)
        (by simp; omega) (by simp; omega) (by omega)
      exec_simp [condOf, execOf, hr, Ryu64.exactIntLoop, hw, this]
    · have hb : (d.m % 10 == 0) = false := by simp [hr]
      exec_simp [condOf, execOf, hb, hr, Ryu64.exactIntLoop]

theorem exactInt_cases (mant exp : Nat) (hm : mant < 2 ^ 52) :
    Ryu64.float64ToDecimalExactInt mant exp =
      (if Ryu64.subU64 exp 1023 > 52 then (({} : Ryu64.Dec64), false) else
       if Ryu64.shl64 (Ryu64.shr64 (4503599627370496 + mant) (52 - Ryu64.subU64 exp 1023)) (52 - Ryu64.subU64 exp 1023)
            != 4503599627370496 + mant then
         ({ m := Ryu64.shr64 (4503599627370496 + mant) (52 - Ryu64.subU64 exp 1023), e := 0 }, false)
       else (Ryu64.exactIntLoop 20 { m := Ryu64.shr64 (4503599627370496 + mant) (52 - Ryu64.subU64 exp 1023), e := 0 }, true)) := by
  have hor := C16Core.or_two_pow_52 mant hm
  have hM : (2 : Nat) ^ 52 + mant = 4503599627370496 + mant := rfl
  rw [hM] at hor
  unfold Ryu64.float64ToDecimalExactInt
  dsimp only
  simp only [hor]
  rfl
theorem call_exactInt (F : Nat) (fr : Nat → List UInt8) (n : Nat) (hF : 20 < F) (mant exp : Nat) (hm : mant < 2 ^ 52) (he : exp < 2 ^ 64) :
    callAt canonFns T F fr (n+1) fExactInt [.u 64 mant, .u 64 exp] =
      some (.pair (.pair (.u 64 (Ryu64.float64ToDecimalExactInt mant exp).1.m) (.i 32 (Ryu64.float64ToDecimalExactInt mant exp).1.e))
        (.bool (Ryu64.float64ToDecimalExactInt mant exp).2)) := by
  rw [callAt_succ F fr n _ _ look_exactInt]
  simp only [exactInt_cases mant exp hm]
  have hor := C16Core.or_two_pow_52 mant hm
  have h1 : Ryu64.shl64 1 Ryu64.mantBits64 = 4503599627370496 := by decide
  have hM : (2 : Nat) ^ 52 + mant = 4503599627370496 + mant := rfl
  simp only [h1, hM] at hor
  have he'' : (exp + 18446744073709550593) % 18446744073709551616 = Ryu64.subU64 exp 1023 := by unfold Ryu64.subU64; omega
  have hE : Ryu64.subU64 exp 1023 < 18446744073709551616 := Nat.mod_lt _ (by decide)
  generalize Ryu64.subU64 exp 1023 = e at he'' hE
  have hmt : 4503599627370496 + mant < 2 ^ 53 := by omega
  have hmt0 : 4503599627370496 ≤ 4503599627370496 + mant := by omega
  generalize 4503599627370496 + mant = mt at hor hmt hmt0
  rewrite [xrunFn, if_pos (by rfl)]
  simp only [fnExactInt]
  xs []
  xs []
  xs [he'']
  by_cases hgt : e > 52
  · xif [hgt]
    xs []
    simp [hgt]
  · have hsh : (52 + (18446744073709551616 - e % 18446744073709551616)) % 18446744073709551616 = 52 - e := by omega
    have hlt : 52 - e < 64 := by omega
    have hmod : (52 - e) % 18446744073709551616 = 52 - e := by omega
    xif [hgt]
    xs [hsh, hmod]
    xs [hor]
    xs [hlt]
    by_cases hne : Ryu64.shl64 (Ryu64.shr64 mt (52 - e)) (52 - e) != mt
    · have hne' := hne
      simp only [Ryu64.shl64, Ryu64.shr64, hlt, if_true] at hne'
      xif [hlt, hne']
      xs []
      have hne2 : ¬ Ryu64.shl64 (mt >>> (52 - e)) (52 - e) = mt := by simpa [Ryu64.shr64, hlt] using hne
      simp [hgt, hne2, Ryu64.shr64, hlt]
    · have hne' := hne
      simp only [Ryu64.shl64, Ryu64.shr64, hlt, if_true] at hne'
      have hd0 : mt >>> (52 - e) ≠ 0 := by
        intro h0
        rw [h0] at hne'
        simp at hne'
        omega
      have hd1 : mt >>> (52 - e) < 10 ^ 20 := by
        rw [Nat.shiftRight_eq_div_pow]
        exact Nat.lt_of_le_of_lt (Nat.div_le_self _ _) (by omega)
      have hl := exact_loop (env F fr n) (.u 64 mt) (.u 64 exp) (.bool false) (.u 64 e) (.u 64 (52 - e)) 20
        { m := mt >>> (52 - e), e := 0 } F hd0 hd1 (by simp) (by simp) hF
      xif [hlt, hne']
      xs [exactLoop, hl]
      xs []
      have hne2 : Ryu64.shl64 (mt >>> (52 - e)) (52 - e) = mt := by simpa [Ryu64.shr64, hlt] using hne
      simp [hgt, hne2, Ryu64.shr64, hlt]


/-! ## `float64ToDecimal`: steps 1 and 2 -/

theorem exec_step12_tail (Γ : Env) (hb64 : ∀ b, Γ.call fBoolToUint64 [.bool b] = some (.u 64 (Ryu64.boolToNat b)))
    (mant exp m2 : Nat) (x : Val) :
    (S.block [S.define 4 (E.cmp COp.eq (E.bin AOp.band (E.var 3) (E.u 64 1)) (E.u 64 0)), S.define 5 (E.var 4),
          S.define 6 eMv,
          S.define 7
            (E.call1 fBoolToUint64 ((E.cmp COp.ne (E.var 0) (E.u 64 0)).or (E.cmp COp.le (E.var 1) (E.u 64 1)))),
          S.define 8 (E.u 64 0), S.define 9 (E.u 64 0), S.define 10 (E.u 64 0), S.define 11 (E.i 32 0),
          S.define 12 (E.bool false), S.define 13 (E.bool false)]).exec Γ [.u 64 mant, .u 64 exp, x, .u 64 m2] =
      .next [.u 64 mant, .u 64 exp, x, .u 64 m2, .bool (m2 &&& 1 == 0), .bool (m2 &&& 1 == 0), .u 64 (Ryu64.mvOf m2),
        .u 64 (Ryu64.mmShiftOf mant exp), .u 64 0, .u 64 0, .u 64 0, .i 32 0, .bool false, .bool false] := by
  have hmv : 4 * m2 % 18446744073709551616 = Ryu64.mvOf m2 := rfl
  have hc := hb64 (mant != 0 || decide (exp ≤ 1))
  xs []
  xs []
  xs [hmv]
  xs [hc]
  xs []
  xs []
  xs []
  xs []
  xs []
  xs []
  simp [Ryu64.mmShiftOf]

theorem exec_step12 (Γ : Env) (hb64 : ∀ b, Γ.call fBoolToUint64 [.bool b] = some (.u 64 (Ryu64.boolToNat b)))
    (mant exp : Nat) (hm : mant < 2 ^ 52) (he : exp < 2047) :
    (S.block step12).exec Γ [.u 64 mant, .u 64 exp] =
      .next [.u 64 mant, .u 64 exp, .i 32 (Ryu64.decodeE2 exp), .u 64 (Ryu64.decodeM2 mant exp),
        .bool (Ryu64.acceptBoundsOf mant exp), .bool (Ryu64.acceptBoundsOf mant exp), .u 64 (Ryu64.mvOf (Ryu64.decodeM2 mant exp)),
        .u 64 (Ryu64.mmShiftOf mant exp), .u 64 0, .u 64 0, .u 64 0, .i 32 0, .bool false, .bool false] := by
  simp only [step12]
  xs []
  xs []
  by_cases h0 : exp = 0
  · xif [h0]
    xs []
    xs []
    rewrite [exec_step12_tail Γ hb64]
    simp [Ryu64.decodeE2, Ryu64.decodeM2, Ryu64.acceptBoundsOf, h0, Ryu64.bias64, Ryu64.mantBits64]
  · have hb : (exp == 0) = false := by simp [h0]
    xif [hb]
    xs []
    xs []
    rewrite [exec_step12_tail Γ hb64]
    simp [Ryu64.decodeE2, Ryu64.decodeM2, Ryu64.acceptBoundsOf, hb, Ryu64.bias64, Ryu64.mantBits64, Ryu64.shl64]

/-! ## `float64ToDecimal`: step 3 -/

/-- the `q` of the branch `e2 >= 0` and the shift it passes to `mulShift64` -/
def posQ (e2 : Int) : Nat := Ryu64.subU32 (Ryu64.log10Pow2 e2) (Ryu64.boolToNat (e2 > 3))
def posShift (e2 : Int) : Int := -e2 + (posQ e2 : Int) + ((122 : Int) + Ryu64.pow5Bits (posQ e2 : Int) - 1)
/-- everything the branch `e2 >= 0` needs to stay inside `int32`, the assertions and the table, for one exponent -/
def posOk (e : Nat) : Bool :=
  decide (posQ e < 292) && decide (64 ≤ posShift e) && decide (posShift e < 128) && decide (Ryu64.pow5Bits (posQ e : Int) ≤ 1000) &&
    decide (0 ≤ Ryu64.pow5Bits (posQ e : Int))
theorem pos_check : (List.range 970).all posOk = true := by decide +kernel

/-- the `q` of the branch `e2 < 0` (for `n = -e2`), the table index and the shift -/
def negQ (n : Int) : Nat := Ryu64.subU32 (Ryu64.log10Pow5 n) (Ryu64.boolToNat (n > 1))
def negShift (n : Int) : Int := (negQ n : Int) - (Ryu64.pow5Bits (n - (negQ n : Int)) - 121)
def negOk (n : Nat) : Bool :=
  decide ((negQ n : Int) ≤ n) && decide ((n : Int) - (negQ n : Int) < 326) && decide (64 ≤ negShift n) && decide (negShift n < 128) &&
    decide (Ryu64.pow5Bits ((n : Int) - (negQ n : Int)) ≤ 1000) && decide (0 ≤ Ryu64.pow5Bits ((n : Int) - (negQ n : Int))) &&
    decide (negQ n < 16384)
theorem neg_check : (List.range 1077).all negOk = true := by decide +kernel

theorem T_inv (q : Nat) (h : q < 292) :
    T Tbl.pow5InvSplit q = some (.pair (.u 64 (Gen.pow5InvSplit64.getD q (0, 0)).1) (.u 64 (Gen.pow5InvSplit64.getD q (0, 0)).2)) := by
  have hs : q < Gen.pow5InvSplit64.size := by rw [QF.Props.C16.tables_sizes.2]; exact h
  simp [T, tables, hs]

theorem T_split (i : Nat) (h : i < 326) :
    T Tbl.pow5Split i = some (.pair (.u 64 (Gen.pow5Split64.getD i (0, 0)).1) (.u 64 (Gen.pow5Split64.getD i (0, 0)).2)) := by
  have hs : i < Gen.pow5Split64.size := by rw [QF.Props.C16.tables_sizes.1]; exact h
  simp [T, tables, hs]

/-- what the body of `float64ToDecimal` needs from its environment: the helpers return what the mirror computes -/
structure EnvOk (Γ : Env) : Prop where
  b64 : ∀ b, Γ.call fBoolToUint64 [.bool b] = some (.u 64 (Ryu64.boolToNat b))
  b32 : ∀ b, Γ.call fBoolToUint32 [.bool b] = some (.u 32 (Ryu64.boolToNat b))
  l2 : ∀ e : Int, 0 ≤ e → e ≤ 1650 → Γ.call fLog10Pow2 [.i 32 e] = some (.u 32 (Ryu64.log10Pow2 e))
  l5 : ∀ e : Int, 0 ≤ e → e ≤ 2620 → Γ.call fLog10Pow5 [.i 32 e] = some (.u 32 (Ryu64.log10Pow5 e))
  p5 : ∀ e : Int, 0 ≤ e → e ≤ 3528 → Γ.call fPow5Bits [.i 32 e] = some (.i 32 (Ryu64.pow5Bits e))
  ms : ∀ (m lo hi : Nat) (s : Int), 64 ≤ s → s < 128 →
    Γ.call fMulShift [.u 64 m, .pair (.u 64 lo) (.u 64 hi), .i 32 s] = some (.u 64 (Ryu64.mulShift64 m (lo, hi) s))
  m5 : ∀ v p : Nat, v ≠ 0 → v < 2 ^ 64 → Γ.call fMultipleOf5 [.u 64 v, .u 32 p] = some (.bool (Ryu64.multipleOfPowerOfFive64 v p))
  m2 : ∀ v p : Nat, Γ.call fMultipleOf2 [.u 64 v, .u 32 p] = some (.bool (Ryu64.multipleOfPowerOfTwo64 v p))
  tInv : ∀ q, q < 292 → Γ.tbl Tbl.pow5InvSplit q =
    some (.pair (.u 64 (Gen.pow5InvSplit64.getD q (0, 0)).1) (.u 64 (Gen.pow5InvSplit64.getD q (0, 0)).2))
  tSplit : ∀ i, i < 326 → Γ.tbl Tbl.pow5Split i =
    some (.pair (.u 64 (Gen.pow5Split64.getD i (0, 0)).1) (.u 64 (Gen.pow5Split64.getD i (0, 0)).2))

theorem env_tbl (F : Nat) (fr : Nat → List UInt8) (n : Nat) : (env F fr n).tbl = T := rfl

theorem envOk (F : Nat) (fr : Nat → List UInt8) (n : Nat) (hF : 28 ≤ F) : EnvOk (env F fr (n+2)) where
  b64 := call_boolToUint64 F fr (n+1)
  b32 := call_boolToUint32 F fr (n+1)
  l2 := call_log10Pow2 F fr (n+1)
  l5 := call_log10Pow5 F fr (n+1)
  p5 := call_pow5Bits F fr (n+1)
  ms := call_mulShift64 F fr n
  m5 := call_multipleOf5 F fr n hF
  m2 := call_multipleOf2 F fr (n+1)
  tInv := by intro q h; rw [env_tbl]; exact T_inv q h
  tSplit := by intro i h; rw [env_tbl]; exact T_split i h

theorem xite_true (Γ : Env) (σ : Store) (c : E) (t e : S) (h : c.eval Γ σ = some (.bool true)) :
    (S.ite c t e).exec Γ σ = t.exec Γ σ := by rw [xite, h]; exact Out.branch_true _ _
theorem xite_false (Γ : Env) (σ : Store) (c : E) (t e : S) (h : c.eval Γ σ = some (.bool false)) :
    (S.ite c t e).exec Γ σ = e.exec Γ σ := by rw [xite, h]; exact Out.branch_false _ _

theorem subU32_bool (a : Nat) (c : Bool) :
    (a + (4294967296 - Ryu64.boolToNat c % 4294967296)) % 4294967296 = Ryu64.subU32 a (Ryu64.boolToNat c) := by
  cases c
  · show (a + (4294967296 - 0 % 4294967296)) % 4294967296 = (a + 2 ^ 32 - 0) % 2 ^ 32
    omega
  · show (a + (4294967296 - 1 % 4294967296)) % 4294967296 = (a + 2 ^ 32 - 1) % 2 ^ 32
    omega

theorem mvOf_eq (m2 : Nat) : 4 * m2 % 18446744073709551616 = Ryu64.mvOf m2 := rfl
theorem mpOf_eq (m2 : Nat) : (4 * m2 + 2) % 18446744073709551616 = Ryu64.mpOf m2 := by unfold Ryu64.mpOf Ryu64.u64; omega

theorem mmOf_eq (m2 mmS : Nat) (h : mmS ≤ 1) :
    (4 * m2 + 18446744073709551615 + (18446744073709551616 - mmS % 18446744073709551616)) % 18446744073709551616 =
      Ryu64.mmOf m2 mmS := by unfold Ryu64.mmOf Ryu64.subU64 Ryu64.u64; omega

/-- the three numbers `pow5Factor64` is called with are not zero -/
theorem mv_facts (m2 mmS : Nat) (hm0 : m2 ≠ 0) (hm1 : m2 < 2 ^ 53) (hs : mmS ≤ 1) :
    Ryu64.mvOf m2 ≠ 0 ∧ Ryu64.mvOf m2 < 2 ^ 64 ∧
    Ryu64.subU64 (Ryu64.subU64 (Ryu64.mvOf m2) 1) mmS ≠ 0 ∧ Ryu64.subU64 (Ryu64.subU64 (Ryu64.mvOf m2) 1) mmS < 2 ^ 64 ∧
    Ryu64.u64 (Ryu64.mvOf m2 + 2) ≠ 0 ∧ Ryu64.u64 (Ryu64.mvOf m2 + 2) < 2 ^ 64 := by
  have h : Ryu64.mvOf m2 = 4 * m2 := by unfold Ryu64.mvOf Ryu64.u64; omega
  rw [h]
  unfold Ryu64.subU64 Ryu64.u64
  omega

theorem u64_add2 (x : Nat) : (x + 2) % 18446744073709551616 = Ryu64.u64 (x + 2) := rfl
theorem sub1_eq (x : Nat) : (x + 18446744073709551615) % 18446744073709551616 = Ryu64.subU64 x 1 := by
  unfold Ryu64.subU64; omega
theorem sub1s_eq (x s : Nat) (h : s ≤ 1) :
    (x + 18446744073709551615 + (18446744073709551616 - s % 18446744073709551616)) % 18446744073709551616 =
      Ryu64.subU64 (Ryu64.subU64 x 1) s := by
  unfold Ryu64.subU64; omega

theorem exec_posPart_core (Γ : Env) (ok : EnvOk Γ) (a b : Val) (e q m2 mmS : Nat) (P : Int) (mul : Nat × Nat) (ab : Bool)
    (hq : Ryu64.subU32 (Ryu64.log10Pow2 e) (Ryu64.boolToNat (decide ((e : Int) > 3))) = q)
    (hP : Ryu64.pow5Bits (q : Int) = P) (hmul : Gen.pow5InvSplit64.getD q (0, 0) = mul)
    (h1 : e ≤ 969) (k1 : q < 292) (k2 : 64 ≤ -(e : Int) + (q : Int) + ((122 : Int) + P - 1)) (k3 : -(e : Int) + (q : Int) + ((122 : Int) + P - 1) < 128) (k4 : P ≤ 1000) (k5 : 0 ≤ P)
    (hm0 : m2 ≠ 0) (hm1 : m2 < 2 ^ 53) (hs : mmS ≤ 1) :
    posPart.exec Γ [a, b, .i 32 e, .u 64 m2, .bool ab, .bool ab, .u 64 (Ryu64.mvOf m2), .u 64 mmS,
        .u 64 0, .u 64 0, .u 64 0, .i 32 0, .bool false, .bool false] =
      .next [a, b, .i 32 e, .u 64 m2, .bool ab, .bool ab, .u 64 (Ryu64.mvOf m2), .u 64 mmS,
        .u 64 (Ryu64.step3PosQ q e m2 mmS ab).vr, .u 64 (Ryu64.step3PosQ q e m2 mmS ab).vp, .u 64 (Ryu64.step3PosQ q e m2 mmS ab).vm,
        .i 32 (Ryu64.step3PosQ q e m2 mmS ab).e10, .bool (Ryu64.step3PosQ q e m2 mmS ab).vmIsTrailingZeros,
        .bool (Ryu64.step3PosQ q e m2 mmS ab).vrIsTrailingZeros] := by
  have hnn : ¬ ((q : Int) < 0) := Int.not_lt.mpr (Int.natCast_nonneg q)
  have hwq : wrapS 32 (q : Int) = q := wrapS32 _ (by omega) (by omega)
  have c1 := ok.l2 e (by omega) (by omega)
  have c2 := ok.b32 (decide ((e : Int) > 3))
  have c3 := ok.p5 q (by omega) (by omega)
  rewrite [hP] at c3
  have hT := ok.tInv q k1
  rewrite [hmul] at hT
  have cv := ok.ms (Ryu64.mvOf m2) mul.1 mul.2 _ k2 k3
  have cp := ok.ms (Ryu64.mpOf m2) mul.1 mul.2 _ k2 k3
  have cm := ok.ms (Ryu64.mmOf m2 mmS) mul.1 mul.2 _ k2 k3
  have hq' : Ryu64.subU32 (Ryu64.log10Pow2 ↑e) (Ryu64.boolToNat (decide (3 < (e : Int)))) = q := hq
  clear hq
  simp only [posPart]
  rewrite [xscope]
  xs [c1, c2, subU32_bool, hq']
  clear hq' c1 c2
  xs [hwq]
  xs [hwq, c3]
  xs [hwq]
  xs [hT, hnn]
  xs [mvOf_eq m2, cv]
  xs [mpOf_eq m2, cp]
  xs [mmOf_eq m2 mmS hs, cm]
  simp only [posFlags]
  by_cases hq21 : q ≤ 21
  · xif [hq21]
    by_cases h5 : (Ryu64.mvOf m2 % 5 == 0) = true
    · xif [h5]
      xs [ok.m5 _ q (mv_facts m2 mmS hm0 hm1 hs).1 (mv_facts m2 mmS hm0 hm1 hs).2.1]
      simp [Ryu64.step3PosQ, hq21, h5, hP, hmul, Ryu64.pow5InvNumBits64]
    · have h5' : (Ryu64.mvOf m2 % 5 == 0) = false := by simpa using h5
      xif [h5']
      cases ab
      · xif []
        have c5 := ok.m5 _ q (mv_facts m2 mmS hm0 hm1 hs).2.2.2.2.1 (mv_facts m2 mmS hm0 hm1 hs).2.2.2.2.2
        by_cases h3 : Ryu64.multipleOfPowerOfFive64 (Ryu64.u64 (Ryu64.mvOf m2 + 2)) q = true
        · xif [u64_add2, c5, h3]
          xs [sub1_eq]
          simp [Ryu64.step3PosQ, hq21, h5', h3, hP, hmul, Ryu64.pow5InvNumBits64]
        · have h3' : Ryu64.multipleOfPowerOfFive64 (Ryu64.u64 (Ryu64.mvOf m2 + 2)) q = false := by simpa using h3
          xif [u64_add2, c5, h3']
          simp [Ryu64.step3PosQ, hq21, h5', h3', hP, hmul, Ryu64.pow5InvNumBits64]
      · xif []
        have c5 := ok.m5 _ q (mv_facts m2 mmS hm0 hm1 hs).2.2.1 (mv_facts m2 mmS hm0 hm1 hs).2.2.2.1
        xs [sub1s_eq _ _ hs, c5]
        simp [Ryu64.step3PosQ, hq21, h5', hP, hmul, Ryu64.pow5InvNumBits64]
  · xif [hq21]
    simp [Ryu64.step3PosQ, hq21, hP, hmul, Ryu64.pow5InvNumBits64]

theorem subU32_one (q : Nat) : (q + 4294967295) % 4294967296 = Ryu64.subU32 q 1 := by
  unfold Ryu64.subU32; omega

theorem exec_negPart_core (Γ : Env) (ok : EnvOk Γ) (a b : Val) (n q ix m2 mmS : Nat) (P : Int) (mul : Nat × Nat) (ab : Bool)
    (hq : Ryu64.subU32 (Ryu64.log10Pow5 n) (Ryu64.boolToNat (decide ((n : Int) > 1))) = q)
    (hix : (n : Int) - (q : Int) = ix)
    (hP : Ryu64.pow5Bits (ix : Int) = P) (hmul : Gen.pow5Split64.getD ix (0, 0) = mul)
    (h1 : n ≤ 1076) (k0 : q < 16384) (k1 : ix < 326) (k2 : 64 ≤ (q : Int) - (P - 121)) (k3 : (q : Int) - (P - 121) < 128)
    (k4 : P ≤ 1000) (k5 : 0 ≤ P)
    (hm0 : m2 ≠ 0) (hm1 : m2 < 2 ^ 53) (hs : mmS ≤ 1) :
    negPart.exec Γ [a, b, .i 32 (-(n : Int)), .u 64 m2, .bool ab, .bool ab, .u 64 (Ryu64.mvOf m2), .u 64 mmS,
        .u 64 0, .u 64 0, .u 64 0, .i 32 0, .bool false, .bool false] =
      .next [a, b, .i 32 (-(n : Int)), .u 64 m2, .bool ab, .bool ab, .u 64 (Ryu64.mvOf m2), .u 64 mmS,
        .u 64 (Ryu64.step3NegQ q (-(n : Int)) m2 mmS ab).vr, .u 64 (Ryu64.step3NegQ q (-(n : Int)) m2 mmS ab).vp,
        .u 64 (Ryu64.step3NegQ q (-(n : Int)) m2 mmS ab).vm,
        .i 32 (Ryu64.step3NegQ q (-(n : Int)) m2 mmS ab).e10, .bool (Ryu64.step3NegQ q (-(n : Int)) m2 mmS ab).vmIsTrailingZeros,
        .bool (Ryu64.step3NegQ q (-(n : Int)) m2 mmS ab).vrIsTrailingZeros] := by
  have hnn : ¬ ((ix : Int) < 0) := Int.not_lt.mpr (Int.natCast_nonneg ix)
  have hwq : wrapS 32 (q : Int) = q := wrapS32 _ (by omega) (by omega)
  have hwn : wrapS 32 (n : Int) = n := wrapS32 _ (by omega) (by omega)
  have hix' : (n : Int) - (q : Int) = (ix : Int) := hix
  have c1 := ok.l5 n (by omega) (by omega)
  have c2 := ok.b32 (decide ((n : Int) > 1))
  have c3 := ok.p5 ix (by omega) (by omega)
  rewrite [hP] at c3
  have hT := ok.tSplit ix k1
  rewrite [hmul] at hT
  have cv := ok.ms (Ryu64.mvOf m2) mul.1 mul.2 _ k2 k3
  have cp := ok.ms (Ryu64.mpOf m2) mul.1 mul.2 _ k2 k3
  have cm := ok.ms (Ryu64.mmOf m2 mmS) mul.1 mul.2 _ k2 k3
  have hq' : Ryu64.subU32 (Ryu64.log10Pow5 ↑n) (Ryu64.boolToNat (decide (1 < (n : Int)))) = q := hq
  clear hq
  simp only [negPart]
  rewrite [xscope]
  xs [hwn, c1, c2, subU32_bool, hq']
  clear hq' c1 c2
  xs [hwq]
  xs [hwq, hwn, hix']
  xs [c3]
  xs [hwq]
  xs [hT, hnn]
  xs [mvOf_eq m2, cv]
  xs [mpOf_eq m2, cp]
  xs [mmOf_eq m2 mmS hs, cm]
  simp only [negFlags]
  by_cases hq1 : q ≤ 1
  · xif [hq1]
    xs []
    cases ab
    · xif []
      xs [sub1_eq]
      simp [Ryu64.step3NegQ, hq1, hix, hP, hmul, Ryu64.pow5NumBits64]
    · xif []
      xs []
      simp [Ryu64.step3NegQ, hq1, hix, hP, hmul, Ryu64.pow5NumBits64]
  · xif [hq1]
    by_cases hq63 : q < 63
    · xif [hq63]
      xs [subU32_one, ok.m2]
      simp [Ryu64.step3NegQ, hq1, hq63, hix, hP, hmul, Ryu64.pow5NumBits64]
    · xif [hq63]
      simp [Ryu64.step3NegQ, hq1, hq63, hix, hP, hmul, Ryu64.pow5NumBits64]

theorem exec_step3 (Γ : Env) (ok : EnvOk Γ) (a b : Val) (mant exp : Nat) (hm : mant < 2 ^ 52) (he : exp < 2047)
    (hnz : mant ≠ 0 ∨ exp ≠ 0) :
    step3Stmt.exec Γ [a, b, .i 32 (Ryu64.decodeE2 exp), .u 64 (Ryu64.decodeM2 mant exp),
        .bool (Ryu64.acceptBoundsOf mant exp), .bool (Ryu64.acceptBoundsOf mant exp), .u 64 (Ryu64.mvOf (Ryu64.decodeM2 mant exp)),
        .u 64 (Ryu64.mmShiftOf mant exp), .u 64 0, .u 64 0, .u 64 0, .i 32 0, .bool false, .bool false] =
      .next [a, b, .i 32 (Ryu64.decodeE2 exp), .u 64 (Ryu64.decodeM2 mant exp),
        .bool (Ryu64.acceptBoundsOf mant exp), .bool (Ryu64.acceptBoundsOf mant exp), .u 64 (Ryu64.mvOf (Ryu64.decodeM2 mant exp)),
        .u 64 (Ryu64.mmShiftOf mant exp), .u 64 (Ryu64.step3 mant exp).vr, .u 64 (Ryu64.step3 mant exp).vp,
        .u 64 (Ryu64.step3 mant exp).vm, .i 32 (Ryu64.step3 mant exp).e10, .bool (Ryu64.step3 mant exp).vmIsTrailingZeros,
        .bool (Ryu64.step3 mant exp).vrIsTrailingZeros] := by
  obtain ⟨hm1, hm2⟩ := C16Core.decodeM2_range mant exp hm hnz
  have hm0 : Ryu64.decodeM2 mant exp ≠ 0 := by omega
  have hs := C16Core.mmShiftOf_le mant exp
  by_cases h : 1077 ≤ exp
  · have he2 := C16Core.decodeE2_pos exp h
    have hge : Ryu64.decodeE2 exp ≥ 0 := by rw [he2]; omega
    have hq : Ryu64.subU32 (Ryu64.log10Pow2 ((exp - 1077 : Nat) : Int)) (Ryu64.boolToNat (decide (((exp - 1077 : Nat) : Int) > 3))) =
        C16Core.qOf exp := by
      unfold C16Core.qOf; rw [if_pos hge, he2]
    have hok := C16Core.all_range_lift pos_check (exp - 1077) (by omega)
    simp only [posOk, Bool.and_eq_true, decide_eq_true_eq] at hok
    obtain ⟨⟨⟨⟨k1, k2⟩, k3⟩, k4⟩, k5⟩ := hok
    have hpq : posQ ((exp - 1077 : Nat) : Int) = C16Core.qOf exp := hq
    rw [hpq] at k1 k4 k5
    have hps : posShift ((exp - 1077 : Nat) : Int) = -((exp - 1077 : Nat) : Int) + (C16Core.qOf exp : Int) +
        ((122 : Int) + Ryu64.pow5Bits (C16Core.qOf exp : Int) - 1) := by unfold posShift; rw [hpq]
    rw [hps] at k2 k3
    rewrite [C16Core.step3_pos_eq mant exp hge, he2]
    unfold step3Stmt
    rewrite [xite]
    have hc : (E.cmp COp.ge (E.var 2) (E.i 32 0)).eval Γ [a, b, .i 32 ((exp - 1077 : Nat) : Int), .u 64 (Ryu64.decodeM2 mant exp),
        .bool (Ryu64.acceptBoundsOf mant exp), .bool (Ryu64.acceptBoundsOf mant exp), .u 64 (Ryu64.mvOf (Ryu64.decodeM2 mant exp)),
        .u 64 (Ryu64.mmShiftOf mant exp), .u 64 0, .u 64 0, .u 64 0, .i 32 0, .bool false, .bool false] = some (.bool true) := by
      exec_simp []
    rewrite [hc, Out.branch_true]
    exact exec_posPart_core Γ ok a b (exp - 1077) (C16Core.qOf exp) _ _ _ _ _ hq rfl rfl (by omega) k1 k2 k3 k4 k5 hm0 hm2 hs
  · have he2 := C16Core.decodeE2_neg exp (by omega)
    generalize hn : (if exp = 0 then 1076 else 1077 - exp) = n at he2
    have hn1 : 1 ≤ n := by rw [← hn]; split <;> omega
    have hn2 : n ≤ 1076 := by rw [← hn]; split <;> omega
    have hneg : ¬ (0 ≤ -(n : Int)) := by omega
    have hn0 : ¬ n = 0 := by omega
    have hlt : ¬ Ryu64.decodeE2 exp ≥ 0 := by rw [he2]; omega
    have hq : Ryu64.subU32 (Ryu64.log10Pow5 (n : Int)) (Ryu64.boolToNat (decide ((n : Int) > 1))) = C16Core.qOf exp := by
      unfold C16Core.qOf; rw [if_neg hlt, he2, Int.neg_neg]
    have hok := C16Core.all_range_lift neg_check n (by omega)
    simp only [negOk, Bool.and_eq_true, decide_eq_true_eq] at hok
    obtain ⟨⟨⟨⟨⟨⟨k1, k2⟩, k3⟩, k4⟩, k5⟩, k6⟩, k7⟩ := hok
    have hpq : negQ (n : Int) = C16Core.qOf exp := hq
    have hps : negShift (n : Int) = (C16Core.qOf exp : Int) - (Ryu64.pow5Bits ((n : Int) - (C16Core.qOf exp : Int)) - 121) := by
      unfold negShift; rw [hpq]
    rw [hps] at k3 k4
    rw [hpq] at k1 k2 k5 k6 k7
    have hix : (n : Int) - (C16Core.qOf exp : Int) = ((n - C16Core.qOf exp : Nat) : Int) := by omega
    rw [hix] at k2 k3 k4 k5 k6
    rewrite [C16Core.step3_neg_eq mant exp hlt, he2]
    unfold step3Stmt
    rewrite [xite]
    have hc : (E.cmp COp.ge (E.var 2) (E.i 32 0)).eval Γ [a, b, .i 32 (-(n : Int)), .u 64 (Ryu64.decodeM2 mant exp),
        .bool (Ryu64.acceptBoundsOf mant exp), .bool (Ryu64.acceptBoundsOf mant exp), .u 64 (Ryu64.mvOf (Ryu64.decodeM2 mant exp)),
        .u 64 (Ryu64.mmShiftOf mant exp), .u 64 0, .u 64 0, .u 64 0, .i 32 0, .bool false, .bool false] = some (.bool false) := by
      exec_simp [hneg, hn0]
    rewrite [hc, Out.branch_false]
    exact exec_negPart_core Γ ok a b n (C16Core.qOf exp) (n - C16Core.qOf exp) _ _ _ _ _ hq hix rfl rfl hn2 k7 (by omega) k3 k4 k5 k6 hm0 hm2 hs

end QF.Props.C16RyuGen
