import QF.Props.C03Compare
import QF.Core.SorterSorted
/-!
# C03 — the spec's `rowLess` is a strict weak order on rows that hold cells of their columns' types

`Sorter.sort_sorted_full` (QF/Core/SorterPivot.lean) needs the comparison function to be a strict weak order (`Sorter.SWO`)
on ALL row numbers. The spec's `rowLess` (QF/Spec/Ops.lean) compares the cells of the key columns with `keyCmp`; on cells
that are not of the column's type `keyCmp` is not an order at all (`cellCmp` has no value there and counts as "equal"). So:

* `TP`, `lexCmp`, `lexCmp_tp`, `swo_of_tp` — a lexicographic chain of total preorders (three-valued comparison functions
  `cmp` with `cmp b a = (cmp a b).swap` and transitive `≠ .gt`) is a total preorder, and `cmp · · == .lt` of a total
  preorder is a strict weak order;
* `keyCmp_eq_rank` — on cells of the column's type `keyCmp c o x y` is the lexicographic comparison of three RANKS of the two
  cells — the null class (0: null first, 1: a value, 2: null last), an integer (the int, the order key of the float, 0/1
  for a bool, the rank of an enum value), a byte string (the string) — each reversed when the order says Reverse;
* `physLess L keys` — the comparison of two physical rows that `QF.Props.C03EndToEnd` hands to the sorter's theorem: the
  lexicographic comparison of these ranks over all keys for rows below `L`; a row that is not below `L` (no row of a
  well-formed frame) comes after every row that is and is equal to every other such row;
* `physLess_swo` — it is a strict weak order, for ANY columns (the ranks are total functions);
* `physLess_eq_rowLess` — on rows below `L` of key columns whose `L` cells are of their types it IS the spec's `rowLess`.
-/
namespace QF.Props.C03RowOrder
open QF QF.Props.C03Compare
set_option linter.unusedSimpArgs false

/-! ## Lexicographic chains of total preorders -/

/-- a three-valued comparison that is a total preorder -/
structure TP {α : Type} (cmp : α → α → Ordering) : Prop where
  swap : ∀ a b, cmp b a = (cmp a b).swap
  trans : ∀ a b c, cmp a b ≠ .gt → cmp b c ≠ .gt → cmp a c ≠ .gt

def lexCmp {α : Type} : List (α → α → Ordering) → α → α → Ordering
  | [], _, _ => .eq
  | c :: cs, a, b =>
    match c a b with
    | .lt => .lt
    | .gt => .gt
    | .eq => lexCmp cs a b

section Generic
variable {α : Type}

/-- rows that compare equal compare alike with every third row -/
theorem TP.eq_congr {cmp : α → α → Ordering} (h : TP cmp) {a b : α} (hab : cmp a b = .eq) (c : α) : cmp a c = cmp b c := by
  have hba : cmp b a = .eq := by rw [h.swap a b, hab]; rfl
  have s1 := h.swap a c
  have s2 := h.swap b c
  have t1 := h.trans b a c
  have t2 := h.trans a b c
  have t3 := h.trans c a b
  have t4 := h.trans c b a
  rw [hba] at t1 t4
  rw [hab] at t2 t3
  rw [s1] at t3 t4
  rw [s2] at t3 t4
  revert t1 t2 t3 t4
  cases cmp a c <;> cases cmp b c <;> simp [Ordering.swap]

theorem TP.eq_congr_right {cmp : α → α → Ordering} (h : TP cmp) {a b : α} (hab : cmp a b = .eq) (c : α) : cmp c a = cmp c b := by
  rw [h.swap a c, h.swap b c, h.eq_congr hab c]

theorem lexCmp_swap {cs : List (α → α → Ordering)} (h : ∀ c ∈ cs, TP c) (a b : α) : lexCmp cs b a = (lexCmp cs a b).swap := by
  induction cs with
  | nil => rfl
  | cons c cs ih =>
    have hc := (h c (by simp)).swap a b
    simp only [lexCmp, hc]
    cases c a b with
    | lt => rfl
    | gt => rfl
    | eq => exact ih (fun c' hc' => h c' (by simp [hc']))

theorem lexCmp_cons_le (c : α → α → Ordering) (cs : List (α → α → Ordering)) (a b : α) :
    lexCmp (c :: cs) a b ≠ .gt ↔ (c a b = .lt ∨ (c a b = .eq ∧ lexCmp cs a b ≠ .gt)) := by
  simp only [lexCmp]
  cases c a b <;> simp

theorem lexCmp_trans {cs : List (α → α → Ordering)} (h : ∀ c ∈ cs, TP c) (a b d : α) :
    lexCmp cs a b ≠ .gt → lexCmp cs b d ≠ .gt → lexCmp cs a d ≠ .gt := by
  induction cs with
  | nil => intro _ _; simp [lexCmp]
  | cons c cs ih =>
    have hc := h c (by simp)
    have ih' := ih (fun c' hc' => h c' (by simp [hc']))
    rw [lexCmp_cons_le, lexCmp_cons_le, lexCmp_cons_le]
    rintro (h1 | ⟨h1, h1'⟩) (h2 | ⟨h2, h2'⟩)
    · -- a < b < d
      left
      have hle : c a d ≠ .gt := hc.trans a b d (by rw [h1]; simp) (by rw [h2]; simp)
      cases had : c a d with
      | lt => rfl
      | gt => exact absurd had hle
      | eq =>
        -- then d ≤ a ≤ b, against b < d
        have hda : c d a = .eq := by rw [hc.swap a d, had]; rfl
        have : c d b ≠ .gt := hc.trans d a b (by rw [hda]; simp) (by rw [h1]; simp)
        rw [hc.swap b d, h2] at this
        exact absurd rfl this
    · left; rw [← hc.eq_congr_right h2 a]; exact h1
    · left; rw [hc.eq_congr h1 d]; exact h2
    · right
      exact ⟨by rw [hc.eq_congr h1 d]; exact h2, ih' h1' h2'⟩

theorem lexCmp_tp {cs : List (α → α → Ordering)} (h : ∀ c ∈ cs, TP c) : TP (lexCmp cs) :=
  ⟨lexCmp_swap h, lexCmp_trans h⟩

/-- `cmp · · == .lt` of a total preorder: asymmetric, and "not less" is transitive -/
theorem tp_lt_asymm {cmp : α → α → Ordering} (h : TP cmp) (a b : α) (hab : (cmp a b == .lt) = true) : (cmp b a == .lt) = false := by
  have : cmp a b = .lt := by simpa using hab
  simp [h.swap a b, this, Ordering.swap]

theorem tp_lt_le_trans {cmp : α → α → Ordering} (h : TP cmp) (a b c : α) (h1 : (cmp b a == .lt) = false) (h2 : (cmp c b == .lt) = false) :
    (cmp c a == .lt) = false := by
  have e1 : cmp a b ≠ .gt := by
    intro e; rw [h.swap a b, e] at h1; simp [Ordering.swap] at h1
  have e2 : cmp b c ≠ .gt := by
    intro e; rw [h.swap b c, e] at h2; simp [Ordering.swap] at h2
  have e3 := h.trans a b c e1 e2
  rw [h.swap a c]
  revert e3
  cases cmp a c <;> simp [Ordering.swap]

/-- the pull-back of a total preorder along any function -/
theorem tp_comap {β : Type} {cmp : β → β → Ordering} (h : TP cmp) (f : α → β) : TP (fun a b => cmp (f a) (f b)) :=
  ⟨fun a b => h.swap (f a) (f b), fun a b c => h.trans (f a) (f b) (f c)⟩

end Generic

/-- `cmp · · == .lt` of a total preorder is a strict weak order -/
theorem swo_of_tp {cmp : Nat → Nat → Ordering} (h : TP cmp) : Sorter.SWO (fun a b => cmp a b == .lt) where
  asymm := fun a b hab => tp_lt_asymm h a b hab
  le_trans := fun a b c h1 h2 => tp_lt_le_trans h a b c h1 h2

/-! ## The atoms: `compare` of integers, `bytesCmp`, reversal -/

theorem tp_int {α : Type} (f : α → Int) : TP (fun a b => compare (f a) (f b)) where
  swap := by
    intro a b
    rcases int_cmp (f a) (f b) with ⟨h1, h2, h3⟩ | ⟨h1, h2, h3⟩ | ⟨h1, h2, h3⟩ <;>
      rcases int_cmp (f b) (f a) with ⟨g1, g2, g3⟩ | ⟨g1, g2, g3⟩ | ⟨g1, g2, g3⟩ <;>
      simp only [h3, g3, Ordering.swap] <;> omega
  trans := by
    intro a b c
    rcases int_cmp (f a) (f b) with ⟨h1, h2, h3⟩ | ⟨h1, h2, h3⟩ | ⟨h1, h2, h3⟩ <;>
      rcases int_cmp (f b) (f c) with ⟨g1, g2, g3⟩ | ⟨g1, g2, g3⟩ | ⟨g1, g2, g3⟩ <;>
      rcases int_cmp (f a) (f c) with ⟨k1, k2, k3⟩ | ⟨k1, k2, k3⟩ | ⟨k1, k2, k3⟩ <;>
      simp only [h3, g3, k3, ne_eq, not_true_eq_false, not_false_eq_true, reduceCtorEq, imp_self, implies_true, false_implies] <;> omega

theorem u8_lt_iff (x y : UInt8) : x < y ↔ x.toNat < y.toNat := UInt8.lt_iff_toNat_lt
theorem u8_eq_iff (x y : UInt8) : x = y ↔ x.toNat = y.toNat := UInt8.toNat_inj.symm

theorem bytesCmp_swap : ∀ a b : Bytes, bytesCmp b a = (bytesCmp a b).swap
  | [], [] => rfl
  | [], _ :: _ => rfl
  | _ :: _, [] => rfl
  | x :: xs, y :: ys => by
    simp only [bytesCmp, gt_iff_lt]
    by_cases h1 : x < y
    · have h2 : ¬ y < x := by rw [u8_lt_iff] at *; omega
      simp [h1, h2, Ordering.swap]
    · by_cases h2 : y < x
      · simp [h1, h2, Ordering.swap]
      · simp only [h1, h2, if_false]
        exact bytesCmp_swap xs ys

theorem bytesCmp_trans : ∀ a b c : Bytes, bytesCmp a b ≠ .gt → bytesCmp b c ≠ .gt → bytesCmp a c ≠ .gt
  | [], _, [] => by intros; simp [bytesCmp]
  | [], _, _ :: _ => by intros; simp [bytesCmp]
  | _ :: _, [], _ => by intro h; simp [bytesCmp] at h
  | _ :: _, _ :: _, [] => by intro _ h; simp [bytesCmp] at h
  | x :: xs, y :: ys, z :: zs => by
    simp only [bytesCmp, gt_iff_lt]
    by_cases hxy : x < y
    · by_cases hyz : y < z
      · have : x < z := by rw [u8_lt_iff] at *; omega
        simp [this]
      · by_cases hzy : z < y
        · simp [hyz, hzy]
        · have e : y = z := by rw [u8_lt_iff] at hyz hzy; rw [u8_eq_iff]; omega
          subst e
          simp [hxy]
    · by_cases hyx : y < x
      · simp [hxy, hyx]
      · have e : x = y := by rw [u8_lt_iff] at hxy hyx; rw [u8_eq_iff]; omega
        subst e
        simp only [hxy, if_false]
        by_cases hxz : x < z
        · simp [hxz]
        · by_cases hzx : z < x
          · simp [hxz, hzx]
          · simp only [hxz, hzx, if_false]
            exact bytesCmp_trans xs ys zs

theorem tp_bytes {α : Type} (f : α → Bytes) : TP (fun a b => bytesCmp (f a) (f b)) :=
  ⟨fun a b => bytesCmp_swap (f a) (f b), fun a b c => bytesCmp_trans (f a) (f b) (f c)⟩

theorem tp_rev {α : Type} {cmp : α → α → Ordering} (h : TP cmp) : TP (fun a b => (cmp a b).swap) where
  swap := by intro a b; simp only [h.swap a b]
  trans := by
    intro a b c h1 h2
    have e1 : cmp b a ≠ .gt := by rw [h.swap a b]; revert h1; cases cmp a b <;> simp [Ordering.swap]
    have e2 : cmp c b ≠ .gt := by rw [h.swap b c]; revert h2; cases cmp b c <;> simp [Ordering.swap]
    have := h.trans c b a e2 e1
    rw [h.swap a c] at this
    exact this

/-- `Reverse` -/
def sw (rev : Bool) (o : Ordering) : Ordering := if rev then o.swap else o

theorem tp_sw {α : Type} (rev : Bool) {cmp : α → α → Ordering} (h : TP cmp) : TP (fun a b => sw rev (cmp a b)) := by
  cases rev
  · exact h
  · exact tp_rev h

/-! ## The three ranks of a cell -/

/-- 0: a null that comes first, 1: a value, 2: a null that comes last -/
def nullClass (nullLast : Bool) (x : Cell) : Int := if x.isNull then (if nullLast then 2 else 0) else 1

def numRank (c : LCol) (x : Cell) : Int :=
  match x with
  | .int v => v
  | .float b => if F64.isNaN b then 0 else F64.key b
  | .bool b => (b.toNat : Int)
  | .str (some s) => if c.ty == .enum then (((enumRank c.vals s).getD 0 : Nat) : Int) else 0
  | .str none => 0

def strRank (c : LCol) (x : Cell) : Bytes :=
  match x with
  | .str (some s) => if c.ty == .enum then [] else s
  | _ => []

/-- the lexicographic comparison of the three ranks -/
def rank3 (c : LCol) (nullLast : Bool) (x y : Cell) : Ordering :=
  match compare (nullClass nullLast x) (nullClass nullLast y) with
  | .lt => .lt
  | .gt => .gt
  | .eq =>
    match compare (numRank c x) (numRank c y) with
    | .lt => .lt
    | .gt => .gt
    | .eq => bytesCmp (strRank c x) (strRank c y)

theorem int_cmp_self (a : Int) : compare a a = .eq := by
  rcases int_cmp a a with ⟨h, _, _⟩ | ⟨_, _, h⟩ | ⟨_, h, _⟩
  · omega
  · exact h
  · omega

theorem cast_cmp (a b : Nat) : compare (a : Int) (b : Int) = compare a b := by
  rcases int_cmp (a : Int) (b : Int) with ⟨h1, h2, h3⟩ | ⟨h1, h2, h3⟩ | ⟨h1, h2, h3⟩ <;>
    rcases nat_cmp a b with ⟨g1, g2, g3⟩ | ⟨g1, g2, g3⟩ | ⟨g1, g2, g3⟩ <;> simp only [h3, g3] <;> omega

theorem collapse (o : Ordering) : (match o with | .lt => Ordering.lt | .gt => .gt | .eq => .eq) = o := by cases o <;> rfl

theorem bytesCmp_nil : bytesCmp [] [] = .eq := rfl

theorem c01 : compare (0 : Int) 1 = .lt := by decide
theorem c10 : compare (1 : Int) 0 = .gt := by decide
theorem c12 : compare (1 : Int) 2 = .lt := by decide
theorem c21 : compare (2 : Int) 1 = .gt := by decide

/-- `keyCmp` without Reverse -/
def baseCmp (c : LCol) (nullLast : Bool) (x y : Cell) : Ordering := keyCmp c ⟨[], false, nullLast⟩ x y

theorem keyCmp_eq_base (c : LCol) (o : Order) (x y : Cell) : keyCmp c o x y = sw o.reverse (baseCmp c o.nullLast x y) := by
  unfold baseCmp keyCmp sw
  cases o.reverse <;> simp

theorem baseCmp_eq_rank (c : LCol) (hty : c.ty ∈ tys) (nl : Bool) (x y : Cell) (hx : wtCell c.ty c.vals x = true)
    (hy : wtCell c.ty c.vals y = true) : baseCmp c nl x y = rank3 c nl x y := by
  unfold baseCmp keyCmp
  simp only [Bool.false_eq_true, if_false]
  cases hxn : x.isNull <;> cases hyn : y.isNull
  · -- two values
    simp only [rank3, nullClass, hxn, hyn, Bool.false_eq_true, if_false, int_cmp_self]
    cases h : c.ty <;> rw [h] at hx hy hty
    · cases x <;> simp [wtCell, cellVal] at hx
      cases y <;> simp [wtCell, cellVal] at hy
      simp only [cellCmp, Option.getD_some, numRank, strRank, bytesCmp_nil, collapse]
    · cases x <;> simp [wtCell, cellVal] at hx
      cases y <;> simp [wtCell, cellVal] at hy
      simp only [Cell.isNull] at hxn hyn
      simp only [cellCmp, hxn, hyn, Bool.or_self, Bool.false_eq_true, if_false, Option.getD_some, numRank, strRank,
        bytesCmp_nil, collapse]
    · cases x <;> simp [wtCell, cellVal] at hx
      cases y <;> simp [wtCell, cellVal] at hy
      simp only [cellCmp, Option.getD_some, numRank, strRank, bytesCmp_nil, collapse, cast_cmp]
    · rcases x with _ | _ | _ | (_ | u) <;> simp [wtCell, cellVal, Cell.isNull] at hx hxn
      rcases y with _ | _ | _ | (_ | v) <;> simp [wtCell, cellVal, Cell.isNull] at hy hyn
      simp [cellCmp, h, numRank, strRank, int_cmp_self]
    · rcases x with _ | _ | _ | (_ | u)
      · simp [wtCell, cellVal] at hx
      · simp [wtCell, cellVal] at hx
      · simp [wtCell, cellVal] at hx
      · simp [Cell.isNull] at hxn
      rcases y with _ | _ | _ | (_ | v)
      · simp [wtCell, cellVal] at hy
      · simp [wtCell, cellVal] at hy
      · simp [wtCell, cellVal] at hy
      · simp [Cell.isNull] at hyn
      obtain ⟨i, hi, _⟩ := enum_ok hx
      obtain ⟨j, hj, _⟩ := enum_ok hy
      simp only [cellCmp, h, beq_self_eq_true, if_true, hi, hj, Option.getD_some, numRank, strRank, bytesCmp_nil, collapse, cast_cmp]
    · simp [tys] at hty
  · -- a value and a null
    simp only [rank3, nullClass, hxn, hyn, Bool.false_eq_true, if_false, if_true]
    cases nl <;> simp [c10, c12]
  · simp only [rank3, nullClass, hxn, hyn, Bool.false_eq_true, if_false, if_true]
    cases nl <;> simp [c01, c21]
  · -- two nulls: all three ranks agree
    have hnum : ∀ z : Cell, z.isNull = true → numRank c z = 0 ∧ strRank c z = [] := by
      intro z hz
      rcases z with _ | b | _ | (_ | s) <;> simp [Cell.isNull] at hz
      · simp [numRank, strRank, hz]
      · simp [numRank, strRank]
    obtain ⟨a1, a2⟩ := hnum x hxn
    obtain ⟨b1, b2⟩ := hnum y hyn
    simp only [rank3, nullClass, hxn, hyn, if_true, int_cmp_self, a1, a2, b1, b2, bytesCmp_nil]

/-- **On cells of the column's type, the spec's `keyCmp` is the lexicographic comparison of the three ranks**, reversed when
the order says so. -/
theorem keyCmp_eq_rank (c : LCol) (hty : c.ty ∈ tys) (o : Order) (x y : Cell) (hx : wtCell c.ty c.vals x = true)
    (hy : wtCell c.ty c.vals y = true) : keyCmp c o x y = sw o.reverse (rank3 c o.nullLast x y) := by
  rw [keyCmp_eq_base, baseCmp_eq_rank c hty o.nullLast x y hx hy]

/-! ## The comparison of physical rows handed to the sorter -/

/-- the three comparators of a key: each rank of the cell at the row, for rows below `L` (a constant outside), reversed
when the order says so -/
def comps (L : Nat) (k : LCol × Order) : List (Nat → Nat → Ordering) :=
  [fun a b => sw k.2.reverse (compare (if a < L then nullClass k.2.nullLast k.1.cells[a]! else 0) (if b < L then nullClass k.2.nullLast k.1.cells[b]! else 0)),
   fun a b => sw k.2.reverse (compare (if a < L then numRank k.1 k.1.cells[a]! else 0) (if b < L then numRank k.1 k.1.cells[b]! else 0)),
   fun a b => sw k.2.reverse (bytesCmp (if a < L then strRank k.1 k.1.cells[a]! else []) (if b < L then strRank k.1 k.1.cells[b]! else []))]

/-- rows below `L` first -/
def sideCmp (L : Nat) : Nat → Nat → Ordering := fun a b => compare (if a < L then (0 : Int) else 1) (if b < L then (0 : Int) else 1)

def physCmp (L : Nat) (keys : List (LCol × Order)) : Nat → Nat → Ordering :=
  lexCmp (sideCmp L :: keys.flatMap (comps L))

/-- the comparison of two physical rows: rows below `L` by the ranks of their key cells, key after key; a row that is not
below `L` after every row that is, and equal to every other such row -/
def physLess (L : Nat) (keys : List (LCol × Order)) : Nat → Nat → Bool := fun a b => physCmp L keys a b == .lt

theorem comps_tp (L : Nat) (k : LCol × Order) : ∀ c ∈ comps L k, TP c := by
  intro c hc
  simp only [comps, List.mem_cons, List.mem_nil_iff, or_false] at hc
  rcases hc with rfl | rfl | rfl
  · exact tp_sw _ (tp_int _)
  · exact tp_sw _ (tp_int _)
  · exact tp_sw _ (tp_bytes _)

theorem physCmp_tp (L : Nat) (keys : List (LCol × Order)) : TP (physCmp L keys) := by
  apply lexCmp_tp
  intro c hc
  rcases List.mem_cons.mp hc with rfl | hc
  · exact tp_int _
  · obtain ⟨k, _, hk⟩ := List.mem_flatMap.mp hc
    exact comps_tp L k c hk

/-- **The comparison handed to the sorter is a strict weak order**, whatever the columns hold. -/
theorem physLess_swo (L : Nat) (keys : List (LCol × Order)) : Sorter.SWO (physLess L keys) :=
  swo_of_tp (physCmp_tp L keys)

theorem lexCmp_append {α : Type} (cs ds : List (α → α → Ordering)) (a b : α) :
    lexCmp (cs ++ ds) a b = match lexCmp cs a b with | .lt => .lt | .gt => .gt | .eq => lexCmp ds a b := by
  induction cs with
  | nil => simp [lexCmp]
  | cons c cs ih =>
    simp only [List.cons_append, lexCmp]
    cases c a b with
    | lt => rfl
    | gt => rfl
    | eq => exact ih

theorem sw_lex3 (rev : Bool) (o1 o2 o3 : Ordering) :
    (match sw rev o1 with | .lt => Ordering.lt | .gt => .gt | .eq => match sw rev o2 with | .lt => .lt | .gt => .gt | .eq => match sw rev o3 with | .lt => .lt | .gt => .gt | .eq => .eq) =
      sw rev (match o1 with | .lt => .lt | .gt => .gt | .eq => match o2 with | .lt => .lt | .gt => .gt | .eq => o3) := by
  cases rev <;> cases o1 <;> cases o2 <;> cases o3 <;> rfl

/-- a key column of a well-formed frame holds `L` cells of its type -/
def KeyTyped (L : Nat) (c : LCol) : Prop := c.ty ∈ tys ∧ ∀ r < L, wtCell c.ty c.vals c.cells[r]! = true

theorem comps_eq_keyCmp (L : Nat) (k : LCol × Order) (hk : KeyTyped L k.1) (a b : Nat) (ha : a < L) (hb : b < L) :
    lexCmp (comps L k) a b = keyCmp k.1 k.2 k.1.cells[a]! k.1.cells[b]! := by
  rw [keyCmp_eq_rank k.1 hk.1 k.2 _ _ (hk.2 a ha) (hk.2 b hb)]
  simp only [comps, lexCmp, ha, hb, if_true]
  rw [sw_lex3]
  rfl

/-- **On rows below `L` of key columns that hold cells of their types, the comparison handed to the sorter is the spec's
`rowLess`.** -/
theorem physLess_eq_rowLess (f : LFrame) (L : Nat) (keys : List (LCol × Order)) (hk : ∀ k ∈ keys, KeyTyped L k.1) (a b : Nat)
    (ha : a < L) (hb : b < L) : physLess L keys a b = rowLess f keys a b := by
  have hside : sideCmp L a b = .eq := by simp [sideCmp, ha, hb, int_cmp_self]
  unfold physLess physCmp
  simp only [lexCmp, hside]
  induction keys with
  | nil => simp [lexCmp, rowLess]
  | cons k ks ih =>
    have ih' := ih (fun k' hk' => hk k' (by simp [hk']))
    simp only [List.flatMap_cons, lexCmp_append, comps_eq_keyCmp L k (hk k (by simp)) a b ha hb]
    obtain ⟨c, o⟩ := k
    simp only [rowLess]
    cases keyCmp c o c.cells[a]! c.cells[b]! with
    | lt => rfl
    | gt => rfl
    | eq => exact ih'

/-- a row below `L` comes before a row that is not -/
theorem physLess_in_out (L : Nat) (keys : List (LCol × Order)) (a b : Nat) (ha : a < L) (hb : ¬ b < L) : physLess L keys a b = true := by
  have : sideCmp L a b = .lt := by simp [sideCmp, ha, hb]; decide
  simp [physLess, physCmp, lexCmp, this]

theorem physLess_out_in (L : Nat) (keys : List (LCol × Order)) (a b : Nat) (ha : ¬ a < L) (hb : b < L) : physLess L keys a b = false := by
  have : sideCmp L a b = .gt := by simp [sideCmp, ha, hb]; decide
  simp [physLess, physCmp, lexCmp, this]

theorem physLess_out_out (L : Nat) (keys : List (LCol × Order)) (a b : Nat) (ha : ¬ a < L) (hb : ¬ b < L) : physLess L keys a b = false := by
  have hside : sideCmp L a b = .eq := by simp [sideCmp, ha, hb, int_cmp_self]
  have hall : lexCmp (keys.flatMap (comps L)) a b = .eq := by
    induction keys with
    | nil => rfl
    | cons k ks ih =>
      simp only [List.flatMap_cons, lexCmp_append, ih]
      simp [comps, lexCmp, ha, hb, int_cmp_self, sw, bytesCmp_nil]
  simp [physLess, physCmp, lexCmp, hside, hall]

end QF.Props.C03RowOrder

#print axioms QF.Props.C03RowOrder.lexCmp_tp
#print axioms QF.Props.C03RowOrder.keyCmp_eq_rank
#print axioms QF.Props.C03RowOrder.physLess_swo
#print axioms QF.Props.C03RowOrder.physLess_eq_rowLess
