import QF.Props.Tie
import QF.Core.Filter
/-!
# C02 — Filter keeps exactly the satisfying rows, in order

Mirror model `F.Clause.filter` (shared boolean mask, guarded kernels, inverse shortcut
with fallback, sequential And, Or with batches of pending leaves merged by `orFrames`
against the parent index, Not by leaf flip or complement merge, Null). Spec: `F.Clause.sem`
row-wise.

`filter_refines`: for every clause tree whose kernels are `sound` (guarded shape; where
the inverse shortcut is taken the inverse kernel is the pointwise negation) and which is
well typed, and for every frame with a duplicate-free index and no error, the result has
no error and its index is exactly `index.filter sem` — the satisfying rows, once each, in
their original relative order.
-/
namespace QF.Props.C02

theorem filter_refines (c : F.Clause) (hs : c.sound) (hw : c.wellTyped = true) : F.Ref c :=
  F.filter_refines c hs hw

/-- What `Ref` says, spelled out. -/
theorem filter_refines_unfolded (c : F.Clause) (hs : c.sound) (hw : c.wellTyped = true)
    (f : F.Frame) (hnd : f.index.Nodup) (he : f.err = false) :
    (c.filter f).err = false ∧ (c.filter f).index = f.index.filter c.sem :=
  F.filter_refines c hs hw f hnd he

/-- T1: the functions this property's mirror model follows have today the source text the model was written against. -/
-- (`filterBuiltIn`, the kernels and the bitset builders are regenerated as terms and proved: C02Kernels, C02Dispatch)
-- Tie audit (bin/selftest-ties): the following functions are not compared as text any more; every behaviour-changing edit of
-- them makes a `gen_*_canon` theorem of this property's modules fail, renaming their locals or reformatting them changes nothing:
-- `QFrame.filter`, `orFrames`, `OrClause.filter`, `AndClause.filter`, `NotClause.filter`, `index.Int.Filter`: regenerated statement by statement as `Gen.clauseFns`
-- (clast.go), `C02ClausesCanon.gen_clauses_canon` + `C02ClausesGen.gen_clause_filter_semantics`.
theorem tie : Tie.sameAll [] = true := by decide

/-! ### Facts about today's source (regenerated into `QF.Gen` on every run) -/

/-- Pairs of comparators that are complements of each other on every cell, null/NaN included. -/
def complementPairs : List (String × String) :=
  [("=", "!="), ("in", "not in"), ("not in", "in"), ("isnull", "isnotnull"), ("isnotnull", "isnull")]

/-- Every entry of `filter.Inverse` is a complement pair: the inverse shortcut of `QFrame.filter` is sound
(hypothesis `sound` of `filter_refines` for inverted leaves). With `>`↦`<=` in the table this fails. -/
theorem gen_inverse_complement : ∀ p ∈ Gen.inverse, p ∈ complementPairs := by decide

/-- A kernel accumulates into the shared mask if it only touches entries that are still false (`if !x`), delegates to
such a kernel, does nothing, or only ever sets entries to true. -/
def accumulating (k : String × String × String × String) : Bool :=
  k.2.2.1 == "guarded" || k.2.2.1 == "guarded+pre" || k.2.2.1 == "delegates" || k.2.2.1 == "noop" ||
  (k.2.2.1 == "unguarded" && k.2.2.2 == "true")

/-- Every filter kernel of the five column packages accumulates (hypothesis `sound` of `filter_refines` for the
kernels of one OR group). A kernel that overwrites the mask, like the original int `isnull`, is a counterexample. -/
theorem gen_kernels_accumulate : Gen.kernels.all accumulating = true := by decide

/-- The comparator tables are the ones the spec's `leafPred` was written against (the kernels' semantics: `C02Kernels`). -/
theorem gen_kernels_same : Tie.kernelsSame = true := by decide

end QF.Props.C02
