import QF.Core.Filter
/-!
# C02 — Filter keeps exactly the satisfying rows, in order

Mirror model `F.Clause.filter` (shared boolean mask, guarded kernels, inverse shortcut
with fallback, sequential And, Or with batches of pending leaves merged by `orFrames`
against the parent index, Not by leaf flip or complement merge, Null). Spec: `F.Clause.sem`
row-wise.

`filter_refines`: for every clause tree whose kernels are `sound` (guarded shape; where
the inverse shortcut is taken the inverse kernel is the pointwise negation) and which is
well typed, and for every frame with a duplicate-free index and no error, the result has
no error and its index is exactly `index.filter sem` — the satisfying rows, once each, in
their original relative order.
-/
namespace QF.Props.C02

theorem filter_refines (c : F.Clause) (hs : c.sound) (hw : c.wellTyped = true) : F.Ref c :=
  F.filter_refines c hs hw

/-- What `Ref` says, spelled out. -/
theorem filter_refines_unfolded (c : F.Clause) (hs : c.sound) (hw : c.wellTyped = true)
    (f : F.Frame) (hnd : f.index.Nodup) (he : f.err = false) :
    (c.filter f).err = false ∧ (c.filter f).index = f.index.filter c.sem :=
  F.filter_refines c hs hw f hnd he

end QF.Props.C02
