import QF.Props.C03SorterExec
import QF.Core.SorterPerm
/-!
# C03 — the meaning of the canonical sorter terms, function by function (part 1)

Bottom-up along the call graph, each by induction following the recursion of the hand mirror (QF/Core/Sorter.lean):

* `call_len`, `call_swap` (= `Sorter.sw`), `call_less` (the `range` over the comparators = `lessOf`, which is
  `sorterLess` of C03Compare), `call_maxDepth` (= `Sorter.maxDepth`)
* `call_median` (= `Sorter.medianOfThree`), `call_insertionSort` (`ins_inner` = `Sorter.insInner`, `ins_outer` = the fold),
  `call_siftDown` (`sift_loop` = `Sorter.siftDown` for every sufficient fuel of the mirror), `call_heapSort` (`hs_build`,
  `hs_pop` = the two folds of `Sorter.heapSort`)

All statements are in the limit semantics (`C` = `callLim canonFns`, `X` = `execLim canonFns`): the result is `.ok`, so the
code neither panics (every index is shown to be within the array) nor runs forever. Integer arguments are `Int`s with
their range as hypotheses; the mirror's `Nat`s are their `toNat`.
-/
namespace QF.Props.C03SorterGen
open QF QF.SL
set_option linter.unusedSimpArgs false

/-! ## `Len`, `Swap` -/

theorem call_len (cols : Cols) (a : Ix) : C cols fLen [.sorter] a = .ok (.int a.size, a) := by
  rw [callLim_eq canonFns cols _ fLen fnLen rfl _ rfl [.sorter] rfl]
  simp only [fnLen]
  sl_simp []

theorem sw_eq_sets (a : Ix) (i j : Nat) (hi : i < a.size) (hj : j < a.size) :
    (a.setIfInBounds i a[j]!).setIfInBounds j a[i]! = Sorter.sw a i j := by
  rw [getElem!_pos a i hi, getElem!_pos a j hj]
  simp only [Sorter.sw, hi, hj, and_self, ↓reduceDIte]
  apply Array.ext
  · simp
  · intro k h1 h2
    simp [Array.swap, Array.setIfInBounds, hi, hj, Array.getElem_set]

theorem call_swap (cols : Cols) (a : Ix) (x y : Int) (hx : 0 ≤ x ∧ x < a.size) (hy : 0 ≤ y ∧ y < a.size) :
    C cols fSwap [.sorter, .int x, .int y] a = .ok (.unit, Sorter.sw a x.toNat y.toNat) := by
  rw [callLim_eq canonFns cols _ fSwap fnSwap rfl _ rfl [.sorter, .int x, .int y] rfl]
  simp only [fnSwap]
  have h3 : x.toNat < a.size := by omega
  have h4 : y.toNat < a.size := by omega
  have h5 : 0 ≤ x ∧ x < ↑a.size ∧ 0 ≤ y ∧ y < ↑a.size := ⟨hx.1, hx.2, hy.1, hy.2⟩
  sl_simp [x_setIx2, if_pos h5, sw_eq_sets a _ _ h3 h4]

/-! ## `Less` -/

/-- `Sorter.Less` on two rows: the first comparator that says LessThan / GreaterThan decides -/
def lessOf : Cols → Nat → Nat → Option Bool
  | [], _, _ => some false
  | f :: fs, i, j =>
    match f i j with
    | none => none
    | some r => if r = .lessThan then some true else if r = .greaterThan then some false else lessOf fs i j

/-- how the `range` loop of `Less` ends -/
def LessEnds (a : Ix) (b : Bool) (c : Ctl) : Prop := c = .ret (.bool b) a ∨ (b = false ∧ ∃ σ, c = .next (σ, a))

/-- one round of `for _, s := range s.columns` -/
noncomputable def lessStep (cols : Cols) : Nat → St → R Ctl := fun k st' => X cols lessBody (st'.1.set 5 (.col k), st'.2)

theorem less_loop (cols : Cols) (a : Ix) (x y : Val) (di dj : Nat) :
    ∀ (rest : Cols) (k : Nat) (p q : Val) (b : Bool), cols.drop k = rest → lessOf rest di dj = some b →
      ∃ c, colLoop (lessStep cols) (List.range' k rest.length) ([.sorter, x, y, .row di, .row dj, p, q], a) = .ok c ∧
        LessEnds a b c := by
  intro rest
  induction rest with
  | nil =>
    intro k p q b _ hb
    simp only [lessOf, Option.some.injEq] at hb
    exact ⟨_, rfl, .inr ⟨hb.symm, _, rfl⟩⟩
  | cons f fs ih =>
    intro k p q b hk hb
    have hk1 : cols[k]? = some f := by
      have := congrArg (fun l => l[0]?) hk
      simpa using this
    have hk2 : cols.drop (k + 1) = fs := by
      have := congrArg List.tail hk
      simpa using this
    simp only [lessOf] at hb
    cases hf : f di dj with
    | none => simp [hf] at hb
    | some r =>
      simp only [hf] at hb
      simp only [List.length_cons, List.range'_succ, colLoop, lessStep, lessBody]
      sl_simp [ev_compare, hk1, hf]
      by_cases h1 : r = .lessThan
      · subst h1
        simp only [↓reduceIte, Option.some.injEq] at hb
        subst hb
        sl_simp [beq_self_eq_true]
        exact ⟨_, rfl, .inl rfl⟩
      · simp only [h1, ↓reduceIte] at hb
        have h1' : (r == CRes.lessThan) = false := by simpa using h1
        by_cases h2 : r = .greaterThan
        · subst h2
          simp only [↓reduceIte, Option.some.injEq] at hb
          subst hb
          sl_simp [h1', beq_self_eq_true]
          exact ⟨_, rfl, .inl rfl⟩
        · simp only [h2, ↓reduceIte] at hb
          have h2' : (r == CRes.greaterThan) = false := by simpa using h2
          sl_simp [h1', h2']
          exact ih (k + 1) _ _ b hk2 hb

theorem call_less (cols : Cols) (a : Ix) (x y : Int) (hx : 0 ≤ x ∧ x < a.size) (hy : 0 ≤ y ∧ y < a.size) (b : Bool)
    (hb : lessOf cols a[x.toNat]! a[y.toNat]! = some b) :
    C cols fLess [.sorter, .int x, .int y] a = .ok (.bool b, a) := by
  rw [callLim_eq canonFns cols _ fLess fnLess rfl _ rfl [.sorter, .int x, .int y, .unit, .unit, .unit, .unit] rfl]
  simp only [fnLess]
  sl_simp [x_rangeCols, List.range_eq_range']
  obtain ⟨c, hc, he⟩ := less_loop cols a (.int x) (.int y) _ _ cols 0 .unit .unit b rfl hb
  rw [show (fun k (st' : St) => X cols lessBody (st'.1.set 5 (.col k), st'.2)) = lessStep cols from rfl, hc]
  rcases he with rfl | ⟨rfl, σ, rfl⟩
  · sl_simp []
  · sl_simp []

/-- the comparison function on row numbers that the comparators of the run implement -/
def LessIs (cols : Cols) (less : Nat → Nat → Bool) : Prop := ∀ i j, lessOf cols i j = some (less i j)

/-- `data.Less(x, y)` is `less data[x] data[y]` (`Sorter.lt` of the mirror) -/
theorem call_less' {cols : Cols} {less : Nat → Nat → Bool} (hl : LessIs cols less) (a : Ix) (x y : Int)
    (hx : 0 ≤ x ∧ x < a.size) (hy : 0 ≤ y ∧ y < a.size) :
    C cols fLess [.sorter, .int x, .int y] a = .ok (.bool (Sorter.lt less a x.toNat y.toNat), a) :=
  call_less cols a x y hx hy _ (hl _ _)

/-! ## `maxDepth` -/

/-- the number of binary digits -/
def bits (n : Nat) : Nat := if n = 0 then 0 else Nat.log2 n + 1

theorem bits_pos (n : Nat) (h : 0 < n) : bits n = bits (n / 2) + 1 := by
  unfold bits
  rw [Nat.log2_def n]
  by_cases h2 : 2 ≤ n
  · have : n / 2 ≠ 0 := by omega
    have h0 : n ≠ 0 := by omega
    simp only [h2, ↓reduceIte, this, h0]
  · have : n / 2 = 0 := by omega
    have h0 : n ≠ 0 := by omega
    simp only [h2, ↓reduceIte, this, h0]

theorem md_loop (cols : Cols) (a : Ix) (v0 : Val) : ∀ (i : Nat) (iz dz : Int) (d : Nat), iz = i → dz = d →
    X cols mdLoop ([v0, .int dz, .int iz], a) = .ok (.next ([v0, .int ↑(d + bits i), .int 0], a)) := by
  intro i
  induction i using Nat.strongRecOn with
  | _ i ih =>
    intro iz dz d hi hd
    rw [mdLoop, x_loop]
    by_cases h0 : i = 0
    · have : ¬ iz > 0 := by omega
      have e : iz = 0 := by omega
      sl_simp [this, decide_false]
      simp [bits, h0, hd, e]
    · have : iz > 0 := by omega
      sl_simp [this, decide_true]
      rw [← mdLoop, ih (i / 2) (by omega) _ _ (d + 1) (by omega) (by omega), bits_pos i (by omega)]
      simp only [Nat.add_assoc, Nat.add_comm 1]

theorem call_maxDepth (cols : Cols) (a : Ix) (n : Nat) :
    C cols fMaxDepth [.int n] a = .ok (.int (Sorter.maxDepth n : Nat), a) := by
  rw [callLim_eq canonFns cols _ fMaxDepth fnMaxDepth rfl _ rfl [.int n, .unit, .unit] rfl]
  simp only [fnMaxDepth]
  sl_simp []
  rw [md_loop cols a _ n n 0 0 rfl rfl]
  sl_simp []
  simp only [Sorter.maxDepth, bits, Nat.zero_add]
  congr 3
  split <;> omega

/-! ## `medianOfThree` -/

section withLess
variable {cols : Cols} {less : Nat → Nat → Bool} (hl : LessIs cols less)
include hl

theorem call_median (a : Ix) (m1 m0 m2 : Int) (h1 : 0 ≤ m1 ∧ m1 < a.size) (h0 : 0 ≤ m0 ∧ m0 < a.size) (h2 : 0 ≤ m2 ∧ m2 < a.size) :
    C cols fMedianOfThree [.sorter, .int m1, .int m0, .int m2] a =
      .ok (.unit, Sorter.medianOfThree less a m1.toNat m0.toNat m2.toNat) := by
  rw [callLim_eq canonFns cols _ fMedianOfThree fnMedianOfThree rfl _ rfl [.sorter, .int m1, .int m0, .int m2] rfl]
  simp only [fnMedianOfThree, Sorter.medianOfThree]
  cases e1 : Sorter.lt less a m1.toNat m0.toNat
  · cases e2 : Sorter.lt less a m2.toNat m1.toNat
    · sl_simp [call_swap, call_less' hl, e1, e2, Bool.false_eq_true]
    · cases e3 : Sorter.lt less (Sorter.sw a m2.toNat m1.toNat) m1.toNat m0.toNat <;>
        sl_simp [call_swap, call_less' hl, e1, e2, e3, Bool.false_eq_true]
  · cases e2 : Sorter.lt less (Sorter.sw a m1.toNat m0.toNat) m2.toNat m1.toNat
    · sl_simp [call_swap, call_less' hl, e1, e2, Bool.false_eq_true]
    · cases e3 : Sorter.lt less (Sorter.sw (Sorter.sw a m1.toNat m0.toNat) m2.toNat m1.toNat) m1.toNat m0.toNat <;>
        sl_simp [call_swap, call_less' hl, e1, e2, e3, Bool.false_eq_true]

/-! ## `insertionSort` -/

theorem ins_inner (lo : Nat) (v2 v3 : Val) : ∀ (j : Nat) (a : Ix) (jz : Int), jz = j → j < a.size →
    ∃ jz' : Int, X cols insInnerLoop ([.sorter, .int lo, v2, v3, .int jz], a) =
      .ok (.next ([.sorter, .int lo, v2, v3, .int jz'], Sorter.insInner less a lo j)) := by
  intro j
  induction j with
  | zero =>
    intro a jz hj _
    rw [insInnerLoop, x_loop]
    have : ¬ jz > (lo : Int) := by omega
    sl_simp [this, decide_false, Sorter.insInner]
    exact ⟨_, rfl⟩
  | succ j ih =>
    intro a jz hj hsz
    rw [insInnerLoop, x_loop]
    simp only [Sorter.insInner]
    by_cases h : j + 1 > lo
    · have h' : jz > (lo : Int) := by omega
      have t1 : jz.toNat = j + 1 := by omega
      have t2 : (jz - 1).toNat = j := by omega
      sl_simp [h', decide_true, call_less' hl, t1, t2, h, Bool.true_and]
      cases e : Sorter.lt less a (j + 1) j
      · sl_simp [Bool.false_eq_true]
        exact ⟨_, rfl⟩
      · sl_simp [call_swap, t1, t2]
        rw [← insInnerLoop]
        exact ih _ _ (by omega) (by simp only [Sorter.sw_size]; omega)
    · have h' : ¬ jz > (lo : Int) := by omega
      sl_simp [h', decide_false, h, Bool.false_and, Bool.false_eq_true]
      exact ⟨_, rfl⟩

omit hl in
theorem insInner_size (less : Nat → Nat → Bool) (a : Ix) (lo j : Nat) : (Sorter.insInner less a lo j).size = a.size :=
  (Sorter.insInner_perm less a lo j).size_eq

theorem ins_outer (lo hi : Nat) : ∀ (k i : Nat) (a : Ix) (iz : Int) (p : Val), iz = i → hi - i = k → hi ≤ a.size →
    ∃ σ', X cols insOuterLoop ([.sorter, .int lo, .int hi, .int iz, p], a) =
      .ok (.next (σ', (List.range' i k).foldl (fun a i => Sorter.insInner less a lo i) a)) := by
  intro k
  induction k with
  | zero =>
    intro i a iz p hi' hk _
    rw [insOuterLoop, x_loop]
    have : ¬ iz < (hi : Int) := by omega
    sl_simp [this, decide_false]
    exact ⟨_, rfl⟩
  | succ k ih =>
    intro i a iz p hi' hk hsz
    rw [insOuterLoop, x_loop]
    have : iz < (hi : Int) := by omega
    simp only [List.range'_succ, List.foldl_cons]
    sl_simp [this, decide_true]
    obtain ⟨jz', hj⟩ := ins_inner hl lo (.int hi) (.int iz) i a iz hi' (by omega)
    rw [hj]
    sl_simp []
    rw [← insOuterLoop]
    exact ih (i + 1) _ _ _ (by omega) (by omega) (by rw [insInner_size]; exact hsz)

theorem call_insertionSort (a : Ix) (lo hi : Nat) (hsz : hi ≤ a.size) :
    C cols fInsertionSort [.sorter, .int lo, .int hi] a = .ok (.unit, Sorter.insertionSort less a lo hi) := by
  rw [callLim_eq canonFns cols _ fInsertionSort fnInsertionSort rfl _ rfl [.sorter, .int lo, .int hi, .unit, .unit] rfl]
  simp only [fnInsertionSort, Sorter.insertionSort]
  sl_simp []
  obtain ⟨σ', h⟩ := ins_outer hl lo hi (hi - (lo + 1)) (lo + 1) a (lo + 1) .unit (by omega) rfl hsz
  rw [h]
  sl_simp []

end withLess

/-! ## `siftDown` -/

theorem siftDown_size (less : Nat → Nat → Bool) (fuel : Nat) (a : Ix) (root hi first : Nat) :
    (Sorter.siftDown less fuel a root hi first).size = a.size :=
  (Sorter.siftDown_perm less fuel a root hi first).size_eq

theorem tdiv_half (n : Nat) : ((n : Int) - 1).tdiv 2 = ↑((n - 1) / 2) := by
  cases n with
  | zero => decide
  | succ m =>
    have : ((m + 1 : Nat) : Int) - 1 = m := by omega
    rw [this, Int.tdiv_eq_ediv_of_nonneg (by omega)]
    simp only [Nat.add_sub_cancel]
    omega

theorem range_succ_reverse (k : Nat) : (List.range (k + 1)).reverse = k :: (List.range k).reverse := by
  rw [List.range_succ, List.reverse_append]; rfl

section withLess
variable {cols : Cols} {less : Nat → Nat → Bool} (hl : LessIs cols less)
include hl

/-- a function body without results ends: it falls off its end or returns -/
def Done (a' : Ix) (c : Ctl) : Prop := (∃ σ, c = .next (σ, a')) ∨ c = .ret .unit a'

omit hl in
theorem done_wrap {a' : Ix} {c : Ctl} (h : Done a' c) : wrapRet c = .ok (.unit, a') := by
  rcases h with ⟨σ, rfl⟩ | rfl <;> rfl

theorem sift_loop (v1 : Val) (hi first : Nat) : ∀ (fuel root : Nat) (a : Ix) (rz : Int) (p : Val), rz = root →
    hi ≤ fuel + root → first + hi ≤ a.size →
    ∃ c, X cols siftLoop ([.sorter, v1, .int hi, .int first, .int rz, p], a) = .ok c ∧
      Done (Sorter.siftDown less fuel a root hi first) c := by
  intro fuel
  induction fuel with
  | zero =>
    intro root a rz p hr hf hsz
    rw [siftLoop, x_loop]
    have : 2 * rz + 1 ≥ (hi : Int) := by omega
    simp only [siftBody]
    sl_simp [this, decide_true]
    exact ⟨_, rfl, .inl ⟨_, rfl⟩⟩
  | succ fuel ih =>
    intro root a rz p hr hf hsz
    rw [siftLoop, x_loop]
    simp only [Sorter.siftDown, siftBody]
    by_cases hc : 2 * root + 1 ≥ hi
    · have : 2 * rz + 1 ≥ (hi : Int) := by omega
      sl_simp [this, decide_true, hc]
      exact ⟨_, rfl, .inl ⟨_, rfl⟩⟩
    · have h0 : ¬ 2 * rz + 1 ≥ (hi : Int) := by omega
      have t0 : ((first : Int) + rz).toNat = first + root := by omega
      have t1 : ((first : Int) + (2 * rz + 1)).toNat = first + (2 * root + 1) := by omega
      have t2 : ((first : Int) + (2 * rz + 1) + 1).toNat = first + (2 * root + 1) + 1 := by omega
      have t3 : ((first : Int) + (2 * rz + 1 + 1)).toNat = first + (2 * root + 1 + 1) := by omega
      sl_simp [h0, decide_false, hc]
      by_cases hc1 : 2 * root + 1 + 1 < hi
      · have h1 : 2 * rz + 1 + 1 < (hi : Int) := by omega
        sl_simp [h1, hc1, decide_true, call_less' hl, t1, t2, Bool.true_and]
        cases e1 : Sorter.lt less a (first + (2 * root + 1)) (first + (2 * root + 1) + 1)
        · sl_simp [call_less' hl, t0, t1, Bool.false_eq_true]
          cases e2 : Sorter.lt less a (first + root) (first + (2 * root + 1))
          · sl_simp [Bool.not_false]
            exact ⟨_, rfl, .inr rfl⟩
          · sl_simp [Bool.not_true, call_swap, t0, t1, Bool.false_eq_true]
            rw [← siftBody, ← siftLoop]
            exact ih _ _ _ _ (by omega) (by omega) (by simp only [Sorter.sw_size]; omega)
        · sl_simp [call_less' hl, t0, t3]
          cases e2 : Sorter.lt less a (first + root) (first + (2 * root + 1 + 1))
          · sl_simp [Bool.not_false]
            exact ⟨_, rfl, .inr rfl⟩
          · sl_simp [Bool.not_true, call_swap, t0, t3, Bool.false_eq_true]
            rw [← siftBody, ← siftLoop]
            exact ih _ _ _ _ (by omega) (by omega) (by simp only [Sorter.sw_size]; omega)
      · have h1 : ¬ 2 * rz + 1 + 1 < (hi : Int) := by omega
        sl_simp [h1, hc1, decide_false, call_less' hl, t0, t1, Bool.false_and, Bool.false_eq_true]
        cases e2 : Sorter.lt less a (first + root) (first + (2 * root + 1))
        · sl_simp [Bool.not_false]
          exact ⟨_, rfl, .inr rfl⟩
        · sl_simp [Bool.not_true, call_swap, t0, t1, Bool.false_eq_true]
          rw [← siftBody, ← siftLoop]
          exact ih _ _ _ _ (by omega) (by omega) (by simp only [Sorter.sw_size]; omega)

/-- `siftDown(data, lo, hi, first)` is the mirror's `siftDown` with any fuel of at least `hi - lo` -/
theorem call_siftDown (fuel : Nat) (a : Ix) (rz hz fz : Int)
    (h : (0 ≤ rz ∧ 0 ≤ hz ∧ 0 ≤ fz) ∧ (hz.toNat ≤ fuel + rz.toNat ∧ fz.toNat + hz.toNat ≤ a.size)) :
    C cols fSiftDown [.sorter, .int rz, .int hz, .int fz] a =
      .ok (.unit, Sorter.siftDown less fuel a rz.toNat hz.toNat fz.toNat) := by
  rw [callLim_eq canonFns cols _ fSiftDown fnSiftDown rfl _ rfl [.sorter, .int rz, .int hz, .int fz, .unit, .unit] rfl]
  simp only [fnSiftDown]
  sl_simp []
  have e1 : hz = (hz.toNat : Int) := by omega
  have e2 : fz = (fz.toNat : Int) := by omega
  obtain ⟨c, hc, hd⟩ := sift_loop hl (.int rz) hz.toNat fz.toNat fuel rz.toNat a rz .unit (by omega) h.2.1 h.2.2
  rw [← e1, ← e2] at hc
  rw [hc]
  rcases hd with ⟨σ, rfl⟩ | rfl <;> sl_simp []

/-! ## `heapSort` -/

/-- variables of `heapSort`: 0 data, 1 a, 2 b, 3 first, 4 lo, 5 hi, 6 i (build), 7 i (pop) -/
theorem hs_build (v1 v2 p7 : Val) (first n : Nat) : ∀ (m : Nat) (a : Ix) (iz : Int), iz = (m : Int) - 1 → m ≤ n + 1 →
    first + n ≤ a.size →
    X cols hsBuildLoop ([.sorter, v1, v2, .int first, .int 0, .int n, .int iz, p7], a) =
      .ok (.next ([.sorter, v1, v2, .int first, .int 0, .int n, .int (-1), p7],
        (List.range m).reverse.foldl (fun a i => Sorter.siftDown less (n + 1) a i n first) a)) := by
  intro m
  induction m with
  | zero =>
    intro a iz hi _ _
    rw [hsBuildLoop, x_loop]
    have : ¬ iz ≥ 0 := by omega
    have e : iz = -1 := by omega
    sl_simp [this, decide_false]
    simp [e]
  | succ m ih =>
    intro a iz hi hm hsz
    rw [hsBuildLoop, x_loop]
    have : iz ≥ 0 := by omega
    have t1 : iz.toNat = m := by omega
    sl_simp [this, decide_true, call_siftDown hl (n + 1), t1, Int.toNat_natCast]
    rw [← hsBuildLoop, range_succ_reverse, List.foldl_cons]
    exact ih _ _ (by omega) (by omega) (by rw [siftDown_size]; exact hsz)

theorem hs_pop (v1 v2 : Val) (first n : Nat) : ∀ (m : Nat) (a : Ix) (iz : Int), iz = (m : Int) - 1 → m ≤ n →
    first + n ≤ a.size →
    X cols hsPopLoop ([.sorter, v1, v2, .int first, .int 0, .int n, .int (-1), .int iz], a) =
      .ok (.next ([.sorter, v1, v2, .int first, .int 0, .int n, .int (-1), .int (-1)],
        (List.range m).reverse.foldl (fun a i => Sorter.siftDown less (n + 1) (Sorter.sw a first (first + i)) 0 i first) a)) := by
  intro m
  induction m with
  | zero =>
    intro a iz hi _ _
    rw [hsPopLoop, x_loop]
    have : ¬ iz ≥ 0 := by omega
    have e : iz = -1 := by omega
    sl_simp [this, decide_false]
    simp [e]
  | succ m ih =>
    intro a iz hi hm hsz
    rw [hsPopLoop, x_loop]
    have : iz ≥ 0 := by omega
    have t1 : iz.toNat = m := by omega
    have t2 : ((first : Int) + iz).toNat = first + m := by omega
    sl_simp [this, decide_true, call_swap, call_siftDown hl (n + 1), t1, t2, Int.toNat_natCast]
    rw [← hsPopLoop, range_succ_reverse, List.foldl_cons]
    exact ih _ _ (by omega) (by omega) (by rw [siftDown_size, Sorter.sw_size]; exact hsz)

theorem call_heapSort (a : Ix) (lo hi : Nat) (hlh : lo ≤ hi) (hsz : hi ≤ a.size) :
    C cols fHeapSort [.sorter, .int lo, .int hi] a = .ok (.unit, Sorter.heapSort less a lo hi) := by
  rw [callLim_eq canonFns cols _ fHeapSort fnHeapSort rfl _ rfl
    [.sorter, .int lo, .int hi, .unit, .unit, .unit, .unit, .unit] rfl]
  simp only [fnHeapSort, Sorter.heapSort]
  have e1 : (hi : Int) - lo = ↑(hi - lo) := by omega
  sl_simp [e1, tdiv_half]
  rw [hs_build hl _ _ _ lo (hi - lo) ((hi - lo - 1) / 2 + 1) a _ (by omega) (by omega) (by omega)]
  sl_simp []
  rw [hs_pop hl _ _ lo (hi - lo) (hi - lo) _ _ (by omega) (by omega) (by
    rw [show ∀ (l : List Nat) (a : Ix), (l.foldl (fun a i => Sorter.siftDown less (hi - lo + 1) a i (hi - lo) lo) a).size = a.size from
      fun l => by induction l with
        | nil => intro a; rfl
        | cons x xs ih => intro a; rw [List.foldl_cons, ih, siftDown_size]]
    omega)]
  sl_simp []

end withLess

end QF.Props.C03SorterGen
