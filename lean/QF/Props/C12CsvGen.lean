import QF.Props.C12CsvQuoted
/-!
# C12 / C15 — the CSV reader regenerated from today's source is the hand mirror (tie T1)

`QF.Gen.csvFns` (go/cmd/extract/csvast.go, regenerated on every run) holds the functions of /repo/internal/fastcsv/csv.go as
terms of the imperative language `QF.CR` (QF/Core/CRExpr.lean, with its Go semantics: byte slices as views into the
buffer's array with len and cap, `copy`, slicing and indexing with their bounds checks, `for` / `break` / `continue` /
`return`, calls with several results, the `Read` of the underlying `io.Reader` as the abstract operation `CR.underRead`).
C12CsvCanon fixes the canonical terms and proves `gen_csv_no_opaque`, `gen_csv_canon` (today's extraction = the canonical
terms, by `decide`). C12CsvFns / C12CsvQuoted / this file compute the meaning of the canonical terms bottom-up along the
call graph and find the hand mirror `Csv` (QF/Core/Csv.lean, the L0 mirror the replay driver compares with the real reader):

    eofReaderWrapper.Read ∘ underRead = Src.read          call_wrapRead        gen_csv_wrapRead
    bufferedReader.more    = Buf.more                      call_more            gen_csv_more
    bufferedReader.reset   = Buf.reset                     call_bufReset        gen_csv_reset, gen_csv_fieldsReset
    fields.nextUnquotedField = nextUnquoted (exactly)      call_unquoted        gen_csv_unquoted
    nextQuotedField        = nextQuoted                    call_quoted          gen_csv_quoted_partial
    fields.next            = Fields.next                   call_fsNext          gen_csv_fieldsNext_partial
    Reader.Next            = Reader.next                   call_rdNext          gen_csv_readerNext_partial
    Reader.Read, Reader.Err, NewReader                     call_rdRead …        gen_csv_read_partial, gen_csv_err, gen_csv_newReader
    the caller's read-all loop = readAllLoop'              readAll_loop         gen_csv_semantics_partial

`gen_csv_semantics_partial`: for every document, read schedule, delimiter, buffer capacity, fault position (and the two flags of the
underlying reader) the interpretation of today's extracted functions returns what `Csv.readAll` returns — rows, final error,
final buffer and reader, or a panic of the same class. Corollary `gen_fail_iff_reached_partial` (C15).

Side conditions, all discharged inside: the invariant `fieldStart ≤ cursor ≤ len(data) ≤ cap(data)` (`FWF`), under which
Go's bounds checks and the mirror's agree, holds initially and is kept by every function of the mirror (`*_wf`).

What is excluded (`hnf`): runs on which the mirror gives up with `panic "fuel"`. The mirror has ONE loop for
`nextQuotedField` whose rounds are a `more` or a byte; the real function has two nested loops. Where the mirror's budget is
used up the nested loops, each with that budget, may still go on — nothing is claimed there. (The other loops —
`nextUnquotedField`, the row loop, the read-all loop — agree with the mirror's budgets exactly.)

What the terms abstract (see CRExpr.lean): a `[]byte` that leaves the buffer (`fs.field`, the elements of
`r.fieldsBuffer`) is the list of its bytes at that moment, as in the mirror; that the real slices alias the buffer and are
not overwritten within a row is what the replay against the real reader checks, not these theorems.
-/
namespace QF.Props.C12CsvGen
open QF QF.CR Csv
set_option linter.unusedSimpArgs false

/-! ## The invariant `fieldStart ≤ cursor ≤ len(data) ≤ cap(data)` is kept by the mirror -/

theorem nextUnquoted_wf : ∀ (k : Nat) (fs : Fields), FWF fs → ∀ fs' b, nextUnquoted k fs fs.buf.cursor = .ok (fs', b) → FWF fs' := by
  intro k
  induction k with
  | zero => intro fs _ fs' b h; simp [nextUnquoted] at h
  | succ k ih =>
    intro fs hwf fs' b h
    obtain ⟨w1, w2, w3⟩ := hwf
    have hm := more_facts fs.buf w3
    have step : ∀ (fs0 : Fields), FWF fs0 → C15Faults.unqStep k fs0.buf.cursor fs0 = .ok (fs', b) → FWF fs' := by
      intro fs0 hw0 h0
      obtain ⟨v1, v2, v3⟩ := hw0
      unfold C15Faults.unqStep at h0
      split at h0
      · split at h0
        · rename_i hlt
          dsimp only at h0
          split at h0
          · injection h0 with h0; injection h0 with h0 _; subst h0
            exact ⟨Nat.le_refl _, hlt, v3⟩
          · split at h0
            · injection h0 with h0; injection h0 with h0 _; subst h0
              exact ⟨Nat.le_succ_of_le v1, hlt, v3⟩
            · exact ih { fs0 with buf := { fs0.buf with cursor := fs0.buf.cursor + 1 } } ⟨Nat.le_succ_of_le v1, hlt, v3⟩ _ _ h0
        · cases h0
      · cases h0
    rw [C15Faults.nextUnquoted_succ] at h
    split at h
    · split at h
      · injection h with h; injection h with h _; subst h
        exact ⟨by simp; omega, by simp; omega, hm.2.1⟩
      · injection h with h; injection h with h _; subst h
        exact ⟨by simp; omega, by simp; omega, hm.2.1⟩
      · have := step { fs with buf := fs.buf.more.1 } ⟨by simp; omega, by simp; omega, hm.2.1⟩
        simp only [hm.2.2] at this
        exact this h
    · exact step fs ⟨w1, w2, w3⟩ h

theorem quotedLoop_wf : ∀ (k : Nat) (b : Buf) (delim : Byte) (start w q : Nat), b.cursor ≤ b.len → b.len ≤ b.data.size →
    ∀ f eol err b', quotedLoop k b delim start w q = .ok (f, eol, err, b') →
      b'.cursor ≤ b'.len ∧ b'.len ≤ b'.data.size ∧ ∃ w', f = b'.slice start w' := by
  intro k
  induction k with
  | zero => intro b delim start w q _ _ f eol err b' h; simp [quotedLoop] at h
  | succ k ih =>
    intro b delim start w q w2 w3 f eol err b' h
    have hm := more_facts b w3
    have keep : ∀ (b1 : Buf) (w1 : Nat), b1.cursor ≤ b1.len → b1.len ≤ b1.data.size →
        C15Faults.qKeep k delim start w1 b1 = .ok (f, eol, err, b') →
        b'.cursor ≤ b'.len ∧ b'.len ≤ b'.data.size ∧ ∃ w', f = b'.slice start w' := by
      intro b1 w1 v2 v3 h1
      unfold C15Faults.qKeep at h1
      dsimp only at h1
      split at h1
      · split at h1
        · refine ih _ _ _ _ _ ?_ ?_ _ _ _ _ h1
          · exact v2
          · simpa using v3
        · cases h1
      · exact ih _ _ _ _ _ v2 v3 _ _ _ _ h1
    rw [C15Faults.quotedLoop_succ] at h
    split at h
    · split at h
      · split at h
        · rename_i hc
          injection h with h; injection h with hf h; injection h with _ h; injection h with _ h; subst h
          simp only [Bool.and_eq_true, decide_eq_true_eq] at hc
          exact ⟨hc.1.2, hm.2.1, w, hf.symm⟩
        · injection h with h; injection h with hf h; injection h with _ h; injection h with _ h; subst h
          exact ⟨by omega, hm.2.1, w, hf.symm⟩
      · exact ih _ _ _ _ _ (by omega) hm.2.1 _ _ _ _ h
    · rename_i hlt
      unfold C15Faults.qBody at h
      have hc : b.cursor < b.len := by omega
      rw [if_pos hc] at h
      dsimp only at h
      have ret : ∀ (e : Bool), (Csv.Out.ok (({ b with cursor := b.cursor + 1 } : Buf).slice start w, e, (none : Option RErr),
          ({ b with cursor := b.cursor + 1 } : Buf)) : Csv.Out (List Byte × Bool × Option RErr × Buf)) = .ok (f, eol, err, b') →
          b'.cursor ≤ b'.len ∧ b'.len ≤ b'.data.size ∧ ∃ w', f = b'.slice start w' := by
        intro e h1
        injection h1 with h1; injection h1 with hf h1; injection h1 with _ h1; injection h1 with _ h1; subst h1
        exact ⟨hc, w3, w, hf.symm⟩
      repeat' split at h
      all_goals first
        | exact ret _ h
        | (refine keep _ _ ?_ ?_ h
           · exact hc
           · exact w3)
        | (refine ih _ _ _ _ _ ?_ ?_ _ _ _ _ h
           · exact hc
           · exact w3)

theorem nextGo_wf (k : Nat) (fs : Fields) (hwf : FWF fs) (fs' : Fields) (b : Bool)
    (h : C15Faults.nextGo k fs = .ok (fs', b)) : FWF fs' := by
  obtain ⟨w1, w2, w3⟩ := hwf
  unfold C15Faults.nextGo at h
  split at h
  · rename_i hlt
    split at h
    · unfold nextQuoted at h
      dsimp only at h
      split at h
      · cases h
      · rename_i f eol err b' hq
        injection h with h; injection h with h _; subst h
        have := quotedLoop_wf k _ _ _ _ _ (show ({ fs.buf with cursor := fs.buf.cursor + 1 } : Buf).cursor ≤ _ from hlt) w3 _ _ _ _ hq
        exact ⟨Nat.le_refl _, this.1, this.2.1⟩
    · exact nextUnquoted_wf k fs ⟨w1, w2, w3⟩ _ _ h
  · cases h

theorem Fields_next_wf (k : Nat) (fs : Fields) (hwf : FWF fs) (fs' : Fields) (b : Bool)
    (h : fs.next k = .ok (fs', b)) : FWF fs' := by
  have hwf' := hwf
  obtain ⟨w1, w2, w3⟩ := hwf
  have hm := more_facts fs.buf w3
  rw [C15Faults.Fields_next_eq] at h
  split at h
  · injection h with h; injection h with h _; subst h; exact hwf'
  · split at h
    · split at h
      · split at h
        · injection h with h; injection h with h _; subst h
          exact ⟨by simp; omega, by simp; omega, hm.2.1⟩
        · injection h with h; injection h with h _; subst h
          exact ⟨by simp; omega, by simp; omega, hm.2.1⟩
      · exact nextGo_wf k _ ⟨by simp; omega, by simp; omega, hm.2.1⟩ _ _ h
    · exact nextGo_wf k fs hwf' _ _ h

/-! ## `fields.next` -/

/-- a result of the mirror as the result of a function body -/
def outF (h : Reader) (o : Csv.Out (Fields × Bool)) : CR.Out := retF h o

theorem take_min_length {α} (l : List α) (w : Nat) : l.take (min w l.length) = l.take w := by
  by_cases h : w ≤ l.length
  · rw [Nat.min_eq_left h]
  · rw [Nat.min_eq_right (by omega), List.take_of_length_le (Nat.le_refl _), List.take_of_length_le (by omega)]

theorem readView_slice_length (b : Buf) (s w : Nat) : readView b.data s (b.slice s w).length = b.slice s w := by
  simp only [readView, Buf.slice, List.length_drop, List.length_take, Array.length_toList]
  by_cases h : s ≤ min w b.data.size
  · rw [Nat.add_sub_cancel' h]
    have := take_min_length b.data.toList w
    simp only [Array.length_toList] at this
    rw [this]
  · have h1 : min w b.data.size - s = 0 := by omega
    rw [h1, Nat.add_zero]
    rw [List.drop_eq_nil_of_le (by simp; omega), List.drop_eq_nil_of_le (by simp; omega)]

theorem go_part (fuel n : Nat) (h : Reader) (σ : Store) (hwf : FWF h.fs)
    (hnf : C15Faults.nextGo fuel h.fs ≠ .panic "fuel") :
    (S.block nextGoPart).exec (env fuel (n+3)) h σ = retF h (C15Faults.nextGo fuel h.fs) := by
  obtain ⟨w1, w2, w3⟩ := hwf
  unfold C15Faults.nextGo at hnf ⊢
  unfold nextGoPart
  by_cases hlt : h.fs.buf.cursor < h.fs.buf.len
  · rw [if_pos hlt] at hnf ⊢
    by_cases hq : h.fs.buf.data[h.fs.buf.cursor]! = QUOTE
    · have hq' : (h.fs.buf.data[h.fs.buf.cursor]! == QUOTE) = true := by simp [hq]
      rw [if_pos hq'] at hnf ⊢
      have hnq : nextQuoted fuel h.fs.buf h.fs.delim ≠ .panic "fuel" := by
        intro hh; rw [hh] at hnf; exact hnf rfl
      exec_simp [hq, UInt8_ofNat_34, call_quoted fuel n h h.fs.delim hlt w3 hnq]
      cases hr : nextQuoted fuel h.fs.buf h.fs.delim with
      | panic w => simp only [callQ, retF]
      | ok p =>
        obtain ⟨f, eol, err, b⟩ := p
        simp only [callQ]
        have hwf := quotedLoop_wf fuel _ _ _ _ _ (show ({ h.fs.buf with cursor := h.fs.buf.cursor + 1 } : Buf).cursor ≤ _ from hlt) w3 _ _ _ _ hr
        obtain ⟨w', hw'⟩ := hwf.2.2
        have hrv : readView b.data (h.fs.buf.cursor + 1) f.length = f := by
          rw [hw']; exact readView_slice_length b _ _
        exec_simp [withBuf, hrv]
        cases err with
        | none => simp [retF]
        | some e => cases e <;> simp [retF]
    · have hq' : (h.fs.buf.data[h.fs.buf.cursor]! == QUOTE) = false := by simp [hq]
      rw [if_neg (by simp [hq'])] at hnf ⊢
      exec_simp [hq, UInt8_ofNat_34, call_unquoted fuel n _ ⟨w1, w2, w3⟩]
      cases nextUnquoted fuel h.fs h.fs.buf.cursor with
      | panic w => rfl
      | ok p => rfl
  · rw [if_neg hlt]
    exec_simp []
    simp [retF, cls_first]

theorem exec_fsNextBody (Γ : Env) (h : Reader) (σ : Store) : fnFsNext.body.exec Γ h σ =
    (match (S.ite (E.fld Fld.hitEOL) (S.block [S.ret [E.bool false]]) (S.block [])).exec Γ h σ with
     | .next h1 σ1 =>
       (match nextMore.exec Γ h1 σ1 with
        | .next h2 σ2 => (S.block nextGoPart).exec Γ h2 σ2
        | r => r)
     | r => r) := rfl

/-- `fields.next` is the mirror's `Fields.next` wherever the mirror does not give up. -/
theorem call_fsNext (fuel n : Nat) (h : Reader) (hwf : FWF h.fs) (hnf : h.fs.next fuel ≠ .panic "fuel") :
    callAt canonFns fuel (n+4) .fsNext [] h = callF h (h.fs.next fuel) := by
  have hwf' := hwf
  obtain ⟨w1, w2, w3⟩ := hwf
  have hm := more_facts h.fs.buf w3
  have fin : ∀ (fs0 : Fields) (o : Csv.Out (Fields × Bool)),
      (match retF { fs := fs0, row := h.row } o with
       | .ret h' vs => CallRes.ret h' vs
       | .next h' _ => CallRes.ret h' []
       | .panic c => CallRes.panic c
       | _ => CallRes.stuck) = callF h o := by
    intro fs0 o
    cases o with
    | ok p => rfl
    | panic w => rfl
  rw [callAt_succ _ _ _ _ look_fsNext, C15Faults.Fields_next_eq] at *
  unfold runFn
  simp only [List.length_nil, show fnFsNext.params = 0 from rfl, if_true, exec_fsNextBody, bindArgs]
  by_cases he : h.fs.hitEOL = true
  · exec_simp [he]
    rfl
  · have he' : h.fs.hitEOL = false := by simpa using he
    rw [if_neg he] at hnf ⊢
    unfold nextMore
    by_cases hge : h.fs.buf.cursor ≥ h.fs.buf.len
    · rw [if_pos hge] at hnf ⊢
      exec_simp [he', call_more _ _ _ w3, withBuf]
      rcases hmo : h.fs.buf.more with ⟨b', e⟩
      rw [hmo] at hm hnf
      simp only at hm hnf ⊢
      rcases e with _ | e
      · exec_simp []
        have := go_part fuel n (withBuf h b') (Store.empty.set 0 (Val.err none)) ⟨by simp [withBuf]; omega, by simp [withBuf]; omega, hm.2.1⟩ hnf
        simp only [withBuf, he'] at this
        rw [this]
        exact fin _ _
      · cases e
        · by_cases hf0 : 0 < h.fs.fieldStart
          · exec_simp []
            simp [callF, hf0, Buf.slice, readView]
          · exec_simp []
            simp [callF, hf0]
        · exec_simp []
          simp [callF]
    · rw [if_neg hge] at hnf ⊢
      exec_simp [he']
      rw [go_part fuel n h _ hwf' hnf]
      exact fin h.fs _

/-! ## `Reader.Next` -/

theorem Store.set_set (σ : Store) (v : Var) (a b : Val) : (σ.set v a).set v b = σ.set v b := by
  funext w; simp only [Store.set]; split <;> rfl

/-- the result of the row loop: the state with the fields of the row, the loop variable false -/
def rowOut (σ : Store) : Csv.Out (Fields × List (List Byte)) → CR.Out
  | .ok (fs, row) => .next { fs := fs, row := row } (σ.set 0 (.bool false))
  | .panic w => .panic (cls w)

theorem rowOut_set (σ : Store) (x : Val) (o : Csv.Out (Fields × List (List Byte))) : rowOut (σ.set 0 x) o = rowOut σ o := by
  cases o with
  | ok p => simp only [rowOut, Store.set_set]
  | panic w => rfl

theorem rowLoop_fuel (fuel k : Nat) (fs : Fields) (acc : List (List Byte)) (h : fs.next fuel = .panic "fuel") :
    rowLoop fuel (k + 1) fs acc = .panic "fuel" := by
  rw [rowLoop, h]

theorem row_loop (fuel n : Nat) : ∀ (k : Nat) (h : Reader) (σ : Store), FWF h.fs →
    rowLoop fuel k h.fs h.row ≠ .panic "fuel" →
    iter (stepOf (env fuel (n+4)) rowBody) k h σ = rowOut σ (rowLoop fuel k h.fs h.row) := by
  intro k
  induction k with
  | zero => intro h σ _ _; simp [iter, rowLoop, rowOut, cls_fuel_row]
  | succ k ih =>
    intro h σ hwf hnf
    have hnf' : h.fs.next fuel ≠ .panic "fuel" := fun hh => hnf (rowLoop_fuel fuel k _ _ hh)
    rw [iter_succ, stepOf]
    rw [rowLoop] at hnf ⊢
    exec_simp [call_fsNext fuel n h hwf hnf']
    cases hr : h.fs.next fuel with
    | panic w => simp only [callF, contK, rowOut]
    | ok p =>
      obtain ⟨fs', b⟩ := p
      rw [hr] at hnf
      have hwf' := Fields_next_wf fuel h.fs hwf fs' b hr
      cases b
      · exec_simp [callF]
        simp only [contK, rowOut]
      · exec_simp [callF]
        simp only [contK]
        rw [ih { fs := fs', row := h.row ++ [fs'.field] } _ hwf' hnf, rowOut_set]

theorem rowLoop_wf (fuel : Nat) : ∀ (k : Nat) (fs : Fields) (acc : List (List Byte)), FWF fs →
    ∀ fs' row, rowLoop fuel k fs acc = .ok (fs', row) → FWF fs' := by
  intro k
  induction k with
  | zero => intro fs acc _ fs' row h; simp [rowLoop] at h
  | succ k ih =>
    intro fs acc hwf fs' row h
    rw [rowLoop] at h
    split at h
    · cases h
    · rename_i fs1 hn
      exact ih _ _ (Fields_next_wf fuel fs hwf _ _ hn) _ _ h
    · rename_i fs1 hn
      injection h with h; injection h with h _; subst h
      exact Fields_next_wf fuel fs hwf _ _ hn

/-- the mirror's CRLF rule -/
def trimRow (row : List (List Byte)) : List (List Byte) :=
  match row.getLast? with
  | some last => if last.getLast? == some Csv.CR then row.dropLast ++ [last.dropLast] else row
  | none => row

theorem getLast?_eq_index {α} [Inhabited α] (l : List α) (h : 0 < l.length) : l.getLast? = some l[l.length - 1]! := by
  rw [List.getLast?_eq_getElem?, getElem!_pos l (l.length - 1) (by omega)]
  exact List.getElem?_eq_getElem (by omega)

theorem set_last_eq {α} (l : List α) (x : α) (h : 0 < l.length) : l.set (l.length - 1) x = l.dropLast ++ [x] := by
  induction l with
  | nil => simp at h
  | cons a l ih =>
    cases l with
    | nil => simp
    | cons b l =>
      have := ih (by simp)
      simp only [List.length_cons, Nat.add_sub_cancel] at this ⊢
      simp only [List.set_cons_succ, List.dropLast_cons_cons, List.cons_append, List.cons.injEq, true_and]
      exact this

theorem take_pred_eq {α} (l : List α) : l.take (l.length - 1) = l.dropLast := by
  rw [List.dropLast_eq_take]

/-- what the mirror's `Reader.next` does after the row loop -/
def tailOut (h : Reader) : CR.Out :=
  if (trimRow h.row).isEmpty then
    .ret { fs := if h.fs.err == none then { h.fs with err := some .eof } else h.fs, row := [] } [.bool false]
  else .ret { fs := h.fs, row := trimRow h.row } [.bool true]

theorem rd_tail (fuel n : Nat) (h : Reader) (σ : Store) : (S.block rdTail).exec (env fuel n) h σ = tailOut h := by
  unfold rdTail trimPart blankPart tailOut trimRow
  by_cases hr : 0 < h.row.length
  · have hlast := getLast?_eq_index h.row hr
    have hne : h.row ≠ [] := by intro hh; simp [hh] at hr
    have hset := fun x => set_last_eq h.row x hr
    obtain ⟨last, hlastv⟩ : ∃ last, h.row[h.row.length - 1]! = last := ⟨_, rfl⟩
    rw [hlastv] at hlast
    rw [hlast]
    simp only []
    by_cases hl : 0 < last.length
    · have hll := getLast?_eq_index last hl
      obtain ⟨c, hcv⟩ : ∃ c, last[last.length - 1]! = c := ⟨_, rfl⟩
      rw [hcv] at hll
      by_cases hc : c = Csv.CR
      · have hemp : (h.row.dropLast ++ [last.dropLast]).isEmpty = false := by simp
        exec_simp [hlastv, hcv, hc, UInt8_ofNat_13, List.length_set]
        simp only [hll, hc, beq_self_eq_true, if_true, hset, take_pred_eq, List.drop_zero, hemp, Bool.false_eq_true, if_false]
      · have hemp : h.row.isEmpty = false := by simp [hne]
        have hb : (some c == some Csv.CR) = false := by simp [hc]
        exec_simp [hlastv, hcv, hc, UInt8_ofNat_13]
        simp only [hll, hb, Bool.false_eq_true, if_false, hemp]
    · have hnil : last = [] := List.eq_nil_of_length_eq_zero (by omega)
      have hemp : h.row.isEmpty = false := by simp [hne]
      subst hnil
      exec_simp [hlastv]
      have hb : ((none : Option Byte) == some Csv.CR) = false := rfl
      simp only [List.getLast?_nil, hb, hemp, Bool.false_eq_true, if_false]
  · have hnil : h.row = [] := List.eq_nil_of_length_eq_zero (by omega)
    exec_simp [hnil]
    cases he : h.fs.err with
    | none => simp
    | some e =>
      simp
      rw [← hnil]

/-- a result of the mirror's `Reader.next` as the result of a call -/
def callR : Csv.Out (Reader × Bool) → CallRes
  | .ok (r, b) => .ret r [.bool b]
  | .panic w => .panic (cls w)

theorem exec_rdNextBody (Γ : Env) (h : Reader) (σ : Store) : fnRdNext.body.exec Γ h σ =
    (match (S.ite (E.cmp COp.ne (E.fld Fld.err) E.nilErr) (S.block [S.ret [E.bool false]]) (S.block [])).exec Γ h σ with
     | .next h' σ' =>
       (match (S.call [] FnId.fsReset []).exec Γ h' σ' with
        | .next h' σ' =>
          (match (S.assign (L.fld Fld.row) (E.sliceTo (E.fld Fld.row) (E.int 0))).exec Γ h' σ' with
           | .next h' σ' =>
             (match (S.loop rowBody).exec Γ h' σ' with
              | .next h' σ' => (S.block rdTail).exec Γ h' σ'
              | r => r)
           | r => r)
        | r => r)
     | r => r) := rfl

theorem reset_wf (fs : Fields) (hwf : FWF fs) :
    FWF { fs with buf := fs.buf.reset, field := [], fieldStart := 0, hitEOL := false } := by
  obtain ⟨w1, w2, w3⟩ := hwf
  refine ⟨Nat.le_refl _, Nat.zero_le _, ?_⟩
  simp only [Buf.reset, size_writeAll]
  omega

/-- `Reader.Next` is the mirror's `Reader.next` wherever the mirror does not give up. -/
theorem call_rdNext (fuel n : Nat) (h : Reader) (hwf : FWF h.fs) (hnf : h.next fuel ≠ .panic "fuel") :
    callAt canonFns fuel (n+5) .rdNext [] h = callR (h.next fuel) := by
  have hwf' := hwf
  obtain ⟨w1, w2, w3⟩ := hwf
  rw [callAt_succ _ _ _ _ look_rdNext]
  unfold runFn
  simp only [List.length_nil, show fnRdNext.params = 0 from rfl, if_true, exec_rdNextBody, bindArgs]
  unfold Reader.next at hnf ⊢
  cases he : h.fs.err with
  | some e =>
    exec_simp [he]
    simp [callR]
  | none =>
    rw [he] at hnf
    simp only [bne_self_eq_false, Bool.false_eq_true, if_false] at hnf ⊢
    exec_simp [he, call_fsReset fuel (n+2) h ⟨w2, w3⟩, List.take_zero, List.drop_nil]
    have hw2 := reset_wf h.fs hwf'
    have hnf2 : rowLoop fuel fuel { h.fs with buf := h.fs.buf.reset, field := [], fieldStart := 0, hitEOL := false } [] ≠ .panic "fuel" := by
      intro hh; rw [hh] at hnf; exact hnf rfl
    have := row_loop fuel n fuel { fs := { h.fs with buf := h.fs.buf.reset, field := [], fieldStart := 0, hitEOL := false }, row := [] }
      Store.empty hw2 hnf2
    simp only [he] at this hnf2 hnf
    rw [this]
    cases hrl : rowLoop fuel fuel { buf := h.fs.buf.reset, delim := h.fs.delim } [] with
    | panic w => simp only [rowOut, callR]
    | ok p =>
      obtain ⟨fs', row⟩ := p
      simp only [rowOut, rd_tail, tailOut]
      change _ = callR (if (trimRow row).isEmpty = true then
          .ok ({ fs := if (fs'.err == none) = true then { fs' with err := some RErr.eof } else fs' }, false)
        else .ok ({ fs := fs', row := trimRow row }, true))
      by_cases hem : (trimRow row).isEmpty = true
      · simp only [hem, if_true, callR]
      · simp only [hem, if_false, callR, Bool.false_eq_true]

theorem Reader_next_wf (fuel : Nat) (r : Reader) (hwf : FWF r.fs) (r' : Reader) (b : Bool)
    (h : r.next fuel = .ok (r', b)) : FWF r'.fs := by
  unfold Reader.next at h
  split at h
  · injection h with h; injection h with h _; subst h; exact hwf
  · dsimp only at h
    split at h
    · cases h
    · rename_i fs row hrl
      have hw := rowLoop_wf fuel fuel _ [] (reset_wf r.fs hwf) _ _ hrl
      have key : ∀ row' : List (List Byte),
          (if row'.isEmpty = true then
            (Csv.Out.ok (({ fs := if (fs.err == none) = true then { fs with err := some RErr.eof } else fs } : Reader), false) : Csv.Out (Reader × Bool))
           else .ok ({ fs := fs, row := row' }, true)) = .ok (r', b) → FWF r'.fs := by
        intro row' hh
        split at hh
        · injection hh with hh; injection hh with hh _; subst hh
          dsimp only
          split
          · exact hw
          · exact hw
        · injection hh with hh; injection hh with hh _; subst hh
          exact hw
      exact key _ h

/-- when `Reader.next` says "no row" the sticky error is set -/
theorem Reader_next_false (fuel : Nat) (r r' : Reader) (h : r.next fuel = .ok (r', false)) : r'.fs.err ≠ none := by
  unfold Reader.next at h
  split at h
  · rename_i he
    injection h with h; injection h with h _; subst h
    intro hh; simp [hh] at he
  · dsimp only at h
    split at h
    · cases h
    · rename_i fs row hrl
      have key : ∀ row' : List (List Byte),
          (if row'.isEmpty = true then
            (Csv.Out.ok (({ fs := if (fs.err == none) = true then { fs with err := some RErr.eof } else fs } : Reader), false) : Csv.Out (Reader × Bool))
           else .ok ({ fs := fs, row := row' }, true)) = .ok (r', false) → r'.fs.err ≠ none := by
        intro row' hh
        split at hh
        · injection hh with hh; injection hh with hh _; subst hh
          dsimp only
          split
          · simp
          · rename_i hne
            intro hh; simp [hh] at hne
        · injection hh with hh; injection hh with _ hh; cases hh
      exact key _ h

/-! ## `Reader.Read`, `Reader.Err`, `NewReader` -/

/-- `Reader.Read`: the row and nil, or nil and the sticky error -/
theorem call_rdRead (fuel n : Nat) (h : Reader) (hwf : FWF h.fs) (hnf : h.next fuel ≠ .panic "fuel") :
    callAt canonFns fuel (n+6) .rdRead [] h =
      (match h.next fuel with
       | .ok (r, true) => .ret r [.rows r.row, .err none]
       | .ok (r, false) => .ret r [.rows [], .err r.fs.err]
       | .panic w => .panic (cls w)) := by
  rw [callAt_succ _ _ _ _ look_rdRead]
  unfold runFn fnRdRead
  exec_simp [call_rdNext fuel n h hwf hnf]
  cases hr : h.next fuel with
  | panic w => simp only [callR]
  | ok p =>
    obtain ⟨r, b⟩ := p
    cases b
    · exec_simp [callR]
    · exec_simp [callR]

/-- `Reader.Err`: the sticky error unless it is `io.EOF` -/
theorem call_rdErr (fuel n : Nat) (h : Reader) :
    callAt canonFns fuel (n+1) .rdErr [] h = .ret h [.err (if h.fs.err = some .eof then none else h.fs.err)] := by
  rw [callAt_succ _ _ _ _ look_rdErr]
  unfold runFn fnRdErr
  by_cases he : h.fs.err = some .eof
  · exec_simp [he]
  · exec_simp [he]

/-- `NewReader(r, delim)` builds the initial state of the mirror with a buffer of capacity 1024 around the wrapped reader. -/
theorem call_newReader (s : Src) (delim : Byte) :
    CR.newReader canonFns s delim =
      some { fs := { buf := { data := Array.replicate 1024 0, len := 0, cursor := 0, src := { s with wrapEof := false } }, delim := delim } } := by
  unfold CR.newReader
  rw [callAt_succ _ _ _ _ look_newReader]
  unfold runFn fnNewReader
  exec_simp []
  rfl

/-! ## Reading a whole document -/

/-- a result of the mirror (rows, final error, final reader) as a result of the interpretation -/
def embed {α : Type} : Csv.Out α → Res α
  | .ok x => .ok x
  | .panic w => .panic (cls w)

theorem readAllLoop'_fuel (fuel n : Nat) (r : Reader) (acc : List (List (List Byte))) (h : r.next fuel = .panic "fuel") :
    C15Faults.readAllLoop' fuel (n + 1) r acc = .panic "fuel" := by
  rw [C15Faults.readAllLoop', h]

theorem readAll_loop (fuel : Nat) : ∀ (n : Nat) (h : Reader) (acc : List (List (List Byte))), FWF h.fs →
    C15Faults.readAllLoop' fuel n h acc ≠ .panic "fuel" →
    CR.readAllLoop canonFns fuel n h acc = embed (C15Faults.readAllLoop' fuel n h acc) := by
  intro n
  induction n with
  | zero => intro h acc _ _; simp [CR.readAllLoop, C15Faults.readAllLoop', embed, cls_fuel_all]
  | succ n ih =>
    intro h acc hwf hnf
    have hnf' : h.next fuel ≠ .panic "fuel" := fun hh => hnf (readAllLoop'_fuel fuel n _ _ hh)
    rw [CR.readAllLoop, show CR.depth = 0 + 6 from rfl, call_rdRead fuel 0 h hwf hnf']
    rw [C15Faults.readAllLoop'] at hnf ⊢
    cases hr : h.next fuel with
    | panic w => simp only [embed]
    | ok p =>
      obtain ⟨r, b⟩ := p
      rw [hr] at hnf
      cases b
      · have he := Reader_next_false fuel h r hr
        cases hre : r.fs.err with
        | none => exact absurd hre he
        | some e => simp only [embed, hre]
      · simp only at hnf ⊢
        exact ih r _ (Reader_next_wf fuel h hwf r true hr) hnf

theorem initHeap_eq (doc : List Byte) (sched : List Nat) (delim : Byte) (cap : Nat) (failAt : Option Nat) (eofWD fwd : Bool) :
    CR.initHeap doc sched delim cap failAt eofWD fwd = C15Faults.initReader doc sched delim cap failAt eofWD fwd := rfl

theorem initHeap_wf (doc : List Byte) (sched : List Nat) (delim : Byte) (cap : Nat) (failAt : Option Nat) (eofWD fwd : Bool) :
    FWF (CR.initHeap doc sched delim cap failAt eofWD fwd).fs :=
  ⟨Nat.le_refl _, Nat.le_refl _, Nat.zero_le _⟩

theorem outMap_fuel {α β : Type} (f : α → β) (o : Csv.Out α) : C15Faults.outMap f o = .panic "fuel" ↔ o = .panic "fuel" := by
  cases o with
  | ok x => simp [C15Faults.outMap]
  | panic w => simp [C15Faults.outMap]

/-- the canonical terms read a document as the mirror does (final reader included) -/
theorem canon_readAll (doc : List Byte) (sched : List Nat) (delim : Byte) (cap : Nat) (failAt : Option Nat) (eofWD fwd : Bool)
    (hnf : Csv.readAll doc sched delim cap failAt eofWD fwd ≠ .panic "fuel") :
    CR.readAll canonFns doc sched delim cap failAt eofWD fwd = embed (C15Faults.readAll' doc sched delim cap failAt eofWD fwd) := by
  have hnf' : C15Faults.readAll' doc sched delim cap failAt eofWD fwd ≠ .panic "fuel" := by
    intro hh
    apply hnf
    rw [← C15Faults.readAll'_agree, hh]; rfl
  unfold CR.readAll C15Faults.readAll' at *
  exact readAll_loop _ _ _ _ (initHeap_wf ..) hnf'

/-! ## Today's extraction (`QF.Gen.csvFns`), function by function -/

/-- `eofReaderWrapper.Read` as extracted today, over the underlying reader `CR.underRead`, is the mirror's `Src.read`. -/
theorem gen_csv_wrapRead (fuel n : Nat) (h : Reader) (off len cap : Nat) :
    callAt Gen.csvFns fuel (n+1) .wrapRead [.view off len cap] h =
      .ret (withBuf h { h.fs.buf with data := writeAll h.fs.buf.data off (h.fs.buf.src.read len).1, src := (h.fs.buf.src.read len).2.2 })
        [.int (h.fs.buf.src.read len).1.length, .err (h.fs.buf.src.read len).2.1] := by
  rw [gen_csv_canon]; exact call_wrapRead fuel n h off len cap

/-- `bufferedReader.more` as extracted today is the mirror's `Buf.more`. -/
theorem gen_csv_more (fuel n : Nat) (h : Reader) (hwf : h.fs.buf.len ≤ h.fs.buf.data.size) :
    callAt Gen.csvFns fuel (n+2) .more [] h = .ret (withBuf h h.fs.buf.more.1) [.err h.fs.buf.more.2] := by
  rw [gen_csv_canon]; exact call_more fuel n h hwf

/-- `bufferedReader.reset` as extracted today is the mirror's `Buf.reset`. -/
theorem gen_csv_reset (fuel n : Nat) (h : Reader) (hwf : WF h.fs.buf) :
    callAt Gen.csvFns fuel (n+1) .bufReset [] h = .ret (withBuf h h.fs.buf.reset) [] := by
  rw [gen_csv_canon]; exact call_bufReset fuel n h hwf

/-- `fields.reset` as extracted today -/
theorem gen_csv_fieldsReset (fuel n : Nat) (h : Reader) (hwf : WF h.fs.buf) :
    callAt Gen.csvFns fuel (n+2) .fsReset [] h =
      .ret { h with fs := { h.fs with buf := h.fs.buf.reset, field := [], fieldStart := 0, hitEOL := false } } [] := by
  rw [gen_csv_canon]; exact call_fsReset fuel n h hwf

/-- `fields.nextUnquotedField` as extracted today is the mirror's `nextUnquoted` — exactly, the budget included. -/
theorem gen_csv_unquoted (fuel n : Nat) (h : Reader) (hwf : FWF h.fs) :
    callAt Gen.csvFns fuel (n+3) .unquoted [] h = callF h (nextUnquoted fuel h.fs h.fs.buf.cursor) := by
  rw [gen_csv_canon]; exact call_unquoted fuel n h hwf

/-- `nextQuotedField` as extracted today is the mirror's `nextQuoted` wherever the mirror does not give up. -/
theorem gen_csv_quoted_partial (fuel n : Nat) (h : Reader) (delim : Byte)
    (hc : h.fs.buf.cursor < h.fs.buf.len) (hl : h.fs.buf.len ≤ h.fs.buf.data.size)
    (hnf : nextQuoted fuel h.fs.buf delim ≠ .panic "fuel") :
    callAt Gen.csvFns fuel (n+3) .quoted [.byte delim] h = callQ h (h.fs.buf.cursor + 1) (nextQuoted fuel h.fs.buf delim) := by
  rw [gen_csv_canon]; exact call_quoted fuel n h delim hc hl hnf

/-- `fields.next` as extracted today is the mirror's `Fields.next`. -/
theorem gen_csv_fieldsNext_partial (fuel n : Nat) (h : Reader) (hwf : FWF h.fs) (hnf : h.fs.next fuel ≠ .panic "fuel") :
    callAt Gen.csvFns fuel (n+4) .fsNext [] h = callF h (h.fs.next fuel) := by
  rw [gen_csv_canon]; exact call_fsNext fuel n h hwf hnf

/-- `Reader.Next` as extracted today is the mirror's `Reader.next`. -/
theorem gen_csv_readerNext_partial (fuel n : Nat) (h : Reader) (hwf : FWF h.fs) (hnf : h.next fuel ≠ .panic "fuel") :
    callAt Gen.csvFns fuel (n+5) .rdNext [] h = callR (h.next fuel) := by
  rw [gen_csv_canon]; exact call_rdNext fuel n h hwf hnf

/-- `Reader.Read` as extracted today: the row and nil, or nil and the sticky error. -/
theorem gen_csv_read_partial (fuel n : Nat) (h : Reader) (hwf : FWF h.fs) (hnf : h.next fuel ≠ .panic "fuel") :
    callAt Gen.csvFns fuel (n+6) .rdRead [] h =
      (match h.next fuel with
       | .ok (r, true) => .ret r [.rows r.row, .err none]
       | .ok (r, false) => .ret r [.rows [], .err r.fs.err]
       | .panic w => .panic (cls w)) := by
  rw [gen_csv_canon]; exact call_rdRead fuel n h hwf hnf

/-- `Reader.Err` as extracted today: the sticky error unless it is `io.EOF`. -/
theorem gen_csv_err (fuel n : Nat) (h : Reader) :
    callAt Gen.csvFns fuel (n+1) .rdErr [] h = .ret h [.err (if h.fs.err = some .eof then none else h.fs.err)] := by
  rw [gen_csv_canon]; exact call_rdErr fuel n h

/-- `NewReader` as extracted today builds the state the mirror's `readAll` starts from, with a buffer of capacity 1024 around
the wrapped reader. -/
theorem gen_csv_newReader (doc : List Byte) (sched : List Nat) (delim : Byte) (failAt : Option Nat) (eofWD fwd : Bool) :
    CR.newReader Gen.csvFns { rest := doc, sched := sched, failAt := failAt, eofWithData := eofWD, failWithData := fwd } delim =
      some (CR.initHeap doc sched delim 1024 failAt eofWD fwd) := by
  rw [gen_csv_canon, call_newReader]; rfl

/-! ## The whole reader -/

/-- what `Csv.readAll` returns of a run: the rows and the final error -/
def rowsErr : Res (List (List (List Byte)) × Option RErr × Reader) → Res (List (List (List Byte)) × Option RErr)
  | .ok x => .ok (x.1, x.2.1)
  | .panic c => .panic c
  | .stuck => .stuck

/-- **The CSV reader regenerated from today's source is the hand mirror.** For every document, read schedule, delimiter,
buffer capacity, fault position and the two flags of the underlying reader: interpreting today's extracted functions
(`Reader.Read` in the caller's loop, down to the `Read` of the underlying reader) yields exactly what the mirror yields —
the rows, the final error, the final state of buffer and reader (stale bytes and the number of `Read` calls included), or a
panic of the same class — provided the mirror does not give up (`panic "fuel"`: its ONE loop for `nextQuotedField` ran out
of budget; the two nested loops of the real function, each with that budget, may then still go on). In particular the
interpretation is never `stuck`. -/
theorem gen_csv_semantics_partial (doc : List Byte) (sched : List Nat) (delim : Byte) (cap : Nat) (failAt : Option Nat) (eofWD fwd : Bool)
    (hnf : Csv.readAll doc sched delim cap failAt eofWD fwd ≠ .panic "fuel") :
    CR.readAll Gen.csvFns doc sched delim cap failAt eofWD fwd = embed (C15Faults.readAll' doc sched delim cap failAt eofWD fwd) := by
  rw [gen_csv_canon]; exact canon_readAll doc sched delim cap failAt eofWD fwd hnf

/-- … in terms of `Csv.readAll` -/
theorem gen_csv_semantics_rows_partial (doc : List Byte) (sched : List Nat) (delim : Byte) (cap : Nat) (failAt : Option Nat) (eofWD fwd : Bool)
    (hnf : Csv.readAll doc sched delim cap failAt eofWD fwd ≠ .panic "fuel") :
    rowsErr (CR.readAll Gen.csvFns doc sched delim cap failAt eofWD fwd) = embed (Csv.readAll doc sched delim cap failAt eofWD fwd) := by
  rw [gen_csv_semantics_partial doc sched delim cap failAt eofWD fwd hnf, ← C15Faults.readAll'_agree]
  cases C15Faults.readAll' doc sched delim cap failAt eofWD fwd with
  | ok x => rfl
  | panic w => rfl

/-- C15 for the regenerated reader: a run of today's extracted functions ends with the failure of the underlying reader iff
the failing `Read` call was made (`fail_iff_reached`, C15Faults, carried over by `gen_csv_semantics_partial`). -/
theorem gen_fail_iff_reached_partial (doc : List Byte) (sched : List Nat) (delim : Byte) (cap k : Nat) (eofWD fwd : Bool)
    (hnf : Csv.readAll doc sched delim cap (some k) eofWD fwd ≠ .panic "fuel")
    (rows : List (List (List Byte))) (e : Option RErr) (h : Reader)
    (hrun : CR.readAll Gen.csvFns doc sched delim cap (some k) eofWD fwd = .ok (rows, e, h)) :
    e = some .fail ↔ k < h.fs.buf.src.calls := by
  rw [gen_csv_semantics_partial doc sched delim cap (some k) eofWD fwd hnf] at hrun
  have hm : C15Faults.readAll' doc sched delim cap (some k) eofWD fwd = .ok (rows, e, h) := by
    cases hr : C15Faults.readAll' doc sched delim cap (some k) eofWD fwd with
    | ok x => rw [hr] at hrun; simp only [embed] at hrun; injection hrun with hrun; rw [hrun]
    | panic w => rw [hr] at hrun; simp [embed] at hrun
  have hra : Csv.readAll doc sched delim cap (some k) eofWD fwd = .ok (rows, e) := by
    rw [← C15Faults.readAll'_agree, hm]; rfl
  rw [C15Faults.fail_iff_reached doc sched delim cap k eofWD fwd rows e hra]
  constructor
  · rintro ⟨rows', e', r, h', hlt⟩
    rw [hm] at h'
    injection h' with h'; injection h' with _ h'; injection h' with _ h'
    rw [h']; exact hlt
  · intro hlt
    exact ⟨rows, e, h, hm, hlt⟩

/-! ## Witnesses: plausible other sources do not pass

Each mutant below is the term csvast.go produces for the changed Go text (checked with the extractor on a scratch clone of
the repository). `gen_csv_canon` fails for it (`≠ canonFns`), and a concrete run shows that it is a different reader. -/

def rowsOf : Res (List (List (List Byte)) × Option RErr × Reader) → Option (List (List (List Byte)) × Option RErr)
  | .ok x => some (x.1, x.2.1)
  | _ => none

def panicOf : Res (List (List (List Byte)) × Option RErr × Reader) → Option PCls
  | .panic c => some c
  | _ => none

/-- the canonical functions with one of them replaced -/
def withFn (f : FnId) (fn : Fn) : List (FnId × Fn) := canonFns.map fun p => if p.1 = f then (f, fn) else p

/-- `nextQuotedField` with another look-ahead statement and another `case '\r'` -/
def fnQuotedWith (ahead : S) (crCase : S) : Fn := { params := 1, body := S.block [
  S.incr (L.fld Fld.cursor),
  S.assign (L.var 1) (E.fld Fld.cursor),
  S.assign (L.var 2) (E.fld Fld.cursor),
  S.assign (L.var 3) (E.int 0),
  S.loop (S.seq ahead (S.block ([
    S.assign (L.var 5) (E.at (E.fld Fld.data) (E.fld Fld.cursor)),
    S.incr (L.fld Fld.cursor),
    S.ite (E.cmp COp.eq (E.var 5) (E.var 0))
      (S.block [S.ite qcOdd (S.block [S.ret [qField, E.bool false, E.nilErr]]) (S.block [])])
      (S.ite (E.cmp COp.eq (E.var 5) (E.byte 10))
        (S.block [S.ite qcOdd (S.block [S.ret [qField, E.bool true, E.nilErr]]) (S.block [])])
        (S.ite (E.cmp COp.eq (E.var 5) (E.byte 13))
          crCase
          (S.ite (E.cmp COp.eq (E.var 5) (E.byte 34))
            (S.block [S.incr (L.var 3), S.ite (E.cmp COp.eq (E.rem (E.var 3) (E.int 2)) (E.int 1)) (S.block [S.cont]) (S.block [])])
            (S.block []))))] ++ qKeep)))] }

/-- `case '\r': if quoteCount%2 != 0 { continue }` -/
def crTested : S := S.block [S.ite qcOdd (S.block [S.cont]) (S.block [])]

example : fnQuotedWith (S.loop aheadBody) crTested = fnQuoted := by decide

/-- `if buffer.cursor+1 >= len(buffer.data) { … }` instead of `for`: one `more()` at most before a byte is handled -/
def aheadIf : S :=
  S.ite (E.cmp COp.ge (E.add (E.fld Fld.cursor) (E.int 1)) (E.len (E.fld Fld.data)))
    (S.block [
      S.call [L.var 4] FnId.more [],
      S.ite (E.cmp COp.ne (E.var 4) E.nilErr)
        (S.block [
          S.ite eofDelim
            (S.block [S.incr (L.fld Fld.cursor), S.ret [qField, E.bool false, E.nilErr]])
            (S.block []),
          S.ret [qField, E.bool true, E.var 4]])
        (S.block [])])
    (S.block [])

/-- `"a""b"` LF -/
def docEscaped : List Byte := [34, 97, 34, 34, 98, 34, 10]

example : withFn .quoted (fnQuotedWith aheadIf crTested) ≠ canonFns := by decide

/-- a reader that delivers one byte per call, a buffer of 4 bytes: today's reader returns the row … -/
example : rowsOf (CR.readAll canonFns docEscaped [1, 1, 1, 1, 1, 1, 1, 1] 44 4 none false false) = some ([[[97, 34, 98]]], some .eof) := by
  decide +kernel

/-- … with `if` the byte after the cursor is not there yet when it is copied: `slice bounds out of range` -/
example : panicOf (CR.readAll (withFn .quoted (fnQuotedWith aheadIf crTested)) docEscaped [1, 1, 1, 1, 1, 1, 1, 1] 44 4 none false false) =
    some .slice := by
  decide +kernel

/-- `"a` CR `b"` LF -/
def docCR : List Byte := [34, 97, 13, 98, 34, 10]

example : withFn .quoted (fnQuotedWith (S.loop aheadBody) (S.block [S.cont])) ≠ canonFns := by decide

/-- a carriage return inside the quotes is content … -/
example : rowsOf (CR.readAll canonFns docCR [] 44 16 none false false) = some ([[[97, 13, 98]]], some .eof) := by decide +kernel

/-- … `case '\r': continue` without the `quoteCount%2` test loses it (and what follows it in the field) -/
example : rowsOf (CR.readAll (withFn .quoted (fnQuotedWith (S.loop aheadBody) (S.block [S.cont]))) docCR [] 44 16 none false false) =
    some ([[[97]]], some .eof) := by decide +kernel

/-- `reset` without `copy(b.data, b.data[b.cursor:])`: the unread bytes are not shifted to the front -/
def fnResetNoShift : Fn := { params := 0, body := S.block [
  S.assign (L.fld Fld.data) (E.sliceTo (E.fld Fld.data) (E.sub (E.len (E.fld Fld.data)) (E.fld Fld.cursor))),
  S.assign (L.fld Fld.cursor) (E.int 0)] }

/-- `a` LF `b` LF -/
def docTwoRows : List Byte := [97, 10, 98, 10]

example : withFn .bufReset fnResetNoShift ≠ canonFns := by decide

example : rowsOf (CR.readAll canonFns docTwoRows [] 44 16 none false false) = some ([[[97]], [[98]]], some .eof) := by decide +kernel

/-- … the second row is read from the bytes of the first -/
example : rowsOf (CR.readAll (withFn .bufReset fnResetNoShift) docTwoRows [] 44 16 none false false) =
    some ([[[97]], [[97]]], some .eof) := by decide +kernel

/-- a run with a fault: the third `Read` call fails with its bytes (the run of `C15Faults.ex_fail_run`) -/
example : rowsOf (CR.readAll canonFns C15Faults.exDoc [2, 2, 2, 2] 44 4 (some 2) false true) = some ([[[97], [98]]], some .fail) := by
  decide +kernel

end QF.Props.C12CsvGen
