import QF.Props.Tie
import QF.Core.Small
/-!
# C08 — New reproduces its input; string storage

`pointer_roundtrip`: the packed string pointer (offset 35 bits, length 28 bits, null bit)
returns exactly the offset, length and null flag it was built from.
-/
namespace QF.Props.C08

theorem pointer_roundtrip (offset length : Nat) (isNull : Bool) (ho : offset < 2 ^ 35) (hl : length < 2 ^ 28) :
    Small.pOffset (Small.newPointer offset length isNull) = offset ∧
      Small.pLen (Small.newPointer offset length isNull) = length ∧
        Small.pIsNull (Small.newPointer offset length isNull) = isNull :=
  Small.pointer_roundtrip offset length isNull ho hl

/-- T1: the functions this property's mirror model follows have today the source text the model was written against. -/
-- Tie audit (bin/selftest-ties): the following functions are not compared as text any more; every behaviour-changing edit of
-- them makes a `gen_*_canon` theorem of this property's modules fail, renaming their locals or reformatting them changes nothing:
-- `CheckName`, `isQuoted`: `Gen.checkNameAst`, `C08Guards.gen_checkname_canon` + `gen_checkname_semantics`. `New`: `Gen.guardAst` + `Gen.newTailAst`, `C08Guards.gen_guards_canon` +
-- `gen_new_outcome`, `C08Construct.gen_construct_canon` + `gen_new_semantics_partial`. `QFrame.Slice`, `Select`, `Drop`, `Copy`: `Gen.guardAst` + `Gen.projectAst`,
-- `C08Guards.gen_guards_canon` + `gen_guards_semantics`, `C08ProjectGen.gen_project_canon` + `gen_project_semantics`.
-- The string pointer functions are regenerated in `Gen.stringsFns` (C08PointerGen.gen_pointer_semantics / gen_pointer_roundtrip).
-- The constructors createColumn calls are regenerated in `Gen.scolNew` / `scolNewConst` / `numCtors` (C08CtorsGen).
-- `createColumn` is regenerated in `Gen.createColumnAst` (nast.go: C08Construct.gen_construct_canon + gen_new_semantics_partial); HOW it returns its errors — `ecolumn.New`'s
-- error wrapped by `qerrors.Propagate("New columns <name>", err)`, the two `qerrors.New` — in `Gen.createColumnErrs` (sortgast.go): `C03SortGlueGen.gen_sortglue_canon` + `gen_createcolumn_errors`.
theorem tie : Tie.sameAll [] = true := by decide

/-- The null marker of packed string pointers is bit 63. -/
theorem gen_null_bit : Gen.consts.lookup "strings.nullBit" = some "0x8000000000000000" := by decide

end QF.Props.C08
