import QF.Core.Small
/-!
# C08 — New reproduces its input; string storage

`pointer_roundtrip`: the packed string pointer (offset 35 bits, length 28 bits, null bit)
returns exactly the offset, length and null flag it was built from.
-/
namespace QF.Props.C08

theorem pointer_roundtrip (offset length : Nat) (isNull : Bool) (ho : offset < 2 ^ 35) (hl : length < 2 ^ 28) :
    Small.pOffset (Small.newPointer offset length isNull) = offset ∧
      Small.pLen (Small.newPointer offset length isNull) = length ∧
        Small.pIsNull (Small.newPointer offset length isNull) = isNull :=
  Small.pointer_roundtrip offset length isNull ho hl

end QF.Props.C08
