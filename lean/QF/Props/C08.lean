import QF.Props.Tie
import QF.Core.Small
/-!
# C08 — New reproduces its input; string storage

`pointer_roundtrip`: the packed string pointer (offset 35 bits, length 28 bits, null bit)
returns exactly the offset, length and null flag it was built from.
-/
namespace QF.Props.C08

theorem pointer_roundtrip (offset length : Nat) (isNull : Bool) (ho : offset < 2 ^ 35) (hl : length < 2 ^ 28) :
    Small.pOffset (Small.newPointer offset length isNull) = offset ∧
      Small.pLen (Small.newPointer offset length isNull) = length ∧
        Small.pIsNull (Small.newPointer offset length isNull) = isNull :=
  Small.pointer_roundtrip offset length isNull ho hl

/-- T1: the functions this property's mirror model follows have today the source text the model was written against. -/
theorem tie : Tie.sameAll ["strings.nullBit", "strings.NewPointer", "strings.Pointer.Offset", "strings.Pointer.Len", "strings.Pointer.IsNull", "strings.CheckName", "strings.isQuoted", "qframe.New", "qframe.createColumn", "qframe.Slice", "qframe.Select", "qframe.QFrame.Drop", "qframe.QFrame.Copy", "scolumn.New", "scolumn.NewConst", "icolumn.NewConst"] = true := by decide

/-- The null marker of packed string pointers is bit 63. -/
theorem gen_null_bit : Gen.consts.lookup "strings.nullBit" = some "0x8000000000000000" := by decide

end QF.Props.C08
