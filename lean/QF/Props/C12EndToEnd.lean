import QF.Props.C12Bridge
import QF.Props.C12CrLf
import QF.Props.C12NoFuel
import QF.Props.C12GlueGen
import QF.Props.C08Guards
/-!
# C12 — ReadCSV end to end: from the bytes to the frame (composition of the regenerated pieces)

Pieces (all proved elsewhere, each for the terms regenerated from today's source):

    bytes ──(fastcsv reader: `Gen.csvFns`, C12CsvGen)──▶ records ──(glue: `Gen.readCsvAst` + `columnToData`: `Gen.columnToDataAst`,
    C12GlueGen / C12InferGen)──▶ data map + names ──(root `ReadCSV`: `Gen.readCsvEntryAst`, `CheckName`: `Gen.checkNameAst`)──▶ frame

What was missing is the chain. This file proves

* (a) the bridge between the array-level mirror `Csv.readAll` — what the regenerated reader is proved equal to — and the
  list-level proof model `Full.readAll` — what the theorems of C12Read are about — for EVERY document, read schedule with
  reads ≥ 1, initial capacity and EOF mode (`csv_eq_full_loaded`, `csv_eq_full`, `csv_eq_full_total`; the simulation is in
  C12Bridge); that the mirror never gives up (`C12NoFuel.readAll_no_fuel`, every fault position included), hence
  `C12NoFuel.gen_csv_semantics` — `gen_csv_semantics_partial` without its hypothesis — and here
  `gen_csv_eq_full` (regenerated reader = proof model) and `gen_csv_schedule_independent`;
* (b) `gen_readcsv_end_to_end`: for every RFC 4180 document (`RfcDoc`: rendered from rows with any admissible quoting
  choice, line breaks and CR LF inside quotes, every row ended by LF or by CR LF as it likes — C12CrLf —, with or without the
  final line break, a trailing delimiter included), every read schedule with reads ≥ 1, every buffer capacity, either EOF mode, every configuration and
  parse oracle: today's reader composed with today's glue, type inference, root entry and name check returns exactly
  `readCsvS po cfg doc` — an error or the frame; `gen_readcsv_schedule_independent`.

`read_eq_spec'` of C12Read knows only LF row ends; rows ended by CR LF are added by C12CrLf (reader model and `rfcParse`).
-/
namespace QF.Props.C12EndToEnd
open QF QF.CR QF.Props.C12CsvGen QF.Props.C12Bridge QF.Props.C12Read QF.Props.C12GlueGen QF.Props.C12CrLf
open QF.Props.C13 (renderField renderFields renderRow renderDoc)
set_option linter.unusedSimpArgs false
set_option linter.unusedVariables false

/-! ## (a) `Csv.readAll` = `Full.readAll`, for every document -/

/-- **Bridge, loaded form.** Whenever the proof model, started with the whole document in its buffer, returns within budgets
that `Csv.readAll` gives itself, the array-level mirror returns the same rows and the same final error: every read schedule
with reads ≥ 1, every initial capacity, EOF reported with or after the last data. -/
theorem csv_eq_full_loaded (doc : List Csv.Byte) (sched : List Nat) (delim : Csv.Byte) (cap : Nat) (eofWD fwd : Bool)
    (hs : ∀ k ∈ sched, 1 ≤ k) (F n : Nat) (res : List (List (List Csv.Byte)) × Option Full.RErr)
    (hF : F + doc.length ≤ 8 * doc.length + 64) (hn : n ≤ 8 * doc.length + 64)
    (h : Full.readAll delim F n (Full.loadedFS doc) [] = some res) :
    Csv.readAll doc sched delim cap none eofWD fwd = .ok (res.1, cv res.2) :=
  readAll_bridge doc sched delim cap eofWD fwd hs F n res hF hn h

/-- **Bridge.** … and the same for the proof model run on ANY schedule `sched'` of its own (`read_schedule_independent`):
the two machines need not even be given the same schedule. -/
theorem csv_eq_full (doc : List Csv.Byte) (sched sched' : List Nat) (delim : Csv.Byte) (cap : Nat) (eofWD fwd : Bool)
    (hs : ∀ k ∈ sched, 1 ≤ k) (F n : Nat) (res : List (List (List Csv.Byte)) × Option Full.RErr)
    (hF : F + doc.length ≤ 8 * doc.length + 64) (hn : n ≤ 8 * doc.length + 64)
    (h : Full.readAll delim F n (Full.initFS doc sched') [] = some res) :
    Csv.readAll doc sched delim cap none eofWD fwd = .ok (res.1, cv res.2) :=
  csv_eq_full_loaded doc sched delim cap eofWD fwd hs F n res hF hn (Full.read_schedule_independent delim F n doc sched' res h)

/-- **Bridge, total.** For every document the proof model returns with budgets `|doc| + 2`, `|doc| + 1` on every schedule
(`readAll_total`), and the mirror returns exactly that. In particular the mirror never panics — neither for lack of fuel nor
on an index — and never reports a failure of the (fault-free) underlying reader. -/
theorem csv_eq_full_total (doc : List Csv.Byte) (sched sched' : List Nat) (delim : Csv.Byte) (cap : Nat) (eofWD fwd : Bool)
    (hs : ∀ k ∈ sched, 1 ≤ k) :
    ∃ res, Full.readAll delim (doc.length + 2) (doc.length + 1) (Full.initFS doc sched') [] = some res ∧
      Csv.readAll doc sched delim cap none eofWD fwd = .ok (res.1, cv res.2) := by
  obtain ⟨res, hres⟩ := readAll_total delim (doc.length + 2) 1 (doc.length + 1) (Full.initFS doc sched') []
    (Nat.zero_le _) (Or.inl rfl) (by simp [total, Full.initFS]) (by simp [total, Full.initFS])
  exact ⟨res, hres, csv_eq_full doc sched sched' delim cap eofWD fwd hs _ _ res (by omega) (by omega) hres⟩

/-- the rows and final error of a run of the interpretation -/
def rowsErrOf : QF.CR.Res (List (List (List Csv.Byte)) × Option Csv.RErr × Csv.Reader) → Option (List (List (List Csv.Byte)) × Option Csv.RErr)
  | .ok x => some (x.1, x.2.1)
  | _ => none

/-- **The regenerated reader = the proof model**, for every document: the functions of internal/fastcsv extracted from
today's source, interpreted over an underlying reader that delivers the document in the pieces `sched` (each ≥ 1), return the
rows and the final error the proof model returns on any schedule of its own. -/
theorem gen_csv_eq_full (doc : List Csv.Byte) (sched sched' : List Nat) (delim : Csv.Byte) (cap : Nat) (eofWD fwd : Bool)
    (hs : ∀ k ∈ sched, 1 ≤ k) :
    ∃ res, Full.readAll delim (doc.length + 2) (doc.length + 1) (Full.initFS doc sched') [] = some res ∧
      rowsErrOf (CR.readAll Gen.csvFns doc sched delim cap none eofWD fwd) = some (res.1, cv res.2) := by
  obtain ⟨res, h1, h2⟩ := csv_eq_full_total doc sched sched' delim cap eofWD fwd hs
  refine ⟨res, h1, ?_⟩
  obtain ⟨r, hr⟩ := C15Faults.readAll'_of_readAll h2
  rw [C12NoFuel.gen_csv_semantics doc sched delim cap none eofWD fwd hs, hr]
  rfl

/-- **The regenerated reader does not depend on the fragmentation** (nor on the initial capacity or the EOF mode): any two
runs on the same document return the same rows and the same final error. Every document, well-formed or not. -/
theorem gen_csv_schedule_independent (doc : List Csv.Byte) (s1 s2 : List Nat) (delim : Csv.Byte) (cap1 cap2 : Nat)
    (e1 f1 e2 f2 : Bool) (h1 : ∀ k ∈ s1, 1 ≤ k) (h2 : ∀ k ∈ s2, 1 ≤ k) :
    rowsErrOf (CR.readAll Gen.csvFns doc s1 delim cap1 none e1 f1) = rowsErrOf (CR.readAll Gen.csvFns doc s2 delim cap2 none e2 f2) ∧
    (rowsErrOf (CR.readAll Gen.csvFns doc s1 delim cap1 none e1 f1)).isSome = true := by
  obtain ⟨r1, a1, b1⟩ := gen_csv_eq_full doc s1 [] delim cap1 e1 f1 h1
  obtain ⟨r2, a2, b2⟩ := gen_csv_eq_full doc s2 [] delim cap2 e2 f2 h2
  rw [a1] at a2
  injection a2 with a2
  subst a2
  rw [b1, b2]
  exact ⟨rfl, rfl⟩

/-! ## RFC 4180 documents -/

/-- `RfcDoc delim doc table`: `doc` is an RFC 4180 document and denotes `table` — rendered from rows with ANY quoting
choice that quotes at least what must be quoted (`RowOk'`: a quoted field may contain anything: delimiters, quotes, LF, CR,
CR LF; the last field of a row must not END with CR), every row ended by LF or by CR LF, row by row as it likes
(`renderDocT`; `closed`), or the last row without its line break (`open`; it may end with a delimiter = a final empty field;
it must not be the single bare empty field, which renders to nothing). -/
inductive RfcDoc (delim : Csv.Byte) : List Csv.Byte → List (List (List Csv.Byte)) → Prop
  | closed (rows : List (List (Bool × List Csv.Byte) × Bool)) (h : ∀ r ∈ rows, RowOk' delim r.1) :
      RfcDoc delim (renderDocT delim rows) (rows.map (·.1.map (·.2)))
  | «open» (rows : List (List (Bool × List Csv.Byte) × Bool)) (last : List (Bool × List Csv.Byte))
      (h : ∀ r ∈ rows, RowOk' delim r.1) (hlast : RowOk' delim last) (hl : last ≠ [(false, [])]) :
      RfcDoc delim (renderDocT delim rows ++ renderFields delim last) (rows.map (·.1.map (·.2)) ++ [last.map (·.2)])

/-- the documents of `read_eq_spec'`: every row ended by LF -/
theorem RfcDoc.lf {delim : Csv.Byte} (rows : List (List (Bool × List Csv.Byte))) (h : ∀ r ∈ rows, RowOk' delim r) :
    RfcDoc delim (renderDoc delim rows) (rows.map (·.map (·.2))) := by
  have := RfcDoc.closed (delim := delim) (rows.map (fun r => (r, false))) (by
    intro r hr
    obtain ⟨r0, h0, rfl⟩ := List.mem_map.mp hr
    exact h r0 h0)
  rw [renderDocT_lf, List.map_map] at this
  exact this

/-- … and those of `read_render_no_final_newline` -/
theorem RfcDoc.lf_open {delim : Csv.Byte} (rows : List (List (Bool × List Csv.Byte))) (last : List (Bool × List Csv.Byte))
    (h : ∀ r ∈ rows ++ [last], RowOk' delim r) (hl : last ≠ [(false, [])]) :
    RfcDoc delim (renderDoc delim rows ++ renderFields delim last) ((rows ++ [last]).map (·.map (·.2))) := by
  have := RfcDoc.«open» (delim := delim) (rows.map (fun r => (r, false))) last (by
    intro r hr
    obtain ⟨r0, h0, rfl⟩ := List.mem_map.mp hr
    exact h r0 (by simp [h0])) (h last (by simp)) hl
  rw [renderDocT_lf, List.map_map] at this
  simpa [Function.comp_def] using this

/-- the specification's scanner reads the table off an RFC 4180 document -/
theorem RfcDoc.parse {delim : Csv.Byte} (hd : delim ≠ 34 ∧ delim ≠ 10 ∧ delim ≠ 13) {doc table} (h : RfcDoc delim doc table) :
    rfcParse delim doc = table := by
  cases h with
  | closed rows h => exact parse_renderT delim hd rows (fun r hr => (h r hr).core)
  | «open» rows last h hlast hl => exact parse_render_nfnT delim hd rows last (fun r hr => (h r hr).core) hlast.core hl

/-- every record of an RFC 4180 document has a field -/
theorem RfcDoc.nonempty {delim : Csv.Byte} {doc table} (h : RfcDoc delim doc table) : ∀ r ∈ table, r ≠ [] := by
  cases h with
  | closed rows h =>
    intro r hr
    obtain ⟨r0, h0, rfl⟩ := List.mem_map.mp hr
    simpa using (h r0 h0).nonempty
  | «open» rows last h hlast hl =>
    intro r hr
    rcases List.mem_append.mp hr with hr | hr
    · obtain ⟨r0, h0, rfl⟩ := List.mem_map.mp hr
      simpa using (h r0 h0).nonempty
    · simp only [List.mem_singleton] at hr
      subst hr
      simpa using hlast.nonempty

/-- the array-level mirror reads the table off an RFC 4180 document: every schedule with reads ≥ 1, every capacity,
either EOF mode -/
theorem RfcDoc.csv_read {delim : Csv.Byte} (hd : delim ≠ 34 ∧ delim ≠ 10 ∧ delim ≠ 13) {doc table} (h : RfcDoc delim doc table)
    (sched : List Nat) (cap : Nat) (eofWD fwd : Bool) (hs : ∀ k ∈ sched, 1 ≤ k) :
    Csv.readAll doc sched delim cap none eofWD fwd = .ok (table, some .eof) := by
  cases h with
  | closed rows h =>
    have hl := rowsT_length_le delim rows
    have := readAll_loadedT delim hd.1 hd.2.1 hd.2.2 rows h ((renderDocT delim rows).length + 1) (rows.length + 1) (by omega) (by omega)
    exact csv_eq_full_loaded _ sched delim cap eofWD fwd hs _ _ _ (by omega) (by omega) this
  | «open» rows last h hlast hl =>
    have hlen : rows.length ≤ (renderDocT delim rows ++ renderFields delim last).length := by
      rw [List.length_append]; have := rowsT_length_le delim rows; omega
    have := readAll_loaded_nfnT delim hd.1 hd.2.1 hd.2.2 rows last h hlast hl
      ((renderDocT delim rows ++ renderFields delim last).length + 2) (rows.length + 2) (by omega) (by omega)
    exact csv_eq_full_loaded _ sched delim cap eofWD fwd hs _ _ _ (by omega) (by omega) this

/-- … and so does the reader regenerated from today's source -/
theorem RfcDoc.gen_read {delim : Csv.Byte} (hd : delim ≠ 34 ∧ delim ≠ 10 ∧ delim ≠ 13) {doc table} (h : RfcDoc delim doc table)
    (sched : List Nat) (cap : Nat) (eofWD fwd : Bool) (hs : ∀ k ∈ sched, 1 ≤ k) :
    ∃ r, CR.readAll Gen.csvFns doc sched delim cap none eofWD fwd = .ok (table, some .eof, r) := by
  obtain ⟨r, hr⟩ := C15Faults.readAll'_of_readAll (h.csv_read hd sched cap eofWD fwd hs)
  exact ⟨r, by rw [C12NoFuel.gen_csv_semantics doc sched delim cap none eofWD fwd hs, hr]; rfl⟩

/-! ## (b) from the bytes to the frame -/

/-- **`ReadCSV` of internal/io of today's source, from the bytes.** Today's fastcsv reader (`Gen.csvFns`, interpreted by
`CR.readAll` over an underlying reader that delivers `doc` in the pieces `sched`, EOF reported with — `eofWD` — or after the
last data, buffer of capacity `cap`; `NewReader` makes it 1024: `gen_csv_newReader`) hands its records to today's glue
(`Gen.readCsvAst`, run with today's `isEmptyLine`, `addAliasToMissingColumnNames`, `renameDuplicateColumns` and
`columnToData`: `C12GlueGen.genReadCsv`). `r.Err()` is non-nil exactly when the sticky error is a failure of the underlying
reader; here the underlying reader is fault-free, and while the error is not a failure `r.Err()` is nil at every record
(with a failure the glue returns an error wherever it is noticed: `gen_csvglue_faults`). `none`: no meaning. -/
def genReadCsvBytes (po : ParseOracle) (cfg : CsvCfg) (hintBig : Bool) (cap : Nat) (eofWD : Bool) (doc : List Csv.Byte) (sched : List Nat) :
    Option (Option (List (Bytes × C12Infer.Data) × List Bytes)) :=
  match CR.readAll Gen.csvFns doc sched cfg.delim cap none eofWD false with
  | .ok (rows, e, _) => genReadCsv po cfg hintBig (rows.map (fun r => (r, false))) (e == some .fail)
  | _ => none

/-- the number of rows of a frame built from columns: the length of the first one -/
def rowCount : List LCol → Nat
  | c :: _ => c.cells.size
  | [] => 0

/-- what `New(data, ColumnOrder(columns...))` makes of the data `ReadCSV` built: today's `CheckName` on every column name
(`Gen.checkNameAst`, C08Guards); the columns are in the order of the names, of supported types and of one length by
construction (C12GlueGen / C12Infer), so nothing else of `New` can fail (C08Construct). -/
def newFrame (x : List Bytes × List LCol) : QF.Res :=
  if !(x.1.all (fun h => C08Guards.genNameFails h == some false)) then .err else .ok { cols := x.2, n := rowCount x.2 }

/-- **`ReadCSV` of the root package of today's source, from the bytes to the frame**: `Gen.readCsvEntryAst` around
`genReadCsvBytes` and `New`. `none`: no meaning. -/
def genReadCsvFrame (po : ParseOracle) (cfg : CsvCfg) (hintBig : Bool) (cap : Nat) (eofWD : Bool) (doc : List Csv.Byte) (sched : List Nat) :
    Option QF.Res :=
  (genReadCsvBytes po cfg hintBig cap eofWD doc sched).bind fun r =>
    Gen.readCsvEntryAst.run (r.map viewCsv) newFrame .err false none

theorem newFrame_eq (hs : List Bytes) (cols : List LCol) :
    newFrame (hs, cols) = if !(hs.all legalName) then .err else .ok { cols := cols, n := rowCount cols } := by
  unfold newFrame
  have : (hs.all fun h => C08Guards.genNameFails h == some false) = hs.all legalName := by
    congr 1; funext h
    rw [C08Guards.gen_checkname_semantics]
    cases legalName h <;> rfl
  rw [this]

/-! ### the row count of the spec is the length of the first column -/

theorem mapM_length {α β} (g : α → Option β) (l : List α) (xs : List β) (h : l.mapM g = some xs) : xs.length = l.length := by
  have := (C12Infer.mapM_eq_some_iff g l xs).mp h
  exact (C12Infer.forall₂_iff_get.mp this).1.symm

theorem csvColumn_size (po : ParseOracle) (cfg : CsvCfg) (name : Bytes) (cells : List Bytes) (c : LCol)
    (h : (csvColumn po cfg name cells).1 = some c) : c.cells.size = cells.length := by
  unfold csvColumn at h
  have hmk : ∀ (ty : CType) (cs : List Cell), cs.length = cells.length →
      (some ({ name := name, ty := ty, cells := cs.toArray } : LCol)) = some c → c.cells.size = cells.length := by
    intro ty cs hl he; injection he with he; subst he; simpa using hl
  have hbind : ∀ (ty : CType) (o : Option (List Cell)), (∀ cs, o = some cs → cs.length = cells.length) →
      (o.bind fun cs => some ({ name := name, ty := ty, cells := cs.toArray } : LCol)) = some c → c.cells.size = cells.length := by
    intro ty o ho he
    cases o with
    | none => simp at he
    | some cs => exact hmk ty cs (ho cs rfl) he
  have hI := fun cs => mapM_length (fun c => (po.atoi c).map Cell.int) cells cs
  have hF := fun cs => mapM_length (fun c => if c.isEmpty then some (Cell.float F64.canonNaN) else (po.pfloat c).map Cell.float) cells cs
  have hB := fun cs => mapM_length (fun c => (po.pbool c).map Cell.bool) cells cs
  have hS : (cells.map (fun c => if c.isEmpty && cfg.emptyNull then Cell.str none else Cell.str (some c))).length = cells.length := by simp
  simp only [] at h
  split at h
  all_goals try dsimp only at h
  all_goals first
    | exact hbind _ _ hI h
    | exact hbind _ _ hF h
    | exact hbind _ _ hB h
    | exact hmk _ _ hS h
    | (cases h; done)
    | skip
  all_goals first
    | (split at h
       · rename_i he
         have : cells = [] := List.isEmpty_iff.mp he
         subst this
         injection h with h; subst h; rfl
       · split at h
         · rename_i cs hcs; exact hmk _ cs (hI cs hcs) h
         · split at h
           · rename_i cs hcs; exact hmk _ cs (hF cs hcs) h
           · split at h
             · rename_i cs hcs; exact hmk _ cs (hB cs hcs) h
             · exact hmk _ _ hS h)
    | (split at h
       · injection h with h; subst h; simp
       · cases h)

/-- in `csvGlueS` the number of rows is the length of the first column, as soon as there is a column -/
theorem csvGlueS_rowCount (po : ParseOracle) (cfg : CsvCfg) (recs : List (List Bytes)) (hne : ∀ r ∈ recs, r ≠ [])
    (hs : List Bytes) (cols : List LCol) (n : Nat) (h : csvGlueS po cfg recs = some (hs, cols, n)) : rowCount cols = n := by
  have tail : ∀ (headers : List Bytes) (body : List (List Bytes)), headers ≠ [] →
      (match readCsvS.rows cfg headers [] body with
        | none => none
        | some data =>
          let headers := if cfg.«alias».isEmpty then headers else headers.map (fun h => if h.isEmpty then cfg.«alias» else h)
          let headers := if cfg.rename then renameDup headers else headers
          let cols := (List.range headers.length).map (fun i => csvColumn po cfg (headers[i]!) (data.map (fun r => r[i]!)))
          if cols.any (fun c => c.1.isNone) then none else
          let usedEnums := (List.zip headers cols).filterMap (fun (h, c) => if c.2 then some h else none)
          if !(cfg.enums.all (fun e => usedEnums.contains e.1)) then none else
          if headers.eraseDups.length != headers.length then none else
          some (headers, cols.filterMap (·.1), data.length) : Option (List Bytes × List LCol × Nat)) = some (hs, cols, n) →
      rowCount cols = n := by
    intro headers body hh hm
    cases hr : readCsvS.rows cfg headers [] body with
    | none => rw [hr] at hm; cases hm
    | some data =>
      rw [hr] at hm
      simp only [] at hm
      generalize hh1 : (if cfg.«alias».isEmpty then headers else headers.map (fun h => if h.isEmpty then cfg.«alias» else h)) = hs1 at hm
      generalize hh2 : (if cfg.rename then renameDup hs1 else hs1) = hs2 at hm
      have hl1 : hs1.length = headers.length := by rw [← hh1]; split <;> simp
      have hl2 : hs2.length = hs1.length := by rw [← hh2]; split <;> simp [renameDup_length]
      have hpos : 0 < hs2.length := by rw [hl2, hl1]; exact List.length_pos_iff.mpr hh
      split at hm
      · cases hm
      · rename_i hany
        split at hm
        · cases hm
        · split at hm
          · cases hm
          · injection hm with hm
            injection hm with _ hm
            injection hm with hc hn
            subst hc; subst hn
            obtain ⟨m, hm⟩ : ∃ m, hs2.length = m + 1 := ⟨hs2.length - 1, by omega⟩
            rw [hm, List.range_succ_eq_map] at hany ⊢
            simp only [List.map_cons, List.any_cons, Bool.or_eq_true, not_or] at hany
            simp only [List.map_cons, List.filterMap_cons]
            cases hc0 : (csvColumn po cfg hs2[0]! (data.map fun r => r[0]!)).1 with
            | none => rw [hc0] at hany; simp at hany
            | some c0 =>
              simp only [rowCount]
              rw [csvColumn_size po cfg _ _ c0 hc0]
              simp
  unfold csvGlueS at h
  simp only [] at h
  by_cases he : cfg.headers.isEmpty = true
  · simp only [he, ↓reduceIte] at h
    cases recs with
    | nil => cases h
    | cons h0 rest => exact tail h0 rest (hne h0 (by simp)) h
  · simp only [he, Bool.false_eq_true, ↓reduceIte] at h
    exact tail cfg.headers recs (fun hh => he (by simp [hh])) h

/-! ### the statement -/

/-- **(b) ReadCSV, end to end.** For every RFC 4180 document (`RfcDoc`: rendered from rows, any admissible quoting choice,
line breaks and CR LF inside quoted fields, rows ended by LF or CR LF, with or without the final line break, a trailing
delimiter included), every
delimiter other than `"`, LF, CR, every read schedule with reads ≥ 1, every buffer capacity, EOF reported with or after
the last data, every configuration (headers, types, enum values, EmptyNull, IgnoreEmptyLines, RenameDuplicateColumns,
MissingColumnNameAlias, RowCountHint) and every parse oracle: today's fastcsv reader composed with today's glue, type
inference, root entry and name check has a meaning and returns exactly what the specification says — `readCsvS po cfg doc`:
an error, or the frame. -/
theorem gen_readcsv_end_to_end (po : ParseOracle) (cfg : CsvCfg) (hintBig : Bool) (cap : Nat) (eofWD : Bool)
    (hd : cfg.delim ≠ 34 ∧ cfg.delim ≠ 10 ∧ cfg.delim ≠ 13)
    (doc : List Csv.Byte) (table : List (List (List Csv.Byte))) (hdoc : RfcDoc cfg.delim doc table)
    (sched : List Nat) (hs : ∀ k ∈ sched, 1 ≤ k) :
    genReadCsvFrame po cfg hintBig cap eofWD doc sched = some (readCsvS po cfg doc) := by
  obtain ⟨r, hr⟩ := hdoc.gen_read hd sched cap eofWD false hs
  have hparse := hdoc.parse hd
  have hglue := gen_csvglue_semantics po cfg hintBig table
  unfold genReadCsvFrame genReadCsvBytes
  rw [hr]
  simp only []
  have hfe : ((some Csv.RErr.eof : Option Csv.RErr) == some Csv.RErr.fail) = false := by decide
  rw [hfe]
  cases hg : genReadCsv po cfg hintBig (table.map fun r => (r, false)) false with
  | none => rw [hg] at hglue; simp at hglue
  | some x =>
    rw [hg] at hglue
    simp only [Option.map_some, Option.some.injEq] at hglue
    simp only [Option.bind_some]
    rw [hglue, gen_readcsv_entry, readCsvS_eq, hparse]
    congr 1
    cases hc : csvGlueS po cfg table with
    | none => rfl
    | some y =>
      obtain ⟨hs', cols, n⟩ := y
      simp only [Option.map_some]
      rw [newFrame_eq, csvGlueS_rowCount po cfg table hdoc.nonempty hs' cols n hc]

/-- **… independent of the fragmentation**, of the capacity of the buffer and of the EOF mode. -/
theorem gen_readcsv_schedule_independent (po : ParseOracle) (cfg : CsvCfg) (hintBig : Bool) (cap1 cap2 : Nat) (e1 e2 : Bool)
    (hd : cfg.delim ≠ 34 ∧ cfg.delim ≠ 10 ∧ cfg.delim ≠ 13)
    (doc : List Csv.Byte) (table : List (List (List Csv.Byte))) (hdoc : RfcDoc cfg.delim doc table)
    (s1 s2 : List Nat) (h1 : ∀ k ∈ s1, 1 ≤ k) (h2 : ∀ k ∈ s2, 1 ≤ k) :
    genReadCsvFrame po cfg hintBig cap1 e1 doc s1 = genReadCsvFrame po cfg hintBig cap2 e2 doc s2 := by
  rw [gen_readcsv_end_to_end po cfg hintBig cap1 e1 hd doc table hdoc s1 h1,
    gen_readcsv_end_to_end po cfg hintBig cap2 e2 hd doc table hdoc s2 h2]

/-! ## The hypotheses are satisfiable -/

/-- `"a␍⏎b",c⏎"␍x","␍⏎"⏎` (CR LF and a bare CR inside quoted fields) is an RFC 4180 document … -/
theorem demoCR_doc : RfcDoc 44 (renderDoc 44 demoCR) (demoCR.map (·.map (·.2))) := .lf demoCR demoCR_ok

/-- `a,"b␍⏎b"␍⏎"c",d␍⏎,⏎"x"␍⏎`: rows ended by CR LF (after unquoted and after quoted fields) and by LF -/
theorem demoT_doc : RfcDoc 44 (renderDocT 44 demoT) (demoT.map (·.1.map (·.2))) := .closed demoT demoT_ok

/-- … and so is `a,⏎"b",` — no final line break, a trailing delimiter -/
theorem demoOpen_doc : RfcDoc 44 (renderDoc 44 [[(false, [97]), (false, [])]] ++ renderFields 44 [(true, [98]), (false, [])])
    ([[[97], []]] ++ [[[98], []]]) :=
  .lf_open [[(false, [97]), (false, [])]] [(true, [98]), (false, [])]
    (by
      intro r hr
      simp only [List.cons_append, List.nil_append, List.mem_cons, List.not_mem_nil, or_false] at hr
      rcases hr with rfl | rfl <;> exact ⟨by decide, by decide, by decide⟩)
    (by decide)

/-- read three bytes, then one, two, one, … at a time, default configuration, any oracle: the composition is the spec -/
example (po : ParseOracle) : genReadCsvFrame po {} false 1024 false (renderDoc 44 demoCR) [3, 1, 2, 1] =
    some (readCsvS po {} (renderDoc 44 demoCR)) :=
  gen_readcsv_end_to_end po {} false 1024 false (by decide) _ _ demoCR_doc _ (by decide)

/-- one byte at a time into a 4-byte buffer, EOF together with the last byte, headers supplied, IgnoreEmptyLines -/
example (po : ParseOracle) :
    genReadCsvFrame po { headers := [[120], [121]], ignoreEmpty := true } true 4 true
      (renderDoc 44 [[(false, [97]), (false, [])]] ++ renderFields 44 [(true, [98]), (false, [])]) (List.replicate 40 1) =
    some (readCsvS po { headers := [[120], [121]], ignoreEmpty := true }
      (renderDoc 44 [[(false, [97]), (false, [])]] ++ renderFields 44 [(true, [98]), (false, [])])) :=
  gen_readcsv_end_to_end po _ true 4 true (by decide) _ _ demoOpen_doc _ (by decide)

/-- rows ended by CR LF, read two bytes at a time, with the types of both columns declared -/
example (po : ParseOracle) :
    genReadCsvFrame po { types := [([97], "string"), ([98, 13, 10, 98], "string")] } false 8 false (renderDocT 44 demoT)
      (List.replicate 30 2) =
    some (readCsvS po { types := [([97], "string"), ([98, 13, 10, 98], "string")] } (renderDocT 44 demoT)) :=
  gen_readcsv_end_to_end po _ false 8 false (by decide) _ _ demoT_doc _ (by decide)

example : ∃ res, Full.readAll 44 (C12CsvGen.docEscaped.length + 2) (C12CsvGen.docEscaped.length + 1) (Full.initFS C12CsvGen.docEscaped [2, 5]) [] = some res ∧
    rowsErrOf (CR.readAll Gen.csvFns C12CsvGen.docEscaped [1, 1, 1, 1, 1, 1, 1, 1] 44 4 none false false) = some (res.1, cv res.2) :=
  gen_csv_eq_full _ _ _ _ _ _ _ (by decide)

#print axioms csv_eq_full_loaded
#print axioms csv_eq_full
#print axioms csv_eq_full_total
#print axioms gen_csv_eq_full
#print axioms gen_csv_schedule_independent
#print axioms RfcDoc.csv_read
#print axioms RfcDoc.gen_read
#print axioms csvGlueS_rowCount
#print axioms gen_readcsv_end_to_end
#print axioms gen_readcsv_schedule_independent

end QF.Props.C12EndToEnd
