import QF.Gen.EnumRest
import QF.Core.Small
import QF.Core.KExpr
import QF.Props.C17Factory
/-!
# C17 — the rest of internal/ecolumn of today's source: bitset, `isNull`, `compVal`, `subset`, and `New` / `NewConst` (tie T1)

`QF.Gen.bitsetSet`, `bitsetIsSet`, `enumIsNull`, `enumCompVal`, `enumSubset`, `enumSubsetExported`, `enumCodeBits`,
`bitsetWords`, `bitsetWordBits` (regenerated on every run by go/cmd/extract/ecast.go) hold `bitset.set`, `bitset.isSet`
(bitset.go), `enumVal.isNull`, `enumVal.compVal`, `Column.subset`, `Column.Subset` (column.go) as terms of `QF.ER`
(QF/Core/EnumRest.lean), the constants `maxCardinality` / `nullValue` replaced by their values and the widths of the types
`enumVal` (`uint8`) and `bitset` (`[4]uint64`) read from their declarations.

* `gen_enumrest_no_opaque`, `gen_enumrest_canon` — today's extraction is complete and equal to the canonical terms (`decide`).
* `gen_enum_widths`          — a code has 8 bits, the bitset has 4 × 64 = 2^8 bits: one for every code; the null code 255 fits.
* `gen_bitset_semantics`     — for every bitset and every code below 256, the regenerated `set` / `isSet`, run with Go's
                               arithmetic, are the hand mirror `Small.bsSet` / `Small.bsIsSet`, and never index outside the array.
* `gen_bitset_spec`          — hence `isSet (set s v) w ⇔ w = v ∨ isSet s w` for the regenerated methods (`C17.bitset_spec`).
* `gen_isnull_semantics`, `gen_compval_semantics` — `isNull` tests for 255; `compVal` is -1 for the null code and the code
                               itself otherwise (the meaning `KE.eval` gives `compVal()` in the filter kernels).
* `gen_enum_subset_semantics`— `subset(index)` / `Subset(index)` return a column whose cells are a NEW array holding exactly
                               the codes at the rows of the index, in the order of the index (a row outside the column is a
                               panic), with the receiver's value table and strict flag.
* `gen_enum_new_semantics`   — `New` / `NewConst` run through the regenerated factory are `mkEnum` (C17Factory), and the code
                               the factory appends for a null cell is the one `isNull` and `compVal` test for.
* witnesses: `>> 5` for `>> 6`, a 32-bit shift, `<` for `==` in `compVal`, the position instead of the row in `subset`, the
  receiver's array returned.
-/
namespace QF.Props.C17EnumRestGen
open QF QF.ER

/-! ## Canonical terms -/

/-- `val>>6` -/
def wIx : W := .shr .code (.lit 6)
/-- `1 << (val & 0x3F)` in `uint64` -/
def wBit : W := .shl 64 (.lit 1) (.band .code (.lit 63))

/-- `s[val>>6] |= 1 << (val & 0x3F)` -/
def canonSet : List BS := [.store wIx (.bor (.word wIx) wBit)]
/-- `return s[val>>6]&(1<<(val&0x3F)) > 0` -/
def canonIsSet : List BS := [.retCmp .gt (.band (.word wIx) wBit) (.lit 0)]
/-- `return v == nullValue` -/
def canonIsNull : List BS := [.retCmp .eq .code (.lit 255)]
/-- `if v == nullValue { return -1 }; return int(v)` -/
def canonCompVal : CV := .ifCode .eq 255 (.retInt (-1)) .retCode
/-- `data := make([]enumVal, 0, len(index)); for _, ix := range index { data = append(data, c.data[ix]) };
return Column{data: data, values: c.values, strict: c.strict}` -/
def canonSubset : List SS := [.makeCells .zero, .rangeAppend .cellAtVal, .ret .fresh .recvValues .recvStrict]
/-- `return c.subset(index)` -/
def canonSubsetExported : List SS := [.retSubset]

theorem gen_enumrest_canon :
    Gen.bitsetSet = canonSet ∧ Gen.bitsetIsSet = canonIsSet ∧ Gen.enumIsNull = canonIsNull ∧
    Gen.enumCompVal = canonCompVal ∧ Gen.enumSubset = canonSubset ∧ Gen.enumSubsetExported = canonSubsetExported ∧
    Gen.enumCodeBits = 8 ∧ Gen.bitsetWords = 4 ∧ Gen.bitsetWordBits = 64 := by decide

theorem gen_enumrest_no_opaque :
    (∀ s ∈ Gen.bitsetSet, s.hasOpaque = false) ∧ (∀ s ∈ Gen.bitsetIsSet, s.hasOpaque = false) ∧
    (∀ s ∈ Gen.enumIsNull, s.hasOpaque = false) ∧ Gen.enumCompVal.hasOpaque = false ∧
    (∀ s ∈ Gen.enumSubset, s.hasOpaque = false) ∧ (∀ s ∈ Gen.enumSubsetExported, s.hasOpaque = false) := by decide

/-- **The widths of today's types**: the bitset has exactly one bit per code (`bitsetWords × bitsetWordBits = 2^enumCodeBits`),
and the null code the terms test for is a code. -/
theorem gen_enum_widths :
    Gen.bitsetWords * Gen.bitsetWordBits = 2 ^ Gen.enumCodeBits ∧ 255 < 2 ^ Gen.enumCodeBits := by decide

/-! ## Today's methods, run -/

/-- the array of a bitset of the hand mirror -/
def toWords (s : Small.BitSet) : List Nat := [s.1, s.2.1, s.2.2.1, s.2.2.2]

/-- `s.set(v)` of today's source: the array afterwards -/
def genSet (words : List Nat) (v : Nat) : Option (List Nat) := (BS.run v Gen.bitsetSet words).map (·.1)
/-- `s.isSet(v)` of today's source -/
def genIsSet (words : List Nat) (v : Nat) : Option Bool := (BS.run v Gen.bitsetIsSet words).bind (·.2)
/-- `v.isNull()` of today's source -/
def genIsNull (v : Nat) : Option Bool := (BS.run v Gen.enumIsNull []).bind (·.2)
/-- `v.compVal()` of today's source -/
def genCompVal (v : Nat) : Option Int := Gen.enumCompVal.run v
/-- `c.subset(index)` of today's source -/
def genSubset (c : Col) (index : List Nat) : Option SubOut := SS.run c index Gen.enumSubset none
/-- `c.Subset(index)` of today's source -/
def genSubsetExported (c : Col) (index : List Nat) : Option SubOut :=
  SS.runExported c index Gen.enumSubset Gen.enumSubsetExported

/-! ## The bitset -/

theorem toWords_get (s : Small.BitSet) (k : Nat) (hk : k < 4) : (toWords s)[k]? = some (Small.word s k) := by
  have : k = 0 ∨ k = 1 ∨ k = 2 ∨ k = 3 := by omega
  rcases this with rfl | rfl | rfl | rfl <;> rfl

theorem toWords_set (s : Small.BitSet) (k w : Nat) (hk : k < 4) : (toWords s).set k w = toWords (Small.setWord s k w) := by
  have : k = 0 ∨ k = 1 ∨ k = 2 ∨ k = 3 := by omega
  rcases this with rfl | rfl | rfl | rfl <;> rfl

theorem shr6_lt (v : Nat) (hv : v < 256) : v >>> 6 < 4 := by rw [Nat.shiftRight_eq_div_pow]; omega

theorem bit_mod (v : Nat) : (1 <<< (v &&& 63)) % 2 ^ 64 = 1 <<< (v &&& 63) := by
  have h : v &&& 63 ≤ 63 := Nat.and_le_right
  rw [Nat.one_shiftLeft]
  exact Nat.mod_eq_of_lt (Nat.pow_lt_pow_right (by omega) (by omega))

theorem wIx_eval (words : List Nat) (v : Nat) : wIx.eval words v = some (v >>> 6) := rfl

theorem wBit_eval (words : List Nat) (v : Nat) : wBit.eval words v = some (1 <<< (v &&& 63)) := by
  simp only [wBit, W.eval, bit_mod]

theorem canon_set_run (s : Small.BitSet) (v : Nat) (hv : v < 256) :
    BS.run v canonSet (toWords s) = some (toWords (Small.bsSet s v), none) := by
  have hk := shr6_lt v hv
  have hlen : v >>> 6 < (toWords s).length := hk
  simp only [canonSet, BS.run, W.eval, wIx_eval, wBit_eval, toWords_get s _ hk, hlen, if_true, toWords_set s _ _ hk]
  rfl

theorem canon_isSet_run (s : Small.BitSet) (v : Nat) (hv : v < 256) :
    BS.run v canonIsSet (toWords s) = some (toWords s, some (Small.bsIsSet s v)) := by
  have hk := shr6_lt v hv
  simp only [canonIsSet, BS.run, W.eval, wIx_eval, wBit_eval, toWords_get s _ hk, Cmp.eval, Small.bsIsSet]
  congr 2
  by_cases h : Small.word s (v >>> 6) &&& 1 <<< (v &&& 63) = 0
  · simp [h]
  · have : Small.word s (v >>> 6) &&& 1 <<< (v &&& 63) > 0 := by omega
    simp [h, this]

/-- **The bitset of today's source is the hand mirror.** For every bitset `s` and every code `v < 256` (every `enumVal`),
`s.set(v)` as regenerated and run with Go's arithmetic — the index `v>>6` (always inside the 4-word array), the bit
`1 << (v & 0x3F)` taken in `uint64` — leaves the array of `Small.bsSet s v`, and `s.isSet(v)` returns `Small.bsIsSet s v`
and leaves the array alone. -/
theorem gen_bitset_semantics (s : Small.BitSet) (v : Nat) (hv : v < 256) :
    genSet (toWords s) v = some (toWords (Small.bsSet s v)) ∧
    genIsSet (toWords s) v = some (Small.bsIsSet s v) ∧
    (BS.run v Gen.bitsetIsSet (toWords s)).map (·.1) = some (toWords s) := by
  unfold genSet genIsSet
  rw [gen_enumrest_canon.1, gen_enumrest_canon.2.1, canon_set_run s v hv, canon_isSet_run s v hv]
  exact ⟨rfl, rfl, rfl⟩

/-- **C17 for today's code**: `isSet (set s v) w ⇔ w = v ∨ isSet s w` for the regenerated methods, all codes `v`, `w`. -/
theorem gen_bitset_spec (s : Small.BitSet) (v w : Nat) (hv : v < 256) (hw : w < 256) :
    ∃ words', genSet (toWords s) v = some words' ∧
      genIsSet words' w = (genIsSet (toWords s) w).map (fun b => decide (w = v) || b) := by
  refine ⟨_, (gen_bitset_semantics s v hv).1, ?_⟩
  rw [(gen_bitset_semantics (Small.bsSet s v) w hw).2.1, (gen_bitset_semantics s w hw).2.1,
    Small.bitset_spec s v w hv hw]
  rfl

/-! ## `isNull`, `compVal` -/

theorem gen_isnull_semantics (v : Nat) : genIsNull v = some (v == 255) := by
  unfold genIsNull
  rw [gen_enumrest_canon.2.2.1]
  rfl

/-- **`compVal` of today's source**: -1 for the null code 255, the code itself otherwise — what `KE.eval` takes `compVal()`
to mean in the enum kernels (QF/Core/KExpr.lean). -/
theorem gen_compval_semantics (v : Nat) :
    genCompVal v = some (if v = QF.enumNull then -1 else (v : Int)) := by
  unfold genCompVal
  rw [gen_enumrest_canon.2.2.2.1]
  simp only [canonCompVal, CV.run, Cmp.eval, QF.enumNull]
  by_cases h : v = 255 <;> simp [h]

/-- … so null is below every value, and the order of two values is the order of their codes. -/
theorem gen_compval_order (v w : Nat) (hv : v < 255) (hw : w < 255) :
    ∃ a b n : Int, genCompVal v = some a ∧ genCompVal w = some b ∧ genCompVal 255 = some n ∧
      n < a ∧ (a < b ↔ v < w) ∧ (a = b ↔ v = w) := by
  refine ⟨_, _, _, gen_compval_semantics v, gen_compval_semantics w, gen_compval_semantics 255, ?_⟩
  have h1 : ¬ v = 255 := by omega
  have h2 : ¬ w = 255 := by omega
  simp only [QF.enumNull, h1, h2, if_false, if_true]
  omega

/-! ## `subset` -/

/-- the codes at the rows of an index; `none` when a row is outside the column (a Go panic) -/
def gather (cells : List Nat) : List Nat → Option (List Nat)
  | [] => some []
  | ix :: rest =>
    match cells[ix]?, gather cells rest with
    | some x, some r => some (x :: r)
    | _, _ => none

theorem appendLoop_gather (c : Col) (index : List Nat) :
    ∀ (i : Nat) (data : List Nat), appendLoop c .cellAtVal i index data = (gather c.cells index).map (data ++ ·) := by
  induction index with
  | nil => intro i data; simp [appendLoop, gather]
  | cons ix rest ih =>
    intro i data
    simp only [appendLoop, SE.eval, gather]
    cases hx : c.cells[ix]? with
    | none => rfl
    | some x =>
      simp only [ih]
      cases gather c.cells rest with
      | none => rfl
      | some r => simp

theorem canon_subset_run (c : Col) (index : List Nat) :
    SS.run c index canonSubset none =
      (gather c.cells index).map fun d => { col := { cells := d, values := c.values, strict := c.strict }, freshCells := true } := by
  simp only [canonSubset, SS.run, appendLoop_gather]
  cases gather c.cells index with
  | none => rfl
  | some d => simp

theorem gather_length {cells index d : List Nat} (h : gather cells index = some d) : d.length = index.length := by
  induction index generalizing d with
  | nil => simp only [gather, Option.some.injEq] at h; subst h; rfl
  | cons ix rest ih =>
    simp only [gather] at h
    cases hx : cells[ix]? with
    | none => rw [hx] at h; cases h
    | some x =>
      cases hr : gather cells rest with
      | none => rw [hx, hr] at h; cases h
      | some r =>
        rw [hx, hr] at h
        simp only [Option.some.injEq] at h
        subst h
        simp [ih hr]

theorem gather_get {cells index d : List Nat} (h : gather cells index = some d) (i : Nat) (hi : i < index.length) :
    d[i]? = cells[index[i]]? := by
  induction index generalizing d i with
  | nil => simp at hi
  | cons ix rest ih =>
    simp only [gather] at h
    cases hx : cells[ix]? with
    | none => rw [hx] at h; cases h
    | some x =>
      cases hr : gather cells rest with
      | none => rw [hx, hr] at h; cases h
      | some r =>
        rw [hx, hr] at h
        simp only [Option.some.injEq] at h
        subst h
        cases i with
        | zero => simp [hx]
        | succ j =>
          simp only [List.getElem?_cons_succ, List.getElem_cons_succ]
          exact ih hr j (by simpa using hi)

theorem gather_none_iff (cells index : List Nat) : gather cells index = none ↔ ∃ ix ∈ index, cells.length ≤ ix := by
  induction index with
  | nil => simp [gather]
  | cons ix rest ih =>
    simp only [gather, List.mem_cons, exists_eq_or_imp]
    cases hx : cells[ix]? with
    | none =>
      have : cells.length ≤ ix := by
        rcases Nat.lt_or_ge ix cells.length with h | h
        · rw [List.getElem?_eq_getElem h] at hx; cases hx
        · exact h
      simp [this]
    | some x =>
      have hlt : ix < cells.length := by
        rcases Nat.lt_or_ge ix cells.length with h | h
        · exact h
        · rw [List.getElem?_eq_none h] at hx; cases hx
      cases hr : gather cells rest with
      | none =>
        have := ih.1 hr
        simp [this]
      | some r =>
        have hn : ¬ ∃ ix ∈ rest, cells.length ≤ ix := fun h => by have := ih.2 h; rw [hr] at this; cases this
        simp only [false_iff, not_or, reduceCtorEq]
        exact ⟨by omega, hn⟩

/-- **`subset` / `Subset` of today's source.** For every enum column and every index: the call panics exactly when a row of
the index is outside the column; otherwise it returns a column whose cells are the slice made inside the function (not the
receiver's array: `freshCells`), of the length of the index, holding at position `i` exactly the code of row `index[i]`, and
whose value table and strict flag are the receiver's. The exported `Subset` is the same function. -/
theorem gen_enum_subset_semantics (c : Col) (index : List Nat) :
    genSubsetExported c index = genSubset c index ∧
    (genSubset c index = none ↔ ∃ ix ∈ index, c.cells.length ≤ ix) ∧
    (∀ out, genSubset c index = some out →
      out.freshCells = true ∧ out.col.values = c.values ∧ out.col.strict = c.strict ∧
      out.col.cells.length = index.length ∧ ∀ i (hi : i < index.length), out.col.cells[i]? = c.cells[index[i]]?) := by
  obtain ⟨_, _, _, _, c5, c6, _⟩ := gen_enumrest_canon
  unfold genSubsetExported genSubset
  rw [c5, c6]
  refine ⟨rfl, ?_, ?_⟩
  · rw [canon_subset_run, ← gather_none_iff]
    cases gather c.cells index <;> simp
  · intro out h
    rw [canon_subset_run] at h
    cases hg : gather c.cells index with
    | none => rw [hg] at h; cases h
    | some d =>
      rw [hg] at h
      simp only [Option.map_some, Option.some.injEq] at h
      subst h
      exact ⟨rfl, rfl, rfl, gather_length hg, fun i hi => gather_get hg i hi⟩

/-! ## `New` / `NewConst` -/

open QF.Props.C17Enum QF.Props.C17Factory in
/-- **`ecolumn.New` / `ecolumn.NewConst` of today's source, through the regenerated factory, are `mkEnum`** (the statements
of `C17Factory.gen_factory_semantics` / `gen_factory_const_semantics`, whose terms east.go regenerates on every run):
`New(cells, declared)` fails iff `mkEnum` does — more than 255 declared values, an undeclared value under a declaration
(strict), a 256th distinct value without one — and otherwise the value list is the declaration in its order, or the
distinct values in order of first appearance (`mkEnum`, `C17Enum.mkEnum_derived`), every cell's code decodes to the cell
and for a duplicate-free declaration is its rank; `NewConst(val, n, declared)` gives `n` cells of the one code of `val`
(the null code for a nil `val`). And the code the factory appends for a null cell is the code the regenerated `isNull`
answers true for and `compVal` maps to -1; no other code below it is null. -/
theorem gen_enum_new_semantics (declared : List Bytes) :
    (∀ cells : List (Option Bytes),
      (mkEnum declared (cells.map cellOf) = none → genNew declared cells = .err) ∧
      (∀ vals strict, mkEnum declared (cells.map cellOf) = some (vals, strict) →
        ∃ σ, genNew declared cells = .ok σ ∧ σ.values = vals ∧ σ.strict = strict ∧
          Forall2 (CodeOk vals) cells σ.data ∧ (declared.Nodup → Forall2 (RankOk vals) cells σ.data))) ∧
    (∀ (val : Option Bytes) (count : Nat),
      (mkEnum declared (cellOf val :: List.replicate count (cellOf val)) = none → genNewConst declared val count = .err) ∧
      (∀ vals strict, mkEnum declared (cellOf val :: List.replicate count (cellOf val)) = some (vals, strict) →
        ∃ σ code, genNewConst declared val count = .ok σ ∧ σ.values = vals ∧ σ.strict = strict ∧
          σ.data = List.replicate count code ∧ CodeOk vals val code ∧ (declared.Nodup → RankOk vals val code))) ∧
    (∀ σ : FState, ∃ nullCode, genStepNil.run {} σ = .ok (σ.pushCode nullCode) ∧
      genIsNull nullCode = some true ∧ genCompVal nullCode = some (-1) ∧
      ∀ code, code < nullCode → genIsNull code = some false ∧ genCompVal code = some (code : Int)) := by
  refine ⟨fun cells => gen_factory_semantics declared cells, fun val count => gen_factory_const_semantics declared val count, ?_⟩
  intro σ
  refine ⟨255, (gen_factory_step σ).1, by rw [gen_isnull_semantics]; rfl, by rw [gen_compval_semantics]; rfl, ?_⟩
  intro code hc
  rw [gen_isnull_semantics, gen_compval_semantics]
  have h : ¬ code = QF.enumNull := by unfold QF.enumNull; omega
  have h' : (code == 255) = false := by simp; omega
  simp [h, h']

/-! ## Witnesses: plausible mutations are different terms and violate the statements -/

section Witnesses

def runSet (body : List BS) (s : Small.BitSet) (v : Nat) : Option (List Nat) := (BS.run v body (toWords s)).map (·.1)
def runIsSet (body : List BS) (words : List Nat) (v : Nat) : Option Bool := (BS.run v body words).bind (·.2)

/-- `s[val>>5] |= …`: the word index `>> 5` for `>> 6` -/
def setShr5 : List BS :=
  [.store (.shr .code (.lit 5)) (.bor (.word (.shr .code (.lit 5))) wBit)]
example : setShr5 ≠ canonSet := by decide
/-- … the code 64 lands in word 2 instead of word 1, so `isSet` does not find it, -/
example : runSet setShr5 (0, 0, 0, 0) 64 = some [0, 0, 1, 0] ∧ runSet canonSet (0, 0, 0, 0) 64 = some [0, 1, 0, 0] ∧
    runIsSet canonIsSet [0, 0, 1, 0] 64 = some false := by decide
/-- … and the code 128 indexes word 4 of a 4-word array: a panic. -/
example : runSet setShr5 (0, 0, 0, 0) 128 = none := by decide

/-- the bit taken in a 32-bit type: `uint32(1) << (val & 0x3F)` widened -/
def setBit32 : List BS := [.store wIx (.bor (.word wIx) (.shl 32 (.lit 1) (.band .code (.lit 63))))]
example : setBit32 ≠ canonSet := by decide
/-- … the code 40 sets no bit at all -/
example : runSet setBit32 (0, 0, 0, 0) 40 = some [0, 0, 0, 0] ∧ runSet canonSet (0, 0, 0, 0) 40 = some [2 ^ 40, 0, 0, 0] := by
  decide

/-- `&` with `0x1F`: codes 32 apart share a bit -/
def isSetMask1F : List BS :=
  [.retCmp .gt (.band (.word wIx) (.shl 64 (.lit 1) (.band .code (.lit 31)))) (.lit 0)]
example : isSetMask1F ≠ canonIsSet := by decide
example : runIsSet isSetMask1F [1, 0, 0, 0] 32 = some true ∧ runIsSet canonIsSet [1, 0, 0, 0] 32 = some false := by decide

/-- `if v < nullValue { return -1 }`: the null code compared with `<` instead of `==` -/
def compValLt : CV := .ifCode .lt 255 (.retInt (-1)) .retCode
example : compValLt ≠ canonCompVal := by decide
/-- … every value becomes -1 and null becomes 255: above every value -/
example : compValLt.run 3 = some (-1) ∧ compValLt.run 255 = some 255 ∧
    canonCompVal.run 3 = some 3 ∧ canonCompVal.run 255 = some (-1) := by decide

/-- `data = append(data, c.data[i])`: the position in the index instead of the row -/
def subsetByKey : List SS := [.makeCells .zero, .rangeAppend .cellAtKey, .ret .fresh .recvValues .recvStrict]
example : subsetByKey ≠ canonSubset := by decide
example : (SS.run { cells := [7, 8, 9], values := [], strict := false } [2, 0] subsetByKey none).map (·.col.cells) = some [7, 8] ∧
    (SS.run { cells := [7, 8, 9], values := [], strict := false } [2, 0] canonSubset none).map (·.col.cells) = some [9, 7] := by
  decide

/-- `return Column{data: c.data, …}`: the receiver's array handed out -/
def subsetAlias : List SS := [.makeCells .zero, .rangeAppend .cellAtVal, .ret .recvCells .recvValues .recvStrict]
example : subsetAlias ≠ canonSubset := by decide
example : (SS.run { cells := [7, 8, 9], values := [], strict := false } [2, 0] subsetAlias none).map (fun o => (o.col.cells, o.freshCells))
    = some ([7, 8, 9], false) := by decide

/-- the strict flag dropped: `Column{data: data, values: c.values}` -/
def subsetNoStrict : List SS := [.makeCells .zero, .rangeAppend .cellAtVal, .ret .fresh .recvValues .zero]
example : subsetNoStrict ≠ canonSubset := by decide
example : (SS.run { cells := [1], values := [[97]], strict := true } [0] subsetNoStrict none).map (·.col.strict) = some false := by
  decide

end Witnesses

end QF.Props.C17EnumRestGen

#print axioms QF.Props.C17EnumRestGen.gen_enumrest_canon
#print axioms QF.Props.C17EnumRestGen.gen_enumrest_no_opaque
#print axioms QF.Props.C17EnumRestGen.gen_enum_widths
#print axioms QF.Props.C17EnumRestGen.gen_bitset_semantics
#print axioms QF.Props.C17EnumRestGen.gen_bitset_spec
#print axioms QF.Props.C17EnumRestGen.gen_isnull_semantics
#print axioms QF.Props.C17EnumRestGen.gen_compval_semantics
#print axioms QF.Props.C17EnumRestGen.gen_compval_order
#print axioms QF.Props.C17EnumRestGen.gen_enum_subset_semantics
#print axioms QF.Props.C17EnumRestGen.gen_enum_new_semantics
