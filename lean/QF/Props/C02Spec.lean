import QF.Spec.Filter
/-!
# C02 — the laws of the row-wise Filter specification, proved on the spec itself

Everything here is about `QF.Spec.Filter` (`leafPred`, `Clause.sem`, `keptRows`, `filterS`) over logical
frames; no mirror model is involved.

A. Result shape: the kept rows are a sublist of `0 … n-1` (hence duplicate free and increasing), a row is kept
   iff it is a row of the frame that satisfies the clause, and the result frame has the same column names and
   types, `keptRows.length` rows, and its i-th row is the i-th kept row of the input.
B. Boolean structure: `And` = all, `Or` = any, `Not` = complement, `Null` = every row; append / permutation /
   flattening / De Morgan laws; `keptRows (.not c)` is the complement of `keptRows c` within the frame.
C. Null semantics of the comparators: whenever `cellCmp` is undefined (a null/NaN operand on either side, an
   enum cell or argument that is not in the value table, operands of different kinds) `cmp6` is `op == "!="`,
   i.e. false for every comparator except `!=`, for which it is true. `!=` is the complement of `=` on every
   pair of cells.
D. The inverse pairs `= ↦ !=`, `isnull ↦ isnotnull`, `isnotnull ↦ isnull` are semantic complements at the level
   of `leafPred`, including acceptance: if the leaf is accepted so is the leaf with the inverse comparator.
-/
namespace QF.Props.C02Spec
open QF

variable (lo : LikeOracle) (f : LFrame)

/-! ## A. Result shape -/

theorem keptRows_sublist (c : Clause) : (keptRows lo f c).Sublist (List.range f.n) := by
  unfold keptRows; exact List.filter_sublist

theorem keptRows_nodup (c : Clause) : (keptRows lo f c).Nodup :=
  (keptRows_sublist lo f c).nodup List.nodup_range

/-- The kept rows are strictly increasing: original relative order. -/
theorem keptRows_increasing (c : Clause) : (keptRows lo f c).Pairwise (· < ·) :=
  List.Pairwise.sublist (keptRows_sublist lo f c) List.pairwise_lt_range

theorem keptRows_mem (c : Clause) (r : Nat) : r ∈ keptRows lo f c ↔ r < f.n ∧ c.sem lo f r = true := by
  simp [keptRows, List.mem_filter, List.mem_range]

theorem filterS_ok_iff (c : Clause) :
    (∃ g, filterS lo f c = .ok g) ↔ c.wellFormed lo f = true := by
  unfold filterS; split <;> simp_all

theorem filterS_eq (c : Clause) (g : LFrame) (h : filterS lo f c = .ok g) :
    g = f.pick (keptRows lo f c) := by
  unfold filterS at h; split at h
  · injection h with h; exact h.symm
  · cases h

theorem filterS_columns (c : Clause) (g : LFrame) (h : filterS lo f c = .ok g) :
    g.names = f.names ∧ g.cols.map (·.ty) = f.cols.map (·.ty) ∧ g.n = (keptRows lo f c).length := by
  rw [filterS_eq lo f c g h]
  simp [LFrame.pick, LFrame.names, List.map_map, Function.comp_def]

/-- Row `i` of a picked frame is row `rs[i]` of the original, every column. -/
theorem pick_row (rs : List Nat) (i : Nat) (hi : i < rs.length) : (f.pick rs).row i = f.row rs[i] := by
  simp [LFrame.pick, LFrame.row, List.map_map, Function.comp_def, hi]

theorem filterS_rows (c : Clause) (g : LFrame) (h : filterS lo f c = .ok g) :
    g.rows = (keptRows lo f c).map f.row := by
  rw [filterS_eq lo f c g h]
  apply List.ext_getElem
  · simp [LFrame.rows, LFrame.pick]
  · intro i h1 h2
    simp [LFrame.rows, LFrame.pick] at h1
    simp [LFrame.rows]
    rw [pick_row _ _ _ h1]

/-! ## B. Boolean structure -/

theorem sem_and (cs : List Clause) (r : Nat) : (Clause.and cs).sem lo f r = cs.all (fun c => c.sem lo f r) := by
  rw [Clause.sem]
  induction cs with
  | nil => simp [semAll]
  | cons c cs ih => simp [semAll, ih]

theorem sem_or (cs : List Clause) (r : Nat) : (Clause.or cs).sem lo f r = cs.any (fun c => c.sem lo f r) := by
  rw [Clause.sem]
  induction cs with
  | nil => simp [semAny]
  | cons c cs ih => simp [semAny, ih]

theorem sem_not (c : Clause) (r : Nat) : (Clause.not c).sem lo f r = !(c.sem lo f r) := by
  simp [Clause.sem]

theorem sem_null (r : Nat) : Clause.null.sem lo f r = true := by simp [Clause.sem]

theorem sem_and_perm (cs ds : List Clause) (r : Nat) (h : cs.Perm ds) :
    (Clause.and cs).sem lo f r = (Clause.and ds).sem lo f r := by
  rw [sem_and, sem_and, h.all_eq]

theorem sem_or_perm (cs ds : List Clause) (r : Nat) (h : cs.Perm ds) :
    (Clause.or cs).sem lo f r = (Clause.or ds).sem lo f r := by
  rw [sem_or, sem_or, h.any_eq]

theorem sem_and_append (cs ds : List Clause) (r : Nat) :
    (Clause.and (cs ++ ds)).sem lo f r = ((Clause.and cs).sem lo f r && (Clause.and ds).sem lo f r) := by
  simp [sem_and]
theorem sem_or_append (cs ds : List Clause) (r : Nat) :
    (Clause.or (cs ++ ds)).sem lo f r = ((Clause.or cs).sem lo f r || (Clause.or ds).sem lo f r) := by
  simp [sem_or]

theorem sem_and_flatten (cs : List Clause) (d : Clause) (r : Nat) :
    (Clause.and [Clause.and cs, d]).sem lo f r = (Clause.and (cs ++ [d])).sem lo f r := by
  simp [sem_and]
theorem sem_or_flatten (cs : List Clause) (d : Clause) (r : Nat) :
    (Clause.or [Clause.or cs, d]).sem lo f r = (Clause.or (cs ++ [d])).sem lo f r := by
  simp [sem_or]

theorem de_morgan_and (cs : List Clause) (r : Nat) :
    (Clause.not (Clause.and cs)).sem lo f r = (Clause.or (cs.map Clause.not)).sem lo f r := by
  rw [sem_not, sem_and, sem_or]
  induction cs with
  | nil => simp
  | cons c cs ih => simp [sem_not, ← ih, Bool.not_and]

theorem de_morgan_or (cs : List Clause) (r : Nat) :
    (Clause.not (Clause.or cs)).sem lo f r = (Clause.and (cs.map Clause.not)).sem lo f r := by
  rw [sem_not, sem_and, sem_or]
  induction cs with
  | nil => simp
  | cons c cs ih => simp [sem_not, ← ih, Bool.not_or]

theorem keptRows_not (c : Clause) :
    keptRows lo f (.not c) = (List.range f.n).filter (fun r => r ∉ keptRows lo f c) := by
  unfold keptRows
  apply List.filter_congr
  intro r hr
  simp [sem_not, List.mem_filter, List.mem_range] at hr ⊢
  intro h; omega

/-! ## C. Null semantics of the six comparators

`cmp6` is defined through `cellCmp`, which is `none` ("not comparable") in exactly these situations: an operand
is null (`str none`) or NaN; the column is an enum column and an operand is a non-null string that is not in the
value table; the operands are of different kinds. In all of them the result is `op == "!="`. The two theorems
`cmp6_null_left/right` hold for every `op` (the hypothesis `isOrd6 op` is not needed); the enum case is
`cmp6_enum_unknown_left/right`. -/

theorem cellCmp_null_left (c : LCol) (a b : Cell) (h : a.isNull = true) : cellCmp c a b = none := by
  cases a with
  | int v => simp [Cell.isNull] at h
  | bool v => simp [Cell.isNull] at h
  | float x =>
    simp only [Cell.isNull] at h
    cases b <;> simp [cellCmp, h]
  | str s =>
    cases s with
    | some x => simp [Cell.isNull] at h
    | none => cases b <;> simp [cellCmp]

theorem cellCmp_null_right (c : LCol) (a b : Cell) (h : b.isNull = true) : cellCmp c a b = none := by
  cases b with
  | int v => simp [Cell.isNull] at h
  | bool v => simp [Cell.isNull] at h
  | float x =>
    simp only [Cell.isNull] at h
    cases a <;> simp [cellCmp, h]
  | str s =>
    cases s with
    | some x => simp [Cell.isNull] at h
    | none => rcases a with v | v | v | _ | v <;> simp [cellCmp]

theorem cmp6_of_cellCmp_none (c : LCol) (op : String) (a b : Cell) (h : cellCmp c a b = none) :
    cmp6 c op a b = (op == "!=") := by
  simp [cmp6, h]

theorem cellCmp_enum_unknown_left (c : LCol) (x : Bytes) (b : Cell) (hty : c.ty = .enum)
    (hx : enumRank c.vals x = none) : cellCmp c (.str (some x)) b = none := by
  rcases b with v | v | v | _ | v <;> simp [cellCmp, hty, hx]

theorem cellCmp_enum_unknown_right (c : LCol) (a : Cell) (y : Bytes) (hty : c.ty = .enum)
    (hy : enumRank c.vals y = none) : cellCmp c a (.str (some y)) = none := by
  rcases a with v | v | v | _ | v <;> simp [cellCmp, hty, hy]

theorem cmp6_null_left (c : LCol) (op : String) (a b : Cell) (h : a.isNull = true) :
    cmp6 c op a b = (op == "!=") :=
  cmp6_of_cellCmp_none c op a b (cellCmp_null_left c a b h)

theorem cmp6_null_right (c : LCol) (op : String) (a b : Cell) (h : b.isNull = true) :
    cmp6 c op a b = (op == "!=") :=
  cmp6_of_cellCmp_none c op a b (cellCmp_null_right c a b h)

/-- Spelled out over the six comparators: false for `<`, `<=`, `>`, `>=`, `=`; true for `!=`. -/
theorem cmp6_null_table (c : LCol) (a b : Cell) (h : a.isNull = true ∨ b.isNull = true) :
    cmp6 c "<" a b = false ∧ cmp6 c "<=" a b = false ∧ cmp6 c ">" a b = false ∧ cmp6 c ">=" a b = false ∧
    cmp6 c "=" a b = false ∧ cmp6 c "!=" a b = true := by
  have hn : cellCmp c a b = none := by
    rcases h with h | h
    · exact cellCmp_null_left c a b h
    · exact cellCmp_null_right c a b h
  simp [cmp6_of_cellCmp_none c _ a b hn]

/-- Enum columns: a non-null cell whose value is not in the value table also compares as "none". -/
theorem cmp6_enum_unknown_left (c : LCol) (op : String) (x : Bytes) (b : Cell) (hty : c.ty = .enum)
    (hx : enumRank c.vals x = none) : cmp6 c op (.str (some x)) b = (op == "!=") :=
  cmp6_of_cellCmp_none c op _ b (cellCmp_enum_unknown_left c x b hty hx)

theorem cmp6_enum_unknown_right (c : LCol) (op : String) (a : Cell) (y : Bytes) (hty : c.ty = .enum)
    (hy : enumRank c.vals y = none) : cmp6 c op a (.str (some y)) = (op == "!=") :=
  cmp6_of_cellCmp_none c op a _ (cellCmp_enum_unknown_right c a y hty hy)

/-- Not only nulls: an enum value outside the table is not even `<=` itself. -/
example : cmp6 { name := [], ty := .enum, vals := [[1]], cells := #[] } "<=" (.str (some [2])) (.str (some [2])) = false := by
  decide
/-- Not only nulls: cells of different kinds are `!=`. -/
example : cmp6 { name := [], ty := .int, cells := #[] } "!=" (.int 1) (.float 0) = true := by decide

/-- `!=` is the complement of `=` on every pair of cells, nulls included. -/
theorem cmp6_neq_is_not_eq (c : LCol) (a b : Cell) : cmp6 c "!=" a b = !(cmp6 c "=" a b) := by
  unfold cmp6
  cases cellCmp c a b with
  | none => simp
  | some o => cases o <;> simp [ordOp]


/-- The other five are NOT complements of each other in the presence of nulls: `>` is not the complement of `<=`. -/
example : cmp6 { name := [], ty := .string, cells := #[] } ">" (.str none) (.str (some [])) = false ∧
          cmp6 { name := [], ty := .string, cells := #[] } "<=" (.str none) (.str (some [])) = false := by decide

/-! ## D. The inverse pairs are semantic complements -/

theorem leafPred_eq_neq (i : Bool) (col : Bytes) (arg : Arg) (p : Nat → Bool)
    (hl : leafPred lo f ⟨i, col, .builtin "=", arg⟩ = some p) :
    ∃ q, leafPred lo f ⟨i, col, .builtin "!=", arg⟩ = some q ∧ ∀ r, q r = !p r := by
  unfold leafPred at hl ⊢
  simp only at hl ⊢
  cases hc : f.find? col with
  | none => simp [hc] at hl
  | some c =>
    simp only [hc] at hl ⊢
    cases arg with
    | bad => simp at hl
    | nil => simp at hl
    | ints vs => simp at hl
    | strs vs => simp at hl
    | col an =>
      simp only at hl ⊢
      cases ha : f.find? an with
      | none => simp [ha] at hl
      | some ac =>
        simp only [ha] at hl ⊢
        generalize (if (c.ty == CType.int && ac.ty == CType.float) = true then (promote c, ac)
                else if (c.ty == CType.float && ac.ty == CType.int) = true then (c, promote ac) else (c, ac)) = pr at hl ⊢
        obtain ⟨c', ac'⟩ := pr
        simp only [isOrd6] at hl ⊢
        split at hl
        · simp at hl
        · split at hl
          · simp at hl
          · rename_i h1 h2
            simp at hl ⊢
            subst hl
            refine ⟨_, ⟨?_, ?_, rfl⟩, fun r => by simp [cmp6_neq_is_not_eq]⟩ <;> simp_all
    | cell k =>
      simp only at hl ⊢
      generalize c.ty = t at hl ⊢
      rcases k with v | v | v | _ | v <;> cases t <;> simp [isOrd6] at hl ⊢
      -- int/int, bool/bool, string/str: `hl : (fun r => cmp6 c "=" …) = p`
      case int.int => subst hl; simp [cmp6_neq_is_not_eq]
      case bool.bool => subst hl; simp [cmp6_neq_is_not_eq]
      case str.some.string => subst hl; simp [cmp6_neq_is_not_eq]
      case float.float =>
        obtain ⟨h1, rfl⟩ := hl
        exact ⟨_, ⟨h1, rfl⟩, fun r => by simp [cmp6_neq_is_not_eq]⟩
      case str.some.enum =>
        split at hl
        · rename_i h1
          simp at hl; subst hl; simp [h1, cmp6_neq_is_not_eq]
        · rename_i h1
          split at hl
          · simp at hl
          · rename_i h2
            -- value not in the table of a non-strict enum: `=` keeps nothing, `!=` keeps everything
            simp at hl; subst hl; simp [h1, h2]

/-- `isnull`/`isnotnull` are accepted only with a nil argument on a non-bool column. -/
theorem leafPred_nullop (i : Bool) (col : Bytes) (arg : Arg) (op : String) (p : Nat → Bool)
    (hop : op = "isnull" ∨ op = "isnotnull")
    (hl : leafPred lo f ⟨i, col, .builtin op, arg⟩ = some p) :
    ∃ c, f.find? col = some c ∧ arg = .nil ∧ c.ty ≠ .bool ∧
      p = fun r => if op = "isnull" then c.cells[r]!.isNull else !c.cells[r]!.isNull := by
  unfold leafPred at hl
  simp only at hl
  cases hc : f.find? col with
  | none => simp [hc] at hl
  | some c =>
    simp only [hc] at hl
    refine ⟨c, rfl, ?_⟩
    cases arg with
    | bad => simp at hl
    | ints vs => rcases hop with rfl | rfl <;> simp at hl
    | strs vs => rcases hop with rfl | rfl <;> simp at hl
    | nil =>
      rcases hop with rfl | rfl <;> simp at hl ⊢ <;> exact ⟨hl.1, hl.2.symm⟩
    | col an =>
      simp only at hl
      cases ha : f.find? an with
      | none => simp [ha] at hl
      | some ac =>
        simp only [ha] at hl
        generalize (if (c.ty == CType.int && ac.ty == CType.float) = true then (promote c, ac)
                else if (c.ty == CType.float && ac.ty == CType.int) = true then (c, promote ac) else (c, ac)) = pr at hl
        rcases hop with rfl | rfl <;> simp [isOrd6] at hl
    | cell k =>
      simp only at hl
      generalize c.ty = t at hl
      rcases k with v | v | v | _ | v <;> cases t <;> rcases hop with rfl | rfl <;> simp [isOrd6] at hl

/-- Conversely such a leaf is accepted, with the null test (resp. its negation) as predicate. -/
theorem leafPred_isnull (i : Bool) (col : Bytes) (c : LCol) (hc : f.find? col = some c) (hty : c.ty ≠ .bool) :
    leafPred lo f ⟨i, col, .builtin "isnull", .nil⟩ = some (fun r => c.cells[r]!.isNull) := by
  unfold leafPred; simp [hc, hty]

theorem leafPred_isnotnull (i : Bool) (col : Bytes) (c : LCol) (hc : f.find? col = some c) (hty : c.ty ≠ .bool) :
    leafPred lo f ⟨i, col, .builtin "isnotnull", .nil⟩ = some (fun r => !c.cells[r]!.isNull) := by
  unfold leafPred; simp [hc, hty]

theorem leafPred_isnull_isnotnull (i : Bool) (col : Bytes) (arg : Arg) (p : Nat → Bool)
    (hl : leafPred lo f ⟨i, col, .builtin "isnull", arg⟩ = some p) :
    ∃ q, leafPred lo f ⟨i, col, .builtin "isnotnull", arg⟩ = some q ∧ ∀ r, q r = !p r := by
  obtain ⟨c, hc, rfl, hty, rfl⟩ := leafPred_nullop lo f i col arg "isnull" p (Or.inl rfl) hl
  exact ⟨_, leafPred_isnotnull lo f i col c hc hty, fun r => by simp⟩

theorem leafPred_isnotnull_isnull (i : Bool) (col : Bytes) (arg : Arg) (p : Nat → Bool)
    (hl : leafPred lo f ⟨i, col, .builtin "isnotnull", arg⟩ = some p) :
    ∃ q, leafPred lo f ⟨i, col, .builtin "isnull", arg⟩ = some q ∧ ∀ r, q r = !p r := by
  obtain ⟨c, hc, rfl, hty, rfl⟩ := leafPred_nullop lo f i col arg "isnotnull" p (Or.inr rfl) hl
  exact ⟨_, leafPred_isnull lo f i col c hc hty, fun r => by simp⟩

/-- The pairs of `filter.Inverse` whose comparators exist in the spec (`in`/`not in` have no spec-level `not in`). -/
def inversePairs : List (String × String) :=
  [("=", "!="), ("isnull", "isnotnull"), ("isnotnull", "isnull")]

/-- D: replacing the comparator of an accepted leaf by its inverse gives an accepted leaf whose predicate is the
pointwise negation. This is what makes the inverse shortcut of the implementation sound. -/
theorem leafPred_inverse (l : Leaf) (op inv : String) (p : Nat → Bool)
    (hcmp : l.cmp = .builtin op) (hp : (op, inv) ∈ inversePairs)
    (hl : leafPred lo f l = some p) :
    ∃ q, leafPred lo f { l with cmp := .builtin inv } = some q ∧ ∀ r, q r = !p r := by
  obtain ⟨i, col, cmp, arg⟩ := l
  simp only at hcmp; subst hcmp
  simp only [inversePairs, List.mem_cons, Prod.mk.injEq, List.mem_nil_iff, or_false] at hp
  rcases hp with ⟨rfl, rfl⟩ | ⟨rfl, rfl⟩ | ⟨rfl, rfl⟩
  · exact leafPred_eq_neq lo f i col arg p hl
  · exact leafPred_isnull_isnotnull lo f i col arg p hl
  · exact leafPred_isnotnull_isnull lo f i col arg p hl

/-- Clause-level reading: an accepted leaf with the inverse comparator means `Not` of the leaf, on every row,
whatever the `inv` flag. (Hence also: inverse comparator + flipped flag = the original leaf.) -/
theorem sem_leaf_inverse (l : Leaf) (op inv : String) (r : Nat)
    (hcmp : l.cmp = .builtin op) (hp : (op, inv) ∈ inversePairs)
    (ht : (Clause.leaf l).typed lo f = true) :
    (Clause.leaf { l with cmp := .builtin inv }).sem lo f r = (Clause.not (Clause.leaf l)).sem lo f r := by
  simp only [Clause.typed] at ht
  obtain ⟨p, hl⟩ := Option.isSome_iff_exists.mp ht
  obtain ⟨q, hq, hqp⟩ := leafPred_inverse lo f l op inv p hcmp hp hl
  simp only [Clause.sem, hq, hl, hqp]
  cases l.inv <;> simp

theorem sem_leaf_inverse_flip (l : Leaf) (op inv : String) (r : Nat)
    (hcmp : l.cmp = .builtin op) (hp : (op, inv) ∈ inversePairs)
    (ht : (Clause.leaf l).typed lo f = true) :
    (Clause.leaf { l with cmp := .builtin inv, inv := !l.inv }).sem lo f r = (Clause.leaf l).sem lo f r := by
  simp only [Clause.typed] at ht
  obtain ⟨p, hl⟩ := Option.isSome_iff_exists.mp ht
  obtain ⟨q, hq, hqp⟩ := leafPred_inverse lo f l op inv p hcmp hp hl
  have hq' : leafPred lo f { l with cmp := .builtin inv, inv := !l.inv } = some q := by
    rw [← hq]; unfold leafPred; rfl
  simp only [Clause.sem, hq', hl, hqp]
  cases l.inv <;> simp

/- The statement is specific to these pairs: an ordering comparator and its arithmetic "inverse" are not
complements on a column with a null (`>` vs `<=`), see the example in section C. -/

/-! ## Concrete instances: the hypotheses are satisfiable and the laws are not vacuous -/

def lo0 : LikeOracle := ⟨fun _ _ => true, fun _ _ _ => false⟩
/-- a = [1, 2, 3] (int), b = [NaN, 0, 1] (float) -/
def f0 : LFrame :=
  { cols := [ { name := [97], ty := .int, cells := #[.int 1, .int 2, .int 3] },
              { name := [98], ty := .float, cells := #[.float F64.canonNaN, .float 0, .float 0x3ff0000000000000] } ],
    n := 3 }
def aGt1 : Leaf := ⟨false, [97], .builtin ">", .cell (.int 1)⟩
def bNull : Leaf := ⟨false, [98], .builtin "isnull", .nil⟩
def bEq0 : Leaf := ⟨false, [98], .builtin "=", .cell (.float 0)⟩
def c0 : Clause := .and [.leaf aGt1, .not (.leaf bNull)]

example : keptRows lo0 f0 c0 = [1, 2] := by decide
example : c0.wellFormed lo0 f0 = true := by decide
/-- `filterS_columns` / `filterS_rows`: the hypothesis `filterS … = .ok g` holds for a non-trivial clause. -/
example : ∃ g, filterS lo0 f0 c0 = .ok g ∧ g.n = 2 ∧ g.rows = [f0.row 1, f0.row 2] := by
  have h : filterS lo0 f0 c0 = .ok (f0.pick (keptRows lo0 f0 c0)) := by
    unfold filterS; rw [if_pos (by decide)]
  refine ⟨_, h, ?_, ?_⟩
  · rw [(filterS_columns lo0 f0 c0 _ h).2.2]; decide
  · rw [filterS_rows lo0 f0 c0 _ h]; decide
/-- `sem_and_perm`: a genuine permutation. -/
example : [Clause.leaf aGt1, .not (.leaf bNull)].Perm [.not (.leaf bNull), Clause.leaf aGt1] :=
  List.Perm.swap _ _ _
/-- `keptRows_not`: the NaN row is in the complement of `b = 0`, and it is also what `b != 0` keeps. -/
example : keptRows lo0 f0 (.leaf bEq0) = [1] ∧ keptRows lo0 f0 (.not (.leaf bEq0)) = [0, 2] ∧
    keptRows lo0 f0 (.leaf { bEq0 with cmp := .builtin "!=" }) = [0, 2] := by decide
/-- `cmp6_null_left`: a NaN cell is null. -/
example : (Cell.float F64.canonNaN).isNull = true := by decide
/-- `cmp6_enum_unknown_left`: an enum column and a value outside its table. -/
example : (⟨[], .enum, [[1]], false, #[]⟩ : LCol).ty = .enum ∧ enumRank (⟨[], .enum, [[1]], false, #[]⟩ : LCol).vals [2] = none := by
  decide
/-- `leafPred_inverse` / `sem_leaf_inverse`: accepted leaves with `=` and with `isnull`. -/
example : (leafPred lo0 f0 bEq0).isSome = true ∧ bEq0.cmp = .builtin "=" ∧ ("=", "!=") ∈ inversePairs := by
  refine ⟨by decide, rfl, by decide⟩
example : (leafPred lo0 f0 bNull).isSome = true ∧ ("isnull", "isnotnull") ∈ inversePairs := by
  refine ⟨by decide, by decide⟩
example : (Clause.leaf bEq0).typed lo0 f0 = true := by decide

end QF.Props.C02Spec

#print axioms QF.Props.C02Spec.keptRows_sublist
#print axioms QF.Props.C02Spec.keptRows_nodup
#print axioms QF.Props.C02Spec.keptRows_increasing
#print axioms QF.Props.C02Spec.keptRows_mem
#print axioms QF.Props.C02Spec.filterS_ok_iff
#print axioms QF.Props.C02Spec.filterS_columns
#print axioms QF.Props.C02Spec.filterS_rows
#print axioms QF.Props.C02Spec.sem_not
#print axioms QF.Props.C02Spec.sem_null
#print axioms QF.Props.C02Spec.sem_and
#print axioms QF.Props.C02Spec.sem_or
#print axioms QF.Props.C02Spec.sem_and_append
#print axioms QF.Props.C02Spec.sem_or_append
#print axioms QF.Props.C02Spec.sem_and_perm
#print axioms QF.Props.C02Spec.sem_or_perm
#print axioms QF.Props.C02Spec.sem_and_flatten
#print axioms QF.Props.C02Spec.sem_or_flatten
#print axioms QF.Props.C02Spec.de_morgan_and
#print axioms QF.Props.C02Spec.de_morgan_or
#print axioms QF.Props.C02Spec.keptRows_not
#print axioms QF.Props.C02Spec.cmp6_null_left
#print axioms QF.Props.C02Spec.cmp6_null_right
#print axioms QF.Props.C02Spec.cmp6_null_table
#print axioms QF.Props.C02Spec.cmp6_enum_unknown_left
#print axioms QF.Props.C02Spec.cmp6_enum_unknown_right
#print axioms QF.Props.C02Spec.cmp6_neq_is_not_eq
#print axioms QF.Props.C02Spec.leafPred_eq_neq
#print axioms QF.Props.C02Spec.leafPred_nullop
#print axioms QF.Props.C02Spec.leafPred_inverse
#print axioms QF.Props.C02Spec.sem_leaf_inverse
#print axioms QF.Props.C02Spec.sem_leaf_inverse_flip
