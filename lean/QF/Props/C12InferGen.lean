import QF.Props.C12Infer
import QF.Gen.Infer
/-!
# C12 — `columnToData` of today's source IS the mirror `columnToDataM`, hence the spec's `csvColumn` (tie T1, by semantics)

`QF.Gen.columnToDataAst` (regenerated on every run by go/cmd/extract/iast.go) holds the body of `columnToData` of
/repo/internal/io/csv.go as one term of `QF.IS` (QF/Core/IExpr.lean: its Go meaning, with the cell parsers and the enum
factory as parameters). This file proves, for the term generated TODAY:

* `gen_infer_no_opaque`          — everything was found and translated completely
* `gen_infer_canon`              — the term is the canonical one (`canon`: the zero-row test, the int / float / bool blocks
                                   with their first-failure loops, the string block, the enum block, the final error)
* `gen_columnToData_mirror`      — for every parse oracle, configuration, column name and list of cells, today's term —
                                   run with the factory mirror of C12Infer (`newFactory`, `appendNil`,
                                   `appendByteString`) — has a meaning, and it is exactly what the statement-by-statement
                                   mirror `columnToDataG` returns: an error iff it returns an error, else the same data
                                   (`[]int`, `[]float64`, `[]bool`, blob, enum column with value table, strictness and
                                   codes) and the same "an enum declaration was deleted" flag
* `gen_columnToData_semantics`   — … `= columnToDataM` (the logical column)
* `gen_columnToData_spec`        — … `= specView (csvColumn …)`, by `columnToData_eq_spec`: the declared types, the
                                   inference order int → float → bool → string, empty cells (NaN in a float column, null in
                                   a string / enum column iff `EmptyNull`), the enum declarations, the unknown-type error

No hypotheses. Witnesses at the end: plausible mutations of the term violate the statement.
-/
namespace QF.Props.C12InferGen
open QF QF.Props.C12Infer

/-! ## The canonical term -/

/-- `x, e := <parser>(cell); if e != nil { err = e; break }; acc = append(acc, x)` -/
def parseStep (p : IParser) (kind : IKind) : IS := .parse p (.ifThen .callFailed (.setErr .brk) (.append kind .done))

/-- `if err == nil { return acc, nil }; if dataType == ty { return nil, error }` -/
def accTail (ty : String) (kind : IKind) : IS := .ifThen .errNil (.retAcc kind) (.ifThen (.typeIs ty) .retErr .done)

def declared (ty : String) : IC := .or (.typeIs ty) (.typeIs "")

def intBody : IS := parseStep .atoi .int
def floatBody : IS := .ifThen .cellEmpty (.appendNaN .cont) (parseStep .float64 .float)
def boolBody : IS := parseStep .bool .bool
def strBody : IS := .ifElse (.and .cellEmpty .emptyNull) (.setPtr true .done) (.setPtr false .done) .done
def enumBody : IS :=
  .ifElse (.and .cellEmpty .emptyNull) (.facAppendNil .done) (.facAppendBytes (.ifThen .callFailed .retErr .done)) .done

def enumTail : IS := .loop enumBody .retColumn

def intB (k : IS) : IS := .ifThen (declared "int") (.makeAcc .int (.loop intBody (accTail "int" .int))) k
def floatB (k : IS) : IS := .ifThen (declared "float") (.clearErr (.makeAcc .float (.loop floatBody (accTail "float" .float)))) k
def boolB (k : IS) : IS := .ifThen (declared "bool") (.clearErr (.makeAcc .bool (.loop boolBody (accTail "bool" .bool)))) k
def strB (k : IS) : IS := .ifThen (declared "string") (.makePtrs (.loop strBody .retBlob)) k
def enumB (k : IS) : IS :=
  .ifThen (.typeIs "enum")
    (.lookupValues (.deleteValues (.newFactory (.ifThen .callFailed .retCallErr enumTail)))) k

def canon : IS :=
  .declErr (.readType (.ifThen (.and .noRows (.typeIs "")) .retEmpty (intB (floatB (boolB (strB (enumB .retErr)))))))

theorem gen_infer_canon : Gen.columnToDataAst = canon := by decide

theorem gen_infer_no_opaque : Gen.columnToDataAst.hasOpaque = false := by decide

/-! ## The factory mirror as the parameter of the semantics -/

def mirrorFactory : IFactory Factory where
  new := fun values _ => newFactory values
  appendNil := Factory.appendNil
  appendBytes := Factory.appendByteString

/-- the returned value as `Data` of the mirror (`ToColumn` returns the factory's column) -/
def toData : IData Factory → Data
  | .empty => .empty
  | .ints a => .ints a
  | .floats a => .floats a
  | .bools a => .bools a
  | .blob p => .blob p
  | .column f => .enum f.values f.strict f.data

def env (po : ParseOracle) (cfg : CsvCfg) (name : Bytes) (cells : List Bytes) : IEnv Factory :=
  { po := po, fac := mirrorFactory, cfg := cfg, name := name, cells := cells }

/-- what a run returns, in the mirror's types -/
def retView : IOut Factory → Option (Option (Data × Bool))
  | .ret r => some (r.map (fun d => (toData d.1, d.2)))
  | _ => none

/-- `columnToData` of today's source -/
def genColumnToData (po : ParseOracle) (cfg : CsvCfg) (name : Bytes) (cells : List Bytes) : Option (Option (Data × Bool)) :=
  (runInfer (env po cfg name cells) Gen.columnToDataAst).map (fun r => r.map (fun d => (toData d.1, d.2)))

theorem runInfer_view (E : IEnv Factory) (t : IS) :
    (runInfer E t).map (fun r => r.map (fun d => (toData d.1, d.2))) = retView (t.run E none {}) := by
  unfold runInfer retView
  cases t.run E none {} <;> rfl

/-! ## The loops -/

section Iter
variable {φ : Type} {step : Nat → Bytes → ISt φ → IOut φ} {i : Nat} {c : Bytes} {cs : List Bytes} {σ σ' : ISt φ}

theorem iter_next (h : step i c σ = .next σ') : iterCells step i (c :: cs) σ = iterCells step (i + 1) cs σ' := by
  simp [iterCells, h]
theorem iter_cont (h : step i c σ = .cont σ') : iterCells step i (c :: cs) σ = iterCells step (i + 1) cs σ' := by
  simp [iterCells, h]
theorem iter_brk (h : step i c σ = .brk σ') : iterCells step i (c :: cs) σ = .next σ' := by
  simp [iterCells, h]
theorem iter_ret {r} (h : step i c σ = .ret r) : iterCells step i (c :: cs) σ = .ret r := by
  simp [iterCells, h]

end Iter

section Loops
variable (E : IEnv Factory)

/-- one round of `parseStep`: the cell does not parse -/
theorem parseStep_fail (p : IParser) (kind : IKind) (i : Nat) (c : Bytes) (σ : ISt Factory)
    (h : p.apply E.po c = some .none) :
    (parseStep p kind).run E (some (i, c)) σ = .brk { σ with parsed := .none, cerr := true, err := true } := by
  simp [parseStep, IS.run, IC.eval, IVal.isNone, h]

theorem int_step_ok (i : Nat) (c : Bytes) (σ : ISt Factory) (v : Int) (h : E.po.atoi c = some v) :
    intBody.run E (some (i, c)) σ = .next { σ with parsed := .int v, cerr := false, ints := σ.ints.push v } := by
  simp [intBody, parseStep, IS.run, IC.eval, IParser.apply, IVal.isNone, h]

theorem float_step_ok (i : Nat) (c : Bytes) (σ : ISt Factory) (v : UInt64) (h : E.po.pfloat c = some v) :
    (parseStep .float64 .float).run E (some (i, c)) σ =
      .next { σ with parsed := .float v, cerr := false, floats := σ.floats.push v } := by
  simp [parseStep, IS.run, IC.eval, IParser.apply, IVal.isNone, h]

theorem bool_step_ok (i : Nat) (c : Bytes) (σ : ISt Factory) (v : Bool) (h : E.po.pbool c = some v) :
    boolBody.run E (some (i, c)) σ = .next { σ with parsed := .bool v, cerr := false, bools := σ.bools.push v } := by
  simp [boolBody, parseStep, IS.run, IC.eval, IParser.apply, IVal.isNone, h]

theorem int_loop (cs : List Bytes) : ∀ (i : Nat) (σ : ISt Factory),
    ∃ σ', iterCells (fun i c τ => intBody.run E (some (i, c)) τ) i cs σ = .next σ' ∧
      σ'.dataType = σ.dataType ∧ σ'.deleted = σ.deleted ∧ σ'.ints = (intLoop E.po cs σ.ints).1 ∧
      σ'.err = (σ.err || (intLoop E.po cs σ.ints).2) := by
  induction cs with
  | nil => intro i σ; exact ⟨σ, rfl, rfl, rfl, rfl, by simp [intLoop]⟩
  | cons c cs ih =>
    intro i σ
    cases h : E.po.atoi c with
    | none =>
      refine ⟨{ σ with parsed := .none, cerr := true, err := true }, ?_, rfl, rfl, ?_, ?_⟩
      · exact iter_brk (step := fun i c τ => intBody.run E (some (i, c)) τ)
          (parseStep_fail E .atoi .int i c σ (by simp [IParser.apply, h]))
      · simp [intLoop, h]
      · simp [intLoop, h]
    | some v =>
      obtain ⟨σ', h1, h2, h3, h4, h5⟩ := ih (i + 1) { σ with parsed := .int v, cerr := false, ints := σ.ints.push v }
      refine ⟨σ', ?_, h2, h3, ?_, ?_⟩
      · rw [iter_next (step := fun i c τ => intBody.run E (some (i, c)) τ) (int_step_ok E i c σ v h)]
        exact h1
      · simpa [intLoop, h] using h4
      · simpa [intLoop, h] using h5

theorem float_loop (cs : List Bytes) : ∀ (i : Nat) (σ : ISt Factory),
    ∃ σ', iterCells (fun i c τ => floatBody.run E (some (i, c)) τ) i cs σ = .next σ' ∧
      σ'.dataType = σ.dataType ∧ σ'.deleted = σ.deleted ∧ σ'.floats = (floatLoop E.po cs σ.floats).1 ∧
      σ'.err = (σ.err || (floatLoop E.po cs σ.floats).2) := by
  induction cs with
  | nil => intro i σ; exact ⟨σ, rfl, rfl, rfl, rfl, by simp [floatLoop]⟩
  | cons c cs ih =>
    intro i σ
    by_cases he : c.isEmpty = true
    · obtain ⟨σ', h1, h2, h3, h4, h5⟩ := ih (i + 1) { σ with floats := σ.floats.push F64.canonNaN }
      refine ⟨σ', ?_, h2, h3, ?_, ?_⟩
      · have hs : floatBody.run E (some (i, c)) σ = .cont { σ with floats := σ.floats.push F64.canonNaN } := by
          simp [floatBody, IS.run, IC.eval, he]
        rw [iter_cont (step := fun i c τ => floatBody.run E (some (i, c)) τ) hs]
        exact h1
      · simpa [floatLoop, he] using h4
      · simpa [floatLoop, he] using h5
    · have hb : ∀ σ : ISt Factory, floatBody.run E (some (i, c)) σ = (parseStep .float64 .float).run E (some (i, c)) σ := by
        intro σ
        simp [floatBody, IS.run, IC.eval, he]
      cases h : E.po.pfloat c with
      | none =>
        refine ⟨{ σ with parsed := .none, cerr := true, err := true }, ?_, rfl, rfl, ?_, ?_⟩
        · exact iter_brk (step := fun i c τ => floatBody.run E (some (i, c)) τ)
            ((hb σ).trans (parseStep_fail E .float64 .float i c σ (by simp [IParser.apply, h])))
        · simp [floatLoop, h, he]
        · simp [floatLoop, h, he]
      | some v =>
        obtain ⟨σ', h1, h2, h3, h4, h5⟩ := ih (i + 1) { σ with parsed := .float v, cerr := false, floats := σ.floats.push v }
        refine ⟨σ', ?_, h2, h3, ?_, ?_⟩
        · rw [iter_next (step := fun i c τ => floatBody.run E (some (i, c)) τ) ((hb σ).trans (float_step_ok E i c σ v h))]
          exact h1
        · simpa [floatLoop, h, he] using h4
        · simpa [floatLoop, h, he] using h5

theorem bool_loop (cs : List Bytes) : ∀ (i : Nat) (σ : ISt Factory),
    ∃ σ', iterCells (fun i c τ => boolBody.run E (some (i, c)) τ) i cs σ = .next σ' ∧
      σ'.dataType = σ.dataType ∧ σ'.deleted = σ.deleted ∧ σ'.bools = (boolLoop E.po cs σ.bools).1 ∧
      σ'.err = (σ.err || (boolLoop E.po cs σ.bools).2) := by
  induction cs with
  | nil => intro i σ; exact ⟨σ, rfl, rfl, rfl, rfl, by simp [boolLoop]⟩
  | cons c cs ih =>
    intro i σ
    cases h : E.po.pbool c with
    | none =>
      refine ⟨{ σ with parsed := .none, cerr := true, err := true }, ?_, rfl, rfl, ?_, ?_⟩
      · exact iter_brk (step := fun i c τ => boolBody.run E (some (i, c)) τ)
          (parseStep_fail E .bool .bool i c σ (by simp [IParser.apply, h]))
      · simp [boolLoop, h]
      · simp [boolLoop, h]
    | some v =>
      obtain ⟨σ', h1, h2, h3, h4, h5⟩ := ih (i + 1) { σ with parsed := .bool v, cerr := false, bools := σ.bools.push v }
      refine ⟨σ', ?_, h2, h3, ?_, ?_⟩
      · rw [iter_next (step := fun i c τ => boolBody.run E (some (i, c)) τ) (bool_step_ok E i c σ v h)]
        exact h1
      · simpa [boolLoop, h] using h4
      · simpa [boolLoop, h] using h5

/-- the null rule: `p.start == p.end && conf.EmptyNull` -/
theorem nullCond_eval (i : Nat) (c : Bytes) (σ : ISt Factory) :
    IC.eval E (some (i, c)) σ (.and .cellEmpty .emptyNull) = some (c.isEmpty && E.cfg.emptyNull) := by
  cases h : c.isEmpty <;> simp [IC.eval, h]

theorem str_step (i : Nat) (c : Bytes) (σ : ISt Factory) (hs : σ.ptrs.size = i) :
    strBody.run E (some (i, c)) σ = .next { σ with ptrs := σ.ptrs.push (strPtr E.cfg.emptyNull c) } := by
  cases h : (c.isEmpty && E.cfg.emptyNull) <;> simp [strBody, IS.run, nullCond_eval, h, hs, strPtr]

theorem str_loop (cs : List Bytes) : ∀ (i : Nat) (σ : ISt Factory), σ.ptrs.size = i →
    ∃ σ', iterCells (fun i c τ => strBody.run E (some (i, c)) τ) i cs σ = .next σ' ∧
      σ'.deleted = σ.deleted ∧ σ'.ptrs = strLoop E.cfg.emptyNull cs σ.ptrs := by
  induction cs with
  | nil => intro i σ _; exact ⟨σ, rfl, rfl, by simp [strLoop]⟩
  | cons c cs ih =>
    intro i σ hs
    obtain ⟨σ', h1, h2, h3⟩ := ih (i + 1) { σ with ptrs := σ.ptrs.push (strPtr E.cfg.emptyNull c) } (by simp [hs])
    refine ⟨σ', ?_, h2, ?_⟩
    · rw [iter_next (step := fun i c τ => strBody.run E (some (i, c)) τ) (str_step E i c σ hs)]
      exact h1
    · rw [h3]
      cases h : (c.isEmpty && E.cfg.emptyNull) <;> simp [strLoop, strPtr, h]

theorem enum_loop (hfac : E.fac = mirrorFactory) (cs : List Bytes) : ∀ (i : Nat) (σ : ISt Factory) (f : Factory),
    σ.factory = some f →
    match enumLoop E.cfg.emptyNull cs f with
    | none => iterCells (fun i c τ => enumBody.run E (some (i, c)) τ) i cs σ = .ret none
    | some f' => ∃ σ', iterCells (fun i c τ => enumBody.run E (some (i, c)) τ) i cs σ = .next σ' ∧
        σ'.deleted = σ.deleted ∧ σ'.factory = some f' := by
  induction cs with
  | nil => intro i σ f hf; exact ⟨σ, rfl, rfl, hf⟩
  | cons c cs ih =>
    intro i σ f hf
    cases he : (c.isEmpty && E.cfg.emptyNull) with
    | true =>
      have hs : enumBody.run E (some (i, c)) σ = .next { σ with factory := some f.appendNil } := by
        simp [enumBody, IS.run, nullCond_eval, he, hf, hfac, mirrorFactory]
      rw [iter_next (step := fun i c τ => enumBody.run E (some (i, c)) τ) hs]
      have := ih (i + 1) { σ with factory := some f.appendNil } f.appendNil rfl
      simpa [enumLoop, he] using this
    | false =>
      cases ha : f.appendByteString c with
      | none =>
        have hs : enumBody.run E (some (i, c)) σ = .ret none := by
          simp only [enumBody, IS.run, nullCond_eval, he]
          simp [IC.eval, hf, hfac, mirrorFactory, ha]
        rw [iter_ret (step := fun i c τ => enumBody.run E (some (i, c)) τ) hs]
        simp [enumLoop, he, ha]
      | some f' =>
        have hs : enumBody.run E (some (i, c)) σ = .next { σ with factory := some f', cerr := false } := by
          simp only [enumBody, IS.run, nullCond_eval, he]
          simp [IC.eval, hf, hfac, mirrorFactory, ha]
        rw [iter_next (step := fun i c τ => enumBody.run E (some (i, c)) τ) hs]
        have := ih (i + 1) { σ with factory := some f', cerr := false } f' rfl
        simpa [enumLoop, he, ha] using this

end Loops

/-! ## The blocks -/

section Blocks
variable (E : IEnv Factory)

theorem declared_eval (ty : String) (σ : ISt Factory) :
    (declared ty).eval E none σ = some (σ.dataType == ty || σ.dataType == "") := by
  cases h : σ.dataType == ty <;> simp [declared, IC.eval, h]

/-- `if dataType == Int || dataType == None { … }`: returns what `intBlock` says, or control goes on -/
theorem intB_run (k : IS) (σ : ISt Factory) (herr : σ.err = false) (hdel : σ.deleted = false) :
    ∃ σ', σ'.dataType = σ.dataType ∧ σ'.deleted = false ∧
      retView ((intB k).run E none σ) =
        match intBlock E.po σ.dataType E.cells with
        | some r => some r
        | none => retView (k.run E none σ') := by
  cases hd : (σ.dataType == "int" || σ.dataType == "")
  · refine ⟨σ, rfl, hdel, ?_⟩
    simp [intB, IS.run, declared_eval, hd, intBlock]
  · obtain ⟨σ', hrun, hdt, hdl, hacc, he⟩ := int_loop E E.cells 0 { σ with ints := #[] }
    refine ⟨σ', hdt, hdl.trans hdel, ?_⟩
    simp only [intB, IS.run, declared_eval, hd, hrun, accTail, IC.eval, intBlock, if_true]
    simp only [he, herr, Bool.false_or, hacc, hdl, hdt, hdel]
    cases (intLoop E.po E.cells #[]).2
    · simp [retView, toData]
    · cases σ.dataType == "int" <;> simp [retView]

theorem floatB_run (k : IS) (σ : ISt Factory) (hdel : σ.deleted = false) :
    ∃ σ', σ'.dataType = σ.dataType ∧ σ'.deleted = false ∧
      retView ((floatB k).run E none σ) =
        match floatBlock E.po σ.dataType E.cells with
        | some r => some r
        | none => retView (k.run E none σ') := by
  cases hd : (σ.dataType == "float" || σ.dataType == "")
  · refine ⟨σ, rfl, hdel, ?_⟩
    simp [floatB, IS.run, declared_eval, hd, floatBlock]
  · obtain ⟨σ', hrun, hdt, hdl, hacc, he⟩ := float_loop E E.cells 0 { σ with err := false, floats := #[] }
    refine ⟨σ', hdt, hdl.trans hdel, ?_⟩
    simp only [floatB, IS.run, declared_eval, hd, hrun, accTail, IC.eval, floatBlock, if_true]
    simp only [he, Bool.false_or, hacc, hdl, hdt, hdel]
    cases (floatLoop E.po E.cells #[]).2
    · simp [retView, toData]
    · cases σ.dataType == "float" <;> simp [retView]

theorem boolB_run (k : IS) (σ : ISt Factory) (hdel : σ.deleted = false) :
    ∃ σ', σ'.dataType = σ.dataType ∧ σ'.deleted = false ∧
      retView ((boolB k).run E none σ) =
        match boolBlock E.po σ.dataType E.cells with
        | some r => some r
        | none => retView (k.run E none σ') := by
  cases hd : (σ.dataType == "bool" || σ.dataType == "")
  · refine ⟨σ, rfl, hdel, ?_⟩
    simp [boolB, IS.run, declared_eval, hd, boolBlock]
  · obtain ⟨σ', hrun, hdt, hdl, hacc, he⟩ := bool_loop E E.cells 0 { σ with err := false, bools := #[] }
    refine ⟨σ', hdt, hdl.trans hdel, ?_⟩
    simp only [boolB, IS.run, declared_eval, hd, hrun, accTail, IC.eval, boolBlock, if_true]
    simp only [he, Bool.false_or, hacc, hdl, hdt, hdel]
    cases (boolLoop E.po E.cells #[]).2
    · simp [retView, toData]
    · cases σ.dataType == "bool" <;> simp [retView]

theorem strB_run (k : IS) (σ : ISt Factory) (hdel : σ.deleted = false) :
    retView ((strB k).run E none σ) =
      match stringBlock E.cfg σ.dataType E.cells with
      | some r => some r
      | none => retView (k.run E none σ) := by
  cases hd : (σ.dataType == "string" || σ.dataType == "")
  · simp [strB, IS.run, declared_eval, hd, stringBlock]
  · obtain ⟨σ', hrun, hdl, hacc⟩ := str_loop E E.cells 0 { σ with ptrs := #[] } rfl
    have hsize : σ'.ptrs.size = E.cells.length := by
      rw [hacc, strLoop_eq]; simp
    simp only [strB, IS.run, declared_eval, hd, hrun, stringBlock, if_true, hsize]
    simp [retView, toData, hacc, hdl, hdel]

theorem enumTail_run (hfac : E.fac = mirrorFactory) (σ : ISt Factory) (f : Factory) (hf : σ.factory = some f) :
    enumTail.run E none σ =
      match enumLoop E.cfg.emptyNull E.cells f with
      | none => .ret none
      | some f' => .ret (some (.column f', σ.deleted)) := by
  have hl := enum_loop E hfac E.cells 0 σ f hf
  simp only [enumTail, IS.run]
  cases hloop : enumLoop E.cfg.emptyNull E.cells f with
  | none =>
    rw [hloop] at hl
    simp only [] at hl
    rw [hl]
  | some f' =>
    rw [hloop] at hl
    obtain ⟨σ', hrun, hdl, hf'⟩ := hl
    rw [hrun]
    simp [IS.run, hf', hdl]

theorem enumB_run (hfac : E.fac = mirrorFactory) (k : IS) (σ : ISt Factory) (hdel : σ.deleted = false) :
    retView ((enumB k).run E none σ) =
      match enumBlock E.cfg σ.dataType E.name E.cells with
      | some r => some r
      | none => retView (k.run E none σ) := by
  cases hd : (σ.dataType == "enum")
  · simp [enumB, IS.run, IC.eval, hd, enumBlock]
  · simp only [enumB, IS.run, IC.eval, hd, enumBlock, if_true, enumG, hfac, mirrorFactory]
    cases hn : newFactory (match E.cfg.enums.find? (·.1 == E.name) with | some e => e.2 | none => []) with
    | none => simp [retView]
    | some f =>
      simp only []
      rw [enumTail_run E hfac _ f rfl]
      cases hloop : enumLoop E.cfg.emptyNull E.cells f with
      | none => simp [retView]
      | some f' => simp [retView, toData, hdel]

/-- **The canonical term is the mirror.** -/
theorem canon_run (hfac : E.fac = mirrorFactory) :
    retView (canon.run E none {}) = some (columnToDataG E.po E.cfg E.name E.cells) := by
  have h0 : canon.run E none {} =
      (IS.ifThen (.and .noRows (.typeIs "")) .retEmpty (intB (floatB (boolB (strB (enumB .retErr)))))).run E none
        { dataType := dataTypeOf E.cfg E.name } := rfl
  obtain ⟨σ2, hd2, hl2, hr2⟩ := intB_run E (floatB (boolB (strB (enumB .retErr)))) { dataType := dataTypeOf E.cfg E.name } rfl rfl
  obtain ⟨σ3, hd3, hl3, hr3⟩ := floatB_run E (boolB (strB (enumB .retErr))) σ2 hl2
  obtain ⟨σ4, hd4, hl4, hr4⟩ := boolB_run E (strB (enumB .retErr)) σ3 hl3
  have hr5 := strB_run E (enumB .retErr) σ4 hl4
  have hr6 := enumB_run E hfac .retErr σ4 hl4
  rw [hd4, hd3, hd2] at hr6 hr5
  rw [hd3, hd2] at hr4
  rw [hd2] at hr3
  simp only [] at hr2 hr3 hr4 hr5 hr6
  rw [h0]
  unfold columnToDataG
  simp only []
  cases hc : (E.cells.length == 0 && dataTypeOf E.cfg E.name == "")
  · have hgo : (IS.ifThen (.and .noRows (.typeIs "")) .retEmpty (intB (floatB (boolB (strB (enumB .retErr)))))).run E none
          { dataType := dataTypeOf E.cfg E.name } =
        (intB (floatB (boolB (strB (enumB .retErr))))).run E none { dataType := dataTypeOf E.cfg E.name } := by
      cases h1 : E.cells.length == 0 <;> cases h2 : dataTypeOf E.cfg E.name == "" <;>
        simp [IS.run, IC.eval, h1, h2] at hc ⊢
    rw [hgo, hr2]
    simp only [Bool.false_eq_true, if_false]
    cases intBlock E.po (dataTypeOf E.cfg E.name) E.cells with
    | some r => rfl
    | none =>
      simp only []
      rw [hr3]
      cases floatBlock E.po (dataTypeOf E.cfg E.name) E.cells with
      | some r => rfl
      | none =>
        simp only []
        rw [hr4]
        cases boolBlock E.po (dataTypeOf E.cfg E.name) E.cells with
        | some r => rfl
        | none =>
          simp only []
          rw [hr5]
          cases stringBlock E.cfg (dataTypeOf E.cfg E.name) E.cells with
          | some r => rfl
          | none =>
            simp only []
            rw [hr6]
            cases enumBlock E.cfg (dataTypeOf E.cfg E.name) E.name E.cells with
            | some r => rfl
            | none => rfl
  · have h1 : (E.cells.length == 0) = true := by
      cases h : E.cells.length == 0 <;> simp [h] at hc ⊢
    have h2 : (dataTypeOf E.cfg E.name == "") = true := by
      cases h : dataTypeOf E.cfg E.name == "" <;> simp [h] at hc ⊢
    simp [IS.run, IC.eval, h1, h2, retView, toData]

end Blocks

/-! ## Today's source -/

/-- **`columnToData` of today's source is the statement-by-statement mirror**: for every parse oracle, configuration,
column name and list of cell texts, the term extracted today has a meaning (`some`), it returns an error exactly when
`columnToDataG` does, and otherwise the same data and the same "declaration deleted" flag. -/
theorem gen_columnToData_mirror (po : ParseOracle) (cfg : CsvCfg) (name : Bytes) (cells : List Bytes) :
    genColumnToData po cfg name cells = some (columnToDataG po cfg name cells) := by
  unfold genColumnToData
  rw [gen_infer_canon, runInfer_view]
  exact canon_run (env po cfg name cells) rfl

/-- **`columnToData` of today's source evaluates to `columnToDataM`** (the logical column the returned data denotes),
for all cell lists, oracles and configurations. -/
theorem gen_columnToData_semantics (po : ParseOracle) (cfg : CsvCfg) (name : Bytes) (cells : List Bytes) :
    (genColumnToData po cfg name cells).map (fun r => r.map (fun d => (d.1.toLCol name, d.2))) =
      some (columnToDataM po cfg name cells) := by
  rw [gen_columnToData_mirror]
  rfl

/-- … hence to the specification's `csvColumn` (`columnToData_eq_spec`). -/
theorem gen_columnToData_spec (po : ParseOracle) (cfg : CsvCfg) (name : Bytes) (cells : List Bytes) :
    (genColumnToData po cfg name cells).map (fun r => r.map (fun d => (d.1.toLCol name, d.2))) =
      some (specView (csvColumn po cfg name cells)) := by
  rw [gen_columnToData_semantics, columnToData_eq_spec]

/-! ## Witnesses: the statement tells wrong typings apart -/

section Witnesses

/-- a term run with the factory mirror, as type and cells of the logical column (`none`: error or no meaning) -/
def typing (t : IS) (cfg : CsvCfg) (cells : List Bytes) : Option (CType × List Cell) :=
  match runInfer (env toy cfg [97] cells) t with
  | some (some d) => some (((toData d.1).toLCol [97]).ty, ((toData d.1).toLCol [97]).cells.toList)
  | _ => none

def specTyping (cfg : CsvCfg) (cells : List Bytes) : Option (CType × List Cell) :=
  (csvColumn toy cfg [97] cells).1.map (fun c => (c.ty, c.cells.toList))

def deletedFlag (t : IS) (cfg : CsvCfg) (cells : List Bytes) : Option Bool :=
  match runInfer (env toy cfg [97] cells) t with
  | some (some d) => some d.2
  | _ => none

def withBlocks (i f b s e : IS → IS) : IS :=
  .declErr (.readType (.ifThen (.and .noRows (.typeIs "")) .retEmpty (i (f (b (s (e .retErr)))))))

example : canon = withBlocks intB floatB boolB strB enumB := rfl

/-- the float block without `err = nil`: the error of the int attempt is still set after a float loop that succeeded -/
def floatBStale (k : IS) : IS := .ifThen (declared "float") (.makeAcc .float (.loop floatBody (accTail "float" .float))) k

/-- … types `["1", ""]` as a string column; the spec (and today's term) as float with a NaN: -/
example : typing (withBlocks intB floatBStale boolB strB enumB) {} [b1, []] = some (.string, [.str (some b1), .str (some [])]) ∧
    specTyping {} [b1, []] = some (.float, [.float 0x3ff0000000000000, .float F64.canonNaN]) ∧
    typing canon {} [b1, []] = specTyping {} [b1, []] := by decide

/-- the bool attempt in front of the int attempt types `["1", "0"]` as bool (`ParseBool` accepts both); the spec says int: -/
example : typing (withBlocks boolB intB floatB strB enumB) {} [b1, b0] = some (.bool, [.bool true, .bool false]) ∧
    specTyping {} [b1, b0] = some (.int, [.int 1, .int 0]) ∧
    typing canon {} [b1, b0] = specTyping {} [b1, b0] := by decide

/-- the float loop without the empty-cell rule (`if p.start == p.end { append NaN; continue }`) -/
def floatBNoNaN (k : IS) : IS :=
  .ifThen (declared "float") (.clearErr (.makeAcc .float (.loop (parseStep .float64 .float) (accTail "float" .float)))) k

/-- … rejects the declared float column `["1", ""]`: -/
example : typing (withBlocks intB floatBNoNaN boolB strB enumB) { types := [([97], "float")] } [b1, []] = none ∧
    specTyping { types := [([97], "float")] } [b1, []] = some (.float, [.float 0x3ff0000000000000, .float F64.canonNaN]) ∧
    typing canon { types := [([97], "float")] } [b1, []] = specTyping { types := [([97], "float")] } [b1, []] := by decide

/-- the null rule of the string block without `conf.EmptyNull` -/
def strBAlwaysNull (k : IS) : IS :=
  .ifThen (declared "string") (.makePtrs (.loop (.ifElse .cellEmpty (.setPtr true .done) (.setPtr false .done) .done) .retBlob)) k

/-- … makes the empty cell of `["x", ""]` null although `EmptyNull` is off: -/
example : typing (withBlocks intB floatB boolB strBAlwaysNull enumB) {} [bx, []] = some (.string, [.str (some bx), .str none]) ∧
    specTyping {} [bx, []] = some (.string, [.str (some bx), .str (some [])]) ∧
    typing canon {} [bx, []] = specTyping {} [bx, []] := by decide

/-- the zero-row test without `dataType == None`: a declared int column without rows becomes the typeless column -/
example : typing (.declErr (.readType (.ifThen .noRows .retEmpty (intB (floatB (boolB (strB (enumB .retErr)))))))) { types := [([97], "int")] } [] =
      some (.undef, []) ∧
    specTyping { types := [([97], "int")] } [] = some (.int, []) ∧
    typing canon { types := [([97], "int")] } [] = specTyping { types := [([97], "int")] } [] := by decide

/-- the enum block without `delete(conf.EnumVals, colName)`: the declaration is not consumed (ReadCSV would then fail with
"Enum values specified for non enum column") -/
def enumBNoDelete (k : IS) : IS :=
  .ifThen (.typeIs "enum") (.lookupValues (.newFactory (.ifThen .callFailed .retCallErr enumTail))) k

example : deletedFlag (withBlocks intB floatB boolB strB enumBNoDelete) { types := [([97], "enum")], enums := [([97], [bx])] } [bx] = some false ∧
    (csvColumn toy { types := [([97], "enum")], enums := [([97], [bx])] } [97] [bx]).2 = true ∧
    deletedFlag canon { types := [([97], "enum")], enums := [([97], [bx])] } [bx] = some true := by decide

/-- a loop that stops at the first failure without recording it (`break` without `err = e`) returns the prefix -/
example : typing (withBlocks (fun k => .ifThen (declared "int") (.makeAcc .int (.loop (.parse .atoi (.ifThen .callFailed .brk
        (.append .int .done))) (accTail "int" .int))) k) floatB boolB strB enumB) {} [b1, bx] = some (.int, [.int 1]) ∧
    specTyping {} [b1, bx] = some (.string, [.str (some b1), .str (some bx)]) ∧
    typing canon {} [b1, bx] = specTyping {} [b1, bx] := by decide

end Witnesses

#print axioms gen_infer_canon
#print axioms gen_infer_no_opaque
#print axioms gen_columnToData_mirror
#print axioms gen_columnToData_semantics
#print axioms gen_columnToData_spec

end QF.Props.C12InferGen
