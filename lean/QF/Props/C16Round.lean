import QF.Spec.Num
/-
C16Round — `Num.ofDecimal` (the oracle "correctly rounded float64 bits of the decimal m·10^d")
is proved correct against a declarative specification, so that it no longer belongs to the
trusted base of properties C13, C14 and C16.

Everything is stated on natural numbers.  A rational `a/b` is compared with `c/d` by cross
multiplication.  The power `2^E` for an integer `E` is the fraction `P E / Q E` with
`P E = 2^E.toNat` and `Q E = 2^(-E).toNat` (one of the two is always `1`).
-/
namespace QF.Props.C16Round
open QF.Num

/-! ## 1. Exact values as fractions -/

/-- numerator of `2^E` -/
def P (e : Int) : Nat := 2 ^ e.toNat
/-- denominator of `2^E` -/
def Q (e : Int) : Nat := 2 ^ (-e).toNat

/-- numerator of the decimal `m·10^d` (the pair used inside `ofDecimal`) -/
def decNum (m : Nat) (d : Int) : Nat := if d ≥ 0 then m * 10 ^ d.toNat else m
/-- denominator of the decimal `m·10^d` -/
def decDen (d : Int) : Nat := if d ≥ 0 then 1 else 10 ^ (-d).toNat

/-- numerator of the dyadic `M·2^E` -/
def dyNum (M : Nat) (E : Int) : Nat := if E ≥ 0 then M * 2 ^ E.toNat else M
/-- denominator of the dyadic `M·2^E` -/
def dyDen (E : Int) : Nat := if E ≥ 0 then 1 else 2 ^ (-E).toNat

/-- `a/b ≤ c/d` by cross multiplication -/
def ratLe (a b c d : Nat) : Prop := a * d ≤ c * b
/-- `a/b = c/d` by cross multiplication -/
def ratEq (a b c d : Nat) : Prop := a * d = c * b

theorem P_pos (e : Int) : 0 < P e := Nat.two_pow_pos _
theorem Q_pos (e : Int) : 0 < Q e := Nat.two_pow_pos _

theorem Q_of_nonneg {e : Int} (h : 0 ≤ e) : Q e = 1 := by
  unfold Q; have : (-e).toNat = 0 := by omega
  rw [this]
theorem P_of_neg {e : Int} (h : e < 0) : P e = 1 := by
  unfold P; have : e.toNat = 0 := by omega
  rw [this]

theorem dyNum_eq (M : Nat) (E : Int) : dyNum M E = M * P E := by
  unfold dyNum; split
  · rfl
  · rw [P_of_neg (by omega), Nat.mul_one]
theorem dyDen_eq (E : Int) : dyDen E = Q E := by
  unfold dyDen; split
  · rw [Q_of_nonneg (by omega)]
  · rfl

/-- The upper half-step condition of `IsNearest` below, `num/den ≤ (2M+1)·2^E / 2`, written with
the value pairs and cross-multiplied comparison. -/
theorem upper_iff_ratLe (num den M : Nat) (E : Int) :
    2 * (num * Q E) ≤ (2 * M + 1) * (den * P E) ↔
      ratLe (2 * num) den (dyNum (2 * M + 1) E) (dyDen E) := by
  unfold ratLe
  rw [dyNum_eq, dyDen_eq, Nat.mul_assoc 2 num, Nat.mul_assoc (2 * M + 1), Nat.mul_comm (P E) den]

theorem decDen_pos (d : Int) : 0 < decDen d := by
  unfold decDen; split
  · exact Nat.one_pos
  · exact Nat.pow_pos (by decide)

theorem decNum_pos {m : Nat} (d : Int) (h : 0 < m) : 0 < decNum m d := by
  unfold decNum; split
  · exact Nat.mul_pos h (Nat.pow_pos (by decide))
  · exact h

/-- `2^e = 2^j · 2^e1` when `e = e1 + j`, as fractions. -/
theorem pq_shift (e1 e : Int) (j : Nat) (h : e = e1 + j) :
    P e * Q e1 = 2 ^ j * (P e1 * Q e) := by
  unfold P Q
  rw [← Nat.pow_add, ← Nat.pow_add, ← Nat.pow_add]
  congr 1; omega

/-- `2^e = 2^a / 2^b` when `e = a - b`, as fractions. -/
theorem pq_ratio (a b : Nat) (e : Int) (h : e = (a : Int) - (b : Int)) :
    2 ^ a * Q e = 2 ^ b * P e := by
  unfold P Q
  rw [← Nat.pow_add, ← Nat.pow_add]
  congr 1; omega

theorem cross_le {p q p1 q1 k : Nat} (h : p * q1 = k * (p1 * q)) (hq : 0 < q) (hq1 : 0 < q1)
    (hk : 0 < k) (a b : Nat) : a * q1 ≤ b * p1 ↔ a * k * q ≤ b * p := by
  have h1 : a * q1 * (k * q) = a * k * q * q1 := by grind
  have h2 : b * p1 * (k * q) = b * p * q1 := by grind
  have hkq : 0 < k * q := Nat.mul_pos hk hq
  constructor
  · intro hh
    have := Nat.mul_le_mul_right (k * q) hh
    rw [h1, h2] at this
    exact Nat.le_of_mul_le_mul_right this hq1
  · intro hh
    have := Nat.mul_le_mul_right q1 hh
    rw [← h1, ← h2] at this
    exact Nat.le_of_mul_le_mul_right this hkq

theorem cross_ge {p q p1 q1 k : Nat} (h : p * q1 = k * (p1 * q)) (hq : 0 < q) (hq1 : 0 < q1)
    (hk : 0 < k) (a b : Nat) : b * p1 ≤ a * q1 ↔ b * p ≤ a * k * q := by
  have h1 : a * q1 * (k * q) = a * k * q * q1 := by grind
  have h2 : b * p1 * (k * q) = b * p * q1 := by grind
  have hkq : 0 < k * q := Nat.mul_pos hk hq
  constructor
  · intro hh
    have := Nat.mul_le_mul_right (k * q) hh
    rw [h1, h2] at this
    exact Nat.le_of_mul_le_mul_right this hq1
  · intro hh
    have := Nat.mul_le_mul_right q1 hh
    rw [← h1, ← h2] at this
    exact Nat.le_of_mul_le_mul_right this hkq

/-- Changing the exponent from `e1` to `e = e1 + j`: `a/b ≤ 2^e1 ↔ a·2^j/b ≤ 2^e`. -/
theorem scale_le (e1 e : Int) (j : Nat) (h : e = e1 + j) (a b : Nat) :
    a * Q e1 ≤ b * P e1 ↔ a * 2 ^ j * Q e ≤ b * P e :=
  cross_le (pq_shift e1 e j h) (Q_pos e) (Q_pos e1) (Nat.two_pow_pos j) a b

theorem scale_ge (e1 e : Int) (j : Nat) (h : e = e1 + j) (a b : Nat) :
    b * P e1 ≤ a * Q e1 ↔ b * P e ≤ a * 2 ^ j * Q e :=
  cross_ge (pq_shift e1 e j h) (Q_pos e) (Q_pos e1) (Nat.two_pow_pos j) a b

theorem scale_lt (e1 e : Int) (j : Nat) (h : e = e1 + j) (a b : Nat) :
    a * Q e1 < b * P e1 ↔ a * 2 ^ j * Q e < b * P e := by
  have := scale_ge e1 e j h a b
  omega

theorem scale_lt' (e1 e : Int) (j : Nat) (h : e = e1 + j) (a c d : Nat) :
    a * Q e1 < c * (d * P e1) ↔ 2 ^ j * (a * Q e) < c * (d * P e) := by
  have := scale_lt e1 e j h a (c * d)
  rw [Nat.mul_assoc c d, Nat.mul_assoc c d, Nat.mul_comm a (2 ^ j), Nat.mul_assoc (2 ^ j)] at this
  exact this

theorem scale_le' (e1 e : Int) (j : Nat) (h : e = e1 + j) (a c d : Nat) :
    a * Q e1 ≤ c * (d * P e1) ↔ 2 ^ j * (a * Q e) ≤ c * (d * P e) := by
  have := scale_le e1 e j h a (c * d)
  rw [Nat.mul_assoc c d, Nat.mul_assoc c d, Nat.mul_comm a (2 ^ j), Nat.mul_assoc (2 ^ j)] at this
  exact this

theorem scale_ge' (e1 e : Int) (j : Nat) (h : e = e1 + j) (a c d : Nat) :
    c * (d * P e1) ≤ a * Q e1 ↔ c * (d * P e) ≤ 2 ^ j * (a * Q e) := by
  have := scale_ge e1 e j h a (c * d)
  rw [Nat.mul_assoc c d, Nat.mul_assoc c d, Nat.mul_comm a (2 ^ j), Nat.mul_assoc (2 ^ j)] at this
  exact this

/-! ## 2. `ofDecimal` split into its stages -/

def signBit (neg : Bool) : Nat := if neg then 2 ^ 63 else 0

def qAt (num den : Nat) (e : Int) : Nat :=
  if e ≥ 0 then num / (den * 2 ^ e.toNat) else (num * 2 ^ (-e).toNat) / den

def adjust (q0 : Nat) (e0 : Int) : Int :=
  if q0 ≥ 2 ^ 53 then e0 + 1 else if q0 < 2 ^ 52 then e0 - 1 else e0

def clamp (e1 : Int) : Int := if e1 < -1074 then -1074 else e1

def estE (num den : Nat) : Int := (Nat.log2 num : Int) - (Nat.log2 den : Int) - 52

/-- the binary exponent chosen by `ofDecimal` -/
def chooseE (num den : Nat) : Int := clamp (adjust (qAt num den (estE num den)) (estE num den))

/-- round-half-even division, as in `ofDecimal` -/
def roundDiv (n2 d2 : Nat) : Nat :=
  let qq := n2 / d2
  let rem := n2 % d2
  let up := 2 * rem > d2 || (2 * rem == d2 && qq % 2 == 1)
  if up then qq + 1 else qq

/-- final encoding stage of `ofDecimal` -/
def pack (sign mant : Nat) (e : Int) : UInt64 :=
  if mant == 0 then UInt64.ofNat sign
  else if mant < 2 ^ 52 then UInt64.ofNat (sign + mant)
  else
    let biased : Int := e + 1075
    if biased ≥ 2047 then UInt64.ofNat (sign + 2047 * 2 ^ 52)
    else UInt64.ofNat (sign + biased.toNat * 2 ^ 52 + (mant - 2 ^ 52))

theorem n2_eq (num : Nat) (e : Int) :
    (if e ≥ 0 then num else num * 2 ^ (-e).toNat) = num * Q e := by
  split
  · rw [Q_of_nonneg (by omega), Nat.mul_one]
  · rfl

theorem d2_eq (den : Nat) (e : Int) :
    (if e ≥ 0 then den * 2 ^ e.toNat else den) = den * P e := by
  split
  · rfl
  · rw [P_of_neg (by omega), Nat.mul_one]

theorem ofDecimal_unfold0 (neg : Bool) (m : Nat) (d : Int) :
    ofDecimal neg m d =
      if m = 0 then UInt64.ofNat (signBit neg) else
      let e := chooseE (decNum m d) (decDen d)
      let mant := roundDiv (if e ≥ 0 then decNum m d else decNum m d * 2 ^ (-e).toNat)
        (if e ≥ 0 then decDen d * 2 ^ e.toNat else decDen d)
      if mant ≥ 2 ^ 53 then pack (signBit neg) (mant / 2) (e + 1) else pack (signBit neg) mant e := by
  unfold ofDecimal
  extract_lets sign num den ln ld e0 q e1 e n2 d2 qq rem up mant e' mant'
  have he : e' = e := rfl
  have hm : mant' = mant := rfl
  have hs : signBit neg = sign := rfl
  rw [he, hm, hs]
  clear_value mant e sign
  by_cases h : m = 0
  · simp [h]
  · simp only [beq_iff_eq, h, if_false]
    split <;> simp only [pack, beq_iff_eq]

/-- `ofDecimal` as the composition of its stages. -/
theorem ofDecimal_unfold (neg : Bool) (m : Nat) (d : Int) :
    ofDecimal neg m d =
      if m = 0 then UInt64.ofNat (signBit neg) else
      if roundDiv (decNum m d * Q (chooseE (decNum m d) (decDen d)))
          (decDen d * P (chooseE (decNum m d) (decDen d))) ≥ 2 ^ 53 then
        pack (signBit neg) (roundDiv (decNum m d * Q (chooseE (decNum m d) (decDen d)))
          (decDen d * P (chooseE (decNum m d) (decDen d))) / 2) (chooseE (decNum m d) (decDen d) + 1)
      else pack (signBit neg) (roundDiv (decNum m d * Q (chooseE (decNum m d) (decDen d)))
          (decDen d * P (chooseE (decNum m d) (decDen d)))) (chooseE (decNum m d) (decDen d)) := by
  rw [ofDecimal_unfold0]
  simp only [n2_eq, d2_eq]

theorem qAt_eq (num den : Nat) (e : Int) : qAt num den e = (num * Q e) / (den * P e) := by
  unfold qAt
  split
  · rw [Q_of_nonneg (by omega), Nat.mul_one]; rfl
  · rw [P_of_neg (by omega), Nat.mul_one]; rfl

/-! ## 3. The exponent choice -/

theorem upper_of_log {num den ln ld : Nat} (e : Int) (c : Nat)
    (h : e = (ln : Int) + 1 - (ld : Int) - (c : Int))
    (hnu : num < 2 ^ (ln + 1)) (hdl : 2 ^ ld ≤ den) :
    num * Q e < 2 ^ c * (den * P e) := by
  have hr := pq_ratio (ln + 1) (ld + c) e (by omega)
  calc num * Q e < 2 ^ (ln + 1) * Q e := Nat.mul_lt_mul_of_pos_right hnu (Q_pos e)
    _ = 2 ^ (ld + c) * P e := hr
    _ = 2 ^ c * (2 ^ ld * P e) := by rw [Nat.pow_add]; grind
    _ ≤ 2 ^ c * (den * P e) := Nat.mul_le_mul_left _ (Nat.mul_le_mul_right _ hdl)

theorem lower_of_log {num den ln ld : Nat} (e : Int) (c : Nat)
    (h : e = (ln : Int) - (ld : Int) - 1 - (c : Int))
    (hnl : 2 ^ ln ≤ num) (hdu : den < 2 ^ (ld + 1)) :
    2 ^ c * (den * P e) < num * Q e := by
  have hr := pq_ratio ln (ld + 1 + c) e (by omega)
  calc 2 ^ c * (den * P e) < 2 ^ c * (2 ^ (ld + 1) * P e) :=
        (Nat.mul_lt_mul_left (Nat.two_pow_pos c)).2 (Nat.mul_lt_mul_of_pos_right hdu (P_pos e))
    _ = 2 ^ (ld + 1 + c) * P e := by rw [Nat.pow_add 2 (ld + 1) c]; grind
    _ = 2 ^ ln * Q e := hr.symm
    _ ≤ num * Q e := Nat.mul_le_mul_right _ hnl

theorem adjust_spec (num den : Nat) (hn : 0 < num) (hd : 0 < den) :
    ∃ e1, adjust (qAt num den (estE num den)) (estE num den) = e1 ∧
      num * Q e1 < 2 ^ 53 * (den * P e1) ∧ 2 ^ 52 * (den * P e1) ≤ num * Q e1 := by
  have hnl : 2 ^ num.log2 ≤ num := Nat.log2_self_le (by omega)
  have hnu : num < 2 ^ (num.log2 + 1) := Nat.lt_log2_self
  have hdl : 2 ^ den.log2 ≤ den := Nat.log2_self_le (by omega)
  have hdu : den < 2 ^ (den.log2 + 1) := Nat.lt_log2_self
  have hup0 := upper_of_log (estE num den) 53 (by unfold estE; omega) hnu hdl
  have hpos0 : 0 < den * P (estE num den) := Nat.mul_pos hd (P_pos _)
  unfold adjust
  rw [qAt_eq]
  split
  · rename_i h
    exfalso
    have := (Nat.div_lt_iff_lt_mul hpos0).2 hup0
    omega
  · split
    · rename_i h
      refine ⟨_, rfl, ?_, ?_⟩
      · have h' := (Nat.div_lt_iff_lt_mul hpos0).1 h
        exact (scale_lt' (estE num den - 1) (estE num den) 1 (by omega) num (2 ^ 53) den).2 (by
          rw [Nat.pow_one]; omega)
      · exact Nat.le_of_lt (lower_of_log (estE num den - 1) 52 (by unfold estE; omega) hnl hdu)
    · rename_i h
      refine ⟨_, rfl, hup0, ?_⟩
      exact (Nat.le_div_iff_mul_le hpos0).1 (by omega)

/-- The exponent chosen by `ofDecimal`: the scaled quotient is below `2^53`, and at least `2^52`
unless the exponent was clamped at `-1074`. -/
theorem chooseE_spec (num den : Nat) (hn : 0 < num) (hd : 0 < den) :
    -1074 ≤ chooseE num den ∧
    num * Q (chooseE num den) < 2 ^ 53 * (den * P (chooseE num den)) ∧
    (chooseE num den = -1074 ∨
      2 ^ 52 * (den * P (chooseE num den)) ≤ num * Q (chooseE num den)) := by
  obtain ⟨e1, he1, hu, hl⟩ := adjust_spec num den hn hd
  unfold chooseE clamp
  rw [he1]
  split
  · rename_i h
    refine ⟨Int.le_refl _, ?_, Or.inl rfl⟩
    have h1 := (scale_lt' e1 (-1074) (-1074 - e1).toNat (by omega) num (2 ^ 53) den).1 hu
    have h2 : num * Q (-1074) ≤ 2 ^ (-1074 - e1).toNat * (num * Q (-1074)) :=
      Nat.le_mul_of_pos_left _ (Nat.two_pow_pos _)
    omega
  · exact ⟨by omega, hu, Or.inr hl⟩

/-! ## 4. The rounding step -/

/-- Round half to even: `M = roundDiv n d` satisfies `|n/d − M| ≤ 1/2`, with `M` even on ties. -/
theorem roundDiv_spec (n d : Nat) (hd : 0 < d) :
    2 * n ≤ (2 * roundDiv n d + 1) * d ∧
    (2 * n = (2 * roundDiv n d + 1) * d → roundDiv n d % 2 = 0) ∧
    2 * roundDiv n d * d ≤ 2 * n + d ∧
    (2 * roundDiv n d * d = 2 * n + d → roundDiv n d % 2 = 0) ∧
    n / d ≤ roundDiv n d ∧ roundDiv n d ≤ n / d + 1 := by
  have hdm := Nat.div_add_mod n d
  have hlt := Nat.mod_lt n hd
  unfold roundDiv
  simp only [Bool.or_eq_true, decide_eq_true_eq, Bool.and_eq_true, beq_iff_eq]
  generalize hq : n / d = qq at *
  generalize hr : n % d = rem at *
  generalize ha : d * qq = a at hdm
  split
  · rename_i h
    have e1 : (2 * (qq + 1) + 1) * d = 2 * a + 3 * d := by rw [← ha]; grind
    have e2 : 2 * (qq + 1) * d = 2 * a + 2 * d := by rw [← ha]; grind
    rw [e1, e2]
    refine ⟨by omega, by omega, by omega, ?_, by omega, by omega⟩
    intro; omega
  · rename_i h
    have e1 : (2 * qq + 1) * d = 2 * a + d := by rw [← ha]; grind
    have e2 : 2 * qq * d = 2 * a := by rw [← ha]; grind
    rw [e1, e2]
    refine ⟨by omega, ?_, by omega, by omega, by omega, by omega⟩
    intro; omega

theorem roundDiv_le (n d c : Nat) (hd : 0 < d) (h : n < c * d) : roundDiv n d ≤ c := by
  have := (roundDiv_spec n d hd).2.2.2.2.2
  have := (Nat.div_lt_iff_lt_mul hd).2 h
  omega

theorem roundDiv_ge (n d c : Nat) (hd : 0 < d) (h : c * d ≤ n) : c ≤ roundDiv n d := by
  have := (roundDiv_spec n d hd).2.2.2.2.1
  have := (Nat.le_div_iff_mul_le hd).2 h
  omega

/-! ## 5. Encoding / decoding round trip -/

theorem decode_of_parts (w : UInt64) (sg ex fr : Nat) (h1 : w.toNat / 2 ^ 63 = sg)
    (h2 : w.toNat / 2 ^ 52 % 2048 = ex) (h3 : w.toNat % 2 ^ 52 = fr) :
    decode w = if ex == 2047 then none
      else if ex == 0 then some ⟨sg == 1, fr, -1074⟩
      else some ⟨sg == 1, fr + 2 ^ 52, Int.ofNat ex - 1075⟩ := by
  subst h1 h2 h3; rfl

theorem signBit_true : signBit true = 2 ^ 63 := rfl
theorem signBit_false : signBit false = 0 := rfl

theorem decode_sub (neg : Bool) (mant : Nat) (h : mant < 2 ^ 52) :
    decode (UInt64.ofNat (signBit neg + mant)) = some ⟨neg, mant, -1074⟩ := by
  cases neg
  · rw [decode_of_parts _ 0 0 mant (by rw [UInt64.toNat_ofNat', signBit_false]; omega)
      (by rw [UInt64.toNat_ofNat', signBit_false]; omega)
      (by rw [UInt64.toNat_ofNat', signBit_false]; omega)]
    rfl
  · rw [decode_of_parts _ 1 0 mant (by rw [UInt64.toNat_ofNat', signBit_true]; omega)
      (by rw [UInt64.toNat_ofNat', signBit_true]; omega)
      (by rw [UInt64.toNat_ofNat', signBit_true]; omega)]
    rfl

theorem decode_norm (neg : Bool) (b mant : Nat) (hb1 : 1 ≤ b) (hb2 : b ≤ 2046)
    (hm1 : 2 ^ 52 ≤ mant) (hm2 : mant < 2 ^ 53) :
    decode (UInt64.ofNat (signBit neg + b * 2 ^ 52 + (mant - 2 ^ 52))) =
      some ⟨neg, mant, (b : Int) - 1075⟩ := by
  have hb3 : (b == 2047) = false := by rw [beq_eq_false_iff_ne]; omega
  have hb4 : (b == 0) = false := by rw [beq_eq_false_iff_ne]; omega
  have h6 : mant - 2 ^ 52 + 2 ^ 52 = mant := by omega
  cases neg
  · rw [decode_of_parts _ 0 b (mant - 2 ^ 52) (by rw [UInt64.toNat_ofNat', signBit_false]; omega)
      (by rw [UInt64.toNat_ofNat', signBit_false]; omega)
      (by rw [UInt64.toNat_ofNat', signBit_false]; omega), hb3, hb4, h6]
    rfl
  · rw [decode_of_parts _ 1 b (mant - 2 ^ 52) (by rw [UInt64.toNat_ofNat', signBit_true]; omega)
      (by rw [UInt64.toNat_ofNat', signBit_true]; omega)
      (by rw [UInt64.toNat_ofNat', signBit_true]; omega), hb3, hb4, h6]
    rfl

theorem decode_inf (neg : Bool) :
    decode (UInt64.ofNat (signBit neg + 2047 * 2 ^ 52)) = none := by
  cases neg <;> decide

theorem pack_small (neg : Bool) (mant : Nat) (e : Int) (h : mant < 2 ^ 52) :
    decode (pack (signBit neg) mant e) = some ⟨neg, mant, -1074⟩ := by
  unfold pack
  by_cases h0 : mant = 0
  · subst h0
    exact decode_sub neg 0 (by decide)
  · simp only [beq_iff_eq, h0, if_false, h, if_true]
    exact decode_sub neg mant h

theorem pack_norm (neg : Bool) (mant : Nat) (e : Int) (h1 : 2 ^ 52 ≤ mant) (h2 : mant < 2 ^ 53)
    (he1 : -1074 ≤ e) (he2 : e ≤ 971) :
    decode (pack (signBit neg) mant e) = some ⟨neg, mant, e⟩ := by
  unfold pack
  have h0 : ¬ mant = 0 := by omega
  have h3 : ¬ mant < 2 ^ 52 := by omega
  have h4 : ¬ e + 1075 ≥ 2047 := by omega
  simp only [beq_iff_eq, h0, if_false, h3, h4]
  rw [decode_norm neg (e + 1075).toNat mant (by omega) (by omega) h1 h2]
  have : ((e + 1075).toNat : Int) - 1075 = e := by omega
  rw [this]

theorem pack_inf (neg : Bool) (mant : Nat) (e : Int) (h1 : 2 ^ 52 ≤ mant) (he : 972 ≤ e) :
    pack (signBit neg) mant e = UInt64.ofNat (signBit neg + 2047 * 2 ^ 52) := by
  unfold pack
  have h0 : ¬ mant = 0 := by omega
  have h3 : ¬ mant < 2 ^ 52 := by omega
  have h4 : e + 1075 ≥ 2047 := by omega
  simp only [beq_iff_eq, h0, if_false, h3, h4, if_true]

/-! ## 6. The declarative specification -/

/-- `M·2^E` is a float64-representable value nearest to `num/den`, ties to even.

With `2^E = P E / Q E` the distance condition `2·|num/den − M·2^E| ≤ 2^E` reads, cross multiplied,
`|2·num·Q − 2·M·den·P| ≤ den·P`; it is split into the upper and the lower half so that no natural
subtraction is needed.  Ties must pick the even mantissa.  At the bottom of a binade
(`M = 2^52`, not the subnormal binade) the lower neighbour `(2^53−1)·2^(E−1)` is only half a step
away, so the value must be within a *quarter* of `2^E` from below (`lower_binade`); a tie there
goes to `2^52` (even) and is therefore allowed. -/
structure IsNearest (num den M : Nat) (E : Int) : Prop where
  mant_lt : M < 2 ^ 53
  exp_ge : -1074 ≤ E
  exp_le : E ≤ 971
  normal : 2 ^ 52 ≤ M ∨ E = -1074
  /-- `num/den ≤ (M + 1/2)·2^E` -/
  upper : 2 * (num * Q E) ≤ (2 * M + 1) * (den * P E)
  upper_tie : 2 * (num * Q E) = (2 * M + 1) * (den * P E) → M % 2 = 0
  /-- `(M − 1/2)·2^E ≤ num/den` -/
  lower : 2 * M * (den * P E) ≤ 2 * (num * Q E) + den * P E
  lower_tie : 2 * M * (den * P E) = 2 * (num * Q E) + den * P E → M % 2 = 0
  /-- `(M − 1/4)·2^E ≤ num/den` at the bottom of a normal binade -/
  lower_binade : M = 2 ^ 52 → E ≠ -1074 → 4 * M * (den * P E) ≤ 4 * (num * Q E) + den * P E

/-- `num/den ≥ (2^53 − 1/2)·2^971`: the value rounds to infinity. -/
def Overflows (num den : Nat) : Prop := (2 ^ 54 - 1) * (2 ^ 971 * den) ≤ 2 * num

theorem P_971 : P 971 = 2 ^ 971 := by
  unfold P; rw [show (971 : Int).toNat = 971 from by decide]
theorem Q_971 : Q 971 = 1 := Q_of_nonneg (by decide)

theorem overflow_of (num den : Nat) (e : Int) (j : Nat) (he : e = 971 + j)
    (h : (2 ^ 54 - 1) * (den * P e) ≤ 2 ^ j * (2 * num * Q e)) : Overflows num den := by
  have := (scale_ge' 971 e j he (2 * num) (2 ^ 54 - 1) den).2 h
  rw [P_971, Q_971, Nat.mul_one, Nat.mul_comm den] at this
  exact this

/-! ## 7. Assembling the stages -/

/-- The carry case: the quotient rounded up to `2^53`, which is re-expressed as `2^52·2^(e+1)`. -/
theorem carry_case (neg : Bool) (num den : Nat) (e : Int) (hn : 0 < num)
    (hge : -1074 ≤ e)
    (hup : num * Q e < 2 ^ 53 * (den * P e))
    (rl : 2 * 2 ^ 53 * (den * P e) ≤ 2 * (num * Q e) + den * P e) :
    (∃ M E, decode (pack (signBit neg) (2 ^ 52) (e + 1)) = some ⟨neg, M, E⟩ ∧
        IsNearest num den M E) ∨
    (pack (signBit neg) (2 ^ 52) (e + 1) = UInt64.ofNat (signBit neg + 2047 * 2 ^ 52) ∧
        Overflows num den) := by
  have hn2 : 0 < num * Q e := Nat.mul_pos hn (Q_pos e)
  have hn2' : 0 < num * Q (e + 1) := Nat.mul_pos hn (Q_pos _)
  have hrel : den * P (e + 1) * (num * Q e) = 2 * (den * P e * (num * Q (e + 1))) := by
    have := pq_shift e (e + 1) 1 (by omega)
    grind
  by_cases ho : 971 ≤ e
  · right
    refine ⟨pack_inf neg _ _ (Nat.le_refl _) (by omega), ?_⟩
    apply overflow_of num den e (e - 971).toNat (by omega)
    have : 2 * num * Q e ≤ 2 ^ (e - 971).toNat * (2 * num * Q e) :=
      Nat.le_mul_of_pos_left _ (Nat.two_pow_pos _)
    rw [Nat.mul_assoc 2 num] at this
    rw [Nat.mul_assoc 2 num]
    omega
  · left
    refine ⟨2 ^ 52, e + 1,
      pack_norm neg _ _ (Nat.le_refl _) (by decide) (by omega) (by omega), ?_⟩
    have c1 := (cross_le hrel hn2' hn2 (by decide : 0 < 2) 1 (2 ^ 53)).1 (by omega)
    have c2 := (cross_ge hrel hn2' hn2 (by decide : 0 < 2) 2 (2 ^ 54 - 1)).1 (by omega)
    exact
      { mant_lt := by decide
        exp_ge := by omega
        exp_le := by omega
        normal := Or.inl (Nat.le_refl _)
        upper := by omega
        upper_tie := fun _ => by decide
        lower := by omega
        lower_tie := fun _ => by decide
        lower_binade := fun _ _ => by omega }

/-- The case without carry: the rounded quotient `M < 2^53` is the mantissa. -/
theorem plain_case (neg : Bool) (num den : Nat) (e : Int) (M : Nat)
    (hge : -1074 ≤ e)
    (hlo : e = -1074 ∨ 2 ^ 52 * (den * P e) ≤ num * Q e)
    (h53 : M < 2 ^ 53) (h52 : e = -1074 ∨ 2 ^ 52 ≤ M)
    (ru : 2 * (num * Q e) ≤ (2 * M + 1) * (den * P e))
    (rut : 2 * (num * Q e) = (2 * M + 1) * (den * P e) → M % 2 = 0)
    (rl : 2 * M * (den * P e) ≤ 2 * (num * Q e) + den * P e)
    (rlt : 2 * M * (den * P e) = 2 * (num * Q e) + den * P e → M % 2 = 0) :
    (∃ M' E, decode (pack (signBit neg) M e) = some ⟨neg, M', E⟩ ∧ IsNearest num den M' E) ∨
    (pack (signBit neg) M e = UInt64.ofNat (signBit neg + 2047 * 2 ^ 52) ∧
        Overflows num den) := by
  by_cases hs : M < 2 ^ 52
  · left
    have he : e = -1074 := by omega
    subst he
    refine ⟨M, -1074, pack_small neg M _ hs, ?_⟩
    exact
      { mant_lt := h53
        exp_ge := by omega
        exp_le := by omega
        normal := Or.inr rfl
        upper := ru
        upper_tie := rut
        lower := rl
        lower_tie := rlt
        lower_binade := fun _ h => absurd rfl h }
  · by_cases ho : 972 ≤ e
    · right
      refine ⟨pack_inf neg _ _ (by omega) ho, ?_⟩
      apply overflow_of num den e (e - 971).toNat (by omega)
      have hj : 2 ^ 1 ≤ 2 ^ (e - 971).toNat := Nat.pow_le_pow_right (by decide) (by omega)
      have := Nat.mul_le_mul_right (2 * num * Q e) hj
      rw [Nat.mul_assoc 2 num] at this
      rw [Nat.mul_assoc 2 num]
      have hl : 2 ^ 52 * (den * P e) ≤ num * Q e := by omega
      omega
    · left
      refine ⟨M, e, pack_norm neg M e (by omega) h53 hge (by omega), ?_⟩
      exact
        { mant_lt := h53
          exp_ge := hge
          exp_le := by omega
          normal := Or.inl (by omega)
          upper := ru
          upper_tie := rut
          lower := rl
          lower_tie := rlt
          lower_binade := fun hM hE => by
            have hl : 2 ^ 52 * (den * P e) ≤ num * Q e := by omega
            subst hM; omega }

/-- All stages together, for a positive value `num/den`: the result is either a finite float that
is a nearest-even rounding, or the infinity of the right sign and the value is at or above the
overflow threshold. -/
theorem round_core (neg : Bool) (num den : Nat) (hn : 0 < num) (hd : 0 < den)
    (e : Int) (he : e = chooseE num den) (M0 : Nat) (hM : M0 = roundDiv (num * Q e) (den * P e)) :
    (∃ M E, decode (if M0 ≥ 2 ^ 53 then pack (signBit neg) (M0 / 2) (e + 1)
        else pack (signBit neg) M0 e) = some ⟨neg, M, E⟩ ∧ IsNearest num den M E) ∨
    ((if M0 ≥ 2 ^ 53 then pack (signBit neg) (M0 / 2) (e + 1) else pack (signBit neg) M0 e)
        = UInt64.ofNat (signBit neg + 2047 * 2 ^ 52) ∧ Overflows num den) := by
  obtain ⟨hge, hup, hlo⟩ := chooseE_spec num den hn hd
  rw [← he] at hge hup hlo
  have hd2 : 0 < den * P e := Nat.mul_pos hd (P_pos e)
  obtain ⟨ru, rut, rl, rlt, -, -⟩ := roundDiv_spec (num * Q e) (den * P e) hd2
  have h53 := roundDiv_le _ _ (2 ^ 53) hd2 hup
  have h52 : e = -1074 ∨ 2 ^ 52 ≤ roundDiv (num * Q e) (den * P e) :=
    hlo.imp id (roundDiv_ge _ _ (2 ^ 52) hd2)
  rw [← hM] at ru rut rl rlt h53 h52
  by_cases hc : M0 ≥ 2 ^ 53
  · rw [if_pos hc]
    have hM0 : M0 = 2 ^ 53 := by omega
    subst hM0
    rw [show 2 ^ 53 / 2 = 2 ^ 52 from by decide]
    exact carry_case neg num den e hn hge hup rl
  · rw [if_neg hc]
    exact plain_case neg num den e M0 hge hlo (by omega) h52 ru rut rl rlt

/-! ## 8. Main theorems -/

theorem isNearest_zero (den : Nat) (hd : 0 < den) : IsNearest 0 den 0 (-1074) := by
  have hd2 : 0 < den * P (-1074) := Nat.mul_pos hd (P_pos _)
  exact
    { mant_lt := by decide
      exp_ge := by decide
      exp_le := by decide
      normal := Or.inr rfl
      upper := by omega
      upper_tie := fun _ => rfl
      lower := by omega
      lower_tie := fun _ => rfl
      lower_binade := fun _ h => absurd rfl h }

/-- `ofDecimal neg 0 d` is the signed zero. -/
theorem ofDecimal_zero (neg : Bool) (d : Int) :
    ofDecimal neg 0 d = UInt64.ofNat (signBit neg) := by
  rw [ofDecimal_unfold]; rfl

/-- Case form of correctness, for every `m` (including `0`): the result is a finite float of sign
`neg` which is a nearest-even rounding of `m·10^d`, or it is the infinity of sign `neg` and
`m·10^d` is at or above the overflow threshold. -/
theorem ofDecimal_cases (neg : Bool) (m : Nat) (d : Int) :
    (∃ M E, decode (ofDecimal neg m d) = some ⟨neg, M, E⟩ ∧
        IsNearest (decNum m d) (decDen d) M E) ∨
    (ofDecimal neg m d = UInt64.ofNat (signBit neg + 2047 * 2 ^ 52) ∧
        Overflows (decNum m d) (decDen d)) := by
  by_cases hm : m = 0
  · subst hm
    left
    refine ⟨0, -1074, ?_, ?_⟩
    · rw [ofDecimal_zero]; exact decode_sub neg 0 (by decide)
    · have : decNum 0 d = 0 := by unfold decNum; split <;> simp
      rw [this]; exact isNearest_zero _ (decDen_pos d)
  · rw [ofDecimal_unfold, if_neg hm]
    exact round_core neg (decNum m d) (decDen d) (decNum_pos d (by omega)) (decDen_pos d)
      _ rfl _ rfl

theorem P_m1074 : P (-1074) = 1 := P_of_neg (by decide)
theorem Q_m1074 : Q (-1074) = 2 ^ 1074 := by
  unfold Q; rw [show (-(-1074 : Int)).toNat = 1074 from by decide]

/-- A nearest-even result has mantissa `0` exactly when the value is at most half the smallest
subnormal `2^(-1074)` (the tie goes to the even mantissa `0`). -/
theorem isNearest_zero_iff {num den M : Nat} {E : Int} (hd : 0 < den)
    (h : IsNearest num den M E) : M = 0 ↔ 2 * (num * 2 ^ 1074) ≤ den := by
  constructor
  · intro hM
    subst hM
    have hE : E = -1074 := by
      rcases h.normal with h1 | h1
      · exact absurd h1 (by decide)
      · exact h1
    subst hE
    have := h.upper
    rw [P_m1074, Q_m1074] at this
    omega
  · intro hz
    have hd2 : 0 < den * P E := Nat.mul_pos hd (P_pos E)
    rw [← Q_m1074] at hz
    have h1 := (scale_le' (-1074) E (E + 1074).toNat (by have := h.exp_ge; omega)
      (2 * num) 1 den).1 (by rw [P_m1074, Nat.mul_assoc]; omega)
    clear hz
    have h2 : 2 * num * Q E ≤ 2 ^ (E + 1074).toNat * (2 * num * Q E) :=
      Nat.le_mul_of_pos_left _ (Nat.two_pow_pos _)
    rw [Nat.mul_assoc 2 num] at h1 h2
    have hl := h.lower
    have hlt := h.lower_tie
    match M, hl, hlt with
    | 0, _, _ => rfl
    | 1, hl, hlt =>
      have := hlt (by omega)
      omega
    | M + 2, hl, _ =>
      exfalso
      have : 2 * (M + 2) * (den * P E) = 4 * (den * P E) + 2 * M * (den * P E) := by grind
      omega

/-- **Main theorem.**  For `m > 0`:
* if the result decodes to the finite float `(s, M, E)` then `s = neg`, `M·2^E` is a nearest-even
  rounding of `m·10^d`, and `M = 0` exactly when `m·10^d ≤ 2^(-1075)` (half the least subnormal);
* if the result does not decode (infinity/NaN pattern) then it is exactly the infinity of sign
  `neg` and `m·10^d ≥ (2^53 − 1/2)·2^971`. -/
theorem ofDecimal_correct (neg : Bool) (m : Nat) (d : Int) (_hm : 0 < m) :
    (∀ s M E, decode (ofDecimal neg m d) = some ⟨s, M, E⟩ →
      s = neg ∧ IsNearest (decNum m d) (decDen d) M E ∧
      (M = 0 ↔ 2 * (decNum m d * 2 ^ 1074) ≤ decDen d)) ∧
    (decode (ofDecimal neg m d) = none →
      ofDecimal neg m d = UInt64.ofNat (signBit neg + 2047 * 2 ^ 52) ∧
      Overflows (decNum m d) (decDen d)) := by
  rcases ofDecimal_cases neg m d with ⟨M', E', hdec, hN⟩ | ⟨hbits, hov⟩
  · constructor
    · intro s M E h
      rw [hdec] at h
      injection h with h
      injection h with h1 h2 h3
      subst h1 h2 h3
      exact ⟨rfl, hN, isNearest_zero_iff (decDen_pos d) hN⟩
    · intro h; rw [hdec] at h; exact absurd h (by simp)
  · constructor
    · intro s M E h
      rw [hbits, decode_inf] at h
      exact absurd h (by simp)
    · intro _; exact ⟨hbits, hov⟩

/-- The form literally asked for: `M = 0` below half the least subnormal, or nearest. -/
theorem ofDecimal_correct_disj (neg : Bool) (m : Nat) (d : Int) (hm : 0 < m) (s : Bool) (M : Nat)
    (E : Int) (h : decode (ofDecimal neg m d) = some ⟨s, M, E⟩) :
    s = neg ∧ ((M = 0 ∧ 2 * (decNum m d * 2 ^ 1074) ≤ decDen d) ∨
      IsNearest (decNum m d) (decDen d) M E) :=
  let ⟨h1, h2, _⟩ := (ofDecimal_correct neg m d hm).1 s M E h
  ⟨h1, Or.inr h2⟩

/-! ## 9. Uniqueness: `IsNearest` determines the float -/

/-- The half-step conditions in common units (`N` against `M·u`); `sub` says "subnormal binade". -/
structure NearK (N u M : Nat) (sub : Prop) : Prop where
  mant_lt : M < 2 ^ 53
  normal : 2 ^ 52 ≤ M ∨ sub
  upper : 2 * N ≤ (2 * M + 1) * u
  upper_tie : 2 * N = (2 * M + 1) * u → M % 2 = 0
  lower : 2 * M * u ≤ 2 * N + u
  lower_tie : 2 * M * u = 2 * N + u → M % 2 = 0
  lower_binade : M = 2 ^ 52 → ¬ sub → 4 * M * u ≤ 4 * N + u

/-- Any linear comparison at exponent `E` can be read in units of `2^(-1074)`. -/
theorem nk_le (num den : Nat) (E : Int) (hE : -1074 ≤ E) (X Y Z W : Nat) :
    X * (num * Q E) + Y * (den * P E) ≤ Z * (num * Q E) + W * (den * P E) ↔
    X * (num * Q (-1074)) + Y * (den * 2 ^ (E + 1074).toNat) ≤
      Z * (num * Q (-1074)) + W * (den * 2 ^ (E + 1074).toNat) := by
  have h := pq_shift (-1074) E (E + 1074).toNat (by omega)
  rw [P_m1074, Nat.one_mul] at h
  have hq := Q_pos E
  have ht := Q_pos (-1074)
  generalize P E = p at *
  generalize Q E = q at *
  generalize Q (-1074) = t at *
  generalize 2 ^ (E + 1074).toNat = K at *
  have e1 : (X * (num * q) + Y * (den * p)) * t = q * (X * (num * t) + Y * (den * K)) := by grind
  have e2 : (Z * (num * q) + W * (den * p)) * t = q * (Z * (num * t) + W * (den * K)) := by grind
  constructor
  · intro hh
    have := Nat.mul_le_mul_right t hh
    rw [e1, e2] at this
    exact Nat.le_of_mul_le_mul_left this hq
  · intro hh
    have := Nat.mul_le_mul_left q hh
    rw [← e1, ← e2] at this
    exact Nat.le_of_mul_le_mul_right this ht

theorem nk_eq (num den : Nat) (E : Int) (hE : -1074 ≤ E) (X Y Z W : Nat) :
    X * (num * Q E) + Y * (den * P E) = Z * (num * Q E) + W * (den * P E) ↔
    X * (num * Q (-1074)) + Y * (den * 2 ^ (E + 1074).toNat) =
      Z * (num * Q (-1074)) + W * (den * 2 ^ (E + 1074).toNat) := by
  have h1 := nk_le num den E hE X Y Z W
  have h2 := nk_le num den E hE Z W X Y
  omega

theorem IsNearest.toK {num den M : Nat} {E : Int} (h : IsNearest num den M E) :
    NearK (num * Q (-1074)) (den * 2 ^ (E + 1074).toNat) M (E = -1074) := by
  have hE := h.exp_ge
  exact
    { mant_lt := h.mant_lt
      normal := h.normal
      upper := by
        have := (nk_le num den E hE 2 0 0 (2 * M + 1)).1 (by have := h.upper; omega)
        omega
      upper_tie := fun ht => h.upper_tie (by
        have := (nk_eq num den E hE 2 0 0 (2 * M + 1)).2 (by omega)
        omega)
      lower := by
        have := (nk_le num den E hE 0 (2 * M) 2 1).1 (by have := h.lower; omega)
        omega
      lower_tie := fun ht => h.lower_tie (by
        have := (nk_eq num den E hE 0 (2 * M) 2 1).2 (by omega)
        omega)
      lower_binade := fun hM hs => by
        have := (nk_le num den E hE 0 (4 * M) 4 1).1 (by have := h.lower_binade hM hs; omega)
        omega }

theorem odd_mul (M u : Nat) : (2 * M + 1) * u = 2 * (M * u) + u := by grind

theorem NearK.not_lt {N u M1 M2 : Nat} {s1 s2 : Prop} (hu : 0 < u)
    (h1 : NearK N u M1 s1) (h2 : NearK N u M2 s2) : ¬ M1 < M2 := by
  intro hlt
  have hm : (M1 + 1) * u ≤ M2 * u := Nat.mul_le_mul_right u hlt
  have e1 : (2 * M1 + 1) * u = 2 * (M1 * u) + u := by grind
  have e2 : 2 * M2 * u = 2 * (M2 * u) := Nat.mul_assoc _ _ _
  have e3 : (M1 + 1) * u = M1 * u + u := by grind
  have hu1 := h1.upper
  have hl2 := h2.lower
  have t1 := h1.upper_tie
  have t2 := h2.lower_tie
  rw [e1] at hu1 t1
  rw [e2] at hl2 t2
  rw [e3] at hm
  have hmm : M2 * u = (M1 + 1) * u := by rw [e3]; omega
  have := Nat.eq_of_mul_eq_mul_right hu hmm
  have := t1 (by omega)
  have := t2 (by omega)
  omega

theorem NearK.unique_same {N u M1 M2 : Nat} {s1 s2 : Prop} (hu : 0 < u)
    (h1 : NearK N u M1 s1) (h2 : NearK N u M2 s2) : M1 = M2 := by
  have := NearK.not_lt hu h1 h2
  have := NearK.not_lt hu h2 h1
  omega

theorem cross_arith1 (N a1 u1 w : Nat) (hw : u1 ≤ w)
    (hq : 4 * 2 ^ 52 * (2 * w) ≤ 4 * N + 2 * w)
    (hu1 : 2 * N ≤ 2 * a1 + u1) (ha1 : a1 ≤ (2 ^ 53 - 1) * u1) :
    a1 = (2 ^ 53 - 1) * u1 ∧ 2 * N = 2 * a1 + u1 := by
  omega

theorem cross_arith2 (N a1 u1 w a2 : Nat) (hu : 0 < u1) (hw : u1 ≤ w)
    (ha2 : (2 ^ 52 + 1) * (2 * w) ≤ a2) (hl2 : 2 * a2 ≤ 2 * N + 2 * w)
    (hu1 : 2 * N ≤ 2 * a1 + u1) (ha1 : a1 ≤ (2 ^ 53 - 1) * u1) : False := by
  omega

/-- Two candidates in different binades (`u2 = 2w ≥ 2·u1`) cannot both be nearest: the top of the
lower binade `(2^53−1)·u1` is odd, and the bottom of the upper binade needs quarter-step
closeness. -/
theorem NearK.not_cross {N u1 w M1 M2 : Nat} {s1 s2 : Prop} (hu : 0 < u1) (hw : u1 ≤ w)
    (hs2 : ¬ s2) (h1 : NearK N u1 M1 s1) (h2 : NearK N (2 * w) M2 s2) : False := by
  have hM2 : 2 ^ 52 ≤ M2 := h2.normal.resolve_right hs2
  have hM1 := h1.mant_lt
  have ha1 : M1 * u1 ≤ (2 ^ 53 - 1) * u1 := Nat.mul_le_mul_right u1 (by omega)
  have hu1 := h1.upper
  rw [odd_mul] at hu1
  by_cases hb : M2 = 2 ^ 52
  · have hq := h2.lower_binade hb hs2
    subst hb
    obtain ⟨ha, hN⟩ := cross_arith1 N (M1 * u1) u1 w hw hq hu1 ha1
    have hM := Nat.eq_of_mul_eq_mul_right hu ha
    have hev := h1.upper_tie (by rw [odd_mul]; exact hN)
    rw [hM] at hev
    exact absurd hev (by decide)
  · have ha2 : (2 ^ 52 + 1) * (2 * w) ≤ M2 * (2 * w) := Nat.mul_le_mul_right _ (by omega)
    have hl2 := h2.lower
    rw [Nat.mul_assoc 2 M2] at hl2
    exact cross_arith2 N (M1 * u1) u1 w (M2 * (2 * w)) hu hw ha2 hl2 hu1 ha1

/-- **Uniqueness.**  Two float64 values that are both nearest-even roundings of the same
`num/den` have the same mantissa and exponent.  (Ties are resolved by evenness; at a binade
boundary by the quarter-step condition.) -/
theorem isNearest_unique {num den M1 M2 : Nat} {E1 E2 : Int} (hd : 0 < den)
    (h1 : IsNearest num den M1 E1) (h2 : IsNearest num den M2 E2) : M1 = M2 ∧ E1 = E2 := by
  have k1 := h1.toK
  have k2 := h2.toK
  have hE1 := h1.exp_ge
  have hE2 := h2.exp_ge
  have cross : ∀ {Ma Mb : Nat} {Ea Eb : Int}, -1074 ≤ Ea → Ea < Eb →
      NearK (num * Q (-1074)) (den * 2 ^ (Ea + 1074).toNat) Ma (Ea = -1074) →
      NearK (num * Q (-1074)) (den * 2 ^ (Eb + 1074).toNat) Mb (Eb = -1074) → False := by
    intro Ma Mb Ea Eb ha hab ka kb
    have hp : 2 ^ (Eb + 1074).toNat =
        2 * (2 ^ (Ea + 1074).toNat * 2 ^ ((Eb + 1074).toNat - (Ea + 1074).toNat - 1)) := by
      rw [← Nat.pow_add, ← Nat.pow_succ']
      congr 1; omega
    have hu : den * 2 ^ (Eb + 1074).toNat =
        2 * (den * 2 ^ (Ea + 1074).toNat *
          2 ^ ((Eb + 1074).toNat - (Ea + 1074).toNat - 1)) := by
      rw [hp]; grind
    rw [hu] at kb
    exact NearK.not_cross (Nat.mul_pos hd (Nat.two_pow_pos _))
      (Nat.le_mul_of_pos_right _ (Nat.two_pow_pos _)) (by omega) ka kb
  rcases Int.lt_trichotomy E1 E2 with hlt | heq | hgt
  · exact (cross hE1 hlt k1 k2).elim
  · subst heq
    exact ⟨NearK.unique_same (Nat.mul_pos hd (Nat.two_pow_pos _)) k1 k2, rfl⟩
  · exact (cross hE2 hgt k2 k1).elim

theorem overflow_arith (n2 d2 a : Nat) (h1 : (2 ^ 54 - 1) * d2 ≤ 2 * n2) (h2 : 2 * n2 ≤ 2 * a + d2)
    (h3 : a ≤ (2 ^ 53 - 1) * d2) : a = (2 ^ 53 - 1) * d2 ∧ 2 * n2 = 2 * a + d2 := by
  omega

/-- A value at or above the overflow threshold has no finite nearest-even float: the candidate
`(2^53−1)·2^971` has an odd mantissa, so the tie goes to infinity. -/
theorem isNearest_not_overflow {num den M : Nat} {E : Int} (hd : 0 < den)
    (h : IsNearest num den M E) : ¬ Overflows num den := by
  intro ho
  unfold Overflows at ho
  have hd2 : 0 < den * P E := Nat.mul_pos hd (P_pos E)
  have hE := h.exp_le
  have h1 := (scale_ge' E 971 (971 - E).toNat (by omega) (2 * num) (2 ^ 54 - 1) den).2 (by
    rw [P_971, Q_971, Nat.mul_one, Nat.mul_comm den]
    exact Nat.le_trans ho (Nat.le_mul_of_pos_left _ (Nat.two_pow_pos _)))
  rw [Nat.mul_assoc 2 num] at h1
  have hu := h.upper
  rw [odd_mul] at hu
  have hM := h.mant_lt
  have ha : M * (den * P E) ≤ (2 ^ 53 - 1) * (den * P E) := Nat.mul_le_mul_right _ (by omega)
  obtain ⟨e1, e2⟩ := overflow_arith _ _ _ h1 hu ha
  have hM' := Nat.eq_of_mul_eq_mul_right hd2 e1
  have hev := h.upper_tie (by rw [odd_mul]; exact e2)
  rw [hM'] at hev
  exact absurd hev (by decide)

/-! ## 10. The sign -/

theorem pack_sign (neg : Bool) (mant : Nat) (e : Int) :
    pack (signBit neg) mant e = pack 0 mant e + UInt64.ofNat (signBit neg) := by
  unfold pack
  simp only [Nat.zero_add]
  split
  · rw [show UInt64.ofNat 0 = 0 from rfl, UInt64.zero_add]
  · split
    · rw [UInt64.ofNat_add, UInt64.add_comm]
    · split
      · rw [UInt64.ofNat_add, UInt64.add_comm]
      · rw [Nat.add_assoc, UInt64.ofNat_add, UInt64.add_comm]

/-- The sign only contributes bit 63: the bits for `neg` are the bits of the positive result plus
`signBit neg` (`2^63` or `0`), and the positive result is below `2^63`. -/
theorem ofDecimal_neg (neg : Bool) (m : Nat) (d : Int) :
    ofDecimal neg m d = ofDecimal false m d + UInt64.ofNat (signBit neg) ∧
    (ofDecimal false m d).toNat < 2 ^ 63 := by
  constructor
  · rw [ofDecimal_unfold neg, ofDecimal_unfold false, signBit_false]
    split
    · rw [show UInt64.ofNat 0 = 0 from rfl, UInt64.zero_add]
    · split
      · exact pack_sign neg _ _
      · exact pack_sign neg _ _
  · rcases ofDecimal_cases false m d with ⟨M, E, hdec, -⟩ | ⟨hbits, -⟩
    · have hp := decode_of_parts (ofDecimal false m d) _ _ _ rfl rfl rfl
      rw [hdec] at hp
      have hlt := UInt64.toNat_lt (ofDecimal false m d)
      generalize (ofDecimal false m d).toNat = n at *
      have hs : (n / 2 ^ 63 == 1) = false := by
        split at hp
        · exact absurd hp (by simp)
        · split at hp
          · injection hp with hp; injection hp with h1 _ _; exact h1.symm
          · injection hp with hp; injection hp with h1 _ _; exact h1.symm
      rw [beq_eq_false_iff_ne] at hs
      omega
    · rw [hbits, UInt64.toNat_ofNat', signBit_false]
      decide

/-! ## 11. `decode` is injective on finite floats; `parsesTo` -/

theorem decode_some {w : UInt64} {dy : Num.Dyadic} (h : decode w = some dy) :
    (w.toNat / 2 ^ 52 % 2048 = 0 ∧ dy = ⟨w.toNat / 2 ^ 63 == 1, w.toNat % 2 ^ 52, -1074⟩) ∨
    (w.toNat / 2 ^ 52 % 2048 ≠ 0 ∧ w.toNat / 2 ^ 52 % 2048 ≠ 2047 ∧
      dy = ⟨w.toNat / 2 ^ 63 == 1, w.toNat % 2 ^ 52 + 2 ^ 52,
        Int.ofNat (w.toNat / 2 ^ 52 % 2048) - 1075⟩) := by
  rw [decode_of_parts w _ _ _ rfl rfl rfl] at h
  split at h
  · exact absurd h (by simp)
  · rename_i h1
    split at h
    · rename_i h2
      left
      injection h with h
      exact ⟨by simpa using h2, h.symm⟩
    · rename_i h2
      right
      injection h with h
      exact ⟨by simpa using h2, by simpa using h1, h.symm⟩

theorem bits_split (n : Nat) (h : n < 2 ^ 64) :
    n = (n / 2 ^ 63) * 2 ^ 63 + (n / 2 ^ 52 % 2048) * 2 ^ 52 + n % 2 ^ 52 ∧ n / 2 ^ 63 < 2 := by
  omega

/-- Distinct finite bit patterns decode to distinct `(sign, mantissa, exponent)` triples. -/
theorem decode_inj {w1 w2 : UInt64} {dy : Num.Dyadic} (h1 : decode w1 = some dy)
    (h2 : decode w2 = some dy) : w1 = w2 := by
  apply UInt64.toNat_inj.1
  have b1 := bits_split w1.toNat (UInt64.toNat_lt w1)
  have b2 := bits_split w2.toNat (UInt64.toNat_lt w2)
  have l1 : w1.toNat % 2 ^ 52 < 2 ^ 52 := Nat.mod_lt _ (by decide)
  have l2 : w2.toNat % 2 ^ 52 < 2 ^ 52 := Nat.mod_lt _ (by decide)
  have c1 := decode_some h1
  have c2 := decode_some h2
  generalize w1.toNat / 2 ^ 63 = s1 at *
  generalize w2.toNat / 2 ^ 63 = s2 at *
  generalize w1.toNat / 2 ^ 52 % 2048 = x1 at *
  generalize w2.toNat / 2 ^ 52 % 2048 = x2 at *
  generalize w1.toNat % 2 ^ 52 = f1 at *
  generalize w2.toNat % 2 ^ 52 = f2 at *
  have hs : ∀ a b : Nat, a < 2 → b < 2 → (a == 1) = (b == 1) → a = b := by
    intro a b ha hb h
    have ha' : a = 0 ∨ a = 1 := by omega
    have hb' : b = 0 ∨ b = 1 := by omega
    rcases ha' with rfl | rfl <;> rcases hb' with rfl | rfl <;> simp at h ⊢
  rcases c1 with ⟨z1, d1⟩ | ⟨z1, -, d1⟩ <;> rcases c2 with ⟨z2, d2⟩ | ⟨z2, -, d2⟩
  · rw [d1] at d2; injection d2 with e1 e2 e3
    have := hs _ _ b1.2 b2.2 e1
    omega
  · rw [d1] at d2; injection d2 with e1 e2 e3
    omega
  · rw [d1] at d2; injection d2 with e1 e2 e3
    omega
  · rw [d1] at d2; injection d2 with e1 e2 e3
    have := hs _ _ b1.2 b2.2 e1
    have e3' : Int.ofNat x1 = Int.ofNat x2 := by omega
    have := Int.ofNat.inj e3'
    omega

/-- **Corollary (soundness of the round-trip check).**  If `parsesTo bits text` holds and `bits`
is finite, then `text` is a positional decimal `±m·10^d` and `bits` is a nearest-even float64 of
it, with the sign of the text. -/
theorem parsesTo_sound {bits : UInt64} {text : List UInt8} {dy : Num.Dyadic}
    (h : parsesTo bits text = true) (hd : decode bits = some dy) :
    ∃ neg m d, parsePositional text = some (neg, m, d) ∧ dy.neg = neg ∧
      IsNearest (decNum m d) (decDen d) dy.m dy.e := by
  unfold parsesTo at h
  split at h
  · rename_i neg m d hp
    refine ⟨neg, m, d, hp, ?_⟩
    have hb : ofDecimal neg m d = bits := by simpa using h
    subst hb
    rcases ofDecimal_cases neg m d with ⟨M, E, hdec, hN⟩ | ⟨hbits, -⟩
    · rw [hdec] at hd
      injection hd with hd
      subst hd
      exact ⟨rfl, hN⟩
    · rw [hbits, decode_inf] at hd
      exact absurd hd (by simp)
  · exact absurd h (by simp)

/-- **Corollary (a correct IEEE parser returns exactly `bits`).**  If `parsesTo bits text` holds,
then every finite float64 `bits'` of the text's sign that is a nearest-even rounding of the
decimal denoted by `text` is `bits` itself; in particular `bits` is then finite. -/
theorem parsesTo_unique {bits bits' : UInt64} {text : List UInt8} {neg : Bool} {m : Nat} {d : Int}
    {dy' : Num.Dyadic} (h : parsesTo bits text = true) (hp : parsePositional text = some (neg, m, d))
    (hd' : decode bits' = some dy') (hs : dy'.neg = neg)
    (hn : IsNearest (decNum m d) (decDen d) dy'.m dy'.e) : bits' = bits := by
  unfold parsesTo at h
  rw [hp] at h
  have hb : ofDecimal neg m d = bits := by simpa using h
  subst hb
  rcases ofDecimal_cases neg m d with ⟨M, E, hdec, hN⟩ | ⟨-, hov⟩
  · obtain ⟨e1, e2⟩ := isNearest_unique (decDen_pos d) hn hN
    apply decode_inj hd'
    rw [hdec]
    cases dy' with
    | mk n' m' e' =>
      simp only at hs e1 e2
      rw [hs, e1, e2]
  · exact absurd hov (isNearest_not_overflow (decDen_pos d) hn)

/-! ## 12. `IsNearest` means "closest representable value, ties to even"

This is the lemma that makes the half-step formulation the right notion: a value satisfying
`IsNearest` is at least as close to `num/den` as *every* float64-representable value, and whenever
another representable value is equally close, the chosen mantissa is even. -/

/-- `|a − b|` on naturals -/
def absDiff (a b : Nat) : Nat := (a - b) + (b - a)

/-- `M·2^E` is a finite float64 value in normalised form. -/
def Representable (M : Nat) (E : Int) : Prop :=
  M < 2 ^ 53 ∧ -1074 ≤ E ∧ E ≤ 971 ∧ (2 ^ 52 ≤ M ∨ E = -1074)

theorem close_far_arith (N u a a' : Nat) (hup : 2 * N ≤ 2 * a + u) (hlo : 2 * a ≤ 2 * N + u)
    (h : a + u ≤ a' ∨ a' + u ≤ a) :
    absDiff N a ≤ absDiff N a' ∧
    (absDiff N a = absDiff N a' → 2 * N = 2 * a + u ∨ 2 * a = 2 * N + u) := by
  unfold absDiff; omega

theorem close_quarter_arith (N w u' a' : Nat) (hw : u' ≤ w) (hu' : 0 < u')
    (hq : 4 * 2 ^ 52 * (2 * w) ≤ 4 * N + 2 * w)
    (ha' : a' ≤ (2 ^ 53 - 1) * u') :
    absDiff N (2 ^ 52 * (2 * w)) ≤ absDiff N a' := by
  unfold absDiff; omega

theorem up_arith (u w a a' : Nat) (hw : u ≤ w) (ha : a + u ≤ 2 ^ 53 * u)
    (ha' : 2 ^ 52 * (2 * w) ≤ a') : a + u ≤ a' := by omega

theorem down_arith (u' w a a' : Nat) (hw : u' ≤ w) (ha : (2 ^ 52 + 1) * (2 * w) ≤ a)
    (ha' : a' ≤ (2 ^ 53 - 1) * u') : a' + 2 * w ≤ a := by omega

/-- Any value at least one step `u` away from `M·u` is no closer, and equally close only at a
tie, where `M` is even. -/
theorem NearK.closest_far {N u M a' : Nat} {s : Prop} (h : NearK N u M s)
    (hfar : M * u + u ≤ a' ∨ a' + u ≤ M * u) :
    absDiff N (M * u) ≤ absDiff N a' ∧ (absDiff N (M * u) = absDiff N a' → M % 2 = 0) := by
  have hup := h.upper
  have hlo := h.lower
  rw [odd_mul] at hup
  rw [Nat.mul_assoc 2 M] at hlo
  obtain ⟨c1, c2⟩ := close_far_arith N u (M * u) a' hup hlo hfar
  refine ⟨c1, fun he => ?_⟩
  rcases c2 he with t | t
  · exact h.upper_tie (by rw [odd_mul]; exact t)
  · exact h.lower_tie (by rw [Nat.mul_assoc 2 M]; exact t)

theorem pow_split {k k' : Nat} (h : k < k') : 2 ^ k' = 2 * (2 ^ k * 2 ^ (k' - k - 1)) := by
  rw [← Nat.pow_add, ← Nat.pow_succ']
  congr 1; omega

theorem unit_split (D : Nat) {k k' : Nat} (h : k < k') :
    D * 2 ^ k' = 2 * (D * 2 ^ k * 2 ^ (k' - k - 1)) := by
  rw [pow_split h]; grind

/-- Closest-value property in common units. -/
theorem closestK {N D M k M' k' : Nat} {s : Prop} (hD : 0 < D) (hs : s → k = 0)
    (h : NearK N (D * 2 ^ k) M s) (hM' : M' < 2 ^ 53) (hn' : 2 ^ 52 ≤ M' ∨ k' = 0) :
    absDiff N (M * (D * 2 ^ k)) ≤ absDiff N (M' * (D * 2 ^ k')) ∧
    (absDiff N (M * (D * 2 ^ k)) = absDiff N (M' * (D * 2 ^ k')) → ¬ (M = M' ∧ k = k') →
      M % 2 = 0) := by
  have hM := h.mant_lt
  rcases Nat.lt_trichotomy k k' with hlt | heq | hgt
  · -- the other value lies in a higher binade
    have hM'2 : 2 ^ 52 ≤ M' := by omega
    have hu := unit_split D hlt
    have hw : D * 2 ^ k ≤ D * 2 ^ k * 2 ^ (k' - k - 1) :=
      Nat.le_mul_of_pos_right _ (Nat.two_pow_pos _)
    rw [hu]
    generalize D * 2 ^ k * 2 ^ (k' - k - 1) = w at *
    have ha : M * (D * 2 ^ k) + D * 2 ^ k ≤ 2 ^ 53 * (D * 2 ^ k) := by
      have := Nat.mul_le_mul_right (D * 2 ^ k) (show M + 1 ≤ 2 ^ 53 by omega)
      rw [Nat.add_mul, Nat.one_mul] at this; exact this
    have ha' : 2 ^ 52 * (2 * w) ≤ M' * (2 * w) := Nat.mul_le_mul_right _ hM'2
    obtain ⟨c1, c2⟩ := h.closest_far (a' := M' * (2 * w)) (Or.inl (up_arith _ _ _ _ hw ha ha'))
    exact ⟨c1, fun he _ => c2 he⟩
  · subst heq
    have hu : 0 < D * 2 ^ k := Nat.mul_pos hD (Nat.two_pow_pos _)
    rcases Nat.lt_trichotomy M M' with h1 | h1 | h1
    · have := Nat.mul_le_mul_right (D * 2 ^ k) (show M + 1 ≤ M' by omega)
      rw [Nat.add_mul, Nat.one_mul] at this
      obtain ⟨c1, c2⟩ := h.closest_far (Or.inl this)
      exact ⟨c1, fun he _ => c2 he⟩
    · subst h1
      exact ⟨Nat.le_refl _, fun _ hne => absurd ⟨rfl, rfl⟩ hne⟩
    · have := Nat.mul_le_mul_right (D * 2 ^ k) (show M' + 1 ≤ M by omega)
      rw [Nat.add_mul, Nat.one_mul] at this
      obtain ⟨c1, c2⟩ := h.closest_far (Or.inr this)
      exact ⟨c1, fun he _ => c2 he⟩
  · -- the other value lies in a lower binade
    have hns : ¬ s := fun hh => by have := hs hh; omega
    have hM2 : 2 ^ 52 ≤ M := h.normal.resolve_right hns
    have hu := unit_split D hgt
    have hw : D * 2 ^ k' ≤ D * 2 ^ k' * 2 ^ (k - k' - 1) :=
      Nat.le_mul_of_pos_right _ (Nat.two_pow_pos _)
    have hu' : 0 < D * 2 ^ k' := Nat.mul_pos hD (Nat.two_pow_pos _)
    rw [hu] at h ⊢
    generalize D * 2 ^ k' * 2 ^ (k - k' - 1) = w at *
    have ha' : M' * (D * 2 ^ k') ≤ (2 ^ 53 - 1) * (D * 2 ^ k') :=
      Nat.mul_le_mul_right _ (by omega)
    by_cases hb : M = 2 ^ 52
    · have hq := h.lower_binade hb hns
      subst hb
      exact ⟨close_quarter_arith N w _ _ hw hu' hq ha', fun _ _ => by decide⟩
    · have ha : (2 ^ 52 + 1) * (2 * w) ≤ M * (2 * w) := Nat.mul_le_mul_right _ (by omega)
      obtain ⟨c1, c2⟩ := h.closest_far (a' := M' * (D * 2 ^ k'))
        (Or.inr (down_arith _ _ _ _ hw ha ha'))
      exact ⟨c1, fun he _ => c2 he⟩

/-- Distances at exponent `E` expressed in units of `2^(-1074)`. -/
theorem absDiff_scale (num den M : Nat) (E : Int) (hE : -1074 ≤ E) :
    absDiff (num * Q E) (M * (den * P E)) * Q (-1074) =
      Q E * absDiff (num * Q (-1074)) (M * (den * 2 ^ (E + 1074).toNat)) := by
  have h := pq_shift (-1074) E (E + 1074).toNat (by omega)
  rw [P_m1074, Nat.one_mul] at h
  generalize P E = p at *
  generalize Q E = q at *
  generalize Q (-1074) = t at *
  generalize 2 ^ (E + 1074).toNat = K at *
  have x : num * q * t = q * (num * t) := by grind
  have y : M * (den * p) * t = q * (M * (den * K)) := by grind
  unfold absDiff
  rw [Nat.add_mul, Nat.sub_mul, Nat.sub_mul, x, y, Nat.mul_add, Nat.mul_sub, Nat.mul_sub]

/-- **Closest value.**  If `M·2^E` satisfies `IsNearest` for `num/den`, then for every
representable `M'·2^E'` we have `|num/den − M·2^E| ≤ |num/den − M'·2^E'|` (cross multiplied:
`|num·Q − M·den·P| / (den·Q)` against the same with primes), and if the two distances are equal
for a different float then `M` is even. -/
theorem isNearest_closest {num den M M' : Nat} {E E' : Int} (hd : 0 < den)
    (h : IsNearest num den M E) (hr : Representable M' E') :
    absDiff (num * Q E) (M * (den * P E)) * Q E' ≤
      absDiff (num * Q E') (M' * (den * P E')) * Q E ∧
    (absDiff (num * Q E) (M * (den * P E)) * Q E' =
      absDiff (num * Q E') (M' * (den * P E')) * Q E → ¬ (M = M' ∧ E = E') → M % 2 = 0) := by
  obtain ⟨hM', hE'1, -, hn'⟩ := hr
  have hE := h.exp_ge
  have b1 := absDiff_scale num den M E hE
  have b2 := absDiff_scale num den M' E' hE'1
  obtain ⟨c1, c2⟩ := closestK (k' := (E' + 1074).toNat) hd (fun hs => by omega) h.toK hM'
    (hn'.imp id (fun hh => by omega))
  have hq := Q_pos E
  have hq' := Q_pos E'
  have ht := Q_pos (-1074)
  generalize absDiff (num * Q E) (M * (den * P E)) = A at *
  generalize absDiff (num * Q E') (M' * (den * P E')) = A' at *
  generalize absDiff (num * Q (-1074)) (M * (den * 2 ^ (E + 1074).toNat)) = Dd at *
  generalize absDiff (num * Q (-1074)) (M' * (den * 2 ^ (E' + 1074).toNat)) = Dd' at *
  generalize Q E = q at *
  generalize Q E' = q' at *
  generalize Q (-1074) = t at *
  have l1 : A * q' * t = q * q' * Dd := by
    rw [Nat.mul_right_comm, b1]; grind
  have l2 : A' * q * t = q * q' * Dd' := by
    rw [Nat.mul_right_comm, b2]; grind
  have hqq : 0 < q * q' := Nat.mul_pos hq hq'
  constructor
  · apply Nat.le_of_mul_le_mul_right _ ht
    rw [l1, l2]
    exact Nat.mul_le_mul_left _ c1
  · intro he hne
    have he' : q * q' * Dd = q * q' * Dd' := by rw [← l1, ← l2, he]
    have := Nat.eq_of_mul_eq_mul_left hqq he'
    refine c2 this (fun hh => hne ⟨hh.1, ?_⟩)
    have := hh.2
    omega

/-! ## 13. Sanity checks of the specification on concrete values, and satisfiability -/

-- 1 ↦ 0x3FF0000000000000, 1.5, 1e23 (the classic near-tie), 2^53+1 (tie to even, down),
-- 2^53+3 (tie to even, up), 5e-324 (least subnormal), 2e-324 (below half of it: zero),
-- 1.7976931348623157e308 (largest finite), 1.7976931348623159e308 (overflow), -(2^53-1)
example : ofDecimal false 1 0 = 0x3FF0000000000000 := by decide
example : ofDecimal false 15 (-1) = 0x3FF8000000000000 := by decide
example : ofDecimal false 1 23 = 0x44B52D02C7E14AF6 := by decide
example : ofDecimal false 9007199254740993 0 = 0x4340000000000000 := by decide
example : ofDecimal false 9007199254740995 0 = 0x4340000000000002 := by decide
example : ofDecimal false 5 (-324) = 1 := by decide +kernel
example : ofDecimal false 2 (-324) = 0 := by decide +kernel
example : ofDecimal false 17976931348623157 292 = 0x7FEFFFFFFFFFFFFF := by decide +kernel
example : ofDecimal false 17976931348623159 292 = 0x7FF0000000000000 := by decide +kernel
example : ofDecimal true 9007199254740991 0 = 0xC33FFFFFFFFFFFFF := by decide

/-- `ofDecimal_correct`, finite branch, instantiated at 1e23: the hypotheses are satisfiable and
the conclusion is the expected non-trivial fact. -/
example : IsNearest (decNum 1 23) (decDen 23) 5960464477539062 24 :=
  ((ofDecimal_correct false 1 23 (by decide)).1 false 5960464477539062 24 (by decide)).2.1

/-- `ofDecimal_correct`, overflow branch, instantiated at 2e308. -/
example : Overflows (decNum 2 308) (decDen 308) :=
  ((ofDecimal_correct false 2 308 (by decide)).2 (by decide +kernel)).2

/-- `IsNearest` is inhabited directly: 1.5 = 3·2^51·2^(-52), and 2^53+1 ties to the even `2^52·2^1`. -/
example : IsNearest 3 2 (3 * 2 ^ 51) (-52) := by constructor <;> decide
example : IsNearest (2 ^ 53 + 1) 1 (2 ^ 52) 1 := by constructor <;> decide

/-- `isNearest_unique` on a tie: the odd neighbour `(2^52+1)·2^1` of `2^53+1` is rejected. -/
example (M : Nat) (E : Int) (h : IsNearest (2 ^ 53 + 1) 1 M E) : M = 2 ^ 52 ∧ E = 1 :=
  isNearest_unique (by decide) h (by constructor <;> decide)
example : ¬ IsNearest (2 ^ 53 + 1) 1 (2 ^ 52 + 1) 1 := fun h => by
  have := (isNearest_unique (by decide) h (by constructor <;> decide : IsNearest (2 ^ 53 + 1) 1 (2 ^ 52) 1)).1
  exact absurd this (by decide)

/-- `isNearest_closest` instantiated: 1e23 is at least as close to its float as to the next float
up. -/
example : absDiff (decNum 1 23 * Q 24) (5960464477539062 * (decDen 23 * P 24)) * Q 24 ≤
    absDiff (decNum 1 23 * Q 24) (5960464477539063 * (decDen 23 * P 24)) * Q 24 :=
  (isNearest_closest (decDen_pos 23)
    ((ofDecimal_correct false 1 23 (by decide)).1 false 5960464477539062 24 (by decide)).2.1
    (by unfold Representable; decide)).1

/-- `parsesTo_sound` / `parsesTo_unique` instantiated at the text `0.1`. -/
example : ∃ neg m d, parsePositional [48, 46, 49] = some (neg, m, d) ∧ false = neg ∧
    IsNearest (decNum m d) (decDen d) 7205759403792794 (-56) :=
  parsesTo_sound (bits := 0x3FB999999999999A) (text := [48, 46, 49])
    (dy := ⟨false, 7205759403792794, -56⟩) (by decide) (by decide)

example (bits' : UInt64) (hd' : decode bits' = some ⟨false, 7205759403792794, -56⟩) :
    bits' = 0x3FB999999999999A :=
  parsesTo_unique (text := [48, 46, 49]) (neg := false) (m := 1) (d := -1) (by decide) (by decide)
    hd' rfl ((ofDecimal_correct false 1 (-1) (by decide)).1 false 7205759403792794 (-56)
      (by decide)).2.1

/-- `isNearest_not_overflow`: no finite float is nearest to 2e308. -/
example (M : Nat) (E : Int) : ¬ IsNearest (decNum 2 308) (decDen 308) M E := fun h =>
  isNearest_not_overflow (decDen_pos 308) h
    ((ofDecimal_correct false 2 308 (by decide)).2 (by decide +kernel)).2

#print axioms ofDecimal_unfold
#print axioms chooseE_spec
#print axioms roundDiv_spec
#print axioms decode_norm
#print axioms ofDecimal_cases
#print axioms ofDecimal_correct
#print axioms ofDecimal_correct_disj
#print axioms ofDecimal_zero
#print axioms ofDecimal_neg
#print axioms isNearest_zero_iff
#print axioms isNearest_unique
#print axioms isNearest_not_overflow
#print axioms decode_inj
#print axioms parsesTo_sound
#print axioms parsesTo_unique
#print axioms isNearest_closest

end QF.Props.C16Round
