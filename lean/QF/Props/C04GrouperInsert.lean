import QF.Props.C04GrouperGrow
/-!
# C04 / C05 — the meaning of the canonical grouper terms (3: `table.insertEntry`)

`call_insertEntry`: the translated `insertEntry` run on the Go table of a mirror table `t` yields the Go table of
`G.insertEntry {} (hashOf cs) (eqvOf cs) t i collect`:

* `growCheck_exec` — `if t.loadFactor > maxLoadFactor { t.grow() }` is `G.growIfNeeded` (the float comparison is the integer
  comparison `lfNum * 2 > 1 * lfDen` on the exact fractions);
* `probe_loop`     — `for pos := startPos; dstEntry == nil; pos = (pos + 1) & bitMask` is `G.probe` (stop at a free slot, or at
  an entry with the same stored hash whose first row `equals` row `i`; `InsertCollisions` counts the slots passed);
* the update of the entry found: a new entry (`hash`, `firstPos`, `occupied`, `groupCount + 1`, the new load factor
  `groupCount / len`), or the row appended to the rows of an existing entry when they are collected.
-/
namespace QF.Props.C04GrouperGen
open QF QF.GL
set_option linter.unusedSimpArgs false
set_option linter.unusedVariables false

/-- the table with another value of `InsertCollisions` -/
def withIC (T : Table) (c : Int) : Table := { T with stats := { T.stats with insertCollisions := c } }

theorem pow2_le_of_lt {a j : Nat} (k : Nat) (ha : a = 2 ^ k) (h : a < 2 ^ (j + 1)) : a ≤ 2 ^ j := by
  subst ha
  have : k < j + 1 := (Nat.pow_lt_pow_iff_right (by omega)).mp h
  exact Nat.pow_le_pow_right (by omega) (by omega)

theorem M32_pow : M32 = 2 ^ 32 := by rfl

/-! ## the growth check -/

theorem growCheck_exec (F n : Nat) (cs : List Cmp) (collect : Bool) (t t1 : G.Tbl) (k : Nat) (hk : t.slots.size = 2 ^ k)
    (hden : 0 < t.lfDen) (hsz : t.lfNum * 2 > 1 * t.lfDen → 2 * t.slots.size < M32) (hF : M32 ≤ F)
    (hg : G.growIfNeeded {} t = some t1) (σ : Store) (h0 : σ 0 = some (.tbl (encTbl cs collect t))) :
    ∃ σ', growCheckPart.exec (env F (n+1)) σ = .next σ' ∧ σ' 0 = some (.tbl (encTbl cs collect t1)) ∧ σ' 1 = σ 1 := by
  have hd0 : ¬ (t.lfDen = 0) := by omega
  unfold G.growIfNeeded at hg
  have hmd : ({} : G.Cfg).maxDen = 2 := rfl
  have hmn : ({} : G.Cfg).maxNum = 1 := rfl
  rw [hmd, hmn] at hg
  by_cases hc : t.lfNum * 2 > 1 * t.lfDen
  · simp only [hc, ↓reduceIte] at hg
    have hcall := call_grow F n cs collect t t1 k hk (hsz hc) hden (by have := hsz hc; omega) hg
    have hc' : t.lfDen < t.lfNum * 2 := by omega
    refine ⟨σ.set 0 (.tbl (encTbl cs collect t1)), ?_, by simp [set_apply], by simp [set_apply]⟩
    have hlf : (encTbl cs collect t).lfNum = t.lfNum ∧ (encTbl cs collect t).lfDen = t.lfDen := ⟨rfl, rfl⟩
    exec_simp [growCheckPart, h0, hlf.1, hlf.2, hd0, hc', hcall]
  · simp only [hc, ↓reduceIte] at hg
    cases hg
    have hc' : ¬ (t.lfDen < t.lfNum * 2) := by omega
    refine ⟨σ, ?_, h0, rfl⟩
    have hlf : (encTbl cs collect t).lfNum = t.lfNum ∧ (encTbl cs collect t).lfDen = t.lfDen := ⟨rfl, rfl⟩
    exec_simp [growCheckPart, h0, hlf.1, hlf.2, hd0, hc']

/-! ## the probe loop -/

/-- the test at one slot: `!e.occupied || e.hash == hashSum && equals(t.comparables, i, e.firstPos)` -/
theorem probeCond_eval (F n : Nat) (σ : Store) (T : Table) (pos i h : Nat) (en : Entry)
    (h0 : σ 0 = some (.tbl T)) (h1 : σ 1 = some (.u32 i)) (h2 : σ 2 = some (.u32 h)) (h7 : σ 7 = some (.ptr (some (0, pos))))
    (hen : T.entries[pos]? = some en) :
    probeCond.eval (env F (n+1)) σ = some (.bool (!en.occupied || (en.hash == h && eqvOf T.cmps i en.firstPos))) := by
  have hcall := call_equals F n T.cmps i en.firstPos
  cases ho : en.occupied <;> cases hh : (en.hash == h)
  all_goals exec_simp [probeCond, h0, h1, h2, h7, hen, ho, hh, hcall]

theorem probe_loop (F n : Nat) (T : Table) (slots : Array (Option G.Entry)) (hT : T.entries = encSlots slots) (i h k : Nat)
    (hN : slots.size = 2 ^ k) (hlt : slots.size < M32) (p c' : Nat) :
    ∀ (f F' pos coll : Nat) (σ : Store), f + 1 ≤ F' → pos < slots.size →
      σ 0 = some (.tbl (withIC T coll)) → σ 1 = some (.u32 i) → σ 2 = some (.u32 h) → σ 3 = some (.u64 (slots.size - 1)) →
      σ 5 = some (.ptr none) → σ 6 = some (.u64 pos) →
      G.probe (eqvOf T.cmps) slots i h f pos coll = some (p, c') →
      ∃ σ', forLoop (condOf (env F (n+1)) (E.isNil (E.var 5))) (execOf (env F (n+1)) probeBody) (execOf (env F (n+1)) probePost) F' σ = .next σ' ∧
        σ' 0 = some (.tbl (withIC T c')) ∧ σ' 1 = some (.u32 i) ∧ σ' 2 = some (.u32 h) ∧ σ' 5 = some (.ptr (some (0, p))) := by
  intro f
  induction f with
  | zero => intro F' pos coll σ _ _ _ _ _ _ _ _ hpr; simp [G.probe] at hpr
  | succ f ih =>
    intro F' pos coll σ hF' hp h0 h1 h2 h3 h5 h6 hpr
    obtain ⟨F1, rfl⟩ : ∃ F1, F' = F1 + 1 := ⟨F' - 1, by omega⟩
    obtain ⟨F2, rfl⟩ : ∃ F2, F1 = F2 + 1 := ⟨F1 - 1, by omega⟩
    have hget : slots[pos]? = some slots[pos] := by simp [hp]
    have hnn : ¬ ((pos : Int) < 0) := by omega
    have hlen : ¬ (((encSlots slots).length : Int) ≤ (pos : Int)) := by rw [encSlots_length]; omega
    have hen : (withIC T coll).entries[pos]? = some (encEntry slots[pos]) := by
      show T.entries[pos]? = _
      rw [hT, encSlots_getElem?, hget]; rfl
    have hcmps : (withIC T coll).cmps = T.cmps := rfl
    have hents : (withIC T coll).entries = encSlots slots := hT
    let σ7 := σ.set 7 (.ptr (some (0, pos)))
    have hcond := probeCond_eval F n σ7 (withIC T coll) pos i h (encEntry slots[pos]) (by simp [σ7, set_apply, h0])
      (by simp [σ7, set_apply, h1]) (by simp [σ7, set_apply, h2]) (by simp [σ7, set_apply]) hen
    rw [hcmps] at hcond
    simp only [σ7] at hcond
    unfold G.probe at hpr
    rw [hget] at hpr
    have hstop : ∀ (b : Bool), (!(encEntry slots[pos]).occupied || ((encEntry slots[pos]).hash == h && eqvOf T.cmps i (encEntry slots[pos]).firstPos)) = true →
        some (pos, coll) = some (p, c') → ∃ σ', forLoop (condOf (env F (n+1)) (E.isNil (E.var 5))) (execOf (env F (n+1)) probeBody) (execOf (env F (n+1)) probePost) (F2 + 1 + 1) σ = .next σ' ∧
        σ' 0 = some (.tbl (withIC T c')) ∧ σ' 1 = some (.u32 i) ∧ σ' 2 = some (.u32 h) ∧ σ' 5 = some (.ptr (some (0, p))) := by
      intro _ hb hres
      simp at hres
      rw [hb] at hcond
      refine ⟨((σ.set 7 (.ptr (some (0, pos)))).set 5 (.ptr (some (0, pos)))).set 6 (.u64 (((pos + 1) % M64) &&& (slots.size - 1))), ?_, ?_, ?_, ?_, ?_⟩
      · unfold forLoop
        simp only [condOf, execOf]
        unfold forLoop
        simp only [condOf, execOf]
        exec_simp [h0, h3, h5, h6, hents, hnn, hlen, hcond]
      · simp [set_apply, h0, hres.2]
      · simp [set_apply, h1]
      · simp [set_apply, h2]
      · simp [set_apply, hres.1]
    cases hv : slots[pos] with
    | none =>
      rw [hv] at hpr hcond
      simp only at hpr
      exact hstop true (by rw [hv]; rfl) hpr
    | some e =>
      rw [hv] at hpr
      simp only at hpr
      cases hs : (e.hash == h && eqvOf T.cmps i e.firstPos) with
      | true =>
        rw [hs] at hpr
        simp only [↓reduceIte] at hpr
        exact hstop true (by rw [hv]; simp [encEntry, hs]) hpr
      | false =>
        rw [hs] at hpr
        simp only [Bool.false_eq_true, ↓reduceIte] at hpr
        have hn : 0 < slots.size := by omega
        have hb : (!(encEntry slots[pos]).occupied || ((encEntry slots[pos]).hash == h && eqvOf T.cmps i (encEntry slots[pos]).firstPos)) = false := by
          rw [hv]; simp [encEntry]; simpa using hs
        rw [hb] at hcond
        have hnext : ((pos + 1) % M64) &&& (slots.size - 1) = (pos + 1) % slots.size := by
          rw [Nat.mod_eq_of_lt (by rw [M32_eq] at hlt; rw [M64_eq]; omega), mask_mod _ slots.size k hN]
        let σ1 := ((σ.set 7 (.ptr (some (0, pos)))).set 0 (.tbl (withIC T ((coll + 1 : Nat) : Int)))).set 6 (.u64 ((pos + 1) % slots.size))
        obtain ⟨σ', g1, g2, g3, g4, g5⟩ := ih (F2 + 1) ((pos + 1) % slots.size) (coll + 1) σ1 (by omega) (Nat.mod_lt _ hn)
          (by simp [σ1, set_apply]) (by simp [σ1, set_apply, h1]) (by simp [σ1, set_apply, h2]) (by simp [σ1, set_apply, h3])
          (by simp [σ1, set_apply, h5]) (by simp [σ1, set_apply]) hpr
        refine ⟨σ', ?_, g2, g3, g4, g5⟩
        rw [forLoop]
        simp only [condOf, execOf]
        simp only [σ1] at g1
        have hlen2 : ¬ (T.entries.length ≤ pos) := by rw [hT, encSlots_length]; omega
        exec_simp [h0, h3, h5, h6, hents, hnn, hlen, hlen2, hcond, hnext]
        simpa [withIC, Int.natCast_add, hT] using g1

/-! ## the update of the entry found -/

/-- the slot is free: the new entry, `groupCount + 1`, the new load factor -/
theorem update_new (Γ : Env) (σ : Store) (T : Table) (slots : Array (Option G.Entry)) (hT : T.entries = encSlots slots) (i h p : Nat)
    (h0 : σ 0 = some (.tbl T)) (h1 : σ 1 = some (.u32 i)) (h2 : σ 2 = some (.u32 h)) (h5 : σ 5 = some (.ptr (some (0, p))))
    (hslot : slots[p]? = some none) (hgc : T.groupCount + 1 < M32) :
    ∃ σ', updatePart.exec Γ σ = .next σ' ∧
      σ' 0 = some (.tbl { T with entries := encSlots (slots.setIfInBounds p (some { hash := h, firstPos := i, ix := [] })),
                                 groupCount := T.groupCount + 1, lfNum := T.groupCount + 1, lfDen := slots.size }) := by
  have hp : p < slots.size := by
    rcases Nat.lt_or_ge p slots.size with h' | h'
    · exact h'
    · rw [Array.getElem?_eq_none h'] at hslot; cases hslot
  have hat : T.entries[p]? = some (encEntry none) := by rw [hT, encSlots_getElem?, hslot]; rfl
  have hlen : p < T.entries.length := by rw [hT, encSlots_length]; exact hp
  have hmod : (T.groupCount + 1) % M32 = T.groupCount + 1 := Nat.mod_eq_of_lt hgc
  have hsz : T.entries.length = slots.size := by rw [hT, encSlots_length]
  have hs0 : ¬ (slots.size = 0) := by omega
  have hset : T.entries.set p { ix := none, hash := h, firstPos := i, occupied := true } =
      encSlots (slots.setIfInBounds p (some { hash := h, firstPos := i, ix := [] })) := by
    rw [hT, ← encSlots_set]; rfl
  have hat' : T.entries[p]'hlen = encEntry none := by
    have := List.getElem?_eq_getElem hlen; rw [this] at hat; exact Option.some.inj hat
  have hgi : ¬ ((T.groupCount : Int) + 1 < 0) := by omega
  have hsi : ¬ ((slots.size : Int) < 0) := by omega
  exec_simp [updatePart, edenPart, h0, h1, h2, h5, hat, hat', encEntry, hlen, hp, hmod, hsz, hs0, hset, hgi, hsi, encSlots_length]

/-- the slot holds an entry: the row is appended to its rows when they are collected -/
theorem update_existing (Γ : Env) (σ : Store) (T : Table) (slots : Array (Option G.Entry)) (hT : T.entries = encSlots slots) (i h p : Nat)
    (e : G.Entry) (h0 : σ 0 = some (.tbl T)) (h1 : σ 1 = some (.u32 i)) (h5 : σ 5 = some (.ptr (some (0, p))))
    (hslot : slots[p]? = some (some e)) :
    ∃ σ', updatePart.exec Γ σ = .next σ' ∧
      σ' 0 = some (.tbl (if T.collectIx then
          { T with entries := encSlots (slots.setIfInBounds p (some (if e.ix.isEmpty then { e with ix := [e.firstPos, i] } else { e with ix := e.ix ++ [i] }))) }
        else T)) := by
  have hp : p < slots.size := by
    rcases Nat.lt_or_ge p slots.size with h' | h'
    · exact h'
    · rw [Array.getElem?_eq_none h'] at hslot; cases hslot
  have hat : T.entries[p]? = some (encEntry (some e)) := by rw [hT, encSlots_getElem?, hslot]; rfl
  have hlen : p < T.entries.length := by rw [hT, encSlots_length]; exact hp
  have hat' : T.entries[p]'hlen = encEntry (some e) := by
    have := List.getElem?_eq_getElem hlen; rw [this] at hat; exact Option.some.inj hat
  cases hc : T.collectIx
  · exact ⟨σ, by exec_simp [updatePart, existingPart, h0, h1, h5, hat, hat', hlen, encEntry, hc], by simp [h0]⟩
  · cases he : e.ix.isEmpty
    · have hset : T.entries.set p { ix := some (e.ix ++ [i]), hash := e.hash, firstPos := e.firstPos, occupied := true } =
          encSlots (slots.setIfInBounds p (some { e with ix := e.ix ++ [i] })) := by
        rw [hT, ← encSlots_set]; simp [encEntry]
      exec_simp [updatePart, existingPart, h0, h1, h5, hat, hat', hlen, encEntry, hc, he, hset]
    · have hset : T.entries.set p { ix := some [e.firstPos, i], hash := e.hash, firstPos := e.firstPos, occupied := true } =
          encSlots (slots.setIfInBounds p (some { e with ix := [e.firstPos, i] })) := by
        rw [hT, ← encSlots_set]; simp [encEntry]
      exec_simp [updatePart, existingPart, h0, h1, h5, hat, hat', hlen, encEntry, hc, he, hset]

/-! ## the shape of the mirror's steps -/

theorem growFold_size (N : Nat) (h0 : 0 < N) : ∀ (l : List (Option G.Entry)) (ns : Array (Option G.Entry)) (c : Nat)
    (ns' : Array (Option G.Entry)) (c' : Nat), ns.size = N → l.foldl (G.growStep N) (some (ns, c)) = some (ns', c') → ns'.size = N := by
  intro l
  induction l with
  | nil => intro ns c ns' c' hs h; simp at h; rw [← h.1]; exact hs
  | cons x l ih =>
    intro ns c ns' c' hs h
    rw [List.foldl_cons] at h
    cases hstep : G.growStep N (some (ns, c)) x with
    | none => rw [hstep, growStep_none] at h; cases h
    | some r =>
      obtain ⟨ns1, c1⟩ := r
      rw [hstep] at h
      rw [growStep_eq] at hstep
      exact ih ns1 c1 ns' c' (by rw [placeX_size ns x _ _ _ _ _ (by rw [hs]; exact Nat.mod_lt _ h0) hstep, hs]) h

theorem grow_shape (t t' : G.Tbl) (h0 : 0 < t.slots.size) (hg : G.grow {} t = some t') :
    t'.slots.size = 2 * t.slots.size ∧ t'.groupCount = t.groupCount ∧ t'.lfNum = t.lfNum ∧ t'.lfDen = t.lfDen * 2 := by
  have hg' : (t.slots.toList.foldl (G.growStep (2 * t.slots.size)) (some (Array.replicate (2 * t.slots.size) none, t.relocCollisions))).map
      (fun (p : Array (Option G.Entry) × Nat) => ({ t with slots := p.1, relocCollisions := p.2, relocCount := t.relocCount + 1, lfDen := t.lfDen * 2 } : G.Tbl)) = some t' := by
    rw [← hg]; unfold G.grow; simp only []; rw [← Array.foldl_toList]; rfl
  cases hfold : t.slots.toList.foldl (G.growStep (2 * t.slots.size)) (some (Array.replicate (2 * t.slots.size) none, t.relocCollisions)) with
  | none => rw [hfold] at hg'; cases hg'
  | some r =>
    obtain ⟨ns', c'⟩ := r
    rw [hfold] at hg'
    simp at hg'
    have := growFold_size (2 * t.slots.size) (by omega) _ _ _ _ _ (by simp) hfold
    rw [← hg']
    exact ⟨this, rfl, rfl, rfl⟩

theorem probe_shift (eqv : Nat → Nat → Bool) (slots : Array (Option G.Entry)) (i h b : Nat) : ∀ (f pos coll : Nat),
    G.probe eqv slots i h f pos (b + coll) = (G.probe eqv slots i h f pos coll).map fun pc => (pc.1, b + pc.2) := by
  intro f
  induction f with
  | zero => intro pos coll; simp [G.probe]
  | succ f ih =>
    intro pos coll
    unfold G.probe
    cases hv : slots[pos]? with
    | none => simp
    | some o =>
      cases o with
      | none => simp
      | some e =>
        simp only
        split
        · simp
        · rw [← ih]; rfl

/-! ## `insertEntry` -/

/-- `t.insertEntry(i)` on the Go table of the mirror table `t` yields the Go table of `G.insertEntry … t i collect` -/
theorem call_insertEntry (F n : Nat) (cs : List Cmp) (collect : Bool) (t t' : G.Tbl) (i k : Nat) (hk : t.slots.size = 2 ^ k)
    (hlt : t.slots.size < M32) (hden : 0 < t.lfDen) (hgrow : t.lfNum * 2 > 1 * t.lfDen → 2 * t.slots.size < M32)
    (hgc : t.groupCount + 1 < M32) (hF : M32 ≤ F)
    (hins : G.insertEntry {} (hashOf cs) (eqvOf cs) t i collect = some t') :
    callAt canonFns F (n+2) .insertEntry [.tbl (encTbl cs collect t), .u32 i] = some (.unit, some (.tbl (encTbl cs collect t'))) := by
  rw [callAt_succ F (n+1) _ _ look_insertEntry]
  have hpos : 0 < t.slots.size := by rw [hk]; exact Nat.two_pow_pos k
  unfold G.insertEntry at hins
  cases hgr : G.growIfNeeded {} t with
  | none => rw [hgr] at hins; cases hins
  | some t1 =>
    rw [hgr] at hins
    simp only [Option.bind_some] at hins
    -- the table after the growth check
    have hshape : ∃ k1, t1.slots.size = 2 ^ k1 ∧ t1.slots.size < M32 ∧ t1.groupCount = t.groupCount := by
      unfold G.growIfNeeded at hgr
      have hmd : ({} : G.Cfg).maxDen = 2 := rfl
      have hmn : ({} : G.Cfg).maxNum = 1 := rfl
      rw [hmd, hmn] at hgr
      by_cases hc : t.lfNum * 2 > 1 * t.lfDen
      · simp only [hc, ↓reduceIte] at hgr
        obtain ⟨a, b, _, _⟩ := grow_shape t t1 hpos hgr
        exact ⟨k + 1, by rw [a, hk, Nat.pow_succ]; omega, by rw [a]; exact hgrow hc, b⟩
      · simp only [hc, ↓reduceIte] at hgr
        cases hgr
        exact ⟨k, hk, hlt, rfl⟩
    obtain ⟨k1, hk1, hlt1, hgc1⟩ := hshape
    have hpos1 : 0 < t1.slots.size := by rw [hk1]; exact Nat.two_pow_pos k1
    have hle1 : t1.slots.size ≤ 2 ^ 31 := pow2_le_of_lt k1 hk1 (by rw [M32_pow] at hlt1; exact hlt1)
    let σ0 : Store := (Store.empty.set 0 (.tbl (encTbl cs collect t))).set 1 (.u32 i)
    obtain ⟨σ1, e1, e2, e3⟩ := growCheck_exec F n cs collect t t1 k hk hden hgrow hF hgr σ0 (by simp [σ0, set_apply])
    simp [σ0, set_apply] at e3
    -- the probe
    obtain ⟨h, hh⟩ : ∃ h, h = hashOf cs i % M32 := ⟨_, rfl⟩
    have h32 : hashOf cs i % 2 ^ 32 = h := by rw [← M32_pow, hh]
    unfold G.insertNoGrow at hins
    rw [h32] at hins
    cases hpr : G.probe (eqvOf cs) t1.slots i h (t1.slots.size + 1) (h % t1.slots.size) 0 with
    | none => rw [hpr] at hins; cases hins
    | some r =>
      obtain ⟨p, c'⟩ := r
      rw [hpr] at hins
      simp only at hins
      let T1 := encTbl cs collect t1
      have hT1 : T1.entries = encSlots t1.slots := rfl
      have hcall := call_hash F n T1 i
      have hcmps : T1.cmps = cs := rfl
      rw [hcmps, ← hh] at hcall
      have hmask : ((((t1.slots.size : Int) - 1) % (M64 : Int)).toNat) = t1.slots.size - 1 := by
        rw [M64_eq]; rw [M32_eq] at hlt1; omega
      have hh64 : (((h : Nat) : Int) % (M64 : Int)).toNat = h := by
        have : h < M32 := by rw [hh]; exact Nat.mod_lt _ (by rw [M32_eq]; omega)
        rw [M64_eq]; rw [M32_eq] at this; omega
      have hstart : h &&& (t1.slots.size - 1) = h % t1.slots.size := mask_mod _ _ k1 hk1
      let σ6 : Store := ((((σ1.set 2 (.u32 h)).set 3 (.u64 (t1.slots.size - 1))).set 4 (.u64 (h % t1.slots.size))).set 5 (.ptr none)).set 6
        (.u64 (h % t1.slots.size))
      have hT1ic : T1 = withIC T1 ((t1.insertCollisions + 0 : Nat) : Int) := rfl
      have hpr' : G.probe (eqvOf T1.cmps) t1.slots i h (t1.slots.size + 1) (h % t1.slots.size) (t1.insertCollisions + 0) =
          some (p, t1.insertCollisions + c') := by
        rw [probe_shift, hcmps, hpr]; rfl
      obtain ⟨σ7, g1, g2, g3, g4, g5⟩ := probe_loop F n T1 t1.slots hT1 i h k1 hk1 hlt1 p (t1.insertCollisions + c')
        (t1.slots.size + 1) F (h % t1.slots.size) (t1.insertCollisions + 0) σ6 (by rw [M32_eq] at hF; omega) (Nat.mod_lt _ hpos1)
        (by simp only [σ6, set_apply]; simp [e2]; exact hT1ic) (by simp [σ6, set_apply, e3]) (by simp [σ6, set_apply])
        (by simp [σ6, set_apply]) (by simp [σ6, set_apply]) (by simp [σ6, set_apply]) hpr'
      simp only [σ6] at g1
      simp only [σ0] at e1
      cases hslot : t1.slots[p]? with
      | none => rw [hslot] at hins; cases hins
      | some x =>
        rw [hslot] at hins
        cases x with
        | none =>
          simp only at hins
          obtain ⟨σ8, u1, u2⟩ := update_new (env F (n+1)) σ7 (withIC T1 ((t1.insertCollisions + c' : Nat) : Int)) t1.slots rfl i h p g2 g3 g4 g5 hslot
            (by show t1.groupCount + 1 < M32; rw [hgc1]; exact hgc)
          rw [← Option.some.inj hins]
          simp only [T1] at hcall
          exec_simp [runFn, fnInsertEntry, e1, e2, e3, hcall, encSlots_length, hmask, hh64, hstart, probeLoop, g1, u1, u2]
          simp [withIC, T1, encTbl, encStats, hgc1]
        | some e =>
          simp only at hins
          obtain ⟨σ8, u1, u2⟩ := update_existing (env F (n+1)) σ7 (withIC T1 ((t1.insertCollisions + c' : Nat) : Int)) t1.slots rfl i h p e g2 g3 g5 hslot
          simp only [T1] at hcall
          have hci : (withIC T1 ((t1.insertCollisions + c' : Nat) : Int)).collectIx = collect := rfl
          rw [hci] at u2
          cases collect
          · simp only [Bool.false_eq_true, ↓reduceIte] at hins u2
            rw [← Option.some.inj hins]
            exec_simp [runFn, fnInsertEntry, e1, e2, e3, hcall, encSlots_length, hmask, hh64, hstart, probeLoop, g1, u1, u2]
            simp [withIC, T1, encTbl, encStats]
          · simp only [↓reduceIte] at hins u2
            rw [← Option.some.inj hins]
            exec_simp [runFn, fnInsertEntry, e1, e2, e3, hcall, encSlots_length, hmask, hh64, hstart, probeLoop, g1, u1, u2]
            simp [withIC, T1, encTbl, encStats]

end QF.Props.C04GrouperGen
