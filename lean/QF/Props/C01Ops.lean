import QF.Core.Heap
/-!
# C01 (operations) — every frame-deriving operation writes only to storage it allocated

`QF.Core.Heap` gives the store model (`H.Store`, `H.Prog`, `H.Prog.OwnWrites`) and the two
theorems `H.frame_condition` / `H.history_persistent`.  It only shows `sortProg`.  This file
writes the storage behaviour of the remaining qframe operations as `H.Prog`s, following the Go
code, and proves that each one obeys the discipline for **every** `base`:

| program            | Go code followed                                                          |
|--------------------|---------------------------------------------------------------------------|
| `filterProg`       | `QFrame.filter` (qframe.go), column `Filter` kernels, `index.Int.Filter`  |
| `sliceProg`        | `QFrame.Slice`                                                            |
| `setColumnProg`    | `QFrame.setColumn`                                                        |
| `copyProg`         | `QFrame.Copy`                                                             |
| `apply1Prog`       | `QFrame.apply1`, `Column.Apply1` (internal/*column/column_gen.go)          |
| `distinctProg`     | `QFrame.Distinct`, `grouper.Distinct`, `groupIndex`, `insertEntry`, `grow`|
| `groupByProg`      | `QFrame.GroupBy`, `grouper.GroupBy`, `groupIndex`, `insertEntry`, `grow`  |
| `aggregateProg`    | `Grouper.Aggregate` (grouper.go), `Column.Aggregate`, `subsetWithBuf`     |

Values are abstract: every array is a `List Nat`; what the kernels / hash functions / user
functions compute is an arbitrary parameter.  Slice *headers* (pointer, offset, length) are values
(`View`), slice *backing arrays* are store arrays.  The columns array of a frame is a store array
holding the ids of the column data arrays.

What is proved is a statement about the *shape* of each program (what it reads, allocates and
writes), for all values of the abstract parameters.

Main results: `filter_own_writes`, `slice_own_writes`, `setColumn_own_writes`, `copy_own_writes`,
`apply1_own_writes`, `distinct_own_writes`, `groupBy_own_writes`, `aggregate_own_writes`,
`op_own_writes`, `any_history_persistent`, and the negative example `filterProgBug_not_own_writes`
/ `filterProgBug_changes_earlier_array`.
-/
namespace QF.Props.C01
open H

/-! ## Descriptors (values, not storage) -/

/-- a Go slice header of an index: backing array, offset, length -/
structure View where
  ix : Id
  off : Nat
  len : Nat
deriving Repr, DecidableEq

/-- the part of the backing array a view denotes -/
def View.window (v : View) (a : Arr) : Arr := (a.drop v.off).take v.len

/-- a frame: index view + id of the columns array (an array of column-data ids) -/
structure Frame where
  view : View
  cols : Id
deriving Repr, DecidableEq

/-- a `Grouper`: the `[]index.Int` slice (`indices`) and the group headers it holds -/
structure Grouper where
  indices : Id
  groups : List View
deriving Repr, DecidableEq

/-! ## Program combinators and their `OwnWrites` rules -/

/-- sequencing -/
def bind {α β : Type} : Prog α → (α → Prog β) → Prog β
  | .ret a, f => f a
  | .alloc i k, f => .alloc i fun id => bind (k id) f
  | .read id k, f => .read id fun v => bind (k v) f
  | .write id v k, f => .write id v (bind k f)

theorem bind_own_writes {α β : Type} (p : Prog α) (f : α → Prog β) (base : Nat)
    (hp : p.OwnWrites base) (hf : ∀ a, (f a).OwnWrites base) : (bind p f).OwnWrites base := by
  induction p with
  | ret a => exact hf a
  | alloc i k ih => intro id hid; exact ih id (hp id hid)
  | read id k ih => intro v; exact ih v (hp v)
  | write id v k ih => exact ⟨hp.1, ih hp.2⟩

/-- the converse: sequencing cannot hide a foreign write of the first program -/
theorem bind_own_writes_left {α β : Type} (p : Prog α) (f : α → Prog β) (base : Nat)
    (h : (bind p f).OwnWrites base) : p.OwnWrites base := by
  induction p with
  | ret a => trivial
  | alloc i k ih => intro id hid; exact ih id (h id hid)
  | read id k ih => intro v; exact ih v (h v)
  | write id v k ih => exact ⟨h.1, ih h.2⟩

theorem bind_run {α β : Type} (p : Prog α) (f : α → Prog β) (s : Store) :
    (bind p f).run s =
      (((f (p.run s).1).run (p.run s).2.1).1, ((f (p.run s).1).run (p.run s).2.1).2.1,
        (p.run s).2.2 ++ ((f (p.run s).1).run (p.run s).2.1).2.2) := by
  induction p generalizing s with
  | ret a => simp [bind, Prog.run]
  | alloc i k ih => simp [bind, Prog.run, ih]
  | read id k ih => simp [bind, Prog.run, ih]
  | write id v k ih => simp [bind, Prog.run, ih]

/-- forget the result (so that programs of different result type fit in one history) -/
def void {α : Type} (p : Prog α) : Prog Unit := bind p fun _ => .ret ()

theorem void_own_writes {α : Type} (p : Prog α) (base : Nat) :
    (void p).OwnWrites base ↔ p.OwnWrites base :=
  ⟨bind_own_writes_left p _ base, fun h => bind_own_writes p _ base h fun _ => trivial⟩

/-- `void` changes neither the final store nor the trace -/
theorem void_run {α : Type} (p : Prog α) (s : Store) :
    ((void p).run s).2 = (p.run s).2 := by
  simp [void, bind_run, Prog.run]

/-- read a list of arrays -/
def readAll {α : Type} : List Id → (List Arr → Prog α) → Prog α
  | [], k => k []
  | c :: cs, k => .read c fun d => readAll cs fun ds => k (d :: ds)

theorem readAll_own {α : Type} (base : Nat) (cs : List Id) (k : List Arr → Prog α)
    (hk : ∀ ds, (k ds).OwnWrites base) : (readAll cs k).OwnWrites base := by
  induction cs generalizing k with
  | nil => exact hk []
  | cons c cs ih => intro d; exact ih _ fun ds => hk (d :: ds)

/-- read the windows of a list of views -/
def readViews {α : Type} (vs : List View) (k : List Arr → Prog α) : Prog α :=
  readAll (vs.map (·.ix)) fun as => k (List.zipWith View.window vs as)

theorem readViews_own {α : Type} (base : Nat) (vs : List View) (k : List Arr → Prog α)
    (hk : ∀ ds, (k ds).OwnWrites base) : (readViews vs k).OwnWrites base :=
  readAll_own base _ _ fun _ => hk _

/-- a `for` loop without loop-carried storage -/
def forEach {ε α : Type} (body : ε → Prog α → Prog α) : List ε → Prog α → Prog α
  | [], k => k
  | e :: es, k => body e (forEach body es k)

theorem forEach_own {ε α : Type} (base : Nat) (body : ε → Prog α → Prog α)
    (hb : ∀ e k, k.OwnWrites base → (body e k).OwnWrites base)
    (es : List ε) (k : Prog α) (hk : k.OwnWrites base) : (forEach body es k).OwnWrites base := by
  induction es with
  | nil => exact hk
  | cons e es ih => exact hb e _ ih

/-- a `for` loop carrying a state (ids of arrays that may be replaced by bigger ones) -/
def loopSt {ε σ α : Type} (step : ε → σ → (σ → Prog α) → Prog α) :
    List ε → σ → (σ → Prog α) → Prog α
  | [], st, k => k st
  | e :: es, st, k => step e st fun st' => loopSt step es st' k

theorem loopSt_own {ε σ α : Type} (base : Nat) (Inv : σ → Prop)
    (step : ε → σ → (σ → Prog α) → Prog α)
    (hstep : ∀ e st k, Inv st → (∀ st', Inv st' → (k st').OwnWrites base) →
      (step e st k).OwnWrites base)
    (es : List ε) (st : σ) (k : σ → Prog α) (hi : Inv st)
    (hk : ∀ st', Inv st' → (k st').OwnWrites base) : (loopSt step es st k).OwnWrites base := by
  induction es generalizing st with
  | nil => exact hk st hi
  | cons e es ih => exact hstep e st _ hi fun st' hi' => ih st' hi'

/-- a `for` loop that produces one fresh array per element and collects their ids -/
def collect {ε α : Type} (body : ε → (Id → Prog α) → Prog α) :
    List ε → (List Id → Prog α) → Prog α
  | [], k => k []
  | e :: es, k => body e fun r => collect body es fun rs => k (r :: rs)

theorem collect_own {ε α : Type} (base : Nat) (body : ε → (Id → Prog α) → Prog α)
    (hb : ∀ e k, (∀ id, base ≤ id → (k id).OwnWrites base) → (body e k).OwnWrites base)
    (es : List ε) (k : List Id → Prog α)
    (hk : ∀ ids, (∀ id ∈ ids, base ≤ id) → (k ids).OwnWrites base) :
    (collect body es k).OwnWrites base := by
  induction es generalizing k with
  | nil => exact hk [] (by simp)
  | cons e es ih =>
    refine hb e _ fun r hr => ih _ fun rs hrs => hk _ ?_
    intro id hid
    rcases List.mem_cons.1 hid with h | h
    · exact h ▸ hr
    · exact hrs id h

/-! ## Filter — `QFrame.filter`

`bIndex := index.NewBool(len)` is allocated; every filter clause reads its column (and its
argument column, if the argument is a column) and lets the kernel write into `bIndex`; the
"inverse not built in" branch allocates a second mask `invBIndex`, lets the kernel write that, and
merges it into `bIndex`; finally `index.Filter` allocates the result index and fills it. -/

structure FilterSpec where
  col : Id
  arg : Option Id
  /-- the `!done` branch: go through a second, freshly allocated mask -/
  viaInv : Bool
  /-- the column kernel: index, column data, argument data, current mask ↦ new mask -/
  kern : Arr → Arr → Arr → Arr → Arr
  /-- `if !x { bIndex[i] = !invBIndex[i] }` -/
  merge : Arr → Arr → Arr

def readArg {α : Type} : Option Id → (Arr → Prog α) → Prog α
  | none, k => k []
  | some a, k => .read a k

def filterStep {α : Type} (ix : Arr) (m : Id) (f : FilterSpec) (k : Prog α) : Prog α :=
  .read f.col fun cd => readArg f.arg fun ad =>
    if f.viaInv then
      .alloc (List.replicate ix.length 0) fun m2 =>
        .read m2 fun cur2 => .write m2 (f.kern ix cd ad cur2) <|
        .read m fun cur => .read m2 fun inv => .write m (f.merge cur inv) k
    else
      .read m fun cur => .write m (f.kern ix cd ad cur) k

/-- `index.Int.Filter` -/
def indexFilter (ix mask : Arr) : Arr :=
  (ix.zip mask).filterMap fun p => if p.2 ≠ 0 then some p.1 else none

def filterProg (v : View) (fs : List FilterSpec) : Prog View :=
  .read v.ix fun a =>
    .alloc (List.replicate (v.window a).length 0) fun m =>
      forEach (filterStep (v.window a) m) fs <|
        .read m fun mask => .alloc [] fun r =>
          .write r (indexFilter (v.window a) mask) <|
            .ret ⟨r, 0, (indexFilter (v.window a) mask).length⟩

theorem filterStep_own {α : Type} (base : Nat) (ix : Arr) (m : Id) (hm : base ≤ m)
    (f : FilterSpec) (k : Prog α) (hk : k.OwnWrites base) :
    (filterStep ix m f k).OwnWrites base := by
  have body : ∀ cd ad, (if f.viaInv then
      Prog.alloc (List.replicate ix.length 0) fun m2 =>
        .read m2 fun cur2 => .write m2 (f.kern ix cd ad cur2) <|
        .read m fun cur => .read m2 fun inv => .write m (f.merge cur inv) k
    else
      .read m fun cur => .write m (f.kern ix cd ad cur) k).OwnWrites base := by
    intro cd ad
    split
    · intro m2 hm2 cur2; exact ⟨hm2, fun cur inv => ⟨hm, hk⟩⟩
    · intro cur; exact ⟨hm, hk⟩
  intro cd
  dsimp only
  cases h : f.arg with
  | none => exact body cd []
  | some a => intro ad; exact body cd ad

theorem filter_own_writes (v : View) (fs : List FilterSpec) :
    ∀ base, (filterProg v fs).OwnWrites base := by
  intro base a m hm
  refine forEach_own base _ (fun f k hk => filterStep_own base _ m hm f k hk) fs _ ?_
  intro mask r hr
  exact ⟨hr, trivial⟩

/-! ### the negative example: the mask is written into an existing, shared array -/

/-- like `filterProg`, but instead of allocating `bIndex` it reuses the existing array `shared`
    as the mask (clears it, lets the kernels write it) -/
def filterProgBug (v : View) (shared : Id) (fs : List FilterSpec) : Prog View :=
  .read v.ix fun a =>
    .write shared (List.replicate (v.window a).length 0) <|
      forEach (filterStep (v.window a) shared) fs <|
        .read shared fun mask => .alloc [] fun r =>
          .write r (indexFilter (v.window a) mask) <|
            .ret ⟨r, 0, (indexFilter (v.window a) mask).length⟩

/-- for every store in which `shared` already exists (`base = shared + 1 ≤ size`), the buggy
    filter is outside the discipline -/
theorem filterProgBug_not_own_writes (v : View) (shared : Id) (fs : List FilterSpec) :
    ¬ (filterProgBug v shared fs).OwnWrites (shared + 1) := by
  intro h
  have := (h []).1
  omega

/-- a clause `col > n`: the kernel sets `mask[i]` where `col[ix[i]] > n` (clauses are or-ed) -/
def gtSpec (col : Id) (n : Nat) (viaInv : Bool) : FilterSpec where
  col := col
  arg := none
  viaInv := viaInv
  kern := fun ix cd _ cur =>
    List.zipWith (fun i b => if b ≠ 0 ∨ cd.getD i 0 > n then 1 else 0) ix cur
  merge := fun cur inv => List.zipWith (fun x y => if x ≠ 0 then x else 1 - y) cur inv

def gt3 : FilterSpec := gtSpec 1 3 false

/-- store: array 0 is the index, array 1 the data of a column -/
def store0 : Store := [[0, 1, 2], [5, 2, 9]]

/-- the correct filter leaves arrays 0 and 1 alone and produces the new index `[0, 2]` -/
example : ((filterProg ⟨0, 0, 3⟩ [gt3]).run store0).2.1 = [[0, 1, 2], [5, 2, 9], [1, 0, 1], [0, 2]] := by
  decide

/-- the buggy filter, using the column's own data array as its mask, destroys the column:
    an array that existed before the operation has changed -/
theorem filterProgBug_changes_earlier_array :
    (((filterProgBug ⟨0, 0, 3⟩ 1 [gt3]).run store0).2.1).getD 1 [] ≠ store0.getD 1 [] := by
  decide

example : ((filterProgBug ⟨0, 0, 3⟩ 1 [gt3]).run store0).2.1 = [[0, 1, 2], [0, 0, 0], []] := by
  decide

/-! ## Slice — `QFrame.Slice`: `qf.withIndex(qf.index[start:end])`, no storage touched -/

def sliceProg (v : View) (start stop : Nat) : Prog View :=
  .ret ⟨v.ix, v.off + start, stop - start⟩

theorem slice_own_writes (v : View) (start stop : Nat) :
    ∀ base, (sliceProg v start stop).OwnWrites base := fun _ => trivial

/-- nothing read, allocated or written; the store is literally unchanged -/
theorem slice_run (v : View) (start stop : Nat) (s : Store) :
    (sliceProg v start stop).run s = (⟨v.ix, v.off + start, stop - start⟩, s, []) := rfl

/-! ## setColumn / Copy — new columns array, shared column data -/

/-- `newF.columns = make(..., newColCount); copy(newF.columns, qf.columns); newF.columns[pos] = newS` -/
def setColumnProg (cols : Id) (pos : Nat) (data : Id) : Prog Id :=
  .read cols fun cs =>
    .alloc (List.replicate (max cs.length (pos + 1)) 0) fun c =>
      .write c (cs ++ List.replicate (max cs.length (pos + 1) - cs.length) 0) <|
        .read c fun cur => .write c (cur.set pos data) (.ret c)

theorem setColumn_own_writes (cols : Id) (pos : Nat) (data : Id) :
    ∀ base, (setColumnProg cols pos data).OwnWrites base := by
  intro base cs c hc
  exact ⟨hc, fun cur => ⟨hc, trivial⟩⟩

/-- `Copy(dst, src)`: NOP when equal, else `setColumn(dst, <the same column data>)` -/
def copyProg (cols : Id) (src dst : Nat) : Prog Id :=
  if src = dst then .ret cols
  else .read cols fun cs => setColumnProg cols dst (cs.getD src 0)

theorem copy_own_writes (cols : Id) (src dst : Nat) :
    ∀ base, (copyProg cols src dst).OwnWrites base := by
  intro base
  unfold copyProg
  split
  · trivial
  · intro cs; exact setColumn_own_writes _ _ _ base

/-! ## apply1 — `Column.Apply1`: `result := make([]T, len(c.data)); for _, i := range ix { result[i] = fn(c.data[i]) }` -/

def scatterStep {α : Type} (fn : Nat → Nat) (d : Arr) (r : Id) (i : Nat) (k : Prog α) : Prog α :=
  .read r fun cur => .write r (cur.set i (fn (d.getD i 0))) k

def apply1Prog (v : View) (cols : Id) (src dst : Nat) (fn : Nat → Nat) : Prog Id :=
  .read v.ix fun a => .read cols fun cs => .read (cs.getD src 0) fun d =>
    .alloc (List.replicate d.length 0) fun r =>
      forEach (scatterStep fn d r) (v.window a) <| setColumnProg cols dst r

theorem apply1_own_writes (v : View) (cols : Id) (src dst : Nat) (fn : Nat → Nat) :
    ∀ base, (apply1Prog v cols src dst fn).OwnWrites base := by
  intro base a cs d r hr
  refine forEach_own base _ (fun i k hk => ?_) _ _ (setColumn_own_writes _ _ _ base)
  intro cur
  exact ⟨hr, hk⟩

/-! ## Distinct / GroupBy — `groupIndex`, `insertEntry`, `grow`

The hash table `entries` is one array.  `grow` allocates a table of twice the size and fills it;
afterwards the *new* table is the one written.  With `collectIx` an entry that receives its second
row allocates `index.Int{firstPos, i}`; later rows are `append`ed: either written into the spare
capacity of the group array the program allocated itself, or (no capacity) into a freshly allocated
bigger one.  The ids of the table and of the group arrays are loop state.  What the hash / compare
/ probe functions compute is abstract (`TableFns`). -/

inductive Probe
  | eden
  | first
  | more (gi : Nat)

structure TableFns where
  initSize : Nat → Nat
  needsGrow : Arr → Bool
  rehash : Arr → Arr
  /-- comparables' data, table, row -/
  probe : List Arr → Arr → Nat → Probe
  firstPos : List Arr → Arr → Nat → Nat
  insert : List Arr → Arr → Nat → Arr
  /-- table after recording that the entry hit by row `i` now uses group array number `gi` -/
  link : List Arr → Arr → Nat → Nat → Arr
  full : Arr → Bool
  /-- `grouper.Distinct`: the `firstPos` of the occupied entries -/
  firsts : Arr → Arr
  /-- `grouper.GroupBy`: `index.Int{e.firstPos}` for occupied entries without group array -/
  singles : Arr → List Arr
  /-- `grouper.GroupBy`: the result slice, given the collected and the singleton group arrays -/
  order : Arr → List Id → List Id → List Id

def growTable {α : Type} (fns : TableFns) (t : Id) (cur : Arr) (k : Id → Prog α) : Prog α :=
  if fns.needsGrow cur then
    .alloc (List.replicate (2 * cur.length) 0) fun t' => .write t' (fns.rehash cur) (k t')
  else k t

theorem growTable_own {α : Type} (base : Nat) (fns : TableFns) (t : Id) (cur : Arr)
    (k : Id → Prog α) (ht : base ≤ t) (hk : ∀ t', base ≤ t' → (k t').OwnWrites base) :
    (growTable fns t cur k).OwnWrites base := by
  unfold growTable
  split
  · intro t' ht'; exact ⟨ht', hk t' ht'⟩
  · exact hk t ht

/-- `e.ix = append(e.ix, i)` for the group array number `gi` -/
def appendGroup {α : Type} (fns : TableFns) (cmp : List Arr) (t : Id) (cur : Arr) (i gi : Nat)
    (gs : List Id) (k : Id × List Id → Prog α) : Prog α :=
  match gs[gi]? with
  | none => k (t, gs)
  | some g =>
    .read g fun old =>
      if fns.full old then
        .alloc (old ++ [i]) fun g' => .write t (fns.link cmp cur i gi) (k (t, gs.set gi g'))
      else
        .write g (old ++ [i]) <| .write t (fns.link cmp cur i gi) (k (t, gs))

/-- `insertEntry(i)`; state = (table id, ids of the group arrays allocated so far) -/
def groupStep {α : Type} (fns : TableFns) (cmp : List Arr) (collectIx : Bool) (i : Nat)
    (st : Id × List Id) (k : Id × List Id → Prog α) : Prog α :=
  .read st.1 fun cur0 => growTable fns st.1 cur0 fun t => .read t fun cur =>
    match fns.probe cmp cur i with
    | .eden => .write t (fns.insert cmp cur i) (k (t, st.2))
    | .first =>
      if collectIx then
        .alloc [fns.firstPos cmp cur i, i] fun g =>
          .write t (fns.link cmp cur i st.2.length) (k (t, st.2 ++ [g]))
      else k (t, st.2)
    | .more gi => if collectIx then appendGroup fns cmp t cur i gi st.2 k else k (t, st.2)

/-- loop invariant: the table and all group arrays were allocated by this program -/
def GInv (base : Nat) (st : Id × List Id) : Prop := base ≤ st.1 ∧ ∀ g ∈ st.2, base ≤ g

theorem appendGroup_own {α : Type} (base : Nat) (fns : TableFns) (cmp : List Arr) (t : Id)
    (cur : Arr) (i gi : Nat) (gs : List Id) (k : Id × List Id → Prog α)
    (hi : GInv base (t, gs)) (hk : ∀ st', GInv base st' → (k st').OwnWrites base) :
    (appendGroup fns cmp t cur i gi gs k).OwnWrites base := by
  unfold appendGroup
  split
  · exact hk _ hi
  · rename_i g hg
    have hgm : g ∈ gs := List.mem_of_getElem? hg
    intro old
    dsimp only
    split
    · intro g' hg'
      refine ⟨hi.1, hk _ ⟨hi.1, fun x hx => ?_⟩⟩
      rcases List.mem_or_eq_of_mem_set hx with h | h
      · exact hi.2 x h
      · exact h ▸ hg'
    · exact ⟨hi.2 g hgm, hi.1, hk _ hi⟩

theorem groupStep_own {α : Type} (base : Nat) (fns : TableFns) (cmp : List Arr)
    (collectIx : Bool) (i : Nat) (st : Id × List Id) (k : Id × List Id → Prog α)
    (hi : GInv base st) (hk : ∀ st', GInv base st' → (k st').OwnWrites base) :
    (groupStep fns cmp collectIx i st k).OwnWrites base := by
  intro cur0
  refine growTable_own base fns _ _ _ hi.1 fun t ht cur => ?_
  have hi' : GInv base (t, st.2) := ⟨ht, hi.2⟩
  dsimp only
  cases fns.probe cmp cur i with
  | eden => exact ⟨ht, hk _ hi'⟩
  | first =>
    cases collectIx with
    | false => exact hk _ hi'
    | true =>
      intro g hg
      refine ⟨ht, hk _ ⟨ht, fun x hx => ?_⟩⟩
      rcases List.mem_append.1 hx with h | h
      · exact hi.2 x h
      · rw [List.mem_singleton.1 h]; exact hg
  | more gi =>
    cases collectIx with
    | false => exact hk _ hi'
    | true => exact appendGroup_own base fns cmp t cur i _ _ k hi' hk

/-- `QFrame.Distinct` → `grouper.Distinct`: table, then `result := make(index.Int, 0, groupCount)` -/
def distinctProg (v : View) (cmpCols : List Id) (fns : TableFns) : Prog View :=
  .read v.ix fun a => readAll cmpCols fun cmp =>
    .alloc (List.replicate (fns.initSize (v.window a).length) 0) fun t =>
      loopSt (groupStep fns cmp false) (v.window a) (t, []) fun st =>
        .read st.1 fun tab => .alloc [] fun r =>
          .write r (fns.firsts tab) (.ret ⟨r, 0, (fns.firsts tab).length⟩)

theorem distinct_own_writes (v : View) (cmpCols : List Id) (fns : TableFns) :
    ∀ base, (distinctProg v cmpCols fns).OwnWrites base := by
  intro base a
  refine readAll_own base _ _ fun cmp t ht => ?_
  refine loopSt_own base (GInv base) _ (groupStep_own base fns cmp false) _ _ _
    ⟨ht, by simp⟩ fun st _ => ?_
  intro tab r hr
  exact ⟨hr, trivial⟩

/-- `QFrame.GroupBy` → `grouper.GroupBy`.  Without columns: `g.indices = []index.Int{qf.index}`
    (a one-element slice sharing the index).  Otherwise: table with `collectIx`, the singleton
    groups `index.Int{e.firstPos}` are allocated, the result slice is allocated and filled. -/
def groupByProg (v : View) (cmpCols : List Id) (fns : TableFns) : Prog Grouper :=
  if cmpCols = [] then .alloc [v.ix] fun res => .ret ⟨res, [v]⟩
  else
    .read v.ix fun a => readAll cmpCols fun cmp =>
      .alloc (List.replicate (fns.initSize (v.window a).length) 0) fun t =>
        loopSt (groupStep fns cmp true) (v.window a) (t, []) fun st =>
          .read st.1 fun tab =>
            collect (fun (init : Arr) k => Prog.alloc init k) (fns.singles tab) fun ss =>
              .alloc [] fun res => .write res (fns.order tab st.2 ss) <|
                readAll (fns.order tab st.2 ss) fun arrs =>
                  .ret ⟨res, List.zipWith (fun g (ga : Arr) => ⟨g, 0, ga.length⟩)
                    (fns.order tab st.2 ss) arrs⟩

theorem groupBy_own_writes (v : View) (cmpCols : List Id) (fns : TableFns) :
    ∀ base, (groupByProg v cmpCols fns).OwnWrites base := by
  intro base
  unfold groupByProg
  split
  · intro res _; trivial
  · intro a
    refine readAll_own base _ _ fun cmp t ht => ?_
    refine loopSt_own base (GInv base) _ (groupStep_own base fns cmp true) _ _ _
      ⟨ht, by simp⟩ fun st _ => ?_
    intro tab
    refine collect_own base (fun (init : Arr) k => Prog.alloc init k)
      (fun init k hk id hid => hk id hid) _ _ fun ss _ => ?_
    intro res hres
    exact ⟨hres, readAll_own base _ _ fun _ => trivial⟩

/-! ## Aggregate — `Grouper.Aggregate`

`firstElementIx` is allocated and filled; every grouped column is `Subset` into a fresh array;
every aggregation produces a fresh data array (`count`: `make([]int, len)`; otherwise
`Column.Aggregate`: `data := make(..., 0, len)`, the scratch buffer `buf` of `subsetWithBuf` is
(re)allocated when too small and overwritten for every group); a new columns array and a new
ascending index are allocated. -/

inductive AggSpec
  | count
  | fn (col : Id) (f : Arr → Nat)

/-- `col.Subset(firstElementIx)` -/
def subsetBody {α : Type} (firsts : Arr) (c : Id) (k : Id → Prog α) : Prog α :=
  .read c fun d => .alloc (List.replicate firsts.length 0) fun r =>
    .write r (firsts.map fun i => d.getD i 0) (k r)

/-- fill the buffer (if there is one) with the group's values, aggregate, append to `data` -/
def aggFin {α : Type} (d : Arr) (f : Arr → Nat) (r : Id) (g : Arr) (b : Option Id) (cap : Nat)
    (k : Option Id × Nat → Prog α) : Prog α :=
  match b with
  | none => .read r fun cur => .write r (cur ++ [f []]) (k (none, cap))
  | some b =>
    .write b (g.map fun i => d.getD i 0) <| .read b fun sub =>
      .read r fun cur => .write r (cur ++ [f sub]) (k (some b, cap))

/-- one round of the loop in `Column.Aggregate`; state = (`buf`, `cap(buf)`) -/
def aggStep {α : Type} (d : Arr) (f : Arr → Nat) (r : Id) (g : Arr) (st : Option Id × Nat)
    (k : Option Id × Nat → Prog α) : Prog α :=
  if st.2 < g.length then .alloc [] fun b => aggFin d f r g (some b) g.length k
  else aggFin d f r g st.1 st.2 k

def aggOne {α : Type} (gs : List Arr) : AggSpec → (Id → Prog α) → Prog α
  | .count, k =>
    .alloc (List.replicate gs.length 0) fun r => .write r (gs.map List.length) (k r)
  | .fn c f, k =>
    .read c fun d => .alloc [] fun r => loopSt (aggStep d f r) gs (none, 0) fun _ => k r

def aggregateProg (groups : List View) (grouped : List Id) (aggs : List AggSpec) : Prog Frame :=
  readViews groups fun gs =>
    .alloc (List.replicate gs.length 0) fun fe => .write fe (gs.map (·.headD 0)) <|
      .read fe fun firsts =>
        collect (subsetBody firsts) grouped fun newG =>
          collect (aggOne gs) aggs fun newA =>
            .alloc [] fun cols => .write cols (newG ++ newA) <|
              .alloc (List.replicate gs.length 0) fun ix => .write ix (List.range gs.length) <|
                .ret ⟨⟨ix, 0, gs.length⟩, cols⟩

/-- loop invariant: the scratch buffer, if any, was allocated by this program -/
def BInv (base : Nat) (st : Option Id × Nat) : Prop := ∀ b, st.1 = some b → base ≤ b

theorem aggFin_own {α : Type} (base : Nat) (d : Arr) (f : Arr → Nat) (r : Id) (hr : base ≤ r)
    (g : Arr) (b : Option Id) (cap : Nat) (k : Option Id × Nat → Prog α)
    (hi : BInv base (b, cap)) (hk : ∀ st', BInv base st' → (k st').OwnWrites base) :
    (aggFin d f r g b cap k).OwnWrites base := by
  unfold aggFin
  split
  · intro cur; exact ⟨hr, hk _ hi⟩
  · rename_i b
    exact ⟨hi b rfl, fun sub cur => ⟨hr, hk _ hi⟩⟩

theorem aggStep_own {α : Type} (base : Nat) (d : Arr) (f : Arr → Nat) (r : Id) (hr : base ≤ r)
    (g : Arr) (st : Option Id × Nat) (k : Option Id × Nat → Prog α)
    (hi : BInv base st) (hk : ∀ st', BInv base st' → (k st').OwnWrites base) :
    (aggStep d f r g st k).OwnWrites base := by
  unfold aggStep
  split
  · intro b hb
    refine aggFin_own base d f r hr g _ _ k (fun b' h => ?_) hk
    cases h; exact hb
  · exact aggFin_own base d f r hr g _ _ k hi hk

theorem aggOne_own {α : Type} (base : Nat) (gs : List Arr) (a : AggSpec) (k : Id → Prog α)
    (hk : ∀ id, base ≤ id → (k id).OwnWrites base) : (aggOne gs a k).OwnWrites base := by
  cases a with
  | count => intro r hr; exact ⟨hr, hk r hr⟩
  | fn c f =>
    intro d r hr
    refine loopSt_own base (BInv base) _ (fun g st k' => aggStep_own base d f r hr g st k') _ _ _
      (fun b h => by cases h) fun _ _ => hk r hr

theorem aggregate_own_writes (groups : List View) (grouped : List Id) (aggs : List AggSpec) :
    ∀ base, (aggregateProg groups grouped aggs).OwnWrites base := by
  intro base
  refine readViews_own base _ _ fun gs fe hfe => ⟨hfe, fun firsts => ?_⟩
  refine collect_own base (subsetBody firsts) (fun c k hk d r hr => ⟨hr, hk r hr⟩) _ _
    fun newG _ => ?_
  refine collect_own base (aggOne gs) (fun a k hk => aggOne_own base gs a k hk) _ _
    fun newA _ => ?_
  intro cols hcols
  exact ⟨hcols, fun ix hix => ⟨hix, trivial⟩⟩

/-! ## Sort (from `QF.Core.Heap`) -/

theorem sort_own_writes (ixId : Id) : ∀ base, (sortProg ixId).OwnWrites base := by
  intro base ix c hc v; exact ⟨hc, trivial⟩

/-! ## Histories of arbitrary operations -/

/-- descriptions of the operations -/
inductive Op
  | sort (ixId : Id)
  | filter (v : View) (fs : List FilterSpec)
  | slice (v : View) (start stop : Nat)
  | setColumn (cols : Id) (pos : Nat) (data : Id)
  | copy (cols : Id) (src dst : Nat)
  | apply1 (v : View) (cols : Id) (src dst : Nat) (fn : Nat → Nat)
  | distinct (v : View) (cmpCols : List Id) (fns : TableFns)
  | groupBy (v : View) (cmpCols : List Id) (fns : TableFns)
  | aggregate (groups : List View) (grouped : List Id) (aggs : List AggSpec)

def Op.prog : Op → Prog Unit
  | .sort ixId => void (sortProg ixId)
  | .filter v fs => void (filterProg v fs)
  | .slice v a b => void (sliceProg v a b)
  | .setColumn c p d => void (setColumnProg c p d)
  | .copy c s d => void (copyProg c s d)
  | .apply1 v c s d fn => void (apply1Prog v c s d fn)
  | .distinct v cs fns => void (distinctProg v cs fns)
  | .groupBy v cs fns => void (groupByProg v cs fns)
  | .aggregate gs gc as => void (aggregateProg gs gc as)

theorem op_own_writes : ∀ (op : Op) (base : Nat), (op.prog).OwnWrites base := by
  intro op base
  cases op with
  | sort ixId => exact (void_own_writes _ _).2 (sort_own_writes _ base)
  | filter v fs => exact (void_own_writes _ _).2 (filter_own_writes _ _ base)
  | slice v a b => exact (void_own_writes _ _).2 (slice_own_writes _ _ _ base)
  | setColumn c p d => exact (void_own_writes _ _).2 (setColumn_own_writes _ _ _ base)
  | copy c s d => exact (void_own_writes _ _).2 (copy_own_writes _ _ _ base)
  | apply1 v c s d fn => exact (void_own_writes _ _).2 (apply1_own_writes _ _ _ _ _ base)
  | distinct v cs fns => exact (void_own_writes _ _).2 (distinct_own_writes _ _ _ base)
  | groupBy v cs fns => exact (void_own_writes _ _).2 (groupBy_own_writes _ _ _ base)
  | aggregate gs gc as => exact (void_own_writes _ _).2 (aggregate_own_writes _ _ _ base)

/-- C01 for histories made of any of the operations, with any parameters, from any store:
    every array that exists at the start keeps its contents forever. -/
theorem any_history_persistent (ops : List Op) (s : Store) :
    ∀ id, id < s.length → (runAll (ops.map Op.prog) s).getD id [] = s.getD id [] := by
  refine history_persistent (ops.map Op.prog) s fun p hp base => ?_
  obtain ⟨op, _, rfl⟩ := List.mem_map.1 hp
  exact op_own_writes op base

/-- the same at every later point of the history: once an array exists (after the first `n`
    operations) it is never changed by the remaining ones -/
theorem runAll_append {α : Type} (ps qs : List (Prog α)) (s : Store) :
    runAll (ps ++ qs) s = runAll qs (runAll ps s) := by
  induction ps generalizing s with
  | nil => rfl
  | cons p ps ih => exact ih _

theorem any_history_persistent_from (before after : List Op) (s : Store) :
    ∀ id, id < (runAll (before.map Op.prog) s).length →
      (runAll ((before ++ after).map Op.prog) s).getD id [] =
        (runAll (before.map Op.prog) s).getD id [] := by
  intro id hid
  rw [List.map_append, runAll_append]
  exact any_history_persistent after _ id hid

/-! ## A concrete history -/

/-- a toy table: pairs `(firstPos+1, groupNo+1)`, linear scan, grows when the last pair is used -/
def toyScan (cmp : List Arr) (i : Nat) : Arr → Nat → Nat × Nat × Nat
  | fp :: gi :: rest, s =>
    if fp = 0 then (s, 0, 0)
    else if cmp.map (·.getD (fp - 1) 0) = cmp.map (·.getD i 0) then (s, fp, gi)
    else toyScan cmp i rest (s + 1)
  | _, s => (s, 0, 0)

def toyPairs : Arr → List (Nat × Nat)
  | fp :: gi :: rest => (fp, gi) :: toyPairs rest
  | _ => []

def toyOrder : List (Nat × Nat) → List Id → List Id → List Id
  | [], _, _ => []
  | (fp, gi) :: rest, gs, ss =>
    if fp = 0 then toyOrder rest gs ss
    else if gi = 0 then ss.headD 0 :: toyOrder rest gs ss.tail
    else gs.getD (gi - 1) 0 :: toyOrder rest gs ss

def toyFns : TableFns where
  initSize := fun _ => 2
  needsGrow := fun t => t.getD (t.length - 2) 0 ≠ 0
  rehash := fun t => t ++ List.replicate t.length 0
  probe := fun cmp t i =>
    match toyScan cmp i t 0 with
    | (_, 0, _) => .eden
    | (_, _, 0) => .first
    | (_, _, gi + 1) => .more gi
  firstPos := fun cmp t i => (toyScan cmp i t 0).2.1 - 1
  insert := fun cmp t i => t.set (2 * (toyScan cmp i t 0).1) (i + 1)
  link := fun cmp t i gi => t.set (2 * (toyScan cmp i t 0).1 + 1) (gi + 1)
  full := fun g => g.length % 2 = 0
  firsts := fun t => (toyPairs t).filterMap fun p => if p.1 = 0 then none else some (p.1 - 1)
  singles := fun t =>
    (toyPairs t).filterMap fun p => if p.1 ≠ 0 ∧ p.2 = 0 then some [p.1 - 1] else none
  order := fun t gs ss => toyOrder (toyPairs t) gs ss

/-- index (0), columns array (1) = [2, 3], column data (2) and (3) -/
def store1 : Store := [[0, 1, 2, 3, 4], [2, 3], [7, 8, 7, 7, 8], [10, 20, 30, 40, 50]]

def frame1 : View := ⟨0, 0, 5⟩

def history1 : List Op :=
  [ .filter frame1 [gtSpec 2 7 false, gtSpec 3 25 true],
    .slice frame1 1 4,
    .apply1 ⟨0, 1, 3⟩ 1 1 2 (· + 1),
    .copy 1 0 2,
    .distinct frame1 [2] toyFns,
    .groupBy frame1 [2] toyFns,
    .sort 0,
    .aggregate [⟨18, 0, 3⟩, ⟨19, 0, 2⟩] [2] [.count, .fn 3 List.sum] ]

#eval ((groupByProg frame1 [2] toyFns).run store1).1
#eval runAll (history1.map Op.prog) store1

/-- the history really allocates and writes (25 new arrays) … -/
example : (runAll (history1.map Op.prog) store1).length = 29 := by decide

/-- … the group-by in it grows the table twice, reallocates a group array once and computes the
    groups `{0,2,3}` and `{1,4}` of column 2 … -/
example : ((groupByProg frame1 [2] toyFns).run store1).2.1.drop 4 =
    [[1, 0], [1, 0, 2, 0], [1, 1, 2, 2, 0, 0, 0, 0], [0, 2], [0, 2, 3], [1, 4], [8, 9]] := by decide

/-- … and the four original arrays are as they were (instance of the theorem, and by evaluation) -/
example : ∀ id, id < 4 →
    (runAll (history1.map Op.prog) store1).getD id [] = store1.getD id [] :=
  any_history_persistent history1 store1

example : (runAll (history1.map Op.prog) store1).take 4 = store1 := by decide

/-- replacing the filter by the buggy one breaks persistence of array 2 (a column) on the same store -/
example : ((filterProgBug frame1 2 [gtSpec 2 7 false]).run store1).2.1.getD 2 [] ≠ store1.getD 2 [] := by
  decide

#print axioms bind_own_writes
#print axioms filter_own_writes
#print axioms slice_own_writes
#print axioms setColumn_own_writes
#print axioms copy_own_writes
#print axioms apply1_own_writes
#print axioms distinct_own_writes
#print axioms groupBy_own_writes
#print axioms aggregate_own_writes
#print axioms op_own_writes
#print axioms any_history_persistent
#print axioms any_history_persistent_from
#print axioms filterProgBug_not_own_writes
#print axioms filterProgBug_changes_earlier_array

end QF.Props.C01
