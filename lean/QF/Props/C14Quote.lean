import QF.Spec.Json
/-!
# C14: `strings.AppendQuotedString` writes a JSON string token that decodes to `sanitize s`

`appendQuoted` is a byte-level mirror of `AppendQuotedString` in /repo/internal/strings/serialize.go
(the pending-run/flush mechanism is modelled as emitting bytes in scan order, which is equivalent).
`quoted_parses` shows that, for EVERY byte string (valid UTF-8 or not), the RFC 8259 string parser
`Json.parseStr` consumes exactly the emitted token and decodes it to `Json.sanitize s`.
-/
namespace QF.Props.C14
open QF

/-- `chars[n]` for `chars = "0123456789abcdef"`. -/
def hexDigit (n : Nat) : UInt8 := if n < 10 then UInt8.ofNat (48 + n) else UInt8.ofNat (87 + n)

/-- The `switch c` for a byte `< 0x80` that needs escaping: `\t \r \n \\ \"`, otherwise `\u00XY`
with `X = chars[c>>4]`, `Y = chars[c&0xf]`. -/
def escapeAscii (c : UInt8) : List UInt8 :=
  if c == 9 then [92, 116]
  else if c == 13 then [92, 114]
  else if c == 10 then [92, 110]
  else if c == 92 then [92, 92]
  else if c == 34 then [92, 34]
  else [92, 117, 48, 48, hexDigit (c.toNat / 16), hexDigit (c.toNat % 16)]

/-- The scanning loop, from index `i` (the remaining input `s = str[i:]`) to the end; returns the bytes
appended to `buf` from here on, except the closing quote. One unit of fuel per loop iteration;
`s.length + 1` always suffices. -/
def scan (fuel : Nat) (s : List UInt8) : List UInt8 :=
  match fuel with
  | 0 => []
  | fuel + 1 =>
    match s with
    | [] => []
    | c :: rest =>
      if c != 92 && c != 34 && c ≥ 0x20 && c < 0x80 then c :: scan fuel rest
      else if c < 0x80 then escapeAscii c ++ scan fuel rest
      else
        let (r, w) := Json.decodeRune (c :: rest)
        if r == 0xFFFD && w == 1 then [92, 117, 102, 102, 102, 100] ++ scan fuel rest
        else if r == 0x2028 || r == 0x2029 then
          [92, 117, 50, 48, 50, hexDigit (r % 16)] ++ scan fuel ((c :: rest).drop w)
        else (c :: rest).take w ++ scan fuel ((c :: rest).drop w)

/-- The bytes `AppendQuotedString(buf, s)` appends to `buf` (both quotes included). -/
def appendQuoted (s : List UInt8) : List UInt8 := 34 :: (scan (s.length + 1) s ++ [34])

private theorem parse_plain (f : Nat) (c : UInt8) (rest acc : List UInt8)
    (h1 : c ≠ 92) (h2 : c ≠ 34) (h3 : ¬ c < 0x20) (h4 : c < 0x80) :
    Json.parseStr (f + 1) (c :: rest) acc = Json.parseStr f rest (acc ++ [c]) := by
  rw [Json.parseStr]
  · simp [h3, h4]
  · simp [h2]
  · simp [h1]

private theorem hex4_cons4 (a b c d : UInt8) (rest : List UInt8) :
    Json.hex4 (a :: b :: c :: d :: rest) = Json.hex4 [a, b, c, d] := by
  have h1 : ¬ (a :: b :: c :: d :: rest).length < 4 := by simp only [List.length_cons]; omega
  have h2 : ¬ [a, b, c, d].length < 4 := by simp
  unfold Json.hex4
  rw [if_neg h1, if_neg h2]
  rfl

private theorem parse_u (f : Nat) (a b c d : UInt8) (rest acc : List UInt8) (u : Nat)
    (h : Json.hex4 [a, b, c, d] = some u) (hu : u < 0xD800 ∨ 0xE000 ≤ u) :
    Json.parseStr (f + 1) (92 :: 117 :: a :: b :: c :: d :: rest) acc
      = Json.parseStr f rest (acc ++ Json.encodeRune u) := by
  rw [Json.parseStr, hex4_cons4, h]
  have h1 : ¬ (0xD800 ≤ u ∧ u < 0xDC00) := by omega
  have h2 : ¬ (0xDC00 ≤ u ∧ u < 0xE000) := by omega
  simp [h1, h2]

private theorem hex4_00 : ∀ n, n < 32 → Json.hex4 [48, 48, hexDigit (n / 16), hexDigit (n % 16)] = some n := by
  decide

private theorem hex4_fffd : Json.hex4 [102, 102, 102, 100] = some 0xFFFD := by decide
private theorem hex4_202x : ∀ n, n < 16 → Json.hex4 [50, 48, 50, hexDigit n] = some (0x2020 + n) := by decide

private theorem parse_escape (f : Nat) (c : UInt8) (rest acc : List UInt8)
    (h : c = 92 ∨ c = 34 ∨ c < 0x20) :
    Json.parseStr (f + 1) (escapeAscii c ++ rest) acc = Json.parseStr f rest (acc ++ [c]) := by
  unfold escapeAscii
  split
  · rename_i h; simp at h; subst h; simp [Json.parseStr]
  split
  · rename_i h; simp at h; subst h; simp [Json.parseStr]
  split
  · rename_i h; simp at h; subst h; simp [Json.parseStr]
  split
  · rename_i h; simp at h; subst h; simp [Json.parseStr]
  split
  · rename_i h; simp at h; subst h; simp [Json.parseStr]
  · have hc : c.toNat < 32 := by
      rcases h with h | h | h
      · simp_all
      · simp_all
      · exact UInt8.lt_iff_toNat_lt.mp h
    simp only [List.cons_append, List.nil_append]
    rw [parse_u f _ _ _ _ rest acc c.toNat (hex4_00 _ hc) (by omega)]
    have : Json.encodeRune c.toNat = [c] := by
      simp [Json.encodeRune]; omega
    rw [this]



private theorem u8_eq (a : UInt8) (n : Nat) (hn : n < 256) (h : a.toNat = n) : a = UInt8.ofNat n := by
  subst h; simp

theorem decodeRune_spec (c : UInt8) (rest : List UInt8) (hc : ¬ c < 0x80) :
    Json.decodeRune (c :: rest) = (0xFFFD, 1) ∨
    ∃ r w pre t, rest = pre ++ t ∧ pre.length + 1 = w ∧ 2 ≤ w ∧
      (∀ X, Json.decodeRune (c :: (pre ++ X)) = (r, w)) ∧
      ((r = 0x2028 ∨ r = 0x2029) → c :: pre = Json.encodeRune r) := by
  by_cases hA : (0xC2 ≤ c && c ≤ 0xDF) = true
  · match rest with
    | [] => left; simp [Json.decodeRune, hc, hA]
    | b1 :: t =>
      by_cases hk : (0x80 ≤ b1 && b1 ≤ 0xBF) = true
      · right
        refine ⟨(c.toNat % 32) * 64 + b1.toNat % 64, 2, [b1], t, rfl, rfl, by omega, ?_, ?_⟩
        · intro X; simp [Json.decodeRune, hc, hA, hk]
        · intro h; omega
      · left; simp [Json.decodeRune, hc, hA, hk]
  by_cases hB : (0xE0 ≤ c && c ≤ 0xEF) = true
  · match rest with
    | [] => left; simp [Json.decodeRune, hc, hA, hB]
    | [b1] => left; simp [Json.decodeRune, hc, hA, hB]
    | b1 :: b2 :: t =>
      by_cases hk : ((if c == 0xE0 then 0xA0 else 0x80) ≤ b1 && b1 ≤ (if c == 0xED then 0x9F else 0xBF)
                      && (0x80 ≤ b2 && b2 ≤ 0xBF)) = true
      · right
        refine ⟨(c.toNat % 16) * 4096 + (b1.toNat % 64) * 64 + b2.toNat % 64, 3, [b1, b2], t, rfl, rfl,
          by omega, ?_, ?_⟩
        · intro X; simp [Json.decodeRune, hc, hA, hB]; simpa [and_assoc] using hk
        · intro h
          simp only [Bool.and_eq_true, decide_eq_true_eq, UInt8.le_iff_toNat_le] at hB hk
          have hb1 : 128 ≤ b1.toNat ∧ b1.toNat ≤ 191 := by
            obtain ⟨⟨h1, h2⟩, _⟩ := hk
            constructor
            · split at h1 <;> simp at h1 <;> omega
            · split at h2 <;> simp at h2 <;> omega
          have hb2 : 128 ≤ b2.toNat ∧ b2.toNat ≤ 191 := by simpa using hk.2
          have hc' : 224 ≤ c.toNat ∧ c.toNat ≤ 239 := by simpa using hB
          have e1 : c = 0xE2 := u8_eq c 0xE2 (by omega) (by omega)
          have e2 : b1 = 0x80 := u8_eq b1 0x80 (by omega) (by omega)
          rcases h with h | h
          · have e3 : b2 = 0xA8 := u8_eq b2 0xA8 (by omega) (by omega)
            rw [h, e1, e2, e3]; decide
          · have e3 : b2 = 0xA9 := u8_eq b2 0xA9 (by omega) (by omega)
            rw [h, e1, e2, e3]; decide
      · left; simp [Json.decodeRune, hc, hA, hB]; simpa using hk
  by_cases hC : (0xF0 ≤ c && c ≤ 0xF4) = true
  · match rest with
    | [] => left; simp [Json.decodeRune, hc, hA, hB, hC]
    | [b1] => left; simp [Json.decodeRune, hc, hA, hB, hC]
    | [b1, b2] => left; simp [Json.decodeRune, hc, hA, hB, hC]
    | b1 :: b2 :: b3 :: t =>
      by_cases hk : ((if c == 0xF0 then 0x90 else 0x80) ≤ b1 && b1 ≤ (if c == 0xF4 then 0x8F else 0xBF)
                      && (0x80 ≤ b2 && b2 ≤ 0xBF) && (0x80 ≤ b3 && b3 ≤ 0xBF)) = true
      · right
        refine ⟨(c.toNat % 8) * 262144 + (b1.toNat % 64) * 4096 + (b2.toNat % 64) * 64 + b3.toNat % 64,
          4, [b1, b2, b3], t, rfl, rfl, by omega, ?_, ?_⟩
        · intro X; simp [Json.decodeRune, hc, hA, hB, hC]; simpa [and_assoc] using hk
        · intro h
          exfalso
          simp only [Bool.and_eq_true, decide_eq_true_eq, UInt8.le_iff_toNat_le] at hC hk
          have hc' : 240 ≤ c.toNat ∧ c.toNat ≤ 244 := by simpa using hC
          have hb1 : c.toNat = 240 → 144 ≤ b1.toNat := by
            intro e
            have e1 : c = 0xF0 := u8_eq c 0xF0 (by omega) e
            have h1 := hk.1.1.1
            simpa [e1] using h1
          have hb1' : b1.toNat ≤ 191 := by
            have h2 := hk.1.1.2
            split at h2 <;> simp at h2 <;> omega
          omega
      · left; simp [Json.decodeRune, hc, hA, hB, hC]; simpa using hk
  · left; simp [Json.decodeRune, hc, hA, hB, hC]

private theorem ge80_ne (c : UInt8) (hc : ¬ c < 0x80) : c ≠ 34 ∧ c ≠ 92 ∧ ¬ c < 0x20 := by
  refine ⟨?_, ?_, ?_⟩
  · intro h; subst h; exact hc (by decide)
  · intro h; subst h; exact hc (by decide)
  · intro h; apply hc; simp only [UInt8.lt_iff_toNat_lt] at *; simp at *; omega

private theorem parse_good (f : Nat) (c : UInt8) (Y acc : List UInt8) (r w : Nat) (hc : ¬ c < 0x80)
    (hd : Json.decodeRune (c :: Y) = (r, w)) (hw : 2 ≤ w) :
    Json.parseStr (f + 1) (c :: Y) acc
      = Json.parseStr f ((c :: Y).drop w) (acc ++ (c :: Y).take w) := by
  obtain ⟨h1, h2, h3⟩ := ge80_ne c hc
  rw [Json.parseStr]
  · have hw1 : w ≠ 1 := by omega
    simp [h3, hc, hd, hw1]
  · simp [h1]
  · simp [h2]

private theorem dr_ascii (c : UInt8) (rest : List UInt8) (hc : c < 0x80) :
    Json.decodeRune (c :: rest) = (c.toNat, 1) := by
  simp [Json.decodeRune, hc]

private theorem san_nil (f : Nat) (acc : List UInt8) : Json.sanitize.go f [] acc = acc := by
  cases f <;> simp [Json.sanitize.go]

private theorem san_ascii (f : Nat) (c : UInt8) (rest acc : List UInt8) (hc : c < 0x80) :
    Json.sanitize.go (f + 1) (c :: rest) acc = Json.sanitize.go f rest (acc ++ [c]) := by
  have h : c.toNat ≠ 0xFFFD := by
    have := UInt8.lt_iff_toNat_lt.mp hc; simp at this; omega
  simp [Json.sanitize.go, dr_ascii c rest hc, h]

private theorem san_bad (f : Nat) (c : UInt8) (rest acc : List UInt8)
    (hd : Json.decodeRune (c :: rest) = (0xFFFD, 1)) :
    Json.sanitize.go (f + 1) (c :: rest) acc = Json.sanitize.go f rest (acc ++ [0xEF, 0xBF, 0xBD]) := by
  simp [Json.sanitize.go, hd]

private theorem san_good (f : Nat) (c : UInt8) (rest acc : List UInt8) (r w : Nat)
    (hd : Json.decodeRune (c :: rest) = (r, w)) (hw : 2 ≤ w) :
    Json.sanitize.go (f + 1) (c :: rest) acc
      = Json.sanitize.go f ((c :: rest).drop w) (acc ++ (c :: rest).take w) := by
  have hw1 : w ≠ 1 := by omega
  simp [Json.sanitize.go, hd, hw1]

private theorem scan_nil (f : Nat) : scan f [] = [] := by
  cases f <;> simp [scan]

private theorem scan_plain (f : Nat) (c : UInt8) (rest : List UInt8)
    (h1 : c ≠ 92) (h2 : c ≠ 34) (h3 : ¬ c < 0x20) (h4 : c < 0x80) :
    scan (f + 1) (c :: rest) = c :: scan f rest := by
  have h3' : 0x20 ≤ c := UInt8.not_lt.mp h3
  simp [scan, h1, h2, h3', h4]

private theorem scan_esc (f : Nat) (c : UInt8) (rest : List UInt8)
    (h : c = 92 ∨ c = 34 ∨ c < 0x20) (h4 : c < 0x80) :
    scan (f + 1) (c :: rest) = escapeAscii c ++ scan f rest := by
  have : ¬ (c ≠ 92 ∧ c ≠ 34 ∧ 0x20 ≤ c) := by
    rintro ⟨a, b, d⟩
    rcases h with h | h | h
    · exact a h
    · exact b h
    · exact UInt8.not_lt.mpr d h
  simp only [scan]
  rw [if_neg, if_pos h4]
  simp only [Bool.and_eq_true, bne_iff_ne, decide_eq_true_eq, ge_iff_le]
  rintro ⟨⟨⟨a, b⟩, d⟩, _⟩
  exact this ⟨a, b, d⟩

private theorem scan_bad (f : Nat) (c : UInt8) (rest : List UInt8) (hc : ¬ c < 0x80)
    (hd : Json.decodeRune (c :: rest) = (0xFFFD, 1)) :
    scan (f + 1) (c :: rest) = [92, 117, 102, 102, 102, 100] ++ scan f rest := by
  simp [scan, hc, hd]

private theorem scan_ls (f : Nat) (c : UInt8) (rest : List UInt8) (r w : Nat) (hc : ¬ c < 0x80)
    (hd : Json.decodeRune (c :: rest) = (r, w)) (hw : 2 ≤ w) (hr : r = 0x2028 ∨ r = 0x2029) :
    scan (f + 1) (c :: rest) = [92, 117, 50, 48, 50, hexDigit (r % 16)] ++ scan f ((c :: rest).drop w) := by
  have hw1 : w ≠ 1 := by omega
  simp [scan, hc, hd, hw1, hr]

private theorem scan_good (f : Nat) (c : UInt8) (rest : List UInt8) (r w : Nat) (hc : ¬ c < 0x80)
    (hd : Json.decodeRune (c :: rest) = (r, w)) (hw : 2 ≤ w) (hr : ¬ (r = 0x2028 ∨ r = 0x2029)) :
    scan (f + 1) (c :: rest) = (c :: rest).take w ++ scan f ((c :: rest).drop w) := by
  have hw1 : w ≠ 1 := by omega
  simp [scan, hc, hd, hw1, hr]

private theorem take_pre (c : UInt8) (pre Z : List UInt8) (w : Nat) (h : pre.length + 1 = w) :
    (c :: (pre ++ Z)).take w = c :: pre := by
  subst h; simp

private theorem drop_pre (c : UInt8) (pre Z : List UInt8) (w : Nat) (h : pre.length + 1 = w) :
    (c :: (pre ++ Z)).drop w = Z := by
  subst h; simp

private theorem esc_len (c : UInt8) : 1 ≤ (escapeAscii c).length := by
  unfold escapeAscii
  repeat' split
  all_goals simp

private theorem enc_fffd : Json.encodeRune 0xFFFD = [0xEF, 0xBF, 0xBD] := by decide

private theorem main_nil (fs fz fp : Nat) (acc tl : List UInt8) (h : 0 < fp) :
    Json.parseStr fp (scan fs [] ++ 34 :: tl) acc = some (Json.sanitize.go fz [] acc, tl) := by
  obtain ⟨fp', rfl⟩ : ∃ k, fp = k + 1 := ⟨fp - 1, by omega⟩
  rw [scan_nil, san_nil]
  simp [Json.parseStr]

theorem scan_parses (n : Nat) : ∀ (s acc tl : List UInt8) (fs fz fp : Nat),
    s.length ≤ n → s.length < fs → s.length < fz → (scan fs s).length < fp →
    Json.parseStr fp (scan fs s ++ 34 :: tl) acc = some (Json.sanitize.go fz s acc, tl) := by
  induction n with
  | zero =>
    intro s acc tl fs fz fp hn _ _ hfp
    have : s = [] := List.eq_nil_of_length_eq_zero (by omega)
    subst this
    exact main_nil fs fz fp acc tl (by omega)
  | succ n ih =>
    intro s acc tl fs fz fp hn hfs hfz hfp
    match s with
    | [] => exact main_nil fs fz fp acc tl (by omega)
    | c :: rest =>
      simp only [List.length_cons] at hn hfs hfz
      obtain ⟨fs', rfl⟩ : ∃ k, fs = k + 1 := ⟨fs - 1, by omega⟩
      obtain ⟨fz', rfl⟩ : ∃ k, fz = k + 1 := ⟨fz - 1, by omega⟩
      by_cases hc : c < 0x80
      · by_cases he : c = 92 ∨ c = 34 ∨ c < 0x20
        · rw [scan_esc fs' c rest he hc] at hfp ⊢
          have := esc_len c
          simp only [List.length_append] at hfp
          obtain ⟨fp', rfl⟩ : ∃ k, fp = k + 1 := ⟨fp - 1, by omega⟩
          rw [List.append_assoc, parse_escape fp' c _ acc he, san_ascii fz' c rest acc hc]
          exact ih rest _ tl fs' fz' fp' (by omega) (by omega) (by omega) (by omega)
        · have h1 : c ≠ 92 := fun h => he (Or.inl h)
          have h2 : c ≠ 34 := fun h => he (Or.inr (Or.inl h))
          have h3 : ¬ c < 0x20 := fun h => he (Or.inr (Or.inr h))
          rw [scan_plain fs' c rest h1 h2 h3 hc] at hfp ⊢
          simp only [List.length_cons] at hfp
          obtain ⟨fp', rfl⟩ : ∃ k, fp = k + 1 := ⟨fp - 1, by omega⟩
          rw [List.cons_append, parse_plain fp' c _ acc h1 h2 h3 hc, san_ascii fz' c rest acc hc]
          exact ih rest _ tl fs' fz' fp' (by omega) (by omega) (by omega) (by omega)
      · rcases decodeRune_spec c rest hc with hd | ⟨r, w, pre, t, rfl, hlen, hw, hX, hls⟩
        · rw [scan_bad fs' c rest hc hd] at hfp ⊢
          simp only [List.length_append, List.length_cons, List.length_nil] at hfp
          obtain ⟨fp', rfl⟩ : ∃ k, fp = k + 1 := ⟨fp - 1, by omega⟩
          rw [List.append_assoc]
          simp only [List.cons_append, List.nil_append]
          rw [parse_u fp' _ _ _ _ _ acc 0xFFFD hex4_fffd (by omega), enc_fffd, san_bad fz' c rest acc hd]
          exact ih rest _ tl fs' fz' fp' (by omega) (by omega) (by omega) (by omega)
        · have hd := hX t
          simp only [List.length_append] at hn hfs hfz
          rw [san_good fz' c (pre ++ t) acc r w hd hw, take_pre c pre t w hlen, drop_pre c pre t w hlen]
          by_cases hr : r = 0x2028 ∨ r = 0x2029
          · rw [scan_ls fs' c (pre ++ t) r w hc hd hw hr, drop_pre c pre t w hlen] at hfp ⊢
            simp only [List.length_append, List.length_cons, List.length_nil] at hfp
            obtain ⟨fp', rfl⟩ : ∃ k, fp = k + 1 := ⟨fp - 1, by omega⟩
            rw [List.append_assoc]
            simp only [List.cons_append, List.nil_append]
            have hh : Json.hex4 [50, 48, 50, hexDigit (r % 16)] = some r := by
              rcases hr with h | h <;> subst h <;> decide
            rw [parse_u fp' _ _ _ _ _ acc r hh (by omega), ← hls hr]
            exact ih t _ tl fs' fz' fp' (by omega) (by omega) (by omega) (by omega)
          · rw [scan_good fs' c (pre ++ t) r w hc hd hw hr, take_pre c pre t w hlen,
              drop_pre c pre t w hlen] at hfp ⊢
            simp only [List.length_append, List.length_cons] at hfp
            obtain ⟨fp', rfl⟩ : ∃ k, fp = k + 1 := ⟨fp - 1, by omega⟩
            have e : (c :: pre ++ scan fs' t) ++ 34 :: tl = c :: (pre ++ (scan fs' t ++ 34 :: tl)) := by
              simp
            rw [e, parse_good fp' c _ acc r w hc (hX _) hw, take_pre c pre _ w hlen, drop_pre c pre _ w hlen]
            exact ih t _ tl fs' fz' fp' (by omega) (by omega) (by omega) (by omega)

theorem quoted_parses (s : List UInt8) :
    ∃ fuel, Json.parseStr fuel ((appendQuoted s).drop 1) [] = some (Json.sanitize s, []) := by
  refine ⟨(scan (s.length + 1) s).length + 1, ?_⟩
  simp only [appendQuoted, List.drop_succ_cons, List.drop_zero, Json.sanitize]
  exact scan_parses s.length s [] [] _ _ _ (Nat.le_refl _) (by omega) (by omega) (by omega)

theorem quoted_starts_with_quote (s : List UInt8) : (appendQuoted s).head? = some 34 := rfl

/-- Same statement in the shape used by `Json.parseVal` / `Json.parseMembers`: any trailing text `tl`
is left untouched, and the fuel those parsers pass (`length + 1`) suffices. -/
theorem quoted_parses_tail (s tl : List UInt8) :
    Json.parseStr (((appendQuoted s).drop 1 ++ tl).length + 1) ((appendQuoted s).drop 1 ++ tl) []
      = some (Json.sanitize s, tl) := by
  simp only [appendQuoted, List.drop_succ_cons, List.drop_zero, Json.sanitize, List.append_assoc,
    List.cons_append, List.nil_append]
  exact scan_parses s.length s [] tl _ _ _ (Nat.le_refl _) (by omega) (by omega)
    (by simp only [List.length_append]; omega)

/-! ## Sanity examples -/

-- "a\"b\\c"  ↦  "a\\\"b\\\\c" (with quotes)
example : appendQuoted [97, 34, 98, 92, 99] = [34, 97, 92, 34, 98, 92, 92, 99, 34] := by decide
-- control byte 0x01 ↦ \u0001
example : appendQuoted [97, 1, 98] = [34, 97, 92, 117, 48, 48, 48, 49, 98, 34] := by decide
-- 0x1f ↦ \u001f (lower-case hex), 0x7f stays raw
example : appendQuoted [0x1f, 0x7f] = [34, 92, 117, 48, 48, 49, 102, 0x7f, 34] := by decide
-- tab ↦ \t
example : appendQuoted [9] = [34, 92, 116, 34] := by decide
-- E2 80 A8 (U+2028) ↦ \u2028 ; E2 80 A9 ↦ \u2029
example : appendQuoted [0xE2, 0x80, 0xA8] = [34, 92, 117, 50, 48, 50, 56, 34] := by decide
example : appendQuoted [0xE2, 0x80, 0xA9] = [34, 92, 117, 50, 48, 50, 57, 34] := by decide
-- invalid byte FF ↦ \ufffd
example : appendQuoted [0xFF] = [34, 92, 117, 102, 102, 102, 100, 34] := by decide
-- a well-formed U+FFFD (EF BF BD) stays as is
example : appendQuoted [0xEF, 0xBF, 0xBD] = [34, 0xEF, 0xBF, 0xBD, 34] := by decide
-- truncated 3-byte sequence: each byte is replaced separately
example : appendQuoted [0xE2, 0x80] =
    [34, 92, 117, 102, 102, 102, 100, 92, 117, 102, 102, 102, 100, 34] := by decide
-- a valid 2-byte and a valid 4-byte rune stay raw
example : appendQuoted [0xC3, 0xA9, 0xF0, 0x9F, 0x98, 0x80] = [34, 0xC3, 0xA9, 0xF0, 0x9F, 0x98, 0x80, 34] := by
  decide

/-- A concrete non-trivial instance of `quoted_parses` (the theorem has no hypotheses): a mix of plain,
escaped, U+2028, invalid and well-formed-U+FFFD bytes, checked by evaluation. -/
example :
    let s : List UInt8 := [97, 34, 1, 9, 0xE2, 0x80, 0xA8, 0xFF, 0xEF, 0xBF, 0xBD, 0xC3]
    Json.parseStr 40 ((appendQuoted s).drop 1) [] = some (Json.sanitize s, []) ∧
    Json.sanitize s = [97, 34, 1, 9, 0xE2, 0x80, 0xA8, 0xEF, 0xBF, 0xBD, 0xEF, 0xBF, 0xBD, 0xEF, 0xBF, 0xBD] := by
  decide

example : ∃ fuel, Json.parseStr fuel ((appendQuoted [0xFF, 92]).drop 1) [] = some ([0xEF, 0xBF, 0xBD, 92], []) :=
  quoted_parses [0xFF, 92]

end QF.Props.C14

#print axioms QF.Props.C14.decodeRune_spec
#print axioms QF.Props.C14.scan_parses
#print axioms QF.Props.C14.quoted_parses
#print axioms QF.Props.C14.quoted_parses_tail
#print axioms QF.Props.C14.quoted_starts_with_quote