import QF.Drv.FilterMirror
import QF.Props.C02Spec
/-!
# C02 — the executable Filter mirror agrees with the spec

`QF.Drv.mirrorFilter lo f c` runs the mirror of the Go implementation (`F.Clause.filter`: shared boolean mask, kernels
of shape guarded / setAll, inverse shortcut with fallback, And sequential, Or in batches merged by `orFrames`, Not by
leaf flip or complement merge) on the translation `mirrorClause lo f c` of a spec clause, with kernel shapes and the
inverse table taken from the facts extracted from the source (`QF.Gen`). This file proves

    mirrorFilter lo f c = if c.wellFormed lo f then some (keptRows lo f c) else none

* `mirror_sem`        : `(mirrorClause lo f c).sem = c.sem lo f` (every clause, every row)
* `mirror_wellTyped`  : `(mirrorClause lo f c).wellTyped = c.wellFormed lo f`
* `mirror_sound`      : every leaf of the mirror clause is `LeafOk`: its kernel is the guarded accumulate of the spec
                        predicate, or sets every entry to `true` for a constantly-true predicate; inverse shortcuts
                        are pointwise negations. Needs `ShapesOK` (facts about `QF.Gen`) and `IntColsNonNull f`.
* `filter_refines'`   : `F.filter_refines` generalised from `F.Leaf.sound` to `LeafOk` (via `normC`, which rewrites the
                        harmless `setAll true` kernels to guarded ones, and `filter_norm : c.filter f = (normC c).filter f`)
* `filter_err`        : a clause that is not `wellTyped` makes `F.Clause.filter` fail, on every frame
* `shapesOK_today`    : `ShapesOK` for today's tables, by `decide`
* `mirrorFilter_eq_spec_partial`, `mirrorFilter_eq_spec_today` : the agreement.

The statement carries one hypothesis beyond `ShapesOK`, hence the name `_partial`: `IntColsNonNull f`, "an int column
holds no null cell". It is a well-typedness condition on the logical frame (Go `int` has no null, every frame built by
the driver satisfies it) and it cannot be dropped: the int `isnotnull` kernel of the source sets every mask entry
without looking at the data, whereas the spec looks at the cell; see `fBad` at the end of the file for the
counterexample on an ill-typed `LFrame`.
-/
namespace QF.Props.C02Mirror
open QF QF.Drv

/-! ## F-level: kernels that overwrite with `true` a constantly-true predicate -/

/-- A kernel is harmless when it is the guarded accumulate, or when it sets every entry to `true` and the predicate it
stands for is constantly true. -/
def KOk (sh : F.KShape) (p : F.Pos → Bool) : Prop :=
  sh = .guarded ∨ (sh = .setAll true ∧ ∀ x, p x = true)

theorem runKernel_ok (sh : F.KShape) (p : F.Pos → Bool) (h : KOk sh p) (ix : List F.Pos) (m : List Bool) :
    F.runKernel sh p ix m = F.runKernel .guarded p ix m := by
  rcases h with rfl | ⟨rfl, hp⟩
  · rfl
  · induction ix generalizing m with
    | nil => simp [F.runKernel]
    | cons i ix ih =>
      cases m with
      | nil => simp [F.runKernel]
      | cons b bs => cases b <;> simp [F.runKernel, ih, hp]

def normLeaf (l : F.Leaf) : F.Leaf :=
  { l with shape := .guarded, inv := l.inv.map (fun sp => (.guarded, sp.2)) }

def LeafOk (l : F.Leaf) : Prop :=
  KOk l.shape l.pred ∧ ∀ sh p, l.inv = some (sh, p) → KOk sh p ∧ ∀ x, p x = !l.pred x

theorem leafStep_norm (l : F.Leaf) (h : LeafOk l) (b : Bool) (ix : List F.Pos) (m : List Bool) :
    F.leafStep ix m { l with inverse := b } = F.leafStep ix m { normLeaf l with inverse := b } := by
  obtain ⟨h1, h2⟩ := h
  unfold F.leafStep normLeaf
  simp only
  split
  · rfl
  · split
    · cases hv : l.inv with
      | none => simp only [Option.map_none]; rw [runKernel_ok _ _ h1]
      | some sp =>
        obtain ⟨sh, p⟩ := sp
        simp only [Option.map_some]
        rw [runKernel_ok _ _ (h2 sh p hv).1]
    · rw [runKernel_ok _ _ h1]

theorem normLeaf_sound (l : F.Leaf) (h : LeafOk l) : (normLeaf l).sound := by
  refine ⟨rfl, ?_⟩
  intro sh p hv
  simp only [normLeaf, Option.map_eq_some_iff] at hv
  obtain ⟨⟨sh', p'⟩, hv, heq⟩ := hv
  simp only [Prod.mk.injEq] at heq
  obtain ⟨rfl, rfl⟩ := heq
  exact ⟨rfl, (h.2 sh' p' hv).2⟩

mutual
def normC : F.Clause → F.Clause
  | .leaf l => .leaf (normLeaf l)
  | .and cs => .and (normCs cs)
  | .or cs => .or (normCs cs)
  | .not c => .not (normC c)
  | .null => .null
def normCs : List F.Clause → List F.Clause
  | [] => []
  | c :: cs => normC c :: normCs cs
end

theorem normCs_eq_map (cs : List F.Clause) : normCs cs = cs.map normC := by
  induction cs with
  | nil => simp [normCs]
  | cons c cs ih => simp [normCs, ih]

def ClauseOk : F.Clause → Prop
  | .leaf l => LeafOk l
  | .and cs => ∀ c ∈ cs, ClauseOk c
  | .or cs => ∀ c ∈ cs, ClauseOk c
  | .not c => ClauseOk c
  | .null => True

@[simp] theorem ok_leaf (l : F.Leaf) : ClauseOk (.leaf l) = LeafOk l := by simp [ClauseOk]
@[simp] theorem ok_and (cs : List F.Clause) : ClauseOk (.and cs) = ∀ c ∈ cs, ClauseOk c := by simp [ClauseOk]
@[simp] theorem ok_or (cs : List F.Clause) : ClauseOk (.or cs) = ∀ c ∈ cs, ClauseOk c := by simp [ClauseOk]
@[simp] theorem ok_not (c : F.Clause) : ClauseOk (.not c) = ClauseOk c := by simp [ClauseOk]

theorem any_congr' {α} (l : List α) (f g : α → Bool) (h : ∀ x ∈ l, f x = g x) : l.any f = l.any g := by
  induction l with
  | nil => rfl
  | cons a l ih => simp [h a (by simp), ih (fun x hx => h x (by simp [hx]))]
theorem all_congr' {α} (l : List α) (f g : α → Bool) (h : ∀ x ∈ l, f x = g x) : l.all f = l.all g := by
  induction l with
  | nil => rfl
  | cons a l ih => simp [h a (by simp), ih (fun x hx => h x (by simp [hx]))]

theorem hasErr_norm (c : F.Clause) : (normC c).hasErr = c.hasErr := by
  match c with
  | .leaf l => simp [normC]
  | .null => simp [normC]
  | .not c => simpa [normC] using hasErr_norm c
  | .and cs =>
    simp only [normC, normCs_eq_map, F.he_and, List.isEmpty_map, List.any_map]
    congr 1
    exact any_congr' _ _ _ (fun c hc => hasErr_norm c)
  | .or cs =>
    simp only [normC, normCs_eq_map, F.he_or, List.isEmpty_map, List.any_map]
    congr 1
    exact any_congr' _ _ _ (fun c hc => hasErr_norm c)
termination_by sizeOf c
decreasing_by
  all_goals simp_wf
  all_goals first | omega | (have := List.sizeOf_lt_of_mem hc; omega)

theorem sem_norm (c : F.Clause) : (normC c).sem = c.sem := by
  match c with
  | .leaf l => simp only [normC, F.sem_leaf]; funext p; simp only [F.Leaf.sem, normLeaf]; rfl
  | .null => simp [normC]
  | .not c => simp [normC, sem_norm c]
  | .and cs =>
    simp only [normC, normCs_eq_map, F.sem_and, List.all_map]
    funext p
    exact all_congr' _ _ _ (fun c hc => by simp [sem_norm c])
  | .or cs =>
    simp only [normC, normCs_eq_map, F.sem_or, List.any_map]
    funext p
    exact any_congr' _ _ _ (fun c hc => by simp [sem_norm c])
termination_by sizeOf c
decreasing_by
  all_goals simp_wf
  all_goals first | omega | (have := List.sizeOf_lt_of_mem hc; omega)

theorem wt_norm (c : F.Clause) : (normC c).wellTyped = c.wellTyped := by
  match c with
  | .leaf l => simp [normC, normLeaf]
  | .null => simp [normC]
  | .not c => simpa [normC] using wt_norm c
  | .and cs =>
    simp only [normC, normCs_eq_map, F.wt_and, List.isEmpty_map, List.all_map]
    congr 1
    exact all_congr' _ _ _ (fun c hc => wt_norm c)
  | .or cs =>
    simp only [normC, normCs_eq_map, F.wt_or, List.isEmpty_map, List.all_map]
    congr 1
    exact all_congr' _ _ _ (fun c hc => wt_norm c)
termination_by sizeOf c
decreasing_by
  all_goals simp_wf
  all_goals first | omega | (have := List.sizeOf_lt_of_mem hc; omega)

theorem sound_norm (c : F.Clause) (h : ClauseOk c) : (normC c).sound := by
  match c with
  | .leaf l => simpa [normC] using normLeaf_sound l (by simpa using h)
  | .null => simp [normC, F.Clause.sound]
  | .not c => simpa [normC] using sound_norm c (by simpa using h)
  | .and cs =>
    simp only [ok_and] at h
    simp only [normC, normCs_eq_map, F.sound_and, List.mem_map]
    rintro _ ⟨c, hc, rfl⟩
    exact sound_norm c (h c hc)
  | .or cs =>
    simp only [ok_or] at h
    simp only [normC, normCs_eq_map, F.sound_or, List.mem_map]
    rintro _ ⟨c, hc, rfl⟩
    exact sound_norm c (h c hc)
termination_by sizeOf c
decreasing_by
  all_goals simp_wf
  all_goals first | omega | (have := List.sizeOf_lt_of_mem hc; omega)


theorem foldlM_norm (ix : List F.Pos) (ls : List F.Leaf) (h : ∀ l ∈ ls, LeafOk l) (m : List Bool) :
    ls.foldlM (F.leafStep ix) m = (ls.map normLeaf).foldlM (F.leafStep ix) m := by
  induction ls generalizing m with
  | nil => rfl
  | cons l ls ih =>
    have h1 : F.leafStep ix m l = F.leafStep ix m (normLeaf l) := leafStep_norm l (h l (by simp)) l.inverse ix m
    simp only [List.foldlM_cons, List.map_cons, h1]
    cases F.leafStep ix m (normLeaf l) with
    | none => rfl
    | some m' => exact ih (fun l hl => h l (by simp [hl])) m'

theorem filterLeaves_congr (f : F.Frame) (ls ls' : List F.Leaf)
    (h : ∀ ix m, ls.foldlM (F.leafStep ix) m = ls'.foldlM (F.leafStep ix) m) :
    F.filterLeaves f ls = F.filterLeaves f ls' := by
  unfold F.filterLeaves; rw [h]

theorem filterLeaves_norm (f : F.Frame) (ls : List F.Leaf) (h : ∀ l ∈ ls, LeafOk l) :
    F.filterLeaves f ls = F.filterLeaves f (ls.map normLeaf) :=
  filterLeaves_congr f _ _ (fun ix m => foldlM_norm ix ls h m)

theorem filter_not_nonleaf (c : F.Clause) (hc : ∀ l, c ≠ .leaf l) (f : F.Frame) :
    (F.Clause.not c).filter f =
      if f.err then f else if c.hasErr then { f with err := true } else
        if (c.filter f).err then c.filter f else { f with index := F.notMerge f.index (c.filter f).index } := by
  cases c with
  | leaf l => exact absurd rfl (hc l)
  | null | and cs | or cs | not c =>
    all_goals
      simp only [F.Clause.filter]

theorem normC_not (c : F.Clause) : normC (.not c) = .not (normC c) := by simp [normC]
theorem normC_nonleaf (c : F.Clause) (hc : ∀ l, c ≠ .leaf l) : ∀ l, normC c ≠ .leaf l := by
  cases c <;> simp [normC] at hc ⊢

theorem filter_norm_not (c : F.Clause) (hc : ∀ l, c ≠ .leaf l) (f : F.Frame) (h1 : c.filter f = (normC c).filter f) :
    (F.Clause.not c).filter f = (normC (.not c)).filter f := by
  rw [normC_not, filter_not_nonleaf c hc, filter_not_nonleaf (normC c) (normC_nonleaf c hc), hasErr_norm, ← h1]

theorem andLoop_norm (cs : List F.Clause) (ih : ∀ c ∈ cs, ∀ f, c.filter f = (normC c).filter f) (f : F.Frame) :
    F.andLoop cs f = F.andLoop (normCs cs) f := by
  induction cs generalizing f with
  | nil => rfl
  | cons c cs ihcs =>
    simp only [normCs, F.andLoop]
    rw [← ih c (by simp)]
    exact ihcs (fun c hc => ih c (by simp [hc])) _

theorem orLoop_norm (cs : List F.Clause) (ih : ∀ c ∈ cs, ∀ f, c.filter f = (normC c).filter f)
    (hok : ∀ c ∈ cs, ClauseOk c) (f : F.Frame) (pending : List F.Leaf) (hp : ∀ l ∈ pending, LeafOk l)
    (acc : Option F.Frame) :
    F.orLoop cs f pending acc = F.orLoop (normCs cs) f (pending.map normLeaf) acc := by
  induction cs generalizing pending acc with
  | nil =>
    simp only [normCs, F.orLoop, List.isEmpty_map, ← filterLeaves_norm f pending hp]
  | cons c cs ihcs =>
    have ih' : ∀ c ∈ cs, ∀ f, c.filter f = (normC c).filter f := fun c h => ih c (by simp [h])
    have hok' : ∀ c ∈ cs, ClauseOk c := fun c h => hok c (by simp [h])
    have hc := ih c (by simp) f
    cases c with
    | leaf l =>
      simp only [normCs, normC, F.orLoop]
      have := ihcs ih' hok' (pending ++ [l]) (by
        intro l' h; rcases List.mem_append.mp h with h | h
        · exact hp l' h
        · simp at h; rw [h]; simpa using hok (.leaf l) (by simp)) acc
      simpa using this
    | null =>
      simp only [normCs, normC, F.orLoop, List.isEmpty_map, ← filterLeaves_norm f pending hp]
      exact ihcs ih' hok' [] (by simp) _
    | and cs' | or cs' | not c' =>
      all_goals
        simp only [normC] at hc
        simp only [normCs, normC, F.orLoop, List.isEmpty_map, ← filterLeaves_norm f pending hp, ← hc]
        exact ihcs ih' hok' [] (by simp) _

theorem filter_norm_aux (n : Nat) : ∀ c : F.Clause, sizeOf c ≤ n → ClauseOk c → ∀ f, c.filter f = (normC c).filter f := by
  induction n with
  | zero => intro c h; cases c <;> simp at h <;> omega
  | succ n ih =>
  intro c hsz hok f
  match c with
  | .leaf l =>
    simp only [normC, F.Clause.filter]
    exact filterLeaves_norm f [l] (by simpa using hok)
  | .null => rfl
  | .and cs =>
    have hE := hasErr_norm (.and cs)
    simp only [normC] at hE
    simp only [ok_and] at hok
    simp only [normC, F.Clause.filter, hE]
    rw [andLoop_norm cs (fun c hc => ih c (by have := List.sizeOf_lt_of_mem hc; simp at hsz; omega) (hok c hc)) f]
  | .or cs =>
    have hE := hasErr_norm (.or cs)
    simp only [normC] at hE
    simp only [ok_or] at hok
    simp only [normC, F.Clause.filter, hE]
    rw [orLoop_norm cs (fun c hc => ih c (by have := List.sizeOf_lt_of_mem hc; simp at hsz; omega) (hok c hc)) hok f [] (by simp) none]
    rfl
  | .not c =>
    simp only [ok_not] at hok
    match c with
    | .leaf l =>
      simp only [normC, F.Clause.filter]
      have : F.filterLeaves f [{ l with inverse := !l.inverse }] =
          F.filterLeaves f [{ normLeaf l with inverse := !(normLeaf l).inverse }] := by
        apply filterLeaves_congr
        intro ix m
        simp only [List.foldlM_cons, List.foldlM_nil]
        rw [leafStep_norm l (by simpa using hok) (!l.inverse) ix m]
        rfl
      rw [this]
      simp
    | .null => rfl
    | .and cs' | .or cs' | .not c' =>
      all_goals
        exact filter_norm_not _ (by intro l h; cases h) f (ih _ (by simp at hsz ⊢; omega) hok f)

theorem filter_norm (c : F.Clause) (h : ClauseOk c) (f : F.Frame) : c.filter f = (normC c).filter f :=
  filter_norm_aux _ c (Nat.le_refl _) h f


/-- Generalisation of `F.filter_refines`: kernels of shape `setAll true` are allowed for constantly-true predicates. -/
theorem filter_refines' (c : F.Clause) (hok : ClauseOk c) (hw : c.wellTyped = true) : F.Ref c := by
  intro f hn he
  have := F.filter_refines (normC c) (sound_norm c hok) (by rw [wt_norm]; exact hw) f hn he
  rw [← filter_norm c hok f, sem_norm c] at this
  exact this

/-! ### errors -/
theorem filter_of_err (c : F.Clause) (f : F.Frame) (h : f.err = true) : c.filter f = f := by
  cases c with
  | leaf l => simp [F.Clause.filter, F.filterLeaves, h]
  | null => simp [F.Clause.filter]
  | and cs => simp [F.Clause.filter, h]
  | or cs => simp [F.Clause.filter, h]
  | not c => cases c <;> simp [F.Clause.filter, h]

theorem andLoop_of_err (cs : List F.Clause) (f : F.Frame) (h : f.err = true) : F.andLoop cs f = f := by
  induction cs with
  | nil => rfl
  | cons c cs ih => simp only [F.andLoop, filter_of_err c f h, ih]

theorem foldlM_err (ix : List F.Pos) (ls : List F.Leaf) (h : ∃ l ∈ ls, l.err = true) (m : List Bool) :
    ls.foldlM (F.leafStep ix) m = none := by
  induction ls generalizing m with
  | nil => simp at h
  | cons l ls ih =>
    simp only [List.foldlM_cons]
    cases hl : l.err with
    | true => simp [F.leafStep, hl]
    | false =>
      have h' : ∃ l ∈ ls, l.err = true := by
        obtain ⟨l', hm, he⟩ := h
        rcases List.mem_cons.mp hm with rfl | hm
        · rw [hl] at he; cases he
        · exact ⟨l', hm, he⟩
      cases F.leafStep ix m l with
      | none => rfl
      | some m' => exact ih h' m'

theorem filterLeaves_err (f : F.Frame) (ls : List F.Leaf) (h : ∃ l ∈ ls, l.err = true) :
    (F.filterLeaves f ls).err = true := by
  unfold F.filterLeaves
  cases hf : f.err with
  | true => simp [hf]
  | false => simp [foldlM_err _ ls h]

theorem orFrames_err (f : F.Frame) (acc : Option F.Frame) (r : F.Frame)
    (h : r.err = true ∨ ∃ g, acc = some g ∧ g.err = true) : (F.orFrames f acc r).err = true := by
  cases acc with
  | none =>
    rcases h with h | ⟨g, hg, _⟩
    · simpa [F.orFrames] using h
    · cases hg
  | some g =>
    simp only [F.orFrames]
    cases hg : g.err with
    | true => simp [hg]
    | false =>
      rcases h with h | ⟨g', hg', he⟩
      · simp [h]
      · cases hg'; rw [hg] at he; cases he

theorem flush_err (f : F.Frame) (pending : List F.Leaf) (acc : Option F.Frame)
    (h : (∃ l ∈ pending, l.err = true) ∨ (∃ g, acc = some g ∧ g.err = true)) :
    ∃ g, (if pending.isEmpty = true then acc else some (F.orFrames f acc (F.filterLeaves f pending))) = some g ∧
      g.err = true := by
  by_cases hpe : pending = []
  · subst hpe
    rcases h with ⟨l, hl, _⟩ | h
    · simp at hl
    · simpa using h
  · have hp' : pending.isEmpty = false := by cases pending <;> simp_all
    simp only [hp', Bool.false_eq_true, ↓reduceIte]
    refine ⟨_, rfl, orFrames_err _ _ _ ?_⟩
    rcases h with h | h
    · exact Or.inl (filterLeaves_err f pending h)
    · exact Or.inr h

theorem orLoop_err (cs : List F.Clause) (ih : ∀ c ∈ cs, c.wellTyped = false → ∀ f, (c.filter f).err = true)
    (f : F.Frame) (pending : List F.Leaf) (acc : Option F.Frame)
    (h : (∃ l ∈ pending, l.err = true) ∨ (∃ g, acc = some g ∧ g.err = true) ∨ (∃ c ∈ cs, c.wellTyped = false)) :
    (F.orLoop cs f pending acc).err = true := by
  induction cs generalizing pending acc with
  | nil =>
    simp only [F.orLoop]
    have : (∃ l ∈ pending, l.err = true) ∨ (∃ g, acc = some g ∧ g.err = true) := by
      rcases h with h | h | ⟨c, hc, _⟩
      · exact Or.inl h
      · exact Or.inr h
      · simp at hc
    obtain ⟨g, hg, he⟩ := flush_err f pending acc this
    rw [hg]; simpa using he
  | cons c cs ihcs =>
    have ih' : ∀ c ∈ cs, c.wellTyped = false → ∀ f, (c.filter f).err = true := fun c h => ih c (by simp [h])
    have hc := ih c (by simp)
    cases c with
    | leaf l =>
      simp only [F.orLoop]
      apply ihcs ih'
      rcases h with ⟨l', hl', he⟩ | h | ⟨c, hc, hw⟩
      · exact Or.inl ⟨l', by simp [hl'], he⟩
      · exact Or.inr (Or.inl h)
      · rcases List.mem_cons.mp hc with rfl | hc
        · exact Or.inl ⟨l, by simp, by simpa using hw⟩
        · exact Or.inr (Or.inr ⟨c, hc, hw⟩)
    | and cs' | or cs' | not c' | null =>
      all_goals
        simp only [F.orLoop]
        apply ihcs ih'
        rcases h with h | h | ⟨c, hcm, hw⟩
        · obtain ⟨g, hg, he⟩ := flush_err f pending acc (Or.inl h)
          exact Or.inr (Or.inl ⟨_, rfl, orFrames_err _ _ _ (Or.inr ⟨g, hg, he⟩)⟩)
        · obtain ⟨g, hg, he⟩ := flush_err f pending acc (Or.inr h)
          exact Or.inr (Or.inl ⟨_, rfl, orFrames_err _ _ _ (Or.inr ⟨g, hg, he⟩)⟩)
        · rcases List.mem_cons.mp hcm with rfl | hcm
          · exact Or.inr (Or.inl ⟨_, rfl, orFrames_err _ _ _ (Or.inl (hc hw f))⟩)
          · exact Or.inr (Or.inr ⟨c, hcm, hw⟩)

theorem andLoop_err (cs : List F.Clause) (ih : ∀ c ∈ cs, c.wellTyped = false → ∀ f, (c.filter f).err = true)
    (h : ∃ c ∈ cs, c.wellTyped = false) (f : F.Frame) : (F.andLoop cs f).err = true := by
  induction cs generalizing f with
  | nil => simp at h
  | cons c cs ihcs =>
    simp only [F.andLoop]
    cases hw : c.wellTyped with
    | false =>
      have := ih c (by simp) hw f
      rw [andLoop_of_err _ _ this]; exact this
    | true =>
      apply ihcs (fun c h => ih c (by simp [h]))
      obtain ⟨c', hm, hw'⟩ := h
      rcases List.mem_cons.mp hm with rfl | hm
      · rw [hw] at hw'; cases hw'
      · exact ⟨c', hm, hw'⟩

theorem filter_err_aux (n : Nat) : ∀ c : F.Clause, sizeOf c ≤ n → c.wellTyped = false → ∀ f, (c.filter f).err = true := by
  induction n with
  | zero => intro c h; cases c <;> simp at h <;> omega
  | succ n ih =>
  intro c hsz hw f
  cases hf : f.err with
  | true => rw [filter_of_err c f hf]; exact hf
  | false =>
  match c with
  | .leaf l =>
    simp only [F.Clause.filter]
    exact filterLeaves_err f [l] ⟨l, by simp, by simpa using hw⟩
  | .null => simp [F.Clause.wellTyped] at hw
  | .and cs =>
    simp only [F.Clause.filter, hf, Bool.false_eq_true, ↓reduceIte]
    cases hE : (F.Clause.and cs).hasErr with
    | true => simp
    | false =>
      simp only [Bool.false_eq_true, ↓reduceIte]
      apply andLoop_err cs (fun c hc => ih c (by have := List.sizeOf_lt_of_mem hc; simp at hsz; omega))
      simp only [F.he_and, Bool.or_eq_false_iff] at hE
      simpa [hE.1] using hw
  | .or cs =>
    simp only [F.Clause.filter, hf, Bool.false_eq_true, ↓reduceIte]
    cases hE : (F.Clause.or cs).hasErr with
    | true => simp
    | false =>
      simp only [Bool.false_eq_true, ↓reduceIte]
      apply orLoop_err cs (fun c hc => ih c (by have := List.sizeOf_lt_of_mem hc; simp at hsz; omega))
      simp only [F.he_or, Bool.or_eq_false_iff] at hE
      refine Or.inr (Or.inr ?_)
      simpa [hE.1] using hw
  | .not c =>
    simp only [F.wt_not] at hw
    match c with
    | .leaf l =>
      simp only [F.Clause.filter, hf, Bool.false_eq_true, ↓reduceIte, F.he_leaf]
      exact filterLeaves_err f _ ⟨_, List.mem_singleton.mpr rfl, by simpa using hw⟩
    | .null => simp [F.Clause.wellTyped] at hw
    | .and cs' | .or cs' | .not c' =>
      all_goals
        have h1 := ih _ (by simp at hsz ⊢; omega) hw f
        rw [filter_not_nonleaf _ (by intro l h; cases h)]
        simp only [hf, Bool.false_eq_true, ↓reduceIte, h1]
        split <;> simp [h1]

/-- A clause that is not well typed (an erroring leaf, or an empty `And`/`Or`, anywhere) makes `filter` fail. -/
theorem filter_err (c : F.Clause) (hw : c.wellTyped = false) (f : F.Frame) : (c.filter f).err = true :=
  filter_err_aux _ c (Nat.le_refl _) hw f


/-! ## The extracted tables -/
/-- what `kernelShape` does once the comparator table has produced the kernel name `fn` -/
def entryShape (ty : CType) (tbl fn : String) : Option F.KShape :=
  let pkg := pkgOf ty
  if ty == .enum && (tbl == "multiFilterFuncs" || tbl == "multiInputFilterFuncs") then
    match Gen.kernels.find? (fun k => k.1 == pkg && k.2.1 == "Column.filterWithBitset") with
    | some k => if k.2.2.1 == "guarded" then some .guarded else none
    | none => none
  else
  match Gen.kernels.find? (fun k => k.1 == pkg && k.2.1 == fn) with
  | none => none
  | some k =>
    let sh := k.2.2.1
    if sh == "guarded" || sh == "guarded+pre" || sh == "delegates" then some .guarded
    else if sh == "noop" then some .guarded
    else if sh == "unguarded" && k.2.2.2 == "true" then some (.setAll true)
    else if sh == "unguarded" && k.2.2.2 == "false" then some (.setAll false)
    else none

theorem kernelShape_eq (ty : CType) (arg : Arg) (op : String) :
    kernelShape ty arg op =
      match (Gen.tables.find? (fun t => t.1 == pkgOf ty && t.2.1 == tableOf ty arg op)).bind (fun t => t.2.2.lookup op) with
      | none => none
      | some fn => entryShape ty (tableOf ty arg op) fn := rfl

def allTypes : List CType := [.int, .float, .bool, .string, .enum, .undef]

def checkShapes : Bool :=
  Gen.tables.all fun t => t.2.2.all fun e => allTypes.all fun ty =>
    !(t.1 == pkgOf ty) ||
      match entryShape ty t.2.1 e.2 with
      | none => true
      | some .guarded => true
      | some (.setAll true) => t.1 == "icolumn" && t.2.1 == "filterFuncs0" && e.1 == "isnotnull"
      | some (.setAll false) => false

theorem checkShapes_true : checkShapes = true := by decide


theorem lookup_mem {α β} [BEq α] [LawfulBEq α] (l : List (α × β)) (a : α) (b : β) (h : l.lookup a = some b) :
    (a, b) ∈ l := by
  induction l with
  | nil => simp at h
  | cons x l ih =>
    obtain ⟨a', b'⟩ := x
    simp only [List.lookup] at h
    split at h
    · rename_i heq
      have := eq_of_beq heq
      simp at h; subst h; subst this; simp
    · exact List.mem_cons_of_mem _ (ih h)

/-- The facts about the extracted tables (`QF.Gen`) on which the agreement of mirror and spec rests. -/
structure ShapesOK : Prop where
  /-- every kernel reachable through a comparator table accumulates under the guard `!bIndex[i]`, except the int
  `isnotnull` kernel, which sets every entry to `true` -/
  shape : ∀ ty arg op sh, kernelShape ty arg op = some sh →
    sh = .guarded ∨ (sh = .setAll true ∧ ty = .int ∧ arg = .nil ∧ op = "isnotnull")
  /-- `filter.Inverse` only holds pairs that are semantic complements in the spec, or involve `not in`, which no
  column accepts -/
  inverse : ∀ op iop, Gen.inverse.lookup op = some iop →
    (op, iop) ∈ C02Spec.inversePairs ∨ op = "not in" ∨ iop = "not in"

theorem shape_today (ty : CType) (arg : Arg) (op : String) (sh : F.KShape) (h : kernelShape ty arg op = some sh) :
    sh = .guarded ∨ (sh = .setAll true ∧ ty = .int ∧ arg = .nil ∧ op = "isnotnull") := by
  rw [kernelShape_eq] at h
  cases hfind : Gen.tables.find? (fun t => t.1 == pkgOf ty && t.2.1 == tableOf ty arg op) with
  | none => simp [hfind] at h
  | some t =>
    simp only [hfind, Option.bind_some] at h
    cases hl : t.2.2.lookup op with
    | none => simp [hl] at h
    | some fn =>
      simp only [hl] at h
      have hmem := List.mem_of_find?_eq_some hfind
      have hpred := List.find?_some hfind
      simp only [Bool.and_eq_true, beq_iff_eq] at hpred
      have he := lookup_mem _ _ _ hl
      have hc := checkShapes_true
      simp only [checkShapes, List.all_eq_true] at hc
      have := hc t hmem (op, fn) he ty (by cases ty <;> simp [allTypes])
      simp only [hpred.1, beq_self_eq_true, Bool.not_true, Bool.false_or] at this
      rw [hpred.2, h] at this
      cases sh with
      | guarded => exact Or.inl rfl
      | setAll b =>
        cases b with
        | false => simp at this
        | true =>
          simp only [Bool.and_eq_true, beq_iff_eq] at this
          obtain ⟨⟨h1, h2⟩, h3⟩ := this
          have hty : ty = .int := by
            cases ty <;> first | rfl | (exact absurd h1 (by decide))
          subst hty
          refine Or.inr ⟨rfl, rfl, ?_, h3⟩
          cases arg <;> first | rfl | (exact absurd h2 (by simp [tableOf]))

theorem inverse_today (op iop : String) (h : Gen.inverse.lookup op = some iop) :
    (op, iop) ∈ C02Spec.inversePairs ∨ op = "not in" ∨ iop = "not in" := by
  have hm := lookup_mem _ _ _ h
  have : ∀ p ∈ Gen.inverse, p ∈ C02Spec.inversePairs ∨ p.1 = "not in" ∨ p.2 = "not in" := by decide
  exact this _ hm

theorem shapesOK_today : ShapesOK := ⟨shape_today, inverse_today⟩


/-! ## The mirror of a spec clause -/
section mirror
variable (lo : LikeOracle) (f : LFrame)

theorem mirrorLeaf_err (l : Leaf) : (mirrorLeaf lo f l).err = !(leafPred lo f l).isSome := by
  unfold mirrorLeaf
  cases leafPred lo f l with
  | none => rfl
  | some p => cases l.cmp <;> rfl

theorem mirrorLeaf_sem (l : Leaf) (r : Nat) :
    (mirrorLeaf lo f l).sem r = (Clause.leaf l).sem lo f r := by
  unfold mirrorLeaf
  simp only [Clause.sem]
  cases leafPred lo f l with
  | none => rfl
  | some p => cases l.cmp <;> rfl

theorem mirrorClauses_isEmpty (cs : List Clause) : (mirrorClauses lo f cs).isEmpty = cs.isEmpty := by
  cases cs <;> simp [mirrorClauses]

mutual
theorem mirror_wt (c : Clause) : (mirrorClause lo f c).wellTyped = (c.constructOk && c.typed lo f) := by
  match c with
  | .leaf l => simp [mirrorClause, Clause.constructOk, Clause.typed, mirrorLeaf_err]
  | .null => simp [mirrorClause, Clause.constructOk, Clause.typed, F.Clause.wellTyped]
  | .not c => simpa [mirrorClause, Clause.constructOk, Clause.typed] using mirror_wt c
  | .and cs =>
    simp only [mirrorClause, Clause.constructOk, Clause.typed, F.wt_and, mirror_wts cs, mirrorClauses_isEmpty lo f]
    cases cs.isEmpty <;> cases constructOkAll cs <;> simp
  | .or cs =>
    simp only [mirrorClause, Clause.constructOk, Clause.typed, F.wt_or, mirror_wts cs, mirrorClauses_isEmpty lo f]
    cases cs.isEmpty <;> cases constructOkAll cs <;> simp
theorem mirror_wts (cs : List Clause) :
    (mirrorClauses lo f cs).all (·.wellTyped) = (constructOkAll cs && typedAll lo f cs) := by
  match cs with
  | [] => simp [mirrorClauses, constructOkAll, typedAll]
  | c :: cs =>
    simp only [mirrorClauses, constructOkAll, typedAll, List.all_cons, mirror_wt c, mirror_wts cs]
    cases c.constructOk <;> cases c.typed lo f <;> cases constructOkAll cs <;> simp
end


theorem mirror_wellTyped (c : Clause) : (mirrorClause lo f c).wellTyped = c.wellFormed lo f := mirror_wt lo f c

mutual
theorem mirror_sem' (c : Clause) (r : Nat) : (mirrorClause lo f c).sem r = c.sem lo f r := by
  match c with
  | .leaf l => simp only [mirrorClause, F.sem_leaf]; exact mirrorLeaf_sem lo f l r
  | .null => simp [mirrorClause, Clause.sem]
  | .not c => simp [mirrorClause, Clause.sem, mirror_sem' c r]
  | .and cs => simp only [mirrorClause, F.sem_and, Clause.sem]; exact mirror_semAll cs r
  | .or cs => simp only [mirrorClause, F.sem_or, Clause.sem]; exact mirror_semAny cs r
theorem mirror_semAll (cs : List Clause) (r : Nat) : (mirrorClauses lo f cs).all (·.sem r) = semAll lo f cs r := by
  match cs with
  | [] => simp [mirrorClauses, semAll]
  | c :: cs => simp only [mirrorClauses, semAll, List.all_cons, mirror_sem' c r, mirror_semAll cs r]
theorem mirror_semAny (cs : List Clause) (r : Nat) : (mirrorClauses lo f cs).any (·.sem r) = semAny lo f cs r := by
  match cs with
  | [] => simp [mirrorClauses, semAny]
  | c :: cs => simp only [mirrorClauses, semAny, List.any_cons, mirror_sem' c r, mirror_semAny cs r]
end

/-- Step 1: the mirror clause means what the spec clause means, on every row (well typed or not). -/
theorem mirror_sem (c : Clause) : (mirrorClause lo f c).sem = c.sem lo f := funext (mirror_sem' lo f c)


/-! ### soundness of the mirror leaves -/

/-- no column accepts the comparator `not in` -/
theorem leafPred_notin (l : Leaf) (h : l.cmp = .builtin "not in") : leafPred lo f l = none := by
  obtain ⟨i, col, cmp, arg⟩ := l
  simp only at h; subst h
  unfold leafPred
  simp only
  cases hc : f.find? col with
  | none => rfl
  | some c =>
    simp only
    cases arg with
    | bad => rfl
    | nil => simp
    | ints vs => simp
    | strs vs => simp
    | col an =>
      simp only
      cases ha : f.find? an with
      | none => rfl
      | some ac =>
        simp only
        generalize (if (c.ty == CType.int && ac.ty == CType.float) = true then (promote c, ac)
                else if (c.ty == CType.float && ac.ty == CType.int) = true then (c, promote ac) else (c, ac)) = pr
        obtain ⟨c', ac'⟩ := pr
        simp [isOrd6]
    | cell k =>
      simp only
      generalize c.ty = t
      rcases k with v | v | v | _ | v <;> cases t <;> simp [isOrd6]

/-- a constant outside the value table of a non-strict enum column: the six comparators are constant -/
theorem leafPred_enum_unknown (l : Leaf) (c : LCol) (v : Bytes) (op : String) (p : Nat → Bool)
    (hc : f.find? l.col = some c) (harg : l.arg = .cell (.str (some v))) (hcmp : l.cmp = .builtin op)
    (hcond : (c.ty == .enum && isOrd6 op && (enumRank c.vals v).isNone) = true)
    (hp : leafPred lo f l = some p) : p = fun _ => op == "!=" := by
  obtain ⟨i, col, cmp, arg⟩ := l
  simp only at hc harg hcmp; subst harg hcmp
  simp only [Bool.and_eq_true, beq_iff_eq] at hcond
  obtain ⟨⟨hty, hord⟩, hrank⟩ := hcond
  unfold leafPred at hp
  simp only [hc, hty, hord, ↓reduceIte] at hp
  have : (enumRank c.vals v).isSome = false := by
    cases h : enumRank c.vals v <;> simp_all
  simp only [this, Bool.false_eq_true, ↓reduceIte] at hp
  split at hp
  · cases hp
  · injection hp with hp; exact hp.symm


/-- int columns hold no null cell (Go `int` has no null) — needed because the int `isnotnull` kernel keeps every row
without looking at the cells -/
def IntColsNonNull (f : LFrame) : Prop :=
  ∀ c : LCol, c ∈ f.cols → c.ty = .int → ∀ r : Nat, (c.cells[r]!).isNull = false

/-- the column type that selects the kernel package (an int column compared with a float column is promoted) -/
def colTyOf (f : LFrame) (l : Leaf) : CType :=
  match f.find? l.col with
  | some c =>
    (match l.arg with
     | .col an => (match f.find? an with | some ac => if c.ty == .int && ac.ty == .float then .float else c.ty | none => c.ty)
     | _ => c.ty)
  | none => .undef

theorem kshape_ok (hs : ShapesOK) (hf : IntColsNonNull f) (l : Leaf) (op : String) (hcmp : l.cmp = .builtin op)
    (p : Nat → Bool) (hp : leafPred lo f l = some p) (sh : F.KShape)
    (hk : kernelShape (colTyOf f l) l.arg op = some sh) : KOk sh p := by
  rcases hs.shape _ _ _ _ hk with h | ⟨h1, h2, h3, h4⟩
  · exact Or.inl h
  · refine Or.inr ⟨h1, ?_⟩
    obtain ⟨i, col, cmp, arg⟩ := l
    simp only at hcmp h3; subst hcmp h3 h4
    obtain ⟨c, hc, -, -, rfl⟩ := C02Spec.leafPred_nullop lo f i col .nil "isnotnull" p (Or.inr rfl) hp
    have hty : c.ty = .int := by simpa [colTyOf, hc] using h2
    have hmem : c ∈ f.cols := List.mem_of_find?_eq_some hc
    intro r
    simp [hf c hmem hty r]

theorem kshape_getD_ok (hs : ShapesOK) (hf : IntColsNonNull f) (l : Leaf) (op : String) (hcmp : l.cmp = .builtin op)
    (p : Nat → Bool) (hp : leafPred lo f l = some p) :
    KOk ((kernelShape (colTyOf f l) l.arg op).getD .guarded) p := by
  cases hk : kernelShape (colTyOf f l) l.arg op with
  | none => exact Or.inl rfl
  | some sh => exact kshape_ok lo f hs hf l op hcmp p hp sh hk

theorem mirrorLeaf_ok (hs : ShapesOK) (hf : IntColsNonNull f) (l : Leaf) : LeafOk (mirrorLeaf lo f l) := by
  unfold mirrorLeaf
  cases hp : leafPred lo f l with
  | none => exact ⟨Or.inl rfl, by intro sh p h; cases h⟩
  | some p =>
    simp only
    cases hcmp : l.cmp with
    | p1 id => exact ⟨Or.inl rfl, by intro sh p h; cases h⟩
    | p2 => exact ⟨Or.inl rfl, by intro sh p h; cases h⟩
    | bad => exact ⟨Or.inl rfl, by intro sh p h; cases h⟩
    | builtin op =>
      simp only
      refine ⟨?_, ?_⟩
      · simp only
        split
        · rename_i c v hc harg
          split
          · rename_i hcond
            have := leafPred_enum_unknown lo f l c v op p hc harg hcmp hcond hp
            subst this
            split
            · rename_i hne
              exact Or.inr ⟨rfl, fun _ => hne⟩
            · exact Or.inl rfl
          · exact kshape_getD_ok lo f hs hf l op hcmp p hp
        · exact kshape_getD_ok lo f hs hf l op hcmp p hp
      · intro sh q hI
        simp only at hI
        split at hI
        · cases hI
        · rename_i iop hlk
          split at hI
          · rename_i q' sh' hq hk
            injection hI with hI
            injection hI with h1 h2
            subst h1 h2
            have hcmp' : ({ l with cmp := Cmp.builtin iop } : Leaf).cmp = .builtin iop := rfl
            refine ⟨kshape_ok lo f hs hf { l with cmp := Cmp.builtin iop } iop hcmp' q' hq sh' hk, ?_⟩
            rcases hs.inverse op iop hlk with hpair | hnot | hnot
            · obtain ⟨q2, hq2, hneg⟩ := C02Spec.leafPred_inverse lo f l op iop p hcmp hpair hp
              rw [hq] at hq2
              injection hq2 with hq2
              subst hq2
              exact hneg
            · subst hnot
              rw [leafPred_notin lo f l hcmp] at hp; cases hp
            · subst hnot
              rw [leafPred_notin lo f _ hcmp'] at hq; cases hq
          · cases hI


mutual
theorem mirror_ok (hs : ShapesOK) (hf : IntColsNonNull f) (c : Clause) : ClauseOk (mirrorClause lo f c) := by
  match c with
  | .leaf l => simp only [mirrorClause, ok_leaf]; exact mirrorLeaf_ok lo f hs hf l
  | .null => simp [mirrorClause, ClauseOk]
  | .not c => simp only [mirrorClause, ok_not]; exact mirror_ok hs hf c
  | .and cs => simp only [mirrorClause, ok_and]; exact mirror_oks hs hf cs
  | .or cs => simp only [mirrorClause, ok_or]; exact mirror_oks hs hf cs
theorem mirror_oks (hs : ShapesOK) (hf : IntColsNonNull f) (cs : List Clause) :
    ∀ c' ∈ mirrorClauses lo f cs, ClauseOk c' := by
  match cs with
  | [] => simp [mirrorClauses]
  | c :: cs =>
    intro c' hc'
    simp only [mirrorClauses, List.mem_cons] at hc'
    rcases hc' with rfl | hc'
    · exact mirror_ok hs hf c
    · exact mirror_oks hs hf cs c' hc'
end

/-- Step 3, in the generalised form: every kernel of the mirror clause is the guarded accumulate of the spec predicate
or behaves like it, and the inverse shortcuts are pointwise negations. -/
theorem mirror_sound (hs : ShapesOK) (hf : IntColsNonNull f) (c : Clause) : ClauseOk (mirrorClause lo f c) :=
  mirror_ok lo f hs hf c

/-- The refinement theorem of the Filter mirror, for the mirror of a spec clause. -/
theorem mirror_refines (hs : ShapesOK) (hf : IntColsNonNull f) (c : Clause) (hw : c.wellFormed lo f = true) :
    F.Ref (mirrorClause lo f c) :=
  filter_refines' _ (mirror_ok lo f hs hf c) (by rw [mirror_wellTyped, hw])

/-- The executable Filter mirror agrees with the spec: it fails exactly on the clauses that are not well formed, and
otherwise keeps exactly `keptRows`. -/
theorem mirrorFilter_eq_spec_partial (c : Clause) (hshape : ShapesOK) (hf : IntColsNonNull f) :
    mirrorFilter lo f c = if c.wellFormed lo f then some (keptRows lo f c) else none := by
  unfold mirrorFilter keptRows
  cases hw : c.wellFormed lo f with
  | false =>
    have := filter_err (mirrorClause lo f c) (by rw [mirror_wellTyped]; exact hw) { index := List.range f.n }
    simp [this]
  | true =>
    obtain ⟨e, i⟩ := mirror_refines lo f hshape hf c hw { index := List.range f.n } List.nodup_range rfl
    simp [e, i, mirror_sem]

/-- … with the table facts discharged for today's source. -/
theorem mirrorFilter_eq_spec_today (c : Clause) (hf : IntColsNonNull f) :
    mirrorFilter lo f c = if c.wellFormed lo f then some (keptRows lo f c) else none :=
  mirrorFilter_eq_spec_partial lo f c shapesOK_today hf

end mirror

/-! ## Concrete instances -/

/-- a decidable form of `IntColsNonNull` -/
def intColsNonNullB (f : LFrame) : Bool :=
  f.cols.all (fun c => c.ty != .int || c.cells.toList.all (fun x => !x.isNull))

theorem intColsNonNull_of_check (f : LFrame) (h : intColsNonNullB f = true) : IntColsNonNull f := by
  intro c hc hty r
  simp only [intColsNonNullB, List.all_eq_true] at h
  have := h c hc
  simp only [hty, bne_self_eq_false, Bool.false_or, List.all_eq_true] at this
  by_cases hr : r < c.cells.size
  · have := this c.cells[r] (by simp)
    simpa [hr] using this
  · simp [hr]; rfl

open C02Spec in
example : IntColsNonNull f0 := intColsNonNull_of_check _ (by decide)
open C02Spec in
example : mirrorFilter lo0 f0 c0 = some [1, 2] := by
  rw [mirrorFilter_eq_spec_today lo0 f0 c0 (intColsNonNull_of_check _ (by decide))]
  decide

/-- The hypothesis `IntColsNonNull` cannot be dropped: on an ill-typed logical frame whose int column holds a null cell
the int `isnotnull` kernel of the source (which sets every entry) and the spec (which looks at the cell) differ. -/
def fBad : LFrame := { cols := [ { name := [97], ty := .int, cells := #[.str none] } ], n := 1 }
def cBad : Clause := .leaf ⟨false, [97], .builtin "isnotnull", .nil⟩
example : cBad.wellFormed C02Spec.lo0 fBad = true ∧ keptRows C02Spec.lo0 fBad cBad = [] := by decide
example : mirrorFilter C02Spec.lo0 fBad cBad = some [0] := by decide


/-- `filter_refines'` is a genuine generalisation: a `setAll true` leaf is `LeafOk` but not `F.Leaf.sound`. -/
example : ClauseOk (.or [.leaf { shape := .setAll true, pred := fun _ => true }, .leaf F.eq1]) ∧
    (F.Clause.or [.leaf { shape := .setAll true, pred := fun _ => true }, .leaf F.eq1]).wellTyped = true ∧
    ¬ (F.Clause.or [.leaf { shape := .setAll true, pred := fun _ => true }, .leaf F.eq1]).sound := by
  refine ⟨?_, by simp [F.eq1], ?_⟩
  · simp only [ok_or, List.mem_cons, List.mem_nil_iff, or_false]
    rintro c (rfl | rfl)
    · rw [ok_leaf]; exact ⟨Or.inr ⟨rfl, fun _ => rfl⟩, by intro sh p h; cases h⟩
    · rw [ok_leaf]; exact ⟨Or.inl rfl, by intro sh p h; cases h⟩
  · intro h
    rw [F.sound_or] at h
    have := h (.leaf { shape := .setAll true, pred := fun _ => true }) (by simp)
    simp [F.Leaf.sound] at this
/-- `filter_err`: an ill-typed clause -/
example : (F.Clause.not (.and [])).wellTyped = false := by simp

/-- Consequently the spec result is the mirror's row list applied to the frame. -/
theorem filterS_eq_mirror (lo : LikeOracle) (f : LFrame) (c : Clause) (hshape : ShapesOK) (hf : IntColsNonNull f) :
    filterS lo f c = match mirrorFilter lo f c with | some rs => .ok (f.pick rs) | none => .err := by
  rw [mirrorFilter_eq_spec_partial lo f c hshape hf]
  unfold filterS
  cases c.wellFormed lo f <;> rfl

/-- `F.Clause.filter` on And/Or is defined by well-founded recursion, so `decide` cannot run it; the theorem can.
Errors: an empty `And` below a `Not`, and an ill-typed leaf inside an `Or`. -/
theorem hf0 : IntColsNonNull C02Spec.f0 := intColsNonNull_of_check _ (by decide)
example : mirrorFilter C02Spec.lo0 C02Spec.f0 (.not (.and [])) = none := by
  rw [mirrorFilter_eq_spec_today _ _ _ hf0]; decide
example : mirrorFilter C02Spec.lo0 C02Spec.f0 (.or [.leaf C02Spec.aGt1, .leaf ⟨false, [97], .builtin "like", .nil⟩]) = none := by
  rw [mirrorFilter_eq_spec_today _ _ _ hf0]; decide
/-- the int `isnull` defect shape is gone from today's tables: `Or(a > 1, isnull a)` keeps the rows of `a > 1` -/
example : mirrorFilter C02Spec.lo0 C02Spec.f0 (.or [.leaf C02Spec.aGt1, .leaf ⟨false, [97], .builtin "isnull", .nil⟩]) = some [1, 2] := by
  rw [mirrorFilter_eq_spec_today _ _ _ hf0]; decide

end QF.Props.C02Mirror

#print axioms QF.Props.C02Mirror.filter_norm
#print axioms QF.Props.C02Mirror.filter_refines'
#print axioms QF.Props.C02Mirror.filter_err
#print axioms QF.Props.C02Mirror.shapesOK_today
#print axioms QF.Props.C02Mirror.mirror_sem
#print axioms QF.Props.C02Mirror.mirror_wellTyped
#print axioms QF.Props.C02Mirror.mirror_sound
#print axioms QF.Props.C02Mirror.mirror_refines
#print axioms QF.Props.C02Mirror.mirrorFilter_eq_spec_partial
#print axioms QF.Props.C02Mirror.mirrorFilter_eq_spec_today
#print axioms QF.Props.C02Mirror.filterS_eq_mirror
