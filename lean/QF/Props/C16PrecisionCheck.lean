import QF.Props.C16CoreTable
import QF.Props.C16CoreCheck
import QF.Props.C16Farey
/-!
# C16 — Ryu's precision lemma for the 121/122-bit tables: the kernel-checked part

Per exponent field a certificate `(m1, k1, m2, k2)` — neighbours of `N/D` in the Stern–Brocot tree with `m1 + m2 ≥ 2^55`, found by
an untrusted Euclid-like walk (`fareyWalk`) — is checked by `certOk` (`C16Farey`: `certOk_sound`). `prec_check0 … prec_check7`
run the check for all exponent fields in the kernel; `precision` is the resulting lemma (two exceptions, `isExc`,
`precision_exceptions`). The two floats that hit an exception are treated by evaluating the mirror (`ryu_shortest_exc472`,
`ryu_shortest_exc1797`). See `C16Precision` for the summary and the final theorem.
-/
namespace QF.Props.C16Core
open QF.Ryu64 QF.Num

/-! ## the certificate search (untrusted) and the per-exponent check -/

/-- Euclid-like walk down the Stern–Brocot tree towards `a/b`: state `k1/m1 ≤ a/b < k2/m2` with `d1 = m1·a − k1·b`,
`d2 = k2·b − m2·a`; stops as soon as `m1 + m2 > M`. Nothing is proved about it — its output is checked by `certOk`. -/
def fareyWalk : Nat → Nat → Nat → Nat → Nat → Nat → Nat → Nat → Nat × Nat × Nat × Nat
  | 0, _, m1, k1, _, m2, k2, _ => (m1, k1, m2, k2)
  | fuel + 1, M, m1, k1, d1, m2, k2, d2 =>
    if m1 + m2 > M then (m1, k1, m2, k2) else
    let jl := if m2 = 0 then d1 / d2 else min (d1 / d2) ((M - m1) / m2)
    let m1 := m1 + jl * m2
    let k1 := k1 + jl * k2
    let d1 := d1 - jl * d2
    if m1 + m2 > M then (m1, k1, m2, k2) else
    let ju := if d1 = 0 then (M - m2) / m1 + 1 else min ((d2 - 1) / d1) ((M - m2) / m1)
    fareyWalk fuel M m1 k1 d1 (m2 + ju * m1) (k2 + ju * k1) (d2 - ju * d1)

/-- the two pairs (exponent field, factor) at which the floors differ -/
def isExc (exp m : Nat) : Bool :=
  (exp == 472 && m == 28933731341339864) || (exp == 1797 && m == 33542060588139028)

/-- the precision check for one exponent field: find a certificate, check it -/
def precOk (exp : Nat) : Bool :=
  let w := fareyWalk 64 (2 ^ 55 - 1) 1 0 (scaleNum exp) 0 1 (scaleDen exp)
  certOk (scaleNum exp) (scaleDen exp) (mulVal exp) (2 ^ (shiftOf exp).toNat) (isExc exp) w.1 w.2.1 w.2.2.1 w.2.2.2

theorem prec_check0 : ((List.range 256).map (fun i => i + 0)).all precOk = true := by decide +kernel
theorem prec_check1 : ((List.range 256).map (fun i => i + 256)).all precOk = true := by decide +kernel
theorem prec_check2 : ((List.range 256).map (fun i => i + 512)).all precOk = true := by decide +kernel
theorem prec_check3 : ((List.range 256).map (fun i => i + 768)).all precOk = true := by decide +kernel
theorem prec_check4 : ((List.range 256).map (fun i => i + 1024)).all precOk = true := by decide +kernel
theorem prec_check5 : ((List.range 256).map (fun i => i + 1280)).all precOk = true := by decide +kernel
theorem prec_check6 : ((List.range 256).map (fun i => i + 1536)).all precOk = true := by decide +kernel
theorem prec_check7 : ((List.range 256).map (fun i => i + 1792)).all precOk = true := by decide +kernel

theorem precOk_of_exp (exp : Nat) (he : exp < 2048) : precOk exp = true := by
  by_cases h0 : exp < 256
  · exact chunk_lift prec_check0 exp (by omega) (by omega)
  by_cases h1 : exp < 512
  · exact chunk_lift prec_check1 exp (by omega) (by omega)
  by_cases h2 : exp < 768
  · exact chunk_lift prec_check2 exp (by omega) (by omega)
  by_cases h3 : exp < 1024
  · exact chunk_lift prec_check3 exp (by omega) (by omega)
  by_cases h4 : exp < 1280
  · exact chunk_lift prec_check4 exp (by omega) (by omega)
  by_cases h5 : exp < 1536
  · exact chunk_lift prec_check5 exp (by omega) (by omega)
  by_cases h6 : exp < 1792
  · exact chunk_lift prec_check6 exp (by omega) (by omega)
  · exact chunk_lift prec_check7 exp (by omega) (by omega)

/-! ## the precision lemma -/

/-- **Ryu's precision lemma for the tables of this port.** For every exponent field and every factor `m < 2^55` (all `mv`, `mp`,
`mm` are of this size), multiplying by the 121/122-bit table entry and shifting gives the exact floor of the scaled quantity
`m·N/D = m·2^e2/10^e10` — except at the two pairs of `isExc`. -/
theorem precision (exp m : Nat) (he : exp < 2048) (hm : m < 2 ^ 55) (hx : isExc exp m = false) :
    m * mulVal exp / 2 ^ (shiftOf exp).toNat = m * scaleNum exp / scaleDen exp := by
  have h := precOk_of_exp exp he
  unfold precOk at h
  exact certOk_sound _ _ _ _ _ _ _ _ _ h m hm hx

/-- the exceptions are real: at the two pairs the table product is one less (472, multiplier rounded down) resp. one more
(1797, reciprocal rounded up) than the exact floor -/
theorem precision_exceptions :
    28933731341339864 * mulVal 472 / 2 ^ (shiftOf 472).toNat + 1 = 28933731341339864 * scaleNum 472 / scaleDen 472 ∧
    33542060588139028 * mulVal 1797 / 2 ^ (shiftOf 1797).toNat = 33542060588139028 * scaleNum 1797 / scaleDen 1797 + 1 := by
  decide +kernel

/-- `e2 ≥ 0` (exponent fields `1077 … 2046`): `⌊m · pow5InvSplit64[q] / 2^shift⌋ = ⌊m · 2^e2 / 10^q⌋` -/
theorem precision_pos (exp m : Nat) (he : exp < 2047) (h : decodeE2 exp ≥ 0) (hm : m < 2 ^ 55)
    (hx : ¬ (exp = 1797 ∧ m = 33542060588139028)) :
    m * mulVal exp / 2 ^ (shiftOf exp).toNat = m * 2 ^ (decodeE2 exp).toNat / 10 ^ qOf exp := by
  have hexp : 1077 ≤ exp := by
    apply Nat.le_of_not_lt; intro hlt
    rw [decodeE2_neg exp hlt] at h; split at h <;> omega
  have hN : scaleNum exp = 2 ^ (decodeE2 exp).toNat := by unfold scaleNum; rw [if_pos h]
  have hD : scaleDen exp = 10 ^ qOf exp := by unfold scaleDen; rw [if_pos h]
  rw [← hN, ← hD]
  apply precision exp m (by omega) hm
  cases hb : isExc exp m with
  | false => rfl
  | true =>
    unfold isExc at hb
    simp only [Bool.or_eq_true, Bool.and_eq_true, beq_iff_eq] at hb
    rcases hb with ⟨h1, _⟩ | ⟨h1, h2⟩
    · omega
    · exact (hx ⟨h1, h2⟩).elim

/-- `e2 < 0` (exponent fields `0 … 1076`): `⌊m · pow5Split64[i] / 2^shift⌋ = ⌊m · 5^i / 2^q⌋`, `i = −e2 − q` -/
theorem precision_neg (exp m : Nat) (h : ¬ decodeE2 exp ≥ 0) (hm : m < 2 ^ 55)
    (hx : ¬ (exp = 472 ∧ m = 28933731341339864)) :
    m * mulVal exp / 2 ^ (shiftOf exp).toNat = m * 5 ^ (-decodeE2 exp - (qOf exp : Int)).toNat / 2 ^ qOf exp := by
  have hexp : exp < 1077 := by
    apply Nat.lt_of_not_le; intro hge
    rw [decodeE2_pos exp hge] at h; omega
  have hN : scaleNum exp = 5 ^ (-decodeE2 exp - (qOf exp : Int)).toNat := by unfold scaleNum; rw [if_neg h]
  have hD : scaleDen exp = 2 ^ qOf exp := by unfold scaleDen; rw [if_neg h]
  rw [← hN, ← hD]
  apply precision exp m (by omega) hm
  cases hb : isExc exp m with
  | false => rfl
  | true =>
    unfold isExc at hb
    simp only [Bool.or_eq_true, Bool.and_eq_true, beq_iff_eq] at hb
    rcases hb with ⟨h1, h2⟩ | ⟨h1, _⟩
    · exact (hx ⟨h1, h2⟩).elim
    · omega

/-! ## the two exceptional floats -/

/-- mantissa fields of the two floats whose `mv = 4·(2^52 + mant)` is an exception -/
def excMant472 : Nat := 2729833207964470
def excMant1797 : Nat := 3881915519664261

theorem excMant_spec :
    excMant472 < 2 ^ 52 ∧ 4 * (excMant472 + 2 ^ 52) = 28933731341339864 ∧
    excMant1797 < 2 ^ 52 ∧ 4 * (excMant1797 + 2 ^ 52) = 33542060588139028 := by decide

/-- for these two floats the hypothesis of `ryu_shortest_partial` does not hold: the `mulShift64` result for `mv` is not the
exact floor (`vr` is one too small resp. one too large), so `floorsHold` answers `false` -/
theorem hypothesis_fails :
    mulShift64 (mvOf (decodeM2 excMant472 472)) (mulOf 472) (shiftOf 472) + 1
      = mvOf (decodeM2 excMant472 472) * scaleNum 472 / scaleDen 472 ∧
    mulShift64 (mvOf (decodeM2 excMant1797 1797)) (mulOf 1797) (shiftOf 1797)
      = mvOf (decodeM2 excMant1797 1797) * scaleNum 1797 / scaleDen 1797 + 1 ∧
    floorsHold excMant472 472 = false ∧ floorsHold excMant1797 1797 = false := by
  decide +kernel

/-- Everything `finish_correct` and `none_shorter` need, on the exact quantities — decidable for a concrete float: the interval
`A < B < C` in units of `1/D`, `k` digits removed, flags `fm`, `fr` as the loops would report them, and `out` is the
rounding decision on the exact floors. -/
def SpecCert (A B C D : Nat) (incl : Bool) (out k : Nat) (fm fr : Bool) : Prop :=
  0 < D ∧ A + D ≤ B ∧ B + D ≤ C ∧ B - A ≤ C - B ∧ hiEnd C incl / D < 2 ^ 64 ∧
  hiEnd C incl / (D * 10 ^ (k + 1)) ≤ A / (D * 10 ^ (k + 1)) ∧
  ¬ (incl = true ∧ D * 10 ^ (k + 1) ∣ A) ∧
  (1 ≤ k → A / (D * 10 ^ k) < hiEnd C incl / (D * 10 ^ k) ∨ (incl = true ∧ D * 10 ^ k ∣ A)) ∧
  ((fm = true → (incl = true ∧ D * 10 ^ k ∣ A)) ∧
    ((incl = true ∧ D * 10 ^ k ∣ A) → fm = false → B / (D * 10 ^ k) ≠ A / (D * 10 ^ k))) ∧
  (fr = true → ((D ∣ B ∨ (D ∣ 2 * B ∧ 5 ∣ 2 * B / D)) ∧ (k = 0 ∨ 10 ^ (k - 1) ∣ B / D))) ∧
  (k = 0 → D ∣ B) ∧
  out = finish (B / (D * 10 ^ k)) (A / (D * 10 ^ k)) incl fm fr (digitAt (B / D) k)

instance (A B C D : Nat) (incl : Bool) (out k : Nat) (fm fr : Bool) : Decidable (SpecCert A B C D incl out k fm fr) := by
  unfold SpecCert; infer_instance

theorem spec_of_cert {A B C D : Nat} {incl : Bool} {out k : Nat} (fm fr : Bool)
    (h : SpecCert A B C D incl out k fm fr) : Spec A B C D incl out k := by
  obtain ⟨hD, hAB, hBC, hgap, hp64, K1, K2, K3, K4, K5, K6, hout⟩ := h
  obtain ⟨h1, h2⟩ := finish_correct A B C D k incl fm fr hD hAB hBC hgap hp64 K3 K4 K5 K6
  rw [hout]
  exact ⟨h1, none_shorter A C D k incl hD K1 K2, h2⟩

/-- the conclusion of `ryu_shortest_partial` for the float `exp = 472`, `mant = excMant472` (`vr` is one too small, two digits
are removed): by evaluation of the mirror -/
theorem ryu_shortest_exc472 :
    ∃ k : Nat, (float64ToDecimal excMant472 472).e = e10Of 472 + (k : Int) ∧
      Spec (mmOf (decodeM2 excMant472 472) (mmShiftOf excMant472 472) * scaleNum 472)
        (mvOf (decodeM2 excMant472 472) * scaleNum 472) (mpOf (decodeM2 excMant472 472) * scaleNum 472) (scaleDen 472)
        (acceptBoundsOf excMant472 472) (float64ToDecimal excMant472 472).m k :=
  ⟨2, by decide +kernel, spec_of_cert false false (by decide +kernel)⟩

/-- the same for `exp = 1797`, `mant = excMant1797` (`vr` is one too large, four digits are removed) -/
theorem ryu_shortest_exc1797 :
    ∃ k : Nat, (float64ToDecimal excMant1797 1797).e = e10Of 1797 + (k : Int) ∧
      Spec (mmOf (decodeM2 excMant1797 1797) (mmShiftOf excMant1797 1797) * scaleNum 1797)
        (mvOf (decodeM2 excMant1797 1797) * scaleNum 1797) (mpOf (decodeM2 excMant1797 1797) * scaleNum 1797) (scaleDen 1797)
        (acceptBoundsOf excMant1797 1797) (float64ToDecimal excMant1797 1797).m k :=
  ⟨4, by decide +kernel, spec_of_cert false false (by decide +kernel)⟩

end QF.Props.C16Core
