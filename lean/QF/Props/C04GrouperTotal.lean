import QF.Props.C04GrouperInsert
/-!
# C04 / C05 — the mirror table never fails, for ANY hash function and key relation

`G.groupIndex` returns `none` when a probe runs out of fuel (the Go loop would not end) — `G.groupBy_partition` excludes
that for key relations respected by the hash. Here, without any assumption on `hash` and `eqv` (no `KeyRel`): the load
factor keeps a free slot in the table, so every probe and every relocation ends (`insertEntry_total`), the size stays a
power of two, and for at most 2^30 rows it stays below 2^32 with `2 * size` a `uint32` whenever the table grows
(`TInv`). These are the side conditions of `call_grow` / `call_insertEntry`.
-/
namespace QF.Props.C04GrouperGen
open QF QF.GL G
set_option linter.unusedSimpArgs false
set_option linter.unusedVariables false

/-! ## growth never fails -/

/-- invariant of the rehash fold after the prefix `l₁` of the old slots: the size, and the number of entries placed -/
structure RL (N : Nat) (ns : Array (Option G.Entry)) (l₁ : List (Option G.Entry)) : Prop where
  size : ns.size = N
  cnt : countOcc ns = (l₁.filter Option.isSome).length

theorem RL_step (N : Nat) (hN : 0 < N) (ns : Array (Option G.Entry)) (l₁ : List (Option G.Entry)) (x : Option G.Entry) (c : Nat)
    (ri : RL N ns l₁) (hlen : l₁.length < N) :
    ∃ ns' c', growStep N (some (ns, c)) x = some (ns', c') ∧ RL N ns' (l₁ ++ [x]) := by
  have hcount : countOcc ns < ns.size := by
    rw [ri.cnt, ri.size]
    exact Nat.lt_of_le_of_lt (List.length_filter_le _ _) hlen
  cases x with
  | none =>
    obtain ⟨k, hsk, _⟩ := skip_result ns c (by rw [ri.size]; exact hN) (exists_empty_of_count ns hcount)
    refine ⟨ns, c + k, by simp only [growStep]; rw [← ri.size, hsk]; rfl, ⟨ri.size, ?_⟩⟩
    rw [ri.cnt]; simp [List.filter_append]
  | some e =>
    have hsz := ri.size
    obtain ⟨p, k, hpl, hp, hemp, _, _, _⟩ := place_result ns e c (by omega) (exists_empty_of_count ns hcount)
    refine ⟨ns.setIfInBounds p (some e), c + k, by simp only [growStep]; rw [← hsz]; exact hpl, ⟨by simp [hsz], ?_⟩⟩
    rw [countOcc_set_empty ns p e hemp, ri.cnt]; simp [List.filter_append]

theorem RL_fold (N : Nat) (hN : 0 < N) (l : List (Option G.Entry)) (hlen : l.length < N) :
    ∀ (l₂ l₁ : List (Option G.Entry)) (ns : Array (Option G.Entry)) (c : Nat), l = l₁ ++ l₂ → RL N ns l₁ →
      ∃ ns' c', l₂.foldl (growStep N) (some (ns, c)) = some (ns', c') ∧ RL N ns' l := by
  intro l₂
  induction l₂ with
  | nil => intro l₁ ns c h ri; simp at h; subst h; exact ⟨ns, c, rfl, ri⟩
  | cons x l₂ ih =>
    intro l₁ ns c h ri
    have hl1 : l₁.length < N := by rw [h] at hlen; simp at hlen; omega
    obtain ⟨ns', c', hs, ri'⟩ := RL_step N hN ns l₁ x c ri hl1
    obtain ⟨ns'', c'', hf, ri''⟩ := ih (l₁ ++ [x]) ns' c' (by rw [h]; simp) ri'
    exact ⟨ns'', c'', by simp only [List.foldl_cons, hs]; exact hf, ri''⟩

/-- growth succeeds and keeps the number of entries (no assumption on the entries) -/
theorem grow_total (t : G.Tbl) (hn : 0 < t.slots.size) :
    ∃ t', grow {} t = some t' ∧ t'.slots.size = 2 * t.slots.size ∧ countOcc t'.slots = countOcc t.slots ∧
      t'.groupCount = t.groupCount ∧ t'.lfNum = t.lfNum ∧ t'.lfDen = t.lfDen * 2 := by
  obtain ⟨ns', c', hf, ri⟩ := RL_fold (2 * t.slots.size) (by omega) t.slots.toList (by simp; omega)
    t.slots.toList [] (Array.replicate (2 * t.slots.size) none) t.relocCollisions (by simp)
    ⟨by simp, by simp [countOcc, List.filter_eq_nil_iff]⟩
  refine ⟨{ t with slots := ns', relocCollisions := c', relocCount := t.relocCount + 1, lfDen := t.lfDen * 2 }, ?_, ri.size, ?_, rfl, rfl, rfl⟩
  · unfold grow
    simp only []
    rw [← Array.foldl_toList]
    change Option.map _ (List.foldl (growStep (2 * t.slots.size)) _ _) = _
    rw [hf]; rfl
  · rw [ri.cnt]; rfl

/-! ## one insertion -/

/-- the invariant of the table after `m` rows: the counters of `G.CInv`, a power of two as size, a positive load-factor
denominator, at most `m` groups, and a size that is still far from 2^32 -/
structure TInv (t : G.Tbl) (m : Nat) : Prop where
  ci : CInv t
  pow : ∃ k, t.slots.size = 2 ^ k
  gc : t.groupCount ≤ m
  den : 0 < t.lfDen
  sz : t.slots.size ≤ 2 ^ 31
  /-- the load factor is a dyadic fraction (so that `float64` holds it exactly) -/
  dyadic : ∃ j, t.lfDen = 2 ^ j

/-- when the table is about to grow it has fewer than `2 * groupCount` slots, so the doubled size is a `uint32` -/
theorem TInv.grow_ok {t : G.Tbl} {m : Nat} (inv : TInv t m) (hm : m ≤ 2 ^ 30) (hc : t.lfNum * 2 > 1 * t.lfDen) :
    2 * t.slots.size ≤ 2 ^ 31 := by
  have hg0 : t.groupCount ≠ 0 := by
    intro h0; have := inv.ci.lfn; rw [h0] at this; rw [this] at hc; omega
  have hden : t.lfDen = t.slots.size := by rcases inv.ci.lfd with h | h; exact absurd h hg0; exact h
  obtain ⟨k, hk⟩ := inv.pow
  have hlt : t.slots.size < 2 ^ (30 + 1) := by
    have := inv.ci.lfn; have := inv.gc
    calc t.slots.size < 2 * m := by omega
      _ ≤ 2 * 2 ^ 30 := by omega
      _ = 2 ^ (30 + 1) := by decide
  have := pow2_le_of_lt k hk hlt
  calc 2 * t.slots.size ≤ 2 * 2 ^ 30 := by omega
    _ = 2 ^ 31 := by decide

theorem growIfNeeded_total (t : G.Tbl) (m : Nat) (inv : TInv t m) (hm : m ≤ 2 ^ 30) :
    ∃ t1, growIfNeeded {} t = some t1 ∧ TInv t1 m ∧ 2 * t1.groupCount ≤ t1.slots.size := by
  unfold growIfNeeded
  have hmd : ({} : Cfg).maxDen = 2 := rfl
  have hmn : ({} : Cfg).maxNum = 1 := rfl
  rw [hmd, hmn]
  have ci := inv.ci
  by_cases hc : t.lfNum * 2 > 1 * t.lfDen
  · simp only [hc, ↓reduceIte]
    obtain ⟨t', hg, hs, hcnt, hgc, hln, hld⟩ := grow_total t (by have := ci.big; omega)
    have hg0 : t.groupCount ≠ 0 := by
      intro h0; have := ci.lfn; rw [h0] at this; rw [this] at hc; omega
    have hden : t.lfDen = t.slots.size := by rcases ci.lfd with h | h; exact absurd h hg0; exact h
    obtain ⟨k, hk⟩ := inv.pow
    refine ⟨t', hg, ⟨⟨by rw [hgc, hcnt]; exact ci.cnt, by rw [hln, hgc]; exact ci.lfn, Or.inr (by rw [hld, hs, hden]; omega),
      by rw [hs]; have := ci.big; omega, by rw [hgc, hs]; have := ci.load; omega⟩, ⟨k + 1, by rw [hs, hk, Nat.pow_succ]; omega⟩,
      by rw [hgc]; exact inv.gc, by rw [hld]; have := inv.den; omega, by rw [hs]; exact inv.grow_ok hm hc,
      by obtain ⟨j, hj⟩ := inv.dyadic; exact ⟨j + 1, by rw [hld, hj, Nat.pow_succ]⟩⟩, ?_⟩
    rw [hgc, hs]; have := ci.load; have := ci.big; omega
  · simp only [hc, ↓reduceIte]
    refine ⟨t, rfl, inv, ?_⟩
    rcases ci.lfd with h | h
    · rw [h]; omega
    · have := ci.lfn; rw [this, h] at hc; omega

/-- an insertion succeeds and keeps the invariant — for every `hash` and `eqv` -/
theorem insertEntry_total (hash : Nat → Nat) (eqv : Nat → Nat → Bool) (t : G.Tbl) (m : Nat) (inv : TInv t m) (hm : m ≤ 2 ^ 30)
    (i : Nat) (collect : Bool) :
    ∃ t', insertEntry {} hash eqv t i collect = some t' ∧ TInv t' (m + 1) := by
  obtain ⟨t1, hg, inv1, hload⟩ := growIfNeeded_total t m inv hm
  have ci1 := inv1.ci
  have hn : 0 < t1.slots.size := by have := ci1.big; omega
  have hcount : countOcc t1.slots < t1.slots.size := by rw [← ci1.cnt]; have := ci1.big; omega
  generalize hh : hash i % 2 ^ 32 = h
  have hhome : h % t1.slots.size < t1.slots.size := Nat.mod_lt _ hn
  obtain ⟨s0, hs0⟩ := exists_empty_of_count _ hcount
  have hs0lt : s0 < t1.slots.size := by
    rcases Nat.lt_or_ge s0 t1.slots.size with h' | h'
    · exact h'
    · rw [Array.getElem?_eq_none h'] at hs0; cases hs0
  obtain ⟨k, hk, hwk⟩ := walk_cover t1.slots.size (h % t1.slots.size) s0 hhome hs0lt
  have hstop : stopAt eqv t1.slots i h (walk t1.slots.size k (h % t1.slots.size)) = true := by
    unfold stopAt; rw [hwk, hs0]
  obtain ⟨mm, _, hpr, _, _⟩ := probe_finds eqv t1.slots i h (h % t1.slots.size) k hhome hk hstop
  have hplt := walk_lt t1.slots.size mm (h % t1.slots.size) hhome
  generalize walk t1.slots.size mm (h % t1.slots.size) = p at hpr hplt
  have hget : t1.slots[p]? = some t1.slots[p] := by simp [hplt]
  unfold insertEntry
  simp only [hg, Option.bind_some]
  unfold insertNoGrow
  simp only [hh, hpr]
  cases hv : t1.slots[p] with
  | none =>
    have hemp : t1.slots[p]? = some none := by rw [hget, hv]
    simp only [hemp]
    refine ⟨_, rfl, ⟨⟨by simp only; rw [countOcc_set_empty _ _ _ hemp, ci1.cnt], rfl, Or.inr (by simp),
      by simpa using ci1.big, by simp only [Array.size_setIfInBounds]; omega⟩, by simpa using inv1.pow,
      by simp only; have := inv1.gc; omega, by simp only; omega, by simpa using inv1.sz, by simpa using inv1.pow⟩⟩
  | some e =>
    have ho : t1.slots[p]? = some (some e) := by rw [hget, hv]
    simp only [ho]
    cases collect
    · simp only [Bool.false_eq_true, ↓reduceIte]
      exact ⟨_, rfl, ⟨⟨ci1.cnt, ci1.lfn, ci1.lfd, ci1.big, ci1.load⟩, inv1.pow, by simp only; have := inv1.gc; omega, inv1.den, inv1.sz, inv1.dyadic⟩⟩
    · simp only [↓reduceIte]
      refine ⟨_, rfl, ⟨⟨by simp only; rw [countOcc_set_occ _ _ e _ ho]; exact ci1.cnt, ci1.lfn, by simpa using ci1.lfd,
        by simpa using ci1.big, by simpa using ci1.load⟩, by simpa using inv1.pow, by simp only; have := inv1.gc; omega,
        inv1.den, by simpa using inv1.sz, inv1.dyadic⟩⟩

/-! ## the initial table -/

theorem initialSizeExp_le (n : Nat) (hn : n ≤ 2 ^ 30) : initialSizeExp n ≤ 31 := by
  unfold initialSizeExp
  by_cases h0 : n / 4 = 0
  · simp [h0]
  · simp only [h0, ↓reduceIte]
    have : Nat.log2 (n / 4) < 30 := (Nat.log2_lt h0).mpr (by omega)
    omega

theorem init_TInv (n : Nat) (hn : n ≤ 2 ^ 30) : TInv { slots := Array.replicate (2 ^ initialSizeExp n) none } 0 := by
  have h8 : 8 ≤ 2 ^ initialSizeExp n := by
    have : 3 ≤ initialSizeExp n := by unfold initialSizeExp; omega
    calc 8 = 2 ^ 3 := rfl
      _ ≤ 2 ^ initialSizeExp n := Nat.pow_le_pow_right (by omega) this
  refine ⟨⟨?_, rfl, Or.inl rfl, by simp; omega, by simp⟩, ⟨initialSizeExp n, by simp⟩, Nat.le_refl _, by simp, ?_, ⟨0, rfl⟩⟩
  · simp [countOcc, List.filter_eq_nil_iff]
  · simp only [Array.size_replicate]
    exact Nat.pow_le_pow_right (by omega) (initialSizeExp_le n hn)

/-- the whole fold succeeds and keeps the invariant -/
theorem foldlM_total (hash : Nat → Nat) (eqv : Nat → Nat → Bool) (collect : Bool) :
    ∀ (rest : List Nat) (m : Nat) (t : G.Tbl), TInv t m → m + rest.length ≤ 2 ^ 30 →
      ∃ t', rest.foldlM (fun t i => insertEntry {} hash eqv t i collect) t = some t' ∧ TInv t' (m + rest.length) := by
  intro rest
  induction rest with
  | nil => intro m t inv _; exact ⟨t, rfl, inv⟩
  | cons i rest ih =>
    intro m t inv hm
    simp only [List.length_cons] at hm
    obtain ⟨t1, h1, inv1⟩ := insertEntry_total hash eqv t m inv (by omega) i collect
    obtain ⟨t2, h2, inv2⟩ := ih (m + 1) t1 inv1 (by omega)
    refine ⟨t2, by simp only [List.foldlM_cons, h1, Option.bind_eq_bind, Option.bind_some]; exact h2, ?_⟩
    simp only [List.length_cons]
    rw [show m + (rest.length + 1) = m + 1 + rest.length by omega]; exact inv2

/-- `G.groupIndex` is total on indexes of at most 2^30 rows, for every hash function and key relation; the final load
factor is a dyadic fraction with a numerator of at most 2^30 (every intermediate one as well: `TInv` is an invariant), so
the `float64` of the code holds it exactly -/
theorem groupIndex_total (hash : Nat → Nat) (eqv : Nat → Nat → Bool) (ix : List Nat) (hlen : ix.length ≤ 2 ^ 30) (collect : Bool) :
    ∃ t, groupIndex {} hash eqv ix collect = some t ∧ (∃ j, t.lfDen = 2 ^ j) ∧ t.lfNum ≤ 2 ^ 30 ∧ ∃ k, t.slots.size = 2 ^ k := by
  unfold groupIndex
  obtain ⟨t, h, inv⟩ := foldlM_total hash eqv collect ix 0 _ (init_TInv ix.length hlen) (by omega)
  refine ⟨t, h, inv.dyadic, ?_, inv.pow⟩
  have := inv.gc; have := inv.ci.lfn; omega

end QF.Props.C04GrouperGen
