import QF.Props.C11
import QF.Props.C01GenOps
/-!
# C11 — concurrent use of the REGENERATED operations

`QF.Props.C11.ops_interleaving_deterministic` is about the nine hand models of C01Ops. Here the threads are the programs of
RUNS OF TODAY'S REGENERATED CODE (`QF.Props.C01GenOps.GRun.prog`: the effect summary of the run of the regenerated term —
which existing arrays it reads, which arrays it allocates, every write of its log / write counter), all started together on
the same shared store:

* `gen_ops_interleaving_deterministic` — any number of regenerated runs (`Slice`, `Select`, `Drop`, `Copy` with their guard
  chains, the work of `setColumn`, `Sort`, `Distinct`, the functions of internal/index and `grouper.Distinct`, the built-in
  `ToUpper` of string and enum columns, `ecolumn.Subset`, the loops of `Apply1` / `Apply2` / `apply0`, and — through the
  static check `writesOnlyFresh` of their terms, sound against their value-semantics interpreters (C01FreshCL, C01FreshGL) —
  `Filter`, `GroupBy`, the table of `Distinct`, `Aggregate`, `FilteredApply` / `WithRowNums`: ALL public operations), under EVERY schedule: the shared store is never written, every
  write event targets an array the writing thread allocated itself (no thread writes an array another thread can reach: the
  others reach only the shared arrays and their own), and each thread is where it is after the same number of its own steps
  run alone.
* `ops_interleaving_deterministic_partial` — (kept) the same for any mixture of regenerated runs and hand models; no
  operation needs its hand model any more (`GRun.filter`, `.groupBy`, `.distinctTable`, `.aggregate`, `.fapply`).
* `witness_*_thread`: a thread running `setColumn` with `append` onto the shared column list, `Sort` sorting the receiver's
  index in place, or the enum `toUpper` with `newData := s.data[:0]` is not admitted (its program is not `OwnWrites`), and
  under a schedule it writes the shared store.

Not exhibited by the model (observed only: race detector, section `conc`): the Go memory model (visibility and atomicity of
the individual loads and stores), the `unsafe` string views over the byte blobs, the lock inside math/rand, the runtime's map.
-/
set_option linter.unusedVariables false
namespace QF.Props.C11GenOps
open H QF QF.Props.C01 QF.Props.C01GenOps QF.Props.C08ProjectGen

/-- **C11 from the regenerated code — FULL: every public operation is a constructor of `GRun`.** Threads = runs of today's
regenerated operations, each with its own heap, directory, receiver and arguments; `sh` the shared store (`base` arrays);
`σ` any schedule. -/
theorem gen_ops_interleaving_deterministic (C : Enc) (base : Nat) (σ : List Nat) (sh : Store) (runs : List GRun) :
    let ts : List (Thread Unit) := runs.map (fun r => { prog := r.prog C })
    (runSched base σ sh ts).fst = sh ∧
      (∀ (i : Nat) (t : Thread Unit), ts[i]? = some t →
          (runSched base σ sh ts).snd.fst[i]? = some (alone base sh (count i σ) t)) ∧
        ∀ (i : Nat) (id : Id), (i, Ev.write id) ∈ (runSched base σ sh ts).snd.snd → base ≤ id := by
  intro ts
  apply H.interleaving_deterministic
  intro t ht
  obtain ⟨r, _, rfl⟩ := List.mem_map.mp ht
  exact gen_run_own_writes C r base

/- (kept; the FULL statement — the threads are runs of the regenerated code of ALL public operations — is now
   `gen_ops_interleaving_deterministic` above.) Formerly: threads are regenerated runs (`AnyOp.gen`, the families listed above) or hand models (`AnyOp.hand`): `Filter`,
   `GroupBy`, the table of `Distinct`, `Aggregate` still enter through `Op.filter`, `Op.groupBy`, `Op.distinct`,
   `Op.aggregate` of C01Ops. -/
theorem ops_interleaving_deterministic_partial (C : Enc) (base : Nat) (σ : List Nat) (sh : Store) (ops : List AnyOp) :
    let ts : List (Thread Unit) := ops.map (fun o => { prog := o.prog C })
    (runSched base σ sh ts).fst = sh ∧
      (∀ (i : Nat) (t : Thread Unit), ts[i]? = some t →
          (runSched base σ sh ts).snd.fst[i]? = some (alone base sh (count i σ) t)) ∧
        ∀ (i : Nat) (id : Id), (i, Ev.write id) ∈ (runSched base σ sh ts).snd.snd → base ≤ id := by
  intro ts
  apply H.interleaving_deterministic
  intro t ht
  obtain ⟨o, _, rfl⟩ := List.mem_map.mp ht
  exact any_op_own_writes C o base

/-! ## A concrete instance -/

/-- today's `Sort`, `Copy("c", "a")` and `Select("b", "a")` on the same receiver, the enum `ToUpper` -/
def exThreads : List GRun :=
  [.op exSort exH exDir, .op exCopy exH exDir, .op exSelect exH exDir, .eupper upW enumW (by decide) 0 1]

def exSched : List Nat := [0, 1, 2, 0, 1, 3, 0, 0, 2, 1, 0, 3, 0, 1, 2, 0, 2, 1, 3, 3, 1, 2, 1, 2, 1, 2, 2, 1, 2, 1, 2, 1, 2, 2, 2, 1, 1]

/-- instance of the theorem -/
example : (runSched 3 exSched exStore (exThreads.map fun r => ({ prog := r.prog exEnc } : Thread Unit))).fst = exStore :=
  (gen_ops_interleaving_deterministic exEnc 3 exSched exStore exThreads).1

/-- by evaluation (the three projection threads): they really run interleaved, allocate and write — `Sort` (thread 0) its copy
of the index, twice; `Copy` (thread 1) and `Select` (thread 2) their column lists and maps — all in private arrays (ids ≥ 3) -/
example : ((runSched 3 exSched exStore ((exThreads.take 3).map fun r => ({ prog := r.prog exEnc } : Thread Unit))).snd.snd.filter
      fun e => match e.2 with | .write _ => true | _ => false) =
    [(0, .write 3), (0, .write 3), (1, .write 3), (1, .write 4), (2, .write 4), (2, .write 3), (1, .write 4), (2, .write 4),
     (1, .write 3), (2, .write 3)] := by
  decide +kernel

/-- `Filter`, `GroupBy` and the table of `Distinct` of today's source as threads on the same receiver, next to `Sort` -/
def exThreads2 : List GRun :=
  [.filter CL.LeafCalls.ofLeaf exLeafClause { index := [2, 0, 1] } 0 1, .groupBy 64 [C01FreshGL.exCmp] [2, 0, 1] 0 1,
   .op exSort exH exDir, .distinctTable 64 [C01FreshGL.exCmp] [2, 0, 1] 0 1]

example : (runSched 3 exSched exStore (exThreads2.map fun r => ({ prog := r.prog exEnc } : Thread Unit))).fst = exStore :=
  (gen_ops_interleaving_deterministic exEnc 3 exSched exStore exThreads2).1

/-- by evaluation: `Filter` (thread 0) writes its mask and its result index, `GroupBy` (thread 1) its two groups and the group
list, all private (ids ≥ 3) -/
example : ((runSched 3 [0, 1, 0, 1, 0, 1, 0, 1, 0, 1, 0, 1, 1, 1, 1] exStore ((exThreads2.take 2).map fun r => ({ prog := r.prog exEnc } : Thread Unit))).snd.snd.filter
      fun e => match e.2 with | .write _ => true | _ => false) =
    [(0, .write 3), (1, .write 3), (0, .write 4), (1, .write 4), (1, .write 5)] := by
  decide +kernel

/-! ## Witnesses: the mutated operations as threads -/

/-- the events of a schedule that write the shared region -/
def sharedWrites (base : Nat) (evs : List (Nat × Ev)) : List (Nat × Ev) :=
  evs.filter fun e => match e.2 with | .write id => decide (id < base) | _ => false

/-- a Filter that compacts into the receiver's index, as a thread: not admitted, and it writes the shared index (store id 0) -/
theorem witness_filter_in_place_thread :
    ¬ (filterEff ((CL.FnId.leaves, C01FreshCL.leavesInPlace) :: Gen.clauseFns) CL.LeafCalls.ofLeaf exLeafClause { index := [2, 0, 1] } 0 1).prog.OwnWrites 3 ∧
    sharedWrites 3 (runSched 3 [0, 1, 0, 1, 0, 1, 0, 1, 0, 1, 0, 1, 1, 1] exStore
      [{ prog := (filterEff ((CL.FnId.leaves, C01FreshCL.leavesInPlace) :: Gen.clauseFns) CL.LeafCalls.ofLeaf exLeafClause { index := [2, 0, 1] } 0 1).prog },
       { prog := exSort.prog exEnc exDir exH }]).snd.snd = [(0, .write 0)] :=
  ⟨(witness_filter_in_place _ _ _ 0 1 3 (by decide)).2, by decide +kernel⟩

/-- `setColumn` with `append(qf.columns, …)` next to today's `Select`, on a column list with spare capacity: not admitted,
and thread 0 writes the shared column list (store id 1) -/
theorem witness_setColumn_append_thread :
    ¬ (pfEff exEnc exDir capEnv exHcap (setColumnAppendShared.run capEnv exHcap)).prog.OwnWrites 3 ∧
    sharedWrites 3 (runSched 3 [0, 1, 0, 1, 0, 1, 0, 1, 0, 1, 0, 1, 0, 0, 0] [[2, 0, 1], [0, 1, 0], [2]]
      [{ prog := (pfEff exEnc exDir capEnv exHcap (setColumnAppendShared.run capEnv exHcap)).prog },
       { prog := exSelect.prog exEnc exDir exH }]).snd.snd = [(0, .write 1)] := by
  refine ⟨(witness_setColumn_append exEnc exDir 3 ?_).2, by decide +kernel⟩
  intro k id hid
  cases k <;> simp [oldLen, exHcap, exH] at hid <;> subst hid <;> decide

/-- `Sort` sorting the receiver's index in place next to today's `Sort`: thread 0 writes the shared index (store id 0) -/
theorem witness_sort_in_place_thread :
    ¬ (pfEff exEnc exDir (genEnv exX exF) exH (sortInPlace.run (genEnv exX exF) exH)).prog.OwnWrites 3 ∧
    sharedWrites 3 (runSched 3 [0, 1, 0, 1, 0, 1, 0, 1, 0, 1, 0, 1, 1, 1] exStore
      [{ prog := (pfEff exEnc exDir (genEnv exX exF) exH (sortInPlace.run (genEnv exX exF) exH)).prog },
       { prog := exSort.prog exEnc exDir exH }]).snd.snd = [(0, .write 0)] := by
  refine ⟨(witness_sort_in_place exEnc exDir 3 ?_).2, by decide +kernel⟩
  intro k id hid
  cases k <;> simp [oldLen, exH] at hid <;> subst hid <;> decide

/-- the enum `toUpper` with `newData := s.data[:0]` as a thread over the column's `data` (store id 0) -/
theorem witness_eupper_reuse_data_thread :
    ¬ (eupperEff exEnc 0 1 (QF.Props.C06FApplyGen.eupperReuseData.run upW enumW)).prog.OwnWrites 2 ∧
    sharedWrites 2 (runSched 2 [0, 0, 0, 0, 0, 0, 0] [[0, 1, 255, 2], [1, 1, 1]]
      [{ prog := (eupperEff exEnc 0 1 (QF.Props.C06FApplyGen.eupperReuseData.run upW enumW)).prog }]).snd.snd =
      [(0, .write 0)] :=
  ⟨witness_eupper_reuse_data exEnc 0 1 2 (by decide), by decide +kernel⟩

#print axioms gen_ops_interleaving_deterministic
#print axioms ops_interleaving_deterministic_partial
#print axioms witness_filter_in_place_thread
#print axioms witness_setColumn_append_thread
#print axioms witness_sort_in_place_thread
#print axioms witness_eupper_reuse_data_thread

end QF.Props.C11GenOps
