import QF.Props.C02Kernels
import QF.Gen.Loops
import QF.Gen.Guards
/-!
# C06 — the per-row LOOPS of Apply in today's source build what `applyInstr` builds (tie T1, by semantics)

`QF.Gen.apply1Ast`, `QF.Gen.apply2Ast`, `QF.Gen.apply0Ast` and `QF.Gen.apply1WrapAst` (QF/Gen/Loops.lean, regenerated on
every run by go/cmd/extract/last.go) hold, as terms of QF/Core/LExpr.lean, `Column.Apply1` and `Column.Apply2` of each of
the five column packages, `QFrame.apply0` of /repo/qframe.go after its guard, and the switch of `QFrame.apply1` on the
type of the slice `Apply1` returned: which dynamic types of the function value are accepted, and behind each of them the
allocation of the result, the loop over the index (which row is read — of the receiver, of the second column —, which slot
is written) and where the result goes. `LFn.run` is their meaning on PHYSICAL data. The dispatch of `Apply` to the three
helpers and their guard prefixes are C10Guards (`gen_apply_dispatch`, `gen_apply_loop`, `gen_sticky_all`); this file is
what those theorems take as given: that a helper call computes `applyInstr`.

Proved here, over the data generated TODAY:

* `gen_loops_no_opaque`        — every function was translated completely
* `gen_apply1_canon`, `gen_apply2_canon`, `gen_apply0_canon`, `gen_apply1_wrap_canon` — today's terms ARE the canonical
                                 ones (finite `decide`): per column type the four accepted signatures `func(T) R`,
                                 R ∈ int / float64 / bool / *string, each with `make([]R, len(c.data))` and
                                 `result[row] = t(<cell row>)`; `func(T, T) T` for Apply2 after the assertion of the second
                                 column; the nine cases of apply0
* `gen_builtin_entries`        — the only built-in table is `"ToUpper"` ↦ the package's `toUpper` (by the hash of its body, a
                                 fact of QF/Gen/Facts.lean), for string and enum columns, in `Apply1` only
* `accOf_eval`                 — the argument handed to the function IS the cell: `nil` for a null cell of a string / enum
                                 column, the address of its string otherwise (`stringToPtr(c.stringAt(i))`,
                                 `c.stringPtrAt(i)` inlined by the translator)
* `gen_apply_loops_physical`   — for ALL physical contents, every index and every function value, the three functions return
                                 the array that holds the function of the row's cell(s) at every row of the index and the
                                 zero value of the element type at every other row of the full column length, or an error
                                 exactly for the rejected function values (`expect1`, `expect2`, `expect0`)
* `gen_apply_loops_semantics`  — … which, read through the index `ix0` of the frame, is exactly the frame `applyInstr`
                                 specifies (`gen_apply1_semantics`, `gen_apply2_semantics`, `gen_apply0_semantics`): for
                                 `Apply` (all rows) and `FilteredApply` (the rows a clause keeps), for every function of
                                 the catalogue of QF/Spec/Ops.lean incl. the stateful zero-argument ones (the `k`-th value
                                 at the `k`-th selected row; needs the index to be duplicate-free)

Witnesses at the end: `result[pos]`, `other.data[pos]`, `make([]T, len(ix))`, skipping null rows, `&""` for nil — each
gives a different array than the statement allows.

Method as in C02Dispatch / C08Construct: `decide` shows that today's terms are the canonical ones; the meaning of the
canonical terms is computed once and for all (`canon1_run`, `canon2_run`, `canon0_run`).
-/
namespace QF.Props.C06LoopsGen
open QF QF.Props.C02Kernels

/-! ## Today's terms -/

def missing : LFn := { cases := [], dflt := .opaque "missing" }
def apply1Of (ty : CType) : LFn := (Gen.apply1Ast.lookup (pkgOf ty)).getD missing
def apply2Of (ty : CType) : LFn := (Gen.apply2Ast.lookup (pkgOf ty)).getD missing

theorem gen_loops_no_opaque :
    (∀ e ∈ Gen.apply1Ast, e.2.hasOpaque = false) ∧ (∀ e ∈ Gen.apply2Ast, e.2.hasOpaque = false) ∧
    Gen.apply0Ast.hasOpaque = false ∧
    Gen.apply1Ast.map (·.1) = tys.map pkgOf ∧ Gen.apply2Ast.map (·.1) = tys.map pkgOf := by decide

/-! ## Canonical terms -/

/-- the element types a result slice may have -/
def resTys : List CType := [.int, .float, .bool, .string]

/-- from the cell to the function argument, per column type -/
def accOf : CType → LAcc
  | .string => .ifNull .nilPtr .addrStr
  | .enum => .ifNull .nilPtr .addrValue
  | _ => .raw

/-- `result := make([]r, len(c.data)); for _, i := range ix { result[i] = t(<cell i>) }; return result, nil` -/
def loop1 (ty r : CType) : LBody := .loop r .recvLen [.store .row (.call [.cell .recv .row (accOf ty)])] .slice

/-- … `result[i] = t(<cell i>, <cell i of the other column>)` -/
def loop2 (ty : CType) (ret : LRet) : LBody :=
  .loop (fkind ty) .recvLen [.store .row (.call [.cell .recv .row (accOf ty), .cell .other .row (accOf ty)])] ret

/-- the hash of the body of the package's `toUpper` among the facts of `QF/Gen/Facts.lean` -/
def upperHash (ty : CType) : Nat := (Gen.hashes.lookup (pkgOf ty ++ ".toUpper")).getD 0

def hasBuiltins : CType → Bool
  | .string | .enum => true
  | _ => false

def canon1 (ty : CType) : LFn :=
  { assertOther := none
    cases := resTys.map (fun r => (LSig.fn [fkind ty] r, loop1 ty r)) ++
      (if hasBuiltins ty then [(LSig.str, LBody.lookup [("ToUpper", upperHash ty)] .err)] else [])
    dflt := .err }

def canon2 (ty : CType) : LFn :=
  { assertOther := some .err
    cases := (LSig.fn [fkind ty, fkind ty] (fkind ty), loop2 ty (if ty = .enum then .strCol else .ownCol)) ::
      (if hasBuiltins ty then [(LSig.str, LBody.err)] else [])
    dflt := .err }

def loop0 (r : CType) (rhs : LRhs) : LBody := .loop r .firstColLen [.store .row rhs] .create

def canon0 : LFn :=
  { assertOther := none
    cases := (resTys.flatMap (fun r => [(LSig.fn [] r, loop0 r (.call [])), (LSig.const r, loop0 r .fnValue)])) ++
      [(LSig.str, loop0 .string .addrFnValue), (LSig.named, .copyCol)]
    dflt := .err }

def canonWrap : LWrap :=
  { slices := resTys.map (fun r => (r, r)), passesColumn := true, dfltErr := true, setsDst := true }

theorem gen_apply1_canon : ∀ ty ∈ tys, apply1Of ty = canon1 ty := by decide
theorem gen_apply2_canon : ∀ ty ∈ tys, apply2Of ty = canon2 ty := by decide
theorem gen_apply0_canon : Gen.apply0Ast = canon0 := by decide
theorem gen_apply1_wrap_canon : Gen.apply1WrapAst = canonWrap := by decide

/-! ## The write loop, closed form -/

/-- `for _, i := range ix { res[i] = G i }` -/
def writeLoop (G : Nat → Cell) : List Nat → List Cell → List Cell
  | [], res => res
  | i :: ix, res => writeLoop G ix (res.set i (G i))

theorem writeLoop_length (G : Nat → Cell) (ix : List Nat) (res : List Cell) :
    (writeLoop G ix res).length = res.length := by
  induction ix generalizing res with
  | nil => rfl
  | cons i ix ih => simp only [writeLoop, ih, List.length_set]

theorem writeLoop_getElem? (G : Nat → Cell) (ix : List Nat) (res : List Cell) (p : Nat) :
    (writeLoop G ix res)[p]? =
      if p ∈ ix then (if p < res.length then some (G p) else none) else res[p]? := by
  induction ix generalizing res with
  | nil => simp [writeLoop]
  | cons i ix ih =>
    simp only [writeLoop, ih, List.length_set, List.mem_cons]
    by_cases h1 : p ∈ ix
    · simp [h1]
    · by_cases h2 : p = i
      · subst h2
        simp only [h1, ↓reduceIte, List.getElem?_set_self', or_false]
        by_cases h3 : p < res.length
        · simp [h3]
        · simp [h3]
      · have h2' : i ≠ p := fun e => h2 e.symm
        simp [h1, h2, List.getElem?_set_ne h2']

/-- the loop on a freshly allocated array: rows of the index hold `G row`, all other rows the zero value -/
theorem writeLoop_replicate (G : Nat → Cell) (ix : List Nat) (L : Nat) (z : Cell) :
    writeLoop G ix (List.replicate L z) = (List.range L).map (fun p => if p ∈ ix then G p else z) := by
  apply List.ext_getElem?
  intro p
  rw [writeLoop_getElem?, List.getElem?_map, List.length_replicate, List.getElem?_replicate]
  by_cases hp : p < L
  · rw [List.getElem?_range hp]
    by_cases hm : p ∈ ix <;> simp [hm, hp]
  · rw [List.getElem?_eq_none (by simpa using hp)]
    by_cases hm : p ∈ ix <;> simp [hm, hp]

/-- a loop whose body is `res[row] = G row` and leaves the closure state alone -/
theorem runLoop_pure {σ : Type} (E : LEnv σ) (body : List LStmt) (G : Nat → Cell) (L : Nat) :
    ∀ (ix : List Nat) (pos : Nat) (res : List Cell) (s : σ), res.length = L →
      (∀ pos row (res : List Cell) (s : σ), row ∈ ix → res.length = L →
        lRunBody E pos row body res s = .ok (res.set row (G row), s)) →
      lRunLoop E body pos ix res s = .ok (writeLoop G ix res, s) := by
  intro ix
  induction ix with
  | nil => intro pos res s _ _; rfl
  | cons i ix ih =>
    intro pos res s hl hb
    simp only [lRunLoop, writeLoop]
    rw [hb pos i res s List.mem_cons_self hl]
    exact ih (pos + 1) _ s (by rw [List.length_set]; exact hl)
      (fun pos row res s hr hl' => hb pos row res s (List.mem_cons_of_mem _ hr) hl')

/-! ## From the cell to the function argument -/

theorem enumStrOf_some {vals : List Bytes} {s : Bytes} {i : Nat} (hi : enumRank vals s = some i) (hl : i < 255) :
    enumStrOf .enum vals (.str (some s)) = some s := by
  have hn : ¬ (i = enumNull) := by unfold enumNull; omega
  have hlt : i < enumNull := by unfold enumNull; omega
  have hv : vals[i]? = some s := by
    unfold enumRank at hi
    rw [List.findIdx?_eq_some_iff_getElem] at hi
    obtain ⟨hlen, hp, _⟩ := hi
    simp at hp
    simp [hlen, hp]
  simp [enumStrOf, cellVal, hi, hlt, hn, hv]

/-- **The argument the function gets is the cell**, for every cell a column of the type can hold: the raw element for
int / float / bool; for string and enum columns `nil` for a null cell and the address of the cell's string otherwise. -/
theorem accOf_eval (ty : CType) (hty : ty ∈ tys) (vals : List Bytes) (x : Cell) (hx : cellOk ty vals x = true) :
    (accOf ty).eval ty vals x = some x := by
  unfold cellOk at hx
  cases ty with
  | int => simp [accOf, LAcc.eval, hx]
  | float => simp [accOf, LAcc.eval, hx]
  | bool => simp [accOf, LAcc.eval, hx]
  | undef => simp [tys] at hty
  | string =>
    cases x with
    | str s => cases s <;> simp [accOf, LAcc.eval, nullOf, strOf]
    | _ => simp [cellVal] at hx
  | enum =>
    cases x with
    | str s =>
      cases s with
      | none => simp [accOf, LAcc.eval, nullOf, cellVal]
      | some b =>
        cases hr : enumRank vals b with
        | none => simp [cellVal, hr] at hx
        | some i =>
          by_cases hi : i < enumNull
          · have hne : (i == enumNull) = false := by simp; omega
            have hi' : i < 255 := hi
            simp [accOf, LAcc.eval, nullOf, cellVal, hr, hi, hne, enumStrOf_some hr hi']
          · simp [cellVal, hr, hi] at hx
    | _ => simp [cellVal] at hx

/-! ## Physical columns -/

/-- every cell is one a column of the type can hold (for an enum: its string is in the value table) -/
def ColOk (P : PCol) : Prop := P.ty ∈ tys ∧ ∀ x ∈ P.cells, cellOk P.ty P.vals x = true

theorem ColOk.get {P : PCol} (h : ColOk P) {p : Nat} (hp : p < P.cells.length) :
    P.cells[p]? = some (P.cells[p]!) ∧ cellOk P.ty P.vals (P.cells[p]!) = true := by
  have e : P.cells[p]! = P.cells[p] := by simp [hp]
  rw [e]
  exact ⟨List.getElem?_eq_getElem hp, h.2 _ (List.getElem_mem hp)⟩

/-! ## Apply1 -/

/-- the rows of the result of a pure loop: `G` on the rows of the index, the zero value elsewhere -/
def rowsOf (L : Nat) (ix : List Nat) (z : Cell) (G : Nat → Cell) : List Cell :=
  (List.range L).map (fun p => if p ∈ ix then G p else z)

/-- one round of the canonical body: the function on the cell of the row, stored at the row -/
theorem body1 {σ : Type} (E : LEnv σ) (a r : CType) (g : Cell → Cell) (hfn : E.fn = .fn1 a r g) (acc : LAcc)
    (pos row : Nat) (res : List Cell) (s : σ) (x y : Cell) (hx : E.recv.cells[row]? = some x)
    (hacc : acc.eval E.recv.ty E.recv.vals x = some y) (hr : row < res.length) :
    lRunBody E pos row [.store .row (.call [.cell .recv .row acc])] res s = .ok (res.set row (g y), s) := by
  simp [lRunBody, LRhs.eval, hfn, LArg.eval, LEnv.col, LIdx.of, hx, hacc, hr]

theorem loop1_run {σ : Type} (E : LEnv σ) (a r : CType) (g : Cell → Cell) (hfn : E.fn = .fn1 a r g)
    (hok : ColOk E.recv) (hix : ∀ p ∈ E.ix, p < E.recv.cells.length) :
    (loop1 E.recv.ty r).run E =
      .arr .slice r (rowsOf E.recv.cells.length E.ix (zeroCell r) (fun p => g (E.recv.cells[p]!))) E.s0 := by
  have h := runLoop_pure E [.store .row (.call [.cell .recv .row (accOf E.recv.ty)])] (fun p => g (E.recv.cells[p]!))
    E.recv.cells.length E.ix 0 (List.replicate E.recv.cells.length (zeroCell r)) E.s0 (by simp) (by
      intro pos row res s hr hl
      obtain ⟨hx, hc⟩ := hok.get (hix row hr)
      exact body1 E a r g hfn _ pos row res s _ _ hx (accOf_eval _ hok.1 _ _ hc) (by rw [hl]; exact hix row hr))
  simp only [loop1, LBody.run, LLen.eval, h, writeLoop_replicate, rowsOf]

/-- the case of the switch a signature selects among `r ↦ (func(k…) r, B r)` for the four result types -/
theorem find_resTys (ks : List CType) (B : CType → LBody) (as : List CType) (r : CType) :
    (resTys.map (fun r => (LSig.fn ks r, B r))).find? (fun c => c.1 == LSig.fn as r) =
      if as = ks ∧ r ∈ resTys then some (LSig.fn ks r, B r) else none := by
  by_cases h : as = ks
  · subst h
    cases r <;> simp [resTys]
  · have h' : ¬ ks = as := fun e => h e.symm
    simp [resTys, h, h']

/-- What `Apply1` of a column of type `ty` must do with a function value: a one-argument function on the column's element
type with one of the four result types runs the loop; a `string` is the name of a built-in (string and enum columns only,
and only "ToUpper"); everything else is an error. -/
def expect1 {σ : Type} (E : LEnv σ) : LOutcome σ :=
  match E.fn with
  | .fn1 a r g =>
    if a = fkind E.recv.ty ∧ r ∈ resTys then
      .arr .slice r (rowsOf E.recv.cells.length E.ix (zeroCell r) (fun p => g (E.recv.cells[p]!))) E.s0
    else .err
  | .str s => if hasBuiltins E.recv.ty = true ∧ s = strBytes "ToUpper" then .builtin (upperHash E.recv.ty) else .err
  | _ => .err

theorem switch_eq {σ : Type} (F : LFn) (E : LEnv σ) :
    F.switch E = (((F.cases.find? (fun c => c.1 == E.fn.sig)).map (·.2)).getD F.dflt).run E := by
  unfold LFn.switch
  cases F.cases.find? (fun c => c.1 == E.fn.sig) <;> rfl

/-- the body the switch of `Apply1` selects -/
def case1 (ty : CType) : LSig → Option LBody
  | .fn as r => if as = [fkind ty] ∧ r ∈ resTys then some (loop1 ty r) else none
  | .str => if hasBuiltins ty = true then some (.lookup [("ToUpper", upperHash ty)] .err) else none
  | _ => none

theorem find1 (ty : CType) (sig : LSig) :
    ((canon1 ty).cases.find? (fun c => c.1 == sig)).map (·.2) = case1 ty sig := by
  have hn : ∀ sig : LSig, (∀ as r, sig ≠ .fn as r) →
      (resTys.map (fun r => (LSig.fn [fkind ty] r, loop1 ty r))).find? (fun c => c.1 == sig) = none := by
    intro sig h
    rw [List.find?_eq_none]
    intro c hc
    simp only [List.mem_map] at hc
    obtain ⟨r, _, rfl⟩ := hc
    simpa using fun e => h _ _ e.symm
  simp only [canon1, List.find?_append]
  cases sig with
  | fn as r =>
    rw [find_resTys]
    by_cases h : as = [fkind ty] ∧ r ∈ resTys
    · simp [case1, h]
    · cases hasBuiltins ty <;> simp [case1, h]
  | str =>
    rw [hn _ (by intro as r; simp)]
    cases hb : hasBuiltins ty <;> simp [case1, hb]
  | aggFn a r => rw [hn _ (by intro as r; simp)]; cases hasBuiltins ty <;> simp [case1]
  | const c => rw [hn _ (by intro as r; simp)]; cases hasBuiltins ty <;> simp [case1]
  | named => rw [hn _ (by intro as r; simp)]; cases hasBuiltins ty <;> simp [case1]
  | other t => rw [hn _ (by intro as r; simp)]; cases hasBuiltins ty <;> simp [case1]

theorem canon1_run {σ : Type} (E : LEnv σ) (hok : ColOk E.recv) (hix : ∀ p ∈ E.ix, p < E.recv.cells.length) :
    (canon1 E.recv.ty).run E = expect1 E := by
  have hsw : (canon1 E.recv.ty).run E = (canon1 E.recv.ty).switch E := rfl
  rw [hsw, switch_eq, find1]
  unfold expect1
  cases hfn : E.fn with
  | fn1 a r g =>
    simp only [LVal.sig, case1]
    by_cases h : a = fkind E.recv.ty ∧ r ∈ resTys
    · have h' : [a] = [fkind E.recv.ty] ∧ r ∈ resTys := ⟨by rw [h.1], h.2⟩
      rw [if_pos h, if_pos h']
      exact loop1_run E a r g hfn hok hix
    · have h' : ¬ ([a] = [fkind E.recv.ty] ∧ r ∈ resTys) := fun e => h ⟨by simpa using e.1, e.2⟩
      rw [if_neg h, if_neg h']
      rfl
  | str s =>
    simp only [LVal.sig, case1]
    cases hasBuiltins E.recv.ty
    · simp [canon1, LBody.run]
    · by_cases hs : s = strBytes "ToUpper"
      · subst hs; simp [LBody.run, hfn]
      · have hs' : ¬ (strBytes "ToUpper" = s) := fun e => hs e.symm
        simp [LBody.run, hfn, hs, hs', canon1]
  | fn0 r next => simp [LVal.sig, case1, canon1, LBody.run]
  | fn2 a b r g => simp [LVal.sig, case1, canon1, LBody.run]
  | aggFn a r g => simp [LVal.sig, case1, canon1, LBody.run]
  | const c => simp [LVal.sig, case1, canon1, LBody.run]
  | named n => simp [LVal.sig, case1, canon1, LBody.run]
  | other => simp [LVal.sig, case1, canon1, LBody.run]

/-! ## Apply2 -/

theorem body2 {σ : Type} (E : LEnv σ) (a b r : CType) (g : Cell → Cell → Cell) (hfn : E.fn = .fn2 a b r g) (acc : LAcc)
    (hty : E.other.ty = E.recv.ty) (pos row : Nat) (res : List Cell) (s : σ) (x y x' y' : Cell)
    (hx : E.recv.cells[row]? = some x) (hy : E.other.cells[row]? = some y)
    (hax : acc.eval E.recv.ty E.recv.vals x = some x') (hay : acc.eval E.other.ty E.other.vals y = some y')
    (hr : row < res.length) :
    lRunBody E pos row [.store .row (.call [.cell .recv .row acc, .cell .other .row acc])] res s =
      .ok (res.set row (g x' y'), s) := by
  rw [hty] at hay
  simp [lRunBody, LRhs.eval, hfn, LArg.eval, LEnv.col, LIdx.of, hx, hy, hax, hay, hr, hty]

theorem loop2_run {σ : Type} (E : LEnv σ) (a b r : CType) (g : Cell → Cell → Cell) (hfn : E.fn = .fn2 a b r g) (ret : LRet)
    (hok : ColOk E.recv) (hok2 : ColOk E.other) (hty : E.other.ty = E.recv.ty)
    (hlen : E.other.cells.length = E.recv.cells.length) (hix : ∀ p ∈ E.ix, p < E.recv.cells.length) :
    (loop2 E.recv.ty ret).run E =
      .arr ret (fkind E.recv.ty) (rowsOf E.recv.cells.length E.ix (zeroCell (fkind E.recv.ty))
        (fun p => g (E.recv.cells[p]!) (E.other.cells[p]!))) E.s0 := by
  have h := runLoop_pure E [.store .row (.call [.cell .recv .row (accOf E.recv.ty), .cell .other .row (accOf E.recv.ty)])]
    (fun p => g (E.recv.cells[p]!) (E.other.cells[p]!))
    E.recv.cells.length E.ix 0 (List.replicate E.recv.cells.length (zeroCell (fkind E.recv.ty))) E.s0 (by simp) (by
      intro pos row res s hr hl
      obtain ⟨hx, hc⟩ := hok.get (hix row hr)
      obtain ⟨hy, hd⟩ := hok2.get (by rw [hlen]; exact hix row hr)
      have e2 := accOf_eval _ hok2.1 _ _ hd
      rw [hty] at e2
      exact body2 E a b r g hfn _ hty pos row res s _ _ _ _ hx hy (accOf_eval _ hok.1 _ _ hc) (by rw [hty]; exact e2)
        (by rw [hl]; exact hix row hr))
  simp only [loop2, LBody.run, LLen.eval, h, writeLoop_replicate, rowsOf]

/-- where the result of `Apply2` goes: a column of the receiver's package; for an enum column a string column -/
def ret2 (ty : CType) : LRet := if ty = .enum then .strCol else .ownCol

/-- What `Apply2` must do: the second column must be of the receiver's package; the function a two-argument function on
the column's element type with the same result type; everything else is an error. -/
def expect2 {σ : Type} (E : LEnv σ) : LOutcome σ :=
  if E.other.ty = E.recv.ty then
    match E.fn with
    | .fn2 a b r g =>
      if a = fkind E.recv.ty ∧ b = fkind E.recv.ty ∧ r = fkind E.recv.ty then
        .arr (ret2 E.recv.ty) (fkind E.recv.ty) (rowsOf E.recv.cells.length E.ix (zeroCell (fkind E.recv.ty))
          (fun p => g (E.recv.cells[p]!) (E.other.cells[p]!))) E.s0
      else .err
    | _ => .err
  else .err

def case2 (ty : CType) : LSig → Option LBody
  | .fn as r => if as = [fkind ty, fkind ty] ∧ r = fkind ty then some (loop2 ty (ret2 ty)) else none
  | .str => if hasBuiltins ty = true then some .err else none
  | _ => none

theorem find2 (ty : CType) (sig : LSig) :
    ((canon2 ty).cases.find? (fun c => c.1 == sig)).map (·.2) = case2 ty sig := by
  have hne : ∀ sig : LSig, (∀ as r, sig ≠ .fn as r) → (LSig.fn [fkind ty, fkind ty] (fkind ty) == sig) = false := by
    intro sig h; simpa using fun e => h _ _ e.symm
  simp only [canon2, List.find?_cons]
  cases sig with
  | fn as r =>
    by_cases h : as = [fkind ty, fkind ty] ∧ r = fkind ty
    · obtain ⟨rfl, rfl⟩ := h
      simp [case2, ret2]
    · have h' : (LSig.fn [fkind ty, fkind ty] (fkind ty) == LSig.fn as r) = false := by
        simpa using fun e1 e2 => h ⟨e1.symm, e2.symm⟩
      rw [h']
      cases hasBuiltins ty <;> simp [case2, h]
  | str => rw [hne _ (by intro as r; simp)]; cases hb : hasBuiltins ty <;> simp [case2, hb]
  | aggFn a r => rw [hne _ (by intro as r; simp)]; cases hasBuiltins ty <;> simp [case2]
  | const c => rw [hne _ (by intro as r; simp)]; cases hasBuiltins ty <;> simp [case2]
  | named => rw [hne _ (by intro as r; simp)]; cases hasBuiltins ty <;> simp [case2]
  | other t => rw [hne _ (by intro as r; simp)]; cases hasBuiltins ty <;> simp [case2]

theorem canon2_run {σ : Type} (E : LEnv σ) (hok : ColOk E.recv) (hok2 : ColOk E.other)
    (hlen : E.other.cells.length = E.recv.cells.length) (hix : ∀ p ∈ E.ix, p < E.recv.cells.length) :
    (canon2 E.recv.ty).run E = expect2 E := by
  unfold expect2
  by_cases hty : E.other.ty = E.recv.ty
  · have hsw : (canon2 E.recv.ty).run E = (canon2 E.recv.ty).switch E := by
      simp [LFn.run, canon2, hty]
    rw [hsw, switch_eq, find2, if_pos hty]
    cases hfn : E.fn with
    | fn2 a b r g =>
      simp only [LVal.sig, case2]
      by_cases h : a = fkind E.recv.ty ∧ b = fkind E.recv.ty ∧ r = fkind E.recv.ty
      · have h' : [a, b] = [fkind E.recv.ty, fkind E.recv.ty] ∧ r = fkind E.recv.ty := ⟨by rw [h.1, h.2.1], h.2.2⟩
        rw [if_pos h, if_pos h']
        exact loop2_run E a b r g hfn _ hok hok2 hty hlen hix
      · have h' : ¬ ([a, b] = [fkind E.recv.ty, fkind E.recv.ty] ∧ r = fkind E.recv.ty) := by
          intro e; apply h; simp at e; exact ⟨e.1.1, e.1.2, e.2⟩
        rw [if_neg h, if_neg h']
        rfl
    | str s => cases hb : hasBuiltins E.recv.ty <;> simp [LVal.sig, case2, canon2, LBody.run, hb]
    | fn0 r next => simp [LVal.sig, case2, canon2, LBody.run]
    | fn1 a r g => simp [LVal.sig, case2, canon2, LBody.run]
    | aggFn a r g => simp [LVal.sig, case2, canon2, LBody.run]
    | const c => simp [LVal.sig, case2, canon2, LBody.run]
    | named n => simp [LVal.sig, case2, canon2, LBody.run]
    | other => simp [LVal.sig, case2, canon2, LBody.run]
  · simp [LFn.run, canon2, hty, LBody.run]

/-! ## apply0: constants and zero-argument functions with state -/

section stateful
variable {σ : Type}

/-- the `k`-th value (from 0) a closure with transition `next` produces from state `s` -/
def nthVal (next : σ → Cell × σ) : σ → Nat → Cell
  | s, 0 => (next s).1
  | s, k + 1 => nthVal next (next s).2 k

/-- the closure's state after `n` calls -/
def iterState (next : σ → Cell × σ) : σ → Nat → σ
  | s, 0 => s
  | s, n + 1 => iterState next (next s).2 n

/-- `for _, i := range ix { res[i] = t() }` -/
def fillLoop (next : σ → Cell × σ) : σ → List Nat → List Cell → List Cell × σ
  | s, [], res => (res, s)
  | s, i :: ix, res => fillLoop next (next s).2 ix (res.set i (next s).1)

theorem fillLoop_state (next : σ → Cell × σ) (s : σ) (ix : List Nat) (res : List Cell) :
    (fillLoop next s ix res).2 = iterState next s ix.length := by
  induction ix generalizing s res with
  | nil => rfl
  | cons i ix ih => simp only [fillLoop, ih, List.length_cons, iterState]

/-- closed form of the stateful loop on a duplicate-free index: the row at position `k` of the index holds the `k`-th
value, every other row is untouched -/
theorem fillLoop_getElem? (next : σ → Cell × σ) (s : σ) (ix : List Nat) (res : List Cell) (nd : ix.Nodup) (p : Nat) :
    (fillLoop next s ix res).1[p]? =
      match ix.idxOf? p with
      | some k => if p < res.length then some (nthVal next s k) else none
      | none => res[p]? := by
  induction ix generalizing s res with
  | nil => simp [fillLoop, List.idxOf?]
  | cons i ix ih =>
    have ndc := List.nodup_cons.mp nd
    rw [fillLoop, ih _ _ ndc.2, List.idxOf?_cons]
    by_cases hpi : i = p
    · subst hpi
      have hn : ix.idxOf? i = none := by
        simp only [List.idxOf?, List.findIdx?_eq_none_iff]
        intro x hx
        have hne : x ≠ i := fun e => ndc.1 (e ▸ hx)
        simpa using hne
      simp only [hn, beq_self_eq_true, ↓reduceIte, List.getElem?_set_self']
      by_cases hl : i < res.length
      · simp [hl, nthVal]
      · simp [hl]
    · have hb : (i == p) = false := by simpa using hpi
      simp only [hb, Bool.false_eq_true, ↓reduceIte, List.length_set]
      cases ix.idxOf? p with
      | none => simp [List.getElem?_set_ne hpi]
      | some k => simp [nthVal]

theorem fillLoop_replicate (next : σ → Cell × σ) (s : σ) (ix : List Nat) (nd : ix.Nodup) (L : Nat) (z : Cell) :
    (fillLoop next s ix (List.replicate L z)).1 =
      (List.range L).map (fun p => match ix.idxOf? p with | some k => nthVal next s k | none => z) := by
  apply List.ext_getElem?
  intro p
  rw [fillLoop_getElem? next s ix _ nd, List.getElem?_map, List.length_replicate, List.getElem?_replicate]
  by_cases hp : p < L
  · rw [List.getElem?_range hp]
    simp only [Option.map_some]
    cases ix.idxOf? p <;> simp [hp]
  · rw [List.getElem?_eq_none (by simpa using hp)]
    cases ix.idxOf? p <;> simp [hp]

theorem runLoop_fill (E : LEnv σ) (r : CType) (next : σ → Cell × σ) (hfn : E.fn = .fn0 r next) :
    ∀ (ix : List Nat) (pos : Nat) (res : List Cell) (s : σ), (∀ p ∈ ix, p < res.length) →
      lRunLoop E [.store .row (.call [])] pos ix res s = .ok (fillLoop next s ix res) := by
  intro ix
  induction ix with
  | nil => intro pos res s _; rfl
  | cons i ix ih =>
    intro pos res s h
    have hi : i < res.length := h i List.mem_cons_self
    simp only [lRunLoop, lRunBody, LRhs.eval, hfn, LIdx.of, hi, ↓reduceIte, fillLoop]
    exact ih (pos + 1) _ _ (fun p hp => by rw [List.length_set]; exact h p (List.mem_cons_of_mem _ hp))

end stateful

/-- the rows of the result of the stateful loop -/
def rowsOf0 {σ : Type} (L : Nat) (ix : List Nat) (z : Cell) (next : σ → Cell × σ) (s : σ) : List Cell :=
  (List.range L).map (fun p => match ix.idxOf? p with | some k => nthVal next s k | none => z)

/-- What `apply0` must do after its guard: a zero-argument function of one of the four result types is called once per
entry of the index, in index order, the `k`-th value stored at row `ix[k]`; an `int`, `float64`, `bool`, `*string` or
`string` constant is stored at every row of the index (a `string` as a non-nil pointer); a `types.ColumnName` is handed to
`Copy`; everything else is an error. The array has the length of the first column and holds the zero value elsewhere. -/
def expect0 {σ : Type} (E : LEnv σ) : LOutcome σ :=
  match E.fn with
  | .fn0 r next =>
    if r ∈ resTys then
      .arr .create r (rowsOf0 E.firstColLen E.ix (zeroCell r) next E.s0) (iterState next E.s0 E.ix.length)
    else .err
  | .const c => .arr .create (cellType c) (rowsOf E.firstColLen E.ix (zeroCell (cellType c)) (fun _ => c)) E.s0
  | .str s => .arr .create .string (rowsOf E.firstColLen E.ix (.str none) (fun _ => .str (some s))) E.s0
  | .named n => .copy n
  | _ => .err

def case0 : LSig → Option LBody
  | .fn [] r => if r ∈ resTys then some (loop0 r (.call [])) else none
  | .const r => if r ∈ resTys then some (loop0 r .fnValue) else none
  | .str => some (loop0 .string .addrFnValue)
  | .named => some .copyCol
  | _ => none

theorem find0 (sig : LSig) : (canon0.cases.find? (fun c => c.1 == sig)).map (·.2) = case0 sig := by
  cases sig with
  | fn as r =>
    cases as with
    | nil => cases r <;> simp [canon0, resTys, case0]
    | cons a as => simp [canon0, resTys, case0]
  | const r => cases r <;> simp [canon0, resTys, case0]
  | str => simp [canon0, resTys, case0]
  | named => simp [canon0, resTys, case0]
  | aggFn a r => simp [canon0, resTys, case0]
  | other t => simp [canon0, resTys, case0]

theorem cellType_mem (c : Cell) : cellType c ∈ resTys := by cases c <;> simp [cellType, resTys]

theorem loop0_pure {σ : Type} (E : LEnv σ) (r : CType) (rhs : LRhs) (v : Cell)
    (hv : ∀ pos row (s : σ), rhs.eval E pos row s = .ok (v, s)) (hix : ∀ p ∈ E.ix, p < E.firstColLen) :
    (loop0 r rhs).run E = .arr .create r (rowsOf E.firstColLen E.ix (zeroCell r) (fun _ => v)) E.s0 := by
  have h := runLoop_pure E [.store .row rhs] (fun _ => v) E.firstColLen E.ix 0
    (List.replicate E.firstColLen (zeroCell r)) E.s0 (by simp) (by
      intro pos row res s hr hl
      have hrl : row < res.length := by rw [hl]; exact hix row hr
      simp [lRunBody, hv, LIdx.of, hrl])
  simp only [loop0, LBody.run, LLen.eval, h, writeLoop_replicate, rowsOf]

theorem canon0_run {σ : Type} (E : LEnv σ) (hix : ∀ p ∈ E.ix, p < E.firstColLen) (nd : E.ix.Nodup) :
    canon0.run E = expect0 E := by
  have hsw : canon0.run E = canon0.switch E := rfl
  rw [hsw, switch_eq, find0]
  unfold expect0
  cases hfn : E.fn with
  | fn0 r next =>
    simp only [LVal.sig, case0]
    by_cases h : r ∈ resTys
    · rw [if_pos h, if_pos h]
      simp only [Option.getD_some, loop0, LBody.run, LLen.eval]
      rw [runLoop_fill E r next hfn E.ix 0 _ E.s0 (by simpa using hix)]
      simp only [fillLoop_state, fillLoop_replicate next E.s0 E.ix nd, rowsOf0]
    · rw [if_neg h, if_neg h]; rfl
  | const c =>
    simp only [LVal.sig, case0, cellType_mem, ↓reduceIte, Option.getD_some]
    exact loop0_pure E _ _ c (by intro pos row s; simp [LRhs.eval, hfn]) hix
  | str s =>
    simp only [LVal.sig, case0, Option.getD_some]
    exact loop0_pure E _ _ (.str (some s)) (by intro pos row s'; simp [LRhs.eval, hfn]) hix
  | named n => simp [LVal.sig, case0, LBody.run, hfn]
  | fn1 a r g => simp [LVal.sig, case0, canon0, LBody.run]
  | fn2 a b r g => simp [LVal.sig, case0, canon0, LBody.run]
  | aggFn a r g => simp [LVal.sig, case0, canon0, LBody.run]
  | other => simp [LVal.sig, case0, canon0, LBody.run]

/-! ## The frame whose index is `ix0` -/

/-- what a user sees of an array of physical cells through the index `ix0` of the frame: row `r` is `cells[ix0[r]]` -/
def observe (ix0 : List Nat) (cells : List Cell) : Array Cell := (ix0.map (fun p => cells[p]!)).toArray

/-- the logical column `c` is the physical column `P` seen through `ix0` -/
structure Sees (ix0 : List Nat) (P : PCol) (c : LCol) : Prop where
  ty : c.ty = P.ty
  vals : c.vals = P.vals
  cells : c.cells = observe ix0 P.cells

theorem observe_get (ix0 : List Nat) (cells : List Cell) (r : Nat) (hr : r < ix0.length) :
    (observe ix0 cells)[r]! = cells[ix0[r]!]! := by
  simp [observe, hr]

theorem rowsOf_get (L : Nat) (ix : List Nat) (z : Cell) (G : Nat → Cell) (p : Nat) (hp : p < L) :
    (rowsOf L ix z G)[p]! = if p ∈ ix then G p else z := by
  simp [rowsOf, hp]

theorem rowsOf0_get {σ : Type} (L : Nat) (ix : List Nat) (z : Cell) (next : σ → Cell × σ) (s : σ) (p : Nat) (hp : p < L) :
    (rowsOf0 L ix z next s)[p]! = match ix.idxOf? p with | some k => nthVal next s k | none => z := by
  simp [rowsOf0, hp]

/-- **The result array seen through the frame's index is the column the spec builds**: row `r` holds `G` of its physical
row if that row is in the loop's index, the zero value otherwise. -/
theorem observe_rowsOf (ix0 ix : List Nat) (L : Nat) (z : Cell) (G : Nat → Cell) (h0 : ∀ p ∈ ix0, p < L)
    (mask : Nat → Bool) (hm : ∀ r, r < ix0.length → mask r = decide (ix0[r]! ∈ ix)) (H : Nat → Cell)
    (hH : ∀ r, r < ix0.length → H r = G (ix0[r]!)) :
    observe ix0 (rowsOf L ix z G) = ((List.range ix0.length).map (fun r => if mask r then H r else z)).toArray := by
  unfold observe
  congr 1
  apply List.ext_getElem
  · simp
  · intro r h1 h2
    have hr : r < ix0.length := by simpa using h1
    have hp : ix0[r] < L := h0 _ (List.getElem_mem hr)
    have e : ix0[r]! = ix0[r] := by simp [hr]
    simp only [List.getElem_map, List.getElem_range, rowsOf_get L ix z G _ hp, hm r hr, hH r hr, e]
    by_cases hmem : ix0[r] ∈ ix <;> simp [hmem]

/-! ## The function value the harness and the spec mean by an `Fn` -/

/-- The Go value of the function field of an instruction (the catalogue of QF/Spec/Ops.lean is defined identically in the
harness). The state of a zero-argument function is an integer counter. A `*string` constant is `.const (.str p)`; a Go
`string` is `Fn.builtin` when there is a source column and the constant `.const (.str (some s))` when there is none
(`gen_apply0_string_const`). -/
def goVal : Fn → LVal Int
  | .const c => .const c
  | .colCopy n => .named n
  | .f0 kind seed =>
    if kind = "f0r" then .fn0 .int (fun k => (.int ((seed * 7919 + k * 104729) % 1000003), k + 1))
    else match f0Cell kind 0 with
      | some z => .fn0 (cellType z) (fun i => ((f0Cell kind i).getD z, i + 1))
      | none => .other
  | .f1 id => match fn1 id with | some (src, rt, g) => .fn1 src rt g | none => .other
  | .f2 id => match fn2 id with | some (src, g) => .fn2 src src src g | none => .other
  | .builtin n => .str n
  | .bad => .other

/-- the initial state of the counter -/
def goState : Fn → Int
  | .f0 kind start => if kind = "f0r" then 0 else start
  | _ => 0

/-- Where the result array goes, read back through the frame's index `ix0`: `Apply1`'s slice becomes a column of the
package `QFrame.apply1` picks for its element type (`w`), `Apply2` returns a column itself, `apply0` hands the slice to
`createColumn` with an empty configuration; then `setColumn(dst, ·)`, which rejects an illegal destination name.
`none`: the work is done elsewhere (a built-in function, `Copy`), or the run has no result. -/
def toRes {σ : Type} (w : LWrap) (sets2 : Bool) (f : LFrame) (dst : Bytes) (ix0 : List Nat) (recvTy : CType) :
    LOutcome σ → Option Res
  | .err => some .err
  | .arr ret ty cells _ =>
    -- the type of the new column, and whether it is handed to `setColumn(dst, ·)`
    let col : Option (CType × Bool) :=
      match ret with
      | .slice => (w.slices.lookup ty).map (fun t => (t, w.setsDst))
      | .ownCol => some (recvTy, sets2)
      | .strCol => some (.string, sets2)
      | .create => some (ty, true)
      | .opaque _ => none
    col.map (fun t =>
      if t.2 && legalName dst then .ok (setCol f { name := dst, ty := t.1, cells := observe ix0 cells }) else .err)
  | _ => none

/-- `apply2` ends in `return qf.setColumn(dst, <the column Apply2 returned>)` (QF/Gen/Guards.lean, regenerated by gast.go) -/
def apply2Sets : Bool := decide (("apply2", "set") ∈ Gen.openTails2)

/-- the call goes to the built-in `ToUpper` of a string or enum column -/
def isUpperCall : Fn → CType → Bool
  | .builtin n, ty => n == strBytes "ToUpper" && hasBuiltins ty
  | _, _ => false

theorem fn1_rt_mem {id : String} {src rt : CType} {g : Cell → Cell} (h : fn1 id = some (src, rt, g)) : rt ∈ resTys := by
  unfold fn1 at h
  split at h <;> first | (simp at h; obtain ⟨_, rfl, _⟩ := h; decide) | (simp at h)

theorem wrap_lookup (r : CType) (h : r ∈ resTys) : Gen.apply1WrapAst.slices.lookup r = some r := by
  rw [gen_apply1_wrap_canon]
  simp only [resTys, List.mem_cons, List.not_mem_nil, or_false] at h
  rcases h with rfl | rfl | rfl | rfl <;> rfl

/-- the environment of `Apply1` / `Apply2` / `apply0` on a frame whose columns have `L` physical rows -/
def envOf (P Q : PCol) (ix : List Nat) (L : Nat) (fn : Fn) : LEnv Int :=
  { recv := P, other := Q, ix := ix, firstColLen := L, fn := goVal fn, s0 := goState fn }

/-- **Apply1, for the frame whose index is `ix0`** (`ix` = the index the loop runs over: `ix0` for `Apply`, the filtered
index for `FilteredApply`; `mask` = which rows of the frame it selects). For every column type, every function value and
ALL well-typed column contents: today's `Column.Apply1` followed by today's `apply1` returns exactly the frame
`applyInstr` specifies — the function on the cell of every selected row, the zero value of the result type on the others,
an error for every function value the column type does not accept — except that the built-in `"ToUpper"` of a string or
enum column is handed, with (ix, column), to the function whose body is hashed as `<pkg>.toUpper` in `Gen.hashes`. -/
theorem gen_apply1_semantics (up : UpperOracle) (f : LFrame) (ix0 ix : List Nat) (mask : Nat → Bool) (P : PCol) (c : LCol)
    (dst s1 : Bytes) (fn : Fn) (hn : f.n = ix0.length) (hc : f.find? s1 = some c) (hs : Sees ix0 P c) (hok : ColOk P)
    (h0 : ∀ p ∈ ix0, p < P.cells.length) (hix : ∀ p ∈ ix, p < P.cells.length)
    (hm : ∀ r, r < ix0.length → mask r = decide (ix0[r]! ∈ ix)) :
    (isUpperCall fn P.ty = true → (apply1Of P.ty).run (envOf P P ix P.cells.length fn) = .builtin (upperHash P.ty)) ∧
    (isUpperCall fn P.ty = false →
      toRes Gen.apply1WrapAst apply2Sets f dst ix0 P.ty ((apply1Of P.ty).run (envOf P P ix P.cells.length fn)) =
        some (applyInstr up f mask { dst := dst, src1 := some s1, src2 := none, fn := fn })) := by
  have hrun := canon1_run (envOf P P ix P.cells.length fn) hok hix
  rw [gen_apply1_canon P.ty hok.1]
  have hr : (envOf P P ix P.cells.length fn).recv = P := rfl
  rw [hr] at hrun
  rw [hrun]
  have hsets : Gen.apply1WrapAst.setsDst = true := by rw [gen_apply1_wrap_canon]; rfl
  constructor
  · intro hu
    cases fn with
    | builtin n =>
      simp only [isUpperCall, Bool.and_eq_true, beq_iff_eq] at hu
      simp [expect1, envOf, goVal, hu.1, hu.2]
    | _ => simp [isUpperCall] at hu
  · intro hu
    cases fn with
    | f1 id =>
      cases hid : fn1 id with
      | none => simp [expect1, envOf, goVal, hid, toRes, applyInstr, hc]
      | some t =>
        obtain ⟨src, rt, g⟩ := t
        have hrt := fn1_rt_mem hid
        by_cases hsrc : src = fkind P.ty
        · subst hsrc
          have hb : (fkind c.ty == fkind P.ty) = true := by rw [hs.ty]; simp
          simp only [expect1, envOf, goVal, hid, hrt, and_self, ↓reduceIte, toRes, wrap_lookup rt hrt,
            Option.map_some, hsets, Bool.true_and, applyInstr, hc, hb]
          rw [observe_rowsOf ix0 ix P.cells.length (zeroCell rt) (fun p => g (P.cells[p]!)) h0 mask hm (fun r => g c.cells[r]!)
            (by intro r hr; rw [hs.cells, observe_get _ _ _ hr]), hn]
        · have hb : (fkind c.ty == src) = false := by rw [hs.ty]; simpa using fun e => hsrc e.symm
          simp [expect1, envOf, goVal, hid, hsrc, toRes, applyInstr, hc, hb]
    | builtin n =>
      simp only [isUpperCall, Bool.and_eq_false_iff] at hu
      have e1 : ¬ (hasBuiltins P.ty = true ∧ n = strBytes "ToUpper") := by
        rintro ⟨a, b⟩
        rcases hu with hu | hu
        · simp [b] at hu
        · simp [a] at hu
      have e2 : (n == strBytes "ToUpper" && c.ty == .enum) = false := by
        rw [hs.ty]
        by_cases hn' : n = strBytes "ToUpper"
        · have : hasBuiltins P.ty = false := by simpa [hn'] using fun a => e1 ⟨a, hn'⟩
          cases hp : P.ty <;> simp_all [hasBuiltins]
        · simp [hn']
      have e3 : (n == strBytes "ToUpper" && c.ty == .string) = false := by
        rw [hs.ty]
        by_cases hn' : n = strBytes "ToUpper"
        · have : hasBuiltins P.ty = false := by simpa [hn'] using fun a => e1 ⟨a, hn'⟩
          cases hp : P.ty <;> simp_all [hasBuiltins]
        · simp [hn']
      simp [expect1, envOf, goVal, e1, toRes, applyInstr, hc, e2, e3]
    | const k => simp [expect1, envOf, goVal, toRes, applyInstr, hc]
    | colCopy k => simp [expect1, envOf, goVal, toRes, applyInstr, hc]
    | bad => simp [expect1, envOf, goVal, toRes, applyInstr, hc]
    | f2 id => cases hid : fn2 id <;> simp [expect1, envOf, goVal, hid, toRes, applyInstr, hc]
    | f0 kind start =>
      simp only [applyInstr, hc]
      unfold expect1 envOf goVal
      simp only
      by_cases hk : kind = "f0r"
      · simp [hk, toRes]
      · cases hz : f0Cell kind 0 <;> simp [hk, toRes]

/-! ## Apply2 -/

theorem apply2Sets_true : apply2Sets = true := by decide

theorem fn2_src_mem {id : String} {src : CType} {g : Cell → Cell → Cell} (h : fn2 id = some (src, g)) : src ∈ resTys := by
  unfold fn2 at h
  split at h <;> first | (simp at h; obtain ⟨rfl, _⟩ := h; decide) | (simp at h)

/-- **Apply2, for the frame whose index is `ix0`**: for every pair of column types, every function value and ALL
well-typed contents of the two columns: today's `Column.Apply2` followed by `setColumn` returns exactly the frame
`applyInstr` specifies — at every selected row the function on the two cells of the SAME physical row, the zero value
elsewhere; an error when the second column is of another package, or the function is not `func(T, T) T` for the element
type `T` of the columns. -/
theorem gen_apply2_semantics (up : UpperOracle) (f : LFrame) (ix0 ix : List Nat) (mask : Nat → Bool) (P Q : PCol)
    (c1 c2 : LCol) (dst s1 s2 : Bytes) (fn : Fn) (hn : f.n = ix0.length)
    (hc1 : f.find? s1 = some c1) (hc2 : f.find? s2 = some c2) (hs1 : Sees ix0 P c1) (hs2 : Sees ix0 Q c2)
    (hok : ColOk P) (hok2 : ColOk Q) (hlen : Q.cells.length = P.cells.length)
    (h0 : ∀ p ∈ ix0, p < P.cells.length) (hix : ∀ p ∈ ix, p < P.cells.length)
    (hm : ∀ r, r < ix0.length → mask r = decide (ix0[r]! ∈ ix)) :
    toRes Gen.apply1WrapAst apply2Sets f dst ix0 P.ty ((apply2Of P.ty).run (envOf P Q ix P.cells.length fn)) =
      some (applyInstr up f mask { dst := dst, src1 := some s1, src2 := some s2, fn := fn }) := by
  have hrun := canon2_run (envOf P Q ix P.cells.length fn) hok hok2 hlen hix
  rw [gen_apply2_canon P.ty hok.1]
  have hr : (envOf P Q ix P.cells.length fn).recv = P := rfl
  rw [hr] at hrun
  rw [hrun]
  have hcol : (match ret2 P.ty with
      | .slice => (Gen.apply1WrapAst.slices.lookup (fkind P.ty)).map (fun t => (t, Gen.apply1WrapAst.setsDst))
      | .ownCol => some (P.ty, apply2Sets)
      | .strCol => some (CType.string, apply2Sets)
      | .create => some (fkind P.ty, true)
      | .opaque _ => none) = some (fkind P.ty, true) := by
    have := hok.1
    rw [apply2Sets_true]
    cases hp : P.ty <;> simp [hp, tys] at this <;> simp [ret2, fkind]
  by_cases hty : Q.ty = P.ty
  · have hb1 : (c1.ty == c2.ty) = true := by rw [hs1.ty, hs2.ty, hty]; simp
    cases fn with
    | f2 id =>
      cases hid : fn2 id with
      | none => simp [expect2, envOf, goVal, hid, toRes, applyInstr, hc1, hc2, hty]
      | some t =>
        obtain ⟨src, g⟩ := t
        by_cases hsrc : src = fkind P.ty
        · subst hsrc
          have hb : (fkind c1.ty == fkind P.ty) = true := by rw [hs1.ty]; simp
          simp only [expect2, envOf, goVal, hid, hty, and_self, ↓reduceIte, toRes, hcol, Option.map_some,
            Bool.true_and, applyInstr, hc1, hc2, hb1, hb]
          rw [observe_rowsOf ix0 ix P.cells.length (zeroCell (fkind P.ty)) (fun p => g (P.cells[p]!) (Q.cells[p]!)) h0 mask hm
            (fun r => g c1.cells[r]! c2.cells[r]!)
            (by intro r hr; rw [hs1.cells, hs2.cells, observe_get _ _ _ hr, observe_get _ _ _ hr]), hn]
        · have hb : (fkind c1.ty == src) = false := by rw [hs1.ty]; simpa using fun e => hsrc e.symm
          simp [expect2, envOf, goVal, hid, hsrc, toRes, applyInstr, hc1, hc2, hb, hty]
    | f1 id => cases hid : fn1 id <;> simp [expect2, envOf, goVal, hid, toRes, applyInstr, hc1, hc2, hty]
    | const k => simp [expect2, envOf, goVal, toRes, applyInstr, hc1, hc2, hty]
    | colCopy k => simp [expect2, envOf, goVal, toRes, applyInstr, hc1, hc2, hty]
    | bad => simp [expect2, envOf, goVal, toRes, applyInstr, hc1, hc2, hty]
    | builtin n => simp [expect2, envOf, goVal, toRes, applyInstr, hc1, hc2, hty]
    | f0 kind start =>
      simp only [applyInstr, hc1, hc2]
      unfold expect2 envOf goVal
      simp only [hty, ↓reduceIte]
      by_cases hk : kind = "f0r"
      · simp [hk, toRes]
      · cases hz : f0Cell kind 0 <;> simp [hk, toRes]
  · have hb1 : (c1.ty == c2.ty) = false := by
      rw [hs1.ty, hs2.ty]; simpa using fun e => hty e.symm
    have he : expect2 (envOf P Q ix P.cells.length fn) = .err := by simp [expect2, envOf, hty]
    rw [he]
    cases fn with
    | f2 id => cases hid : fn2 id <;> simp [toRes, applyInstr, hc1, hc2, hb1, hid]
    | _ => simp [toRes, applyInstr, hc1, hc2]

/-! ## apply0 -/

theorem idxOf?_map_inj (f : Nat → Nat) (l : List Nat) (a : Nat) (h : ∀ x ∈ l, f x = f a → x = a) :
    (l.map f).idxOf? (f a) = l.idxOf? a := by
  induction l with
  | nil => rfl
  | cons x xs ih =>
    rw [List.map_cons, List.idxOf?_cons, List.idxOf?_cons, ih (fun y hy => h y (List.mem_cons_of_mem _ hy))]
    by_cases e : x = a
    · subst e; simp
    · have e' : ¬ f x = f a := fun q => e (h x List.mem_cons_self q)
      simp [e, e']

theorem map_getElem_range (l : List Nat) : (List.range l.length).map (fun r => l[r]!) = l := by
  apply List.ext_getElem?
  intro i
  rw [List.getElem?_map]
  by_cases hi : i < l.length
  · rw [List.getElem?_range hi]; simp [hi]
  · rw [List.getElem?_eq_none (by simpa using hi), List.getElem?_eq_none (by simpa using hi)]; rfl

/-- the rows the filter keeps, as physical rows: the filtered index -/
theorem filter_index (ix0 : List Nat) (keep : Nat → Bool) :
    ix0.filter keep = ((List.range ix0.length).filter (fun r => keep (ix0[r]!))).map (fun r => ix0[r]!) := by
  have := @List.filter_map Nat Nat (fun r => ix0[r]!) keep (List.range ix0.length)
  rw [map_getElem_range] at this
  exact this

/-- **position in the filtered index = position among the selected rows** -/
theorem idxOf?_filter_index (ix0 : List Nat) (nd : ix0.Nodup) (keep : Nat → Bool) (mask : Nat → Bool)
    (hm : ∀ r, r < ix0.length → mask r = keep (ix0[r]!)) (r : Nat) (hr : r < ix0.length) :
    (ix0.filter keep).idxOf? (ix0[r]!) = ((List.range ix0.length).filter mask).idxOf? r := by
  have hsel : (List.range ix0.length).filter mask = (List.range ix0.length).filter (fun r => keep (ix0[r]!)) :=
    List.filter_congr (fun x hx => hm x (List.mem_range.mp hx))
  rw [filter_index, hsel]
  apply idxOf?_map_inj (fun r => ix0[r]!)
  intro x hx e
  have hxl : x < ix0.length := List.mem_range.mp (List.mem_filter.mp hx).1
  have e' : ix0[x] = ix0[r] := by simpa [hxl, hr] using e
  exact (List.getElem_inj nd).mp e'

theorem observe_rowsOf0 {σ : Type} (ix0 : List Nat) (keep : Nat → Bool) (L : Nat) (z : Cell) (next : σ → Cell × σ) (s : σ)
    (h0 : ∀ p ∈ ix0, p < L) (nd : ix0.Nodup) (mask : Nat → Bool) (hm : ∀ r, r < ix0.length → mask r = keep (ix0[r]!)) :
    observe ix0 (rowsOf0 L (ix0.filter keep) z next s) =
      ((List.range ix0.length).map (fun r =>
        match ((List.range ix0.length).filter mask).idxOf? r with
        | some k => nthVal next s k
        | none => z)).toArray := by
  unfold observe
  congr 1
  apply List.ext_getElem
  · simp
  · intro r h1 h2
    have hr : r < ix0.length := by simpa using h1
    have hp : ix0[r] < L := h0 _ (List.getElem_mem hr)
    have e : ix0[r]! = ix0[r] := by simp [hr]
    simp only [List.getElem_map, List.getElem_range, rowsOf0_get L _ z next s _ hp]
    rw [← e, idxOf?_filter_index ix0 nd keep mask hm r hr]

/-- a counting closure: `i := s - 1; func() T { i++; return val(i) }` -/
theorem nthVal_counter (val : Int → Cell) (s : Int) (k : Nat) :
    nthVal (fun i => (val i, i + 1)) s k = val (s + k) := by
  induction k generalizing s with
  | zero => simp [nthVal]
  | succ k ih =>
    simp only [nthVal, ih]
    congr 1
    omega

theorem mem_filter_index (ix0 : List Nat) (keep mask : Nat → Bool) (hm : ∀ r, r < ix0.length → mask r = keep (ix0[r]!))
    (r : Nat) (hr : r < ix0.length) : mask r = decide (ix0[r]! ∈ ix0.filter keep) := by
  rw [hm r hr]
  have e : ix0[r]! = ix0[r] := by simp [hr]
  rw [e]
  simp [List.mem_filter, List.getElem_mem]

/-- a placeholder for the column roles `apply0` does not have -/
def noCol : PCol := { ty := .undef, cells := [] }

/-- **apply0, for the frame whose index is `ix0`** and whose columns have `L` physical rows (`keep` = the rows the filter
of `FilteredApply` keeps, all of them for `Apply`; `mask` = the same as rows of the frame). For every function value:
today's `apply0` (after its guard) returns exactly the frame `applyInstr` specifies — a constant at every selected row; the
`k`-th value a zero-argument function produces at the `k`-th selected row, one call per selected row in frame order; the
zero value on all other rows; an error for every other function value — except that a `types.ColumnName` is handed to
`Copy` (`gen_apply0_copy`). (A Go `string` without source column is a constant, not a built-in name:
`gen_apply0_string_const`.) -/
theorem gen_apply0_semantics (up : UpperOracle) (f : LFrame) (ix0 : List Nat) (keep mask : Nat → Bool) (L : Nat)
    (dst : Bytes) (src2 : Option Bytes) (fn : Fn) (hn : f.n = ix0.length) (h0 : ∀ p ∈ ix0, p < L) (nd : ix0.Nodup)
    (hm : ∀ r, r < ix0.length → mask r = keep (ix0[r]!)) (hnb : ∀ n, fn ≠ .builtin n) (hnc : ∀ n, fn ≠ .colCopy n) :
    toRes Gen.apply1WrapAst apply2Sets f dst ix0 .undef (Gen.apply0Ast.run (envOf noCol noCol (ix0.filter keep) L fn)) =
      some (applyInstr up f mask { dst := dst, src1 := none, src2 := src2, fn := fn }) := by
  have hix : ∀ p ∈ ix0.filter keep, p < L := fun p hp => h0 p (List.mem_filter.mp hp).1
  have hrun := canon0_run (envOf noCol noCol (ix0.filter keep) L fn) hix (nd.filter _)
  rw [gen_apply0_canon, hrun]
  have hm' := mem_filter_index ix0 keep mask hm
  cases fn with
  | const c =>
    simp only [expect0, envOf, goVal, goState, toRes, Option.map_some, Bool.true_and, applyInstr]
    rw [observe_rowsOf ix0 (ix0.filter keep) L (zeroCell (cellType c)) (fun _ => c) h0 mask hm' (fun _ => c) (fun _ _ => rfl), hn]
  | colCopy n => exact absurd rfl (hnc n)
  | builtin n => exact absurd rfl (hnb n)
  | bad => simp [expect0, envOf, goVal, toRes, applyInstr]
  | f1 id => cases hid : fn1 id <;> simp [expect0, envOf, goVal, hid, toRes, applyInstr]
  | f2 id => cases hid : fn2 id <;> simp [expect0, envOf, goVal, hid, toRes, applyInstr]
  | f0 kind start =>
    by_cases hk : kind = "f0r"
    · subst hk
      simp only [expect0, envOf, goVal, goState, ↓reduceIte, toRes, Option.map_some, Bool.true_and, applyInstr,
        show CType.int ∈ resTys from by decide]
      rw [observe_rowsOf0 ix0 keep L _ _ _ h0 nd mask hm, hn]
      simp only [nthVal_counter (fun k => Cell.int ((start * 7919 + k * 104729) % 1000003)), Int.zero_add, zeroCell]
      rfl
    · cases hz : f0Cell kind 0 with
      | none => simp [expect0, envOf, goVal, goState, hk, applyInstr, hz, toRes]
      | some z =>
        simp only [expect0, envOf, goVal, goState, hk, ↓reduceIte, applyInstr, hz, cellType_mem, toRes, Option.map_some,
          Bool.true_and]
        rw [observe_rowsOf0 ix0 keep L _ _ _ h0 nd mask hm, hn]
        simp only [nthVal_counter (fun i => (f0Cell kind i).getD z)]
        rfl

/-- a `types.ColumnName` goes to `Copy(dst, name)` -/
theorem gen_apply0_copy (ix : List Nat) (L : Nat) (n : Bytes) :
    Gen.apply0Ast.run (envOf noCol noCol ix L (.colCopy n)) = .copy n := by
  rw [gen_apply0_canon]
  rfl

/-- a Go `string` without source column is the constant string: a non-nil pointer at every selected row -/
theorem gen_apply0_string_const (up : UpperOracle) (f : LFrame) (ix0 : List Nat) (keep mask : Nat → Bool) (L : Nat)
    (dst : Bytes) (src2 : Option Bytes) (s : Bytes) (hn : f.n = ix0.length) (h0 : ∀ p ∈ ix0, p < L) (nd : ix0.Nodup)
    (hm : ∀ r, r < ix0.length → mask r = keep (ix0[r]!)) :
    toRes Gen.apply1WrapAst apply2Sets f dst ix0 .undef
        (Gen.apply0Ast.run { recv := noCol, other := noCol, ix := ix0.filter keep, firstColLen := L, fn := (.str s : LVal Int), s0 := 0 }) =
      some (applyInstr up f mask { dst := dst, src1 := none, src2 := src2, fn := .const (.str (some s)) }) := by
  have hix : ∀ p ∈ ix0.filter keep, p < L := fun p hp => h0 p (List.mem_filter.mp hp).1
  have hrun := canon0_run ({ recv := noCol, other := noCol, ix := ix0.filter keep, firstColLen := L, fn := (.str s : LVal Int), s0 := 0 } : LEnv Int)
    hix (nd.filter _)
  rw [gen_apply0_canon, hrun]
  have hm' := mem_filter_index ix0 keep mask hm
  simp only [expect0, toRes, Option.map_some, Bool.true_and, applyInstr, cellType]
  rw [observe_rowsOf ix0 (ix0.filter keep) L (.str none) (fun _ => .str (some s)) h0 mask hm' (fun _ => .str (some s)) (fun _ _ => rfl), hn]
  rfl

/-! ## The three helpers together -/

/-- The closed forms on PHYSICAL data, for today's terms: whatever the frame, `Apply1` / `Apply2` / `apply0` of today's
source return the array that holds, at every row listed in `ix`, the function applied to that row's cell(s) (the `k`-th
value of a zero-argument function at `ix[k]`), and the zero value of the element type at every other row of the full
column length — or an error, exactly for the function values `expect1` / `expect2` / `expect0` reject. -/
theorem gen_apply_loops_physical {σ : Type} (E : LEnv σ) :
    (ColOk E.recv → (∀ p ∈ E.ix, p < E.recv.cells.length) → (apply1Of E.recv.ty).run E = expect1 E) ∧
    (ColOk E.recv → ColOk E.other → E.other.cells.length = E.recv.cells.length → (∀ p ∈ E.ix, p < E.recv.cells.length) →
      (apply2Of E.recv.ty).run E = expect2 E) ∧
    ((∀ p ∈ E.ix, p < E.firstColLen) → E.ix.Nodup → Gen.apply0Ast.run E = expect0 E) := by
  refine ⟨fun hok hix => ?_, fun hok hok2 hlen hix => ?_, fun hix nd => ?_⟩
  · rw [gen_apply1_canon _ hok.1]; exact canon1_run E hok hix
  · rw [gen_apply2_canon _ hok.1]; exact canon2_run E hok hok2 hlen hix
  · rw [gen_apply0_canon]; exact canon0_run E hix nd

/-- **The per-row loops of Apply in today's source build what `applyInstr` builds** (C06), for the frame `f` whose index is
the duplicate-free list `ix0` of physical rows, the loop running over the sub-index `ix0.filter keep` (`keep` everything:
`Apply`; the rows a clause selects: `FilteredApply`), `mask` the same selection as rows of the frame: for every function
value `fn` of the catalogue, every destination,

* one source column: for every column type and ALL well-typed physical contents, `Column.Apply1` + `apply1` = `applyInstr`
  (built-in `"ToUpper"` on a string / enum column: the package's `toUpper` is called with the index and the column);
* two source columns: for every pair of column types and ALL contents, `Column.Apply2` + `setColumn` = `applyInstr`;
* no source column: `apply0` = `applyInstr` (a `types.ColumnName` goes to `Copy`: `gen_apply0_copy`; the spec's tag
  `Fn.builtin` has no Go value without a source column: `gen_apply0_string_const`). -/
theorem gen_apply_loops_semantics (up : UpperOracle) (f : LFrame) (ix0 : List Nat) (keep mask : Nat → Bool)
    (hn : f.n = ix0.length) (nd : ix0.Nodup) (hm : ∀ r, r < ix0.length → mask r = keep (ix0[r]!)) (dst : Bytes) (fn : Fn) :
    (∀ (P : PCol) (c : LCol) (s1 : Bytes), f.find? s1 = some c → Sees ix0 P c → ColOk P → (∀ p ∈ ix0, p < P.cells.length) →
      (isUpperCall fn P.ty = true →
        (apply1Of P.ty).run (envOf P P (ix0.filter keep) P.cells.length fn) = .builtin (upperHash P.ty)) ∧
      (isUpperCall fn P.ty = false →
        toRes Gen.apply1WrapAst apply2Sets f dst ix0 P.ty ((apply1Of P.ty).run (envOf P P (ix0.filter keep) P.cells.length fn)) =
          some (applyInstr up f mask { dst := dst, src1 := some s1, src2 := none, fn := fn }))) ∧
    (∀ (P Q : PCol) (c1 c2 : LCol) (s1 s2 : Bytes), f.find? s1 = some c1 → f.find? s2 = some c2 → Sees ix0 P c1 → Sees ix0 Q c2 →
      ColOk P → ColOk Q → Q.cells.length = P.cells.length → (∀ p ∈ ix0, p < P.cells.length) →
      toRes Gen.apply1WrapAst apply2Sets f dst ix0 P.ty ((apply2Of P.ty).run (envOf P Q (ix0.filter keep) P.cells.length fn)) =
        some (applyInstr up f mask { dst := dst, src1 := some s1, src2 := some s2, fn := fn })) ∧
    (∀ (L : Nat) (src2 : Option Bytes), (∀ p ∈ ix0, p < L) → (∀ n, fn ≠ .builtin n) → (∀ n, fn ≠ .colCopy n) →
      toRes Gen.apply1WrapAst apply2Sets f dst ix0 .undef (Gen.apply0Ast.run (envOf noCol noCol (ix0.filter keep) L fn)) =
        some (applyInstr up f mask { dst := dst, src1 := none, src2 := src2, fn := fn })) := by
  have hm' := mem_filter_index ix0 keep mask hm
  refine ⟨fun P c s1 hc hs hok h0 => ?_, fun P Q c1 c2 s1 s2 hc1 hc2 hs1 hs2 hok hok2 hlen h0 => ?_,
    fun L src2 h0 hnb hnc => ?_⟩
  · exact gen_apply1_semantics up f ix0 _ mask P c dst s1 fn hn hc hs hok h0
      (fun p hp => h0 p (List.mem_filter.mp hp).1) hm'
  · exact gen_apply2_semantics up f ix0 _ mask P Q c1 c2 dst s1 s2 fn hn hc1 hc2 hs1 hs2 hok hok2 hlen h0
      (fun p hp => h0 p (List.mem_filter.mp hp).1) hm'
  · exact gen_apply0_semantics up f ix0 keep mask L dst src2 fn hn h0 nd hm hnb hnc

/-- the look-ups of a built-in name in a function: (entries of the map, what happens on a miss) -/
def lookupsOf (F : LFn) : List (List (String × Nat) × LBody) :=
  F.cases.filterMap (fun c => match c.2 with | .lookup es miss => some (es, miss) | _ => none)

/-- the built-in table entries of `Apply1` name the functions whose bodies are the facts `scolumn.toUpper` /
`ecolumn.toUpper` of `QF/Gen/Facts.lean` (tied to the models of C18 / C17 by `QF/Props/Expected.lean`) -/
theorem gen_builtin_entries :
    (∀ ty ∈ tys, lookupsOf (apply1Of ty) = if hasBuiltins ty then [([("ToUpper", upperHash ty)], LBody.err)] else []) ∧
    (∀ ty ∈ tys, hasBuiltins ty = true → upperHash ty ≠ 0) ∧
    (∀ ty ∈ tys, lookupsOf (apply2Of ty) = []) ∧ lookupsOf Gen.apply0Ast = [] := by decide

/-! ## Witnesses: the statements tell wrong loops apart -/

section Witnesses

def outCells {σ : Type} : LOutcome σ → Option (List Cell)
  | .arr _ _ cells _ => some cells
  | _ => none

private def inc : Cell → Cell
  | .int x => .int (x + 1)
  | c => c

private def colI : PCol := { ty := .int, cells := [.int 10, .int 20, .int 30] }
private def colJ : PCol := { ty := .int, cells := [.int 1, .int 2, .int 3] }
private def colS : PCol := { ty := .string, cells := [.str (some [97]), .str none, .str (some [98])] }

/-- a sorted / filtered view: rows 2 and 0, in this order -/
private def envI : LEnv Unit := { recv := colI, other := colJ, ix := [2, 0], fn := .fn1 .int .int inc, s0 := () }

private def add : Cell → Cell → Cell
  | .int x, .int y => .int (x + y)
  | c, _ => c

private def envIJ : LEnv Unit := { envI with fn := .fn2 .int .int .int add }

private def isNil : Cell → Cell
  | .str none => .bool true
  | _ => .bool false

private def envS : LEnv Unit := { recv := colS, other := colS, ix := [0, 1, 2], fn := .fn1 .string .bool isNil, s0 := () }

private def one (sig : LSig) (b : LBody) : LFn := { cases := [(sig, b)], dflt := .err }

-- today's loop
example : outCells ((apply1Of .int).run envI) = some [.int 11, .int 0, .int 31] := by decide
example : outCells (expect1 envI) = some [.int 11, .int 0, .int 31] := by decide
-- `result[pos] = t(c.data[i])`: written at the loop position instead of the row
example : outCells ((one (.fn [.int] .int) (.loop .int .recvLen [.store .pos (.call [.cell .recv .row .raw])] .slice)).run envI)
    = some [.int 31, .int 11, .int 0] := by decide
example : (one (.fn [.int] .int) (.loop .int .recvLen [.store .pos (.call [.cell .recv .row .raw])] .slice)).run envI
    ≠ expect1 envI := by
  intro h; have := congrArg outCells h; revert this; decide
-- `result := make([]int, len(ix))`: the write at row 2 is out of range
example : outCells ((one (.fn [.int] .int) (.loop .int .ixLen [.store .row (.call [.cell .recv .row .raw])] .slice)).run envI)
    = none := by decide
example : (one (.fn [.int] .int) (.loop .int .ixLen [.store .row (.call [.cell .recv .row .raw])] .slice)).run envI
    ≠ expect1 envI := by
  intro h; have := congrArg outCells h; revert this; decide
-- Apply2 reading the other column at the loop position: `t(c.data[i], ss2.data[pos])`
example : outCells ((apply2Of .int).run envIJ) = some [.int 11, .int 0, .int 33] := by decide
example : outCells ((one (.fn [.int, .int] .int)
      (.loop .int .recvLen [.store .row (.call [.cell .recv .row .raw, .cell .other .pos .raw])] .ownCol)).run envIJ)
    = some [.int 12, .int 0, .int 31] := by decide
example : (one (.fn [.int, .int] .int)
      (.loop .int .recvLen [.store .row (.call [.cell .recv .row .raw, .cell .other .pos .raw])] .ownCol)).run envIJ
    ≠ expect2 envIJ := by
  intro h; have := congrArg outCells h; revert this; decide
-- skipping the rows whose cell is null: the function never sees nil
example : outCells ((apply1Of .string).run envS) = some [.bool false, .bool true, .bool false] := by decide
example : outCells ((one (.fn [.string] .bool) (.loop .bool .recvLen
      [.skipIfNull .recv .row, .store .row (.call [.cell .recv .row (accOf .string)])] .slice)).run envS)
    = some [.bool false, .bool false, .bool false] := by decide
example : (one (.fn [.string] .bool) (.loop .bool .recvLen
      [.skipIfNull .recv .row, .store .row (.call [.cell .recv .row (accOf .string)])] .slice)).run envS
    ≠ expect1 envS := by
  intro h; have := congrArg outCells h; revert this; decide
-- a string function handed `&""` instead of nil for a null cell (`stringToPtr` without its test)
example : outCells ((one (.fn [.string] .bool) (.loop .bool .recvLen
      [.store .row (.call [.cell .recv .row .addrStr])] .slice)).run envS)
    = some [.bool false, .bool false, .bool false] := by decide
-- accepting a function of the wrong element type: expect1 says error
example : outCells ((one (.fn [.float] .int) (loop1 .int .int)).run { envI with fn := .fn1 .float .int inc }) ≠
    outCells (expect1 { envI with fn := .fn1 .float .int inc }) := by decide

end Witnesses

#print axioms gen_loops_no_opaque
#print axioms gen_apply1_canon
#print axioms gen_apply2_canon
#print axioms gen_apply0_canon
#print axioms gen_apply1_wrap_canon
#print axioms gen_apply_loops_physical
#print axioms gen_apply1_semantics
#print axioms gen_apply2_semantics
#print axioms gen_apply0_semantics
#print axioms gen_apply0_string_const
#print axioms gen_apply0_copy
#print axioms gen_apply_loops_semantics
#print axioms gen_builtin_entries

end QF.Props.C06LoopsGen
