import QF.Core.GrouperMain
/-!
# C04 — GroupBy partitions the rows by key

Mirror: `G.groupBy` follows internal/grouper/grouper.go (open addressing, probe from
`hash & mask`, match on stored hash ∧ key equality, growth by stored hash when the load
factor is exceeded, groups collected in slot order).

`groupBy_partition`: for **every** hash function and every key relation that is an
equivalence respected by the hash (`KeyRel`), and every duplicate-free index: the probe
never runs out of fuel (no hang), every group is exactly one key class in frame order,
every row is in some group, and different groups are disjoint and key-different. Holds
for every table size, growth step and collision pattern.
-/
namespace QF.Props.C04

theorem groupBy_partition (hash : Nat → Nat) (eqv : Nat → Nat → Bool) (kr : G.KeyRel hash eqv)
    (ix : List Nat) (hnd : ix.Nodup) :
    ∃ gs, G.groupBy { } hash eqv ix = some gs ∧
      (∀ g, g ∈ gs → ∃ f, f ∈ ix ∧ g = List.filter (G.cls eqv f) ix) ∧
      (∀ j, j ∈ ix → ∃ g, g ∈ gs ∧ j ∈ g) ∧
      ∀ g1 g2, g1 ∈ gs → g2 ∈ gs → g1 ≠ g2 → ∀ a, a ∈ g1 → ∀ b, b ∈ g2 → a ≠ b ∧ eqv a b = false :=
  G.groupBy_partition hash eqv kr ix hnd

end QF.Props.C04
