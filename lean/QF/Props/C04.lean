import QF.Props.Tie
import QF.Core.GrouperMain
/-!
# C04 — GroupBy partitions the rows by key

Mirror: `G.groupBy` follows internal/grouper/grouper.go (open addressing, probe from
`hash & mask`, match on stored hash ∧ key equality, growth by stored hash when the load
factor is exceeded, groups collected in slot order).

`groupBy_partition`: for **every** hash function and every key relation that is an
equivalence respected by the hash (`KeyRel`), and every duplicate-free index: the probe
never runs out of fuel (no hang), every group is exactly one key class in frame order,
every row is in some group, and different groups are disjoint and key-different. Holds
for every table size, growth step and collision pattern.
-/
namespace QF.Props.C04

theorem groupBy_partition (hash : Nat → Nat) (eqv : Nat → Nat → Bool) (kr : G.KeyRel hash eqv)
    (ix : List Nat) (hnd : ix.Nodup) :
    ∃ gs, G.groupBy { } hash eqv ix = some gs ∧
      (∀ g, g ∈ gs → ∃ f, f ∈ ix ∧ g = List.filter (G.cls eqv f) ix) ∧
      (∀ j, j ∈ ix → ∃ g, g ∈ gs ∧ j ∈ g) ∧
      ∀ g1 g2, g1 ∈ gs → g2 ∈ gs → g1 ≠ g2 → ∀ a, a ∈ g1 → ∀ b, b ∈ g2 → a ≠ b ∧ eqv a b = false :=
  G.groupBy_partition hash eqv kr ix hnd

/-- T1: the functions this property's mirror model follows have today the source text the model was written against. -/
-- Beyond the text: the grouper functions themselves (`newTable`, `grow`, `hash`, `insertEntry`, `equals`, `groupIndex`, `GroupBy`,
-- `Distinct`) are regenerated on every run as programs of `QF.GL` and proved equal to the mirror `G` for all inputs in
-- `C04GrouperGen.gen_grouper_semantics` (corollary `gen_groupBy_partition`: the theorem above for the regenerated code).
-- The `Hash` functions of the column packages and the built-in aggregations are not compared as text: their meaning is
-- regenerated on every run and proved in `C04Hash` (Equal keys hash equal) and `C04Aggregations` (= the spec's functions).
-- Tie audit (bin/selftest-ties): the following functions are not compared as text any more; every behaviour-changing edit of
-- them makes a `gen_*_canon` theorem of this property's modules fail, renaming their locals or reformatting them changes nothing:
-- `maxLoadFactor`, `growthFactor`, `calculateInitialSizeExp`, `table.insertEntry`, `table.grow`, `groupIndex`, `GroupBy`, `equals`, `table.hash`, `newTable`:
-- regenerated as `Gen.grouperFns` (grpast.go, the constants are folded into the terms), `C04GrouperCanon.gen_grouper_canon` + `C04GrouperGen.gen_grouper_semantics`.
-- QFrame.GroupBy, Grouper.QFrames and the glue of Aggregate are regenerated in `Gen.groupByAst` / `qframesAst` / `aggregateGlueAst` (C04GlueGen, C04GlueLink.gen_groupby_partition); nothing of C04 is compared as text any more.
-- The helpers `QFrame.comparables` / `QFrame.orders` that build the key comparables are also regenerated on their own, statement by statement, in `Gen.comparablesAst` /
-- `Gen.ordersAst` (sortgast.go): `C03SortGlueGen.gen_comparables_semantics` / `gen_comparables_of_names` (one comparable per named column, in order, the SAME Null flag for all).
theorem tie : Tie.sameAll [] = true := by decide

/-- The load factor and growth factor of the table in today's source: the probe terminates because the table is
never full (`maxLoadFactor < 1`) and growth doubles the size. -/
theorem gen_table_constants :
    Gen.consts.lookup "grouper.maxLoadFactor" = some "0.5" ∧ Gen.consts.lookup "grouper.growthFactor" = some "2" := by decide

end QF.Props.C04
