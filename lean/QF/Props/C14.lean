import QF.Props.Tie
/-! # C14 -/
namespace QF.Props.C14

/-- T1: the functions this property's mirror model follows have today the source text the model was written against. -/
theorem tie : Tie.sameAll ["qframe.QFrame.ToJSON", "strings.AppendQuotedString", "io.jsonRecordsToData", "io.UnmarshalJSON", "fcolumn.Column.AppendByteStringAt", "icolumn.Column.AppendByteStringAt"] = true := by decide

end QF.Props.C14
