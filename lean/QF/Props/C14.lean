import QF.Props.Tie
/-! # C14 -/
namespace QF.Props.C14

/-- T1: the functions this property's mirror model follows have today the source text the model was written against. -/
-- Tie audit (bin/selftest-ties): the following functions are not compared as text any more; every behaviour-changing edit of
-- them makes a `gen_*_canon` theorem of this property's modules fail, renaming their locals or reformatting them changes nothing:
-- `QFrame.ToJSON`: `Gen.toJsonAst` (wast.go) + `Gen.guardAst2`, `C14WriterGen.gen_tojson_canon` + `gen_tojson_semantics`, `C10Guards.gen_guards2_canon`.
-- `Column.AppendByteStringAt` of fcolumn / icolumn: `Gen.appendAst` (oast.go), `C09Observe.gen_append_canon` + `gen_append_semantics`.
-- AppendQuotedString is regenerated in `Gen.stringsFns` (C14QuoteGen.gen_quote_semantics), the JSON reading glue in `Gen.recordsToDataAst` / `fillAsts` / `unmarshalJsonAst` (C14ReadJsonGen); nothing of C14 is compared as text any more.
theorem tie : Tie.sameAll [] = true := by decide

end QF.Props.C14
