import QF.Gen.SortGlue
/-!
# C03 / C04 / C05 / C06 / C08 / C15 — the last glue of /repo/qframe.go that was compared as text (tie T1, by semantics)

`QF.Gen.sortAst`, `sorterNewAst`, `comparablesAst`, `ordersAst`, `apply1GlueAst`, `apply2GlueAst`, `createColumnErrs`,
`readSqlArgsAst` (regenerated on every run by go/cmd/extract/sortgast.go) hold `QFrame.Sort` (with `withErr` / `withIndex`
inlined), `qfsort.New`, the helpers `comparables` and `orders` of `GroupBy` / `Distinct`, `apply1`, `apply2`, the error
returns of `createColumn` and `ReadSQLWithArgs` as terms of `QF.SG` (QF/Core/SortGlue.lean). What the glue calls — the
columns' `Comparable`, `Sorter.Sort`, `Column.Apply1` / `Apply2`, `setColumn`, `ecolumn.New`, `qfsqlio.ReadSQL`, `New` — is
regenerated elsewhere and is a parameter here; `QF.Props.C03EndToEnd` instantiates `Sort` with the regenerated sorter and
comparators and arrives at the spec's `isSortedResult`.

* `gen_sortglue_no_opaque`, `gen_sortglue_canon` — today's extraction is complete and equal to the canonical terms (`decide`).
* `gen_sort_glue_semantics`  — for every frame, every list of orders and every meaning of the callees, `Sort` is `specSort`:
    a failed receiver and an empty order list come back as they are; an order naming a column the frame does not have gives
    the receiver with an error (nothing is sorted); otherwise `Sorter.Sort()` runs ONCE, on a COPY of the index, with the
    comparables below, the result has the receiver's columns and error and the sorted copy as its index, and the receiver's
    own index array holds what it held.
* `gen_sort_cmps_semantics`  — the comparables: one per order, in the order given (an order that names the same column
    again gives another comparable), each `<the column named by THAT order>.Comparable(<its Reverse>, false, <its NullLast>)`
    (`keysOf_spec`: the keys are the orders, each paired with the column found under its name).
* `gen_comparables_semantics`, `gen_orders_semantics`, `gen_comparables_of_names` — the helper `comparables(columns, orders, b)`
    returns, for the first `len(columns)` orders (a panic when there are fewer), in order, `<column named by the order>.
    Comparable(false, b, false)` — the SAME `b` for every column —; with `orders(columns)` that is one comparable per name of
    `columns`, in order.
* `gen_apply12_semantics`    — `apply1(fn, dst, src)`: the column found under `src` receives `Apply1(fn, <the receiver's index>)`;
    a slice becomes a column of its element type, a column stays, anything else is an error; the result goes to
    `setColumn(dst, ·)`. `apply2(fn, dst, src1, src2)`: the column under `src1` receives `Apply2(fn, <the column under src2>,
    <the receiver's index>)`, the result goes to `setColumn(dst, ·)`. A failed receiver comes back as it is, an unknown source
    column or an error of the callee gives the receiver with an error.
* `gen_createcolumn_errors`  — (C08) the four error returns of `createColumn`: a failure of `ecolumn.New` / `ecolumn.NewConst`
    comes back as `qerrors.Propagate("New columns <name>", err)` — the cause is kept as the source —, the two others are
    `qerrors.New("createColumn", …)` naming the count / the type and the column.
* `gen_readsqlargs_semantics` — (C15) `ReadSQLWithArgs`: `Prepare(conf.Query)`; its failure, the failure of
    `stmt.Query(queryArgs...)` (ALL the arguments) and of `qfsqlio.ReadSQL` each give `QFrame{Err: err}`; after a successful
    `Prepare` the statement is closed on every path; otherwise `New(data, ColumnOrder(columns...))` with the columns in the
    order `ReadSQL` reported.
* witnesses: the seeded defects of `comparables` (the Null flag lost after an int column; flags taken from the orders), a
  dropped Reverse flag, `equalNull = true`, the receiver's index sorted in place, the sort of a second copy, `Apply2` with
  receiver and argument swapped, the index `[:0]`, the source column overwritten, the error of `ecolumn.New` passed on bare,
  the query arguments dropped.
-/
set_option linter.unusedSimpArgs false
namespace QF.Props.C03SortGlueGen
open QF QF.SG
open QF.GG (Frame)

theorem frame_eta (F : Frame) (b : Bool) (h : F.err = b) : ({ cols := F.cols, index := F.index, err := b } : Frame) = F := by
  cases F; simp_all

/-! ## Canonical terms -/

/-- `s, ok := qf.columnsByName[o.Column]; if !ok { return qf.withErr(…) }; comparables = append(comparables, s.Comparable(o.Reverse, false, o.NullLast))` -/
def canonSortBody : List SB := [.lookup .ordCol, .ifMissing .recvWithErr, .appendCmp .ordReverse (.lit false) .ordNullLast]

def canonSort : SO :=
  .ifRecvErr .recv
    (.ifNoOrders .recv
      (.makeCmps
        (.forOrders canonSortBody
          (.withIndex .recvIndexCopy
            (.newSorter .newIndex
              (.sort (.ret .newFrame)))))))

def canonSorterNew : SN := .lit .ixParam .colsParam

/-- `result = append(result, qf.columnsByName[orders[i].Column].Comparable(false, groupByNull, false))` -/
def canonCBody : List CB := [.append (some .ordCol) (.lit false) .param (.lit false)]
def canonComparables : CH := .forLen .columns canonCBody
def canonOrders : OH := .perColumn false false

def canonWrap : List (STy × WRes) :=
  [(.ints, .newOf .int), (.floats, .newOf .float), (.bools, .newOf .bool), (.strs, .newOf .string), (.column, .itself)]

def canonApply1 : AP :=
  .ifRecvErr .recv
    (.lookup .a .src1
      (.ifMissing .a .recvWithErr
        (.apply1 .a .recvIndex
          (.ifErr .recvWithErr
            (.wrap canonWrap .recvWithErr
              (.retSet .dst .wrapped))))))

def canonApply2 : AP :=
  .ifRecvErr .recv
    (.lookup .a .src1
      (.ifMissing .a .recvWithErr
        (.lookup .b .src2
          (.ifMissing .b .recvWithErr
            (.apply2 .a .b .recvIndex
              (.ifErr .recvWithErr
                (.retSet .dst .result)))))))

def newColumnsMsg : EMsg := [.lit "New columns ", .arg "%s" .name]

def canonCreateColumnErrs : List (ESite × EV) := [
  (.negativeCount, .new "createColumn" [.lit "negative count ", .arg "%d" .count, .lit " for constant column \"", .arg "%s" .name, .lit "\""]),
  (.enumCells, .propagate newColumnsMsg),
  (.enumConst, .propagate newColumnsMsg),
  (.unknownType, .new "createColumn" [.lit "unknown column data type \"", .arg "%s" .typeOfData, .lit "\" for column \"", .arg "%s" .name, .lit "\""])]

def canonReadSqlArgs : RS :=
  .newConfig (.prepare (.ifErr .callErr (.deferClose (.query true (.ifErr .callErr (.readSql (.ifErr .callErr (.retNew true))))))))

theorem gen_sortglue_canon :
    Gen.sortAst = canonSort ∧ Gen.sorterNewAst = canonSorterNew ∧ Gen.comparablesAst = canonComparables ∧
    Gen.ordersAst = canonOrders ∧ Gen.apply1GlueAst = canonApply1 ∧ Gen.apply2GlueAst = canonApply2 ∧
    Gen.createColumnErrs = canonCreateColumnErrs ∧ Gen.readSqlArgsAst = canonReadSqlArgs := by decide

theorem gen_sortglue_no_opaque :
    Gen.sortAst.hasOpaque = false ∧ Gen.sorterNewAst.hasOpaque = false ∧ Gen.comparablesAst.hasOpaque = false ∧
    Gen.ordersAst.hasOpaque = false ∧ Gen.apply1GlueAst.hasOpaque = false ∧ Gen.apply2GlueAst.hasOpaque = false ∧
    (∀ e ∈ Gen.createColumnErrs, e.1.isOther = false ∧ e.2.hasOpaque = false) ∧ Gen.readSqlArgsAst.hasOpaque = false := by decide

/-! ## Today's functions, run -/

def genSort {κ : Type} (P : Prims κ) (F : Frame) (os : List Order) : Option (SRes κ) :=
  Gen.sortAst.run P F os { recvIx := F.index }

def genComparables {κ : Type} (comparable : LCol → Bool → Bool → Bool → κ) (F : Frame) (columns : List Bytes)
    (orders : List Order) (flag : Bool) : Option (List κ) :=
  Gen.comparablesAst.run comparable F columns orders flag

def genOrders (columns : List Bytes) : Option (List Order) := Gen.ordersAst.run columns

def genApply1 {φ : Type} (P : APrims φ) (F : Frame) (fn : φ) (dst src : Bytes) : Option Frame :=
  Gen.apply1GlueAst.run P F fn { dst := dst, src1 := src } {}

def genApply2 {φ : Type} (P : APrims φ) (F : Frame) (fn : φ) (dst src1 src2 : Bytes) : Option Frame :=
  Gen.apply2GlueAst.run P F fn { dst := dst, src1 := src1, src2 := src2 } {}

/-- the error value `createColumn` returns at the place `site` (`cause`: the error the callee returned there) -/
def genCreateColumnErr (site : ESite) (E : EEnv) (cause : Option ErrV) : Option (Option ErrV) :=
  (Gen.createColumnErrs.lookup site).bind (EV.eval E cause)

def genReadSqlArgs {α ρ δ χ : Type} (E : REnv α ρ δ χ) (args : List α) : Option RRes := Gen.readSqlArgsAst.run E args {}

/-! ## `Sort` -/

/-- the sort keys: every order with the column found under its name, in the order given; `none`: an order names a column
the frame does not have -/
def keysOf (F : Frame) : List Order → Option (List (LCol × Order))
  | [] => some []
  | o :: os =>
    match F.find? o.col, keysOf F os with
    | some c, some rest => some ((c, o) :: rest)
    | _, _ => none

/-- the comparables `Sort` builds of the keys: `<column>.Comparable(<Reverse of the order>, false, <NullLast of the order>)` -/
def cmpsOfKeys {κ : Type} (comparable : LCol → Bool → Bool → Bool → κ) (keys : List (LCol × Order)) : List κ :=
  keys.map fun k => comparable k.1 k.2.reverse false k.2.nullLast

/-- The keys are the orders — one key per order, in order, duplicates kept — each paired with the column the frame has
under the order's name. -/
theorem keysOf_spec (F : Frame) : ∀ (os : List Order) (keys : List (LCol × Order)),
    keysOf F os = some keys ↔ (keys.map (·.2) = os ∧ ∀ k ∈ keys, F.find? k.2.col = some k.1)
  | [], keys => by
    simp only [keysOf, Option.some.injEq]
    constructor
    · intro h; subst h; simp
    · intro h
      have : keys = [] := by simpa using h.1
      exact this.symm
  | o :: os, keys => by
    simp only [keysOf]
    cases hf : F.find? o.col with
    | none =>
      simp only
      constructor
      · intro h; cases h
      · rintro ⟨h1, h2⟩
        cases keys with
        | nil => simp at h1
        | cons k ks =>
          simp only [List.map_cons, List.cons.injEq] at h1
          have := h2 k (by simp)
          rw [h1.1, hf] at this
          cases this
    | some c =>
      cases hr : keysOf F os with
      | none =>
        simp only
        constructor
        · intro h; cases h
        · rintro ⟨h1, h2⟩
          cases keys with
          | nil => simp at h1
          | cons k ks =>
            simp only [List.map_cons, List.cons.injEq] at h1
            have := (keysOf_spec F os ks).2 ⟨h1.2, fun k' hk' => h2 k' (by simp [hk'])⟩
            rw [hr] at this
            cases this
      | some rest =>
        simp only [Option.some.injEq]
        have ih := (keysOf_spec F os rest).1 hr
        constructor
        · intro h
          subst h
          refine ⟨by simp [ih.1], ?_⟩
          intro k hk
          rcases List.mem_cons.mp hk with rfl | hk
          · exact hf
          · exact ih.2 k hk
        · rintro ⟨h1, h2⟩
          cases keys with
          | nil => simp at h1
          | cons k ks =>
            simp only [List.map_cons, List.cons.injEq] at h1
            have h3 := (keysOf_spec F os ks).2 ⟨h1.2, fun k' hk' => h2 k' (by simp [hk'])⟩
            rw [hr] at h3
            have hk := h2 k (by simp)
            rw [h1.1, hf] at hk
            obtain ⟨k1, k2⟩ := k
            simp only at h1 hk
            simp only [Option.some.injEq] at hk h3
            rw [← hk, h1.1, h3]

theorem keysOf_length {F : Frame} {os : List Order} {keys : List (LCol × Order)} (h : keysOf F os = some keys) :
    keys.length = os.length := by
  have := ((keysOf_spec F os keys).1 h).1
  rw [← this]; simp

/-- what `Sort` returns, in closed form -/
def specSort {κ : Type} (P : Prims κ) (F : Frame) (os : List Order) : Option (SRes κ) :=
  if F.err then some { frame := F, recvIndex := F.index, call := none }
  else if os.isEmpty then some { frame := F, recvIndex := F.index, call := none }
  else
    match keysOf F os with
    | none => some { frame := { F with err := true }, recvIndex := F.index, call := none }
    | some keys =>
      match P.sort F.index (cmpsOfKeys P.comparable keys) with
      | some sorted => some { frame := { F with index := sorted }, recvIndex := F.index, call := some (F.index, cmpsOfKeys P.comparable keys) }
      | none => none

theorem canon_orders {κ : Type} (P : Prims κ) (F : Frame) : ∀ (os : List Order) (cs : List κ),
    runOrders P F canonSortBody os cs =
      match keysOf F os with
      | some keys => .next none (cs ++ cmpsOfKeys P.comparable keys)
      | none => .ret .recvWithErr
  | [], cs => by simp [runOrders, keysOf, cmpsOfKeys]
  | o :: os, cs => by
    simp only [runOrders, keysOf]
    cases hf : F.find? o.col with
    | none => simp [canonSortBody, runSBody, SB.run, NSrc.eval, hf]
    | some c =>
      have ih := canon_orders P F os (cs ++ [P.comparable c o.reverse false o.nullLast])
      simp only [canonSortBody, runSBody, SB.run, NSrc.eval, BSrc.eval, Option.map_some, hf]
      rw [show ([SB.lookup NSrc.ordCol, SB.ifMissing Out.recvWithErr, SB.appendCmp BSrc.ordReverse (BSrc.lit false) BSrc.ordNullLast] : List SB) = canonSortBody from rfl, ih]
      cases keysOf F os with
      | none => rfl
      | some rest => simp [cmpsOfKeys]

theorem canon_sort_run {κ : Type} (P : Prims κ) (F : Frame) (os : List Order) :
    canonSort.run P F os { recvIx := F.index } = specSort P F os := by
  unfold specSort
  cases he : F.err
  · cases hemp : os.isEmpty
    · simp only [canonSort, SO.run, he, hemp, Bool.false_eq_true, if_false, canon_orders, List.nil_append]
      cases keysOf F os with
      | none => simp [Out.eval]
      | some keys =>
        simp only [ISrc.eval, Option.map_some, IxRef.get]
        cases P.sort F.index (cmpsOfKeys P.comparable keys) with
        | none => rfl
        | some sorted => simp [Out.eval, IxRef.get, he]
    · simp [canonSort, SO.run, he, hemp, Out.eval, frame_eta F false he]
  · simp [canonSort, SO.run, he, Out.eval, frame_eta F true he]

/-- **`QFrame.Sort` of today's source**, for every frame `F` (columns, index, error), every list of orders and every
meaning `P` of `Comparable` and `Sorter.Sort()`: the result is `specSort P F os` —
* a failed frame, or no orders: the receiver, nothing called;
* an order that names a column the frame does not have: the receiver with an error, nothing sorted;
* otherwise `Sorter.Sort()` is called once, on a COPY of the receiver's index (`Int.Copy`) and the comparables of the keys
  (`keysOf`, `cmpsOfKeys`); the result has the receiver's columns, name map and error and the sorted copy as its index; the
  receiver's own index array holds what it held (`recvIndex`).
`none` (no value) only where `Sorter.Sort()` has none. -/
theorem gen_sort_glue_semantics {κ : Type} (P : Prims κ) (F : Frame) (os : List Order) :
    genSort P F os = specSort P F os := by
  unfold genSort
  rw [gen_sortglue_canon.1]
  exact canon_sort_run P F os

/-- **The comparables of today's `Sort`.** For a frame without error and at least one order:
* every order names a known column (`keysOf F os = some keys`, where by `keysOf_spec` the keys ARE the orders, one per
  order, in order, duplicates kept, each with the column of that name): `Sorter.Sort()` is called on the rows of the index
  and exactly the comparables `<column of the i-th order>.Comparable(<Reverse of the i-th order>, false, <NullLast of the i-th
  order>)`, and what it leaves is the index of the result;
* otherwise the receiver comes back with an error and the sorter is not called. -/
theorem gen_sort_cmps_semantics {κ : Type} (P : Prims κ) (F : Frame) (os : List Order) (he : F.err = false) (hne : os ≠ []) :
    (∀ keys, keysOf F os = some keys →
      genSort P F os = (P.sort F.index (cmpsOfKeys P.comparable keys)).map fun sorted =>
        { frame := { F with index := sorted }, recvIndex := F.index, call := some (F.index, cmpsOfKeys P.comparable keys) }) ∧
    (keysOf F os = none → genSort P F os = some { frame := { F with err := true }, recvIndex := F.index, call := none }) := by
  have hemp : os.isEmpty = false := by cases os with | nil => exact absurd rfl hne | cons _ _ => rfl
  rw [gen_sort_glue_semantics]
  unfold specSort
  simp only [he, hemp, Bool.false_eq_true, if_false]
  constructor
  · intro keys hk
    rw [hk]
    simp only
    cases P.sort F.index (cmpsOfKeys P.comparable keys) <;> rfl
  · intro hk
    rw [hk]

/-- `Sort` fails exactly for an order naming an unknown column (on a frame without error), whatever the callees do. -/
theorem gen_sort_err_iff {κ : Type} (P : Prims κ) (F : Frame) (os : List Order) (he : F.err = false) :
    (∃ o ∈ os, F.find? o.col = none) ↔ ∃ r, genSort P F os = some r ∧ r.frame.err = true := by
  rw [gen_sort_glue_semantics]
  unfold specSort
  simp only [he, Bool.false_eq_true, if_false]
  constructor
  · rintro ⟨o, ho, hf⟩
    have hemp : os.isEmpty = false := by cases os with | nil => simp at ho | cons _ _ => rfl
    have hk : keysOf F os = none := by
      cases hk : keysOf F os with
      | none => rfl
      | some keys =>
        obtain ⟨h1, h2⟩ := (keysOf_spec F os keys).1 hk
        rw [← h1] at ho
        obtain ⟨k, hk', rfl⟩ := List.mem_map.mp ho
        rw [h2 k hk'] at hf
        cases hf
    simp only [hemp, Bool.false_eq_true, if_false, hk]
    exact ⟨_, rfl, rfl⟩
  · rintro ⟨r, h, hr⟩
    cases hemp : os.isEmpty
    · simp only [hemp, Bool.false_eq_true, if_false] at h
      cases hk : keysOf F os with
      | none =>
        -- some order is unknown
        clear h hr
        induction os with
        | nil => simp at hemp
        | cons o os ih =>
          simp only [keysOf] at hk
          cases hf : F.find? o.col with
          | none => exact ⟨o, by simp, hf⟩
          | some c =>
            rw [hf] at hk
            cases hr : keysOf F os with
            | some rest => rw [hr] at hk; cases hk
            | none =>
              cases os with
              | nil => simp [keysOf] at hr
              | cons o' os' =>
                obtain ⟨x, hx, hxf⟩ := ih rfl hr
                exact ⟨x, by simp [List.mem_cons] at hx ⊢; exact Or.inr hx, hxf⟩
      | some keys =>
        rw [hk] at h
        simp only at h
        cases hs : P.sort F.index (cmpsOfKeys P.comparable keys) with
        | none => rw [hs] at h; cases h
        | some sorted =>
          rw [hs] at h
          simp only [Option.some.injEq] at h
          subst h
          simp at hr
    · simp only [hemp, if_true, Option.some.injEq] at h
      subst h
      simp [he] at hr

/-! ## The helpers `comparables` and `orders` -/

/-- the comparables of a list of orders, as the helper builds them: `Comparable(false, flag, false)` of the column found
under the order's name; `none`: a name the frame does not have (a method call on a nil `Column`) -/
def cmpsList {κ : Type} (comparable : LCol → Bool → Bool → Bool → κ) (F : Frame) (flag : Bool) : List Order → Option (List κ)
  | [] => some []
  | o :: os =>
    match F.find? o.col, cmpsList comparable F flag os with
    | some c, some rest => some (comparable c false flag false :: rest)
    | _, _ => none

section Comparables
variable {κ : Type} (comparable : LCol → Bool → Bool → Bool → κ) (F : Frame) (columns : List Bytes) (orders : List Order)

theorem canon_rounds : ∀ (n i : Nat) (s : CSt κ), i ≤ orders.length →
    match (if i + n ≤ orders.length then cmpsList comparable F s.flag ((orders.drop i).take n) else none) with
    | some more => ∃ s', runRounds comparable F columns orders canonCBody n i s = some s' ∧ s'.flag = s.flag ∧ s'.res = s.res ++ more
    | none => runRounds comparable F columns orders canonCBody n i s = none
  | 0, i, s, h => by
    simp only [Nat.add_zero, h, if_true, List.take_zero, cmpsList]
    exact ⟨s, rfl, rfl, by simp⟩
  | n + 1, i, s, hi0 => by
    by_cases h : i + (n + 1) ≤ orders.length
    · have hi : i < orders.length := by omega
      have hdrop : (orders.drop i).take (n + 1) = orders[i] :: (orders.drop (i + 1)).take n := by
        rw [List.drop_eq_getElem_cons hi, List.take_succ_cons]
      have hget : orders[i]? = some orders[i] := List.getElem?_eq_getElem hi
      simp only [h, if_true, hdrop, cmpsList]
      cases hf : F.find? orders[i].col with
      | none =>
        simp only
        simp [runRounds, runCBody, canonCBody, CB.run, NSrc.eval, hget, hf]
      | some c =>
        have ih := canon_rounds n (i + 1) { s with col := none, res := s.res ++ [comparable c false s.flag false] } (by omega)
        have h' : i + 1 + n ≤ orders.length := by omega
        simp only [h', if_true] at ih
        have hrun : runRounds comparable F columns orders canonCBody (n + 1) i s =
            runRounds comparable F columns orders canonCBody n (i + 1) { s with col := none, res := s.res ++ [comparable c false s.flag false] } := by
          simp [runRounds, runCBody, canonCBody, CB.run, NSrc.eval, BSrc.eval, hget, hf]
        rw [hrun]
        cases hr : cmpsList comparable F s.flag ((orders.drop (i + 1)).take n) with
        | none => rw [hr] at ih; exact ih
        | some rest =>
          rw [hr] at ih
          obtain ⟨s', h1, h2, h3⟩ := ih
          exact ⟨s', h1, h2, by simp [h3]⟩
    · simp only [h, if_false]
      -- some round i' ≥ i reads orders[i'] past the end
      by_cases hi : i < orders.length
      · have hget : orders[i]? = some orders[i] := List.getElem?_eq_getElem hi
        cases hf : F.find? orders[i].col with
        | none => simp [runRounds, runCBody, canonCBody, CB.run, NSrc.eval, hget, hf]
        | some c =>
          have ih := canon_rounds n (i + 1) { s with col := none, res := s.res ++ [comparable c false s.flag false] } (by omega)
          have h' : ¬ i + 1 + n ≤ orders.length := by omega
          simp only [h', if_false] at ih
          have hrun : runRounds comparable F columns orders canonCBody (n + 1) i s =
              runRounds comparable F columns orders canonCBody n (i + 1) { s with col := none, res := s.res ++ [comparable c false s.flag false] } := by
            simp [runRounds, runCBody, canonCBody, CB.run, NSrc.eval, BSrc.eval, hget, hf]
          rw [hrun]; exact ih
      · have hget : orders[i]? = none := List.getElem?_eq_none (by omega)
        simp [runRounds, runCBody, canonCBody, CB.run, NSrc.eval, hget]


/-- **The helper `comparables` of today's source** (`GroupBy` and `Distinct` build their key comparables with it), for every
frame, column list, order list, flag and meaning of `Comparable`: one comparable per element of `columns`, made of the
first `len(columns)` ORDERS in order — `<the column named by the order>.Comparable(false, flag, false)`, the SAME flag for
every column, whatever the types of the columns in front —; a run-time panic (`none`) when there are fewer orders than
columns or an order names a column the frame does not have. -/
theorem gen_comparables_semantics (flag : Bool) :
    genComparables comparable F columns orders flag =
      if columns.length ≤ orders.length then cmpsList comparable F flag (orders.take columns.length) else none := by
  unfold genComparables
  rw [gen_sortglue_canon.2.2.1]
  simp only [canonComparables, CH.run]
  have h := canon_rounds comparable F columns orders columns.length 0 { flag := flag } (Nat.zero_le _)
  simp only [Nat.zero_add, List.drop_zero] at h
  by_cases hl : columns.length ≤ orders.length
  · simp only [hl, if_true] at h ⊢
    cases hc : cmpsList comparable F flag (orders.take columns.length) with
    | none => rw [hc] at h; simp only at h; rw [h]; rfl
    | some more =>
      rw [hc] at h
      obtain ⟨s', h1, _, h3⟩ := h
      rw [h1]
      simp [h3]
  · simp only [hl, if_false] at h ⊢
    rw [h]; rfl

end Comparables

/-- **The helper `orders` of today's source**: one order per name, in order, Reverse and NullLast off. -/
theorem gen_orders_semantics (columns : List Bytes) :
    genOrders columns = some (columns.map fun c => { col := c, reverse := false, nullLast := false }) := by
  unfold genOrders
  rw [gen_sortglue_canon.2.2.2.1]
  rfl

theorem cmpsList_of_names {κ : Type} (comparable : LCol → Bool → Bool → Bool → κ) (F : Frame) (flag : Bool) (r n : Bool) :
    ∀ columns : List Bytes, cmpsList comparable F flag (columns.map fun c => { col := c, reverse := r, nullLast := n }) =
      (columns.mapM F.find?).map (List.map fun c => comparable c false flag false)
  | [] => rfl
  | c :: cs => by
    simp only [List.map_cons, cmpsList, List.mapM_cons, cmpsList_of_names comparable F flag r n cs]
    cases F.find? c with
    | none => rfl
    | some col =>
      cases cs.mapM F.find? with
      | none => rfl
      | some rest => rfl

/-- **`comparables(columns, orders(columns), flag)` as `GroupBy` / `Distinct` call it**: exactly one comparable per name of
`columns`, in the order of `columns` (a name that occurs twice gives two), each `<the column of that name>.Comparable(false,
flag, false)`; a panic for a name the frame does not have (the callers check the names first). -/
theorem gen_comparables_of_names {κ : Type} (comparable : LCol → Bool → Bool → Bool → κ) (F : Frame) (columns : List Bytes)
    (flag : Bool) :
    ∃ os, genOrders columns = some os ∧
      genComparables comparable F columns os flag =
        (columns.mapM F.find?).map (List.map fun c => comparable c false flag false) := by
  refine ⟨_, gen_orders_semantics columns, ?_⟩
  rw [gen_comparables_semantics]
  simp only [List.length_map, Nat.le_refl, if_true]
  rw [List.take_of_length_le (by simp)]
  exact cmpsList_of_names comparable F flag false false columns

/-- … and these are the comparables `C04GlueGen.gen_groupby_semantics` / `gen_distinct_cmps_semantics` say `GroupBy` and
`Distinct` hand to the grouper (there the two helpers are inlined into the callers' terms): for a configuration whose
columns the frame has (`keys` the columns found), the helper of today's source returns `Comparable(false, <Null flag>, false)`
of every key, in order. -/
theorem gen_comparables_groupby {κ : Type} (comparable : LCol → Bool → Bool → Bool → κ) (F : Frame) (C : GG.Cfg) (keys : List LCol)
    (hk : C.columns.mapM F.find? = some keys) :
    ∃ os, genOrders C.columns = some os ∧
      genComparables comparable F C.columns os C.gbNull = some (keys.map fun c => comparable c false C.gbNull false) := by
  obtain ⟨os, h1, h2⟩ := gen_comparables_of_names comparable F C.columns C.gbNull
  exact ⟨os, h1, by rw [h2, hk]; rfl⟩

/-! ## `apply1` / `apply2` -/

section Apply
variable {φ : Type} (P : APrims φ) (F : Frame) (fn : φ)

/-- the column `apply1` makes of what `Apply1` returned; `none`: a value of an unexpected type (an error) -/
def wrapSpec (v : AVal) : Option LCol :=
  match v with
  | .ints _ => some (P.newCol .int v)
  | .floats _ => some (P.newCol .float v)
  | .bools _ => some (P.newCol .bool v)
  | .strs _ => some (P.newCol .string v)
  | .col c => some c
  | .other => none

/-- what `apply1` returns, in closed form -/
def specApply1 (dst src : Bytes) : Frame :=
  if F.err then F
  else
    match F.find? src with
    | none => { F with err := true }
    | some c =>
      match P.apply1 c fn F.index with
      | none => { F with err := true }
      | some v =>
        match wrapSpec P v with
        | none => { F with err := true }
        | some r => P.setColumn F dst r

/-- what `apply2` returns, in closed form -/
def specApply2 (dst src1 src2 : Bytes) : Frame :=
  if F.err then F
  else
    match F.find? src1 with
    | none => { F with err := true }
    | some c1 =>
      match F.find? src2 with
      | none => { F with err := true }
      | some c2 =>
        match P.apply2 c1 fn c2 F.index with
        | none => { F with err := true }
        | some r => P.setColumn F dst r

omit P F fn in
theorem canonWrap_lookup :
    List.lookup STy.ints canonWrap = some (.newOf .int) ∧ List.lookup STy.floats canonWrap = some (.newOf .float) ∧
    List.lookup STy.bools canonWrap = some (.newOf .bool) ∧ List.lookup STy.strs canonWrap = some (.newOf .string) ∧
    List.lookup STy.column canonWrap = some .itself := by decide

theorem canon_apply1_run (dst src : Bytes) :
    canonApply1.run P F fn { dst := dst, src1 := src } {} = some (specApply1 P F fn dst src) := by
  unfold specApply1
  cases he : F.err
  · simp only [canonApply1, AP.run, he, Bool.false_eq_true, if_false, AName.eval, ASt.slot, if_true]
    cases hf : F.find? src with
    | none => simp [AOut.eval]
    | some c =>
      simp only [AIx.eval]
      cases ha : P.apply1 c fn F.index with
      | none => simp [AP.run, AOut.eval]
      | some v =>
        obtain ⟨l1, l2, l3, l4, l5⟩ := canonWrap_lookup
        cases v <;> simp [AP.run, AVal.sty, l1, l2, l3, l4, l5, WRes.eval, wrapSpec, AOut.eval, AName.eval]
  · simp [canonApply1, AP.run, he, AOut.eval]

theorem canon_apply2_run (dst src1 src2 : Bytes) :
    canonApply2.run P F fn { dst := dst, src1 := src1, src2 := src2 } {} = some (specApply2 P F fn dst src1 src2) := by
  unfold specApply2
  cases he : F.err
  · simp only [canonApply2, AP.run, he, Bool.false_eq_true, if_false, AName.eval, ASt.slot, if_true]
    cases hf : F.find? src1 with
    | none => simp [AOut.eval]
    | some c1 =>
      simp only [AP.run, ASt.slot, if_true]
      cases hf2 : F.find? src2 with
      | none => simp [AOut.eval]
      | some c2 =>
        simp only [AIx.eval, AP.run, ASt.slot]
        cases ha : P.apply2 c1 fn c2 F.index with
        | none => simp [AP.run, AOut.eval]
        | some r => simp [AP.run, AName.eval]
  · simp [canonApply2, AP.run, he, AOut.eval]

/-- **`apply1` and `apply2` of today's source**, for every frame, function argument, names and every meaning of
`Column.Apply1` / `Apply2`, the column constructors and `setColumn`:
* `apply1(fn, dst, src)` is `specApply1`: a failed receiver comes back as it is; an unknown `src` gives the receiver with an
  error; otherwise the column found under `src` — that one, not another — receives `Apply1(fn, <the receiver's index>)` (the
  whole index); an error of it gives the receiver with an error; a `[]int`, `[]float64`, `[]bool`, `[]*string` becomes the
  column of that type, a `column.Column` stays what it is, any other value gives the receiver with an error; and the
  result is `setColumn(dst, <that column>)` — the DESTINATION name;
* `apply2(fn, dst, src1, src2)` is `specApply2`: unknown `src1` or `src2` gives the receiver with an error; otherwise the
  column under `src1` receives `Apply2(fn, <the column under src2>, <the receiver's index>)` — receiver and argument in
  that order —, an error of it gives the receiver with an error, and the result is `setColumn(dst, <the column returned>)`. -/
theorem gen_apply12_semantics (dst src1 src2 : Bytes) :
    genApply1 P F fn dst src1 = some (specApply1 P F fn dst src1) ∧
    genApply2 P F fn dst src1 src2 = some (specApply2 P F fn dst src1 src2) := by
  unfold genApply1 genApply2
  rw [gen_sortglue_canon.2.2.2.2.1, gen_sortglue_canon.2.2.2.2.2.1]
  exact ⟨canon_apply1_run P F fn dst src1, canon_apply2_run P F fn dst src1 src2⟩

end Apply

/-! ## The error returns of `createColumn` (C08) -/

theorem canonErrs_lookup :
    List.lookup ESite.enumCells canonCreateColumnErrs = some (.propagate newColumnsMsg) ∧
    List.lookup ESite.enumConst canonCreateColumnErrs = some (.propagate newColumnsMsg) ∧
    List.lookup ESite.negativeCount canonCreateColumnErrs =
      some (.new "createColumn" [.lit "negative count ", .arg "%d" .count, .lit " for constant column \"", .arg "%s" .name, .lit "\""]) ∧
    List.lookup ESite.unknownType canonCreateColumnErrs =
      some (.new "createColumn" [.lit "unknown column data type \"", .arg "%s" .typeOfData, .lit "\" for column \"", .arg "%s" .name, .lit "\""]) := by
  decide

/-- **The errors of today's `createColumn`**, for every column name `name`, count `count`, type text `ty` and every error
`cause` the enum constructor returned:
* `ecolumn.New` / `ecolumn.NewConst` failed: `qerrors.Propagate("New columns " + name, cause)` — an `Error` whose operation
  names the column and whose source IS the constructor's error (its text: `New columns <name> (<text of the cause>)`);
* a constant column with a negative count: `qerrors.New("createColumn", "negative count <count> for constant column "<name>"")`;
* data of a type that is not supported: `qerrors.New("createColumn", "unknown column data type "<ty>" for column "<name>"")`.
None of the four is `nil`. -/
theorem gen_createcolumn_errors (name ty : String) (count : Int) (cause : ErrV) :
    let E : EEnv := { name := name, count := count, typeName := ty }
    genCreateColumnErr .enumCells E (some cause) = some (some (.qerr ("New columns " ++ name) "" (some cause))) ∧
    genCreateColumnErr .enumConst E (some cause) = some (some (.qerr ("New columns " ++ name) "" (some cause))) ∧
    genCreateColumnErr .negativeCount E none =
      some (some (.qerr "createColumn" ("negative count " ++ (toString count ++ (" for constant column \"" ++ (name ++ "\"")))) none)) ∧
    genCreateColumnErr .unknownType E none =
      some (some (.qerr "createColumn" ("unknown column data type \"" ++ (ty ++ ("\" for column \"" ++ (name ++ "\"")))) none)) ∧
    (ErrV.qerr ("New columns " ++ name) "" (some cause)).text = "New columns " ++ name ++ " (" ++ cause.text ++ ")" := by
  intro E
  unfold genCreateColumnErr
  rw [gen_sortglue_canon.2.2.2.2.2.2.1]
  obtain ⟨l1, l2, l3, l4⟩ := canonErrs_lookup
  refine ⟨?_, ?_, ?_, ?_, ?_⟩
  · simp [l1, EV.eval, newColumnsMsg, EMsg.eval, EPiece.eval, EArg.eval, E]
  · simp [l2, EV.eval, newColumnsMsg, EMsg.eval, EPiece.eval, EArg.eval, E]
  · simp [l3, EV.eval, EMsg.eval, EPiece.eval, EArg.eval, E]
  · simp [l4, EV.eval, EMsg.eval, EPiece.eval, EArg.eval, E]
  · simp [ErrV.text]

/-! ## `ReadSQLWithArgs` (C15) -/

section ReadSql
variable {α ρ δ χ : Type} (E : REnv α ρ δ χ) (args : List α)

/-- the frame literal `QFrame{Err: err}` -/
def errFrame : Frame := { cols := [], index := [], err := true }

/-- what `ReadSQLWithArgs` does, in closed form -/
def specReadSqlArgs : RRes :=
  let t := E.queryText E.cfg
  if E.prepare t then
    match E.query t args with
    | none => { frame := errFrame, prepared := some t, closed := true }
    | some rows =>
      match E.readSql rows E.cfg with
      | none => { frame := errFrame, prepared := some t, closed := true }
      | some (d, cols) => { frame := E.new d (some cols), prepared := some t, closed := true }
  else { frame := errFrame, prepared := some t, closed := false }

theorem canon_readsqlargs_run : canonReadSqlArgs.run E args {} = some (specReadSqlArgs E args) := by
  unfold specReadSqlArgs
  simp only [canonReadSqlArgs, RS.run, if_true]
  cases hp : E.prepare (E.queryText E.cfg)
  · simp [RS.run, RSt.res, errFrame]
  · simp only [if_true, RS.run]
    cases hq : E.query (E.queryText E.cfg) args with
    | none => simp [RS.run, RSt.res, errFrame]
    | some rows =>
      simp only [RS.run, if_true]
      cases hr : E.readSql rows E.cfg with
      | none => simp [RS.run, RSt.res, errFrame]
      | some d => obtain ⟨d, cols⟩ := d; simp [RS.run, RSt.res]

/-- **`ReadSQLWithArgs` of today's source**, for every configuration, every behaviour of the database (`Prepare`, `Query`),
of `qfsqlio.ReadSQL` and of `New`: the text prepared is `conf.Query`; a failing `Prepare` gives `QFrame{Err: err}` and no
statement to close; otherwise the statement is closed when the function returns, `stmt.Query` gets ALL of `queryArgs`, its
failure and the failure of `ReadSQL(rows, SQLConfig(conf))` each give `QFrame{Err: err}`, and else the result is
`New(data, ColumnOrder(columns...))` — the data with the column order `ReadSQL` reported. -/
theorem gen_readsqlargs_semantics : genReadSqlArgs E args = some (specReadSqlArgs E args) := by
  unfold genReadSqlArgs
  rw [gen_sortglue_canon.2.2.2.2.2.2.2]
  exact canon_readsqlargs_run E args

/-- (C15) every failure is reported: the frame carries an error whenever `Prepare`, `Query` or `ReadSQL` failed -/
theorem gen_readsqlargs_faults (h : E.prepare (E.queryText E.cfg) = false ∨ E.query (E.queryText E.cfg) args = none ∨
      ∃ rows, E.query (E.queryText E.cfg) args = some rows ∧ E.readSql rows E.cfg = none) :
    ∃ r, genReadSqlArgs E args = some r ∧ r.frame.err = true := by
  refine ⟨_, gen_readsqlargs_semantics E args, ?_⟩
  unfold specReadSqlArgs
  cases hp : E.prepare (E.queryText E.cfg)
  · simp [errFrame, hp]
  · rcases h with h | h | ⟨rows, h1, h2⟩
    · rw [hp] at h; cases h
    · simp [h, errFrame, hp]
    · simp [h1, h2, errFrame, hp]

end ReadSql

/-! ## Witnesses: concrete inputs meet the hypotheses, plausible mutations are different terms and violate the statements -/

section Witnesses

/-- callees for the samples: a comparable remembers its column and flags, the sorter reverses the rows -/
def wP : Prims (Bytes × Bool × Bool × Bool) :=
  { comparable := fun c r e n => (c.name, r, e, n), sort := fun ix _ => some ix.reverse }

/-- a frame of an int column `a` and a string column `b` whose index is `[5, 2, 7]` -/
def wF : Frame :=
  { cols := [{ name := [97], ty := .int, cells := #[] }, { name := [98], ty := .string, cells := #[] }], index := [5, 2, 7] }

/-- orders `a` reversed, `b` nulls last, `a` again -/
def wOs : List Order := [⟨[97], true, false⟩, ⟨[98], false, true⟩, ⟨[97], false, false⟩]

/-- the hypotheses of `gen_sort_cmps_semantics` on the sample: no error, three orders, all columns known -/
example : wF.err = false ∧ wOs ≠ [] ∧ (keysOf wF wOs).map (fun ks => ks.map fun k => (k.1.name, k.2.reverse, k.2.nullLast)) =
    some [([97], true, false), ([98], false, true), ([97], false, false)] := by decide

/-- today's term on the sample: three comparables (the repeated column kept), the flags of each order, `equalNull = false`;
the copy is sorted, the receiver's index untouched -/
example : (canonSort.run wP wF wOs { recvIx := wF.index }).map (fun r => (r.frame.index, r.recvIndex)) = some ([7, 2, 5], [5, 2, 7]) ∧
    (canonSort.run wP wF wOs { recvIx := wF.index }).map (fun r => r.call.map (·.1)) = some (some [5, 2, 7]) ∧
    (canonSort.run wP wF wOs { recvIx := wF.index }).map (fun r => r.call.map (·.2)) =
      some (some [([97], true, false, false), ([98], false, false, true), ([97], false, false, false)]) := by
  decide

/-- an unknown column: the receiver with an error, nothing sorted -/
example : (canonSort.run wP wF [⟨[97], false, false⟩, ⟨[120], false, false⟩] { recvIx := wF.index }).map
    (fun r => (r.frame.index, r.frame.err, r.call.isSome)) = some ([5, 2, 7], true, false) := by decide

def sortWith (body : List SB) (ixCopy sorterIx : ISrc) : SO :=
  .ifRecvErr .recv (.ifNoOrders .recv (.makeCmps (.forOrders body (.withIndex ixCopy (.newSorter sorterIx (.sort (.ret .newFrame)))))))

/-- `s.Comparable(false, false, o.NullLast)`: the Reverse flag dropped -/
def sortNoReverse : SO := sortWith [.lookup .ordCol, .ifMissing .recvWithErr, .appendCmp (.lit false) (.lit false) .ordNullLast] .recvIndexCopy .newIndex
example : sortNoReverse ≠ canonSort := by decide
example : (sortNoReverse.run wP wF wOs { recvIx := wF.index }).map (fun r => r.call.map (·.2)) =
    some (some [([97], false, false, false), ([98], false, false, true), ([97], false, false, false)]) := by decide

/-- `s.Comparable(o.Reverse, true, o.NullLast)` -/
def sortEqualNull : SO := sortWith [.lookup .ordCol, .ifMissing .recvWithErr, .appendCmp .ordReverse (.lit true) .ordNullLast] .recvIndexCopy .newIndex
example : sortEqualNull ≠ canonSort := by decide

/-- `qf.withIndex(qf.index)`: no copy — the RECEIVER's index array is sorted -/
def sortInPlace : SO := sortWith canonSortBody .recvIndex .newIndex
example : sortInPlace ≠ canonSort := by decide
example : (sortInPlace.run wP wF wOs { recvIx := wF.index }).map (fun r => (r.frame.index, r.recvIndex)) = some ([7, 2, 5], [7, 2, 5]) := by decide

/-- `qfsort.New(qf.index, comparables)`: the receiver's array is sorted, the new frame keeps the unsorted copy -/
def sortWrongArray : SO := sortWith canonSortBody .recvIndexCopy .recvIndex
example : sortWrongArray ≠ canonSort := by decide
example : (sortWrongArray.run wP wF wOs { recvIx := wF.index }).map (fun r => (r.frame.index, r.recvIndex)) = some ([5, 2, 7], [7, 2, 5]) := by decide

/-- the comparable not appended: the sorter gets no comparables -/
def sortNoAppend : SO := sortWith [.lookup .ordCol, .ifMissing .recvWithErr] .recvIndexCopy .newIndex
example : sortNoAppend ≠ canonSort := by decide
example : (sortNoAppend.run wP wF wOs { recvIx := wF.index }).map (fun r => r.call.map (·.2)) = some (some []) := by decide

/-! ### `comparables` -/

def wCmp : LCol → Bool → Bool → Bool → Bytes × Bool × Bool × Bool := fun c r e n => (c.name, r, e, n)

/-- today's helper, `Null(true)`: both key columns tell nulls apart -/
example : canonComparables.run wCmp wF [[97], [98]] [⟨[97], false, false⟩, ⟨[98], false, false⟩] true =
    some [([97], false, true, false), ([98], false, true, false)] := by decide

/-- the seeded defect "the Null flag is lost after a column that cannot hold null":
`col := …; if dt := col.DataType(); dt == types.Int || dt == types.Bool { groupByNull = false }; result = append(result, col.Comparable(false, groupByNull, false))` -/
def comparablesFlagLost : CH :=
  .forLen .columns [.bindCol .ordCol, .setParamIfType [.int, .bool] false, .append none (.lit false) .param (.lit false)]
example : comparablesFlagLost ≠ canonComparables := by decide
/-- … the string column `b` after the int column `a` is compared with `equalNull = false` although `Null(true)` was asked for -/
example : comparablesFlagLost.run wCmp wF [[97], [98]] [⟨[97], false, false⟩, ⟨[98], false, false⟩] true =
    some [([97], false, false, false), ([98], false, false, false)] := by decide

/-- the seeded defect "flags of the orders": `Comparable(o.Reverse, groupByNull, o.NullLast)` for `o := orders[i]` -/
def comparablesOrderFlags : CH := .forLen .columns [.append (some .ordCol) .ordReverse .param .ordNullLast]
example : comparablesOrderFlags ≠ canonComparables := by decide

/-- the other half of that seeded defect — keys read POSITIONALLY after de-duplication — is a misuse of the helper that the
statement makes visible: the helper reads the first `len(columns)` ORDERS, so with `columns = [a, b]` (duplicates removed)
and the orders `[a, a, b]` it compares `a` twice and `b` not at all. -/
example : canonComparables.run wCmp wF [[97], [98]] [⟨[97], true, false⟩, ⟨[97], false, false⟩, ⟨[98], false, true⟩] false =
    some [([97], false, false, false), ([97], false, false, false)] := by
  decide

/-- fewer orders than columns: `orders[i]` is out of range (a panic) -/
example : canonComparables.run wCmp wF [[97], [98]] [⟨[97], false, false⟩] false = none := by decide

/-! ### `apply1` / `apply2` -/

/-- callees that record what they are called with in the name of the column they return -/
def wA : APrims Unit :=
  { apply1 := fun c _ ix => some (.col { c with name := c.name ++ [49] ++ ix.map (fun n => UInt8.ofNat n) }),
    apply2 := fun c _ c2 ix => some { c with name := c.name ++ [50] ++ c2.name ++ ix.map (fun n => UInt8.ofNat n) },
    newCol := fun t _ => { name := [], ty := t, cells := #[] },
    setColumn := fun F dst c => { F with cols := F.cols ++ [{ c with name := dst ++ [61] ++ c.name }] } }

def lastName (f : Option Frame) : Option Bytes := f.bind fun f => f.cols.getLast?.map (·.name)

/-- today's `apply2("d", "a", "b")`: `d = a.Apply2(fn, b, [5, 2, 7])` -/
example : lastName (canonApply2.run wA wF () { dst := [100], src1 := [97], src2 := [98] } {}) = some [100, 61, 97, 50, 98, 5, 2, 7] := by decide
/-- today's `apply1("d", "b")`: `d = b.Apply1(fn, [5, 2, 7])` -/
example : lastName (canonApply1.run wA wF () { dst := [100], src1 := [98] } {}) = some [100, 61, 98, 49, 5, 2, 7] := by decide

/-- `srcColumn2.Apply2(fn, srcColumn1, qf.index)`: receiver and argument swapped -/
def apply2Swapped : AP :=
  .ifRecvErr .recv (.lookup .a .src1 (.ifMissing .a .recvWithErr (.lookup .b .src2 (.ifMissing .b .recvWithErr
    (.apply2 .b .a .recvIndex (.ifErr .recvWithErr (.retSet .dst .result)))))))
example : apply2Swapped ≠ canonApply2 := by decide
example : lastName (apply2Swapped.run wA wF () { dst := [100], src1 := [97], src2 := [98] } {}) = some [100, 61, 98, 50, 97, 5, 2, 7] := by decide

/-- `srcColumn.Apply1(fn, qf.index[:0])`: no row is computed -/
def apply1EmptyIndex : AP :=
  .ifRecvErr .recv (.lookup .a .src1 (.ifMissing .a .recvWithErr (.apply1 .a .empty (.ifErr .recvWithErr
    (.wrap canonWrap .recvWithErr (.retSet .dst .wrapped))))))
example : apply1EmptyIndex ≠ canonApply1 := by decide
example : lastName (apply1EmptyIndex.run wA wF () { dst := [100], src1 := [98] } {}) = some [100, 61, 98, 49] := by decide

/-- `qf.setColumn(srcCol1, resultColumn)`: the source column is overwritten -/
def apply2SetsSource : AP :=
  .ifRecvErr .recv (.lookup .a .src1 (.ifMissing .a .recvWithErr (.lookup .b .src2 (.ifMissing .b .recvWithErr
    (.apply2 .a .b .recvIndex (.ifErr .recvWithErr (.retSet .src1 .result)))))))
example : apply2SetsSource ≠ canonApply2 := by decide
example : lastName (apply2SetsSource.run wA wF () { dst := [100], src1 := [97], src2 := [98] } {}) = some [97, 61, 97, 50, 98, 5, 2, 7] := by decide

/-- an unknown source column: the receiver with an error, nothing set -/
example : (canonApply1.run wA wF () { dst := [100], src1 := [120] } {}).map (fun f => (f.err, f.cols.length)) = some (true, 2) := by decide

/-! ### `createColumn`, `ReadSQLWithArgs` -/

/-- `return nil, err`: the error of `ecolumn.New` passed on without the column's name -/
def errsBare : List (ESite × EV) := canonCreateColumnErrs.map fun e => if e.1 = .enumCells then (e.1, .bare) else e
example : errsBare ≠ canonCreateColumnErrs := by decide
example : ((errsBare.lookup .enumCells).bind (EV.eval { name := "kind" } (some (.ext "too many values")))).map (·.map ErrV.text) =
    some (some "too many values") := by decide
example : ((canonCreateColumnErrs.lookup .enumCells).bind (EV.eval { name := "kind" } (some (.ext "too many values")))).map (·.map ErrV.text) =
    some (some "New columns kind (too many values)") := by decide

/-- a scripted database: the statement `"q"` with the arguments `[1, 2]` has rows, `ReadSQL` reports the columns `b`, `a` -/
def wE : REnv Nat Nat Nat Unit :=
  { cfg := (), queryText := fun _ => [113], prepare := fun t => t == [113],
    query := fun _ as => if as = [1, 2] then some 7 else none,
    readSql := fun r _ => if r = 7 then some (3, [[98], [97]]) else none,
    new := fun _ order => { cols := (order.getD []).map fun n => { name := n, ty := .int, cells := #[] }, index := [] } }

/-- today's term: the arguments reach `Query`, the column order reaches `New`, the statement is closed -/
example : (canonReadSqlArgs.run wE [1, 2] {}).map (fun r => (r.frame.cols.map (·.name), r.frame.err, r.closed)) =
    some ([[98], [97]], false, true) := by decide

/-- `stmt.Query(queryArgs[:0]...)`: the arguments dropped — the query fails -/
def readSqlNoArgs : RS :=
  .newConfig (.prepare (.ifErr .callErr (.deferClose (.query false (.ifErr .callErr (.readSql (.ifErr .callErr (.retNew true))))))))
example : readSqlNoArgs ≠ canonReadSqlArgs := by decide
example : (readSqlNoArgs.run wE [1, 2] {}).map (fun r => r.frame.err) = some true := by decide

/-- `return QFrame{}` for a failing `Query`: the error swallowed -/
def readSqlSwallow : RS :=
  .newConfig (.prepare (.ifErr .callErr (.deferClose (.query true (.ifErr .none (.readSql (.ifErr .callErr (.retNew true))))))))
example : readSqlSwallow ≠ canonReadSqlArgs := by decide
example : (readSqlSwallow.run wE [9] {}).map (fun r => r.frame.err) = some false ∧
    (canonReadSqlArgs.run wE [9] {}).map (fun r => r.frame.err) = some true := by decide

/-- `New(data)`: the column order dropped -/
def readSqlNoOrder : RS :=
  .newConfig (.prepare (.ifErr .callErr (.deferClose (.query true (.ifErr .callErr (.readSql (.ifErr .callErr (.retNew false))))))))
example : readSqlNoOrder ≠ canonReadSqlArgs := by decide
example : (readSqlNoOrder.run wE [1, 2] {}).map (fun r => r.frame.cols.map (·.name)) = some [] := by decide

/-- the statement not closed -/
def readSqlNoClose : RS :=
  .newConfig (.prepare (.ifErr .callErr (.query true (.ifErr .callErr (.readSql (.ifErr .callErr (.retNew true)))))))
example : readSqlNoClose ≠ canonReadSqlArgs := by decide
example : (readSqlNoClose.run wE [1, 2] {}).map (·.closed) = some false := by decide

end Witnesses

end QF.Props.C03SortGlueGen

#print axioms QF.Props.C03SortGlueGen.gen_sortglue_canon
#print axioms QF.Props.C03SortGlueGen.gen_sortglue_no_opaque
#print axioms QF.Props.C03SortGlueGen.keysOf_spec
#print axioms QF.Props.C03SortGlueGen.gen_sort_glue_semantics
#print axioms QF.Props.C03SortGlueGen.gen_sort_cmps_semantics
#print axioms QF.Props.C03SortGlueGen.gen_sort_err_iff
#print axioms QF.Props.C03SortGlueGen.gen_comparables_semantics
#print axioms QF.Props.C03SortGlueGen.gen_orders_semantics
#print axioms QF.Props.C03SortGlueGen.gen_comparables_of_names
#print axioms QF.Props.C03SortGlueGen.gen_comparables_groupby
#print axioms QF.Props.C03SortGlueGen.gen_apply12_semantics
#print axioms QF.Props.C03SortGlueGen.gen_createcolumn_errors
#print axioms QF.Props.C03SortGlueGen.gen_readsqlargs_semantics
#print axioms QF.Props.C03SortGlueGen.gen_readsqlargs_faults
