import QF.Props.C12CsvGen
/-!
# C12 / C15 — the array-level mirror never gives up: `Csv.readAll … ≠ .panic "fuel"`

`gen_csv_semantics_partial` (C12CsvGen) relates the regenerated reader to the mirror `Csv.readAll` wherever the mirror does
not end with `panic "fuel"` — the budget of its ONE loop for `nextQuotedField`, whose rounds are a refill or a byte (the
mirror's other budgets give `panic "fuel(row)"` / `"fuel(all)"`, which are other outcomes). This file discharges that
hypothesis for EVERY document, delimiter, capacity, fault position and both flags of the underlying reader, provided every
scheduled read size is ≥ 1 (the io.Reader contract the replay driver's schedules obey; a reader that forever returns
`0, nil` makes the real `nextQuotedField` spin as well).

Measure: `mu b = 2 · (bytes not yet delivered) + (loaded bytes not yet consumed)`. A refill that returns no error delivers
≥ 1 byte (`more_gen`), so `mu` drops; a byte consumed drops it by one; `reset` keeps it. `readAll` starts with
`mu = 2·|doc| < 8·|doc| + 64`.

* `quotedLoop_nf`, `nextUnquoted_nf`, `Fields_next_nf`, `rowLoop_nf`, `Reader_next_nf`, `readAllLoop_nf`
* `readAll_no_fuel` — the statement
* `gen_csv_semantics`, `gen_csv_semantics_rows`, `gen_fail_iff_reached` — the theorems of C12CsvGen without `_partial`
-/
namespace QF.Props.C12NoFuel
open QF QF.CR Csv QF.Props.C12CsvGen
set_option linter.unusedSimpArgs false
set_option linter.unusedVariables false

/-! ## The underlying reader and `more` in general (faults included) -/

def SchedOK (s : Src) : Prop := ∀ k ∈ s.sched, 1 ≤ k

theorem read_gen (s : Src) (hs : SchedOK s) (room : Nat) (hroom : 1 ≤ room) :
    SchedOK (s.read room).2.2 ∧ (s.read room).1 ++ (s.read room).2.2.rest = s.rest ∧ (s.read room).1.length ≤ room ∧
    ((s.read room).2.1 = none → 1 ≤ (s.read room).1.length) := by
  have hb := C15Faults.read_bytes s room
  refine ⟨?_, hb.1, hb.2, ?_⟩
  · unfold Src.read
    split
    · exact hs
    · split
      · exact hs
      · split
        · exact hs
        · exact fun k hk => hs k (List.mem_of_mem_drop hk)
  · unfold Src.read
    split
    · intro h; cases h
    · split
      · intro h; cases h
      · split
        · intro h; cases h
        · rename_i h1 h2 h3
          intro _
          have hne : s.rest ≠ [] := fun h => h3 (by simp [h])
          have hpos : 1 ≤ s.rest.length := List.length_pos_iff.mpr hne
          show 1 ≤ (List.take _ s.rest).length
          rw [List.length_take]
          cases hsch : s.sched with
          | nil => dsimp only; omega
          | cons k ks =>
            have := hs k (by simp [hsch])
            dsimp only; omega

/-- the invariant of the buffer, faults allowed -/
structure G (b : Buf) : Prop where
  cur : b.cursor ≤ b.len
  len : b.len ≤ b.data.size
  sched : SchedOK b.src

/-- twice the bytes not yet delivered plus the loaded bytes not yet consumed -/
def mu (b : Buf) : Nat := 2 * b.src.rest.length + (b.len - b.cursor)

theorem more_gen (b : Buf) (hb : G b) :
    G b.more.1 ∧ b.more.1.cursor = b.cursor ∧ mu b.more.1 ≤ mu b ∧ (b.more.2 = none → mu b.more.1 < mu b) := by
  obtain ⟨h1, h2, h3⟩ := hb
  have hroom : 1 ≤ C15Faults.roomOf b ∧ b.len + C15Faults.roomOf b ≤ (C15Faults.growBuf b).data.size ∧
      (C15Faults.growBuf b).cursor = b.cursor := by
    unfold C15Faults.roomOf C15Faults.growBuf
    split
    · rename_i he
      have : b.len = b.data.size := by simpa using he
      refine ⟨?_, ?_, rfl⟩ <;> simp only [Array.size_append, Array.size_replicate] <;> omega
    · rename_i he
      have : b.len ≠ b.data.size := by simpa using he
      refine ⟨?_, ?_, rfl⟩ <;> omega
  obtain ⟨r1, r2, r3, r4⟩ := read_gen b.src h3 (C15Faults.roomOf b) hroom.1
  rw [C15Faults.more_eq]
  generalize b.src.read (C15Faults.roomOf b) = rd at r1 r2 r3 r4
  obtain ⟨bytes, e, s'⟩ := rd
  simp only at r1 r2 r3 r4 ⊢
  have hlen := congrArg List.length r2
  simp only [List.length_append] at hlen
  refine ⟨⟨?_, ?_, r1⟩, hroom.2.2, ?_, ?_⟩
  · show (C15Faults.growBuf b).cursor ≤ b.len + bytes.length; omega
  · show b.len + bytes.length ≤ (writeAll _ _ _).size; rw [size_writeAll]; omega
  · show 2 * s'.rest.length + (b.len + bytes.length - (C15Faults.growBuf b).cursor) ≤ 2 * b.src.rest.length + (b.len - b.cursor)
    omega
  · intro he
    have := r4 he
    show 2 * s'.rest.length + (b.len + bytes.length - (C15Faults.growBuf b).cursor) < 2 * b.src.rest.length + (b.len - b.cursor)
    omega

theorem panic_cast {α β : Type} {w : String} (h : (Out.panic w : Out α) ≠ .panic "fuel") : (Out.panic w : Out β) ≠ .panic "fuel" := by
  intro hh; injection hh with hh; subst hh; exact h rfl

theorem panic_ne {α : Type} (w : String) (h : w ≠ "fuel") : (Out.panic w : Out α) ≠ .panic "fuel" := by
  intro hh; injection hh with hh; exact h hh

/-! ## The quoted field -/

/-- does not give up; and when it returns, the buffer is well-formed and `mu` has not grown -/
def QNF (b : Buf) (o : Out (List Byte × Bool × Option RErr × Buf)) : Prop :=
  o ≠ .panic "fuel" ∧ ∀ f eol err b', o = .ok (f, eol, err, b') → G b' ∧ mu b' ≤ mu b

theorem QNF.mono {b1 b : Buf} {o} (h : QNF b1 o) (hl : mu b1 ≤ mu b) : QNF b o :=
  ⟨h.1, fun f eol err b' ho => ⟨(h.2 f eol err b' ho).1, Nat.le_trans (h.2 f eol err b' ho).2 hl⟩⟩

theorem QNF.panic {b : Buf} (w : String) (h : w ≠ "fuel") : QNF b (.panic w) :=
  ⟨panic_ne w h, fun _ _ _ _ hh => by cases hh⟩

theorem QNF.ok {b : Buf} {f eol err} {b' : Buf} (hg : G b') (hm : mu b' ≤ mu b) : QNF b (.ok (f, eol, err, b')) := by
  refine ⟨fun h => (by cases h), fun f1 eol1 err1 b1 ho => ?_⟩
  injection ho with ho; injection ho with _ ho; injection ho with _ ho; injection ho with _ ho
  subst ho; exact ⟨hg, hm⟩

theorem quotedLoop_nf : ∀ (fuel : Nat) (b : Buf) (delim : Byte) (start w q : Nat), G b → mu b < fuel →
    QNF b (quotedLoop fuel b delim start w q) := by
  intro fuel
  induction fuel with
  | zero => intro b delim start w q _ h; omega
  | succ fuel ih =>
    intro b delim start w q hb hmu
    rw [C15Faults.quotedLoop_succ]
    obtain ⟨m1, m2, m3, m4⟩ := more_gen b hb
    split
    · split
      · split
        · rename_i hc
          simp only [Bool.and_eq_true, decide_eq_true_eq] at hc
          refine QNF.ok ⟨by show b.more.1.cursor + 1 ≤ b.more.1.len; omega, m1.len, m1.sched⟩ ?_
          show 2 * b.more.1.src.rest.length + (b.more.1.len - (b.more.1.cursor + 1)) ≤ 2 * b.src.rest.length + (b.len - b.cursor)
          unfold mu at m3; omega
        · exact QNF.ok m1 m3
      · rename_i he
        exact (ih b.more.1 delim start w q m1 (by have := m4 he; omega)).mono m3
    · rename_i hlt
      have hc : b.cursor < b.len := by omega
      have hb1 : G { b with cursor := b.cursor + 1 } := ⟨hc, hb.len, hb.sched⟩
      have hmu1 : mu { b with cursor := b.cursor + 1 } < mu b := by
        show 2 * b.src.rest.length + (b.len - (b.cursor + 1)) < 2 * b.src.rest.length + (b.len - b.cursor); omega
      have ret : ∀ (f : List Byte) (e : Bool), QNF b (.ok (f, e, none, { b with cursor := b.cursor + 1 })) :=
        fun f e => QNF.ok hb1 (Nat.le_of_lt hmu1)
      have recur : ∀ q', QNF b (quotedLoop fuel { b with cursor := b.cursor + 1 } delim start w q') :=
        fun q' => (ih _ delim start w q' hb1 (by omega)).mono (Nat.le_of_lt hmu1)
      have keep' : ∀ (b1 : Buf) (w1 : Nat), G b1 → mu b1 < mu b → QNF b (C15Faults.qKeep fuel delim start w1 b1) := by
        intro b1 w1 hg1 hm1
        unfold C15Faults.qKeep
        dsimp only
        split
        · split
          · exact (ih { b1 with data := b1.data.setIfInBounds (w1 + 1) b1.data[b1.cursor]! } delim start (w1 + 1) 0
              ⟨hg1.cur, by show b1.len ≤ (b1.data.setIfInBounds _ _).size; simpa using hg1.len, hg1.sched⟩
              (by show mu b1 < fuel; omega)).mono (Nat.le_of_lt hm1)
          · exact QNF.panic _ (by decide)
        · exact (ih b1 delim start (w1 + 1) 0 hg1 (by omega)).mono (Nat.le_of_lt hm1)
      have keep : QNF b (C15Faults.qKeep fuel delim start w { b with cursor := b.cursor + 1 }) := keep' _ _ hb1 hmu1
      unfold C15Faults.qBody
      rw [if_pos hc]
      dsimp only
      repeat' split
      all_goals first
        | exact ret _ _
        | exact keep
        | exact recur _

/-! ## The unquoted field, `fields.next` -/

def FNF (fs : Fields) (o : Out (Fields × Bool)) : Prop :=
  o ≠ .panic "fuel" ∧ ∀ fs' ok, o = .ok (fs', ok) → G fs'.buf ∧ mu fs'.buf ≤ mu fs.buf

theorem FNF.mono {f1 fs : Fields} {o} (h : FNF f1 o) (hl : mu f1.buf ≤ mu fs.buf) : FNF fs o :=
  ⟨h.1, fun fs' ok ho => ⟨(h.2 fs' ok ho).1, Nat.le_trans (h.2 fs' ok ho).2 hl⟩⟩

theorem FNF.panic {fs : Fields} (w : String) (h : w ≠ "fuel") : FNF fs (.panic w) :=
  ⟨panic_ne w h, fun _ _ hh => by cases hh⟩

theorem FNF.ok {fs fs' : Fields} {ok : Bool} (hg : G fs'.buf) (hm : mu fs'.buf ≤ mu fs.buf) : FNF fs (.ok (fs', ok)) := by
  refine ⟨fun h => (by cases h), fun f1 ok1 ho => ?_⟩
  injection ho with ho; injection ho with ho _
  subst ho; exact ⟨hg, hm⟩

theorem nextUnquoted_nf : ∀ (fuel : Nat) (fs : Fields), G fs.buf → mu fs.buf < fuel →
    FNF fs (nextUnquoted fuel fs fs.buf.cursor) := by
  intro fuel
  induction fuel with
  | zero => intro fs _ h; omega
  | succ fuel ih =>
    intro fs hb hmu
    rw [C15Faults.nextUnquoted_succ]
    obtain ⟨m1, m2, m3, m4⟩ := more_gen fs.buf hb
    have step : ∀ (fs0 : Fields), G fs0.buf → mu fs0.buf ≤ mu fs.buf → FNF fs (C15Faults.unqStep fuel fs0.buf.cursor fs0) := by
      intro fs0 hg0 hm0
      unfold C15Faults.unqStep
      split
      · split
        · rename_i hlt
          have hb1 : G { fs0.buf with cursor := fs0.buf.cursor + 1 } := ⟨hlt, hg0.len, hg0.sched⟩
          have hmu1 : mu { fs0.buf with cursor := fs0.buf.cursor + 1 } < mu fs0.buf := by
            show 2 * fs0.buf.src.rest.length + (fs0.buf.len - (fs0.buf.cursor + 1)) < 2 * fs0.buf.src.rest.length + (fs0.buf.len - fs0.buf.cursor)
            omega
          dsimp only
          split
          · exact FNF.ok hb1 (by show mu { fs0.buf with cursor := fs0.buf.cursor + 1 } ≤ mu fs.buf; omega)
          · split
            · exact FNF.ok hb1 (by show mu { fs0.buf with cursor := fs0.buf.cursor + 1 } ≤ mu fs.buf; omega)
            · exact (ih { fs0 with buf := { fs0.buf with cursor := fs0.buf.cursor + 1 } } hb1
                (by show mu { fs0.buf with cursor := fs0.buf.cursor + 1 } < fuel; omega)).mono
                (by show mu { fs0.buf with cursor := fs0.buf.cursor + 1 } ≤ mu fs.buf; omega)
        · exact FNF.panic _ (by decide)
      · exact FNF.panic _ (by decide)
    split
    · split
      · exact FNF.ok m1 m3
      · exact FNF.ok m1 m3
      · have := step { fs with buf := fs.buf.more.1 } m1 m3
        simp only [m2] at this
        exact this
    · exact step fs hb (Nat.le_refl _)

theorem Fields_next_nf (fuel : Nat) (fs : Fields) (hb : G fs.buf) (hmu : mu fs.buf < fuel) : FNF fs (fs.next fuel) := by
  rw [C15Faults.Fields_next_eq]
  obtain ⟨m1, m2, m3, m4⟩ := more_gen fs.buf hb
  have go : ∀ (fs0 : Fields), G fs0.buf → mu fs0.buf ≤ mu fs.buf → FNF fs (C15Faults.nextGo fuel fs0) := by
    intro fs0 hg0 hm0
    unfold C15Faults.nextGo
    split
    · rename_i hlt
      split
      · have hb1 : G { fs0.buf with cursor := fs0.buf.cursor + 1 } := ⟨hlt, hg0.len, hg0.sched⟩
        have hmu1 : mu { fs0.buf with cursor := fs0.buf.cursor + 1 } < mu fs0.buf := by
          show 2 * fs0.buf.src.rest.length + (fs0.buf.len - (fs0.buf.cursor + 1)) < 2 * fs0.buf.src.rest.length + (fs0.buf.len - fs0.buf.cursor)
          omega
        have hq := quotedLoop_nf fuel { fs0.buf with cursor := fs0.buf.cursor + 1 } fs0.delim (fs0.buf.cursor + 1) (fs0.buf.cursor + 1) 0
          hb1 (by omega)
        unfold nextQuoted
        dsimp only
        generalize quotedLoop fuel { fs0.buf with cursor := fs0.buf.cursor + 1 } fs0.delim (fs0.buf.cursor + 1) (fs0.buf.cursor + 1) 0 = o at hq
        cases o with
        | panic w => dsimp only; exact ⟨panic_cast hq.1, fun _ _ h => by cases h⟩
        | ok x =>
          obtain ⟨f, eol, err, b'⟩ := x
          obtain ⟨g1, g2⟩ := hq.2 f eol err b' rfl
          dsimp only
          exact FNF.ok g1 (by show mu b' ≤ mu fs.buf; omega)
      · exact (nextUnquoted_nf fuel fs0 hg0 (by omega)).mono hm0
    · exact FNF.panic _ (by decide)
  split
  · exact FNF.ok hb (Nat.le_refl _)
  · split
    · split
      · split
        · exact FNF.ok m1 m3
        · exact FNF.ok m1 m3
      · exact go { fs with buf := fs.buf.more.1 } m1 m3
    · exact go fs hb (Nat.le_refl _)

/-! ## Rows, `Reader.Next`, the whole document -/

theorem rowLoop_nf (fuel : Nat) : ∀ (n : Nat) (fs : Fields) (acc : List (List Byte)), G fs.buf → mu fs.buf < fuel →
    rowLoop fuel n fs acc ≠ .panic "fuel" ∧
    ∀ fs' row, rowLoop fuel n fs acc = .ok (fs', row) → G fs'.buf ∧ mu fs'.buf ≤ mu fs.buf := by
  intro n
  induction n with
  | zero => intro fs acc _ _; exact ⟨panic_ne (α := Fields × List (List Byte)) "fuel(row)" (by decide), fun _ _ h => (by cases h)⟩
  | succ n ih =>
    intro fs acc hb hmu
    obtain ⟨f1, f2⟩ := Fields_next_nf fuel fs hb hmu
    unfold rowLoop
    cases hn : fs.next fuel with
    | panic w => rw [hn] at f1; dsimp only; exact ⟨panic_cast f1, fun _ _ h => by cases h⟩
    | ok p =>
      obtain ⟨fs1, flag⟩ := p
      obtain ⟨g1, g2⟩ := f2 fs1 flag hn
      cases flag with
      | true =>
        dsimp only
        obtain ⟨i1, i2⟩ := ih fs1 (acc ++ [fs1.field]) g1 (by omega)
        exact ⟨i1, fun fs' row h => ⟨(i2 fs' row h).1, Nat.le_trans (i2 fs' row h).2 g2⟩⟩
      | false =>
        dsimp only
        refine ⟨fun h => (by cases h), fun fs' row h => ?_⟩
        injection h with h; injection h with h _; subst h
        exact ⟨g1, g2⟩

theorem reset_gen (b : Buf) (hb : G b) : G b.reset ∧ mu b.reset = mu b := by
  obtain ⟨h1, h2, h3⟩ := hb
  refine ⟨⟨Nat.zero_le _, ?_, h3⟩, ?_⟩
  · show b.len - b.cursor ≤ (writeAll _ _ _).size
    rw [size_writeAll]; omega
  · show 2 * b.src.rest.length + (b.len - b.cursor - 0) = 2 * b.src.rest.length + (b.len - b.cursor)
    omega

theorem Reader_next_eq (fuel : Nat) (r : Reader) :
    r.next fuel =
      if r.fs.err != none then .ok (r, false) else
      match rowLoop fuel fuel { r.fs with buf := r.fs.buf.reset, field := [], fieldStart := 0, hitEOL := false } [] with
      | .panic w => .panic w
      | .ok (fs, row) =>
        if (trimRow row).isEmpty then
          .ok ({ fs := if fs.err == none then { fs with err := some .eof } else fs, row := [] }, false)
        else .ok ({ fs := fs, row := trimRow row }, true) := rfl

theorem Reader_next_nf (fuel : Nat) (r : Reader) (hb : G r.fs.buf) (hmu : mu r.fs.buf < fuel) :
    r.next fuel ≠ .panic "fuel" ∧ ∀ r' ok, r.next fuel = .ok (r', ok) → G r'.fs.buf ∧ mu r'.fs.buf ≤ mu r.fs.buf := by
  obtain ⟨g1, g2⟩ := reset_gen r.fs.buf hb
  obtain ⟨l1, l2⟩ := rowLoop_nf fuel fuel { r.fs with buf := r.fs.buf.reset, field := [], fieldStart := 0, hitEOL := false } []
    g1 (by show mu r.fs.buf.reset < fuel; omega)
  rw [Reader_next_eq]
  by_cases he : (r.fs.err != none) = true
  · rw [if_pos he]
    refine ⟨fun h => (by cases h), fun r' ok h => ?_⟩
    injection h with h; injection h with h _; subst h
    exact ⟨hb, Nat.le_refl _⟩
  · rw [if_neg he]
    cases hr : rowLoop fuel fuel { r.fs with buf := r.fs.buf.reset, field := [], fieldStart := 0, hitEOL := false } [] with
    | panic w => rw [hr] at l1; dsimp only; exact ⟨panic_cast l1, fun _ _ h => by cases h⟩
    | ok p =>
      obtain ⟨fs1, row⟩ := p
      obtain ⟨k1, k2⟩ := l2 fs1 row hr
      have k2' : mu fs1.buf ≤ mu r.fs.buf := by rw [← g2]; exact k2
      dsimp only
      by_cases hemp : (trimRow row).isEmpty = true
      · rw [if_pos hemp]
        refine ⟨fun h => (by cases h), fun r' ok h => ?_⟩
        injection h with h; injection h with h _; subst h
        show G (if fs1.err == none then { fs1 with err := some .eof } else fs1).buf ∧
          mu (if fs1.err == none then { fs1 with err := some .eof } else fs1).buf ≤ mu r.fs.buf
        split <;> exact ⟨k1, k2'⟩
      · rw [if_neg hemp]
        refine ⟨fun h => (by cases h), fun r' ok h => ?_⟩
        injection h with h; injection h with h _; subst h
        exact ⟨k1, k2'⟩

theorem readAllLoop_nf (fuel : Nat) : ∀ (n : Nat) (r : Reader) (acc : List (List (List Byte))), G r.fs.buf → mu r.fs.buf < fuel →
    Csv.readAllLoop fuel n r acc ≠ .panic "fuel" := by
  intro n
  induction n with
  | zero => intro r acc _ _; exact panic_ne _ (by decide)
  | succ n ih =>
    intro r acc hb hmu
    obtain ⟨f1, f2⟩ := Reader_next_nf fuel r hb hmu
    unfold Csv.readAllLoop
    cases hn : r.next fuel with
    | panic w => rw [hn] at f1; dsimp only; exact panic_cast f1
    | ok p =>
      obtain ⟨r1, flag⟩ := p
      obtain ⟨g1, g2⟩ := f2 r1 flag hn
      cases flag with
      | true => dsimp only; exact ih r1 _ g1 (by omega)
      | false => dsimp only; exact fun h => by cases h

/-- **The mirror never gives up.** For every document, delimiter, initial capacity, fault position and both flags of the
underlying reader: if every scheduled read size is ≥ 1, `Csv.readAll` does not end with `panic "fuel"`. -/
theorem readAll_no_fuel (doc : List Byte) (sched : List Nat) (delim : Byte) (cap : Nat) (failAt : Option Nat) (eofWD fwd : Bool)
    (hs : ∀ k ∈ sched, 1 ≤ k) :
    Csv.readAll doc sched delim cap failAt eofWD fwd ≠ .panic "fuel" := by
  unfold Csv.readAll
  refine readAllLoop_nf _ _ _ _ ⟨Nat.le_refl _, Nat.zero_le _, hs⟩ ?_
  show 2 * doc.length + (0 - 0) < 8 * doc.length + 64
  omega

/-! ## The theorems of C12CsvGen without `_partial` -/

/-- **The CSV reader regenerated from today's source is the hand mirror**, for every document, delimiter, buffer capacity,
fault position and the two flags of the underlying reader, and every read schedule whose reads are ≥ 1 byte: interpreting
today's extracted functions yields exactly what the mirror yields — the rows, the final error, the final state of buffer and
reader, or a panic of the same class. (`gen_csv_semantics_partial` with its hypothesis discharged by `readAll_no_fuel`.) -/
theorem gen_csv_semantics (doc : List Byte) (sched : List Nat) (delim : Byte) (cap : Nat) (failAt : Option Nat) (eofWD fwd : Bool)
    (hs : ∀ k ∈ sched, 1 ≤ k) :
    CR.readAll Gen.csvFns doc sched delim cap failAt eofWD fwd = embed (C15Faults.readAll' doc sched delim cap failAt eofWD fwd) :=
  gen_csv_semantics_partial doc sched delim cap failAt eofWD fwd (readAll_no_fuel doc sched delim cap failAt eofWD fwd hs)

/-- … in terms of `Csv.readAll` -/
theorem gen_csv_semantics_rows (doc : List Byte) (sched : List Nat) (delim : Byte) (cap : Nat) (failAt : Option Nat) (eofWD fwd : Bool)
    (hs : ∀ k ∈ sched, 1 ≤ k) :
    rowsErr (CR.readAll Gen.csvFns doc sched delim cap failAt eofWD fwd) = embed (Csv.readAll doc sched delim cap failAt eofWD fwd) :=
  gen_csv_semantics_rows_partial doc sched delim cap failAt eofWD fwd (readAll_no_fuel doc sched delim cap failAt eofWD fwd hs)

/-- C15 for the regenerated reader, every schedule of reads ≥ 1: a run of today's extracted functions ends with the failure
of the underlying reader iff the failing `Read` call was made. -/
theorem gen_fail_iff_reached (doc : List Byte) (sched : List Nat) (delim : Byte) (cap k : Nat) (eofWD fwd : Bool)
    (hs : ∀ k ∈ sched, 1 ≤ k)
    (rows : List (List (List Byte))) (e : Option RErr) (h : Reader)
    (hrun : CR.readAll Gen.csvFns doc sched delim cap (some k) eofWD fwd = .ok (rows, e, h)) :
    e = some .fail ↔ k < h.fs.buf.src.calls :=
  gen_fail_iff_reached_partial doc sched delim cap k eofWD fwd (readAll_no_fuel doc sched delim cap (some k) eofWD fwd hs) rows e h hrun

/-- a document with a quoted field and a doubled quote, read one byte at a time into a 4-byte buffer, the 7th call failing
together with its data -/
example : CR.readAll Gen.csvFns C12CsvGen.docEscaped [1, 1, 1, 1, 1, 1, 1, 1] 44 4 (some 6) false true =
    embed (C15Faults.readAll' C12CsvGen.docEscaped [1, 1, 1, 1, 1, 1, 1, 1] 44 4 (some 6) false true) :=
  gen_csv_semantics _ _ _ _ _ _ _ (by decide)

#print axioms readAll_no_fuel
#print axioms gen_csv_semantics
#print axioms gen_csv_semantics_rows
#print axioms gen_fail_iff_reached

end QF.Props.C12NoFuel
