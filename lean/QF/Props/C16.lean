import QF.Core.AppendF
/-!
# C16 — float text: the formatter's integer layout

`layoutInt_spec`: for every buffer (any content, any stale spare capacity), the `dE ≥ 0`
layout of `appendF` yields old content ++ digits ++ zeros — "regardless of what is already
in the output buffer".
-/
namespace QF.Props.C16

theorem layoutInt_spec (b : AF.Buf) (m outLen dE : Nat) (extra : List AF.Byte) :
    (AF.layoutInt b m outLen dE extra).content = b.content ++ AF.digitsN outLen m ++ AF.zeros dE :=
  AF.layoutInt_spec b m outLen dE extra

end QF.Props.C16
