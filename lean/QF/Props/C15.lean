import QF.Props.Tie
/-! # C15 -/
namespace QF.Props.C15

/-- T1: the functions this property's mirror model follows have today the source text the model was written against. -/
-- Tie audit (bin/selftest-ties): the following functions are not compared as text any more; every behaviour-changing edit of
-- them makes a `gen_*_canon` theorem of this property's modules fail, renaming their locals or reformatting them changes nothing:
-- `QFrame.ToCSV`, `QFrame.ToJSON`: `Gen.toCsvAst` / `Gen.toJsonAst` (wast.go) + `Gen.guardAst2`, `C13WriterGen.gen_tocsv_canon` + `gen_tocsv_error`, `C14WriterGen.gen_tojson_canon` + `gen_tojson_fault`,
-- `C10Guards.gen_guards2_canon`. `eofReaderWrapper.Read`, `bufferedReader.more`: `Gen.csvFns`, `C12CsvCanon.gen_csv_canon` + `C12CsvGen.gen_csv_wrapRead` / `gen_csv_more`.
-- ToSQL is regenerated in `Gen.toSqlAst` (C19SqlWriteGen.gen_tosql_fault), ReadCSV's glue in `Gen.readCsvAst` (C12GlueGen.gen_csvglue_faults), ReadSQL in `Gen.readSqlAst` (C19ReadSqlGen.gen_readsql_faults).
-- `ReadSQLWithArgs` is regenerated statement by statement in `Gen.readSqlArgsAst` (sortgast.go: config → `Prepare(conf.Query)` → `defer Close` → `Query(queryArgs...)` →
-- `qfsqlio.ReadSQL` → `New(data, ColumnOrder(columns...))`, every failure returned as `QFrame{Err: err}`): `C03SortGlueGen.gen_sortglue_canon` + `gen_readsqlargs_semantics` / `gen_readsqlargs_faults`.
theorem tie : Tie.sameAll [] = true := by decide

end QF.Props.C15
