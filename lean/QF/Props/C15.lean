import QF.Props.Tie
/-! # C15 -/
namespace QF.Props.C15

/-- T1: the functions this property's mirror model follows have today the source text the model was written against. -/
theorem tie : Tie.sameAll ["qframe.QFrame.ToCSV", "qframe.QFrame.ToJSON", "qframe.QFrame.ToSQL", "io.ReadCSV", "sql.ReadSQL", "qframe.ReadSQLWithArgs", "fastcsv.eofReaderWrapper.Read", "fastcsv.bufferedReader.more"] = true := by decide

end QF.Props.C15
